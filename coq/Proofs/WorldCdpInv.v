(* C02 instance for x/cdp, part 1: the three invariants the no-panic proof of the cdp begin
   blocker needs on top of Inv3 (Proofs/CdpOwn.v), and their preservation by the helpers.

   [BalNN s]   every x/bank balance is non-negative (x/bank never lets a balance go below zero);
   [DepPos s]  every deposit record is strictly positive (a deposit of amount x > 0 creates or
               increases a record; a withdrawal that empties a record deletes it; seizure and close
               delete the records; the keeper reward may write a zero record, but the seizure that
               follows in the same transaction deletes it or the transaction fails);
   [FeeInv s]  every global interest factor is >= 1, and every stored cdp has principal >= 0,
               accumulated fees >= 0 and an interest factor in (0, global factor of its type] -
               in particular the global factor of a collateral type with a stored cdp is set. *)
From Kava Require Import Base.Prelude Base.Dec Model.Cdp Proofs.CdpRatio Proofs.Cdp Proofs.CdpInv Proofs.CdpInv2
  Proofs.CdpInv3 Proofs.CdpCust Proofs.CdpOwn.
Local Open Scope Z_scope.

(** * Arithmetic of the interest factors *)
Lemma rel_pow_fuel_ge b : 0 < b -> forall fuel x n z, b <= x -> b <= z -> b <= rel_pow_fuel fuel x n b z.
Proof.
  intros Hb. induction fuel as [|k IH]; intros x n z Hx Hz; cbn [rel_pow_fuel]; [exact Hz|].
  destruct (n / 2 =? 0); [exact Hz|].
  assert (Hb2 : 0 <= b / 2) by (apply Z.div_pos; lia).
  assert (Hx' : x <= (x * x + b / 2) / b) by (apply Z.div_le_lower_bound; nia).
  apply IH; [lia|].
  destruct (_ mod 2 =? 0); [exact Hz|].
  assert (z <= (z * ((x * x + b / 2) / b) + b / 2) / b) by (apply Z.div_le_lower_bound; nia). lia.
Qed.

Lemma rel_pow_ge x n b : 0 < b -> b <= x -> b <= rel_pow x n b.
Proof.
  intros Hb Hx. unfold rel_pow. destruct (Z.eqb_spec x 0); [lia|].
  apply rel_pow_fuel_ge; [exact Hb|exact Hx|]. destruct (_ =? 0); lia.
Qed.

Lemma interest_factor_ge rate secs : PREC <= rate -> PREC <= interest_factor rate secs.
Proof. intros H. unfold interest_factor. apply rel_pow_ge; [apply PREC_pos|exact H]. Qed.

Lemma dec_mul_ge a f : 0 <= a -> PREC <= f -> a <= dec_mul a f.
Proof.
  intros Ha Hf. unfold dec_mul. rewrite <- (chop_round_exact a Ha) at 1.
  apply chop_round_mono_nonneg. pose proof PREC_pos. nia.
Qed.

Lemma dec_quo_ge_one a b : 0 < b -> b <= a -> PREC <= dec_quo a b.
Proof.
  intros Hb Hab. unfold dec_quo. pose proof PREC_pos as HP.
  rewrite Z.quot_div_nonneg by nia.
  rewrite <- (chop_round_exact PREC ltac:(lia)) at 1.
  apply chop_round_mono_nonneg. split; [nia|]. apply Z.div_le_lower_bound; nia.
Qed.

Lemma new_interest_nonneg gf cf debt : 0 < cf -> cf <= gf -> 0 <= debt -> 0 <= new_interest gf cf debt.
Proof.
  intros Hc Hg Hd. unfold new_interest. pose proof (dec_quo_ge_one gf cf Hc Hg) as Hf.
  set (f := dec_quo gf cf) in *. destruct (f =? PREC); [lia|].
  pose proof PREC_pos as HP.
  assert (E : dec_mul (dec_of_int debt) f = debt * f).
  { unfold dec_mul, dec_of_int. replace (debt * PREC * f) with (debt * f * PREC) by ring.
    apply chop_round_exact. nia. }
  rewrite E. unfold dec_round_int.
  assert (debt <= chop_round (debt * f)).
  { rewrite <- (chop_round_exact debt Hd) at 1. apply chop_round_mono_nonneg. nia. }
  lia.
Qed.

(** * The invariants *)
Definition BalNN (s : state) : Prop := forall a d, 0 <= bal s a d.
Definition DepPos (s : state) : Prop := forall id u a, deps s id u = Some a -> 0 < a.
Definition cdp_fee_ok (s : state) (t : nat) (c : cdp) : Prop :=
  0 <= c_prin c /\ 0 <= c_fees c /\ exists gf, ifac s t = Some gf /\ 0 < c_ifac c <= gf.
Definition FeeInv (s : state) : Prop :=
  (forall t gf, ifac s t = Some gf -> PREC <= gf) /\
  (forall t id c, cdps s t id = Some c -> cdp_fee_ok s t c).

Definition Inv4 (e : env) (s : state) : Prop := Inv3 e s /\ BalNN s /\ DepPos s /\ FeeInv s.

(** ** x/bank primitives *)
Lemma b_send_nn s f t d x s' : BalNN s -> b_send s f t d x = Some s' -> BalNN s'.
Proof.
  intros H. unfold b_send. destruct (Z.leb_spec x 0); [intros E; inversion E; subst; exact H|].
  destruct (Z.ltb_spec (bal s f d) x); [discriminate|]. intros E; inversion E; subst; clear E.
  intros a d0. cbn. unfold upd2.
  pose proof (H a d0). pose proof (H t d). pose proof (H f d).
  repeat match goal with |- context [Nat.eqb ?p ?q] => destruct (Nat.eqb_spec p q) end; cbn [andb]; subst; lia.
Qed.

Lemma b_mint_nn s m d x : BalNN s -> BalNN (b_mint s m d x).
Proof.
  intros H. unfold b_mint. destruct (Z.leb_spec x 0); [exact H|].
  intros a d0. cbn. unfold upd2. pose proof (H a d0). pose proof (H m d).
  repeat match goal with |- context [Nat.eqb ?p ?q] => destruct (Nat.eqb_spec p q) end; cbn [andb]; subst; lia.
Qed.

Lemma b_burn_nn s m d x s' : BalNN s -> b_burn s m d x = Some s' -> BalNN s'.
Proof.
  intros H. unfold b_burn. destruct (Z.leb_spec x 0); [intros E; inversion E; subst; exact H|].
  destruct (Z.ltb_spec (bal s m d) x); [discriminate|]. intros E; inversion E; subst; clear E.
  intros a d0. cbn. unfold upd2. pose proof (H a d0). pose proof (H m d).
  repeat match goal with |- context [Nat.eqb ?p ?q] => destruct (Nat.eqb_spec p q) end; cbn [andb]; subst; lia.
Qed.

Lemma BalNN_eq s s' : bal s' = bal s -> BalNN s -> BalNN s'.
Proof. intros E H a d. rewrite E. apply H. Qed.

Lemma bank_only_ifac s s' : bank_only s s' -> ifac s' = ifac s.
Proof. intros (_&_&_&_&_&P&_). exact P. Qed.
Lemma bank_only_ptime s s' : bank_only s s' -> ptime s' = ptime s.
Proof. intros (_&_&_&_&_&_&P&_). exact P. Qed.

(** ** frames of DepPos and FeeInv *)
Lemma DepPos_eq s s' : deps s' = deps s -> DepPos s -> DepPos s'.
Proof. intros E H id u a. rewrite E. apply H. Qed.

(* records are only deleted *)
Lemma DepPos_sub s s' : (forall id u a, deps s' id u = Some a -> deps s id u = Some a) -> DepPos s -> DepPos s'.
Proof. intros E H id u a Ha. eapply H, E, Ha. Qed.

Lemma FeeInv_eq s s' : cdps s' = cdps s -> ifac s' = ifac s -> FeeInv s -> FeeInv s'.
Proof.
  intros Ec Ei [G F]. split.
  - intros t gf. rewrite Ei. apply G.
  - intros t id c. rewrite Ec. intros H. destruct (F t id c H) as (A & B & gf & C & D).
    split; [exact A|split; [exact B|]]. exists gf. rewrite Ei. auto.
Qed.

Lemma FeeInv_bank s s' : bank_only s s' -> FeeInv s -> FeeInv s'.
Proof. intros B. apply FeeInv_eq; [apply (bank_only_cdps _ _ B)|apply (bank_only_ifac _ _ B)]. Qed.
Lemma DepPos_bank s s' : bank_only s s' -> DepPos s -> DepPos s'.
Proof. intros B. apply DepPos_eq. apply (bank_only_deps _ _ B). Qed.

(* a record is written at (T, I): the new record is fee-ok *)
Lemma FeeInv_store s s' T I c :
  (forall t id, cdps s' t id = upd2 (cdps s) T I (Some c) t id) -> ifac s' = ifac s ->
  cdp_fee_ok s T c -> FeeInv s -> FeeInv s'.
Proof.
  intros Ec Ei Hc [G F]. split.
  - intros t gf. rewrite Ei. apply G.
  - intros t id c0. rewrite Ec. unfold upd2.
    destruct (Nat.eqb_spec t T) as [->|]; [destruct (Nat.eqb_spec id I) as [->|]|]; cbn [andb]; intros H.
    + inversion H; subst. unfold cdp_fee_ok. rewrite Ei. exact Hc.
    + unfold cdp_fee_ok. rewrite Ei. apply (F _ _ _ H).
    + unfold cdp_fee_ok. rewrite Ei. apply (F _ _ _ H).
Qed.

(* a record is deleted *)
Lemma FeeInv_remove s s' T I :
  (forall t id, cdps s' t id = upd2 (cdps s) T I None t id) -> ifac s' = ifac s -> FeeInv s -> FeeInv s'.
Proof.
  intros Ec Ei [G F]. split.
  - intros t gf. rewrite Ei. apply G.
  - intros t id c0. rewrite Ec. unfold upd2. destruct (_ && _); [discriminate|]. intros H.
    unfold cdp_fee_ok. rewrite Ei. apply (F _ _ _ H).
Qed.

(* the global factors only grow (and stay >= 1) *)
Lemma FeeInv_grow s s' :
  cdps s' = cdps s ->
  (forall t gf, ifac s t = Some gf -> exists gf', ifac s' t = Some gf' /\ gf <= gf') ->
  (forall t gf', ifac s' t = Some gf' -> PREC <= gf') ->
  FeeInv s -> FeeInv s'.
Proof.
  intros Ec Hm Hg [G F]. split; [exact Hg|].
  intros t id c. rewrite Ec. intros H. destruct (F t id c H) as (A & B & gf & C & D).
  split; [exact A|split; [exact B|]]. destruct (Hm t gf C) as (gf' & C' & L). exists gf'. split; [exact C'|lia].
Qed.

(** ** UpdateCdpAndCollateralRatioIndex / SynchronizeInterest *)
Lemma update_cdp_more e s cp c r s' u :
  update_cdp e s cp c r = Ok s' u ->
  (forall t id, cdps s' t id = upd2 (cdps s) (c_type c) (c_id c) (Some c) t id) /\
  ifac s' = ifac s /\ bal s' = bal s /\ deps s' = deps s.
Proof. intros H. apply update_cdp_spec in H. destruct H as (old & _ & ->). cbn. repeat split. Qed.

Lemma update_cdp_FeeInv e s cp c r s' u :
  update_cdp e s cp c r = Ok s' u -> cdp_fee_ok s (c_type c) c -> FeeInv s -> FeeInv s'.
Proof. intros H Hc HF. destruct (update_cdp_more _ _ _ _ _ _ _ H) as (A & B & _). eapply FeeInv_store; eauto. Qed.

(* the record returned (and stored) by SynchronizeInterest is fee-ok *)
Lemma sync_interest_FeeInv e s cp c s1 c1 :
  FeeInv s -> cdps s (c_type c) (c_id c) = Some c -> sync_interest e s cp c = Ok s1 c1 ->
  FeeInv s1 /\ cdp_fee_ok s1 (c_type c) c1 /\ ifac s1 = ifac s.
Proof.
  intros HF Hst. pose proof HF as [G F]. destruct (F _ _ _ Hst) as (A & B & gf & C & D).
  unfold sync_interest. rewrite C.
  destruct (ptime s (c_type c)) as [prev|].
  2:{ intros H; inversion H; subst. split; [exact HF|split; [|reflexivity]]. apply (F _ _ _ Hst). }
  pose proof (new_interest_nonneg gf (c_ifac c) (cdp_debt c) ltac:(lia) ltac:(lia) ltac:(unfold cdp_debt; lia)) as Hacc.
  set (acc := new_interest gf (c_ifac c) (cdp_debt c)) in *.
  destruct ((acc =? 0) && (c_upd c =? prev)).
  { intros H; inversion H; subst. split; [exact HF|split; [|reflexivity]]. apply (F _ _ _ Hst). }
  destruct (update_cdp _ _ _ _ _) as [s2 []| |] eqn:E; try discriminate.
  intros H; inversion H; subst s2 c1; clear H.
  destruct (update_cdp_more _ _ _ _ _ _ _ E) as (U1 & U2 & _).
  assert (Hnew : forall sx, ifac sx = ifac s -> forall cx, c_prin cx = c_prin c -> c_fees cx = c_fees c ->
     cdp_fee_ok sx (c_type c) (with_fees cx (c_fees cx + acc) prev gf)).
  { intros sx Ex cx P1 P2. unfold cdp_fee_ok. cbn [with_fees c_prin c_fees c_ifac]. rewrite Ex, P1, P2.
    split; [lia|split; [lia|]]. exists gf. split; [exact C|]. specialize (G _ _ C). unfold PREC in G. lia. }
  destruct (acc =? 0).
  - cbn [c_type c_id with_fees] in *.
    assert (HF1 : FeeInv (put_cdp s (with_fees c (c_fees c) prev (c_ifac c)))).
    { apply (FeeInv_store s _ (c_type c) (c_id c) (with_fees c (c_fees c) prev (c_ifac c))); [reflexivity|reflexivity| |exact HF].
      unfold cdp_fee_ok. cbn. split; [lia|split; [lia|]]. exists gf. auto. }
    split; [|split].
    + eapply FeeInv_store; [exact U1|exact U2| |exact HF1]. apply Hnew; reflexivity.
    + apply Hnew; [rewrite U2; reflexivity|reflexivity|reflexivity].
    + rewrite U2. reflexivity.
  - split; [|split].
    + eapply FeeInv_store; [exact U1|exact U2| |exact HF]. apply (Hnew s); reflexivity.
    + apply Hnew; [exact U2|reflexivity|reflexivity].
    + exact U2.
Qed.

(** * Operations (transactions) *)
Definition New (s : state) : Prop := BalNN s /\ DepPos s /\ FeeInv s.

Lemma env_same_bal s s' : env_same s s' -> bal s' = bal s.
Proof. intros (_&_&P&_). exact P. Qed.
Lemma env_same_deps s s' : env_same s s' -> deps s' = deps s.
Proof. intros (_&_&_&_&P&_). exact P. Qed.

Lemma fee_ok_eq s s' t c : ifac s' = ifac s -> cdp_fee_ok s t c -> cdp_fee_ok s' t c.
Proof. intros E. unfold cdp_fee_ok. rewrite E. auto. Qed.
Lemma fee_ok_fields s t c c' :
  c_prin c' = c_prin c -> c_fees c' = c_fees c -> c_ifac c' = c_ifac c -> cdp_fee_ok s t c -> cdp_fee_ok s t c'.
Proof. intros E1 E2 E3. unfold cdp_fee_ok. rewrite E1, E2, E3. auto. Qed.

(* common prefix of deposit / withdraw / draw / repay / keeper liquidation:
   the cdp found is stored, SynchronizeInterest keeps everything *)
Lemma sync_New e s cp c0 s1 c :
  IdxInv e s -> New s -> get_cp e (c_type c0) = Some cp -> cdps s (c_type c0) (c_id c0) = Some c0 ->
  sync_interest e s cp c0 = Ok s1 c ->
  New s1 /\ cdp_fee_ok s1 (c_type c) c /\ c_type c = c_type c0 /\ c_id c = c_id c0 /\
  cdps s1 (c_type c) (c_id c) = Some c /\ bal s1 = bal s /\ deps s1 = deps s.
Proof.
  intros HI (HB & HD & HF) Hcp Hst Es.
  pose proof (sync_interest_spec _ _ _ _ _ _ Es) as (Henv & Hid & Hty & _).
  destruct (sync_interest_FeeInv _ _ _ _ _ _ HF Hst Es) as (HF1 & Hok & _).
  destruct (sync_interest_IdxInv _ _ _ _ _ _ HI Hcp Hst Es) as (_ & Hst1).
  pose proof (env_same_bal _ _ Henv) as Eb. pose proof (env_same_deps _ _ Henv) as Ed.
  split; [split; [eapply BalNN_eq; eauto|split; [eapply DepPos_eq; eauto|exact HF1]]|].
  split; [rewrite Hty; exact Hok|]. repeat split; assumption.
Qed.

Lemma deposit_New e s o u t cd x s' v :
  IdxInv e s -> New s -> deposit e s o u t cd x = Ok s' v -> New s'.
Proof.
  intros HI HN. unfold deposit. destruct (Z.ltb_spec 0 x) as [Hx|]; [|discriminate]. cbn [negb].
  destruct (validate_collateral e s t cd) as [cp|] eqn:Ev; [|discriminate].
  apply validate_collateral_ok in Ev. destruct Ev as (Hcp & Hcd & _).
  destruct (find_cdp e s o t) as [c0|] eqn:Ef; [|discriminate].
  destruct (find_cdp_stored' _ _ _ _ _ _ HI Ef Hcp) as [Ht Hst].
  destruct (bal s u cd <? x); [discriminate|].
  destruct (sync_interest e s cp c0) as [s1 c| |] eqn:Es; try discriminate.
  assert (Hcp0 : get_cp e (c_type c0) = Some cp) by (rewrite Ht; exact Hcp).
  destruct (sync_New _ _ _ _ _ _ HI HN Hcp0 Hst Es) as ((HB1 & HD1 & HF1) & Hok & Hty & Hid & Hst1 & _).
  destruct (b_send s1 u (CDPM e) cd x) as [s2|] eqn:Eb; [|discriminate].
  intros H. destruct (update_cdp_more _ _ _ _ _ _ _ H) as (U1 & U2 & U3 & U4).
  pose proof (b_send_frame _ _ _ _ _ _ Eb) as Fr.
  split; [|split].
  - apply (BalNN_eq s2); [rewrite U3; reflexivity|]. eapply b_send_nn; eassumption.
  - intros id w a. rewrite U4. cbn. unfold upd2. rewrite (bank_only_deps _ _ Fr).
    destruct (Nat.eqb id (c_id c) && Nat.eqb w u); [|apply HD1].
    intros E; inversion E; subst. destruct (deps s1 (c_id c) u) as [a0|] eqn:Ea; [specialize (HD1 _ _ _ Ea)|]; lia.
  - eapply update_cdp_FeeInv; [exact H| |].
    + cbn [with_coll c_type]. apply (fee_ok_eq s1); [cbn; apply (bank_only_ifac _ _ Fr)|].
      eapply fee_ok_fields; [..|exact Hok]; reflexivity.
    + apply (FeeInv_eq s1); [cbn; apply (bank_only_cdps _ _ Fr)|cbn; apply (bank_only_ifac _ _ Fr)|exact HF1].
Qed.

Lemma withdraw_New e s o u t cd x s' v :
  IdxInv e s -> New s -> withdraw e s o u t cd x = Ok s' v -> New s'.
Proof.
  intros HI HN. unfold withdraw. destruct (Z.ltb_spec 0 x) as [Hx|]; [|discriminate]. cbn [negb].
  destruct (validate_collateral e s t cd) as [cp|] eqn:Ev; [|discriminate].
  apply validate_collateral_ok in Ev. destruct Ev as (Hcp & Hcd & _).
  destruct (find_cdp e s o t) as [c0|] eqn:Ef; [|discriminate].
  destruct (find_cdp_stored' _ _ _ _ _ _ HI Ef Hcp) as [Ht Hst].
  destruct (deps s (c_id c0) u) as [a|] eqn:Ea; [|discriminate].
  destruct (Z.ltb_spec a x) as [|Hax]; [discriminate|].
  destruct (sync_interest e s cp c0) as [s1 c| |] eqn:Es; try discriminate.
  assert (Hcp0 : get_cp e (c_type c0) = Some cp) by (rewrite Ht; exact Hcp).
  destruct (sync_New _ _ _ _ _ _ HI HN Hcp0 Hst Es) as ((HB1 & HD1 & HF1) & Hok & Hty & Hid & Hst1 & _).
  destruct (c_coll c <? x); [discriminate|].
  destruct (ratio_gate _ _ _ _ _ _) as [[] []| |]; try discriminate.
  destruct (b_send s1 (CDPM e) u cd x) as [s2|] eqn:Eb; [|discriminate].
  destruct (update_cdp _ _ _ _ _) as [s3 []| |] eqn:Eu; try discriminate.
  intros H. destruct (update_cdp_more _ _ _ _ _ _ _ Eu) as (U1 & U2 & U3 & U4).
  pose proof (b_send_frame _ _ _ _ _ _ Eb) as Fr.
  assert (HF3 : FeeInv s3).
  { eapply update_cdp_FeeInv; [exact Eu| |].
    + cbn [with_coll c_type]. apply (fee_ok_eq s1); [apply (bank_only_ifac _ _ Fr)|].
      eapply fee_ok_fields; [..|exact Hok]; reflexivity.
    + eapply FeeInv_bank; eassumption. }
  assert (Hs' : cdps s' = cdps s3 /\ bal s' = bal s3 /\ ifac s' = ifac s3 /\
                deps s' = upd2 (deps s3) (c_id c) u (if a - x =? 0 then None else Some (a - x))).
  { inversion H; subst. destruct (a - x =? 0); repeat split. }
  destruct Hs' as (Q1 & Q2 & Q3 & Q4).
  split; [|split].
  - eapply BalNN_eq; [exact Q2|]. eapply BalNN_eq; [exact U3|]. eapply b_send_nn; eassumption.
  - intros id w a'. rewrite Q4, U4, (bank_only_deps _ _ Fr). unfold upd2.
    destruct (Nat.eqb id (c_id c) && Nat.eqb w u); [|apply HD1].
    destruct (Z.eqb_spec (a - x) 0); [discriminate|]. intros E; inversion E; subst. lia.
  - eapply FeeInv_eq; eassumption.
Qed.

Lemma draw_New e s o t pd x s' v :
  IdxInv e s -> New s -> draw e s o t pd x = Ok s' v -> New s'.
Proof.
  intros HI HN. unfold draw. destruct (Z.ltb_spec 0 x) as [Hx|]; [|discriminate]. cbn [negb].
  destruct (find_cdp e s o t) as [c0|] eqn:Ef; [|discriminate].
  destruct (get_cp e t) as [cp|] eqn:Hcp; [|discriminate].
  destruct (find_cdp_stored' _ _ _ _ _ _ HI Ef Hcp) as [Ht Hst].
  destruct (mstat s (cp_spot cp) && mstat s (cp_liqm cp)); [|discriminate]. cbn [negb].
  destruct (Nat.eqb pd (d_usdx e)); [|discriminate]. cbn [negb].
  destruct (debt_limit_ok e s t cp x); [|discriminate]. cbn [negb].
  destruct (sync_interest e s cp c0) as [s1 c| |] eqn:Es; try discriminate.
  assert (Hcp0 : get_cp e (c_type c0) = Some cp) by (rewrite Ht; exact Hcp).
  destruct (sync_New _ _ _ _ _ _ HI HN Hcp0 Hst Es) as ((HB1 & HD1 & HF1) & Hok & Hty & Hid & Hst1 & _).
  destruct (ratio_gate _ _ _ _ _ _) as [[] []| |]; try discriminate.
  destruct (b_send _ _ _ _ _) as [s3|] eqn:Eb; [|discriminate].
  intros H. destruct (update_cdp_more _ _ _ _ _ _ _ H) as (U1 & U2 & U3 & U4).
  pose proof (b_mint_frame s1 (CDPM e) (d_usdx e) x) as Fr1.
  pose proof (b_send_frame _ _ _ _ _ _ Eb) as Fr2.
  pose proof (b_mint_frame s3 (CDPM e) (d_debt e) x) as Fr3.
  pose proof (bank_only_trans _ _ _ (bank_only_trans _ _ _ Fr1 Fr2) Fr3) as Fr.
  split; [|split].
  - apply (BalNN_eq (b_mint s3 (CDPM e) (d_debt e) x)); [rewrite U3; reflexivity|].
    apply b_mint_nn. eapply b_send_nn; [|exact Eb]. apply b_mint_nn. exact HB1.
  - apply (DepPos_eq (b_mint s3 (CDPM e) (d_debt e) x)); [rewrite U4; reflexivity|]. eapply DepPos_bank; eassumption.
  - eapply update_cdp_FeeInv; [exact H| |].
    + cbn [with_prin c_type]. apply (fee_ok_eq s1); [cbn; apply (bank_only_ifac _ _ Fr)|].
      destruct Hok as (A & B & C). split; [cbn; lia|split; [exact B|exact C]].
    + apply (FeeInv_eq s1); [cbn; apply (bank_only_cdps _ _ Fr)|cbn; apply (bank_only_ifac _ _ Fr)|exact HF1].
Qed.

Lemma create_New e s o t cd coll pd prin s' v :
  New s -> create e s o t cd coll pd prin = Ok s' v -> New s'.
Proof.
  intros (HB & HD & HF). unfold create. destruct (Z.ltb_spec 0 coll) as [Hc0|]; [|discriminate]. cbn [andb].
  destruct (Z.ltb_spec 0 prin) as [Hp0|]; [|discriminate]. cbn [negb].
  destruct (validate_collateral e s t cd) as [cp|] eqn:Ev; [|discriminate].
  destruct (bal s o cd <? coll); [discriminate|].
  destruct (find_cdp e s o t); [discriminate|].
  destruct (Nat.eqb pd (d_usdx e)); [|discriminate]. cbn [negb].
  destruct (prin <? dp_floor e); [discriminate|].
  destruct (debt_limit_ok e s t cp prin); [|discriminate]. cbn [negb].
  destruct (ratio_gate e s cp coll prin 0) as [[] []| |]; try discriminate.
  set (s0 := match ifac s t with Some _ => s | None => set_ifac s (upd (ifac s) t (Some PREC)) end).
  set (fac := match ifac s t with Some f => f | None => PREC end).
  destruct (b_send s0 o (CDPM e) cd coll) as [s1|] eqn:Eb1; [|discriminate].
  destruct (b_send (b_mint s1 _ _ _) _ _ _ _) as [s3|] eqn:Eb3; [|discriminate].
  intros H; inversion H; subst; clear H.
  assert (E0 : cdps s0 = cdps s /\ deps s0 = deps s /\ bal s0 = bal s) by (unfold s0; destruct (ifac s t); repeat split).
  destruct E0 as (E01 & E02 & E03).
  assert (Hfac : ifac s0 t = Some fac /\ PREC <= fac).
  { unfold s0, fac. destruct HF as [G _]. destruct (ifac s t) as [f|] eqn:Ei; [split; [exact Ei|eapply G; eassumption]|].
    cbn. unfold upd. rewrite Nat.eqb_refl. split; [reflexivity|lia]. }
  destruct Hfac as [Hfac Hfge].
  assert (HF0 : FeeInv s0).
  { apply (FeeInv_grow s); [exact E01| | |exact HF].
    - intros t0 gf Hg. exists gf. split; [|lia]. unfold s0. destruct (ifac s t) eqn:Ei; [exact Hg|].
      cbn. unfold upd. destruct (Nat.eqb_spec t0 t); [congruence|exact Hg].
    - intros t0 gf'. unfold s0. destruct HF as [G _]. destruct (ifac s t) eqn:Ei; [apply G|].
      cbn. unfold upd. destruct (Nat.eqb_spec t0 t); [intros E; inversion E; lia|apply G]. }
  pose proof (b_send_frame _ _ _ _ _ _ Eb1) as Fr1.
  pose proof (b_mint_frame s1 (CDPM e) (d_usdx e) prin) as Fr2.
  pose proof (b_send_frame _ _ _ _ _ _ Eb3) as Fr3.
  pose proof (b_mint_frame s3 (CDPM e) (d_debt e) prin) as Fr4.
  pose proof (bank_only_trans _ _ _ (bank_only_trans _ _ _ (bank_only_trans _ _ _ Fr1 Fr2) Fr3) Fr4) as Fr.
  split; [|split].
  - apply (BalNN_eq (b_mint s3 (CDPM e) (d_debt e) prin)); [reflexivity|].
    apply b_mint_nn. eapply b_send_nn; [|exact Eb3]. apply b_mint_nn. eapply b_send_nn; [|exact Eb1].
    eapply BalNN_eq; eassumption.
  - intros id w a. cbn. unfold upd2. rewrite (bank_only_deps _ _ Fr), E02.
    destruct (_ && _); [intros E; inversion E; subst; lia|apply HD].
  - apply (FeeInv_store (b_mint s3 (CDPM e) (d_debt e) prin) _ t (nextid s) (mkCdp (nextid s) o t coll prin 0 (now s) fac)).
    + intros t0 id. reflexivity.
    + reflexivity.
    + unfold cdp_fee_ok. cbn [c_prin c_fees c_ifac]. rewrite (bank_only_ifac _ _ Fr).
      split; [lia|split; [lia|]]. exists fac. split; [exact Hfac|unfold PREC in Hfge; lia].
    + eapply FeeInv_bank; eassumption.
Qed.

Lemma calc_payment_bounds prin fees x fp pp :
  0 <= prin -> 0 <= fees -> 0 < x -> calc_payment (prin + fees) fees x = (fp, pp) ->
  0 <= fp <= fees /\ 0 <= pp <= prin.
Proof.
  intros Hp Hf Hx. unfold calc_payment.
  destruct (Z.ltb_spec (prin + fees) x); destruct (Z.eqb_spec fees 0);
    try (intros E; inversion E; subst; lia);
    match goal with |- context [?a <? ?b] => destruct (Z.ltb_spec a b) end; intros E; inversion E; subst; lia.
Qed.

(* the loops over the deposits of a cdp (ReturnCollateral / SeizeCollateral) *)
Lemma return_loop_New e cp id : forall dl s s' u,
  ofold (fun s1 (d : nat * Z) =>
           match b_send s1 (CDPM e) (fst d) (cp_denom cp) (snd d) with
           | None => Panic
           | Some s2 => Ok (del_dep s2 id (fst d)) tt
           end) s dl = Ok s' u ->
  (BalNN s -> BalNN s') /\ ifac s' = ifac s /\ cdps s' = cdps s.
Proof.
  induction dl as [|d tl IH]; intros s s' u H; cbn [ofold] in H.
  - inversion H; subst. auto.
  - destruct (b_send s _ _ _ _) as [s2|] eqn:Eb; [|discriminate]. apply IH in H. destruct H as (A & B & C).
    pose proof (b_send_frame _ _ _ _ _ _ Eb) as Fr.
    split; [|split].
    + intros HB. apply A. apply (BalNN_eq s2); [reflexivity|]. eapply b_send_nn; eassumption.
    + rewrite B. cbn. apply (bank_only_ifac _ _ Fr).
    + rewrite C. cbn. apply (bank_only_cdps _ _ Fr).
Qed.

Lemma repay_New e s o t pd x s' v :
  IdxInv e s -> New s -> repay e s o t pd x = Ok s' v -> New s'.
Proof.
  intros HI HN. unfold repay. destruct (Z.ltb_spec 0 x) as [Hx|]; [|discriminate]. cbn [negb].
  destruct (find_cdp e s o t) as [c0|] eqn:Ef; [|discriminate].
  destruct (get_cp e t) as [cp|] eqn:Hcp; [|discriminate].
  destruct (find_cdp_stored' _ _ _ _ _ _ HI Ef Hcp) as [Ht Hst].
  destruct (Nat.eqb pd (d_usdx e)); [|discriminate]. cbn [negb].
  destruct (bal s o pd <? x); [discriminate|].
  destruct (sync_interest e s cp c0) as [s1 c| |] eqn:Es; try discriminate.
  assert (Hcp0 : get_cp e (c_type c0) = Some cp) by (rewrite Ht; exact Hcp).
  destruct (sync_New _ _ _ _ _ _ HI HN Hcp0 Hst Es) as ((HB1 & HD1 & HF1) & Hok & Hty & Hid & Hst1 & _).
  destruct (calc_payment (cdp_debt c) (c_fees c) x) as [fp pp] eqn:Ecp.
  destruct Hok as (Ok1 & Ok2 & Ok3).
  destruct (calc_payment_bounds _ _ _ _ _ Ok1 Ok2 Hx Ecp) as [Bf Bp].
  destruct (_ && _); [discriminate|].
  destruct (b_send s1 o (CDPM e) (d_usdx e) (fp + pp)) as [s2|] eqn:E2; [|discriminate].
  destruct (b_burn s2 _ _ _) as [s3|] eqn:E3; [|discriminate].
  destruct (b_burn s3 _ _ _) as [s4|] eqn:E4; [|discriminate].
  set (c1 := with_fees (with_prin c (c_prin c - pp)) (c_fees c - fp) (c_upd c) (c_ifac c)).
  set (s5 := set_tprin s4 _).
  pose proof (b_send_frame _ _ _ _ _ _ E2) as Fr2.
  pose proof (b_burn_frame _ _ _ _ _ E3) as Fr3.
  pose proof (b_burn_frame _ _ _ _ _ E4) as Fr4.
  pose proof (bank_only_trans _ _ _ (bank_only_trans _ _ _ Fr2 Fr3) Fr4) as Fr.
  assert (HB5 : BalNN s5).
  { apply (BalNN_eq s4); [reflexivity|]. eapply b_burn_nn; [|exact E4]. eapply b_burn_nn; [|exact E3]. eapply b_send_nn; eassumption. }
  assert (HD5 : DepPos s5) by (apply (DepPos_eq s1); [unfold s5; cbn; apply (bank_only_deps _ _ Fr)|exact HD1]).
  assert (HF5 : FeeInv s5).
  { apply (FeeInv_eq s1); [unfold s5; cbn; apply (bank_only_cdps _ _ Fr)|unfold s5; cbn; apply (bank_only_ifac _ _ Fr)|exact HF1]. }
  destruct ((c_prin c1 =? 0) && (c_fees c1 =? 0)).
  - destruct (return_collateral e s5 cp c1) as [s6 []| |] eqn:E6; try discriminate.
    destruct (get_cdp e (oidx_rm s6 (c_owner c1) (c_id c1)) (c_type c1) (c_id c1)) as [old|] eqn:Eg; [|discriminate].
    intros H; injection H as Hs'; subst s'.
    destruct (return_collateral_more _ _ _ _ _ _ E6) as (_ & _ & A8).
    unfold return_collateral in E6. apply return_loop_New in E6. destruct E6 as (R1 & R2 & R3).
    split; [|split].
    + apply (BalNN_eq s6); [reflexivity|]. apply R1, HB5.
    + apply (DepPos_sub s5); [|exact HD5]. intros id w a. cbn. rewrite A8. destruct (_ && _); [discriminate|auto].
    + apply (FeeInv_remove s5 _ (c_type c1) (c_id c1)); [| |exact HF5].
      * intros t0 id. cbn. rewrite R3. reflexivity.
      * cbn. exact R2.
  - intros H. destruct (update_cdp_more _ _ _ _ _ _ _ H) as (U1 & U2 & U3 & U4).
    split; [|split].
    + eapply BalNN_eq; eassumption.
    + eapply DepPos_eq; eassumption.
    + eapply update_cdp_FeeInv; [exact H| |exact HF5].
      apply (fee_ok_eq s1); [unfold s5; cbn; apply (bank_only_ifac _ _ Fr)|].
      unfold cdp_fee_ok, c1. cbn [with_fees with_prin c_prin c_fees c_ifac c_type].
      split; [lia|split; [lia|exact Ok3]].
Qed.

(** ** Seizure *)
Lemma start_coll_auction_nn e s ld lot mb debt ret s' u :
  BalNN s -> start_coll_auction e s ld lot mb debt ret = Ok s' u -> BalNN s'.
Proof.
  intros HB. unfold start_coll_auction.
  destruct (b_send s (LIQM e) (AUCM e) ld lot) as [s1|] eqn:E1; [|discriminate].
  destruct (b_send s1 (LIQM e) (AUCM e) (d_debt e) debt) as [s2|] eqn:E2; [|discriminate].
  intros H; inversion H; subst. apply (BalNN_eq s2); [reflexivity|].
  eapply b_send_nn; [|exact E2]. eapply b_send_nn; eassumption.
Qed.

Lemma whole_auctions_nn e cp ret n dpa : forall s un s' un',
  BalNN s -> whole_auctions e cp ret n dpa s un = Ok s' un' -> BalNN s'.
Proof.
  induction n as [|n IH]; intros s un s' un' HB H; cbn [whole_auctions] in H.
  - inversion H; subst. exact HB.
  - destruct (start_coll_auction _ _ _ _ _ _ _) as [s1 []| |] eqn:E; try discriminate.
    eapply IH; [|exact H]. eapply start_coll_auction_nn; eassumption.
Qed.

Lemma auctions_from_deposit_nn e cp s ret coll debt s' u :
  BalNN s -> auctions_from_deposit e cp s ret coll debt = Ok s' u -> BalNN s'.
Proof.
  intros HB. unfold auctions_from_deposit. destruct (coll =? 0); [discriminate|]. cbv zeta.
  destruct (whole_auctions _ _ _ _ _ _ _) as [s1 un2| |] eqn:E; try discriminate.
  apply whole_auctions_nn in E; [|exact HB].
  destruct (_ mod _ <=? 0).
  - intros H; inversion H; subst. exact E.
  - intros H. eapply start_coll_auction_nn; eassumption.
Qed.

Lemma auction_deposits_nn e cp total debt dl : forall s rem s' u,
  BalNN s -> auction_deposits e cp total debt s dl rem = Ok s' u -> BalNN s'.
Proof.
  induction dl as [|d tl IH]; intros s rem s' u HB H; cbn [auction_deposits] in H.
  - inversion H; subst. exact HB.
  - destruct (total =? 0); [discriminate|]. cbv zeta in H.
    destruct (auctions_from_deposit _ _ _ _ _ _) as [s1 []| |] eqn:E; try discriminate.
    eapply IH; [|exact H]. eapply auctions_from_deposit_nn; eassumption.
Qed.

Lemma seize_loop_nn e cp id : forall dl s1 s4 u,
  ofold (fun s2 (d : nat * Z) =>
           match b_send s2 (CDPM e) (LIQM e) (cp_denom cp) (snd d) with
           | None => Err
           | Some s3 => Ok (del_dep s3 id (fst d)) tt
           end) s1 dl = Ok s4 u ->
  (BalNN s1 -> BalNN s4) /\ ifac s4 = ifac s1.
Proof.
  induction dl as [|d tl IH]; intros s1 s4 u H; cbn [ofold] in H.
  - inversion H; subst. auto.
  - destruct (b_send s1 _ _ _ _) as [s3|] eqn:Eb; [|discriminate]. apply IH in H. destruct H as (A & B).
    split.
    + intros HB. apply A. apply (BalNN_eq s3); [reflexivity|]. eapply b_send_nn; eassumption.
    + rewrite B. cbn. apply (bank_only_ifac _ _ (b_send_frame _ _ _ _ _ _ Eb)).
Qed.

Lemma seize_more e s cp c s' u :
  seize e s cp c = Ok s' u ->
  (BalNN s -> BalNN s') /\ ifac s' = ifac s /\
  (forall i w, deps s' i w =
     if Nat.eqb i (c_id c) && existsb (Nat.eqb w) (map fst (dep_list e s (c_id c))) then None else deps s i w).
Proof.
  unfold seize. intros H.
  destruct (b_send s _ _ _ _) as [s1|] eqn:E1; [|discriminate].
  destruct (ofold _ s1 _) as [s4 []| |] eqn:E2; try discriminate.
  destruct (auction_collateral _ _ _ _ _) as [s5 []| |] eqn:E3; try discriminate.
  inversion H; subst; clear H.
  pose proof (b_send_frame _ _ _ _ _ _ E1) as Fr1.
  pose proof (auction_collateral_frame _ _ _ _ _ _ _ E3) as Fr3.
  destruct (seize_loop_nn _ _ _ _ _ _ _ E2) as (L1 & L2).
  apply seize_deps_spec in E2. destruct E2 as (_ & _ & _ & _ & _ & _ & _ & A8).
  split; [|split].
  - intros HB. apply (BalNN_eq s5); [reflexivity|]. unfold auction_collateral in E3.
    eapply auction_deposits_nn; [|exact E3]. apply L1. eapply b_send_nn; eassumption.
  - cbn. rewrite (bank_only_ifac _ _ Fr3), L2. apply (bank_only_ifac _ _ Fr1).
  - intros i w. cbn. rewrite (bank_only_deps _ _ Fr3), A8, (bank_only_deps _ _ Fr1). reflexivity.
Qed.

(* a successful seizure keeps the three invariants (the deposits of the cdp are only deleted) *)
Lemma seize_New e s cp c s' u : New s -> seize e s cp c = Ok s' u -> New s'.
Proof.
  intros (HB & HD & HF) H. destruct (seize_more _ _ _ _ _ _ H) as (A & B & C).
  destruct (seize_stores _ _ _ _ _ _ H) as (S1 & _).
  split; [apply A, HB|split].
  - apply (DepPos_sub s); [|exact HD]. intros i w a. rewrite C. destruct (_ && _); [discriminate|auto].
  - apply (FeeInv_remove s _ (c_type c) (c_id c)); [intros t id; rewrite S1; reflexivity|exact B|exact HF].
Qed.

(* payoutKeeperLiquidationReward: may leave a ZERO deposit record on the cdp (reward = the whole
   deposit); balances and fee fields stay fine, other cdps' deposits are untouched *)
Lemma payout_reward_New e s cp k c s2 c1 :
  BalNN s -> FeeInv s -> cdps s (c_type c) (c_id c) = Some c -> payout_reward e s cp k c = Ok s2 c1 ->
  BalNN s2 /\ FeeInv s2 /\ c_id c1 = c_id c /\ (forall i w, i <> c_id c -> deps s2 i w = deps s i w).
Proof.
  intros HB HF Hst. unfold payout_reward.
  destruct (first_dep_ge _ _) as [[w a]|]; [|intros H; inversion H; subst; auto].
  destruct (b_send _ _ _ _ _) as [s1|] eqn:Eb; [|discriminate].
  destruct (c_coll c <? _); [discriminate|].
  destruct (update_cdp _ _ _ _ _) as [s3 []| |] eqn:Eu; try discriminate.
  intros H; inversion H; subst s3 c1; clear H.
  destruct (update_cdp_more _ _ _ _ _ _ _ Eu) as (U1 & U2 & U3 & U4).
  pose proof (b_send_frame _ _ _ _ _ _ Eb) as Fr.
  destruct HF as [G F]. pose proof (F _ _ _ Hst) as Hok.
  split; [|split; [|split]].
  - eapply BalNN_eq; [exact U3|]. eapply b_send_nn; [|exact Eb]. apply (BalNN_eq s); [reflexivity|exact HB].
  - eapply update_cdp_FeeInv; [exact Eu| |].
    + cbn [with_coll c_type]. apply (fee_ok_eq s); [rewrite (bank_only_ifac _ _ Fr); reflexivity|].
      eapply fee_ok_fields; [..|exact Hok]; reflexivity.
    + apply (FeeInv_eq s); [rewrite (bank_only_cdps _ _ Fr); reflexivity|rewrite (bank_only_ifac _ _ Fr); reflexivity|split; assumption].
  - reflexivity.
  - intros i w0 Hne. rewrite U4, (bank_only_deps _ _ Fr). cbn. unfold upd2.
    destruct (Nat.eqb_spec i (c_id c)); [contradiction|reflexivity].
Qed.

Lemma keeper_liquidate_New e s k o t s' v :
  params_ok e -> IdxInv e s -> CustInv e s -> New s -> (k < nusers e)%nat ->
  keeper_liquidate e s k o t = Ok s' v -> New s'.
Proof.
  intros Hpar HI HC HN Hk. unfold keeper_liquidate.
  destruct (find_cdp e s o t) as [c0|] eqn:Ef; [|discriminate].
  destruct (get_cp e t) as [cp|] eqn:Hcp; [|discriminate].
  destruct (find_cdp_stored' _ _ _ _ _ _ HI Ef Hcp) as [Ht Hst].
  destruct (sync_interest e s cp c0) as [s1 c| |] eqn:Es; try discriminate.
  assert (Hcp0 : get_cp e (c_type c0) = Some cp) by (rewrite Ht; exact Hcp).
  destruct (sync_New _ _ _ _ _ _ HI HN Hcp0 Hst Es) as ((HB1 & HD1 & HF1) & Hok & Hty & Hid & Hst1 & _).
  pose proof (sync_interest_CustInv _ _ _ _ _ _ HC Hst Es) as HC1.
  destruct (ratio_at _ _ _ _ _ _) as [[] r| |]; try discriminate.
  destruct (cp_liq cp <=? r); [discriminate|].
  destruct (payout_reward e s1 cp k c) as [s2 c1| |] eqn:Ep; try discriminate.
  assert (Hcpc : get_cp e (c_type c) = Some cp) by (rewrite Hty; exact Hcp0).
  pose proof (payout_reward_CustInv _ _ _ _ _ _ _ Hpar HC1 Hk Hcpc Hst1 Ep) as HC2.
  destruct (payout_reward_New _ _ _ _ _ _ _ HB1 HF1 Hst1 Ep) as (HB2 & HF2 & Hid2 & Hd2).
  intros H. destruct (seize_more _ _ _ _ _ _ H) as (A & B & C).
  destruct (seize_stores _ _ _ _ _ _ H) as (S1 & _).
  split; [apply A, HB2|split].
  - intros i w a. rewrite C. destruct (Nat.eqb_spec i (c_id c1)) as [->|Hne]; cbn [andb].
    + destruct (existsb _ _) eqn:Ex; [discriminate|]. intros Ha. exfalso.
      destruct HC2 as (_ & _ & P3 & _). destruct (P3 _ _ _ Ha) as (_ & Hw & _).
      assert (In (w, a) (dep_list e s2 (c_id c1))) as Hin by (apply dep_list_in; auto).
      apply (in_map fst) in Hin. cbn in Hin.
      assert (existsb (Nat.eqb w) (map fst (dep_list e s2 (c_id c1))) = true).
      { apply existsb_exists. exists w. split; [assumption|apply Nat.eqb_refl]. }
      congruence.
    + rewrite Hd2 by (rewrite <- Hid2; exact Hne). apply HD1.
  - apply (FeeInv_remove s2 _ (c_type c1) (c_id c1)); [intros t0 id; rewrite S1; reflexivity|exact B|exact HF2].
Qed.

(** ** every message keeps the invariant *)
Lemma tx_Inv4 e s o s' u :
  env_wf e -> params_ok e -> Inv4 e s -> (forall dt p, o <> Block dt p) -> step e s o = Ok s' u -> Inv4 e s'.
Proof.
  intros Hwf Hpar (H3 & HN) Hnb H. split; [eapply step_Inv3; eassumption|].
  destruct H3 as (HI & HC & HO).
  destruct o; cbn [step] in H.
  - destruct (user_ok e o); [|discriminate]. eapply create_New; eassumption.
  - destruct (user_ok e o && user_ok e u0); [|discriminate]. eapply deposit_New; eassumption.
  - destruct (user_ok e o && user_ok e u0); [|discriminate]. eapply withdraw_New; eassumption.
  - destruct (user_ok e o); [|discriminate]. eapply draw_New; eassumption.
  - destruct (user_ok e o); [|discriminate]. eapply repay_New; eassumption.
  - destruct (user_ok e o) eqn:E1; [|discriminate]. destruct (user_ok e k) eqn:E2; [|discriminate]. cbn [andb] in H.
    unfold user_ok in E2. apply Nat.ltb_lt in E2. eapply keeper_liquidate_New; eassumption.
  - exfalso. eapply Hnb. reflexivity.
Qed.

(** * The pieces of the begin blocker *)
(* AccumulateInterest: the stability fee is >= 1 (params validation), so the global factor only grows;
   afterwards the accrual time of the type is set *)
Lemma accumulate_New e s t cp :
  PREC <= cp_fee cp -> New s ->
  New (accumulate_interest e s t cp) /\ ptime (accumulate_interest e s t cp) t <> None.
Proof.
  intros Hfee (HB & HD & HF).
  pose proof (accumulate_interest_stores e s t cp) as (A1 & _ & _ & _ & A5).
  assert (Hup : forall s0 p v, ptime (set_ptime s0 (upd p t (Some v))) t <> None).
  { intros s0 p v. cbn. unfold upd. rewrite Nat.eqb_refl. discriminate. }
  split.
  2:{ unfold accumulate_interest. destruct (ptime s t) as [prev|] eqn:Ep; [|apply Hup].
      destruct (_ =? 0); [congruence|]. destruct (_ <=? 0); [apply Hup|].
      destruct (ifac s t); [|apply Hup]. destruct (_ =? PREC); [apply Hup|]. cbv zeta.
      destruct (_ =? 0); [congruence|]. apply Hup. }
  split; [|split].
  - unfold accumulate_interest. destruct (ptime s t); [|exact HB].
    destruct (_ =? 0); [exact HB|]. destruct (_ <=? 0); [exact HB|].
    destruct (ifac s t); [|exact HB]. destruct (_ =? PREC); [exact HB|]. cbv zeta.
    destruct (_ =? 0); [exact HB|].
    match goal with |- BalNN (set_ptime (set_ifac (set_tprin ?x _) _) _) => apply (BalNN_eq x); [reflexivity|] end.
    apply b_mint_nn, b_mint_nn, HB.
  - eapply DepPos_eq; eassumption.
  - destruct HF as [G F].
    assert (HF : FeeInv s) by (split; assumption).
    unfold accumulate_interest. destruct (ptime s t); [|apply (FeeInv_eq s); [reflexivity|reflexivity|exact HF]].
    destruct (_ =? 0); [exact HF|].
    destruct (tprin s t <=? 0); [apply (FeeInv_eq s); [reflexivity|reflexivity|exact HF]|].
    destruct (ifac s t) as [fprior|] eqn:Ei.
    + destruct (_ =? PREC); [apply (FeeInv_eq s); [reflexivity|reflexivity|exact HF]|]. cbv zeta.
      destruct (_ =? 0); [exact HF|].
      set (f := interest_factor (cp_fee cp) _).
      assert (Hf : PREC <= f) by (apply interest_factor_ge; exact Hfee).
      pose proof (G _ _ Ei) as Hp.
      assert (Hge : fprior <= dec_mul fprior f) by (apply dec_mul_ge; [unfold PREC in Hp; lia|exact Hf]).
      apply (FeeInv_grow s); [| | |exact HF].
      * cbn. rewrite (bank_only_cdps _ _ (b_mint_frame _ _ _ _)), (bank_only_cdps _ _ (b_mint_frame _ _ _ _)). reflexivity.
      * intros t0 gf Hg. cbn. unfold upd.
        rewrite (bank_only_ifac _ _ (b_mint_frame _ _ _ _)), (bank_only_ifac _ _ (b_mint_frame _ _ _ _)).
        destruct (Nat.eqb_spec t0 t) as [->|]; [|exists gf; split; [exact Hg|lia]].
        exists (dec_mul fprior f). split; [reflexivity|]. rewrite Ei in Hg. inversion Hg; subst. exact Hge.
      * intros t0 gf'. cbn. unfold upd.
        rewrite (bank_only_ifac _ _ (b_mint_frame _ _ _ _)), (bank_only_ifac _ _ (b_mint_frame _ _ _ _)).
        destruct (Nat.eqb_spec t0 t) as [->|]; [intros E; inversion E; subst; lia|apply G].
    + apply (FeeInv_grow s); [reflexivity| | |exact HF].
      * intros t0 gf Hg. cbn. unfold upd. destruct (Nat.eqb_spec t0 t) as [->|]; [congruence|exists gf; split; [exact Hg|lia]].
      * intros t0 gf'. cbn. unfold upd. destruct (Nat.eqb_spec t0 t) as [->|]; [intros E; inversion E; subst; lia|apply G].
Qed.

Lemma accumulate_Inv3 e s t cp : env_wf e -> Inv3 e s -> Inv3 e (accumulate_interest e s t cp).
Proof.
  intros Hwf (HI & HC & HO).
  pose proof (accumulate_interest_stores e s t cp) as (A1 & A2 & A3 & A4 & A5).
  split; [apply (IdxInv_frame e s); assumption|split; [apply accumulate_interest_CustInv; assumption|]].
  apply (OwnInv_view s); [apply owner_of_cdps; exact A1|exact A4|exact HO].
Qed.

(* a change of prices, market status or clock only *)
Lemma Inv4_frame e s s' :
  cdps s' = cdps s -> deps s' = deps s -> oidx s' = oidx s -> ridx s' = ridx s -> nextid s' = nextid s ->
  ifac s' = ifac s -> bal s' = bal s -> Inv4 e s -> Inv4 e s'.
Proof.
  intros E1 E2 E3 E4 E5 E6 E7 ((HI & HC & HO) & HB & HD & HF).
  split; [split; [|split]|split; [|split]].
  - apply (IdxInv_frame e s); assumption.
  - apply (CustInv_view e s); try assumption; [apply view_of_cdps; exact E1|]. intros; rewrite E7; reflexivity.
  - apply (OwnInv_view s); [apply owner_of_cdps; exact E1|exact E3|exact HO].
  - eapply BalNN_eq; eassumption.
  - eapply DepPos_eq; eassumption.
  - eapply FeeInv_eq; eassumption.
Qed.
