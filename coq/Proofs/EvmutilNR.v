(* Lemmas about Model/EvmutilNR.v: pairs whose token returns false instead of reverting. *)
From Kava Require Import Base.Prelude Model.Erc20 Model.Evmutil Model.EvmutilNR Proofs.Evmutil.

(* the old-style contracts are table contracts; the base environment carries OpenZeppelin's
   bytecode for them (the wrapper overrides what differs) *)
Definition nr_wf (e : env) (nr : nat -> bool) : Prop :=
  forall c, nr c = true -> (c < npair e)%nat /\ pkind e c = Oz.

Lemma nr_kind e nr c : nr_wf e nr -> nr c = true -> (c < npair e)%nat /\ kind e c = Oz.
Proof.
  intros H Hc. destruct (H c Hc) as [Hlt Hk]. split; [exact Hlt|].
  unfold kind. destruct (Nat.ltb_spec c (npair e)); [exact Hk|lia].
Qed.

(** * the token against OpenZeppelin's: the same, except that a short balance is answered with
      "false, nothing moved" instead of a revert *)
Lemma nr_transfer_cases z l f t x :
  nr_transfer z l f t x = erc_transfer z l f t x \/
  (nr_transfer z l f t x = Some l /\ erc_transfer z l f t x = None /\ ebal l f < u256 x).
Proof.
  unfold nr_transfer, erc_transfer. destruct (Nat.eqb f z || Nat.eqb t z); [left; reflexivity|].
  destruct (Z.leb_spec (u256 x) (ebal l f)); [left; reflexivity|right; repeat split; auto].
Qed.

(** * the balance-delta check: a lock that moved nothing is refused *)
Definition lock_of (e : env) (d : nat) (x : Z) : Z := if is_bep3 e d then (x / K10) * K10 else x.

Lemma lock_of_range e d x : 0 <= x < U256 -> 0 <= lock_of e d x < U256.
Proof.
  intros H. unfold lock_of. destruct (is_bep3 e d); [|exact H]. unfold K10.
  pose proof (Z.div_mod x 10000000000 ltac:(lia)). pose proof (Z.mod_pos_bound x 10000000000 ltac:(lia)).
  assert (0 <= x / 10000000000) by (apply Z.div_pos; lia). lia.
Qed.

(* whatever the initiator holds below the amount to lock (nothing at all, one unit less, ...): the
   transfer returns false, the balance read back is not start - amount, the conversion fails *)
Theorem lock_moved_nothing_refused e s i r c d x :
  pair_of_ctr s c = Some d -> 0 <= x < U256 ->
  0 <= ebal (erc s c) i < lock_of e d x ->
  conv_erc20_to_coin_nr e s i r c x = Err.
Proof.
  intros Hp Hx Hlt. unfold conv_erc20_to_coin_nr. rewrite Hp. fold (lock_of e d x).
  pose proof (lock_of_range e d x Hx) as Hr.
  destruct (is_bep3 e d && _); [reflexivity|]. destruct (Nat.leb (next s) c); [reflexivity|].
  unfold nr_transfer. destruct (Nat.eqb i (zacc e) || Nat.eqb (macc e) (zacc e)); [reflexivity|].
  rewrite (u256_small _ Hr). clear Hx Hr.
  destruct (Z.leb_spec (lock_of e d x) (ebal (erc s c) i)); [exfalso; lia|].
  destruct (Z.eqb_spec (ebal (erc s c) i - lock_of e d x) (ebal (erc s c) i)); [exfalso; lia|reflexivity].
Qed.

(* the converse reading: a successful conversion debited the initiator exactly the amount locked *)
Theorem lock_ok_debits_exactly e s i r c x s' :
  conv_erc20_to_coin_nr e s i r c x = Ok s' tt ->
  exists d, pair_of_ctr s c = Some d /\
    ebal (erc s' c) i = ebal (erc s c) i - lock_of e d x.
Proof.
  unfold conv_erc20_to_coin_nr. destruct (pair_of_ctr s c) as [d|]; [|discriminate].
  fold (lock_of e d x). intros H. exists d. split; [reflexivity|].
  destruct (is_bep3 e d && _); [discriminate|]. destruct (Nat.leb (next s) c); [discriminate|].
  destruct (nr_transfer _ _ _ _ _) as [l1|]; [|discriminate].
  destruct (Z.eqb_spec (ebal (erc s c) i - lock_of e d x) (ebal l1 i)) as [Hd|]; [|discriminate]. cbn [negb] in H.
  destruct (send_mod_to_acc e _ r d _) as [s3|] eqn:Es; [|discriminate]. inversion H; subst s3; clear H.
  apply send_mod_to_acc_spec in Es. destruct Es as (_ & Es). apply bank_send_spec in Es.
  destruct Es as (_ & (He1 & _) & _). rewrite He1.
  destruct (bank_mint_spec e (set_erc s c l1) d (if is_bep3 e d then x / K10 else x)) as ((Hf1 & _) & _).
  rewrite Hf1. cbn [set_erc erc]. unfold upd. rewrite Nat.eqb_refl. congruence.
Qed.

(** * every operation of the wrapper is refused, or is the operation of Model/Evmutil.v, or is a
      transfer() that returned false (the ledger is written back unchanged) *)
Lemma conv_erc20_to_coin_nr_eq e s i r c x : kind e c = Oz -> 0 <= ebal (erc s c) i ->
  conv_erc20_to_coin_nr e s i r c x = Err \/
  conv_erc20_to_coin_nr e s i r c x = conv_erc20_to_coin e s i r c x.
Proof.
  intros Hk Hnn. unfold conv_erc20_to_coin_nr, conv_erc20_to_coin, tok_transfer, emits_approval. rewrite Hk.
  destruct (pair_of_ctr s c) as [d|]; [|left; reflexivity].
  destruct (is_bep3 e d && _); [left; reflexivity|]. destruct (Nat.leb (next s) c); [left; reflexivity|].
  set (lock := if is_bep3 e d then x / K10 * K10 else x).
  destruct (nr_transfer_cases (zacc e) (erc s c) i (macc e) lock) as [E|(E1 & E2 & Hlt)].
  - right. rewrite E. reflexivity.
  - left. rewrite E1. destruct (Z.eqb_spec (ebal (erc s c) i - lock) (ebal (erc s c) i)) as [Hd|]; [|reflexivity].
    exfalso. assert (lock = 0) by lia. rewrite H in Hlt. unfold u256 in Hlt. rewrite Z.mod_0_l in Hlt by (unfold U256; lia). lia.
Qed.

Lemma conv_coin_to_erc20_nr_eq e s i r d c x : kind e c = Oz -> pair_of_denom s d = Some c ->
  0 <= ebal (erc s c) (macc e) ->
  conv_coin_to_erc20_nr e s i r d c x = Err \/
  conv_coin_to_erc20_nr e s i r d c x = conv_coin_to_erc20 e s i r d x.
Proof.
  intros Hk Hp Hnn. unfold conv_coin_to_erc20_nr, conv_coin_to_erc20, tok_transfer, emits_approval. rewrite Hp, Hk.
  destruct (bank_send s i (macc e) d x) as [s1|] eqn:E1; [|left; reflexivity].
  destruct (bank_burn e s1 d x) as [s2|] eqn:E2; [|left; reflexivity].
  destruct (Nat.leb (next s2) c); [left; reflexivity|].
  assert (Herc : erc s2 c = erc s c).
  { apply bank_send_spec in E1. destruct E1 as (_ & (He1 & _) & _).
    apply bank_burn_spec in E2. destruct E2 as (_ & (Hf1 & _) & _). rewrite Hf1, He1. reflexivity. }
  set (unlock := if is_bep3 e d then x * K10 else x).
  destruct (nr_transfer_cases (zacc e) (erc s2 c) (macc e) r unlock) as [E|(E3 & E4 & Hlt)].
  - right. rewrite E. reflexivity.
  - left. rewrite E3. destruct (Z.eqb_spec (ebal (erc s2 c) r + unlock) (ebal (erc s2 c) r)) as [Hd|]; [|reflexivity].
    exfalso. assert (unlock = 0) by lia. rewrite H in Hlt. unfold u256 in Hlt. rewrite Z.mod_0_l in Hlt by (unfold U256; lia).
    rewrite Herc in Hlt. lia.
Qed.

Theorem xstep_cases e nr s o : nr_wf e nr -> nonneg s ->
  xstep e nr s o = Err \/ xstep e nr s o = step e s o \/
  exists c, nr c = true /\ (c < next s)%nat /\ xstep e nr s o = Ok (set_erc s c (erc s c)) tt.
Proof.
  intros Hnr (_ & Hne & _).
  destruct o as [dr i r d x|dr i r c x|dr i r d x|dr i r d x|c f t x|c t x|f t d x|ps ts|c o sp x|c sp f t x];
    cbn [xstep]; try (right; left; reflexivity).
  - destruct (pair_of_denom s d) as [c|] eqn:Ep; [|right; left; reflexivity].
    destruct (nr c) eqn:Hc; [|right; left; reflexivity]. destruct (nr_kind e nr c Hnr Hc) as [_ Hk].
    cbn [step]. destruct (amount_ok dr x); [|left; reflexivity].
    destruct (conv_coin_to_erc20_nr_eq e s i r d c x Hk Ep (Hne c (macc e))) as [E|E]; [left|right; left]; exact E.
  - destruct (nr c) eqn:Hc; [|right; left; reflexivity]. destruct (nr_kind e nr c Hnr Hc) as [_ Hk].
    cbn [step]. destruct (amount_ok dr x); [|left; reflexivity].
    destruct (conv_erc20_to_coin_nr_eq e s i r c x Hk (Hne c i)) as [E|E]; [left|right; left]; exact E.
  - destruct (nr c) eqn:Hc; cbn [andb]; [|right; left; reflexivity].
    destruct (Nat.ltb_spec c (next s)) as [Hlt|]; [|right; left; reflexivity].
    destruct (nr_kind e nr c Hnr Hc) as [_ Hk]. cbn [step]. unfold tok_transfer. rewrite Hk.
    destruct (Nat.leb_spec (next s) c); [lia|].
    destruct (nr_transfer_cases (zacc e) (erc s c) f t x) as [E|(E1 & _ & _)].
    + right; left. rewrite E. reflexivity.
    + right; right. exists c. rewrite E1. auto.
  - destruct (nr c) eqn:Hc; cbn [andb]; [|right; left; reflexivity].
    destruct (Nat.ltb_spec c (next s)) as [Hlt|]; [|right; left; reflexivity].
    destruct (nr_kind e nr c Hnr Hc) as [Hcp Hk]. cbn [step]. rewrite Hk.
    destruct (Nat.leb_spec (next s) c); [lia|].
    destruct (Nat.ltb_spec c (npair e)); [|lia]. cbn [negb]. right; left. reflexivity.
  - destruct (nr c && Nat.ltb c (next s)); [left; reflexivity|right; left; reflexivity].
  - destruct (nr c && Nat.ltb c (next s)); [left; reflexivity|right; left; reflexivity].
Qed.

(** * the theorems of Model/Evmutil.v carry over: invariant (with the backing of every pair) and
      value ranges after every history *)
Lemma inv_rewrite_ledger e nr s c : env_wf e -> nr_wf e nr -> Inv e s -> nonneg s -> nr c = true ->
  Inv e (set_erc s c (erc s c)) /\ nonneg (set_erc s c (erc s c)).
Proof.
  intros Hwf Hnr HI Hnn Hc. destruct (nr_kind e nr c Hnr Hc) as [Hcp Hk]. split.
  - apply inv_set_erc; auto; try lia.
    intros _ a. destruct HI as (_ & _ & _ & _ & _ & I6 & _). apply I6; assumption.
  - destruct Hnn as (Hb & He & Ht). apply nonneg_set_erc; [repeat split; assumption|apply He|apply Ht].
Qed.

Theorem xstep_inv e nr s o s' : env_wf e -> nr_wf e nr -> Inv e s -> nonneg s -> op_wf e o ->
  xstep e nr s o = Ok s' tt -> Inv e s' /\ nonneg s'.
Proof.
  intros Hwf Hnr HI Hnn Hop H.
  destruct (xstep_cases e nr s o Hnr Hnn) as [E|[E|(c & Hc & _ & E)]]; rewrite E in H.
  - discriminate.
  - split; [eapply step_inv; eauto|eapply step_nonneg; eauto].
  - inversion H; subst s'. apply (inv_rewrite_ledger e nr s c); assumption.
Qed.

Lemma xtx_step_inv e nr tx : forall s s', env_wf e -> nr_wf e nr -> Inv e s -> nonneg s -> Forall (op_wf e) tx ->
  xtx_step e nr s tx = Ok s' tt -> Inv e s' /\ nonneg s'.
Proof.
  induction tx as [|o r IH]; intros s s' Hwf Hnr HI Hnn Hall H; cbn [xtx_step] in H.
  - inversion H; subst. auto.
  - inversion Hall; subst. destruct (xstep e nr s o) as [s1 []| |] eqn:E; try discriminate.
    destruct (xstep_inv e nr s o s1 Hwf Hnr HI Hnn H2 E) as [HI1 Hnn1]. eapply IH; eauto.
Qed.

Theorem xrun_txs_inv e nr txs : forall s, env_wf e -> nr_wf e nr -> Inv e s -> nonneg s ->
  Forall (Forall (op_wf e)) txs -> Inv e (xrun_txs e nr s txs) /\ nonneg (xrun_txs e nr s txs).
Proof.
  induction txs as [|tx r IH]; intros s Hwf Hnr HI Hnn Hall; cbn [xrun_txs fold_left]; [auto|].
  inversion Hall; subst.
  assert (Hs : Inv e (xtx_step' e nr s tx) /\ nonneg (xtx_step' e nr s tx)).
  { unfold xtx_step'. destruct (xtx_step e nr s tx) as [s1 []| |] eqn:E; auto.
    exact (xtx_step_inv e nr tx s s1 Hwf Hnr HI Hnn H1 E). }
  destruct Hs as [HI1 Hnn1]. apply IH; assumption.
Qed.

(* backing of an old-style pair after every history: the coin supply (scaled) never exceeds the
   tokens held by the module's EVM address *)
Theorem nr_pair_backed e nr txs s c : env_wf e -> nr_wf e nr -> Inv e s -> nonneg s ->
  Forall (Forall (op_wf e)) txs -> nr c = true ->
  let s' := xrun_txs e nr s txs in
  sup s' (pair_denom e c) * kf e (pair_denom e c) <= ebal (erc s' c) (macc e).
Proof.
  intros Hwf Hnr HI Hnn Hall Hc s'.
  destruct (xrun_txs_inv e nr txs s Hwf Hnr HI Hnn Hall) as [(_ & _ & _ & _ & I5 & _) _].
  destruct (nr_kind e nr c Hnr Hc) as [Hcp Hk]. apply I5; assumption.
Qed.

(* a failed operation / transaction changes nothing *)
Theorem xstep_failed_changes_nothing e nr s o : (forall s' u, xstep e nr s o <> Ok s' u) -> xstep' e nr s o = s.
Proof.
  intros H. unfold xstep'. destruct (xstep e nr s o) as [s' u| |] eqn:E; auto. exfalso. exact (H s' u eq_refl).
Qed.

(** * what the exact comparison protects against: with the expected end balance clamped at zero an
      initiator holding NO tokens converts 500 units: coins are minted, nothing is locked *)
Definition nrw_env : env := mk_envx 4%nat 2%nat 2%nat 3%nat [false; false; true; false] [1%nat] [false] [false; false].
Definition nrw_nr (c : nat) : bool := Nat.eqb c 0.
Definition nrw_init : state :=
  mk_statex [[0; 600]; [0; 0]; [0; 0]; [0; 0]] [0; 600] [(1000, [400; 0; 600; 0], [])] [] [(0%nat, 1%nat)] [].

Theorem clamped_check_mints_unbacked :
  Inv nrw_env nrw_init /\ nonneg nrw_init /\
  (* the model of the code refuses the conversion of the empty-handed account 1 ... *)
  conv_erc20_to_coin_nr nrw_env nrw_init 1%nat 1%nat 0%nat 500 = Err /\
  (* ... the clamped comparison accepts it: supply 1100 over 600 locked tokens *)
  match conv_erc20_to_coin_nr_clamped nrw_env nrw_init 1%nat 1%nat 0%nat 500 with
  | Ok s' _ => sup s' 1%nat = 1100 /\ ebal (erc s' 0%nat) 2%nat = 600 /\ bal s' 1%nat 1%nat = 500
  | _ => False
  end.
Proof.
  split; [|split; [|split]].
  - unfold Inv. split; [cbn; lia|]. split; [intros d c H; cbn in H; discriminate|].
    split; [intros d d' c H; cbn in H; discriminate|].
    split; [intros d; destruct d as [|[|[|d]]]; reflexivity|].
    split. { intros c Hc Hk. cbn in Hc. assert (c = 0%nat) by lia. subst. vm_compute. discriminate. }
    split. { intros c Hc Hk a. cbn in Hc. assert (c = 0%nat) by lia. subst. cbn. unfold nthZ. destruct a; reflexivity. }
    split. { intros c Hc Hk. cbn in Hc. assert (c = 0%nat) by lia. subst. vm_compute in Hk. discriminate. }
    repeat constructor.
  - split; [|split].
    + intros a d. destruct a as [|[|[|[|[|a]]]]], d as [|[|[|d]]]; cbn; unfold nthZ; cbn; lia.
    + intros c a. destruct c as [|[|c]]; destruct a as [|[|[|[|[|a]]]]]; cbn; unfold nthZ; cbn; lia.
    + intros c. destruct c as [|[|c]]; cbn; unfold U256; lia.
  - vm_compute. reflexivity.
  - vm_compute. repeat split; reflexivity.
Qed.
