(* The rest of the boolean model invariant [inv_b] (Model/Hard.v) that the correspondence run
   evaluates on every model state: bank balances and prices are non-negative, stored records are
   non-empty.  Together with [HInv] (Proofs/HardInv.v) it is preserved by every operation, so
   [inv_b] is true in every state of every history -- a theorem, not only an observation. *)
From Kava Require Import Base.Prelude Base.Dec Model.Hard Proofs.Hard Proofs.HardInv.
Local Open Scope Z_scope.

Definition bal_nn (e : env) (s : state) : Prop := forall a d, (d < nd e)%nat -> 0 <= bal s a d.
Definition price_nn (s : state) : Prop := forall d, 0 <= price s d.
Definition recs_nonempty (n : nat) (tbl : nat -> option urec) : Prop :=
  forall u r, tbl u = Some r -> cempty n (amt r) = false.

Definition HX (e : env) (s : state) : Prop :=
  bal_nn e s /\ price_nn s /\ recs_nonempty (nd e) (dep s) /\ recs_nonempty (nd e) (bor s).

Lemma HX_ext e s s' : bal s' = bal s -> price s' = price s -> dep s' = dep s -> bor s' = bor s -> HX e s -> HX e s'.
Proof. intros E1 E2 E3 E4 (A & B & C & D). unfold HX, bal_nn, price_nn. rewrite E1, E2, E3, E4. auto. Qed.

Lemma recs_nonempty_upd n tbl u o :
  recs_nonempty n tbl -> (forall r, o = Some r -> cempty n (amt r) = false) -> recs_nonempty n (upd tbl u o).
Proof. intros H Ho v r. unfold upd. destruct (Nat.eqb v u); [apply Ho|apply H]. Qed.

Lemma stored_nonempty n (a : coins) ix r :
  (if cempty n a then None else Some (mkU a ix)) = Some r -> cempty n (amt r) = false.
Proof. destruct (cempty n a) eqn:E; [discriminate|]. intros H. inversion H; subst. exact E. Qed.

Lemma nonempty_mono n (a a' : coins) :
  (forall d, 0 <= a d) -> (forall d, a d <= a' d) -> cempty n a = false -> cempty n a' = false.
Proof.
  intros Ha Hle Hn. destruct (cempty n a') eqn:E; [|reflexivity]. exfalso.
  apply cempty_spec in E. assert (X : cempty n a = true); [|congruence].
  apply cempty_spec. intros d Hd. specialize (E d Hd). unfold czero in *. specialize (Ha d). specialize (Hle d). lia.
Qed.

Lemma bsend_bal_nn e s f t c s' :
  (forall d, 0 <= c d) -> bsend (nd e) s f t c = Ok s' tt -> bal_nn e s -> bal_nn e s'.
Proof.
  intros Hc H B. apply bsend_ok in H. destruct H as [Hp ->]. intros a d Hd. rewrite bal_move.
  unfold can_pay in Hp. rewrite forallb_forall in Hp. specialize (Hp d ltac:(apply in_seq; lia)).
  specialize (B a d Hd). specialize (Hc d).
  destruct (Nat.eqb a f) eqn:Ef; destruct (Nat.eqb a t); try lia.
  apply Nat.eqb_eq in Ef. subst a. apply orb_prop in Hp. destruct Hp as [Hp|Hp]; [apply Z.eqb_eq in Hp|apply Z.leb_le in Hp]; lia.
Qed.

(** ** interest sync *)
Lemma sync_supply_hx e s u s' : sync_supply e s u = Ok s' tt -> HInv e s -> HX e s -> HX e s'.
Proof.
  intros H I (A & B & C & D).
  destruct (sync_supply_frame _ _ _ _ H) as (F1 & [F2 _] & F3 & _).
  unfold HX, bal_nn, price_nn. rewrite F1, F2, F3. split; [assumption|]. split; [assumption|]. split; [|assumption].
  unfold sync_supply in H. destruct (dep s u) as [r|] eqn:E.
  - inv_bind H as r' E1. apply ret_ok in H. subst s'. cbn. apply recs_nonempty_upd; [assumption|].
    intros r0 Hr0. inversion Hr0; subst r0.
    destruct (sync_sup_rec_sound _ _ _ _ E1 (hi_sfac _ _ I) (hi_dep _ _ I u r E)) as [_ Hle].
    eapply nonempty_mono; [apply (hi_dep _ _ I u r E)|exact Hle|eapply C; eauto].
  - apply ret_ok in H. subst. assumption.
Qed.

Lemma sync_borrow_hx e s u s' : sync_borrow e s u = Ok s' tt -> HInv e s -> HX e s -> HX e s'.
Proof.
  intros H I (A & B & C & D).
  destruct (sync_borrow_frame _ _ _ _ H) as (F1 & [F2 _] & F3 & _).
  unfold HX, bal_nn, price_nn. rewrite F1, F2, F3. split; [assumption|]. split; [assumption|]. split; [assumption|].
  unfold sync_borrow in H. destruct (bor s u) as [r|] eqn:E.
  - inv_bind H as r' E1. apply ret_ok in H. subst s'. cbn. apply recs_nonempty_upd; [assumption|].
    intros r0 Hr0. inversion Hr0; subst r0.
    destruct (sync_bor_rec_sound _ _ _ _ E1 (hi_bfac _ _ I) (hi_bor _ _ I u r E)) as [_ Hle].
    eapply nonempty_mono; [apply (hi_bor _ _ I u r E)|exact Hle|eapply D; eauto].
  - apply ret_ok in H. subst. assumption.
Qed.

(** ** message handlers *)
Lemma deposit_hx e s u c s' : deposit e s u c = Ok s' tt -> (forall d, 0 <= c d) -> HInv e s -> HX e s -> HX e s'.
Proof.
  unfold deposit. intros H Hc I X.
  set (cl := denoms (nd e) c) in *.
  set (s0 := set_sfac s (init_facs (mkts s) (sfac s) cl)) in *.
  assert (I0 : HInv e s0).
  { destruct I as [H1 H2 H3 H4 H5 H6 H7]. destruct (init_facs_spec (mkts s) cl (sfac s)) as (F1 & _).
    constructor; cbn; try assumption; [apply init_facs_ge1, H1|eapply recs_sound_mono; eauto]. }
  assert (X0 : HX e s0) by (eapply HX_ext; [..|exact X]; reflexivity).
  inv_bind H as u1 G1. inv_bind H as s1 E1. inv_bind H as u2 G2. inv_bind H as s2 E2. apply ret_ok in H.
  pose proof (sync_supply_hx _ _ _ _ E1 I0 X0) as (A & B & C & D).
  pose proof (bsend_bal_nn _ _ _ _ _ _ Hc E2 A) as A2.
  apply bsend_ok in E2. destruct E2 as [_ ->]. subst s'. unfold HX, price_nn. cbn.
  split; [exact A2|]. split; [exact B|]. split; [|exact D].
  apply recs_nonempty_upd; [assumption|]. intros r. apply stored_nonempty.
Qed.

Lemma withdraw_hx e s u c s' : withdraw e s u c = Ok s' tt -> (forall d, 0 <= c d) -> HInv e s -> HX e s -> HX e s'.
Proof.
  unfold withdraw. intros H Hc I X.
  inv_bind H as u1 G1. inv_bind H as u2 G2. inv_bind H as u3 G3. inv_bind H as s1 E2. inv_bind H as s2 E3.
  destruct (dep s2 u) as [r|] eqn:Er; [|discriminate].
  inv_bind H as u4 G4. inv_bind H as u5 G5. inv_bind H as w E6. inv_bind H as u6 E7.
  inv_bind H as s3 E8. inv_bind H as ix E9. apply dec_supplied_ok in H.
  pose proof (sync_borrow_inv _ _ _ _ E2 I) as I1. pose proof (sync_supply_inv _ _ _ _ E3 I1) as I2.
  pose proof (sync_supply_hx _ _ _ _ E3 I1 (sync_borrow_hx _ _ _ _ E2 I X)) as (A & B & C & D).
  assert (Hm : forall d, 0 <= capped e c (amt r) d).
  { intros d. apply capped_bounds; [apply (hi_dep _ _ I2 u r Er)|apply Hc]. }
  pose proof (bsend_bal_nn _ _ _ _ _ _ Hm E8 A) as A2.
  apply bsend_ok in E8. destruct E8 as [_ ->]. subst s'. unfold HX, price_nn. cbn.
  split; [exact A2|]. split; [exact B|]. split; [|exact D].
  apply recs_nonempty_upd; [assumption|]. intros r0. apply stored_nonempty.
Qed.

Lemma borrow_hx e s u c s' : borrow e s u c = Ok s' tt -> (forall d, 0 <= c d) -> HInv e s -> HX e s -> HX e s'.
Proof.
  unfold borrow. intros H Hc I X.
  set (cl := denoms (nd e) c) in *.
  set (s0 := set_bfac s (init_facs (mkts s) (bfac s) cl)) in *.
  assert (I0 : HInv e s0).
  { destruct I as [H1 H2 H3 H4 H5 H6 H7]. destruct (init_facs_spec (mkts s) cl (bfac s)) as (F1 & _).
    constructor; cbn; try assumption; [apply init_facs_ge1, H2|eapply recs_sound_mono; eauto]. }
  assert (X0 : HX e s0) by (eapply HX_ext; [..|exact X]; reflexivity).
  inv_bind H as u1 G1. inv_bind H as u2 G2. inv_bind H as s1 E1. inv_bind H as s2 E2.
  inv_bind H as u3 G3. inv_bind H as s3 E3. apply ret_ok in H.
  pose proof (sync_supply_inv _ _ _ _ E1 I0) as I1.
  pose proof (sync_borrow_hx _ _ _ _ E2 I1 (sync_supply_hx _ _ _ _ E1 I0 X0)) as (A & B & C & D).
  pose proof (bsend_bal_nn _ _ _ _ _ _ Hc E3 A) as A2.
  apply bsend_ok in E3. destruct E3 as [_ ->]. subst s'. unfold HX, price_nn. cbn.
  split; [exact A2|]. split; [exact B|]. split; [exact C|].
  apply recs_nonempty_upd; [assumption|]. intros r. apply stored_nonempty.
Qed.

Lemma repay_hx e s a o c s' : repay e s a o c = Ok s' tt -> (forall d, 0 <= c d) -> HInv e s -> HX e s -> HX e s'.
Proof.
  unfold repay. intros H Hc I X.
  inv_bind H as u1 G1. inv_bind H as u2 G2. inv_bind H as s2 E2.
  destruct (bor s2 o) as [r|] eqn:Er; [|discriminate].
  inv_bind H as u3 G3. inv_bind H as u4 G4. inv_bind H as u5 G5. inv_bind H as u6 G6.
  inv_bind H as s3 E3. inv_bind H as ix E4. inv_bind H as u7 G7. apply dec_borrowed_ok in H.
  pose proof (sync_borrow_inv _ _ _ _ E2 I) as I2.
  pose proof (sync_borrow_hx _ _ _ _ E2 I X) as (A & B & C & D).
  assert (Hm : forall d, 0 <= capped e c (amt r) d).
  { intros d. apply capped_bounds; [apply (hi_bor _ _ I2 o r Er)|apply Hc]. }
  pose proof (bsend_bal_nn _ _ _ _ _ _ Hm E3 A) as A2.
  apply bsend_ok in E3. destruct E3 as [_ ->]. subst s'. unfold HX, price_nn. cbn.
  split; [exact A2|]. split; [exact B|]. split; [exact C|].
  apply recs_nonempty_upd; [assumption|]. intros r0. apply stored_nonempty.
Qed.

(** ** liquidation: balances stay non-negative through SeizeDeposits / StartAuctions *)
Lemma csingle_nonneg dk x : 0 <= x -> forall d, 0 <= csingle dk x d.
Proof. intros Hx d. rewrite csingle_eq. destruct (Nat.eqb d dk); lia. Qed.

Lemma start_auction_bal e a macc bk dk lot bid s' b' d' :
  start_auction e a macc bk dk lot bid = Ok (s', b', d') tt -> 0 <= macc dk -> bal_nn e (a_s a) -> bal_nn e s'.
Proof.
  unfold start_auction. intros H Hm B.
  inv_bind H as u1 G1. inv_bind H as u2 G2. inv_bind H as u3 G3.
  inv_bind H as s1 E1. inv_bind H as s2 E2. inv_bind H as s3 E3. inv_bind H as u4 G4.
  apply ret_ok in H. inversion H; subst; clear H.
  apply panic_unless_ok in G1. apply Z.leb_le in G1.
  assert (Hl : 0 <= (if macc dk <? lot then macc dk else lot)) by (destruct (macc dk <? lot); lia).
  pose proof (bsend_bal_nn _ _ _ _ _ _ (csingle_nonneg dk _ Hl) E1 B) as B1.
  apply dec_supplied_ok in E2. apply dec_borrowed_ok in E3. subst s' s2. exact B1.
Qed.

Lemma auction_body_bal e ltv macc bk a dk a' :
  auction_body e ltv macc bk a dk = Ok a' tt -> 0 <= macc dk -> bal_nn e (a_s a) -> bal_nn e (a_s a').
Proof.
  unfold auction_body, auction_step. cbn [bind ret]. intros H Hm B.
  destruct (a_max a =? 0); [apply ret_ok in H; subst; exact B|].
  destruct (a_max a <=? a_dv a dk).
  - inv_bind H as ls E1. destruct (dec_trunc_int ls =? 0); [apply ret_ok in H; subst; exact B|].
    inv_bind H as x E2. destruct x as [[s1 b1] d1]. apply ret_ok in H. subst a'. cbn.
    eapply start_auction_bal; eauto.
  - inv_bind H as bs E1.
    destruct ((dec_trunc_int bs =? 0) || (a_dep a dk =? 0)); [apply ret_ok in H; subst; exact B|].
    inv_bind H as x E2. destruct x as [[s1 b1] d1]. inv_bind H as m E3. apply ret_ok in H. subst a'. cbn.
    eapply start_auction_bal; eauto.
Qed.

Lemma borrow_body_bal e ltv macc dkeys a bk a' :
  borrow_body e ltv macc dkeys a bk = Ok a' tt -> (forall dk, In dk dkeys -> 0 <= macc dk) ->
  bal_nn e (a_s a) -> bal_nn e (a_s a').
Proof.
  unfold borrow_body, borrow_step. cbn [bind ret]. intros H Hm B. inv_bind H as m E1.
  refine (fold_bind_inv_in (fun x => bal_nn e (a_s x)) _ _ dkeys (auction_step_bind e ltv macc bk) _ _ _ H _).
  - intros a1 dk a2 Hin Pa G. eapply auction_body_bal; eauto.
  - exact B.
Qed.

Lemma start_auctions_bal e s b bw aucdep dvals bvals ltv s' :
  start_auctions e s b bw aucdep dvals bvals ltv = Ok s' tt -> bal_nn e s -> bal_nn e s'.
Proof.
  unfold start_auctions. intros H B. inv_bind H as a E1.
  assert (Hm : forall dk, In dk (denoms (nd e) aucdep) -> 0 <= bal s (hacc e) dk).
  { intros dk Hin. apply denoms_lt in Hin. apply B, Hin. }
  assert (A : bal_nn e (a_s a)).
  { refine (fold_bind_inv (fun x => bal_nn e (a_s x)) _ _ _ (borrow_step_bind e ltv (bal s (hacc e)) _) _ _ _ E1 _).
    - intros a1 bk a2 Pa G. eapply borrow_body_bal; eauto.
    - exact B. }
  refine (fold_bind_inv (bal_nn e) _ _ _ (return_step_bind e b (a_dep a)) _ _ _ H A).
  intros s1 dk s2 P1 G. unfold return_body, return_step in G. cbn [bind ret] in G.
  destruct (Z.ltb_spec 0 (a_dep a dk)) as [Hpos|]; [|apply ret_ok in G; subst; exact P1].
  eapply bsend_bal_nn; [|exact G|exact P1]. apply csingle_nonneg. lia.
Qed.

Lemma seize_bal e s k b dp bw s' : seize e s k b dp bw = Ok s' tt -> bal_nn e s -> bal_nn e s'.
Proof.
  unfold seize. intros H B. inv_bind H as s1 E1. inv_bind H as u1 G1.
  assert (A : bal_nn e s1).
  { destruct (cempty (nd e) (keeper_reward s dp)); [apply ret_ok in E1; subst; exact B|].
    inv_bind E1 as s0 E0. apply dec_supplied_ok in E0. subst s0.
    eapply bsend_bal_nn; [|exact E1|exact B]. intros d. apply keeper_reward_bounds. }
  match type of H with (if ?c then _ else _) = _ => destruct c end.
  - apply ret_ok in H. subst. exact A.
  - eapply start_auctions_bal; eauto.
Qed.

Lemma liquidate_hx e s k b s' : liquidate e s k b = Ok s' tt -> HInv e s -> HX e s -> HX e s'.
Proof.
  unfold liquidate. intros H I X.
  inv_bind H as u1 G1. inv_bind H as u2 G2. inv_bind H as u3 G3. inv_bind H as u4 G4.
  inv_bind H as s1 E1. inv_bind H as s2 E2.
  destruct (dep s2 b) as [dp|] eqn:Ed; [|discriminate].
  destruct (bor s2 b) as [bw|] eqn:Eb; [|discriminate].
  inv_bind H as w E3. inv_bind H as u5 G5. inv_bind H as s3 E4. apply ret_ok in H.
  pose proof (sync_borrow_inv _ _ _ _ E1 I) as I1.
  pose proof (sync_supply_hx _ _ _ _ E2 I1 (sync_borrow_hx _ _ _ _ E1 I X)) as (A & B & C & D).
  pose proof (seize_bal _ _ _ _ _ _ _ E4 A) as A3.
  destruct (seize_store _ _ _ _ _ _ _ E4) as ([Zp _] & Z2 & Z3 & _).
  subst s'. unfold HX, price_nn. cbn. rewrite Zp, Z2, Z3.
  split; [exact A3|]. split; [exact B|].
  split; apply recs_nonempty_upd; try assumption; discriminate.
Qed.

(** ** begin blocker *)
Lemma accrue_frame_bal e s d t f s' : accrue e s d t f = Ok s' tt -> bal s' = bal s /\ price s' = price s.
Proof.
  unfold accrue. intros H.
  destruct (prev s d) as [p|]; [|apply ret_ok in H; subst; auto].
  destruct (t - p =? 0); [apply ret_ok in H; subst; auto|].
  destruct (tbor s d =? 0); [apply ret_ok in H; subst; auto|].
  cbn [mkts set_sfac set_bfac] in H. destruct (mkts s d) as [m|]; [|discriminate].
  inv_bind H as apy E1. inv_bind H as u1 G1.
  match type of H with (if ?c then _ else _) = _ => destruct c end.
  - apply ret_ok in H. subst s'. auto.
  - inv_bind H as u2 G2. inv_bind H as u3 G3. inv_bind H as u4 G4. apply ret_ok in H. subst s'. auto.
Qed.

Lemma begin_block_hx e s t fs s' : begin_block e s t fs = Ok s' tt -> HInv e s -> HX e s -> HX e s'.
Proof.
  intros H I X.
  refine (proj2 (begin_block_inv (fun x => HInv e x /\ HX e x) e s t fs s' _ _ H (conj I X))).
  - intros a d a2 Hd G (P0 & P1).
    destruct (accrue_inv _ _ _ _ _ _ G P0) as (Q0 & _ & _ & Q3 & Q4).
    destruct (accrue_frame_bal _ _ _ _ _ _ G) as [Q5 Q6].
    split; [assumption|]. eapply HX_ext; [..|exact P1]; assumption.
  - intros s0 m (P0 & P1). split; [eapply HInv_ext; [..|exact P0]; reflexivity|eapply HX_ext; [..|exact P1]; reflexivity].
Qed.

(** ** every operation; all histories *)
Definition HInvB (e : env) (s : state) : Prop := HInv e s /\ HX e s.

Lemma step_hx e s o s' : step e s o = Ok s' tt -> HInv e s -> HX e s -> HX e s'.
Proof.
  destruct o as [u c|u c|u c|a b c|k b|d p|u d x|t fs|ps]; cbn [step]; intros H I X.
  - destruct (Nat.ltb u (nu e) && msg_ok e c) eqn:G; [|discriminate]. apply andb_prop in G. destruct G as [_ G].
    eapply deposit_hx; eauto using msg_ok_nonneg.
  - destruct (Nat.ltb u (nu e) && msg_ok e c) eqn:G; [|discriminate]. apply andb_prop in G. destruct G as [_ G].
    eapply withdraw_hx; eauto using msg_ok_nonneg.
  - destruct (Nat.ltb u (nu e) && msg_ok e c) eqn:G; [|discriminate]. apply andb_prop in G. destruct G as [_ G].
    eapply borrow_hx; eauto using msg_ok_nonneg.
  - destruct (Nat.ltb a (nu e) && Nat.ltb b (nu e) && msg_ok e c) eqn:G; [|discriminate]. apply andb_prop in G. destruct G as [_ G].
    eapply repay_hx; eauto using msg_ok_nonneg.
  - destruct (Nat.ltb k (nu e) && Nat.ltb b (nu e)); [|discriminate]. eapply liquidate_hx; eauto.
  - destruct (Nat.ltb d (nd e) && (0 <=? p)) eqn:G; [|discriminate]. apply andb_prop in G. destruct G as [_ G].
    apply Z.leb_le in G. apply ret_ok in H. subst s'. destruct X as (A & B & C & D). unfold HX, price_nn. cbn.
    split; [exact A|]. split; [|split; assumption]. intros d'. unfold upd. destruct (Nat.eqb d' d); [assumption|apply B].
  - destruct (Nat.ltb u (nu e) && Nat.ltb d (nd e) && (0 <=? x)) eqn:G; [|discriminate]. apply andb_prop in G. destruct G as [_ G].
    apply Z.leb_le in G. destruct X as (A & B & C & D).
    pose proof (bsend_bal_nn _ _ _ _ _ _ (csingle_nonneg d x G) H A) as A2.
    apply bsend_ok in H. destruct H as [_ ->]. unfold HX, price_nn. cbn. auto.
  - eapply begin_block_hx; eauto.
  - apply ret_ok in H. subst s'. eapply HX_ext; [..|exact X]; reflexivity.
Qed.

Theorem run_invb e ops : forall s, HInvB e s -> HInvB e (run e s ops).
Proof.
  unfold run. induction ops as [|o ops IH]; intros s [I X]; cbn [fold_left]; [split; assumption|].
  apply IH. split; [apply step'_inv, I|].
  unfold step'. destruct (step e s o) as [s' []| |] eqn:E; [|assumption|assumption].
  eapply step_hx; eauto.
Qed.

Lemma genesis_invb e bals prices prevs mms :
  (forall a d, 0 <= nthZ (nth a bals []) d) -> (forall d, 0 <= nthZ prices d) ->
  HInvB e (mk_state bals prices prevs mms).
Proof.
  intros Hb Hp. split; [apply genesis_inv|]. unfold HX, bal_nn, price_nn, recs_nonempty. cbn.
  split; [intros a d _; apply Hb|]. split; [exact Hp|]. split; intros u r E; discriminate.
Qed.

(** ** the boolean invariant of the correspondence run is a consequence *)
Lemma rec_ok_of_sound n gf (chk : Z -> bool) r :
  rec_sound n gf r -> cempty n (amt r) = false -> (forall f, PREC <= f -> chk f = true) ->
  rec_ok n chk (Some r) = true.
Proof.
  intros (Ra & Rc & Re) Hne Hchk. unfold rec_ok. rewrite Hne. cbn [negb]. rewrite andb_true_r.
  apply forallb_forall. intros d Hd. apply in_seq in Hd.
  apply andb_true_intro. split; [apply Z.leb_le, Ra|].
  destruct (Z.eqb_spec (amt r d) 0) as [|Hnz]; [reflexivity|]. cbn [orb].
  destruct (idx_get d (idx r)) as [f|] eqn:Ei; [|exfalso; apply (Rc d ltac:(lia) Hnz Ei)].
  apply Hchk. apply idx_get_in in Ei. apply (Re d f Ei).
Qed.

Theorem HInvB_inv_b e s : HInvB e s -> inv_b e s = true.
Proof.
  intros [[H1 H2 H3 H4 H5 H6 H7] (A & B & C & D)]. unfold inv_b.
  apply andb_true_intro. split; [apply andb_true_intro; split|].
  - apply forallb_forall. intros u _. apply andb_true_intro. split.
    + destruct (dep s u) as [r|] eqn:E; [|reflexivity].
      eapply rec_ok_of_sound; [eapply H3; eauto|eapply C; eauto|reflexivity].
    + destruct (bor s u) as [r|] eqn:E; [|reflexivity].
      eapply rec_ok_of_sound; [eapply H4; eauto|eapply D; eauto|]. intros f Hf. apply Z.leb_le, Hf.
  - apply forallb_forall. intros d _.
    repeat (apply andb_true_intro; split); try (apply Z.leb_le; auto).
    destruct (bfac s d) as [f|] eqn:E; [apply Z.leb_le; eapply H2; eauto|reflexivity].
  - apply forallb_forall. intros a _. apply forallb_forall. intros d Hd. apply in_seq in Hd.
    apply Z.leb_le. apply A. lia.
Qed.

Theorem inv_b_all_histories e bals prices prevs mms ops :
  (forall a d, 0 <= nthZ (nth a bals []) d) -> (forall d, 0 <= nthZ prices d) ->
  inv_b e (run e (mk_state bals prices prevs mms) ops) = true.
Proof. intros Hb Hp. apply HInvB_inv_b, run_invb, genesis_invb; assumption. Qed.
