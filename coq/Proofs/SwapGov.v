(* Lemmas about Model/SwapGov.v: x/swap with the fee as state (changed by governance mid-history). *)
From Kava Require Import Base.Prelude Base.Dec Model.Swap Model.SwapGov Proofs.Swap.
Local Open Scope Z_scope.

(* the keeper invariant does not mention the fee *)
Lemma Inv_with_fee e f s : Inv (with_fee e f) s <-> Inv e s.
Proof. unfold Inv, with_fee, macc. cbn [nden nusers]. tauto. Qed.

(** * a history is a sequence of segments of constant fee *)
Lemma vrun_app e a b : forall s, vrun e s (a ++ b) = vrun e (vrun e s a) b.
Proof. intros s. unfold vrun. apply fold_left_app. Qed.

Lemma vstep'_keeper e s o : vstep' e s (VKeeper o) = mkV (v_fee s) (step' (cur_env e s) (v_k s) o).
Proof.
  unfold vstep', step'. cbn [vstep]. destruct (step (cur_env e s) (v_k s) o); cbn [lift_k]; destruct s; reflexivity.
Qed.

Lemma vstep'_tx e s t m : vstep' e s (VTx t m) = mkV (v_fee s) (tx_step' (cur_env e s) (v_k s) (t, m)).
Proof.
  unfold vstep', tx_step'. cbn [vstep fst snd]. destruct (tx_step (cur_env e s) t (v_k s) m); cbn [lift_k]; destruct s; reflexivity.
Qed.

(* between two fee changes the history is a history of Model/Swap.v under the current fee: every
   theorem about [run] / [tx_run] speaks about the segment *)
Theorem vrun_keeper_segment e ops : forall s,
  vrun e s (map VKeeper ops) = mkV (v_fee s) (run (cur_env e s) (v_k s) ops).
Proof.
  induction ops as [|o r IH]; intros s; [destruct s; reflexivity|].
  cbn [map]. unfold vrun. cbn [fold_left]. fold (vrun e (vstep' e s (VKeeper o)) (map VKeeper r)).
  rewrite IH, vstep'_keeper. reflexivity.
Qed.

Theorem vrun_tx_segment e l : forall s,
  vrun e s (map (fun tm => VTx (fst tm) (snd tm)) l) = mkV (v_fee s) (tx_run (cur_env e s) (v_k s) l).
Proof.
  induction l as [|[t m] r IH]; intros s; [destruct s; reflexivity|].
  cbn [map fst snd]. unfold vrun. cbn [fold_left].
  fold (vrun e (vstep' e s (VTx t m)) (map (fun tm => VTx (fst tm) (snd tm)) r)).
  rewrite IH, vstep'_tx. reflexivity.
Qed.

(** * the fee change *)
Theorem setfee_valid e s f : fee_ok f = true -> vstep e s (VSetFee f) = Ok (mkV f (v_k s)) [].
Proof. intros H. cbn [vstep]. now rewrite H. Qed.

Theorem setfee_invalid e s f : fee_ok f = false -> vstep e s (VSetFee f) = Err /\ vstep' e s (VSetFee f) = s.
Proof. intros H. unfold vstep'. cbn [vstep]. rewrite H. split; reflexivity. Qed.

Theorem setfee_touches_only_fee e s f s' outs :
  vstep e s (VSetFee f) = Ok s' outs -> v_k s' = v_k s /\ v_fee s' = f /\ 0 <= f < PREC.
Proof.
  cbn [vstep]. destruct (fee_ok f) eqn:F; [|discriminate]. intros H. inversion H; subst. cbn [v_k v_fee].
  unfold fee_ok in F. apply andb_prop in F. destruct F as (F1 & F2).
  apply Z.leb_le in F1. apply Z.ltb_lt in F2. auto.
Qed.

(* the operation after an accepted fee change runs under the new fee *)
Theorem step_after_setfee e s f g : fee_ok f = true ->
  vstep e (vstep' e s (VSetFee f)) g = vstep (with_fee e f) (mkV f (v_k s)) g.
Proof.
  intros H. unfold vstep'. rewrite (setfee_valid e s f H). destruct g; reflexivity.
Qed.

Theorem keeper_step_after_setfee e s f o : fee_ok f = true ->
  vstep e (vstep' e s (VSetFee f)) (VKeeper o) = lift_k f (step (with_fee e f) (v_k s) o).
Proof. intros H. unfold vstep'. rewrite (setfee_valid e s f H). reflexivity. Qed.

(* only a fee change changes the fee *)
Lemma vstep_fee e s g s' outs : vstep e s g = Ok s' outs ->
  v_fee s' = v_fee s \/ exists f, g = VSetFee f /\ v_fee s' = f /\ fee_ok f = true.
Proof.
  destruct g as [o|t m|f]; cbn [vstep].
  - destruct (step _ _ _); cbn [lift_k]; intros H; inversion H; subst; now left.
  - destruct (tx_step _ _ _ _); cbn [lift_k]; intros H; inversion H; subst; now left.
  - destruct (fee_ok f) eqn:F; [|discriminate]. intros H; inversion H; subst. right. now exists f.
Qed.

Theorem vrun_fee_ok e gs : forall s, fee_ok (v_fee s) = true -> fee_ok (v_fee (vrun e s gs)) = true.
Proof.
  induction gs as [|g r IH]; intros s H; [exact H|]. unfold vrun. cbn [fold_left]. apply IH.
  unfold vstep'. destruct (vstep e s g) as [s' outs| |] eqn:E; auto.
  destruct (vstep_fee e s g s' outs E) as [->|(f & _ & -> & F)]; assumption.
Qed.

(** * the keeper invariant for every history with fee changes *)
Theorem vstep_inv e s g s' outs : Inv e (v_k s) -> vstep e s g = Ok s' outs -> Inv e (v_k s').
Proof.
  intros I. destruct g as [o|t m|f]; cbn [vstep].
  - destruct (step (cur_env e s) (v_k s) o) as [k o1| |] eqn:E; cbn [lift_k]; try discriminate.
    intros H; inversion H; subst. cbn [v_k].
    apply (Inv_with_fee e (v_fee s)). apply (step_inv (cur_env e s) (v_k s) o k outs); [now apply Inv_with_fee|exact E].
  - destruct (tx_step (cur_env e s) t (v_k s) m) as [k o1| |] eqn:E; cbn [lift_k]; try discriminate.
    intros H; inversion H; subst. cbn [v_k].
    apply tx_step_ok in E. destruct E as (_ & _ & E).
    apply (Inv_with_fee e (v_fee s)). apply (step_inv (cur_env e s) (v_k s) (m_op m) k outs); [now apply Inv_with_fee|exact E].
  - destruct (fee_ok f); [|discriminate]. intros H; inversion H; subst. exact I.
Qed.

Theorem vrun_inv e gs : forall s, Inv e (v_k s) -> Inv e (v_k (vrun e s gs)).
Proof.
  induction gs as [|g r IH]; intros s I; [exact I|]. unfold vrun. cbn [fold_left]. apply IH.
  unfold vstep'. destruct (vstep e s g) as [s' outs| |] eqn:E; auto. eapply vstep_inv; eauto.
Qed.

(* a refused operation (an invalid fee included) changes nothing *)
Theorem vstep_failed_changes_nothing e s g : (forall s' u, vstep e s g <> Ok s' u) -> vstep' e s g = s.
Proof.
  intros H. unfold vstep'. destruct (vstep e s g) as [s' u| |] eqn:E; auto. exfalso. exact (H s' u eq_refl).
Qed.

(** * swaps keep the fee at the rate CURRENTLY configured *)
Lemma keeper_ok_in_range e s o k outs : step e s o = Ok k outs -> op_in_range e o = true.
Proof. unfold step. destruct (op_in_range e o); [reflexivity|discriminate]. Qed.

Theorem v_swap_in_keeps_current_fee e s who din ain dout bdes sl s' outs :
  Inv e (v_k s) ->
  vstep e s (VKeeper (SwapIn who din ain dout bdes sl)) = Ok s' outs ->
  let x := lo din dout in let y := hi din dout in
  exists p p' out fv,
    outs = [ain; out; fv] /\ v_fee s' = v_fee s /\ k_pool (v_k s) x y = Some p /\ wf p /\ wf p' /\
    (if Nat.eqb din x then swap_exact_a_for_b p ain (v_fee s) else swap_exact_b_for_a p ain (v_fee s))
      = POk (p', (out, fv)) /\
    (* the fee is exactly ceil(input * current fee), and the product of the reserves does not
       decrease even with it left out *)
    ain * v_fee s <= fv * PREC < ain * v_fee s + PREC /\
    (if Nat.eqb din x then (ra p + ain - fv) * (rb p - out) else (ra p - out) * (rb p + ain - fv)) >= ra p * rb p.
Proof.
  intros I H x y. cbn [vstep] in H.
  destruct (step (cur_env e s) (v_k s) (SwapIn who din ain dout bdes sl)) as [k o1| |] eqn:E; cbn [lift_k] in H; try discriminate.
  inversion H; subst; clear H. cbn [v_fee v_k].
  pose proof (keeper_ok_in_range _ _ _ _ _ E) as R. unfold op_in_range in R. cbn [op_who op_denoms fst snd] in R.
  apply andb_prop in R. destruct R as (R12 & R3). apply andb_prop in R12. destruct R12 as (R1 & R2).
  apply Nat.ltb_lt in R1, R2, R3. cbn [cur_env with_fee nusers nden] in R1, R2, R3.
  unfold step in E. replace (op_in_range (cur_env e s) (SwapIn who din ain dout bdes sl)) with true in E.
  2:{ unfold op_in_range. cbn [op_who op_denoms fst snd cur_env with_fee nusers nden].
      symmetry. apply andb_true_intro. split; [apply andb_true_intro; split|]; now apply Nat.ltb_lt. }
  cbn [negb] in E.
  assert (I' : Inv (cur_env e s) (v_k s)) by now apply Inv_with_fee.
  destruct (swap_in_inv (cur_env e s) (v_k s) who din ain dout bdes sl k outs I' R1 R2 R3 E)
    as (p & p' & out & fv & -> & N & KP & W & W' & SW & O & _ & _).
  cbn [cur_env with_fee swap_fee] in SW. fold x y in SW, KP.
  exists p, p', out, fv. do 6 (split; [solve [reflexivity|assumption]|]).
  destruct (Nat.eqb din x).
  - destruct (swap_exact_a_for_b_spec _ _ _ _ _ _ W SW) as (_ & _ & _ & _ & _ & _ & _ & P & F). split; assumption.
  - destruct (swap_exact_b_for_a_spec _ _ _ _ _ _ W SW) as (_ & _ & _ & _ & _ & _ & _ & P & F). split; assumption.
Qed.

Theorem v_swap_out_keeps_current_fee e s who din amax dout bex sl s' outs :
  Inv e (v_k s) ->
  vstep e s (VKeeper (SwapOut who din amax dout bex sl)) = Ok s' outs ->
  let x := lo din dout in let y := hi din dout in
  exists p p' inn fv,
    outs = [inn; bex; fv] /\ v_fee s' = v_fee s /\ k_pool (v_k s) x y = Some p /\ wf p /\ wf p' /\
    (if Nat.eqb din x then swap_a_for_exact_b p bex (v_fee s) else swap_b_for_exact_a p bex (v_fee s))
      = POk (p', (inn, fv)) /\
    (* at least ceil(input * current fee) stays in the pool *)
    inn * v_fee s <= fv * PREC /\
    (if Nat.eqb din x then (ra p + inn - fv) * (rb p - bex) else (ra p - bex) * (rb p + inn - fv)) >= ra p * rb p.
Proof.
  intros I H x y. cbn [vstep] in H.
  destruct (step (cur_env e s) (v_k s) (SwapOut who din amax dout bex sl)) as [k o1| |] eqn:E; cbn [lift_k] in H; try discriminate.
  inversion H; subst; clear H. cbn [v_fee v_k].
  pose proof (keeper_ok_in_range _ _ _ _ _ E) as R. unfold op_in_range in R. cbn [op_who op_denoms fst snd] in R.
  apply andb_prop in R. destruct R as (R12 & R3). apply andb_prop in R12. destruct R12 as (R1 & R2).
  apply Nat.ltb_lt in R1, R2, R3. cbn [cur_env with_fee nusers nden] in R1, R2, R3.
  unfold step in E. replace (op_in_range (cur_env e s) (SwapOut who din amax dout bex sl)) with true in E.
  2:{ unfold op_in_range. cbn [op_who op_denoms fst snd cur_env with_fee nusers nden].
      symmetry. apply andb_true_intro. split; [apply andb_true_intro; split|]; now apply Nat.ltb_lt. }
  cbn [negb] in E.
  assert (I' : Inv (cur_env e s) (v_k s)) by now apply Inv_with_fee.
  destruct (swap_out_inv (cur_env e s) (v_k s) who din amax dout bex sl k outs I' R1 R2 R3 E)
    as (p & p' & inn & fv & -> & N & KP & W & W' & SW & O & _ & _).
  cbn [cur_env with_fee swap_fee] in SW. fold x y in SW, KP.
  exists p, p', inn, fv. do 6 (split; [solve [reflexivity|assumption]|]).
  destruct (Nat.eqb din x).
  - destruct (swap_a_for_exact_b_spec _ _ _ _ _ _ W SW) as (_ & _ & _ & _ & _ & _ & _ & P & F). split; assumption.
  - destruct (swap_b_for_exact_a_spec _ _ _ _ _ _ W SW) as (_ & _ & _ & _ & _ & _ & _ & P & F). split; assumption.
Qed.

(** * why the fee must be read when the swap executes: a keeper that memoised it at its first swap
    keeps less than the configured fee after governance raised it (0.3 % -> 5 %) *)
Definition sg_env : env := mkEnv 3%nat 3%nat [(0%nat, 2%nat); (1%nat, 2%nat)] 3000000000000000.
Definition sg_init : vstate :=
  mkV 3000000000000000 (mk_state [[2000000000; 0; 6000000000]; [0; 0; 0]; [0; 0; 0]; [0; 0; 0]]).
Definition sg_hist : list vop :=
  [VKeeper (Deposit 0%nat 0%nat 1000000000 2%nat 5000000000 0);
   VKeeper (SwapIn 0%nat 0%nat 1000000 2%nat 4000000 PREC);
   VSetFee 50000000000000000;
   VKeeper (SwapIn 0%nat 0%nat 100000000 2%nat 1 PREC)].

Definition mrun_memo (e : env) (s : mstate) (gs : list vop) : mstate :=
  fold_left (fun s g => match mstep_memo e s g with Ok s' _ => s' | _ => s end) gs s.

(* what the trader received in usdx (denom 2) over the history *)
Definition sg_received (k : kstate) : Z := k_bal k 0%nat 2%nat.

Theorem memoised_fee_underprices :
  (* both keepers show the configured fee 5 % after the proposal ... *)
  v_fee (vrun sg_env sg_init sg_hist) = 50000000000000000 /\
  v_fee (m_v (mrun_memo sg_env (mkM None sg_init) sg_hist)) = 50000000000000000 /\
  (* ... but the memoising keeper pays out more for the same input than the model of the code *)
  sg_received (v_k (vrun sg_env sg_init sg_hist)) < sg_received (v_k (m_v (mrun_memo sg_env (mkM None sg_init) sg_hist))).
Proof. vm_compute. repeat split; reflexivity. Qed.
