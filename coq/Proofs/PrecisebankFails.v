(* "An operation fails exactly when bank rules require it": for a plain akava
   transfer between two distinct ordinary parties, success is equivalent to the
   amount being covered by the sender's spendable extended balance. *)
From Kava Require Import Base.Prelude Model.Precisebank Proofs.Precisebank.
Local Open Scope Z_scope.

Lemma bsend1_ok_iff e s a b n :
  lock e a dU <= bal s a dU ->
  (exists s', bsend e s a b [(dU, n)] = Some s') <-> n <= bal s a dU - lock e a dU.
Proof.
  intros HL. unfold bsend, bsub, bsub1.
  destruct (Z.leb_spec (lock e a dU) (bal s a dU)); [|lia].
  destruct (Z.leb_spec n (bal s a dU - lock e a dU)); cbn [andb].
  - split; [intros _; assumption|intros _; eexists; reflexivity].
  - split; [intros [s' H']; discriminate|lia].
Qed.

Theorem send_ext_succeeds_iff e s f t x :
  env_wf e -> Inv e s -> (f < nacc e)%nat -> (t < nacc e)%nat ->
  f <> reserve e -> t <> reserve e -> f <> t -> 0 < x ->
  0 <= lock e f dU <= bal s f dU ->
  (exists s', send_ext e s f t x = Ok s' tt) <-> x <= spendable_ext e s f.
Proof.
  intros Hwf HInv Hf Ht Hfr Htr Hft Hx HL.
  pose proof (send_ext_no_panic e s f t x Hwf HInv Hf Ht Hfr Htr) as Hnp.
  pose proof HInv as (Hfrac & Hrem & Hres & Hsa & Hfres).
  unfold spendable_ext. destruct (Nat.eqb_spec f (reserve e)) as [|_]; [congruence|].
  rewrite Z.max_r by lia.
  revert Hnp. unfold send_ext.
  destruct (Nat.eqb_spec f t) as [|_]; [congruence|].
  set (fa := x mod CF). set (ia := x / CF).
  pose proof (mod_CF x) as Hfa. fold fa in Hfa.
  pose proof (div_mod_CF x) as Hdm. fold fa ia in Hdm.
  assert (Hia : 0 <= ia) by (apply Z.div_pos; [lia|apply CF_pos]).
  pose proof (Hfrac f) as Hff. pose proof (Hfrac t) as Hft'.
  set (borrow := frac s f - fa <? 0).
  set (carry := CF <=? frac s t + fa).
  set (ia' := if borrow && carry then ia + 1 else ia).
  assert (Hia' : 0 <= ia') by (unfold ia'; destruct (borrow && carry); lia).
  (* step 1 *)
  destruct (Z.ltb_spec 0 ia') as [Hpos|Hz].
  - destruct (bsend e s f t [(dU, ia')]) as [s1|] eqn:E1.
    + assert (H1 : ia' <= bal s f dU - lock e f dU).
      { apply (proj1 (bsend1_ok_iff e s f t ia' ltac:(lia))). eexists; exact E1. }
      apply bsend1_spec in E1. destruct E1 as (F1 & R1 & S1 & B1).
      assert (Bf : bal s1 f dU = bal s f dU - ia').
      { rewrite B1. rewrite !Nat.eqb_refl. destruct (Nat.eqb_spec f t); [congruence|]. lia. }
      destruct (borrow && negb carry) eqn:Ebc.
      * destruct (bsend e s1 f (reserve e) [(dU, 1)]) as [s2|] eqn:E2.
        -- assert (H2 : 1 <= bal s1 f dU - lock e f dU).
           { apply (proj1 (bsend1_ok_iff e s1 f (reserve e) 1 ltac:(lia))). eexists; exact E2. }
           intros Hnp.
           destruct (if negb borrow && carry then bsend e s2 (reserve e) t [(dU, 1)] else Some s2) as [s3|] eqn:E3.
           ++ split; [intros _|intros _; eexists; reflexivity].
              apply andb_true_iff in Ebc. destruct Ebc as [Eb Ec]. apply negb_true_iff in Ec.
              unfold ia' in *. rewrite Eb, Ec in *. cbn [andb] in *.
              unfold borrow in Eb. apply Z.ltb_lt in Eb. nia.
           ++ exfalso. apply Hnp. reflexivity.
        -- intros _. split; [intros [s' H']; discriminate|].
           intros Hle. exfalso.
           assert (~ (1 <= bal s1 f dU - lock e f dU)).
           { intros Hc. apply (proj2 (bsend1_ok_iff e s1 f (reserve e) 1 ltac:(lia))) in Hc. destruct Hc as [s' Hs']. congruence. }
           apply andb_true_iff in Ebc. destruct Ebc as [Eb Ec]. apply negb_true_iff in Ec.
           unfold ia' in *. rewrite Eb, Ec in *. cbn [andb] in *.
           unfold borrow in Eb. apply Z.ltb_lt in Eb. nia.
      * intros Hnp.
        destruct (if negb borrow && carry then bsend e s1 (reserve e) t [(dU, 1)] else Some s1) as [s3|] eqn:E3.
        -- split; [intros _|intros _; eexists; reflexivity].
           unfold ia' in *. unfold borrow, carry in *.
           destruct (Z.ltb_spec (frac s f - fa) 0), (Z.leb_spec CF (frac s t + fa)); cbn [andb negb] in *; try discriminate; nia.
        -- exfalso. apply Hnp. reflexivity.
    + intros _. split; [intros [s' H']; discriminate|].
      intros Hle. exfalso.
      assert (~ (ia' <= bal s f dU - lock e f dU)).
      { intros Hc. apply (proj2 (bsend1_ok_iff e s f t ia' ltac:(lia))) in Hc. destruct Hc as [s' Hs']. congruence. }
      unfold ia' in *. unfold borrow, carry in *.
      destruct (Z.ltb_spec (frac s f - fa) 0), (Z.leb_spec CF (frac s t + fa)); cbn [andb negb] in *; nia.
  - assert (ia' = 0) by lia.
    destruct (borrow && negb carry) eqn:Ebc.
    + destruct (bsend e s f (reserve e) [(dU, 1)]) as [s2|] eqn:E2.
      * assert (H2 : 1 <= bal s f dU - lock e f dU).
        { apply (proj1 (bsend1_ok_iff e s f (reserve e) 1 ltac:(lia))). eexists; exact E2. }
        intros Hnp.
        destruct (if negb borrow && carry then bsend e s2 (reserve e) t [(dU, 1)] else Some s2) as [s3|] eqn:E3.
        -- split; [intros _|intros _; eexists; reflexivity].
           apply andb_true_iff in Ebc. destruct Ebc as [Eb Ec]. apply negb_true_iff in Ec.
           unfold ia' in *. rewrite Eb, Ec in *. cbn [andb] in *.
           unfold borrow in Eb. apply Z.ltb_lt in Eb. nia.
        -- exfalso. apply Hnp. reflexivity.
      * intros _. split; [intros [s' H']; discriminate|].
        intros Hle. exfalso.
        assert (~ (1 <= bal s f dU - lock e f dU)).
        { intros Hc. apply (proj2 (bsend1_ok_iff e s f (reserve e) 1 ltac:(lia))) in Hc. destruct Hc as [s' Hs']. congruence. }
        apply andb_true_iff in Ebc. destruct Ebc as [Eb Ec]. apply negb_true_iff in Ec.
        unfold ia' in *. rewrite Eb, Ec in *. cbn [andb] in *.
        unfold borrow in Eb. apply Z.ltb_lt in Eb. nia.
    + intros Hnp.
      destruct (if negb borrow && carry then bsend e s (reserve e) t [(dU, 1)] else Some s) as [s3|] eqn:E3.
      * split; [intros _|intros _; eexists; reflexivity].
        unfold ia' in *. unfold borrow, carry in *.
        destruct (Z.ltb_spec (frac s f - fa) 0), (Z.leb_spec CF (frac s t + fa)); cbn [andb negb] in *; try discriminate; nia.
      * exfalso. apply Hnp. reflexivity.
Qed.
