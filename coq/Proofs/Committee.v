(* Lemmas and proofs about Model/Committee.v *)
From Coq Require Import Sorted.
From Kava Require Import Base.Prelude Base.Dec Model.Json Model.Committee Proofs.Json.
Local Open Scope string_scope.
Local Open Scope list_scope.
Local Open Scope Z_scope.

(** * Part 1: the permission check against the applier *)

Lemma oget_some_in k v l : oget k l = Some v -> In (k, v) l.
Proof.
  induction l as [|[k' v'] r IH]; cbn; [discriminate|].
  destruct (oget k r) eqn:E.
  - intros H. inversion H; subst. right. now apply IH.
  - destruct (String.eqb_spec k' k) as [->|]; [|discriminate]. intros H. inversion H. now left.
Qed.

(* one record: whatever the checker accepted, decoding (onto the record itself
   or onto zero) leaves every protected field as it was *)
Lemma rec_sound sch r base raw allow r' :
  schema_ok sch = true -> wt_rec sch r = true -> (base = r \/ base = zero_rec sch) ->
  validate_changes (dedupe (enc_rec sch r)) (dedupe raw) allow = true ->
  dec_rec sch base raw = Some r' ->
  forall f, In f sch -> str_in (f_name f) allow = false ->
    bget (f_name f) r' (zero_k (f_kind f)) = bget (f_name f) r (zero_k (f_kind f)).
Proof.
  intros Hok Hwt Hbase Hval Hdec f Hin Hprot.
  destruct (schema_ok_parts _ Hok) as [Hnd Hfok].
  unfold validate_changes in Hval. apply Bool.andb_true_iff in Hval. destruct Hval as [Hlen Hall].
  apply Nat.eqb_eq in Hlen.
  pose proof (enc_rec_nodup sch r Hnd) as Hnde.
  rewrite (dedupe_id (enc_rec sch r)) in Hall, Hlen by assumption.
  rewrite forallb_forall in Hall.
  (* the incoming map has exactly the keys of the current document *)
  assert (Hkeys : forall n, has_key n raw = true -> In n (map fst (enc_rec sch r))).
  { intros n Hn.
    assert (Hincl : incl (map fst (enc_rec sch r)) (map fst (dedupe raw))).
    { intros k Hk. apply in_map_iff in Hk. destruct Hk as ([k0 v0] & <- & Hk).
      specialize (Hall _ Hk). cbn in Hall. apply Bool.andb_true_iff in Hall. destruct Hall as [Hh _].
      now apply has_key_In. }
    assert (Hback : incl (map fst (dedupe raw)) (map fst (enc_rec sch r))).
    { apply NoDup_length_incl; [exact Hnde| |exact Hincl]. rewrite !map_length. lia. }
    apply Hback. apply has_key_In. now rewrite has_key_dedupe. }
  pose proof (oget_enc_rec sch r f Hnd Hin) as He. cbn in He.
  set (v := bget (f_name f) r (zero_k (f_kind f))) in *.
  pose proof (dec_rec_get sch base raw r' f (zero_k (f_kind f)) Hnd Hdec Hin) as Hg.
  rewrite (field_dec (f_kind f) (f_omit f) v _ raw (f_name f)) in Hg.
  - now inversion Hg.
  - apply field_ok_kok. now apply Hfok.
  - unfold v. eapply wt_rec_get; eauto.
  - destruct Hbase as [->| ->]; [now left|right; now apply bget_zero_rec].
  - destruct (f_omit f && emp_k (f_kind f) v) eqn:Eo.
    + (* omitted from the current document, hence absent from the incoming one *)
      right. split; [reflexivity|]. apply oget_none_iff.
      destruct (has_key (f_name f) raw) eqn:Eh; [|reflexivity].
      apply Hkeys in Eh. apply has_key_In in Eh. apply oget_none_iff in He. congruence.
    + left. split; [reflexivity|].
      pose proof (oget_some_in _ _ _ He) as Hmem. specialize (Hall _ Hmem). cbn in Hall.
      apply Bool.andb_true_iff in Hall. destruct Hall as [_ Hall].
      rewrite Hprot in Hall. cbn in Hall. unfold mget in Hall. rewrite oget_dedupe in Hall. exact Hall.
Qed.

Definition has_rules (ac : allowed_change) : Prop :=
  is_nil (ac_single ac) && is_nil (ac_multi ac) = false.

(* single-record parameters *)
Theorem single_sound_full sch vf r ac inc st' :
  schema_ok sch = true -> wt_rec sch r = true -> has_rules ac ->
  allows_change ac (RVal (enc_struct sch r)) (Some inc) = Some true ->
  apply_single sch vf (enc_struct sch r) inc = AOk st' ->
  exists r', st' = enc_struct sch r' /\ vf r' = true /\
    forall f, In f sch -> str_in (f_name f) (ac_single ac) = false ->
      bget (f_name f) r' (zero_k (f_kind f)) = bget (f_name f) r (zero_k (f_kind f)).
Proof.
  intros Hok Hwt Hrules Hallow Happ.
  unfold allows_change in Hallow. unfold has_rules in Hrules. rewrite Hrules in Hallow.
  cbn [enc_struct] in Hallow.
  destruct (to_map inc) as [i|] eqn:Ei; [|discriminate].
  cbn [to_map] in Hallow. injection Hallow as Hval.
  unfold apply_single in Happ. cbn [enc_struct dec_struct] in Happ.
  rewrite (load_store _ _ Hok Hwt) in Happ.
  destruct (dec_struct sch r inc) as [r'|] eqn:Ed; [|discriminate].
  destruct (vf r') eqn:Ev; [|discriminate]. inversion Happ; subst st'.
  exists r'. split; [reflexivity|]. split; [exact Ev|].
  intros f Hin Hprot.
  destruct inc; cbn in Ei, Ed; try discriminate.
  - (* null: the map is empty, so the current document has no key at all: every
       field of r is an omitted zero, and decoding null zeroes the record *)
    inversion Ei; subst i. injection Ed as <-.
    destruct (schema_ok_parts _ Hok) as [Hnd _].
    rewrite (bget_zero_rec sch f Hnd Hin).
    pose proof (oget_enc_rec sch r f Hnd Hin) as He. cbn in He.
    pose proof (wt_rec_get sch r f Hwt Hnd Hin) as Hwf.
    set (v := bget (f_name f) r (zero_k (f_kind f))) in *.
    unfold validate_changes in Hval. apply Bool.andb_true_iff in Hval. destruct Hval as [Hl _].
    apply Nat.eqb_eq in Hl.
    destruct (f_omit f && emp_k (f_kind f) v) eqn:Eo.
    + apply Bool.andb_true_iff in Eo. destruct Eo as [_ Ee].
      destruct (f_kind f) as [k|fs]; cbn in *; [|discriminate].
      symmetry. now apply json_eqb_zero_s.
    + exfalso. apply oget_some_has in He. rewrite <- has_key_dedupe in He.
      destruct (dedupe (enc_rec sch r)); [discriminate|discriminate].
  - inversion Ei; subst i.
    eapply rec_sound with (base := r); eauto.
Qed.

(** ** multi-record parameters *)

Lemma to_maps_enc sch rs :
  to_maps (map (enc_struct sch) rs) = Some (map (fun r => dedupe (enc_rec sch r)) rs).
Proof. induction rs as [|r t IH]; cbn; [reflexivity|]. now rewrite IH. Qed.

Lemma to_maps_length l ms : to_maps l = Some ms -> List.length ms = List.length l.
Proof.
  revert ms. induction l as [|x t IH]; cbn; intros ms H; [inversion H; reflexivity|].
  destruct (to_map x); [|discriminate]. destruct (to_maps t) as [m'|]; [|discriminate].
  inversion H; subst. cbn. f_equal. now apply IH.
Qed.

Lemma to_maps_find l ms P im : to_maps l = Some ms -> find P ms = Some im ->
  exists j x, nth_error l j = Some x /\ to_map x = Some im.
Proof.
  revert ms. induction l as [|x t IH]; cbn; intros ms H Hf.
  - inversion H; subst. discriminate.
  - destruct (to_map x) as [m|] eqn:Em; [|discriminate].
    destruct (to_maps t) as [m'|] eqn:Et; [|discriminate]. inversion H; subst ms. cbn in Hf.
    destruct (P m).
    + inversion Hf; subst. exists 0%nat, x. split; [reflexivity|exact Em].
    + destruct (IH m' eq_refl Hf) as (j & y & Hj & Hy). exists (S j), y. split; assumption.
Qed.

Lemma dec_structs_nth sch l rs' j x : dec_structs sch l = Some rs' -> nth_error l j = Some x ->
  exists r', nth_error rs' j = Some r' /\ dec_struct sch (zero_rec sch) x = Some r'.
Proof.
  revert rs' j. induction l as [|y t IH]; cbn; intros rs' j H Hn; [destruct j; discriminate|].
  destruct (dec_struct sch (zero_rec sch) y) as [a|] eqn:Ea; [|discriminate].
  destruct (dec_structs sch t) as [b|] eqn:Eb; [|discriminate]. inversion H; subst rs'.
  destruct j; cbn in *.
  - inversion Hn; subst. eauto.
  - eapply IH; eauto.
Qed.

Lemma dec_structs_length sch l rs' : dec_structs sch l = Some rs' -> List.length rs' = List.length l.
Proof.
  revert rs'. induction l as [|y t IH]; cbn; intros rs' H; [inversion H; reflexivity|].
  destruct (dec_struct sch (zero_rec sch) y); [|discriminate].
  destruct (dec_structs sch t); [|discriminate]. inversion H; subst. cbn. f_equal. now apply IH.
Qed.

Definition req_of (sch : schema) (reqs : list subreq) (r : jmap) : option subreq :=
  find (fun q => val_is (dedupe (enc_rec sch r)) (sr_key q) (sr_val q)) reqs.

Lemma to_maps_nth l : forall ms j im, to_maps l = Some ms -> nth_error ms j = Some im ->
  exists x, nth_error l j = Some x /\ to_map x = Some im.
Proof.
  induction l as [|x t IH]; cbn; intros ms j im H Hn.
  - inversion H; subst. destruct j; discriminate.
  - destruct (to_map x) as [m|] eqn:Em; [|discriminate].
    destruct (to_maps t) as [m'|] eqn:Et; [|discriminate]. inversion H; subst ms.
    destruct j; cbn in Hn.
    + inversion Hn; subst. exists x. split; [reflexivity|exact Em].
    + destruct (IH m' j im eq_refl Hn) as (y & Hy & Hm). exists y. split; assumption.
Qed.

Lemma find_unmatched_spec k s incs : forall matched i j im,
  find_unmatched k s incs matched i = Some (j, im) ->
  exists j0, j = (i + j0)%nat /\ nth_error incs j0 = Some im /\ nth_error matched j0 = Some false /\
             val_is im k s = true.
Proof.
  induction incs as [|x t IH]; intros matched i j im H; cbn in H; [discriminate|].
  destruct matched as [|m mr]; [discriminate|].
  destruct (negb m && val_is x k s) eqn:E.
  - inversion H; subst. apply Bool.andb_true_iff in E. destruct E as [Em Ev].
    apply Bool.negb_true_iff in Em. subst m. exists 0%nat. repeat split; auto; lia.
  - destruct (IH mr (S i) j im H) as (j0 & -> & H1 & H2 & H3). exists (S j0). repeat split; auto; lia.
Qed.

Lemma nth_error_set_nth_same {A} (l : list A) : forall i v x,
  nth_error l i = Some x -> nth_error (set_nth i v l) i = Some v.
Proof. induction l as [|a r IH]; intros [|i] v x H; cbn in *; try discriminate; [reflexivity|eauto]. Qed.

Lemma nth_error_set_nth_other {A} (l : list A) : forall i j v,
  i <> j -> nth_error (set_nth i v l) j = nth_error l j.
Proof.
  induction l as [|a r IH]; intros [|i] [|j] v H; cbn; try reflexivity; try congruence.
  apply IH. congruence.
Qed.

Definition paired (reqs : list subreq) (incs : list jmap) (c : jmap) (j : nat) : Prop :=
  exists q im, find (fun r => val_is c (sr_key r) (sr_val r)) reqs = Some q /\
    nth_error incs j = Some im /\ val_is im (sr_key q) (sr_val q) = true /\
    validate_changes c im (sr_attrs q) = true.

(* the loop pairs the current records, in order, with pairwise distinct incoming records *)
Lemma amf_spec reqs incs : forall curs matched,
  allows_multi_from reqs curs incs matched = true ->
  exists js, NoDup js /\ (forall j, In j js -> nth_error matched j = Some false) /\
             Forall2 (paired reqs incs) curs js.
Proof.
  induction curs as [|c rest IH]; cbn; intros matched H.
  - exists []. repeat split; [constructor|intros j []|constructor].
  - destruct (find (fun r => val_is c (sr_key r) (sr_val r)) reqs) as [q|] eqn:Eq; [|discriminate].
    destruct (find_unmatched (sr_key q) (sr_val q) incs matched 0) as [[j im]|] eqn:Ef; [|discriminate].
    apply Bool.andb_true_iff in H. destruct H as [Hv Hrest].
    destruct (find_unmatched_spec _ _ _ _ _ _ _ Ef) as (j0 & -> & Hn & Hm & Hval). cbn in *.
    destruct (IH _ Hrest) as (js & Hnd & Hfree & Hp).
    exists (j0 :: js). split; [|split].
    + constructor; [|exact Hnd]. intros Hin. specialize (Hfree _ Hin).
      rewrite (nth_error_set_nth_same matched j0 true false Hm) in Hfree. discriminate.
    + intros j [<-|Hin]; [exact Hm|].
      pose proof (Hfree _ Hin) as Hf. destruct (Nat.eq_dec j0 j) as [->|Hne].
      * rewrite (nth_error_set_nth_same matched j true false Hm) in Hf. discriminate.
      * now rewrite nth_error_set_nth_other in Hf.
    + constructor; [|exact Hp]. exists q, im. auto.
Qed.

Lemma Forall2_map_l {A B C} (g : A -> B) (P : B -> C -> Prop) l : forall js,
  Forall2 P (map g l) js -> Forall2 (fun a j => P (g a) j) l js.
Proof.
  induction l as [|a r IH]; cbn; intros js H; inversion H; subst; constructor; auto.
Qed.

Lemma Forall2_impl_in {A B} (P Q : A -> B -> Prop) l1 l2 :
  Forall2 P l1 l2 -> (forall a b, In a l1 -> P a b -> Q a b) -> Forall2 Q l1 l2.
Proof.
  induction 1 as [|a b r1 r2 Hab Hr IH]; intros Himp; constructor.
  - apply Himp; [now left|exact Hab].
  - apply IH. intros x y Hx. apply Himp. now right.
Qed.

(* the stored record at position j is the image of the current record r *)
Definition image_of (sch : schema) (reqs : list subreq) (rs' : list jmap) (r : jmap) (j : nat) : Prop :=
  exists q r', req_of sch reqs r = Some q /\ nth_error rs' j = Some r' /\
    val_is (dedupe (enc_rec sch r)) (sr_key q) (sr_val q) = true /\
    forall f, In f sch -> str_in (f_name f) (sr_attrs q) = false ->
      bget (f_name f) r' (zero_k (f_kind f)) = bget (f_name f) r (zero_k (f_kind f)).

(* multi-record parameters, full statement: the stored array has as many records
   as the current one, and there is an injective assignment js of stored positions
   to the current records (in order) such that the stored record at js[n] carries
   the n-th current record's requirement key value and agrees with it on every
   field outside that requirement's allow-list *)
Theorem multi_sound_full sch vf rs ac inc st' :
  schema_ok sch = true -> Forall (fun r => wt_rec sch r = true) rs -> rs <> [] -> has_rules ac ->
  allows_change ac (RVal (enc_slice sch rs)) (Some inc) = Some true ->
  apply_multi sch vf (enc_slice sch rs) inc = AOk st' ->
  exists rs' js, st' = enc_slice sch rs' /\ vf rs' = true /\ List.length rs' = List.length rs /\
    NoDup js /\ Forall2 (image_of sch (ac_multi ac) rs') rs js.
Proof.
  intros Hok Hwt Hne Hrules Hallow Happ.
  unfold allows_change in Hallow. unfold has_rules in Hrules. rewrite Hrules in Hallow.
  assert (Henc : enc_slice sch rs = JArr (map (enc_struct sch) rs)).
  { destruct rs; [congruence|reflexivity]. }
  rewrite Henc in Hallow, Happ.
  destruct (to_multi inc) as [incs|] eqn:Ei; [|discriminate].
  cbn [to_multi] in Hallow. rewrite to_maps_enc in Hallow. injection Hallow as Hall.
  unfold allows_multi in Hall. apply Bool.andb_true_iff in Hall. destruct Hall as [Hlen Hall].
  apply Nat.eqb_eq in Hlen. rewrite map_length in Hlen.
  unfold apply_multi in Happ.
  destruct (dec_slice sch (JArr (map (enc_struct sch) rs))); [|discriminate].
  destruct (dec_slice sch inc) as [rs'|] eqn:Ed; [|discriminate].
  destruct (vf rs') eqn:Ev; [|discriminate]. inversion Happ; subst st'.
  destruct (amf_spec _ _ _ _ Hall) as (js & Hnd & _ & Hp).
  exists rs', js. split; [reflexivity|]. split; [exact Ev|].
  destruct inc as [| | | |li|]; cbn in Ei, Ed; try discriminate.
  { inversion Ei; subst incs. destruct rs; [congruence|discriminate]. }
  split.
  { rewrite (dec_structs_length _ _ _ Ed), <- (to_maps_length _ _ Ei). now symmetry. }
  split; [exact Hnd|].
  apply Forall2_map_l in Hp.
  eapply Forall2_impl_in; [exact Hp|].
  intros r j Hr (q & im & Hq & Hn & Hvi & Hvc).
  destruct (to_maps_nth _ _ _ _ Ei Hn) as (x & Hj & Hx).
  destruct (dec_structs_nth _ _ _ _ _ Ed Hj) as (r' & Hr' & Hdx).
  exists q, r'. split; [exact Hq|]. split; [exact Hr'|].
  assert (Hqv : val_is (dedupe (enc_rec sch r)) (sr_key q) (sr_val q) = true).
  { apply find_some in Hq. tauto. }
  split; [exact Hqv|].
  intros f Hin Hprot.
  rewrite Forall_forall in Hwt. specialize (Hwt r Hr).
  destruct x; cbn in Hx, Hdx; try discriminate.
  - inversion Hx; subst im. unfold val_is in Hvi. discriminate.
  - inversion Hx; subst im.
    eapply rec_sound with (base := zero_rec sch); eauto.
Qed.

(* consequently every stored record is the image of exactly one current record *)
Lemma Forall2_nth {A B} (P : A -> B -> Prop) l1 l2 : Forall2 P l1 l2 ->
  forall n b, nth_error l2 n = Some b -> exists a, nth_error l1 n = Some a /\ P a b.
Proof.
  induction 1 as [|a b r1 r2 Hab Hr IH]; intros [|n] x Hn; cbn in *; try discriminate.
  - inversion Hn; subst. eauto.
  - eauto.
Qed.

Lemma Forall2_len {A B} (P : A -> B -> Prop) l1 l2 : Forall2 P l1 l2 -> List.length l1 = List.length l2.
Proof. induction 1; cbn; congruence. Qed.

Theorem multi_sound_onto sch reqs rs rs' js :
  List.length rs' = List.length rs -> NoDup js -> Forall2 (image_of sch reqs rs') rs js ->
  forall j, (j < List.length rs')%nat ->
    exists n r, nth_error js n = Some j /\ nth_error rs n = Some r /\ image_of sch reqs rs' r j /\
      forall m, nth_error js m = Some j -> m = n.
Proof.
  intros Hlen Hnd Hf j Hj.
  assert (Hl : List.length js = List.length rs) by (symmetry; eapply Forall2_len; eauto).
  assert (Hin : In j js).
  { assert (Hincl : incl js (seq 0 (List.length rs'))).
    { intros k Hk. apply In_nth_error in Hk. destruct Hk as (n & Hn).
      destruct (Forall2_nth _ _ _ Hf n k Hn) as (a & _ & (q & r' & _ & Hr' & _)).
      apply in_seq. split; [lia|]. cbn. apply nth_error_Some. congruence. }
    assert (Hback : incl (seq 0 (List.length rs')) js).
    { apply NoDup_length_incl; [exact Hnd|rewrite seq_length; lia|exact Hincl]. }
    apply Hback. apply in_seq. lia. }
  apply In_nth_error in Hin. destruct Hin as (n & Hn).
  destruct (Forall2_nth _ _ _ Hf n j Hn) as (r & Hr & Him).
  exists n, r. repeat split; auto.
  intros m Hm. eapply NoDup_nth_error; eauto.
  - apply nth_error_Some. congruence.
  - congruence.
Qed.

(** * Part 2: the proposal life cycle *)

Ltac brk H :=
  repeat match type of H with
  | context [if ?x then _ else _] => destruct x eqn:?; try discriminate H
  | context [match ?x with Some _ => _ | None => _ end] => destruct x eqn:?; try discriminate H
  | context [match ?x with Ok _ _ => _ | Err => _ | Panic => _ end] => destruct x eqn:?; try discriminate H
  | context [match ?x with CMember => _ | CToken _ => _ end] => destruct x eqn:?; try discriminate H
  | context [match body ?c with _ => _ end] => destruct (body c) eqn:?; try discriminate H
  | context [let '(_, _) := ?x in _] => destruct x eqn:?
  end.

Definition is_msg (o : op) : Prop :=
  match o with OAllows _ _ | OSubmit _ _ _ | OVote _ _ _ | OOracle _ => True | _ => False end.

(* queries, submissions and votes change neither parameters, nor committees, nor balances, nor time *)
Lemma msg_no_effect sls s o s' x : is_msg o -> step sls s o = Ok s' x ->
  params s' = params s /\ coms s' = coms s /\ bals s' = bals s /\ supply s' = supply s /\ now s' = now s /\
  height s' = height s /\ plan s' = plan s.
Proof.
  intros Hm H. destruct o; cbn in Hm; try contradiction; cbn in H; brk H;
    inversion H; subst; cbn; auto 10.
Qed.

(* a content without a route on the committee router can never be submitted *)
Lemma committee_change_refused sls s proposer cid : forall s' x,
  step sls s (OSubmit proposer cid CCommitteeChange) <> Ok s' x.
Proof.
  intros s' x H. cbn in H. first [discriminate H | brk H].
Qed.

(* the dry run and the real run are the same computation on the same state *)
Lemma validated_handler_ok sls ht ps c : validate_pub sls ht ps c = true ->
  exists ps', run_handler sls ht ps c = Ok ps' tt.
Proof.
  unfold validate_pub. intros H. apply Bool.andb_true_iff in H. destruct H as [_ H].
  destruct (run_handler sls ht ps c) as [ps' []| |]; try discriminate. eauto.
Qed.

(* a proposal is stored only if its handler succeeds on the current state *)
Lemma submit_handler_ok sls s proposer cid c s' x :
  step sls s (OSubmit proposer cid c) = Ok s' x ->
  exists ps, run_handler sls (height s) (params s) c = Ok ps tt /\
  exists cm, find_com s cid = Some cm /\ mem_nat proposer (c_members cm) = true /\
             has_perms (c_perms cm) (params s) c = Some true.
Proof.
  intros H. cbn in H. brk H.
  match goal with E : negb (validate_pub _ _ _ _) = false |- _ => apply Bool.negb_false_iff in E; rename E into Hv end.
  match goal with E : negb (mem_nat _ _) = false |- _ => apply Bool.negb_false_iff in E; rename E into Hm end.
  destruct (validated_handler_ok _ _ _ _ Hv) as (ps & Hps).
  exists ps. split; [exact Hps|]. eauto.
Qed.

(** ** attemptEnactProposal *)

Lemma attempt_enact_spec sls s p s0 oc : attempt_enact sls s p = Ok s0 oc ->
  (oc = Passed /\
   exists c ps, find_com s (p_com p) = Some c /\ has_perms (c_perms c) (params s) (p_content p) = Some true /\
                validate_pub sls (height s) (params s) (p_content p) = true /\
                run_handler sls (height s) (params s) (p_content p) = Ok ps tt /\
                s0 = enact_state s (p_content p) ps)
  \/ (oc = Invalid /\ s0 = s).
Proof.
  unfold attempt_enact. intros H. brk H; inversion H; subst; auto.
  left. split; [reflexivity|].
  match goal with E : negb _ = false |- _ => apply Bool.negb_false_iff in E end.
  match goal with o : unit |- _ => destruct o end. eauto 10.
Qed.

(* sub-parameter rules only name registered, set parameters (stored values are
   always objects, arrays of objects or null in this model) *)
Definition ac_ok (n : nat) (ac : allowed_change) : bool :=
  (is_nil (ac_single ac) && is_nil (ac_multi ac))
  || match ac_param ac with PKnown i => Nat.ltb i n | PNoSubspace => true | PNoKey => false end.
Definition perm_ok (n : nat) (pm : permission) : bool :=
  match pm with PermParams acs => forallb (ac_ok n) acs | _ => true end.
Definition perms_ok (s : state) : Prop :=
  forall c, In c (coms s) -> forallb (perm_ok (List.length (params s))) (c_perms c) = true.

(* every stored document is an object, an array of objects, or null *)
Definition doc_ok (j : json) : bool :=
  match j with
  | JObj _ | JNull => true
  | JArr l => forallb (fun x => match x with JObj _ | JNull => true | _ => false end) l
  | _ => false
  end.

Lemma to_maps_ok l : forallb (fun x => match x with JObj _ | JNull => true | _ => false end) l = true ->
  to_maps l <> None.
Proof.
  induction l as [|x t IH]; cbn; [discriminate|]. intros H. apply Bool.andb_true_iff in H. destruct H as [Hx Ht].
  specialize (IH Ht). destruct (to_maps t); [|congruence]. destruct x; try discriminate; cbn; discriminate.
Qed.

Lemma allows_change_no_panic n ps ac p v :
  ac_ok n ac = true -> ac_param ac = p -> List.length ps = n -> Forall (fun j => doc_ok j = true) ps ->
  allows_change ac (get_raw ps p) v <> None.
Proof.
  intros Hok Hp Hn Hdocs. unfold allows_change.
  destruct (is_nil (ac_single ac) && is_nil (ac_multi ac)) eqn:E; [discriminate|].
  unfold ac_ok in Hok. rewrite E in Hok. cbn in Hok. rewrite Hp in Hok.
  destruct p as [i| |]; cbn; try discriminate.
  destruct (nth_error ps i) as [cur|] eqn:En; [|discriminate].
  assert (Hd : doc_ok cur = true).
  { rewrite Forall_forall in Hdocs. apply Hdocs. eapply nth_error_In; eauto. }
  destruct cur; cbn in Hd; try discriminate.
  - destruct v as [inc|]; [|discriminate]. destruct (to_map inc); discriminate.
  - destruct v as [inc|]; [|discriminate]. destruct (to_multi inc); [|discriminate].
    cbn. pose proof (to_maps_ok _ Hd). destruct (to_maps l); [discriminate|congruence].
  - destruct v as [inc|]; [|discriminate]. destruct (to_map inc); discriminate.
Qed.

Lemma any_allows_no_panic n ps acs p v :
  forallb (ac_ok n) acs = true -> (forall ac, In ac acs -> ac_param ac = p) ->
  List.length ps = n -> Forall (fun j => doc_ok j = true) ps ->
  any_allows acs (get_raw ps p) v <> None.
Proof.
  induction acs as [|ac r IH]; cbn; [discriminate|]. intros H Hp Hn Hd.
  apply Bool.andb_true_iff in H. destruct H as [Ha Hr].
  pose proof (allows_change_no_panic n ps ac p v Ha (Hp ac (or_introl eq_refl)) Hn Hd) as Hx.
  destruct (allows_change ac (get_raw ps p) v) as [[|]|]; [discriminate| |congruence].
  apply IH; auto.
Qed.

Lemma pref_eqb_eq a b : pref_eqb a b = true -> a = b.
Proof. destruct a, b; cbn; try discriminate; try reflexivity. intros H. apply Nat.eqb_eq in H. now subst. Qed.

Lemma all_changes_no_panic ps acs chs :
  forallb (ac_ok (List.length ps)) acs = true -> Forall (fun j => doc_ok j = true) ps ->
  all_changes_allowed acs ps chs <> None.
Proof.
  intros Hpm Hd. induction chs as [|[p v] t IHt]; cbn; [discriminate|].
  assert (Hy : any_allows (filter (fun ac => pref_eqb (ac_param ac) p) acs) (get_raw ps p) v <> None).
  { apply any_allows_no_panic with (n := List.length ps); auto.
    - rewrite forallb_forall in *. intros ac Hin. apply filter_In in Hin. now apply Hpm.
    - intros ac Hin. apply filter_In in Hin. destruct Hin as [_ Hin]. now apply pref_eqb_eq. }
  destruct (any_allows _ _ v) as [[|]|]; [exact IHt|discriminate|congruence].
Qed.

Lemma has_perms_no_panic ps pms c :
  forallb (perm_ok (List.length ps)) pms = true -> Forall (fun j => doc_ok j = true) ps ->
  has_perms pms ps c <> None.
Proof.
  intros Hp Hd. induction pms as [|pm r IH]; cbn; [discriminate|].
  cbn in Hp. apply Bool.andb_true_iff in Hp. destruct Hp as [Hpm Hr].
  assert (Hx : perm_allows pm ps c <> None).
  { destruct pm; cbn; try discriminate. destruct (body c); try discriminate.
    cbn in Hpm. now apply all_changes_no_panic. }
  destruct (perm_allows pm ps c) as [[|]|]; [discriminate| |congruence]. now apply IH.
Qed.

(** ** stored documents stay well-shaped; the begin blocker cannot panic *)

Definition docs_ok (ps : list json) : Prop := Forall (fun j => doc_ok j = true) ps.

Lemma set_nth_length {A} i (v : A) l : List.length (set_nth i v l) = List.length l.
Proof. revert i. induction l as [|x r IH]; destruct i; cbn; auto. Qed.

Lemma set_nth_Forall {A} (P : A -> Prop) i v l : P v -> Forall P l -> Forall P (set_nth i v l).
Proof.
  intros Hv Hl. revert i. induction Hl as [|x r Hx Hr IH]; destruct i; cbn; constructor; auto.
Qed.

Lemma apply_slot_doc sl cur inc j : apply_slot sl cur inc = AOk j -> doc_ok j = true.
Proof.
  unfold apply_slot, apply_multi, apply_single. intros H.
  destruct (sl_multi sl).
  - destruct (dec_slice (sl_schema sl) cur); [|discriminate].
    destruct (dec_slice (sl_schema sl) inc) as [rs|]; [|discriminate].
    destruct (valid_multi (sl_vid sl) rs); [|discriminate]. inversion H; subst.
    destruct rs as [|r t]; [reflexivity|]. cbn. rewrite forallb_forall. intros x Hx.
    apply in_map_iff in Hx. destruct Hx as (y & <- & _). reflexivity.
  - destruct (dec_struct (sl_schema sl) (zero_rec (sl_schema sl)) cur); [|discriminate].
    destruct (dec_struct (sl_schema sl) j0 inc) as [r|]; [|discriminate].
    destruct (valid_single (sl_vid sl) r); [|discriminate]. inversion H; subst. reflexivity.
Qed.

Lemma run_changes_docs sls chs : forall ps ps' u, run_changes sls ps chs = Ok ps' u ->
  List.length ps' = List.length ps /\ (docs_ok ps -> docs_ok ps').
Proof.
  induction chs as [|[p v] r IH]; cbn; intros ps ps' u H.
  - inversion H; subst. auto.
  - destruct p as [i| |]; try discriminate.
    destruct (nth_error sls i) as [sl|]; [|discriminate].
    destruct (nth_error ps i) as [cur|]; [|discriminate].
    destruct v as [inc|]; [|discriminate].
    destruct (apply_slot sl cur inc) as [j| |] eqn:Ea; try discriminate.
    destruct (IH _ _ _ H) as [Hl Hd]. rewrite set_nth_length in Hl. split; [exact Hl|].
    intros Hok. apply Hd. apply set_nth_Forall; [eapply apply_slot_doc; eauto|exact Hok].
Qed.

Lemma run_handler_docs sls ht ps c ps' u : run_handler sls ht ps c = Ok ps' u ->
  List.length ps' = List.length ps /\ (docs_ok ps -> docs_ok ps').
Proof.
  unfold run_handler. intros H.
  destruct (body c) as [|chs|h| | | |a ok|a ok|t x ok|t x ok|c']; try discriminate;
    try (destruct ok; [|discriminate]); try (inversion H; subst; auto; fail).
  - eapply run_changes_docs; eauto.
  - destruct ((h <=? 0) || (h <? ht)); [discriminate|]. inversion H; subst; auto.
Qed.

Definition good (s : state) : Prop := perms_ok s /\ docs_ok (params s).

Lemma find_com_in s id c : find_com s id = Some c -> In c (coms s).
Proof. unfold find_com. intros H. apply find_some in H. tauto. Qed.

Lemma attempt_enact_no_panic sls s p : good s -> attempt_enact sls s p <> Panic.
Proof.
  intros [Hp Hd]. unfold attempt_enact.
  destruct (find_com s (p_com p)) as [c|] eqn:Ec; [|discriminate].
  pose proof (has_perms_no_panic (params s) (c_perms c) (p_content p) (Hp c (find_com_in _ _ _ Ec)) Hd) as Hx.
  destruct (has_perms (c_perms c) (params s) (p_content p)) as [[|]|]; [|discriminate|congruence].
  destruct (validate_pub sls (height s) (params s) (p_content p)) eqn:Ev; cbn; [|discriminate].
  destruct (validated_handler_ok _ _ _ _ Ev) as (ps' & ->). discriminate.
Qed.

Lemma attempt_enact_frame sls s p s0 oc : attempt_enact sls s p = Ok s0 oc ->
  coms s0 = coms s /\ props s0 = props s /\ votes s0 = votes s /\ next_id s0 = next_id s /\
  bals s0 = bals s /\ supply s0 = supply s /\ now s0 = now s /\
  List.length (params s0) = List.length (params s) /\ (docs_ok (params s) -> docs_ok (params s0)) /\
  (oc <> Passed -> params s0 = params s).
Proof.
  intros H. destruct (attempt_enact_spec _ _ _ _ _ H) as [[-> (c & ps & _ & _ & _ & Hr & ->)]|[-> ->]].
  - destruct (run_handler_docs _ _ _ _ _ _ Hr) as [Hl Hd]. cbn. repeat split; auto. congruence.
  - repeat split; auto.
Qed.

Lemma good_frame s s' : coms s' = coms s -> List.length (params s') = List.length (params s) ->
  (docs_ok (params s) -> docs_ok (params s')) -> good s -> good s'.
Proof.
  intros Hc Hl Hd [Hp Hdocs]. split; [|auto]. unfold perms_ok. rewrite Hc, Hl. exact Hp.
Qed.

Definition closes (s s1 : state) (pid : nat) : Prop :=
  props s1 = filter (fun p => negb (Nat.eqb (p_id p) pid)) (props s) /\
  votes s1 = filter (fun v => negb (Nat.eqb (v_pid v) pid)) (votes s).

(* the ProcessProposals callback, characterised *)
Lemma process_one_spec sls s p s1 oc : process_one sls s p = Ok s1 oc ->
  match find_com s (p_com p) with
  | None => oc = Some Failed /\ s1 = close s (p_id p)
  | Some c =>
      let passes := tally s c (p_id p) in
      let fptp := match c_tally c with FPTP => true | AtDeadline => false end in
      if (p_deadline p <=? now s) || (fptp && passes) then
        if passes then exists s0 x, attempt_enact sls s p = Ok s0 x /\ oc = Some x /\ s1 = close s0 (p_id p)
        else oc = Some Failed /\ s1 = close s (p_id p)
      else oc = None /\ s1 = s
  end.
Proof.
  unfold process_one. intros H.
  destruct (find_com s (p_com p)) as [c|]; [|inversion H; auto].
  cbv zeta. rewrite Z.leb_antisym.
  destruct (now s <? p_deadline p) eqn:Et; cbn [negb orb].
  - destruct (c_tally c); cbn [andb].
    + destruct (tally s c (p_id p)); [|inversion H; auto].
      destruct (attempt_enact sls s p) as [s0 x| |]; try discriminate. inversion H; subst. eauto.
    + inversion H; auto.
  - destruct (tally s c (p_id p)); [|inversion H; auto].
    destruct (attempt_enact sls s p) as [s0 x| |]; try discriminate. inversion H; subst. eauto.
Qed.

Lemma process_one_frame sls s p s1 oc : process_one sls s p = Ok s1 oc ->
  coms s1 = coms s /\ next_id s1 = next_id s /\ bals s1 = bals s /\ supply s1 = supply s /\ now s1 = now s /\
  List.length (params s1) = List.length (params s) /\ (docs_ok (params s) -> docs_ok (params s1)) /\
  (oc <> Some Passed -> params s1 = params s) /\
  match oc with
  | None => props s1 = props s /\ votes s1 = votes s
  | Some _ => closes s s1 (p_id p)
  end.
Proof.
  intros H. apply process_one_spec in H.
  destruct (find_com s (p_com p)) as [c|].
  - cbv zeta in H.
    destruct ((p_deadline p <=? now s) || _).
    + destruct (tally s c (p_id p)).
      * destruct H as (s0 & x & Ha & -> & ->).
        destruct (attempt_enact_frame _ _ _ _ _ Ha) as (E1 & E2 & E3 & E4 & E5 & E6 & E7 & E8 & E9 & E10).
        unfold closes. cbn. rewrite E2, E3. repeat split; auto. intros Hne. apply E10. congruence.
      * destruct H as [-> ->]. unfold closes. cbn. repeat split; auto.
    + destruct H as [-> ->]. repeat split; auto.
  - destruct H as [-> ->]. unfold closes. cbn. repeat split; auto.
Qed.

Lemma attempt_enact_not_err sls s p : attempt_enact sls s p <> Err.
Proof.
  unfold attempt_enact. destruct (find_com s (p_com p)); [|discriminate].
  destruct (has_perms _ _ _) as [[|]|]; try discriminate.
  destruct (negb _); [discriminate|]. destruct (run_handler _ _ _); discriminate.
Qed.

Lemma process_one_no_panic sls s p : good s -> process_one sls s p <> Panic.
Proof.
  intros Hg. unfold process_one.
  pose proof (attempt_enact_no_panic sls s p Hg) as Ha.
  pose proof (attempt_enact_not_err sls s p) as Hb.
  destruct (find_com s (p_com p)) as [c|]; [|discriminate].
  destruct (now s <? p_deadline p).
  - destruct (c_tally c); [|discriminate]. destruct (tally s c (p_id p)); [|discriminate].
    destruct (attempt_enact sls s p); [discriminate|congruence|congruence].
  - destruct (tally s c (p_id p)); [|discriminate].
    destruct (attempt_enact sls s p); [discriminate|congruence|congruence].
Qed.

Lemma process_one_not_err sls s p : process_one sls s p <> Err.
Proof.
  unfold process_one. destruct (find_com s (p_com p)); [|discriminate].
  destruct (now s <? p_deadline p).
  - destruct (c_tally c); [|discriminate]. destruct (tally s c (p_id p)); [|discriminate].
    destruct (attempt_enact sls s p); discriminate.
  - destruct (tally s c (p_id p)); [|discriminate]. destruct (attempt_enact sls s p); discriminate.
Qed.

Lemma process_all_not_err sls l : forall s, process_all sls s l <> Err.
Proof.
  induction l as [|p r IH]; cbn; intros s; [discriminate|].
  destruct (process_one sls s p) as [s1 oc| |]; try discriminate.
  destruct (process_all sls s1 r); discriminate.
Qed.

Lemma process_all_no_panic sls l : forall s, good s -> process_all sls s l <> Panic.
Proof.
  induction l as [|p r IH]; cbn; intros s Hg; [discriminate|].
  pose proof (process_one_no_panic sls s p Hg) as H1. pose proof (process_one_not_err sls s p) as H2.
  destruct (process_one sls s p) as [s1 oc| |] eqn:E; [|congruence|congruence].
  destruct (process_one_frame _ _ _ _ _ E) as (Ec & _ & _ & _ & _ & El & Ed & _).
  assert (Hg1 : good s1) by (eapply good_frame; eauto).
  specialize (IH s1 Hg1). pose proof (process_all_not_err sls r s1) as H3.
  destruct (process_all sls s1 r); [discriminate|congruence|congruence].
Qed.

Theorem begin_block_no_panic sls s t : good s -> step sls s (OBegin t) <> Panic.
Proof.
  intros Hg. cbn. destruct (t <? now s); [discriminate|].
  set (s0 := mkState _ _ _ _ _ _ _ t _ _ _).
  assert (Hg0 : good s0) by (apply (good_frame s s0); auto).
  pose proof (process_all_no_panic sls (props s0) s0 Hg0) as H.
  pose proof (process_all_not_err sls (props s0) s0) as H'. unfold process_proposals.
  change (props s) with (props s0).
  destruct (process_all sls s0 (props s0)); [discriminate|congruence|congruence].
Qed.

(** ** what a begin block may close, in terms of the state at the start of the block *)

Definition fptp_b (c : committee) : bool := match c_tally c with FPTP => true | AtDeadline => false end.

(* [ev_ok s0 p oc]: closing p with outcome oc is justified by the state s0 the block started from *)
Definition ev_ok (s0 : state) (p : proposal) (oc : poutcome) : Prop :=
  match find_com s0 (p_com p) with
  | None => oc = Failed
  | Some c =>
      ((p_deadline p <=? now s0) || (fptp_b c && tally s0 c (p_id p))) = true
      /\ (if tally s0 c (p_id p) then oc <> Failed else oc = Failed)
  end.

Lemma tally_frame s s' c pid :
  votes_of s' pid = votes_of s pid -> bals s' = bals s -> supply s' = supply s ->
  tally s' c pid = tally s c pid.
Proof.
  intros Hv Hb Hs. unfold tally, sum_votes, bal_of. now rewrite Hv, Hb, Hs.
Qed.

Lemma votes_of_closes s s1 pid q : closes s s1 pid -> q <> pid -> votes_of s1 q = votes_of s q.
Proof.
  intros [_ Hv] Hne. unfold votes_of. rewrite Hv. clear Hv. induction (votes s) as [|v r IH]; cbn; [reflexivity|].
  destruct (Nat.eqb_spec (v_pid v) pid) as [E|E]; cbn.
  - rewrite IH. destruct (Nat.eqb_spec (v_pid v) q); [congruence|reflexivity].
  - now rewrite IH.
Qed.

Definition same_frame (s0 si : state) : Prop :=
  coms si = coms s0 /\ bals si = bals s0 /\ supply si = supply s0 /\ now si = now s0.

Lemma process_all_events sls s0 l : forall si s' evs,
  process_all sls si l = Ok s' evs -> NoDup (map p_id l) -> same_frame s0 si ->
  (forall p, In p l -> votes_of si (p_id p) = votes_of s0 (p_id p)) ->
  forall pid oc, In (pid, oc) evs -> exists p, In p l /\ p_id p = pid /\ ev_ok s0 p oc.
Proof.
  induction l as [|p r IH]; cbn; intros si s' evs H Hnd Hf Hv pid oc Hin.
  - inversion H; subst. contradiction.
  - destruct (process_one sls si p) as [s1 o1| |] eqn:E1; try discriminate.
    destruct (process_all sls s1 r) as [s2 evs2| |] eqn:E2; try discriminate. inversion H; subst s' evs.
    inversion Hnd as [|? ? Hn Hr]; subst.
    destruct Hf as (Fc & Fb & Fs & Fn).
    destruct (process_one_frame _ _ _ _ _ E1) as (Gc & _ & Gb & Gs & Gn & _ & _ & _ & Gcl).
    assert (Hrest : forall pid oc, In (pid, oc) evs2 -> exists p0, In p0 r /\ p_id p0 = pid /\ ev_ok s0 p0 oc).
    { apply (IH s1 s2 evs2 E2 Hr).
      - unfold same_frame. rewrite Gc, Gb, Gs, Gn. auto.
      - intros q Hq. rewrite <- (Hv q (or_intror Hq)). destruct o1 as [x|].
        + apply (votes_of_closes si s1 (p_id p)); [exact Gcl|]. intros Eq. apply Hn. rewrite <- Eq. now apply in_map.
        + destruct Gcl as [_ Gv]. unfold votes_of. now rewrite Gv. }
    assert (Hhead : forall x, o1 = Some x -> ev_ok s0 p x).
    { intros x ->. apply process_one_spec in E1. unfold ev_ok, find_com in *. rewrite Fc in E1.
      destruct (find (fun c => Nat.eqb (c_id c) (p_com p)) (coms s0)) as [c|]; [|destruct E1; congruence].
      cbv zeta in E1. fold (fptp_b c) in E1.
      rewrite (tally_frame s0 si c (p_id p)) in E1; [|apply Hv; now left|exact Fb|exact Fs].
      rewrite Fn in E1.
      destruct ((p_deadline p <=? now s0) || (fptp_b c && tally s0 c (p_id p))); [|destruct E1; discriminate].
      split; [reflexivity|]. destruct (tally s0 c (p_id p)).
      - destruct E1 as (sx & y & Ha & Ey & _). inversion Ey; subst y.
        destruct (attempt_enact_spec _ _ _ _ _ Ha) as [[-> _]|[-> _]]; discriminate.
      - destruct E1 as [Ey _]. now inversion Ey. }
    destruct o1 as [x|].
    + destruct Hin as [Eq|Hin].
      * inversion Eq; subst. exists p. split; [now left|]. split; [reflexivity|]. now apply Hhead.
      * destruct (Hrest _ _ Hin) as (p0 & H0 & H1 & H2). exists p0. split; [now right|]. auto.
    + destruct (Hrest _ _ Hin) as (p0 & H0 & H1 & H2). exists p0. split; [now right|]. auto.
Qed.

(* Every proposal_close of a begin block is justified by the votes, balances,
   committees and time the block started with: a proposal is enacted (Passed) or
   found Invalid only on a passing tally, and only at/after its deadline or, for
   first-past-the-post committees, as soon as it passes. *)
Theorem begin_block_events sls s t s' evs :
  NoDup (map p_id (props s)) ->
  step sls s (OBegin t) = Ok s' (OutClosed evs) ->
  forall pid oc, In (pid, oc) evs ->
    exists p, In p (props s) /\ p_id p = pid /\
      ev_ok (mkState (params s) (coms s) (props s) (votes s) (next_id s) (bals s) (supply s) t (height s + 1) (plan s) (enacted s)) p oc.
Proof.
  intros Hnd H pid oc Hin. cbn in H. destruct (t <? now s); [discriminate|].
  unfold process_proposals in H. cbn [props] in H.
  set (s0 := mkState _ _ _ _ _ _ _ t _ _ _) in *.
  destruct (process_all sls s0 (props s)) as [s1 e1| |] eqn:E; try discriminate.
  inversion H; subst s' evs.
  eapply (process_all_events sls s0 (props s) s0 s1 e1 E); auto.
  unfold same_frame; auto.
Qed.

(* a stored proposal whose handler would fail NOW (the state moved under it, or
   its upgrade plan went stale) is found by the dry run: enactment answers
   Invalid and leaves the state untouched, whatever the permissions say *)
Lemma failing_handler_invalid sls s p c :
  find_com s (p_com p) = Some c ->
  has_perms (c_perms c) (params s) (p_content p) <> None ->
  (forall ps, run_handler sls (height s) (params s) (p_content p) <> Ok ps tt) ->
  attempt_enact sls s p = Ok s Invalid.
Proof.
  intros Hc Hp Hf. unfold attempt_enact. rewrite Hc.
  destruct (has_perms (c_perms c) (params s) (p_content p)) as [[|]|]; [|reflexivity|congruence].
  destruct (validate_pub sls (height s) (params s) (p_content p)) eqn:Ev; [|reflexivity].
  destruct (validated_handler_ok _ _ _ _ Ev) as (ps & Hps). exfalso. exact (Hf ps Hps).
Qed.

(** * Part 3: the permission matrix; no permission, no submission and no enactment *)

Lemma body_idem c : body (body c) = body c.
Proof. induction c; cbn; auto. Qed.

Lemma body_not_meta c c' : body c <> CBadMeta c'.
Proof. induction c; cbn; try discriminate. exact IHc. Qed.

(* ParamsChangePermission.Allows on a parameter-change proposal: the field-level check of part 1 *)
Definition params_allows (acs : list allowed_change) (ps : list json) (c : content) : option bool :=
  match body c with CParam chs => all_changes_allowed acs ps chs | _ => Some false end.

(* the Allows matrix, row by row: each permission type against the Go type of the proposal *)
Theorem permission_matrix ps c :
  perm_allows PermGod ps c = Some true /\
  perm_allows PermText ps c = Some (ctype_eqb (ctype_of c) TText) /\
  perm_allows PermUpgrade ps c = Some (ctype_eqb (ctype_of c) TUpgrade) /\
  perm_allows PermCdpRepay ps c = Some (ctype_eqb (ctype_of c) TCdpRepay) /\
  perm_allows PermCdpWithdraw ps c = Some (ctype_eqb (ctype_of c) TCdpWithdraw) /\
  perm_allows PermLendWithdraw ps c = Some (ctype_eqb (ctype_of c) TLendWithdraw) /\
  forall acs, perm_allows (PermParams acs) ps c =
    if ctype_eqb (ctype_of c) TParam then params_allows acs ps c else Some false.
Proof.
  unfold perm_allows, ctype_of, params_allows. pose proof (body_not_meta c) as Hb.
  destruct (body c) as [|chs|h| | | |a ok|a ok|t x ok|t x ok|c']; cbn; repeat split; auto;
    exfalso; eapply Hb; reflexivity.
Qed.

(* a permission of a type that cannot allow the content's type refuses it, whatever the state *)
Lemma type_refuses pm ps c :
  type_allows (ptype_of pm) (ctype_of c) = false -> perm_allows pm ps c = Some false.
Proof.
  unfold perm_allows, ctype_of. destruct pm; cbn; destruct (body c); cbn; congruence.
Qed.

Lemma allows_type pm ps c :
  perm_allows pm ps c = Some true -> type_allows (ptype_of pm) (ctype_of c) = true.
Proof.
  intros H. destruct (type_allows (ptype_of pm) (ctype_of c)) eqn:E; [reflexivity|].
  rewrite (type_refuses pm ps c E) in H. discriminate.
Qed.

(* for the six permission types without parameters the table is the whole answer *)
Lemma allows_exact pm ps c :
  ptype_of pm <> PTParams -> perm_allows pm ps c = Some (type_allows (ptype_of pm) (ctype_of c)).
Proof.
  unfold perm_allows, ctype_of. pose proof (body_not_meta c) as Hb. intros Hn.
  destruct pm; cbn in *; try congruence; destruct (body c); cbn; try reflexivity;
    exfalso; eapply Hb; reflexivity.
Qed.

(* each community permission allows its own proposal type and nothing else *)
Theorem community_permissions_exact ps c :
  (perm_allows PermCdpRepay ps c = Some true <-> exists t x ok, body c = CCdpRepay t x ok) /\
  (perm_allows PermCdpWithdraw ps c = Some true <-> exists t x ok, body c = CCdpWithdraw t x ok) /\
  (perm_allows PermLendWithdraw ps c = Some true <-> exists a ok, body c = CLendWithdraw a ok).
Proof.
  unfold perm_allows.
  repeat split; intros H; try (destruct (body c); try discriminate; eauto; fail);
    try (destruct H as (? & ? & ? & ->); reflexivity); try (destruct H as (? & ? & ->); reflexivity).
Qed.

(* no permission type but God allows a lend-deposit, committee-change, cancel-upgrade or
   pool-spend proposal *)
Theorem only_god_allows_the_rest pm ps c :
  ctype_of c = TLendDeposit \/ ctype_of c = TCommitteeChange \/ ctype_of c = TCancelUpgrade \/ ctype_of c = TPoolSpend ->
  perm_allows pm ps c = Some true -> pm = PermGod.
Proof.
  intros Ht H. apply allows_type in H. destruct Ht as [Ht|[Ht|[Ht|Ht]]]; rewrite Ht in H;
    destruct pm; cbn in H; congruence.
Qed.

(* ... and a lend-deposit or committee-change proposal cannot be submitted to any committee,
   God permission or not: MsgSubmitProposal cannot carry it *)
Theorem undecodable_never_submitted sls s proposer cid c :
  ctype_of c = TLendDeposit \/ ctype_of c = TCommitteeChange ->
  step sls s (OSubmit proposer cid c) = Err.
Proof.
  intros Ht. cbn. unfold decodable. unfold ctype_of in Ht.
  destruct (body c); destruct Ht as [Ht|Ht]; try discriminate; reflexivity.
Qed.

Lemma has_perms_true_ex pms ps c : has_perms pms ps c = Some true ->
  exists pm, In pm pms /\ perm_allows pm ps c = Some true.
Proof.
  induction pms as [|pm r IH]; cbn; [discriminate|].
  destruct (perm_allows pm ps c) as [[|]|] eqn:E; try discriminate.
  - intros _. exists pm. auto.
  - intros H. destruct (IH H) as (q & Hq & Ha). exists q. auto.
Qed.

Lemma has_perms_all_refuse pms ps c :
  (forall pm, In pm pms -> perm_allows pm ps c = Some false) -> has_perms pms ps c = Some false.
Proof.
  induction pms as [|pm r IH]; cbn; intros H; [reflexivity|].
  rewrite (H pm (or_introl eq_refl)). apply IH. intros q Hq. apply H. now right.
Qed.

(* a committee none of whose permissions allows the content cannot submit it ... *)
Theorem no_permission_no_submit sls s proposer cid c cm :
  find_com s cid = Some cm ->
  (forall pm, In pm (c_perms cm) -> perm_allows pm (params s) c = Some false) ->
  step sls s (OSubmit proposer cid c) = Err.
Proof.
  intros Hc Hp. cbn. rewrite Hc, (has_perms_all_refuse _ _ _ Hp).
  destruct (negb (decodable c)); [reflexivity|].
  destruct (negb (validate_basic c)); [reflexivity|].
  destruct (negb (mem_nat proposer (c_members cm))); reflexivity.
Qed.

(* ... and cannot enact it: the re-check of enactProposal answers Invalid and nothing changes *)
Theorem no_permission_no_enact sls s p cm :
  find_com s (p_com p) = Some cm ->
  (forall pm, In pm (c_perms cm) -> perm_allows pm (params s) (p_content p) = Some false) ->
  attempt_enact sls s p = Ok s Invalid.
Proof.
  intros Hc Hp. unfold attempt_enact. now rewrite Hc, (has_perms_all_refuse _ _ _ Hp).
Qed.

(* in terms of types only (no reference to the state; never a panic) *)
Corollary wrong_type_no_submit_no_enact sls s cm c :
  (forall pm, In pm (c_perms cm) -> type_allows (ptype_of pm) (ctype_of c) = false) ->
  (forall proposer cid, find_com s cid = Some cm -> step sls s (OSubmit proposer cid c) = Err) /\
  (forall p, p_content p = c -> find_com s (p_com p) = Some cm -> attempt_enact sls s p = Ok s Invalid).
Proof.
  intros Ht. split.
  - intros proposer cid Hc. eapply no_permission_no_submit; eauto.
    intros pm Hin. apply type_refuses. auto.
  - intros p <- Hc. eapply no_permission_no_enact; eauto.
    intros pm Hin. apply type_refuses. auto.
Qed.

(* what a stored proposal went through: ValidateBasic, a route, a permission of its committee *)
Lemma submit_spec sls s proposer cid c s' x :
  step sls s (OSubmit proposer cid c) = Ok s' x ->
  decodable c = true /\ validate_basic c = true /\ has_route c = true /\
  exists cm pm, find_com s cid = Some cm /\ In pm (c_perms cm) /\
    perm_allows pm (params s) c = Some true /\ type_allows (ptype_of pm) (ctype_of c) = true /\
    s' = mkState (params s) (coms s) (props s ++ [mkProp (next_id s) cid (now s + c_duration cm) c])
                 (votes s) (S (next_id s)) (bals s) (supply s) (now s) (height s) (plan s) (enacted s).
Proof.
  intros H. cbn in H. brk H.
  match goal with E : negb (validate_pub _ _ _ _) = false |- _ => apply Bool.negb_false_iff in E; rename E into Hv end.
  unfold validate_pub in Hv. apply Bool.andb_true_iff in Hv. destruct Hv as [Hv _].
  apply Bool.andb_true_iff in Hv. destruct Hv as [Hb Hr].
  match goal with E : has_perms _ _ _ = Some true |- _ => destruct (has_perms_true_ex _ _ _ E) as (pm & Hin & Ha) end.
  match goal with E : negb (decodable _) = false |- _ => apply Bool.negb_false_iff in E; rename E into Hd end.
  split; [exact Hd|]. split; [exact Hb|]. split; [exact Hr|].
  eexists _, pm. split; [reflexivity|]. split; [exact Hin|]. split; [exact Ha|].
  split; [eapply allows_type; eauto|]. inversion H; reflexivity.
Qed.

(** ** every enactment of a begin block is allowed by a permission of the proposal's committee *)

Lemma process_all_passed sls l : forall si s' evs,
  process_all sls si l = Ok s' evs ->
  forall pid, In (pid, Passed) evs ->
  exists p sj cm, In p l /\ p_id p = pid /\ coms sj = coms si /\ find_com sj (p_com p) = Some cm /\
    has_perms (c_perms cm) (params sj) (p_content p) = Some true /\
    validate_pub sls (height sj) (params sj) (p_content p) = true.
Proof.
  induction l as [|p r IH]; cbn; intros si s' evs H pid Hin.
  - inversion H; subst. contradiction.
  - destruct (process_one sls si p) as [s1 o1| |] eqn:E1; try discriminate.
    destruct (process_all sls s1 r) as [s2 evs2| |] eqn:E2; try discriminate. inversion H; subst s' evs.
    destruct (process_one_frame _ _ _ _ _ E1) as (Gc & _).
    assert (Hrest : In (pid, Passed) evs2 ->
      exists p0 sj cm, In p0 (p :: r) /\ p_id p0 = pid /\ coms sj = coms si /\ find_com sj (p_com p0) = Some cm /\
        has_perms (c_perms cm) (params sj) (p_content p0) = Some true /\
        validate_pub sls (height sj) (params sj) (p_content p0) = true).
    { intros Hi. destruct (IH _ _ _ E2 pid Hi) as (p0 & sj & cm & H0 & H1 & H2 & H3).
      exists p0, sj, cm. split; [now right|]. split; [exact H1|]. split; [congruence|exact H3]. }
    destruct o1 as [x|]; [|now apply Hrest].
    destruct Hin as [Eq|Hi]; [|now apply Hrest].
    inversion Eq; subst pid x. clear Hrest.
    apply process_one_spec in E1. destruct (find_com si (p_com p)) as [c|] eqn:Ec; [|destruct E1; discriminate].
    cbv zeta in E1. destruct ((p_deadline p <=? now si) || _); [|destruct E1; discriminate].
    destruct (tally si c (p_id p)); [|destruct E1; discriminate].
    destruct E1 as (s0 & y & Ha & Ey & _). inversion Ey; subst y.
    destruct (attempt_enact_spec _ _ _ _ _ Ha) as [[_ (c' & ps & Hc' & Hp & Hv & _)]|[Hx _]]; [|discriminate].
    exists p, si, c'. split; [now left|]. auto.
Qed.

Theorem begin_block_passed_allowed sls s t s' evs :
  step sls s (OBegin t) = Ok s' (OutClosed evs) ->
  forall pid, In (pid, Passed) evs ->
  exists p cm pm, In p (props s) /\ p_id p = pid /\ find_com s (p_com p) = Some cm /\ In pm (c_perms cm) /\
    type_allows (ptype_of pm) (ctype_of (p_content p)) = true /\
    validate_basic (p_content p) = true /\ has_route (p_content p) = true.
Proof.
  intros H pid Hin. cbn in H. destruct (t <? now s); [discriminate|].
  unfold process_proposals in H. cbn [props] in H.
  set (s0 := mkState _ _ _ _ _ _ _ t _ _ _) in *.
  destruct (process_all sls s0 (props s)) as [s1 e1| |] eqn:E; try discriminate.
  inversion H; subst s' evs.
  destruct (process_all_passed _ _ _ _ _ E pid Hin) as (p & sj & cm & Hp & Hid & Hc & Hf & Hperm & Hv).
  destruct (has_perms_true_ex _ _ _ Hperm) as (pm & Hpm & Ha).
  unfold validate_pub in Hv. apply Bool.andb_true_iff in Hv. destruct Hv as [Hv _].
  apply Bool.andb_true_iff in Hv. destruct Hv as [Hb Hr].
  exists p, cm, pm. split; [exact Hp|]. split; [exact Hid|].
  split; [unfold find_com in *; rewrite Hc in Hf; exact Hf|].
  split; [exact Hpm|]. split; [eapply allows_type; eauto|]. auto.
Qed.

(** ** which handler ran: the counters of community keeper calls *)

Lemma msg_no_enact sls s o s' x : is_msg o -> step sls s o = Ok s' x -> enacted s' = enacted s.
Proof.
  intros Hm H. destruct o; cbn in Hm; try contradiction; cbn in H; brk H; inversion H; subst; reflexivity.
Qed.

Lemma attempt_enact_enacted sls s p s0 oc : attempt_enact sls s p = Ok s0 oc ->
  enacted s0 = match oc with Passed => bump (p_content p) (enacted s) | _ => enacted s end
  /\ (oc <> Passed -> plan s0 = plan s).
Proof.
  intros H. destruct (attempt_enact_spec _ _ _ _ _ H) as [[-> (c & ps & _ & _ & _ & _ & ->)]|[-> ->]].
  - split; [reflexivity|congruence].
  - auto.
Qed.

(* a begin block without a Passed close changes neither parameters, nor the upgrade plan, nor the counters *)
Lemma process_one_nopass sls s p s1 oc : process_one sls s p = Ok s1 oc -> oc <> Some Passed ->
  params s1 = params s /\ plan s1 = plan s /\ enacted s1 = enacted s.
Proof.
  intros H Hn. apply process_one_spec in H.
  destruct (find_com s (p_com p)) as [c|]; [|destruct H as [_ ->]; auto].
  cbv zeta in H. destruct ((p_deadline p <=? now s) || _); [|destruct H as [_ ->]; auto].
  destruct (tally s c (p_id p)); [|destruct H as [_ ->]; auto].
  destruct H as (s0 & x & Ha & -> & ->).
  destruct (attempt_enact_spec _ _ _ _ _ Ha) as [[-> _]|[-> ->]]; [congruence|auto].
Qed.

Lemma process_all_nopass sls l : forall si s' evs, process_all sls si l = Ok s' evs ->
  (forall pid, ~ In (pid, Passed) evs) ->
  params s' = params si /\ plan s' = plan si /\ enacted s' = enacted si.
Proof.
  induction l as [|p r IH]; cbn; intros si s' evs H Hn.
  - inversion H; subst. auto.
  - destruct (process_one sls si p) as [s1 o1| |] eqn:E1; try discriminate.
    destruct (process_all sls s1 r) as [s2 evs2| |] eqn:E2; try discriminate. inversion H; subst s' evs.
    assert (Ho : o1 <> Some Passed).
    { intros ->. apply (Hn (p_id p)). now left. }
    destruct (process_one_nopass _ _ _ _ _ E1 Ho) as (A1 & A2 & A3).
    assert (Hn2 : forall pid, ~ In (pid, Passed) evs2).
    { intros pid Hi. apply (Hn pid). destruct o1; [now right|exact Hi]. }
    destruct (IH _ _ _ E2 Hn2) as (B1 & B2 & B3). repeat split; congruence.
Qed.

Theorem begin_block_nothing_passed_no_effect sls s t s' evs :
  step sls s (OBegin t) = Ok s' (OutClosed evs) -> (forall pid, ~ In (pid, Passed) evs) ->
  params s' = params s /\ plan s' = plan s /\ enacted s' = enacted s.
Proof.
  intros H Hn. cbn in H. destruct (t <? now s); [discriminate|].
  unfold process_proposals in H. cbn [props] in H.
  destruct (process_all sls _ (props s)) as [s1 e1| |] eqn:E; try discriminate.
  inversion H; subst s' evs. exact (process_all_nopass _ _ _ _ _ E Hn).
Qed.

(* the ghost refresh touches nothing a permission, ValidateBasic or the router looks at *)
Lemma set_ok_same c b :
  ctype_of (set_ok c b) = ctype_of c /\
  validate_basic (set_ok c b) = validate_basic c /\ has_route (set_ok c b) = has_route c /\
  forall pm ps, perm_allows pm ps (set_ok c b) = perm_allows pm ps c.
Proof.
  destruct c; cbn; repeat split; auto.
Qed.

(** * Part 4: votes, deleted committees *)

(* an accepted vote, exactly: a pending proposal of an existing committee, strictly
   before the deadline, a vote type in 1..3; member committees: a member, and yes only;
   token committees: anybody, any of the three types *)
Theorem vote_accepted_spec sls s pid voter vt s' x :
  step sls s (OVote pid voter vt) = Ok s' x ->
  exists p cm, find_prop s pid = Some p /\ now s < p_deadline p /\ find_com s (p_com p) = Some cm /\
    1 <= vt <= 3 /\
    (c_kind cm = CMember -> mem_nat voter (c_members cm) = true /\ vt = 1) /\
    s' = set_pv s (props s) (vote_put (mkVote pid voter vt (now s)) (votes s)).
Proof.
  intros H. cbn in H.
  destruct ((1 <=? vt) && (vt <=? 3)) eqn:Er; cbn in H; [|discriminate].
  destruct (find_prop s pid) as [p|] eqn:Ep; [|discriminate].
  destruct (p_deadline p <=? now s) eqn:Ed; [discriminate|].
  destruct (find_com s (p_com p)) as [cm|] eqn:Ec; [|discriminate].
  exists p, cm. split; [reflexivity|]. split; [lia|]. split; [exact Ec|]. split; [lia|].
  destruct (c_kind cm) eqn:Ek.
  - destruct (mem_nat voter (c_members cm)) eqn:Em; cbn in H; [|discriminate].
    destruct (vt =? 1) eqn:Ev; cbn in H; [|discriminate].
    split; [intros _; split; [reflexivity|lia]|]. now inversion H.
  - split; [discriminate|]. now inversion H.
Qed.

(* votes at or after the deadline are refused, whatever else holds *)
Theorem vote_at_deadline_refused sls s pid voter vt p :
  find_prop s pid = Some p -> p_deadline p <= now s -> step sls s (OVote pid voter vt) = Err.
Proof.
  intros Hp Hd. cbn. destruct (negb _); [reflexivity|]. rewrite Hp.
  destruct (p_deadline p <=? now s) eqn:E; [reflexivity|lia].
Qed.

(* so are votes on proposals that do not exist (any more) or whose committee is gone *)
Theorem vote_without_proposal_or_committee_refused sls s pid voter vt :
  find_prop s pid = None \/ (exists p, find_prop s pid = Some p /\ find_com s (p_com p) = None) ->
  step sls s (OVote pid voter vt) = Err.
Proof.
  intros [Hp|(p & Hp & Hc)]; cbn; destruct (negb _); try reflexivity; rewrite Hp; [reflexivity|].
  destruct (p_deadline p <=? now s); [reflexivity|]. now rewrite Hc.
Qed.

(** ** a repeated vote replaces the earlier one: the store holds one vote per (proposal, voter) *)

Definition vlt (v w : vote) : Prop := vote_lt v w = true.
Definition votes_sorted (l : list vote) : Prop := StronglySorted vlt l.
Definition same_key (v w : vote) : Prop := v_pid v = v_pid w /\ v_voter v = v_voter w.

Lemma vote_lt_spec v w : vote_lt v w = true <->
  (v_pid v < v_pid w)%nat \/ (v_pid v = v_pid w /\ (v_voter v < v_voter w)%nat).
Proof.
  unfold vote_lt. rewrite Bool.orb_true_iff, Bool.andb_true_iff, !Nat.ltb_lt, Nat.eqb_eq. tauto.
Qed.

Lemma vlt_trans a b c : vlt a b -> vlt b c -> vlt a c.
Proof. unfold vlt. rewrite !vote_lt_spec. lia. Qed.

Lemma vlt_irrefl_key a b : vlt a b -> ~ same_key a b.
Proof. unfold vlt, same_key. rewrite vote_lt_spec. lia. Qed.

Lemma vote_put_spec v : forall l, votes_sorted l ->
  votes_sorted (vote_put v l) /\
  (forall w, In w (vote_put v l) <-> (w = v \/ (In w l /\ ~ same_key w v))).
Proof.
  induction l as [|a r IH]; intros Hs.
  - cbn. split; [repeat constructor|]. intros w. split; [intros [<-|[]]; now left|intros [->|[[] _]]; now left].
  - inversion Hs as [|? ? Hr Ha]; subst. rewrite Forall_forall in Ha. cbn [vote_put].
    destruct (Nat.eqb (v_pid a) (v_pid v) && Nat.eqb (v_voter a) (v_voter v)) eqn:Ek.
    + apply Bool.andb_true_iff in Ek. destruct Ek as [E1 E2]. apply Nat.eqb_eq in E1, E2.
      split.
      * constructor; [exact Hr|]. rewrite Forall_forall. intros w Hw. specialize (Ha w Hw).
        unfold vlt in *. rewrite vote_lt_spec in *. cbn. lia.
      * intros w. cbn [In]. split.
        -- intros [<-|Hw]; [now left|]. right. split; [now right|].
           specialize (Ha w Hw). unfold vlt in Ha. rewrite vote_lt_spec in Ha. unfold same_key. lia.
        -- intros [->|[[<-|Hw] Hn]]; [now left| |now right]. exfalso. apply Hn. split; assumption.
    + assert (Hne : ~ same_key a v).
      { unfold same_key. intros [E1 E2]. rewrite E1, E2, !Nat.eqb_refl in Ek. discriminate. }
      destruct (vote_lt v a) eqn:El.
      * split.
        -- constructor; [exact Hs|]. rewrite Forall_forall. intros w [<-|Hw]; [exact El|].
           eapply vlt_trans; [exact El|]. now apply Ha.
        -- intros w. cbn [In]. split.
           ++ intros [<-|[<-|Hw]]; [now left|right; split; [now left|exact Hne]|].
              right. split; [now right|]. intros Hk. specialize (Ha w Hw).
              assert (vlt v w) by (eapply vlt_trans; [exact El|exact Ha]).
              apply (vlt_irrefl_key v w); [assumption|]. unfold same_key in *. lia.
           ++ intros [->|[[<-|Hw] _]]; auto.
      * destruct (IH Hr) as [Hs' Hin]. split.
        -- constructor; [exact Hs'|]. rewrite Forall_forall. intros w Hw. apply Hin in Hw.
           destruct Hw as [->|[Hw _]]; [|now apply Ha].
           unfold vlt. rewrite vote_lt_spec. apply Bool.not_true_iff_false in El. rewrite vote_lt_spec in El.
           unfold same_key in Hne. lia.
        -- intros w. cbn [In]. rewrite Hin. split.
           ++ intros [<-|[->|[Hw Hn]]]; [right; split; [now left|exact Hne]|now left|right; split; [now right|exact Hn]].
           ++ intros [->|[[<-|Hw] Hn]]; [right; now left|now left|right; right; auto].
Qed.

(* strict order: no two stored votes share proposal and voter *)
Lemma votes_sorted_unique l : votes_sorted l -> forall v w, In v l -> In w l -> same_key v w -> v = w.
Proof.
  induction 1 as [|a r Hr IH Ha]; intros v w Hv Hw Hk; [contradiction|].
  rewrite Forall_forall in Ha.
  destruct Hv as [<-|Hv], Hw as [<-|Hw]; auto.
  - exfalso. exact (vlt_irrefl_key _ _ (Ha w Hw) Hk).
  - exfalso. apply (vlt_irrefl_key _ _ (Ha v Hv)). unfold same_key in *. lia.
Qed.

Theorem vote_replaces_earlier_vote sls s pid voter vt s' x :
  votes_sorted (votes s) -> step sls s (OVote pid voter vt) = Ok s' x ->
  votes_sorted (votes s') /\
  (forall w, In w (votes s') <->
     (w = mkVote pid voter vt (now s) \/ (In w (votes s) /\ ~ (v_pid w = pid /\ v_voter w = voter)))) /\
  (forall w, In w (votes s') -> v_pid w = pid -> v_voter w = voter -> w = mkVote pid voter vt (now s)).
Proof.
  intros Hs H. destruct (vote_accepted_spec _ _ _ _ _ _ _ H) as (p & cm & _ & _ & _ & _ & _ & ->). cbn [votes set_pv].
  destruct (vote_put_spec (mkVote pid voter vt (now s)) _ Hs) as [Hs' Hin].
  split; [exact Hs'|]. split; [exact Hin|].
  intros w Hw E1 E2. apply Hin in Hw. destruct Hw as [->|[_ Hn]]; [reflexivity|].
  exfalso. apply Hn. split; assumption.
Qed.

Lemma filter_sorted {A} (R : A -> A -> Prop) f l : StronglySorted R l -> StronglySorted R (filter f l).
Proof.
  induction 1 as [|a r Hr IH Ha]; cbn; [constructor|].
  destruct (f a); [|exact IH]. constructor; [exact IH|].
  rewrite Forall_forall in *. intros w Hw. apply filter_In in Hw. now apply Ha.
Qed.

Lemma close_votes_sorted s pid : votes_sorted (votes s) -> votes_sorted (votes (close s pid)).
Proof. intros H. cbn. now apply filter_sorted. Qed.

Lemma close_all_votes_sorted l : forall s, votes_sorted (votes s) ->
  votes_sorted (votes (fold_left (fun st p => close st (p_id p)) l s)).
Proof.
  induction l as [|p r IH]; cbn [fold_left]; intros s H; [exact H|]. apply IH. now apply close_votes_sorted.
Qed.

Lemma process_all_votes_sorted sls l : forall s s' evs, process_all sls s l = Ok s' evs ->
  votes_sorted (votes s) -> votes_sorted (votes s').
Proof.
  induction l as [|p r IH]; cbn; intros s s' evs H Hs; [inversion H; now subst|].
  destruct (process_one sls s p) as [s1 o1| |] eqn:E1; try discriminate.
  destruct (process_all sls s1 r) as [s2 evs2| |] eqn:E2; try discriminate. inversion H; subst s' evs.
  eapply IH; [exact E2|].
  destruct (process_one_frame _ _ _ _ _ E1) as (_ & _ & _ & _ & _ & _ & _ & _ & Hc).
  destruct o1; [destruct Hc as [_ ->]; now apply filter_sorted|destruct Hc as [_ ->]; exact Hs].
Qed.

(* ... and that holds in every reachable state *)
Theorem votes_sorted_step sls s o s' x : votes_sorted (votes s) -> step sls s o = Ok s' x -> votes_sorted (votes s').
Proof.
  intros Hs H. destruct o.
  - cbn in H. brk H. inversion H; now subst.
  - cbn in H. brk H; inversion H; subst; exact Hs.
  - destruct (submit_spec _ _ _ _ _ _ _ H) as (_ & _ & _ & cm & pm & _ & _ & _ & _ & ->). exact Hs.
  - destruct (vote_replaces_earlier_vote _ _ _ _ _ _ _ Hs H) as [H' _]. exact H'.
  - cbn in H. destruct (t <? now s); [discriminate|]. unfold process_proposals in H.
    destruct (process_all sls _ _) as [s1 e1| |] eqn:E; try discriminate. inversion H; subst.
    eapply process_all_votes_sorted; [exact E|exact Hs].
  - cbn in H. brk H. inversion H; subst. exact Hs.
  - cbn in H. destruct (negb (committee_valid c)); [discriminate|]. unfold close_all_of in H.
    inversion H; subst. cbn. now apply close_all_votes_sorted.
  - cbn in H. unfold close_all_of in H. inversion H; subst. cbn. now apply close_all_votes_sorted.
  - cbn in H. inversion H; subst. exact Hs.
Qed.

Theorem votes_sorted_run sls ops : forall s, votes_sorted (votes s) -> votes_sorted (votes (run sls s ops)).
Proof.
  induction ops as [|o r IH]; intros s Hs; [exact Hs|]. cbn. apply IH. unfold step'.
  destruct (step sls s o) as [s1 x| |] eqn:E; [|exact Hs|exact Hs]. eapply votes_sorted_step; eauto.
Qed.

(** ** deleting (or replacing) a committee closes all of its proposals at once *)

Lemma close_all_props l : forall s,
  props (fold_left (fun st p => close st (p_id p)) l s)
  = filter (fun q => negb (existsb (fun p => Nat.eqb (p_id q) (p_id p)) l)) (props s).
Proof.
  induction l as [|p r IH]; intros s; cbn [fold_left].
  - cbn. symmetry. induction (props s) as [|a t IHt]; cbn; [reflexivity|]. now rewrite IHt.
  - rewrite IH. cbn [props close set_pv]. induction (props s) as [|a t IHt]; cbn; [reflexivity|].
    destruct (Nat.eqb (p_id a) (p_id p)); cbn; [exact IHt|].
    destruct (existsb _ r); cbn; [exact IHt|]. now rewrite IHt.
Qed.

Theorem delete_committee_closes_its_proposals sls s id s' x :
  step sls s (ODeleteCommittee id) = Ok s' x ->
  find_com s' id = None /\ (forall q, In q (props s') -> p_com q <> id /\ In q (props s)) /\
  x = OutClosed (map (fun p => (p_id p, Failed)) (filter (fun p => Nat.eqb (p_com p) id) (props s))).
Proof.
  intros H. cbn in H. unfold close_all_of in H. inversion H; subst; clear H. split; [|split; [|reflexivity]].
  - unfold find_com. cbn [coms set_coms]. 
    match goal with |- find _ (filter _ ?l) = None => induction l as [|a t IHt] end; cbn; [reflexivity|].
    destruct (Nat.eqb (c_id a) id) eqn:E; cbn; [exact IHt|]. now rewrite E.
  - intros q Hq. cbn [props set_coms] in Hq. rewrite close_all_props in Hq.
    apply filter_In in Hq. destruct Hq as [Hin Hn]. split; [|exact Hin].
    intros Hc. apply Bool.negb_true_iff in Hn.
    assert (existsb (fun p => Nat.eqb (p_id q) (p_id p)) (filter (fun p => Nat.eqb (p_com p) id) (props s)) = true).
    { apply existsb_exists. exists q. split; [|apply Nat.eqb_refl].
      apply filter_In. split; [exact Hin|]. now apply Nat.eqb_eq. }
    congruence.
Qed.

(** ** what the proposal store can hold, in every reachable state *)

Definition content_ok (c : content) : bool := decodable c && validate_basic c && has_route c.
Definition store_ok (s : state) : Prop := Forall (fun p => content_ok (p_content p) = true) (props s).

Lemma content_ok_set_ok c b : content_ok (set_ok c b) = content_ok c.
Proof. destruct c; reflexivity. Qed.

Lemma Forall_filter {A} (P : A -> Prop) f l : Forall P l -> Forall P (filter f l).
Proof. rewrite !Forall_forall. intros H x Hx. apply filter_In in Hx. now apply H. Qed.

Lemma process_all_store sls l : forall s s' evs, process_all sls s l = Ok s' evs -> store_ok s -> store_ok s'.
Proof.
  induction l as [|p r IH]; cbn; intros s s' evs H Hs; [inversion H; now subst|].
  destruct (process_one sls s p) as [s1 o1| |] eqn:E1; try discriminate.
  destruct (process_all sls s1 r) as [s2 evs2| |] eqn:E2; try discriminate. inversion H; subst s' evs.
  eapply IH; [exact E2|]. unfold store_ok in *.
  destruct (process_one_frame _ _ _ _ _ E1) as (_ & _ & _ & _ & _ & _ & _ & _ & Hc).
  destruct o1; [destruct Hc as [-> _]; now apply Forall_filter|destruct Hc as [-> _]; exact Hs].
Qed.

Lemma store_ok_step sls s o s' x : store_ok s -> step sls s o = Ok s' x -> store_ok s'.
Proof.
  unfold store_ok. intros Hs H. destruct o.
  - cbn in H. brk H. inversion H; now subst.
  - cbn in H. brk H; inversion H; subst; exact Hs.
  - destruct (submit_spec _ _ _ _ _ _ _ H) as (Hd & Hb & Hr & cm & pm & _ & _ & _ & _ & ->). cbn [props].
    apply Forall_app. split; [exact Hs|]. constructor; [|constructor]. cbn [p_content].
    unfold content_ok. now rewrite Hd, Hb, Hr.
  - destruct (vote_accepted_spec _ _ _ _ _ _ _ H) as (p & cm & _ & _ & _ & _ & _ & ->). exact Hs.
  - cbn in H. destruct (t <? now s); [discriminate|]. unfold process_proposals in H.
    destruct (process_all sls _ _) as [s1 e1| |] eqn:E; try discriminate. inversion H; subst.
    eapply process_all_store; [exact E|exact Hs].
  - cbn in H. brk H. inversion H; subst. exact Hs.
  - cbn in H. destruct (negb (committee_valid c)); [discriminate|]. unfold close_all_of in H.
    inversion H; subst. cbn [props set_coms]. rewrite close_all_props. now apply Forall_filter.
  - cbn in H. unfold close_all_of in H. inversion H; subst. cbn [props set_coms].
    rewrite close_all_props. now apply Forall_filter.
  - cbn in H. inversion H; subst. cbn [props set_pv]. rewrite Forall_forall in *. intros q Hq.
    apply in_map_iff in Hq. destruct Hq as (p & <- & Hp). unfold oracle_prop.
    destruct (find _ l); cbn [p_content]; [rewrite content_ok_set_ok|]; now apply Hs.
Qed.

Theorem store_ok_run sls ops : forall s, store_ok s -> store_ok (run sls s ops).
Proof.
  induction ops as [|o r IH]; intros s Hs; [exact Hs|]. cbn. apply IH. unfold step'.
  destruct (step sls s o) as [s1 x| |] eqn:E; [|exact Hs|exact Hs]. eapply store_ok_step; eauto.
Qed.

(* hence no stored proposal is ever a lend deposit, a committee change, a pool spend, or
   a content with a refused title or description *)
Corollary never_stored sls ops s p :
  store_ok s -> In p (props (run sls s ops)) ->
  ctype_of (p_content p) <> TLendDeposit /\ ctype_of (p_content p) <> TCommitteeChange /\
  ctype_of (p_content p) <> TPoolSpend /\ (forall c, p_content p <> CBadMeta c).
Proof.
  intros Hs Hp. pose proof (store_ok_run sls ops s Hs) as H. unfold store_ok in H.
  rewrite Forall_forall in H. specialize (H p Hp). unfold content_ok, decodable, has_route, ctype_of in *.
  apply Bool.andb_true_iff in H. destruct H as [H Hr]. apply Bool.andb_true_iff in H. destruct H as [Hd Hb].
  repeat split; try (intros E; destruct (body (p_content p)); discriminate).
  intros c E. rewrite E in Hb. discriminate.
Qed.

(** * Part: the tally is exact - no division, no rounding *)


Lemma chop_round_mul_prec x : chop_round (x * PREC) = x.
Proof.
  assert (HP : 0 < PREC) by (unfold PREC; lia).
  assert (Hpos : forall y, 0 <= y -> chop_round_pos (y * PREC) = y).
  { intros y _. unfold chop_round_pos. rewrite Z.mod_mul by lia. cbn [Z.eqb]. apply Z.div_mul. lia. }
  unfold chop_round. destruct (x * PREC <? 0) eqn:E.
  - apply Z.ltb_lt in E. replace (- (x * PREC)) with ((- x) * PREC) by lia. rewrite Hpos by nia. lia.
  - apply Z.ltb_ge in E. apply Hpos. nia.
Qed.

(* Dec.Mul by a whole number is the exact product of the mantissa and that number *)
Lemma dec_mul_of_int_exact a n : dec_mul a (dec_of_int n) = a * n.
Proof. unfold dec_mul, dec_of_int. rewrite Z.mul_assoc. apply chop_round_mul_prec. Qed.

Lemma dec_mul_of_int_exact_l a n : dec_mul (dec_of_int n) a = n * a.
Proof. unfold dec_mul, dec_of_int. replace (n * PREC * a) with (n * a * PREC) by lia. apply chop_round_mul_prec. Qed.

Lemma sum_votes_weight s f vs : sum_votes s f vs = dec_of_int (weight s f vs).
Proof.
  unfold sum_votes, weight, dec_of_int. induction vs as [|v r IH]; cbn [map zsum fold_right]; [reflexivity|].
  unfold zsum in IH. rewrite IH. unfold dec_of_int. destruct (f v); lia.
Qed.

(* GetTokenCommitteeProposalResult, exactly, in integers: turnout * 10^18 >= quorum mantissa * supply
   and yes * 10^18 >= threshold mantissa * (yes + no) - cross-multiplied, nothing divided, nothing rounded *)
Theorem token_tally_exact s c pid q :
  c_kind c = CToken q ->
  let vs := votes_of s pid in
  let yes := weight s (fun v => v_type v =? 1) vs in
  let no := weight s (fun v => v_type v =? 2) vs in
  let total := weight s (fun _ => true) vs in
  tally s c pid = (q * supply s <=? total * PREC) && (c_threshold c * (yes + no) <=? yes * PREC).
Proof.
  intros Hk. unfold tally. rewrite Hk. cbv zeta.
  rewrite !sum_votes_weight, dec_mul_of_int_exact.
  replace (dec_of_int (weight s (fun v => v_type v =? 1) (votes_of s pid)) + dec_of_int (weight s (fun v => v_type v =? 2) (votes_of s pid)))
    with (dec_of_int (weight s (fun v => v_type v =? 1) (votes_of s pid) + weight s (fun v => v_type v =? 2) (votes_of s pid)))
    by (unfold dec_of_int; lia).
  rewrite dec_mul_of_int_exact_l. unfold dec_of_int.
  f_equal. f_equal. lia.
Qed.

(* GetMemberCommitteeProposalResult, exactly: votes * 10^18 >= threshold mantissa * members *)
Theorem member_tally_exact s c pid :
  c_kind c = CMember ->
  tally s c pid = (c_threshold c * Z.of_nat (List.length (c_members c)) <=? Z.of_nat (List.length (votes_of s pid)) * PREC).
Proof.
  intros Hk. unfold tally. rewrite Hk. rewrite dec_mul_of_int_exact. reflexivity.
Qed.

(* hence: a turnout that misses the quorum by any amount, however small, fails *)
Corollary token_quorum_missed_fails s c pid q :
  c_kind c = CToken q ->
  weight s (fun _ => true) (votes_of s pid) * PREC < q * supply s ->
  tally s c pid = false.
Proof.
  intros Hk H. rewrite (token_tally_exact _ _ _ _ Hk). cbv zeta.
  apply Bool.andb_false_iff. left. apply Z.leb_gt. exact H.
Qed.
