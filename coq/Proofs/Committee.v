(* Lemmas and proofs about Model/Committee.v *)
From Kava Require Import Base.Prelude Base.Dec Model.Json Model.Committee Proofs.Json.
Local Open Scope string_scope.
Local Open Scope list_scope.
Local Open Scope Z_scope.

(** * Part 1: the permission check against the applier *)

Lemma oget_some_in k v l : oget k l = Some v -> In (k, v) l.
Proof.
  induction l as [|[k' v'] r IH]; cbn; [discriminate|].
  destruct (oget k r) eqn:E.
  - intros H. inversion H; subst. right. now apply IH.
  - destruct (String.eqb_spec k' k) as [->|]; [|discriminate]. intros H. inversion H. now left.
Qed.

(* one record: whatever the checker accepted, decoding (onto the record itself
   or onto zero) leaves every protected field as it was *)
Lemma rec_sound sch r base raw allow r' :
  schema_ok sch = true -> wt_rec sch r = true -> (base = r \/ base = zero_rec sch) ->
  validate_changes (dedupe (enc_rec sch r)) (dedupe raw) allow = true ->
  dec_rec sch base raw = Some r' ->
  forall f, In f sch -> str_in (f_name f) allow = false ->
    bget (f_name f) r' (zero_k (f_kind f)) = bget (f_name f) r (zero_k (f_kind f)).
Proof.
  intros Hok Hwt Hbase Hval Hdec f Hin Hprot.
  destruct (schema_ok_parts _ Hok) as [Hnd Hfok].
  unfold validate_changes in Hval. apply Bool.andb_true_iff in Hval. destruct Hval as [Hlen Hall].
  apply Nat.eqb_eq in Hlen.
  pose proof (enc_rec_nodup sch r Hnd) as Hnde.
  rewrite (dedupe_id (enc_rec sch r)) in Hall, Hlen by assumption.
  rewrite forallb_forall in Hall.
  (* the incoming map has exactly the keys of the current document *)
  assert (Hkeys : forall n, has_key n raw = true -> In n (map fst (enc_rec sch r))).
  { intros n Hn.
    assert (Hincl : incl (map fst (enc_rec sch r)) (map fst (dedupe raw))).
    { intros k Hk. apply in_map_iff in Hk. destruct Hk as ([k0 v0] & <- & Hk).
      specialize (Hall _ Hk). cbn in Hall. apply Bool.andb_true_iff in Hall. destruct Hall as [Hh _].
      now apply has_key_In. }
    assert (Hback : incl (map fst (dedupe raw)) (map fst (enc_rec sch r))).
    { apply NoDup_length_incl; [exact Hnde| |exact Hincl]. rewrite !map_length. lia. }
    apply Hback. apply has_key_In. now rewrite has_key_dedupe. }
  pose proof (oget_enc_rec sch r f Hnd Hin) as He. cbn in He.
  set (v := bget (f_name f) r (zero_k (f_kind f))) in *.
  pose proof (dec_rec_get sch base raw r' f (zero_k (f_kind f)) Hnd Hdec Hin) as Hg.
  rewrite (field_dec (f_kind f) (f_omit f) v _ raw (f_name f)) in Hg.
  - now inversion Hg.
  - apply field_ok_kok. now apply Hfok.
  - unfold v. eapply wt_rec_get; eauto.
  - destruct Hbase as [->| ->]; [now left|right; now apply bget_zero_rec].
  - destruct (f_omit f && emp_k (f_kind f) v) eqn:Eo.
    + (* omitted from the current document, hence absent from the incoming one *)
      right. split; [reflexivity|]. apply oget_none_iff.
      destruct (has_key (f_name f) raw) eqn:Eh; [|reflexivity].
      apply Hkeys in Eh. apply has_key_In in Eh. apply oget_none_iff in He. congruence.
    + left. split; [reflexivity|].
      pose proof (oget_some_in _ _ _ He) as Hmem. specialize (Hall _ Hmem). cbn in Hall.
      apply Bool.andb_true_iff in Hall. destruct Hall as [_ Hall].
      rewrite Hprot in Hall. cbn in Hall. unfold mget in Hall. rewrite oget_dedupe in Hall. exact Hall.
Qed.

Definition has_rules (ac : allowed_change) : Prop :=
  is_nil (ac_single ac) && is_nil (ac_multi ac) = false.

(* single-record parameters *)
Theorem single_sound_full sch vf r ac inc st' :
  schema_ok sch = true -> wt_rec sch r = true -> has_rules ac ->
  allows_change ac (RVal (enc_struct sch r)) (Some inc) = Some true ->
  apply_single sch vf (enc_struct sch r) inc = AOk st' ->
  exists r', st' = enc_struct sch r' /\ vf r' = true /\
    forall f, In f sch -> str_in (f_name f) (ac_single ac) = false ->
      bget (f_name f) r' (zero_k (f_kind f)) = bget (f_name f) r (zero_k (f_kind f)).
Proof.
  intros Hok Hwt Hrules Hallow Happ.
  unfold allows_change in Hallow. unfold has_rules in Hrules. rewrite Hrules in Hallow.
  cbn [enc_struct] in Hallow.
  destruct (to_map inc) as [i|] eqn:Ei; [|discriminate].
  cbn [to_map] in Hallow. injection Hallow as Hval.
  unfold apply_single in Happ. cbn [enc_struct dec_struct] in Happ.
  rewrite (load_store _ _ Hok Hwt) in Happ.
  destruct (dec_struct sch r inc) as [r'|] eqn:Ed; [|discriminate].
  destruct (vf r') eqn:Ev; [|discriminate]. inversion Happ; subst st'.
  exists r'. split; [reflexivity|]. split; [exact Ev|].
  intros f Hin Hprot.
  destruct inc; cbn in Ei, Ed; try discriminate.
  - (* null: the map is empty, so the current document has no key at all: every
       field of r is an omitted zero, and decoding null zeroes the record *)
    inversion Ei; subst i. injection Ed as <-.
    destruct (schema_ok_parts _ Hok) as [Hnd _].
    rewrite (bget_zero_rec sch f Hnd Hin).
    pose proof (oget_enc_rec sch r f Hnd Hin) as He. cbn in He.
    pose proof (wt_rec_get sch r f Hwt Hnd Hin) as Hwf.
    set (v := bget (f_name f) r (zero_k (f_kind f))) in *.
    unfold validate_changes in Hval. apply Bool.andb_true_iff in Hval. destruct Hval as [Hl _].
    apply Nat.eqb_eq in Hl.
    destruct (f_omit f && emp_k (f_kind f) v) eqn:Eo.
    + apply Bool.andb_true_iff in Eo. destruct Eo as [_ Ee].
      destruct (f_kind f) as [k|fs]; cbn in *; [|discriminate].
      symmetry. now apply json_eqb_zero_s.
    + exfalso. apply oget_some_has in He. rewrite <- has_key_dedupe in He.
      destruct (dedupe (enc_rec sch r)); [discriminate|discriminate].
  - inversion Ei; subst i.
    eapply rec_sound with (base := r); eauto.
Qed.

(** ** multi-record parameters *)

Lemma to_maps_enc sch rs :
  to_maps (map (enc_struct sch) rs) = Some (map (fun r => dedupe (enc_rec sch r)) rs).
Proof. induction rs as [|r t IH]; cbn; [reflexivity|]. now rewrite IH. Qed.

Lemma to_maps_length l ms : to_maps l = Some ms -> List.length ms = List.length l.
Proof.
  revert ms. induction l as [|x t IH]; cbn; intros ms H; [inversion H; reflexivity|].
  destruct (to_map x); [|discriminate]. destruct (to_maps t) as [m'|]; [|discriminate].
  inversion H; subst. cbn. f_equal. now apply IH.
Qed.

Lemma to_maps_find l ms P im : to_maps l = Some ms -> find P ms = Some im ->
  exists j x, nth_error l j = Some x /\ to_map x = Some im.
Proof.
  revert ms. induction l as [|x t IH]; cbn; intros ms H Hf.
  - inversion H; subst. discriminate.
  - destruct (to_map x) as [m|] eqn:Em; [|discriminate].
    destruct (to_maps t) as [m'|] eqn:Et; [|discriminate]. inversion H; subst ms. cbn in Hf.
    destruct (P m).
    + inversion Hf; subst. exists 0%nat, x. split; [reflexivity|exact Em].
    + destruct (IH m' eq_refl Hf) as (j & y & Hj & Hy). exists (S j), y. split; assumption.
Qed.

Lemma dec_structs_nth sch l rs' j x : dec_structs sch l = Some rs' -> nth_error l j = Some x ->
  exists r', nth_error rs' j = Some r' /\ dec_struct sch (zero_rec sch) x = Some r'.
Proof.
  revert rs' j. induction l as [|y t IH]; cbn; intros rs' j H Hn; [destruct j; discriminate|].
  destruct (dec_struct sch (zero_rec sch) y) as [a|] eqn:Ea; [|discriminate].
  destruct (dec_structs sch t) as [b|] eqn:Eb; [|discriminate]. inversion H; subst rs'.
  destruct j; cbn in *.
  - inversion Hn; subst. eauto.
  - eapply IH; eauto.
Qed.

Lemma dec_structs_length sch l rs' : dec_structs sch l = Some rs' -> List.length rs' = List.length l.
Proof.
  revert rs'. induction l as [|y t IH]; cbn; intros rs' H; [inversion H; reflexivity|].
  destruct (dec_struct sch (zero_rec sch) y); [|discriminate].
  destruct (dec_structs sch t); [|discriminate]. inversion H; subst. cbn. f_equal. now apply IH.
Qed.

Definition req_of (sch : schema) (reqs : list subreq) (r : jmap) : option subreq :=
  find (fun q => val_is (dedupe (enc_rec sch r)) (sr_key q) (sr_val q)) reqs.

Lemma to_maps_nth l : forall ms j im, to_maps l = Some ms -> nth_error ms j = Some im ->
  exists x, nth_error l j = Some x /\ to_map x = Some im.
Proof.
  induction l as [|x t IH]; cbn; intros ms j im H Hn.
  - inversion H; subst. destruct j; discriminate.
  - destruct (to_map x) as [m|] eqn:Em; [|discriminate].
    destruct (to_maps t) as [m'|] eqn:Et; [|discriminate]. inversion H; subst ms.
    destruct j; cbn in Hn.
    + inversion Hn; subst. exists x. split; [reflexivity|exact Em].
    + destruct (IH m' j im eq_refl Hn) as (y & Hy & Hm). exists y. split; assumption.
Qed.

Lemma find_unmatched_spec k s incs : forall matched i j im,
  find_unmatched k s incs matched i = Some (j, im) ->
  exists j0, j = (i + j0)%nat /\ nth_error incs j0 = Some im /\ nth_error matched j0 = Some false /\
             val_is im k s = true.
Proof.
  induction incs as [|x t IH]; intros matched i j im H; cbn in H; [discriminate|].
  destruct matched as [|m mr]; [discriminate|].
  destruct (negb m && val_is x k s) eqn:E.
  - inversion H; subst. apply Bool.andb_true_iff in E. destruct E as [Em Ev].
    apply Bool.negb_true_iff in Em. subst m. exists 0%nat. repeat split; auto; lia.
  - destruct (IH mr (S i) j im H) as (j0 & -> & H1 & H2 & H3). exists (S j0). repeat split; auto; lia.
Qed.

Lemma nth_error_set_nth_same {A} (l : list A) : forall i v x,
  nth_error l i = Some x -> nth_error (set_nth i v l) i = Some v.
Proof. induction l as [|a r IH]; intros [|i] v x H; cbn in *; try discriminate; [reflexivity|eauto]. Qed.

Lemma nth_error_set_nth_other {A} (l : list A) : forall i j v,
  i <> j -> nth_error (set_nth i v l) j = nth_error l j.
Proof.
  induction l as [|a r IH]; intros [|i] [|j] v H; cbn; try reflexivity; try congruence.
  apply IH. congruence.
Qed.

Definition paired (reqs : list subreq) (incs : list jmap) (c : jmap) (j : nat) : Prop :=
  exists q im, find (fun r => val_is c (sr_key r) (sr_val r)) reqs = Some q /\
    nth_error incs j = Some im /\ val_is im (sr_key q) (sr_val q) = true /\
    validate_changes c im (sr_attrs q) = true.

(* the loop pairs the current records, in order, with pairwise distinct incoming records *)
Lemma amf_spec reqs incs : forall curs matched,
  allows_multi_from reqs curs incs matched = true ->
  exists js, NoDup js /\ (forall j, In j js -> nth_error matched j = Some false) /\
             Forall2 (paired reqs incs) curs js.
Proof.
  induction curs as [|c rest IH]; cbn; intros matched H.
  - exists []. repeat split; [constructor|intros j []|constructor].
  - destruct (find (fun r => val_is c (sr_key r) (sr_val r)) reqs) as [q|] eqn:Eq; [|discriminate].
    destruct (find_unmatched (sr_key q) (sr_val q) incs matched 0) as [[j im]|] eqn:Ef; [|discriminate].
    apply Bool.andb_true_iff in H. destruct H as [Hv Hrest].
    destruct (find_unmatched_spec _ _ _ _ _ _ _ Ef) as (j0 & -> & Hn & Hm & Hval). cbn in *.
    destruct (IH _ Hrest) as (js & Hnd & Hfree & Hp).
    exists (j0 :: js). split; [|split].
    + constructor; [|exact Hnd]. intros Hin. specialize (Hfree _ Hin).
      rewrite (nth_error_set_nth_same matched j0 true false Hm) in Hfree. discriminate.
    + intros j [<-|Hin]; [exact Hm|].
      pose proof (Hfree _ Hin) as Hf. destruct (Nat.eq_dec j0 j) as [->|Hne].
      * rewrite (nth_error_set_nth_same matched j true false Hm) in Hf. discriminate.
      * now rewrite nth_error_set_nth_other in Hf.
    + constructor; [|exact Hp]. exists q, im. auto.
Qed.

Lemma Forall2_map_l {A B C} (g : A -> B) (P : B -> C -> Prop) l : forall js,
  Forall2 P (map g l) js -> Forall2 (fun a j => P (g a) j) l js.
Proof.
  induction l as [|a r IH]; cbn; intros js H; inversion H; subst; constructor; auto.
Qed.

Lemma Forall2_impl_in {A B} (P Q : A -> B -> Prop) l1 l2 :
  Forall2 P l1 l2 -> (forall a b, In a l1 -> P a b -> Q a b) -> Forall2 Q l1 l2.
Proof.
  induction 1 as [|a b r1 r2 Hab Hr IH]; intros Himp; constructor.
  - apply Himp; [now left|exact Hab].
  - apply IH. intros x y Hx. apply Himp. now right.
Qed.

(* the stored record at position j is the image of the current record r *)
Definition image_of (sch : schema) (reqs : list subreq) (rs' : list jmap) (r : jmap) (j : nat) : Prop :=
  exists q r', req_of sch reqs r = Some q /\ nth_error rs' j = Some r' /\
    val_is (dedupe (enc_rec sch r)) (sr_key q) (sr_val q) = true /\
    forall f, In f sch -> str_in (f_name f) (sr_attrs q) = false ->
      bget (f_name f) r' (zero_k (f_kind f)) = bget (f_name f) r (zero_k (f_kind f)).

(* multi-record parameters, full statement: the stored array has as many records
   as the current one, and there is an injective assignment js of stored positions
   to the current records (in order) such that the stored record at js[n] carries
   the n-th current record's requirement key value and agrees with it on every
   field outside that requirement's allow-list *)
Theorem multi_sound_full sch vf rs ac inc st' :
  schema_ok sch = true -> Forall (fun r => wt_rec sch r = true) rs -> rs <> [] -> has_rules ac ->
  allows_change ac (RVal (enc_slice sch rs)) (Some inc) = Some true ->
  apply_multi sch vf (enc_slice sch rs) inc = AOk st' ->
  exists rs' js, st' = enc_slice sch rs' /\ vf rs' = true /\ List.length rs' = List.length rs /\
    NoDup js /\ Forall2 (image_of sch (ac_multi ac) rs') rs js.
Proof.
  intros Hok Hwt Hne Hrules Hallow Happ.
  unfold allows_change in Hallow. unfold has_rules in Hrules. rewrite Hrules in Hallow.
  assert (Henc : enc_slice sch rs = JArr (map (enc_struct sch) rs)).
  { destruct rs; [congruence|reflexivity]. }
  rewrite Henc in Hallow, Happ.
  destruct (to_multi inc) as [incs|] eqn:Ei; [|discriminate].
  cbn [to_multi] in Hallow. rewrite to_maps_enc in Hallow. injection Hallow as Hall.
  unfold allows_multi in Hall. apply Bool.andb_true_iff in Hall. destruct Hall as [Hlen Hall].
  apply Nat.eqb_eq in Hlen. rewrite map_length in Hlen.
  unfold apply_multi in Happ.
  destruct (dec_slice sch (JArr (map (enc_struct sch) rs))); [|discriminate].
  destruct (dec_slice sch inc) as [rs'|] eqn:Ed; [|discriminate].
  destruct (vf rs') eqn:Ev; [|discriminate]. inversion Happ; subst st'.
  destruct (amf_spec _ _ _ _ Hall) as (js & Hnd & _ & Hp).
  exists rs', js. split; [reflexivity|]. split; [exact Ev|].
  destruct inc as [| | | |li|]; cbn in Ei, Ed; try discriminate.
  { inversion Ei; subst incs. destruct rs; [congruence|discriminate]. }
  split.
  { rewrite (dec_structs_length _ _ _ Ed), <- (to_maps_length _ _ Ei). now symmetry. }
  split; [exact Hnd|].
  apply Forall2_map_l in Hp.
  eapply Forall2_impl_in; [exact Hp|].
  intros r j Hr (q & im & Hq & Hn & Hvi & Hvc).
  destruct (to_maps_nth _ _ _ _ Ei Hn) as (x & Hj & Hx).
  destruct (dec_structs_nth _ _ _ _ _ Ed Hj) as (r' & Hr' & Hdx).
  exists q, r'. split; [exact Hq|]. split; [exact Hr'|].
  assert (Hqv : val_is (dedupe (enc_rec sch r)) (sr_key q) (sr_val q) = true).
  { apply find_some in Hq. tauto. }
  split; [exact Hqv|].
  intros f Hin Hprot.
  rewrite Forall_forall in Hwt. specialize (Hwt r Hr).
  destruct x; cbn in Hx, Hdx; try discriminate.
  - inversion Hx; subst im. unfold val_is in Hvi. discriminate.
  - inversion Hx; subst im.
    eapply rec_sound with (base := zero_rec sch); eauto.
Qed.

(* consequently every stored record is the image of exactly one current record *)
Lemma Forall2_nth {A B} (P : A -> B -> Prop) l1 l2 : Forall2 P l1 l2 ->
  forall n b, nth_error l2 n = Some b -> exists a, nth_error l1 n = Some a /\ P a b.
Proof.
  induction 1 as [|a b r1 r2 Hab Hr IH]; intros [|n] x Hn; cbn in *; try discriminate.
  - inversion Hn; subst. eauto.
  - eauto.
Qed.

Lemma Forall2_len {A B} (P : A -> B -> Prop) l1 l2 : Forall2 P l1 l2 -> List.length l1 = List.length l2.
Proof. induction 1; cbn; congruence. Qed.

Theorem multi_sound_onto sch reqs rs rs' js :
  List.length rs' = List.length rs -> NoDup js -> Forall2 (image_of sch reqs rs') rs js ->
  forall j, (j < List.length rs')%nat ->
    exists n r, nth_error js n = Some j /\ nth_error rs n = Some r /\ image_of sch reqs rs' r j /\
      forall m, nth_error js m = Some j -> m = n.
Proof.
  intros Hlen Hnd Hf j Hj.
  assert (Hl : List.length js = List.length rs) by (symmetry; eapply Forall2_len; eauto).
  assert (Hin : In j js).
  { assert (Hincl : incl js (seq 0 (List.length rs'))).
    { intros k Hk. apply In_nth_error in Hk. destruct Hk as (n & Hn).
      destruct (Forall2_nth _ _ _ Hf n k Hn) as (a & _ & (q & r' & _ & Hr' & _)).
      apply in_seq. split; [lia|]. cbn. apply nth_error_Some. congruence. }
    assert (Hback : incl (seq 0 (List.length rs')) js).
    { apply NoDup_length_incl; [exact Hnd|rewrite seq_length; lia|exact Hincl]. }
    apply Hback. apply in_seq. lia. }
  apply In_nth_error in Hin. destruct Hin as (n & Hn).
  destruct (Forall2_nth _ _ _ Hf n j Hn) as (r & Hr & Him).
  exists n, r. repeat split; auto.
  intros m Hm. eapply NoDup_nth_error; eauto.
  - apply nth_error_Some. congruence.
  - congruence.
Qed.

(** * Part 2: the proposal life cycle *)

Ltac brk H :=
  repeat match type of H with
  | context [if ?x then _ else _] => destruct x eqn:?; try discriminate H
  | context [match ?x with Some _ => _ | None => _ end] => destruct x eqn:?; try discriminate H
  | context [match ?x with Ok _ _ => _ | Err => _ | Panic => _ end] => destruct x eqn:?; try discriminate H
  | context [match ?x with CMember => _ | CToken _ => _ end] => destruct x eqn:?; try discriminate H
  | context [match ?x with CText => _ | CParam _ => _ | CUpgrade _ => _ | CCommitteeChange => _ end] => destruct x eqn:?; try discriminate H
  | context [let '(_, _) := ?x in _] => destruct x eqn:?
  end.

Definition is_msg (o : op) : Prop :=
  match o with OAllows _ _ | OSubmit _ _ _ | OVote _ _ _ => True | _ => False end.

(* queries, submissions and votes change neither parameters, nor committees, nor balances, nor time *)
Lemma msg_no_effect sls s o s' x : is_msg o -> step sls s o = Ok s' x ->
  params s' = params s /\ coms s' = coms s /\ bals s' = bals s /\ supply s' = supply s /\ now s' = now s /\
  height s' = height s /\ plan s' = plan s.
Proof.
  intros Hm H. destruct o; cbn in Hm; try contradiction; cbn in H; brk H;
    inversion H; subst; cbn; auto 10.
Qed.

(* a content without a route on the committee router can never be submitted *)
Lemma committee_change_refused sls s proposer cid : forall s' x,
  step sls s (OSubmit proposer cid CCommitteeChange) <> Ok s' x.
Proof.
  intros s' x H. cbn in H. brk H.
Qed.

(* the dry run and the real run are the same computation on the same state *)
Lemma validated_handler_ok sls ht ps c : validate_pub sls ht ps c = true ->
  exists ps', run_handler sls ht ps c = Ok ps' tt.
Proof.
  destruct c; cbn; [eauto| | |discriminate].
  - intros H. apply Bool.andb_true_iff in H. destruct H as [_ H].
    destruct (run_changes sls ps changes) as [ps' []| |]; try discriminate. eauto.
  - intros H. apply Bool.negb_true_iff in H. rewrite H. eauto.
Qed.

(* a proposal is stored only if its handler succeeds on the current state *)
Lemma submit_handler_ok sls s proposer cid c s' x :
  step sls s (OSubmit proposer cid c) = Ok s' x ->
  exists ps, run_handler sls (height s) (params s) c = Ok ps tt /\
  exists cm, find_com s cid = Some cm /\ mem_nat proposer (c_members cm) = true /\
             has_perms (c_perms cm) (params s) c = Some true.
Proof.
  intros H. cbn in H. brk H.
  match goal with E : negb (validate_pub _ _ _ _) = false |- _ => apply Bool.negb_false_iff in E; rename E into Hv end.
  match goal with E : negb (mem_nat _ _) = false |- _ => apply Bool.negb_false_iff in E; rename E into Hm end.
  destruct (validated_handler_ok _ _ _ _ Hv) as (ps & Hps).
  exists ps. split; [exact Hps|]. eauto.
Qed.

(** ** attemptEnactProposal *)

Lemma attempt_enact_spec sls s p s0 oc : attempt_enact sls s p = Ok s0 oc ->
  (oc = Passed /\
   exists c ps, find_com s (p_com p) = Some c /\ has_perms (c_perms c) (params s) (p_content p) = Some true /\
                validate_pub sls (height s) (params s) (p_content p) = true /\
                run_handler sls (height s) (params s) (p_content p) = Ok ps tt /\
                s0 = enact_state s (p_content p) ps)
  \/ (oc = Invalid /\ s0 = s).
Proof.
  unfold attempt_enact. intros H. brk H; inversion H; subst; auto.
  left. split; [reflexivity|].
  match goal with E : negb _ = false |- _ => apply Bool.negb_false_iff in E end.
  match goal with o : unit |- _ => destruct o end. eauto 10.
Qed.

(* sub-parameter rules only name registered, set parameters (stored values are
   always objects, arrays of objects or null in this model) *)
Definition ac_ok (n : nat) (ac : allowed_change) : bool :=
  (is_nil (ac_single ac) && is_nil (ac_multi ac))
  || match ac_param ac with PKnown i => Nat.ltb i n | PNoSubspace => true | PNoKey => false end.
Definition perm_ok (n : nat) (pm : permission) : bool :=
  match pm with PermParams acs => forallb (ac_ok n) acs | _ => true end.
Definition perms_ok (s : state) : Prop :=
  forall c, In c (coms s) -> forallb (perm_ok (List.length (params s))) (c_perms c) = true.

(* every stored document is an object, an array of objects, or null *)
Definition doc_ok (j : json) : bool :=
  match j with
  | JObj _ | JNull => true
  | JArr l => forallb (fun x => match x with JObj _ | JNull => true | _ => false end) l
  | _ => false
  end.

Lemma to_maps_ok l : forallb (fun x => match x with JObj _ | JNull => true | _ => false end) l = true ->
  to_maps l <> None.
Proof.
  induction l as [|x t IH]; cbn; [discriminate|]. intros H. apply Bool.andb_true_iff in H. destruct H as [Hx Ht].
  specialize (IH Ht). destruct (to_maps t); [|congruence]. destruct x; try discriminate; cbn; discriminate.
Qed.

Lemma allows_change_no_panic n ps ac p v :
  ac_ok n ac = true -> ac_param ac = p -> List.length ps = n -> Forall (fun j => doc_ok j = true) ps ->
  allows_change ac (get_raw ps p) v <> None.
Proof.
  intros Hok Hp Hn Hdocs. unfold allows_change.
  destruct (is_nil (ac_single ac) && is_nil (ac_multi ac)) eqn:E; [discriminate|].
  unfold ac_ok in Hok. rewrite E in Hok. cbn in Hok. rewrite Hp in Hok.
  destruct p as [i| |]; cbn; try discriminate.
  destruct (nth_error ps i) as [cur|] eqn:En; [|discriminate].
  assert (Hd : doc_ok cur = true).
  { rewrite Forall_forall in Hdocs. apply Hdocs. eapply nth_error_In; eauto. }
  destruct cur; cbn in Hd; try discriminate.
  - destruct v as [inc|]; [|discriminate]. destruct (to_map inc); discriminate.
  - destruct v as [inc|]; [|discriminate]. destruct (to_multi inc); [|discriminate].
    cbn. pose proof (to_maps_ok _ Hd). destruct (to_maps l); [discriminate|congruence].
  - destruct v as [inc|]; [|discriminate]. destruct (to_map inc); discriminate.
Qed.

Lemma any_allows_no_panic n ps acs p v :
  forallb (ac_ok n) acs = true -> (forall ac, In ac acs -> ac_param ac = p) ->
  List.length ps = n -> Forall (fun j => doc_ok j = true) ps ->
  any_allows acs (get_raw ps p) v <> None.
Proof.
  induction acs as [|ac r IH]; cbn; [discriminate|]. intros H Hp Hn Hd.
  apply Bool.andb_true_iff in H. destruct H as [Ha Hr].
  pose proof (allows_change_no_panic n ps ac p v Ha (Hp ac (or_introl eq_refl)) Hn Hd) as Hx.
  destruct (allows_change ac (get_raw ps p) v) as [[|]|]; [discriminate| |congruence].
  apply IH; auto.
Qed.

Lemma pref_eqb_eq a b : pref_eqb a b = true -> a = b.
Proof. destruct a, b; cbn; try discriminate; try reflexivity. intros H. apply Nat.eqb_eq in H. now subst. Qed.

Lemma all_changes_no_panic ps acs chs :
  forallb (ac_ok (List.length ps)) acs = true -> Forall (fun j => doc_ok j = true) ps ->
  all_changes_allowed acs ps chs <> None.
Proof.
  intros Hpm Hd. induction chs as [|[p v] t IHt]; cbn; [discriminate|].
  assert (Hy : any_allows (filter (fun ac => pref_eqb (ac_param ac) p) acs) (get_raw ps p) v <> None).
  { apply any_allows_no_panic with (n := List.length ps); auto.
    - rewrite forallb_forall in *. intros ac Hin. apply filter_In in Hin. now apply Hpm.
    - intros ac Hin. apply filter_In in Hin. destruct Hin as [_ Hin]. now apply pref_eqb_eq. }
  destruct (any_allows _ _ v) as [[|]|]; [exact IHt|discriminate|congruence].
Qed.

Lemma has_perms_no_panic ps pms c :
  forallb (perm_ok (List.length ps)) pms = true -> Forall (fun j => doc_ok j = true) ps ->
  has_perms pms ps c <> None.
Proof.
  intros Hp Hd. induction pms as [|pm r IH]; cbn; [discriminate|].
  cbn in Hp. apply Bool.andb_true_iff in Hp. destruct Hp as [Hpm Hr].
  assert (Hx : perm_allows pm ps c <> None).
  { destruct pm, c; cbn; try discriminate. cbn in Hpm. now apply all_changes_no_panic. }
  destruct (perm_allows pm ps c) as [[|]|]; [discriminate| |congruence]. now apply IH.
Qed.

(** ** stored documents stay well-shaped; the begin blocker cannot panic *)

Definition docs_ok (ps : list json) : Prop := Forall (fun j => doc_ok j = true) ps.

Lemma set_nth_length {A} i (v : A) l : List.length (set_nth i v l) = List.length l.
Proof. revert i. induction l as [|x r IH]; destruct i; cbn; auto. Qed.

Lemma set_nth_Forall {A} (P : A -> Prop) i v l : P v -> Forall P l -> Forall P (set_nth i v l).
Proof.
  intros Hv Hl. revert i. induction Hl as [|x r Hx Hr IH]; destruct i; cbn; constructor; auto.
Qed.

Lemma apply_slot_doc sl cur inc j : apply_slot sl cur inc = AOk j -> doc_ok j = true.
Proof.
  unfold apply_slot, apply_multi, apply_single. intros H.
  destruct (sl_multi sl).
  - destruct (dec_slice (sl_schema sl) cur); [|discriminate].
    destruct (dec_slice (sl_schema sl) inc) as [rs|]; [|discriminate].
    destruct (valid_multi (sl_vid sl) rs); [|discriminate]. inversion H; subst.
    destruct rs as [|r t]; [reflexivity|]. cbn. rewrite forallb_forall. intros x Hx.
    apply in_map_iff in Hx. destruct Hx as (y & <- & _). reflexivity.
  - destruct (dec_struct (sl_schema sl) (zero_rec (sl_schema sl)) cur); [|discriminate].
    destruct (dec_struct (sl_schema sl) j0 inc) as [r|]; [|discriminate].
    destruct (valid_single (sl_vid sl) r); [|discriminate]. inversion H; subst. reflexivity.
Qed.

Lemma run_changes_docs sls chs : forall ps ps' u, run_changes sls ps chs = Ok ps' u ->
  List.length ps' = List.length ps /\ (docs_ok ps -> docs_ok ps').
Proof.
  induction chs as [|[p v] r IH]; cbn; intros ps ps' u H.
  - inversion H; subst. auto.
  - destruct p as [i| |]; try discriminate.
    destruct (nth_error sls i) as [sl|]; [|discriminate].
    destruct (nth_error ps i) as [cur|]; [|discriminate].
    destruct v as [inc|]; [|discriminate].
    destruct (apply_slot sl cur inc) as [j| |] eqn:Ea; try discriminate.
    destruct (IH _ _ _ H) as [Hl Hd]. rewrite set_nth_length in Hl. split; [exact Hl|].
    intros Hok. apply Hd. apply set_nth_Forall; [eapply apply_slot_doc; eauto|exact Hok].
Qed.

Lemma run_handler_docs sls ht ps c ps' u : run_handler sls ht ps c = Ok ps' u ->
  List.length ps' = List.length ps /\ (docs_ok ps -> docs_ok ps').
Proof.
  destruct c; cbn; intros H; [inversion H; subst; auto|eapply run_changes_docs; eauto| |discriminate].
  destruct ((h <=? 0) || (h <? ht)); [discriminate|]. inversion H; subst; auto.
Qed.

Definition good (s : state) : Prop := perms_ok s /\ docs_ok (params s).

Lemma find_com_in s id c : find_com s id = Some c -> In c (coms s).
Proof. unfold find_com. intros H. apply find_some in H. tauto. Qed.

Lemma attempt_enact_no_panic sls s p : good s -> attempt_enact sls s p <> Panic.
Proof.
  intros [Hp Hd]. unfold attempt_enact.
  destruct (find_com s (p_com p)) as [c|] eqn:Ec; [|discriminate].
  pose proof (has_perms_no_panic (params s) (c_perms c) (p_content p) (Hp c (find_com_in _ _ _ Ec)) Hd) as Hx.
  destruct (has_perms (c_perms c) (params s) (p_content p)) as [[|]|]; [|discriminate|congruence].
  destruct (validate_pub sls (height s) (params s) (p_content p)) eqn:Ev; cbn; [|discriminate].
  destruct (validated_handler_ok _ _ _ _ Ev) as (ps' & ->). discriminate.
Qed.

Lemma attempt_enact_frame sls s p s0 oc : attempt_enact sls s p = Ok s0 oc ->
  coms s0 = coms s /\ props s0 = props s /\ votes s0 = votes s /\ next_id s0 = next_id s /\
  bals s0 = bals s /\ supply s0 = supply s /\ now s0 = now s /\
  List.length (params s0) = List.length (params s) /\ (docs_ok (params s) -> docs_ok (params s0)) /\
  (oc <> Passed -> params s0 = params s).
Proof.
  intros H. destruct (attempt_enact_spec _ _ _ _ _ H) as [[-> (c & ps & _ & _ & _ & Hr & ->)]|[-> ->]].
  - destruct (run_handler_docs _ _ _ _ _ _ Hr) as [Hl Hd]. cbn. repeat split; auto. congruence.
  - repeat split; auto.
Qed.

Lemma good_frame s s' : coms s' = coms s -> List.length (params s') = List.length (params s) ->
  (docs_ok (params s) -> docs_ok (params s')) -> good s -> good s'.
Proof.
  intros Hc Hl Hd [Hp Hdocs]. split; [|auto]. unfold perms_ok. rewrite Hc, Hl. exact Hp.
Qed.

Definition closes (s s1 : state) (pid : nat) : Prop :=
  props s1 = filter (fun p => negb (Nat.eqb (p_id p) pid)) (props s) /\
  votes s1 = filter (fun v => negb (Nat.eqb (v_pid v) pid)) (votes s).

(* the ProcessProposals callback, characterised *)
Lemma process_one_spec sls s p s1 oc : process_one sls s p = Ok s1 oc ->
  match find_com s (p_com p) with
  | None => oc = Some Failed /\ s1 = close s (p_id p)
  | Some c =>
      let passes := tally s c (p_id p) in
      let fptp := match c_tally c with FPTP => true | AtDeadline => false end in
      if (p_deadline p <=? now s) || (fptp && passes) then
        if passes then exists s0 x, attempt_enact sls s p = Ok s0 x /\ oc = Some x /\ s1 = close s0 (p_id p)
        else oc = Some Failed /\ s1 = close s (p_id p)
      else oc = None /\ s1 = s
  end.
Proof.
  unfold process_one. intros H.
  destruct (find_com s (p_com p)) as [c|]; [|inversion H; auto].
  cbv zeta. rewrite Z.leb_antisym.
  destruct (now s <? p_deadline p) eqn:Et; cbn [negb orb].
  - destruct (c_tally c); cbn [andb].
    + destruct (tally s c (p_id p)); [|inversion H; auto].
      destruct (attempt_enact sls s p) as [s0 x| |]; try discriminate. inversion H; subst. eauto.
    + inversion H; auto.
  - destruct (tally s c (p_id p)); [|inversion H; auto].
    destruct (attempt_enact sls s p) as [s0 x| |]; try discriminate. inversion H; subst. eauto.
Qed.

Lemma process_one_frame sls s p s1 oc : process_one sls s p = Ok s1 oc ->
  coms s1 = coms s /\ next_id s1 = next_id s /\ bals s1 = bals s /\ supply s1 = supply s /\ now s1 = now s /\
  List.length (params s1) = List.length (params s) /\ (docs_ok (params s) -> docs_ok (params s1)) /\
  (oc <> Some Passed -> params s1 = params s) /\
  match oc with
  | None => props s1 = props s /\ votes s1 = votes s
  | Some _ => closes s s1 (p_id p)
  end.
Proof.
  intros H. apply process_one_spec in H.
  destruct (find_com s (p_com p)) as [c|].
  - cbv zeta in H.
    destruct ((p_deadline p <=? now s) || _).
    + destruct (tally s c (p_id p)).
      * destruct H as (s0 & x & Ha & -> & ->).
        destruct (attempt_enact_frame _ _ _ _ _ Ha) as (E1 & E2 & E3 & E4 & E5 & E6 & E7 & E8 & E9 & E10).
        unfold closes. cbn. rewrite E2, E3. repeat split; auto. intros Hne. apply E10. congruence.
      * destruct H as [-> ->]. unfold closes. cbn. repeat split; auto.
    + destruct H as [-> ->]. repeat split; auto.
  - destruct H as [-> ->]. unfold closes. cbn. repeat split; auto.
Qed.

Lemma attempt_enact_not_err sls s p : attempt_enact sls s p <> Err.
Proof.
  unfold attempt_enact. destruct (find_com s (p_com p)); [|discriminate].
  destruct (has_perms _ _ _) as [[|]|]; try discriminate.
  destruct (negb _); [discriminate|]. destruct (run_handler _ _ _); discriminate.
Qed.

Lemma process_one_no_panic sls s p : good s -> process_one sls s p <> Panic.
Proof.
  intros Hg. unfold process_one.
  pose proof (attempt_enact_no_panic sls s p Hg) as Ha.
  pose proof (attempt_enact_not_err sls s p) as Hb.
  destruct (find_com s (p_com p)) as [c|]; [|discriminate].
  destruct (now s <? p_deadline p).
  - destruct (c_tally c); [|discriminate]. destruct (tally s c (p_id p)); [|discriminate].
    destruct (attempt_enact sls s p); [discriminate|congruence|congruence].
  - destruct (tally s c (p_id p)); [|discriminate].
    destruct (attempt_enact sls s p); [discriminate|congruence|congruence].
Qed.

Lemma process_one_not_err sls s p : process_one sls s p <> Err.
Proof.
  unfold process_one. destruct (find_com s (p_com p)); [|discriminate].
  destruct (now s <? p_deadline p).
  - destruct (c_tally c); [|discriminate]. destruct (tally s c (p_id p)); [|discriminate].
    destruct (attempt_enact sls s p); discriminate.
  - destruct (tally s c (p_id p)); [|discriminate]. destruct (attempt_enact sls s p); discriminate.
Qed.

Lemma process_all_not_err sls l : forall s, process_all sls s l <> Err.
Proof.
  induction l as [|p r IH]; cbn; intros s; [discriminate|].
  destruct (process_one sls s p) as [s1 oc| |]; try discriminate.
  destruct (process_all sls s1 r); discriminate.
Qed.

Lemma process_all_no_panic sls l : forall s, good s -> process_all sls s l <> Panic.
Proof.
  induction l as [|p r IH]; cbn; intros s Hg; [discriminate|].
  pose proof (process_one_no_panic sls s p Hg) as H1. pose proof (process_one_not_err sls s p) as H2.
  destruct (process_one sls s p) as [s1 oc| |] eqn:E; [|congruence|congruence].
  destruct (process_one_frame _ _ _ _ _ E) as (Ec & _ & _ & _ & _ & El & Ed & _).
  assert (Hg1 : good s1) by (eapply good_frame; eauto).
  specialize (IH s1 Hg1). pose proof (process_all_not_err sls r s1) as H3.
  destruct (process_all sls s1 r); [discriminate|congruence|congruence].
Qed.

Theorem begin_block_no_panic sls s t : good s -> step sls s (OBegin t) <> Panic.
Proof.
  intros Hg. cbn. destruct (t <? now s); [discriminate|].
  set (s0 := mkState _ _ _ _ _ _ _ t _ _).
  assert (Hg0 : good s0) by (apply (good_frame s s0); auto).
  pose proof (process_all_no_panic sls (props s0) s0 Hg0) as H.
  pose proof (process_all_not_err sls (props s0) s0) as H'. unfold process_proposals.
  change (props s) with (props s0).
  destruct (process_all sls s0 (props s0)); [discriminate|congruence|congruence].
Qed.

(** ** what a begin block may close, in terms of the state at the start of the block *)

Definition fptp_b (c : committee) : bool := match c_tally c with FPTP => true | AtDeadline => false end.

(* [ev_ok s0 p oc]: closing p with outcome oc is justified by the state s0 the block started from *)
Definition ev_ok (s0 : state) (p : proposal) (oc : poutcome) : Prop :=
  match find_com s0 (p_com p) with
  | None => oc = Failed
  | Some c =>
      ((p_deadline p <=? now s0) || (fptp_b c && tally s0 c (p_id p))) = true
      /\ (if tally s0 c (p_id p) then oc <> Failed else oc = Failed)
  end.

Lemma tally_frame s s' c pid :
  votes_of s' pid = votes_of s pid -> bals s' = bals s -> supply s' = supply s ->
  tally s' c pid = tally s c pid.
Proof.
  intros Hv Hb Hs. unfold tally, sum_votes, bal_of. now rewrite Hv, Hb, Hs.
Qed.

Lemma votes_of_closes s s1 pid q : closes s s1 pid -> q <> pid -> votes_of s1 q = votes_of s q.
Proof.
  intros [_ Hv] Hne. unfold votes_of. rewrite Hv. clear Hv. induction (votes s) as [|v r IH]; cbn; [reflexivity|].
  destruct (Nat.eqb_spec (v_pid v) pid) as [E|E]; cbn.
  - rewrite IH. destruct (Nat.eqb_spec (v_pid v) q); [congruence|reflexivity].
  - now rewrite IH.
Qed.

Definition same_frame (s0 si : state) : Prop :=
  coms si = coms s0 /\ bals si = bals s0 /\ supply si = supply s0 /\ now si = now s0.

Lemma process_all_events sls s0 l : forall si s' evs,
  process_all sls si l = Ok s' evs -> NoDup (map p_id l) -> same_frame s0 si ->
  (forall p, In p l -> votes_of si (p_id p) = votes_of s0 (p_id p)) ->
  forall pid oc, In (pid, oc) evs -> exists p, In p l /\ p_id p = pid /\ ev_ok s0 p oc.
Proof.
  induction l as [|p r IH]; cbn; intros si s' evs H Hnd Hf Hv pid oc Hin.
  - inversion H; subst. contradiction.
  - destruct (process_one sls si p) as [s1 o1| |] eqn:E1; try discriminate.
    destruct (process_all sls s1 r) as [s2 evs2| |] eqn:E2; try discriminate. inversion H; subst s' evs.
    inversion Hnd as [|? ? Hn Hr]; subst.
    destruct Hf as (Fc & Fb & Fs & Fn).
    destruct (process_one_frame _ _ _ _ _ E1) as (Gc & _ & Gb & Gs & Gn & _ & _ & _ & Gcl).
    assert (Hrest : forall pid oc, In (pid, oc) evs2 -> exists p0, In p0 r /\ p_id p0 = pid /\ ev_ok s0 p0 oc).
    { apply (IH s1 s2 evs2 E2 Hr).
      - unfold same_frame. rewrite Gc, Gb, Gs, Gn. auto.
      - intros q Hq. rewrite <- (Hv q (or_intror Hq)). destruct o1 as [x|].
        + apply (votes_of_closes si s1 (p_id p)); [exact Gcl|]. intros Eq. apply Hn. rewrite <- Eq. now apply in_map.
        + destruct Gcl as [_ Gv]. unfold votes_of. now rewrite Gv. }
    assert (Hhead : forall x, o1 = Some x -> ev_ok s0 p x).
    { intros x ->. apply process_one_spec in E1. unfold ev_ok, find_com in *. rewrite Fc in E1.
      destruct (find (fun c => Nat.eqb (c_id c) (p_com p)) (coms s0)) as [c|]; [|destruct E1; congruence].
      cbv zeta in E1. fold (fptp_b c) in E1.
      rewrite (tally_frame s0 si c (p_id p)) in E1; [|apply Hv; now left|exact Fb|exact Fs].
      rewrite Fn in E1.
      destruct ((p_deadline p <=? now s0) || (fptp_b c && tally s0 c (p_id p))); [|destruct E1; discriminate].
      split; [reflexivity|]. destruct (tally s0 c (p_id p)).
      - destruct E1 as (sx & y & Ha & Ey & _). inversion Ey; subst y.
        destruct (attempt_enact_spec _ _ _ _ _ Ha) as [[-> _]|[-> _]]; discriminate.
      - destruct E1 as [Ey _]. now inversion Ey. }
    destruct o1 as [x|].
    + destruct Hin as [Eq|Hin].
      * inversion Eq; subst. exists p. split; [now left|]. split; [reflexivity|]. now apply Hhead.
      * destruct (Hrest _ _ Hin) as (p0 & H0 & H1 & H2). exists p0. split; [now right|]. auto.
    + destruct (Hrest _ _ Hin) as (p0 & H0 & H1 & H2). exists p0. split; [now right|]. auto.
Qed.

(* Every proposal_close of a begin block is justified by the votes, balances,
   committees and time the block started with: a proposal is enacted (Passed) or
   found Invalid only on a passing tally, and only at/after its deadline or, for
   first-past-the-post committees, as soon as it passes. *)
Theorem begin_block_events sls s t s' evs :
  NoDup (map p_id (props s)) ->
  step sls s (OBegin t) = Ok s' (OutClosed evs) ->
  forall pid oc, In (pid, oc) evs ->
    exists p, In p (props s) /\ p_id p = pid /\
      ev_ok (mkState (params s) (coms s) (props s) (votes s) (next_id s) (bals s) (supply s) t (height s + 1) (plan s)) p oc.
Proof.
  intros Hnd H pid oc Hin. cbn in H. destruct (t <? now s); [discriminate|].
  unfold process_proposals in H. cbn [props] in H.
  set (s0 := mkState _ _ _ _ _ _ _ t _ _) in *.
  destruct (process_all sls s0 (props s)) as [s1 e1| |] eqn:E; try discriminate.
  inversion H; subst s' evs.
  eapply (process_all_events sls s0 (props s) s0 s1 e1 E); auto.
  unfold same_frame; auto.
Qed.

(* a stored proposal whose handler would fail NOW (the state moved under it, or
   its upgrade plan went stale) is found by the dry run: enactment answers
   Invalid and leaves the state untouched, whatever the permissions say *)
Lemma failing_handler_invalid sls s p c :
  find_com s (p_com p) = Some c ->
  has_perms (c_perms c) (params s) (p_content p) <> None ->
  (forall ps, run_handler sls (height s) (params s) (p_content p) <> Ok ps tt) ->
  attempt_enact sls s p = Ok s Invalid.
Proof.
  intros Hc Hp Hf. unfold attempt_enact. rewrite Hc.
  destruct (has_perms (c_perms c) (params s) (p_content p)) as [[|]|]; [|reflexivity|congruence].
  destruct (validate_pub sls (height s) (params s) (p_content p)) eqn:Ev; [|reflexivity].
  destruct (validated_handler_ok _ _ _ _ Ev) as (ps & Hps). exfalso. exact (Hf ps Hps).
Qed.
