(* Lemmas about the distribution of the kavadist infrastructure coins
   (Model/Emissions.v: send_kd, pay_partners, pay_cores, distribute) and about
   the elapsed time mintInfrastructurePeriods hands over (infra_elapsed). *)
From Kava Require Import Base.Prelude Base.Dec Model.Emissions.
Local Open Scope Z_scope.

Lemma NS_pos : 0 < NS. Proof. reflexivity. Qed.

Lemma unix_mono a b : a <= b -> unix a <= unix b.
Proof. intros Hab. unfold unix. apply Z.div_le_mono; [apply NS_pos|exact Hab]. Qed.

(** * what a transfer out of the kavadist account leaves alone *)

Definition frame (s s' : state) : Prop :=
  sr_last s' = sr_last s /\ sr_err s' = sr_err s /\ c_rate s' = c_rate s /\ c_upg s' = c_upg s /\
  c_upg_rate s' = c_upg_rate s /\ sink s' = sink s /\ supply s' = supply s /\
  m_min s' = m_min s /\ m_max s' = m_max s /\ d_tax s' = d_tax s /\
  kd_active s' = kd_active s /\ kd_prev s' = kd_prev s /\ kd_periods s' = kd_periods s /\
  kd_infra s' = kd_infra s /\ kd_partners s' = kd_partners s /\ kd_cores s' = kd_cores s /\
  length (users s') = length (users s).

Lemma frame_refl s : frame s s.
Proof. unfold frame. repeat split. Qed.

Lemma frame_trans s1 s2 s3 : frame s1 s2 -> frame s2 s3 -> frame s1 s3.
Proof. unfold frame. intros H1 H2. decompose [and] H1. decompose [and] H2. repeat split; congruence. Qed.

(* sums of a payment list by kind of recipient *)
Definition to_users (l : list payment) : Z :=
  zsum (map (fun p => match pay_to p with RUser _ => pay_amt p | _ => 0 end) l).
Definition to_kd (l : list payment) : Z :=
  zsum (map (fun p => match pay_to p with RKavadist => pay_amt p | _ => 0 end) l).
Definition deliverable (r : recipient) (n : nat) : Prop :=
  match r with RBlocked => False | RUser i => Nat.lt i n | RKavadist => True | RCommunity => True end.

Lemma amounts_cons p l : amounts (p :: l) = pay_amt p + amounts l.
Proof. reflexivity. Qed.
Lemma to_pool_cons p l : to_pool (p :: l) = (match pay_to p with RCommunity => pay_amt p | _ => 0 end) + to_pool l.
Proof. reflexivity. Qed.
Lemma to_users_cons p l : to_users (p :: l) = (match pay_to p with RUser _ => pay_amt p | _ => 0 end) + to_users l.
Proof. reflexivity. Qed.
Lemma to_kd_cons p l : to_kd (p :: l) = (match pay_to p with RKavadist => pay_amt p | _ => 0 end) + to_kd l.
Proof. reflexivity. Qed.

Lemma zsum_cons a l : zsum (a :: l) = a + zsum l.
Proof. reflexivity. Qed.

Lemma zsum_set_nth : forall l i v, (i < length l)%nat -> zsum (set_nth l i v) = zsum l - nth i l 0 + v.
Proof.
  induction l as [|x l IH]; intros i v Hi; cbn [length] in Hi; [lia|].
  destruct i as [|k]; cbn [set_nth nth]; rewrite !zsum_cons.
  - lia.
  - rewrite IH by lia. lia.
Qed.

Lemma length_set_nth : forall l i v, length (set_nth l i v) = length l.
Proof.
  induction l as [|x l IH]; intros i v; [reflexivity|].
  destruct i; cbn [set_nth length]; [reflexivity|]. rewrite IH. reflexivity.
Qed.

(* one transfer: who gets what, and nothing else moves *)
Lemma send_kd_facts s to a s' : send_kd s to a = Some s' ->
  frame s s' /\ a <= kdbal s /\ deliverable to (length (users s)) /\
  pool s' = pool s + (match to with RCommunity => a | _ => 0 end) /\
  kdbal s' = kdbal s - (match to with RKavadist => 0 | _ => a end) /\
  zsum (users s') = zsum (users s) + (match to with RUser _ => a | _ => 0 end).
Proof.
  unfold send_kd. destruct to as [i| | |].
  - destruct (Z.ltb_spec (kdbal s) a) as [L|L]; [discriminate|].
    destruct (Nat.ltb_spec i (length (users s))) as [Hi|Hi]; [|discriminate].
    intros H; inversion H; subst; clear H. unfold frame.
    cbn [sr_last sr_err c_rate c_upg c_upg_rate pool sink kdbal supply m_min m_max d_tax kd_active kd_prev
         kd_periods kd_infra kd_partners kd_cores users set_bank set_users deliverable].
    rewrite length_set_nth, zsum_set_nth by exact Hi. repeat split; try lia.
  - destruct (Z.ltb_spec (kdbal s) a) as [L|L]; [discriminate|].
    intros H; inversion H; subst; clear H. split; [apply frame_refl|]. cbn [deliverable]. repeat split; lia.
  - destruct (Z.ltb_spec (kdbal s) a) as [L|L]; [discriminate|].
    intros H; inversion H; subst; clear H. unfold frame, zsum. cbn. repeat split; lia.
  - discriminate.
Qed.

Lemma send_kd_some s to a : a <= kdbal s -> deliverable to (length (users s)) -> exists s', send_kd s to a = Some s'.
Proof.
  intros L D. unfold send_kd. destruct to as [i| | |]; cbn [deliverable] in D; try contradiction;
    destruct (Z.ltb_spec (kdbal s) a); try lia; try (eexists; reflexivity).
  destruct (Nat.ltb_spec i (length (users s))); [eexists; reflexivity|lia].
Qed.

(** * the two loops *)

(* what is true of the result of either loop, for a list of payments [pays]
   made out of [left] coins from state [s] *)
Definition loop_ok (s : state) (left : Z) (l : Z) (s' : state) (pays : list payment) : Prop :=
  frame s s' /\
  Forall (fun p => 0 <= pay_amt p /\ deliverable (pay_to p) (length (users s))) pays /\
  left = amounts pays + l /\
  pool s' = pool s + to_pool pays /\
  kdbal s' = kdbal s - (amounts pays - to_kd pays) /\
  zsum (users s') = zsum (users s) + to_users pays /\
  (0 <= left -> 0 <= l) /\
  (left <= kdbal s -> l <= kdbal s').

Lemma loop_ok_nil s left : loop_ok s left left s [].
Proof.
  unfold loop_ok, amounts, to_pool, to_kd, to_users. cbn. repeat split; try apply frame_refl; try constructor; lia.
Qed.

Lemma loop_ok_step s left a to s1 l s2 pays :
  0 <= a -> a <= left -> send_kd s to a = Some s1 -> loop_ok s1 (left - a) l s2 pays ->
  loop_ok s left l s2 (mkPayment to a :: pays).
Proof.
  intros Ha Hl HS (F & A & B & C & D & E & G & K).
  destruct (send_kd_facts _ _ _ _ HS) as (F1 & S1 & S2 & S3 & S4 & S5).
  assert (Len : length (users s1) = length (users s)) by apply F1.
  unfold loop_ok. rewrite amounts_cons, to_pool_cons, to_kd_cons, to_users_cons. cbn [pay_to pay_amt].
  split; [eapply frame_trans; eassumption|].
  split; [constructor; [cbn [pay_to pay_amt]; split; assumption|rewrite <- Len; exact A]|].
  destruct to; repeat split; try lia.
Qed.

Fixpoint partner_sched (te : Z) (ps : list partner) : list Z :=
  match ps with [] => [] | p :: r => pr_rate p * te :: partner_sched te r end.

Lemma pay_partners_facts te : forall ps left s l s' pays,
  pay_partners te ps left s = Some (l, s', pays) ->
  loop_ok s left l s' pays /\
  map pay_to pays = map pr_to ps /\ map pay_amt pays = partner_sched te ps.
Proof.
  induction ps as [|p r IH]; intros left s l s' pays H; cbn [pay_partners] in H.
  - inversion H; subst. split; [apply loop_ok_nil|split; reflexivity].
  - cbv zeta in H. destruct (Z.ltb_spec (pr_rate p * te) 0) as [N|N]; [discriminate|].
    destruct (send_kd s (pr_to p) (pr_rate p * te)) as [s1|] eqn:HS; [|discriminate].
    destruct (Z.ltb_spec left (pr_rate p * te)) as [L|L]; [discriminate|].
    destruct (pay_partners te r (left - pr_rate p * te) s1) as [[[l2 s2] pays2]|] eqn:R; [|discriminate].
    inversion H; subst; clear H.
    destruct (IH _ _ _ _ _ R) as (A & B & C).
    split; [eapply loop_ok_step; eassumption|].
    cbn [map pay_to pay_amt partner_sched]. split; congruence.
Qed.

Fixpoint core_sched (cs : list core) (left : Z) : list Z :=
  match cs with
  | [] => []
  | c :: r => let a := core_amount left (cr_weight c) in a :: core_sched r (left - a)
  end.

Lemma pay_cores_facts : forall cs left s l s' pays,
  pay_cores cs left s = Some (l, s', pays) ->
  loop_ok s left l s' pays /\
  map pay_to pays = map cr_to cs /\ map pay_amt pays = core_sched cs left.
Proof.
  induction cs as [|c r IH]; intros left s l s' pays H; cbn [pay_cores] in H.
  - inversion H; subst. split; [apply loop_ok_nil|split; reflexivity].
  - cbv zeta in H. set (a := core_amount left (cr_weight c)) in *.
    destruct (Z.ltb_spec a 0) as [N|N]; [discriminate|].
    destruct (send_kd s (cr_to c) a) as [s1|] eqn:HS; [|discriminate].
    destruct (Z.ltb_spec left a) as [L|L]; [discriminate|].
    destruct (pay_cores r (left - a) s1) as [[[l2 s2] pays2]|] eqn:R; [|discriminate].
    inversion H; subst; clear H.
    destruct (IH _ _ _ _ _ R) as (A & B & C).
    split; [eapply loop_ok_step; eassumption|].
    cbn [map pay_to pay_amt core_sched]. cbv zeta. fold a. split; congruence.
Qed.

(* a core reward is the banker's rounding of weight x what is left: within
   half a coin of the exact share, and within [0, left] for a weight in [0,1] *)
Lemma core_amount_exact left w : 2 * (left * w) - PREC <= 2 * (core_amount left w * PREC) <= 2 * (left * w) + PREC.
Proof.
  unfold core_amount, dec_round_int, dec_mul, dec_of_int.
  assert (E : chop_round (left * PREC * w) = left * w).
  { replace (left * PREC * w) with ((left * w) * PREC) by ring.
    destruct (Z.le_gt_cases 0 (left * w)) as [P|P]; [apply chop_round_exact; exact P|].
    unfold chop_round. destruct (Z.ltb_spec (left * w * PREC) 0) as [_|Q]; [|unfold PREC in *; lia].
    replace (- (left * w * PREC)) with ((- (left * w)) * PREC) by ring.
    unfold chop_round_pos. rewrite Z.mod_mul by (unfold PREC; lia). cbn [Z.eqb].
    rewrite Z.div_mul by (unfold PREC; lia). lia. }
  rewrite E. apply chop_round_bounds.
Qed.

Lemma core_amount_range left w : 0 <= left -> 0 <= w <= PREC -> 0 <= core_amount left w <= left.
Proof.
  intros Hl Hw. unfold core_amount, dec_round_int, dec_mul, dec_of_int.
  replace (left * PREC * w) with ((left * w) * PREC) by ring.
  rewrite chop_round_exact by nia. split; [apply chop_round_nonneg; nia|].
  rewrite <- (chop_round_exact left Hl) at 2. apply chop_round_mono_nonneg. nia.
Qed.

(** * distributeInfrastructureCoins *)

Definition dist_to_users (d : drec) : Z := to_users (d_partner d) + to_users (d_core d).
Definition dist_to_kd (d : drec) : Z := to_kd (d_partner d) + to_kd (d_core d).
Definition dist_paid (d : drec) : Z := amounts (d_partner d) + amounts (d_core d).

(* conservation: every coin handed to the distribution is paid to a partner,
   paid to a core recipient, or left over (and then it simply stays in the
   kavadist module account); nothing is paid that was not handed over; the
   partner payments are rate x elapsed, in list order, the core payments the
   rounded weight of what is left at that point *)
Definition dist_good (s s' : state) (d : drec) : Prop :=
  frame s s' /\
  d_coins d = amounts (d_partner d) + amounts (d_core d) + d_rem d /\
  (0 <= d_coins d -> 0 <= d_rem d) /\
  Forall (fun p => 0 <= pay_amt p /\ deliverable (pay_to p) (length (users s))) (d_partner d ++ d_core d) /\
  pool s' = pool s + dist_to_pool d /\
  kdbal s' = kdbal s - (dist_paid d - dist_to_kd d) /\
  zsum (users s') = zsum (users s) + dist_to_users d /\
  (0 <= d_coins d <= kdbal s -> 0 <= kdbal s') /\
  ((d_te d = 0 \/ d_coins d = 0) -> d_partner d = [] /\ d_core d = [] /\ s' = s) /\
  ((d_te d <> 0 /\ d_coins d <> 0) ->
     map pay_to (d_partner d) = map pr_to (kd_partners s) /\
     map pay_amt (d_partner d) = partner_sched (d_te d) (kd_partners s) /\
     map pay_to (d_core d) = map cr_to (kd_cores s) /\
     map pay_amt (d_core d) = core_sched (kd_cores s) (d_coins d - amounts (d_partner d))).

Lemma distribute_facts te coins s s' d : distribute te coins s = Some (s', d) ->
  d_te d = te /\ d_coins d = coins /\ dist_good s s' d.
Proof.
  unfold distribute.
  destruct (Z.eqb_spec te 0) as [T|T]; [|destruct (Z.eqb_spec coins 0) as [C|C]]; cbn [orb].
  1,2: intros H; inversion H; subst; clear H; cbn [d_te d_coins];
       split; [reflexivity|split; [reflexivity|]];
       unfold dist_good, dist_to_pool, dist_to_users, dist_to_kd, dist_paid, amounts, to_pool, to_users, to_kd;
       cbn [d_te d_coins d_partner d_core d_rem map zsum fold_right app];
       repeat split; try apply frame_refl; try constructor; try lia; intros (A & B); contradiction.
  destruct (pay_partners te (kd_partners s) coins s) as [[[l1 s1] pp]|] eqn:P; [|discriminate].
  destruct (pay_cores (kd_cores s) l1 s1) as [[[l2 s2] cp]|] eqn:Q; [|discriminate].
  intros H; inversion H; subst; clear H. cbn [d_te d_coins].
  split; [reflexivity|split; [reflexivity|]].
  destruct (pay_partners_facts _ _ _ _ _ _ _ P) as ((F1 & A1 & B1 & C1 & D1 & E1 & G1 & K1) & M1 & N1).
  destruct (pay_cores_facts _ _ _ _ _ _ Q) as ((F2 & A2 & B2 & C2 & D2 & E2 & G2 & K2) & M2 & N2).
  assert (Len : length (users s1) = length (users s)) by apply F1.
  assert (KC : kd_cores s1 = kd_cores s) by apply F1.
  unfold dist_good, dist_to_pool, dist_to_users, dist_to_kd, dist_paid. cbn [d_te d_coins d_partner d_core d_rem].
  split; [eapply frame_trans; eassumption|].
  split; [lia|]. split; [lia|].
  split; [apply Forall_app; split; [exact A1|rewrite <- Len; exact A2]|].
  split; [lia|]. split; [lia|]. split; [lia|]. split; [lia|].
  split; [intros [X|X]; contradiction|].
  intros _. repeat split; try assumption. rewrite N2. f_equal. lia.
Qed.

Lemma dist_good_no_dist s : dist_good s s no_dist.
Proof.
  unfold dist_good, no_dist, dist_to_pool, dist_to_users, dist_to_kd, dist_paid, amounts, to_pool, to_users, to_kd.
  cbn [d_te d_coins d_partner d_core d_rem map zsum fold_right app].
  repeat split; try apply frame_refl; try constructor; try lia.
Qed.

(* total paid out never exceeds what was handed over *)
Lemma dist_good_bound s s' d : dist_good s s' d -> 0 <= d_coins d ->
  0 <= amounts (d_partner d) /\ 0 <= amounts (d_core d) /\ dist_paid d <= d_coins d.
Proof.
  intros (_ & A & B & C & _) H. apply Forall_app in C. destruct C as (C1 & C2).
  assert (NN : forall l, Forall (fun p => 0 <= pay_amt p /\ deliverable (pay_to p) (length (users s))) l -> 0 <= amounts l).
  { induction 1 as [|p l (Hp & _) _ IH]; [unfold amounts; cbn; lia|rewrite amounts_cons; lia]. }
  pose proof (NN _ C1). pose proof (NN _ C2). specialize (B H). unfold dist_paid. lia.
Qed.

Lemma to_pool_nonneg n l : Forall (fun p => 0 <= pay_amt p /\ deliverable (pay_to p) n) l -> 0 <= to_pool l.
Proof.
  induction 1 as [|p l (Hp & _) _ IH]; [unfold to_pool; cbn; lia|]. rewrite to_pool_cons. destruct (pay_to p); lia.
Qed.

Lemma dist_to_pool_nonneg s s' d : dist_good s s' d -> 0 <= dist_to_pool d.
Proof.
  intros (_ & _ & _ & C & _). apply Forall_app in C. destruct C as (C1 & C2).
  pose proof (to_pool_nonneg _ _ C1). pose proof (to_pool_nonneg _ _ C2). unfold dist_to_pool. lia.
Qed.

Lemma zsum_partner_sched te ps : zsum (partner_sched te ps) = te * zsum (map pr_rate ps).
Proof. induction ps as [|p r IH]; cbn [partner_sched map]; rewrite ?zsum_cons; [unfold zsum; cbn; lia|]. rewrite IH. ring. Qed.

(* what the code does with a shortfall: when the partner rewards for the
   elapsed time exceed the coins minted, the distribution fails (and the begin
   blocker panics) -- it never pays more than it was handed *)
Lemma distribute_shortfall te coins s :
  te <> 0 -> coins <> 0 -> 0 <= coins -> coins < te * zsum (map pr_rate (kd_partners s)) ->
  distribute te coins s = None.
Proof.
  intros T C P S. destruct (distribute te coins s) as [[s' d]|] eqn:D; [|reflexivity]. exfalso.
  destruct (distribute_facts _ _ _ _ _ D) as (E1 & E2 & G).
  destruct (dist_good_bound _ _ _ G ltac:(lia)) as (B1 & B2 & B3).
  destruct G as (_ & _ & _ & _ & _ & _ & _ & _ & _ & G9).
  destruct (G9 ltac:(lia)) as (_ & N & _).
  unfold dist_paid, amounts in *. rewrite N, zsum_partner_sched in *. lia.
Qed.

(* sufficient for success: every named address can be paid, rates are not
   negative, the partner rewards for the elapsed time are covered by the coins
   minted, the weights lie in [0,1], and the module account holds at least the
   coins it has just minted *)
Definition recipients_ok (s : state) : Prop :=
  Forall (fun p => deliverable (pr_to p) (length (users s)) /\ 0 <= pr_rate p) (kd_partners s) /\
  Forall (fun c => deliverable (cr_to c) (length (users s)) /\ 0 <= cr_weight c <= PREC) (kd_cores s).

Lemma pay_partners_some te : forall ps left s,
  0 <= te -> Forall (fun p => deliverable (pr_to p) (length (users s)) /\ 0 <= pr_rate p) ps ->
  te * zsum (map pr_rate ps) <= left -> left <= kdbal s ->
  exists l s' pays, pay_partners te ps left s = Some (l, s', pays).
Proof.
  induction ps as [|p r IH]; intros left s T F S K; cbn [pay_partners].
  - do 3 eexists; reflexivity.
  - inversion F as [|? ? (D & R) F']; subst. cbn [map] in S. rewrite zsum_cons in S. cbv zeta.
    assert (0 <= zsum (map pr_rate r)).
    { clear -F'. induction F' as [|q l (_ & Hq) _ IH]; cbn [map]; rewrite ?zsum_cons; [unfold zsum; cbn; lia|lia]. }
    destruct (Z.ltb_spec (pr_rate p * te) 0); [nia|].
    destruct (send_kd_some s (pr_to p) (pr_rate p * te) ltac:(nia) D) as (s1 & HS). rewrite HS.
    destruct (Z.ltb_spec left (pr_rate p * te)); [nia|].
    destruct (send_kd_facts _ _ _ _ HS) as (F1 & _ & _ & _ & S4 & _).
    assert (Len : length (users s1) = length (users s)) by apply F1.
    destruct (IH (left - pr_rate p * te) s1 T) as (l & s2 & pays & E).
    + rewrite Len. exact F'.
    + nia.
    + destruct (pr_to p); lia.
    + rewrite E. do 3 eexists; reflexivity.
Qed.

Lemma pay_cores_some : forall cs left s,
  Forall (fun c => deliverable (cr_to c) (length (users s)) /\ 0 <= cr_weight c <= PREC) cs ->
  0 <= left -> left <= kdbal s ->
  exists l s' pays, pay_cores cs left s = Some (l, s', pays).
Proof.
  induction cs as [|c r IH]; intros left s F L K; cbn [pay_cores].
  - do 3 eexists; reflexivity.
  - inversion F as [|? ? (D & W) F']; subst. cbv zeta.
    pose proof (core_amount_range left (cr_weight c) L W) as R.
    set (a := core_amount left (cr_weight c)) in *.
    destruct (Z.ltb_spec a 0); [lia|].
    destruct (send_kd_some s (cr_to c) a ltac:(lia) D) as (s1 & HS). rewrite HS.
    destruct (Z.ltb_spec left a); [lia|].
    destruct (send_kd_facts _ _ _ _ HS) as (F1 & _ & _ & _ & S4 & _).
    assert (Len : length (users s1) = length (users s)) by apply F1.
    destruct (IH (left - a) s1) as (l & s2 & pays & E).
    + rewrite Len. exact F'.
    + lia.
    + destruct (cr_to c); lia.
    + rewrite E. do 3 eexists; reflexivity.
Qed.

Lemma distribute_some te coins s :
  recipients_ok s -> 0 <= te -> 0 <= coins -> coins <= kdbal s ->
  te * zsum (map pr_rate (kd_partners s)) <= coins ->
  exists s' d, distribute te coins s = Some (s', d).
Proof.
  intros (RP & RC) T C K S. unfold distribute.
  destruct ((te =? 0) || (coins =? 0)); [do 2 eexists; reflexivity|].
  destruct (pay_partners_some te (kd_partners s) coins s T RP S K) as (l1 & s1 & pp & E1). rewrite E1.
  destruct (pay_partners_facts _ _ _ _ _ _ _ E1) as ((F1 & _ & _ & _ & _ & _ & G1 & K1) & _).
  assert (Len : length (users s1) = length (users s)) by apply F1.
  assert (KC : kd_cores s1 = kd_cores s) by apply F1.
  destruct (pay_cores_some (kd_cores s) l1 s1) as (l2 & s2 & cp & E2).
  - rewrite Len. exact RC.
  - auto.
  - auto.
  - rewrite E2. do 2 eexists; reflexivity.
Qed.

(** * the elapsed time *)

(* periods that all start after the block time add nothing *)
Lemma infra_elapsed_future now : forall ps prev te,
  prev <= now -> Forall (fun p => now < p_start p /\ p_start p <= p_end p) ps ->
  infra_elapsed now ps prev te = te.
Proof.
  induction ps as [|p r IH]; intros prev te PN F; cbn [infra_elapsed]; [reflexivity|].
  inversion F as [|? ? (A & B) F']; subst.
  destruct (Z.ltb_spec (p_end p) prev); [lia|].
  unfold kd_case2, kd_case3.
  destruct (Z.ltb_spec prev (p_end p)); destruct (Z.leb_spec (p_end p) now); cbn [andb]; try lia;
    (destruct (Z.leb_spec (p_start p) prev); [lia|]); cbn [andb]; apply IH; assumption.
Qed.

Lemma periods_valid_future now : forall ps e, now < e -> periods_valid e ps ->
  Forall (fun p => now < p_start p /\ p_start p <= p_end p) ps.
Proof.
  induction ps as [|p r IH]; intros e L V; [constructor|].
  cbn [periods_valid] in V. destruct V as (A & B & _ & D).
  constructor; [lia|]. apply (IH (p_end p)); [lia|exact D].
Qed.

(* for a chronological period list (as validatePeriodsParams demands), the
   elapsed time handed over is never negative and never more than the whole
   seconds between the previous block and this one *)
Lemma infra_elapsed_bounds now prev0 : forall ps e prev te,
  periods_valid e ps ->
  prev0 <= prev -> prev <= now -> 0 <= te <= unix prev - unix prev0 ->
  0 <= infra_elapsed now ps prev te <= unix now - unix prev0.
Proof.
  induction ps as [|p r IH]; intros e prev te V P0 PN T; cbn [infra_elapsed].
  - pose proof (unix_mono prev now PN). lia.
  - cbn [periods_valid] in V. destruct V as (SE & _ & _ & V').
    pose proof (unix_mono prev0 prev P0) as M0. pose proof (unix_mono prev now PN) as M1.
    destruct (p_end p <? prev); [eapply IH; eassumption|].
    unfold kd_case2, kd_case3.
    destruct (Z.ltb_spec prev (p_end p)) as [C2a|C2a]; destruct (Z.leb_spec (p_end p) now) as [C2b|C2b]; cbn [andb].
    + eapply IH; try eassumption; try lia.
      pose proof (unix_mono (Z.max prev (p_start p)) (p_end p) ltac:(lia)).
      pose proof (unix_mono prev (Z.max prev (p_start p)) ltac:(lia)). lia.
    + destruct (Z.leb_spec (p_start p) prev) as [C3a|C3a]; destruct (Z.ltb_spec now (p_end p)) as [C3b|C3b]; cbn [andb];
        try (eapply IH; eassumption).
      rewrite infra_elapsed_future; [lia|exact PN|].
      apply (periods_valid_future now r (p_end p)); assumption.
    + destruct ((p_start p <=? prev) && (now <? p_end p)) eqn:C3; [|eapply IH; eassumption].
      apply andb_true_iff in C3. destruct C3 as (_ & C3). apply Z.ltb_lt in C3. lia.
    + destruct ((p_start p <=? prev) && (now <? p_end p)) eqn:C3; [|eapply IH; eassumption].
      apply andb_true_iff in C3. destruct C3 as (_ & C3). apply Z.ltb_lt in C3. lia.
Qed.

Lemma infra_elapsed_nonneg now : forall ps prev te,
  Forall (fun p => p_start p <= p_end p) ps -> prev <= now -> 0 <= te -> 0 <= infra_elapsed now ps prev te.
Proof.
  induction ps as [|p r IH]; intros prev te V PN T; cbn [infra_elapsed]; [exact T|].
  inversion V as [|? ? SE V']; subst.
  destruct (p_end p <? prev); [apply IH; assumption|].
  unfold kd_case2, kd_case3.
  destruct (Z.ltb_spec prev (p_end p)) as [C2a|C2a]; destruct (Z.leb_spec (p_end p) now) as [C2b|C2b]; cbn [andb].
  - apply IH; try assumption. pose proof (unix_mono (Z.max prev (p_start p)) (p_end p) ltac:(lia)). lia.
  - destruct ((p_start p <=? prev) && (now <? p_end p)); apply IH; try assumption.
    pose proof (unix_mono prev now PN). lia.
  - destruct ((p_start p <=? prev) && (now <? p_end p)); apply IH; try assumption.
    pose proof (unix_mono prev now PN). lia.
  - destruct ((p_start p <=? prev) && (now <? p_end p)); apply IH; try assumption.
    pose proof (unix_mono prev now PN). lia.
Qed.
