(* C02 instance for x/cdp, part 2: the cdp begin blocker completes (returns Ok) from every state
   that satisfies Inv4 (Proofs/WorldCdpInv.v), and re-establishes Inv4.  Layer by layer:
   RunSurplusAndDebtAuctions, SynchronizeInterestForRiskyCDPs, SeizeCollateral (debt and deposit
   transfers, AuctionCollateral / CreateAuctionsFromDeposit / StartCollateralAuction), LiquidateCdps,
   the per-collateral loop and the whole BeginBlocker. *)
From Kava Require Import Base.Prelude Base.Dec Model.Cdp Proofs.CdpRatio Proofs.Cdp Proofs.CdpInv Proofs.CdpInv2
  Proofs.CdpInv3 Proofs.CdpCust Proofs.CdpOwn Proofs.WorldCdpInv.
Local Open Scope Z_scope.

(** * environment hypotheses *)
(* [env_wf]    the stable and the debt denom are not collateral denoms (deployment configuration);
   [params_ok] KeeperRewardPercentage >= 0          (validateCollateralParams);
   AuctionSize > 0, StabilityFee >= 1               (validateCollateralParams);
   DebtAuctionLot <= DebtAuctionThreshold           (NOT enforced by Params.Validate: see
                                                     cdp_begin_block_refuted_params in WorldCdp.v). *)
Definition env_ok (e : env) : Prop :=
  env_wf e /\ params_ok e /\
  (forall t cp, get_cp e t = Some cp -> 0 < cp_asize cp /\ PREC <= cp_fee cp) /\
  debt_lot e <= debt_thr e.

(** * generic *)
Lemma ofold_ok {A} (P : state -> Prop) (f : state -> A -> outcome state unit) (l : list A) :
  (forall s x, In x l -> P s -> exists s', f s x = Ok s' tt /\ P s') ->
  forall s, P s -> exists s', ofold f s l = Ok s' tt /\ P s'.
Proof.
  induction l as [|x r IH]; intros Hf s HP; cbn [ofold].
  - exists s. auto.
  - destruct (Hf s x (or_introl eq_refl) HP) as (s1 & E & HP1). rewrite E.
    apply IH; [|exact HP1]. intros s0 y Hy. apply Hf. right. exact Hy.
Qed.

Lemma b_send_ok s f t d x : x <= bal s f d -> exists s', b_send s f t d x = Some s'.
Proof.
  intros H. unfold b_send. destruct (x <=? 0); [eauto|]. destruct (Z.ltb_spec (bal s f d) x); [lia|eauto].
Qed.

Lemma b_burn_ok s m d x : x <= bal s m d -> exists s', b_burn s m d x = Some s'.
Proof.
  intros H. unfold b_burn. destruct (x <=? 0); [eauto|]. destruct (Z.ltb_spec (bal s m d) x); [lia|eauto].
Qed.

(** * RunSurplusAndDebtAuctions *)
Lemma run_auctions_ok e s :
  debt_lot e <= debt_thr e -> BalNN s ->
  exists s', run_auctions e s = Ok s' tt /\ BalNN s' /\ bank_only s s'.
Proof.
  intros Hlot HB. unfold run_auctions.
  set (net := Z.min _ _).
  assert (S1 : exists s2, (if net =? 0 then Some s
         else match b_burn s (LIQM e) (d_debt e) net with
              | None => None
              | Some s1 => b_burn s1 (LIQM e) (d_usdx e) (Z.min (bal s1 (LIQM e) (d_usdx e)) net)
              end) = Some s2 /\ BalNN s2 /\ bank_only s s2).
  { destruct (net =? 0); [exists s; split; [reflexivity|split; [exact HB|apply bank_only_refl]]|].
    destruct (b_burn_ok s (LIQM e) (d_debt e) net ltac:(unfold net; lia)) as (s1 & E1). rewrite E1.
    destruct (b_burn_ok s1 (LIQM e) (d_usdx e) (Z.min (bal s1 (LIQM e) (d_usdx e)) net) ltac:(lia)) as (s2 & E2).
    rewrite E2. exists s2. split; [reflexivity|split].
    - eapply b_burn_nn; [|exact E2]. eapply b_burn_nn; eassumption.
    - eapply bank_only_trans; eapply b_burn_frame; eassumption. }
  destruct S1 as (s2 & -> & HB2 & F2).
  assert (S2 : exists s4, (if debt_thr e <=? bal s2 (LIQM e) (d_debt e)
             then match b_send s2 (LIQM e) (AUCM e) (d_debt e) (debt_lot e) with
                  | None => None
                  | Some s3 => Some (set_aucs s3 (aucs s3 ++ [mkAuc 1 (d_gov e) (debt_lot e * 100) (debt_lot e) (debt_lot e) 0]))
                  end
             else Some s2) = Some s4 /\ BalNN s4 /\ bank_only s2 s4).
  { destruct (Z.leb_spec (debt_thr e) (bal s2 (LIQM e) (d_debt e))).
    - destruct (b_send_ok s2 (LIQM e) (AUCM e) (d_debt e) (debt_lot e) ltac:(lia)) as (s3 & E3). rewrite E3.
      eexists. split; [reflexivity|split].
      + apply (BalNN_eq s3); [reflexivity|]. eapply b_send_nn; eassumption.
      + eapply bank_only_trans; [eapply b_send_frame; eassumption|apply set_aucs_frame].
    - exists s2. split; [reflexivity|split; [exact HB2|apply bank_only_refl]]. }
  destruct S2 as (s4 & -> & HB4 & F4).
  destruct (bal s4 (LIQM e) (d_usdx e) <? sur_thr e).
  - exists s4. split; [reflexivity|split; [exact HB4|eapply bank_only_trans; eassumption]].
  - destruct (b_send_ok s4 (LIQM e) (AUCM e) (d_usdx e) (Z.min (sur_lot e) (bal s4 (LIQM e) (d_usdx e))) ltac:(lia)) as (s5 & E5).
    rewrite E5. eexists. split; [reflexivity|split].
    + apply (BalNN_eq s5); [reflexivity|]. eapply b_send_nn; eassumption.
    + eapply bank_only_trans; [exact F2|]. eapply bank_only_trans; [exact F4|].
      eapply bank_only_trans; [eapply b_send_frame; eassumption|apply set_aucs_frame].
Qed.

(** * SynchronizeInterestForRiskyCDPs *)
Lemma sync_risky_one_ok e cp t gf prev s id c :
  Inv4 e s -> get_cp e t = Some cp -> ifac s t = Some gf -> cdps s t id = Some c ->
  exists s', sync_risky_one e cp t gf prev s id = Ok s' tt /\ Inv4 e s' /\ ifac s' = ifac s /\ ptime s' = ptime s /\
    (forall id', cdps s t id' <> None -> cdps s' t id' <> None).
Proof.
  intros H4 Hcp Hgf Hst. pose proof H4 as ((HI & HC & HO) & HB & HD & HF).
  destruct (sync_risky_one e cp t gf prev s id) as [s' []| |] eqn:E.
  2,3: unfold sync_risky_one in E; rewrite Hst in E; destruct (_ && _); discriminate.
  exists s'. split; [reflexivity|].
  assert (I3 : Inv3 e s').
  { split; [eapply sync_risky_one_IdxInv; eassumption|split; [eapply sync_risky_one_CustInv; eassumption|eapply sync_risky_one_OwnInv; eassumption]]. }
  unfold sync_risky_one in E. rewrite Hst in E.
  destruct HI as (Hk & _). destruct (Hk _ _ _ Hst) as [Ht Hid]. subst t id.
  pose proof HF as [G F]. destruct (F _ _ _ Hst) as (A & B & gf0 & C & D).
  rewrite Hgf in C. inversion C; subst gf0; clear C.
  pose proof (new_interest_nonneg gf (c_ifac c) (cdp_debt c) ltac:(lia) ltac:(lia) ltac:(unfold cdp_debt; lia)) as Hacc.
  set (acc := new_interest gf (c_ifac c) (cdp_debt c)) in *.
  destruct ((acc =? 0) && (c_upd c =? prev)).
  { inversion E; subst. split; [exact H4|]. auto. }
  inversion E; subst s'; clear E.
  assert (Hgp : 0 < gf) by (specialize (G _ _ Hgf); unfold PREC in G; lia).
  destruct (acc =? 0).
  - cbn [c_type c_id with_fees] in *.
    split; [split; [exact I3|split; [exact HB|split; [exact HD|]]]|].
    + apply (FeeInv_store (put_cdp s (with_fees c (c_fees c) prev (c_ifac c))) _ (c_type c) (c_id c)
               (with_fees (with_fees c (c_fees c) prev (c_ifac c)) (c_fees c + acc) prev gf)).
      * intros t id. cbn. reflexivity.
      * reflexivity.
      * unfold cdp_fee_ok. cbn. split; [lia|split; [lia|]]. exists gf. split; [exact Hgf|lia].
      * apply (FeeInv_store s _ (c_type c) (c_id c) (with_fees c (c_fees c) prev (c_ifac c))); [reflexivity|reflexivity| |exact HF].
        unfold cdp_fee_ok. cbn. split; [lia|split; [lia|]]. exists gf. auto.
    + split; [reflexivity|split; [reflexivity|]]. intros id'. cbn. unfold upd2.
      destruct (Nat.eqb (c_type c) (c_type c) && Nat.eqb id' (c_id c)); [discriminate|auto].
  - split; [split; [exact I3|split; [exact HB|split; [exact HD|]]]|].
    + apply (FeeInv_store s _ (c_type c) (c_id c) (with_fees c (c_fees c + acc) prev gf)); [reflexivity|reflexivity| |exact HF].
      unfold cdp_fee_ok. cbn. split; [lia|split; [lia|]]. exists gf. split; [exact Hgf|lia].
    + split; [reflexivity|split; [reflexivity|]]. intros id'. cbn. unfold upd2.
      destruct (Nat.eqb (c_type c) (c_type c) && Nat.eqb id' (c_id c)); [discriminate|auto].
Qed.

Lemma sync_risky_ok e s t cp :
  Inv4 e s -> get_cp e t = Some cp -> ptime s t <> None ->
  exists s', sync_risky e s t cp = Ok s' tt /\ Inv4 e s' /\ ptime s' = ptime s.
Proof.
  intros H4 Hcp Hpt. unfold sync_risky.
  destruct (ptime s t) as [prev|] eqn:Ep; [|congruence].
  set (ids := map snd (idx_below MAXS (scan_count cp) (ridx s t))).
  assert (Hids : forall id, In id ids -> cdps s t id <> None).
  { intros id Hin. apply in_map_iff in Hin. destruct Hin as ([r id0] & <- & Hin). apply idx_below_in in Hin.
    destruct H4 as (((_ & Hr & _) & _) & _). destruct (Hr t cp Hcp) as [_ Hiff]. apply Hiff in Hin.
    destruct Hin as (c & Hc & _). cbn. congruence. }
  destruct (ifac s t) as [gf|] eqn:Ei.
  - destruct (ofold_ok (fun s0 => Inv4 e s0 /\ ifac s0 t = Some gf /\ ptime s0 = ptime s /\ forall id, In id ids -> cdps s0 t id <> None)
               (sync_risky_one e cp t gf prev) ids) with (s := s) as (s' & E & H4' & _ & Hp' & _).
    + intros s0 id Hin (I0 & G0 & P0 & S0).
      destruct (cdps s0 t id) as [c|] eqn:Hc; [|exfalso; exact (S0 id Hin Hc)].
      destruct (sync_risky_one_ok e cp t gf prev s0 id c I0 Hcp G0 Hc) as (s1 & E1 & I1 & G1 & P1 & S1).
      exists s1. split; [exact E1|split; [exact I1|split; [rewrite G1; exact G0|split; [congruence|]]]].
      intros id' Hin'. apply S1, S0, Hin'.
    + split; [exact H4|split; [exact Ei|split; [reflexivity|exact Hids]]].
    + exists s'. split; [exact E|split; [exact H4'|exact Hp']].
  - destruct ids as [|id0 r] eqn:Eids; [exists s; split; [reflexivity|split; [exact H4|reflexivity]]|].
    exfalso. specialize (Hids id0 (or_introl eq_refl)).
    destruct (cdps s t id0) as [c|] eqn:Hc; [|congruence].
    destruct H4 as (_ & _ & _ & (_ & F)). destruct (F _ _ _ Hc) as (_ & _ & gf & C & _). congruence.
Qed.

(** * StartCollateralAuction / CreateAuctionsFromDeposit / AuctionCollateral: the liquidator can pay *)
Lemma liq_not_auc e : LIQM e <> AUCM e.
Proof. unfold LIQM, AUCM. lia. Qed.

Lemma start_coll_auction_ok e s ld lot mb debt ret :
  ld <> d_debt e -> 0 <= lot <= bal s (LIQM e) ld -> 0 <= debt <= bal s (LIQM e) (d_debt e) ->
  exists s', start_coll_auction e s ld lot mb debt ret = Ok s' tt /\
    bal s' (LIQM e) ld = bal s (LIQM e) ld - lot /\
    bal s' (LIQM e) (d_debt e) = bal s (LIQM e) (d_debt e) - debt.
Proof.
  intros Hld Hlot Hdebt. unfold start_coll_auction.
  destruct (b_send_ok s (LIQM e) (AUCM e) ld lot ltac:(lia)) as (s1 & E1). rewrite E1.
  destruct (b_send_bal _ _ _ _ _ _ E1 (liq_not_auc e) ltac:(lia)) as [_ B1].
  assert (D1 : bal s1 (LIQM e) (d_debt e) = bal s (LIQM e) (d_debt e)).
  { rewrite B1. destruct (Nat.eqb_spec (d_debt e) ld); [congruence|]. rewrite !andb_false_r. lia. }
  destruct (b_send_ok s1 (LIQM e) (AUCM e) (d_debt e) debt ltac:(lia)) as (s2 & E2). rewrite E2.
  destruct (b_send_bal _ _ _ _ _ _ E2 (liq_not_auc e) ltac:(lia)) as [_ B2].
  eexists. split; [reflexivity|]. cbn [set_aucs bal]. rewrite !B2, !B1, !Nat.eqb_refl.
  destruct (Nat.eqb_spec (LIQM e) (AUCM e)) as [Q|_]; [exfalso; exact (liq_not_auc e Q)|].
  destruct (Nat.eqb_spec ld (d_debt e)); [contradiction|].
  destruct (Nat.eqb_spec (d_debt e) ld); [congruence|]. cbn [andb]. lia.
Qed.

Lemma whole_auctions_ok e cp ret dpa :
  cp_denom cp <> d_debt e -> 0 <= cp_asize cp -> 0 <= dpa ->
  forall n s un,
  Z.of_nat n * cp_asize cp <= bal s (LIQM e) (cp_denom cp) ->
  Z.of_nat n * dpa + Z.max 0 (Z.min un (Z.of_nat n)) <= bal s (LIQM e) (d_debt e) ->
  exists s' un', whole_auctions e cp ret n dpa s un = Ok s' un' /\
    bal s' (LIQM e) (cp_denom cp) = bal s (LIQM e) (cp_denom cp) - Z.of_nat n * cp_asize cp /\
    bal s' (LIQM e) (d_debt e) = bal s (LIQM e) (d_debt e) - (Z.of_nat n * dpa + (un - un')) /\
    ((un <= 0 /\ un' = un) \/ (0 < un /\ un' = Z.max 0 (un - Z.of_nat n))).
Proof.
  intros Hden Hz Hdpa. induction n as [|n IH]; intros s un HC HD; cbn [whole_auctions].
  - exists s, un. split; [reflexivity|]. cbn [Z.of_nat]. split; [lia|split; [lia|]].
    destruct (Z_le_gt_dec un 0); [left|right]; lia.
  - rewrite Nat2Z.inj_succ, Z.mul_succ_l in HC, HD.
    set (d := if 0 <? un then dpa + 1 else dpa).
    assert (Hd : 0 <= d <= bal s (LIQM e) (d_debt e)).
    { unfold d. destruct (Z.ltb_spec 0 un); nia. }
    destruct (start_coll_auction_ok e s (cp_denom cp) (cp_asize cp) (d + penalty cp d) d ret Hden ltac:(nia) Hd) as (s1 & E1 & C1 & D1).
    rewrite E1.
    destruct (IH s1 (if 0 <? un then un - 1 else un)) as (s' & un' & E & C' & D' & U').
    + rewrite C1. nia.
    + rewrite D1. unfold d. destruct (Z.ltb_spec 0 un); nia.
    + exists s', un'. split; [exact E|]. rewrite Nat2Z.inj_succ, !Z.mul_succ_l, C', C1, D', D1. unfold d.
      destruct (Z.ltb_spec 0 un); (split; [lia|split; [lia|]]); [right|left]; lia.
Qed.

Lemma auctions_from_deposit_ok e cp s ret coll debt :
  cp_denom cp <> d_debt e -> 0 < cp_asize cp -> 0 < coll -> 0 <= debt ->
  coll <= bal s (LIQM e) (cp_denom cp) -> debt <= bal s (LIQM e) (d_debt e) ->
  exists s', auctions_from_deposit e cp s ret coll debt = Ok s' tt /\
    bal s' (LIQM e) (cp_denom cp) = bal s (LIQM e) (cp_denom cp) - coll /\
    bal s' (LIQM e) (d_debt e) = bal s (LIQM e) (d_debt e) - debt.
Proof.
  intros Hden Hz Hc Hd HC HD. unfold auctions_from_deposit.
  destruct (Z.eqb_spec coll 0) as [|_]; [lia|]. cbv zeta.
  set (z := cp_asize cp) in *.
  set (n := coll / z) in *. set (dpa := debt * z / coll) in *. set (lastc := coll mod z) in *.
  set (lastd := debt * lastc / coll) in *.
  set (werr := (debt * z) mod coll) in *. set (lerr := (debt * lastc) mod coll) in *.
  pose proof (Z.div_mod coll z ltac:(lia)) as D0. fold n in D0. fold lastc in D0.
  pose proof (Z.mod_pos_bound coll z Hz) as B0. fold lastc in B0.
  pose proof (Z.div_mod (debt * z) coll ltac:(lia)) as D1. fold dpa in D1. fold werr in D1.
  pose proof (Z.mod_pos_bound (debt * z) coll Hc) as B1. fold werr in B1.
  pose proof (Z.div_mod (debt * lastc) coll ltac:(lia)) as D2. fold lastd in D2. fold lerr in D2.
  pose proof (Z.mod_pos_bound (debt * lastc) coll Hc) as B2. fold lerr in B2.
  assert (Hn : 0 <= n) by (apply Z.div_pos; lia).
  assert (Hdpa : 0 <= dpa) by (apply Z.div_pos; nia).
  assert (Hlastd : 0 <= lastd) by (apply Z.div_pos; nia).
  set (un0 := debt - (n * dpa + lastd)) in *.
  assert (Hun0 : un0 * coll = n * werr + lerr) by (unfold un0; nia).
  assert (Hun0b : 0 <= un0 <= n) by nia.
  set (un1 := if werr <? lerr then un0 - 1 else un0).
  set (lastd1 := if werr <? lerr then lastd + 1 else lastd).
  assert (Hun1 : 0 <= un1 <= n /\ n * dpa + un1 + lastd1 = debt /\ 0 <= lastd1).
  { unfold un1, lastd1. destruct (Z.ltb_spec werr lerr); [assert (1 <= un0) by nia|]; unfold un0 in *; lia. }
  destruct Hun1 as (Hun1 & Hsum & Hl1).
  assert (En : Z.of_nat (Z.to_nat n) = n) by (apply Z2Nat.id; lia).
  destruct (whole_auctions_ok e cp ret dpa Hden ltac:(lia) Hdpa (Z.to_nat n) s un1) as (s1 & un2 & E & C1 & Db1 & U).
  - rewrite En. fold z. nia.
  - rewrite En. lia.
  - rewrite E. rewrite En in C1, Db1, U. fold z in C1.
    assert (Hun2 : un2 = 0) by lia. subst un2.
    destruct (Z.leb_spec lastc 0).
    + exists s1. split; [reflexivity|]. rewrite C1, Db1.
      assert (lastc = 0) by lia.
      assert (lerr = 0) by (unfold lerr; replace lastc with 0 by lia; rewrite Z.mul_0_r; apply Z.mod_0_l; lia).
      assert (lastd = 0) by (unfold lastd; replace lastc with 0 by lia; rewrite Z.mul_0_r; apply Z.div_0_l; lia).
      unfold un1, lastd1 in *. destruct (Z.ltb_spec werr lerr); split; nia.
    + change (0 <? 0) with false. cbv iota.
      destruct (start_coll_auction_ok e s1 (cp_denom cp) lastc (lastd1 + penalty cp lastd1) lastd1 ret Hden) as (s2 & E2 & C2 & Db2).
      * rewrite C1. nia.
      * rewrite Db1. lia.
      * exists s2. split; [exact E2|]. rewrite C2, C1, Db2, Db1. split; nia.
Qed.

Lemma auction_deposits_ok e cp total debt :
  cp_denom cp <> d_debt e -> 0 < cp_asize cp -> 0 < total -> 0 <= debt ->
  forall dl s rem,
  Forall (fun d : nat * Z => 0 < snd d) dl ->
  zsum (map snd dl) <= bal s (LIQM e) (cp_denom cp) -> 0 <= rem <= bal s (LIQM e) (d_debt e) ->
  exists s', auction_deposits e cp total debt s dl rem = Ok s' tt.
Proof.
  intros Hden Hz Ht Hdb. induction dl as [|d tl IH]; intros s rem Hpos HC HD; cbn [auction_deposits].
  - eauto.
  - destruct (Z.eqb_spec total 0); [lia|]. cbv zeta.
    inversion Hpos as [|? ? Hd Htl]; subst.
    cbn [map zsum fold_right] in HC. fold (zsum (map snd tl)) in HC.
    set (sh0 := debt_share (snd d) total debt).
    assert (Hsh0 : 0 <= sh0) by (apply debt_share_nonneg; lia).
    set (sh := if (match tl with [] => true | _ :: _ => false end) || (rem <? sh0) then rem else sh0).
    assert (Hsh : 0 <= sh <= rem).
    { unfold sh. destruct tl; cbn [orb]; [lia|]. destruct (Z.ltb_spec rem sh0); lia. }
    assert (Htlnn : 0 <= zsum (map snd tl)).
    { clear - Htl. induction Htl as [|x l Hx _ IHl]; cbn; [lia|]. fold (zsum (map snd l)). lia. }
    destruct (auctions_from_deposit_ok e cp s (fst d) (snd d) sh Hden Hz Hd ltac:(lia) ltac:(lia) ltac:(lia)) as (s1 & E1 & C1 & D1).
    rewrite E1. apply IH; [exact Htl|rewrite C1; lia|rewrite D1; lia].
Qed.

(** * SeizeCollateral *)
Lemma cdpm_not_liqm e : CDPM e <> LIQM e.
Proof. unfold CDPM, LIQM. lia. Qed.

Lemma seize_loop_ok e cp id : forall dl s1,
  Forall (fun d : nat * Z => 0 <= snd d) dl ->
  zsum (map snd dl) <= bal s1 (CDPM e) (cp_denom cp) ->
  exists s4, ofold (fun s2 (d : nat * Z) =>
                      match b_send s2 (CDPM e) (LIQM e) (cp_denom cp) (snd d) with
                      | None => Err
                      | Some s3 => Ok (del_dep s3 id (fst d)) tt
                      end) s1 dl = Ok s4 tt /\
    bal s4 (LIQM e) (cp_denom cp) = bal s1 (LIQM e) (cp_denom cp) + zsum (map snd dl) /\
    (forall d0, d0 <> cp_denom cp -> bal s4 (LIQM e) d0 = bal s1 (LIQM e) d0).
Proof.
  induction dl as [|d tl IH]; intros s1 Hpos Hle; cbn [ofold].
  - exists s1. cbn. split; [reflexivity|split; [lia|auto]].
  - inversion Hpos as [|? ? Hd Htl]; subst. cbn [map zsum fold_right] in *. fold (zsum (map snd tl)) in *.
    assert (Htlnn : 0 <= zsum (map snd tl)).
    { clear - Htl. induction Htl as [|x l Hx _ IHl]; cbn; [lia|]. fold (zsum (map snd l)). lia. }
    destruct (b_send_ok s1 (CDPM e) (LIQM e) (cp_denom cp) (snd d) ltac:(lia)) as (s3 & E3). rewrite E3.
    destruct (b_send_bal _ _ _ _ _ _ E3 (cdpm_not_liqm e) Hd) as [_ B3].
    destruct (IH (del_dep s3 id (fst d)) Htl) as (s4 & E4 & C4 & O4).
    + cbn [del_dep set_deps bal]. rewrite B3, !Nat.eqb_refl.
      destruct (Nat.eqb_spec (CDPM e) (LIQM e)) as [Q|_]; [exfalso; exact (cdpm_not_liqm e Q)|]. cbn [andb]. lia.
    + exists s4. split; [exact E4|split].
      * rewrite C4. cbn [del_dep set_deps bal]. rewrite B3, !Nat.eqb_refl.
        destruct (Nat.eqb_spec (LIQM e) (CDPM e)) as [Q|_]; [exfalso; exact (cdpm_not_liqm e (eq_sym Q))|]. cbn [andb]. lia.
      * intros d0 Hd0. rewrite O4 by exact Hd0. cbn [del_dep set_deps bal]. rewrite B3.
        destruct (Nat.eqb_spec d0 (cp_denom cp)); [contradiction|]. rewrite !andb_false_r. lia.
Qed.

Lemma sumN_nonneg n f : (forall i, (i < n)%nat -> 0 <= f i) -> 0 <= sumN n f.
Proof.
  induction n as [|m IHm]; intros Hf; cbn [sumN]; [lia|].
  pose proof (Hf m ltac:(lia)). assert (0 <= sumN m f) by (apply IHm; intros i Hi; apply Hf; lia). lia.
Qed.

Lemma sumN_ge_term n f k : (forall i, (i < n)%nat -> 0 <= f i) -> (k < n)%nat -> f k <= sumN n f.
Proof.
  induction n as [|n IH]; intros Hf Hk; [lia|]. cbn [sumN].
  assert (0 <= sumN n f) by (apply sumN_nonneg; intros i Hi; apply Hf; lia).
  pose proof (Hf n ltac:(lia)).
  destruct (Nat.eq_dec k n) as [->|]; [lia|]. assert (f k <= sumN n f) by (apply IH; [intros i Hi; apply Hf; lia|lia]). lia.
Qed.

(* the cdp module account holds at least the collateral of any one cdp *)
Lemma custody_covers e s T I cp :
  CustInv e s -> get_cp e T = Some cp -> has s T I = true ->
  coll_of s T I <= bal s (CDPM e) (cp_denom cp).
Proof.
  intros HC Hcp Hh. pose proof HC as (P1 & P2 & P3 & P4). rewrite (P4 _ _ Hcp).
  destruct (P1 _ _ Hh) as (_ & _ & HI).
  assert (Hnn : forall t id, 0 <= coll_of s t id).
  { intros t id. destruct (has s t id) eqn:E; [|rewrite coll_of_none by exact E; lia].
    destruct (P1 _ _ E) as (Q & _). rewrite Q. apply dep_total_nonneg. intros w a Ha. destruct (P3 _ _ _ Ha) as (A & _). exact A. }
  unfold custody'.
  pose proof (sumN_ge_term (ntypes e) (fun t => if denom_is e t (cp_denom cp) then tcoll s t else 0) T) as G.
  cbv beta in G. rewrite (denom_is_self e T cp Hcp) in G.
  assert (Htc : forall t, 0 <= tcoll s t).
  { intros t. unfold tcoll. apply sumN_nonneg. intros; apply Hnn. }
  specialize (G ltac:(intros i _; destruct (denom_is e i (cp_denom cp)); [apply Htc|lia]) (get_cp_lt _ _ _ Hcp)).
  assert (coll_of s T I <= tcoll s T).
  { unfold tcoll. apply (sumN_ge_term (nextid s) (coll_of s T) I); [intros; apply Hnn|exact HI]. }
  lia.
Qed.

Lemma zsum_pos_or_nil (dl : list (nat * Z)) :
  Forall (fun d : nat * Z => 0 < snd d) dl -> dl = [] \/ 0 < zsum (map snd dl).
Proof.
  intros H. destruct H as [|d tl Hd Htl]; [left; reflexivity|right].
  cbn [map zsum fold_right]. fold (zsum (map snd tl)).
  assert (0 <= zsum (map snd tl)).
  { clear - Htl. induction Htl as [|x l Hx _ IHl]; cbn; [lia|]. fold (zsum (map snd l)). lia. }
  lia.
Qed.

Lemma seize_ok e s cp c :
  env_ok e -> Inv4 e s -> get_cp e (c_type c) = Some cp -> cdps s (c_type c) (c_id c) = Some c ->
  exists s', seize e s cp c = Ok s' tt /\ Inv4 e s'.
Proof.
  intros (Hwf & Hpar & Hcps & Hlot) H4 Hcp Hst.
  assert (Hs : exists s', seize e s cp c = Ok s' tt).
  { destruct H4 as ((HI & HC & HO) & HB & HD & HF).
    destruct (Hwf _ _ Hcp) as [W1 W2]. destruct (Hcps _ _ Hcp) as [Hz _].
    destruct (stored_view _ _ Hst) as [Hh Hco].
    destruct HF as [_ F]. destruct (F _ _ _ Hst) as (Fp & Ff & _).
    unfold seize.
    set (D := Z.min (cdp_debt c) (bal s (CDPM e) (d_debt e))).
    assert (HD0 : 0 <= D) by (unfold D, cdp_debt; pose proof (HB (CDPM e) (d_debt e)); lia).
    destruct (b_send_ok s (CDPM e) (LIQM e) (d_debt e) D ltac:(unfold D; lia)) as (s1 & E1). rewrite E1.
    destruct (b_send_bal _ _ _ _ _ _ E1 (cdpm_not_liqm e) HD0) as [_ B1].
    pose proof (b_send_frame _ _ _ _ _ _ E1) as Fr1.
    pose proof (b_send_nn _ _ _ _ _ _ HB E1) as HB1.
    set (dl := dep_list e s (c_id c)).
    assert (Hdl : Forall (fun d : nat * Z => 0 < snd d) dl).
    { apply Forall_forall. intros [w a] Hin. apply dep_list_in in Hin. destruct Hin as [_ Hin]. cbn. eapply HD; eassumption. }
    assert (Hdl0 : Forall (fun d : nat * Z => 0 <= snd d) dl).
    { eapply Forall_impl; [|exact Hdl]. cbv beta. intros; lia. }
    assert (Hsum : zsum (map snd dl) <= bal s1 (CDPM e) (cp_denom cp)).
    { unfold dl. rewrite dep_list_total. pose proof HC as (P1 & _). destruct (P1 _ _ Hh) as (Q & _). rewrite <- Q.
      rewrite (b_send_other _ _ _ _ _ _ E1) by (left; exact W2). apply custody_covers; assumption. }
    destruct (seize_loop_ok e cp (c_id c) dl s1 Hdl0 Hsum) as (s4 & E4 & C4 & O4). rewrite E4.
    unfold auction_collateral.
    destruct (zsum_pos_or_nil dl Hdl) as [Enil|Htot]; [rewrite Enil; cbn [auction_deposits]; eauto|].
    destruct (auction_deposits_ok e cp (zsum (map snd dl)) D W2 Hz Htot HD0 dl s4 D Hdl) as (s5 & E5).
    - rewrite C4. pose proof (HB1 (LIQM e) (cp_denom cp)). lia.
    - rewrite O4 by (intros Q; apply W2; symmetry; exact Q). rewrite B1, !Nat.eqb_refl.
      destruct (Nat.eqb_spec (LIQM e) (CDPM e)) as [Q|_]; [exfalso; exact (cdpm_not_liqm e (eq_sym Q))|]. cbn [andb].
      pose proof (HB (LIQM e) (d_debt e)). lia.
    - rewrite E5. eauto. }
  destruct Hs as (s' & E). exists s'. split; [exact E|].
  destruct H4 as ((HI & HC & HO) & HN).
  split; [split; [|split]|].
  - eapply seize_IdxInv; eassumption.
  - eapply seize_CustInv; eassumption.
  - eapply seize_OwnInv; eassumption.
  - eapply seize_New; eassumption.
Qed.

(** * LiquidateCdps *)
Lemma seize_fold_ok e cp t p : env_ok e -> get_cp e t = Some cp -> forall l s,
  Inv4 e s ->
  (forall o, In o l -> exists c, o = Some c /\ c_type c = t /\ cdps s t (c_id c) = Some c) ->
  NoDup (map (fun o : option cdp => match o with Some c => c_id c | None => O end) l) ->
  exists s', ofold (liq_step e cp p) s l = Ok s' tt /\ Inv4 e s'.
Proof.
  intros Hok Hcp. induction l as [|o tl IH]; intros s H4 Hst Hnd; cbn [ofold].
  - exists s. auto.
  - destruct (Hst o (or_introl eq_refl)) as (c & -> & Hty & Hc).
    cbn [map] in Hnd. apply NoDup_cons_iff in Hnd. destruct Hnd as [Hni Hnt].
    unfold liq_step at 1.
    destruct (confirm_below e cp p c).
    + destruct (seize_ok e s cp c Hok H4 ltac:(rewrite Hty; exact Hcp) ltac:(rewrite Hty; exact Hc)) as (s1 & E1 & I1).
      rewrite E1. apply IH; [exact I1| |exact Hnt].
      intros o Hin. destruct (Hst o (or_intror Hin)) as (c' & -> & Hty' & Hc'). exists c'. split; [reflexivity|split; [exact Hty'|]].
      pose proof (seize_stores _ _ _ _ _ _ E1) as (A & _).
      rewrite A. unfold upd2. rewrite Hty, Nat.eqb_refl. cbn [andb].
      destruct (Nat.eqb_spec (c_id c') (c_id c)) as [Heq|]; [|exact Hc'].
      exfalso. apply Hni. apply in_map_iff. exists (Some c'). split; [exact Heq|exact Hin].
    + apply IH; [exact H4| |exact Hnt]. intros o Hin. apply Hst. right. exact Hin.
Qed.

Lemma liquidate_ok e s t cp :
  env_ok e -> Inv4 e s -> get_cp e t = Some cp ->
  exists s', liquidate_cdps e s t cp = Ok s' tt /\ Inv4 e s'.
Proof.
  intros Hok H4 Hcp. unfold liquidate_cdps.
  destruct (price s (cp_liqm cp) =? 0); [exists s; auto|].
  set (ents := idx_below _ _ _).
  pose proof H4 as (((Hk & Hr & Hi) & _) & _). destruct (Hr t cp Hcp) as [Hnd Hin].
  assert (Hload : forall x, In x ents -> exists c, get_cdp e s t (snd x) = Some c /\ c_type c = t /\ c_id c = snd x /\ cdps s t (c_id c) = Some c).
  { intros [r id] Hx. apply idx_below_in in Hx. apply Hin in Hx. destruct Hx as (c & Hc & _).
    exists c. cbn [snd]. unfold get_cdp. rewrite Hcp. destruct (Hk _ _ _ Hc) as [A B]. rewrite B. auto. }
  destruct (existsb _ _) eqn:Ex.
  { exfalso. apply existsb_exists in Ex. destruct Ex as (o & Ho & Hnone). apply in_map_iff in Ho.
    destruct Ho as (x & <- & Hx). destruct (Hload x Hx) as (c & Eg & _). cbv beta in Hnone. rewrite Eg in Hnone. discriminate. }
  apply (seize_fold_ok e cp t); [exact Hok|exact Hcp|exact H4| |].
  - intros o Ho. apply in_map_iff in Ho. destruct Ho as (x & <- & Hx). destruct (Hload x Hx) as (c & Eg & A & _ & B).
    exists c. cbv beta. auto.
  - assert (Hids : NoDup (map snd ents)).
    { destruct (idx_below_prefix (rkey (liq_cut (price s (cp_liqm cp)) (cp_liq cp))) (scan_count cp) (ridx s t)) as (rest & Hrest).
      fold ents in Hrest.
      assert (H0 : NoDup (map snd (ridx s t))).
      { apply nodup_map_snd; [exact Hnd|]. intros a a' b H1 H2. apply Hin in H1. apply Hin in H2.
        destruct H1 as (c1 & G1 & ->). destruct H2 as (c2 & G2 & ->). congruence. }
      rewrite Hrest, map_app in H0. eapply nodup_app_l. exact H0. }
    rewrite map_map.
    assert (Heq : map (fun x : Z * nat => match get_cdp e s t (snd x) with Some c => c_id c | None => O end) ents = map snd ents).
    { apply map_ext_in. intros x Hx. cbv beta. destruct (Hload x Hx) as (c & Eg & _ & B & _). rewrite Eg. exact B. }
    rewrite Heq. exact Hids.
Qed.

(** * the per-collateral loop body and the whole BeginBlocker *)
Lemma begin_type_ok e skip s t cp :
  env_ok e -> Inv4 e s -> get_cp e t = Some cp ->
  exists s', begin_type e skip s (t, cp) = Ok s' tt /\ Inv4 e s'.
Proof.
  intros Hok H4 Hcp. pose proof Hok as (Hwf & _ & Hcps & _). destruct (Hcps _ _ Hcp) as [_ Hfee].
  unfold begin_type, update_status.
  destruct (negb (negb (price s (cp_spot cp) =? 0))).
  { eexists. split; [reflexivity|]. apply (Inv4_frame e s); try reflexivity. exact H4. }
  cbn [set_mstat price].
  destruct (negb (negb (price s (cp_liqm cp) =? 0))).
  { eexists. split; [reflexivity|]. apply (Inv4_frame e s); try reflexivity. exact H4. }
  set (s2 := set_mstat _ _).
  assert (I2 : Inv4 e s2) by (apply (Inv4_frame e s); try reflexivity; exact H4).
  destruct I2 as (I23 & N2).
  destruct (accumulate_New e s2 t cp Hfee N2) as (N3 & Hpt).
  pose proof (accumulate_Inv3 e s2 t cp Hwf I23) as I33.
  set (s3 := accumulate_interest e s2 t cp) in *.
  destruct skip; [exists s3; split; [reflexivity|split; assumption]|].
  destruct (sync_risky_ok e s3 t cp (conj I33 N3) Hcp Hpt) as (s4 & E4 & I4 & _). rewrite E4.
  destruct (liquidate_ok e s4 t cp Hok I4 Hcp) as (s5 & E5 & I5). rewrite E5.
  exists s5. auto.
Qed.

Lemma begin_block_ok e s :
  env_ok e -> Inv4 e s -> exists s', begin_block e s = Ok s' tt /\ Inv4 e s'.
Proof.
  intros Hok H4. unfold begin_block.
  destruct (ofold_ok (Inv4 e) (begin_type e (negb (Z.rem (height s) (interval e) =? 0)))
              (combine (seq 0 (ntypes e)) (cps e))) with (s := s) as (s1 & E1 & I1).
  - intros s0 [t cp] Hin I0. apply combine_seq_nth in Hin. destruct Hin as [Hn _]. rewrite Nat.sub_0_r in Hn.
    apply begin_type_ok; assumption.
  - exact H4.
  - rewrite E1. destruct Hok as (Hwf & Hpar & Hcps & Hlot).
    destruct I1 as (I13 & HB1 & HD1 & HF1).
    destruct (run_auctions_ok e s1 Hlot HB1) as (s2 & E2 & HB2 & Fr). rewrite E2.
    assert (E : begin_block e s = Ok s2 tt) by (unfold begin_block; rewrite E1, E2; reflexivity).
    exists s2. split; [reflexivity|].
    split; [eapply begin_block_Inv3; [exact Hwf|exact (proj1 H4)|exact E]|].
    split; [exact HB2|split; [eapply DepPos_bank; eassumption|eapply FeeInv_bank; eassumption]].
Qed.
