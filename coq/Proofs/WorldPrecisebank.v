(* C02 instance: x/precisebank (no begin or end blocker).
   Operations: the five keeper entry points used by x/evm (SendCoins, SendCoinsFromModuleToAccount,
   SendCoinsFromAccountToModule, MintCoins, BurnCoins).
   Invariant = Proofs.Precisebank.Inv; its conjuncts model the five invariants registered with the
   crisis keeper (x/precisebank/keeper/invariants.go):
     1. 0 <= frac a < 10^12 for every account          — "valid-fractional-balances"
     2. 0 <= remainder < 10^12                          — "valid-remainder-amount"
     3. reserve balance * 10^12 = sum of fractions + remainder
                                                        — "reserve-backs-fractions", and (hence the total is a
                                                          multiple of 10^12) "balance-remainder-total"
     4. the bank supply of akava is 0                   — "fractional-denom-not-in-bank"
     5. the reserve account holds no fractional balance — needed by 3 (the keeper skips the reserve)
   Guard: none on operations; [env_wf]: the reserve is one of the accounts and none of its ukava is locked. *)
From Coq Require Import String.
From Kava Require Import Base.Prelude Model.World Model.WorldG Proofs.WorldG.
From Kava Require Import Model.Precisebank Proofs.Precisebank.
Local Open Scope string_scope.

Definition precisebank_M (e : env) : module :=
  mkModule ["precisebank"] state unit op no_blocker (step e) no_blocker
           (Inv e) (fun _ _ => True) (fun _ _ => True).

Lemma precisebank_M_ok e : env_wf e -> module_ok (precisebank_M e).
Proof.
  intros Hwf. apply no_blockers_ok. intros s o s' u HI _ E. destruct u. eapply step_inv; eauto.
Qed.

(** * non-vacuity: a state with borrow/carry potential satisfies the invariant; a transfer with a carry runs *)
Definition pb_e0 : env :=
  mk_env 3 2 [[0;0;0;0];[0;0;0;0];[0;0;0;0]] [false;false;true] [false;false;true] [false;false;true] [false;false;true].
Definition pb_s0 : state :=
  mk_state [[0;0;7;0];[0;0;3;0];[0;0;2;0]] [0;0;12;0] [999999999999; 999999999990; 0] 11.

Example precisebank_nonvacuous :
  env_wf pb_e0 /\ m_Inv (precisebank_M pb_e0) pb_s0 /\
  match run_blocksG (precisebank_M pb_e0) pb_s0 [(tt, [Send 0 1 [(dA, 15)]])] with
  | Some s => xbal s 1%nat = xbal pb_s0 1%nat + 15 /\ xbal s 0%nat = xbal pb_s0 0%nat - 15
  | None => False
  end.
Proof.
  split; [split; [cbn; lia|reflexivity]|]. split.
  - apply inv_b_sound; [vm_compute; reflexivity|].
    intros a Ha. unfold pb_e0, mk_env in Ha. cbn in Ha. unfold pb_s0, mk_state. cbn.
    destruct a as [|[|[|a]]]; try lia. destruct a; reflexivity.
  - vm_compute. split; reflexivity.
Qed.
Print Assumptions precisebank_M_ok.
