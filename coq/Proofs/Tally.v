(* C12, "the total counted power never exceeds the total bonded stake": the WHOLE fold of
   app/tally_handler.go (Model/Tally.v [tally]): votes -> for each voter its delegations to
   bonded validators and its derivative holdings (wallet + savings + earn) valued through the
   validator record, with the deduction from the validator's inherited power; then the
   validators' remaining power; then the four truncated results.

   Main theorem [tally_counted_le_bonded]: for every state satisfying the model invariant and the
   backing invariant, and every well-formed set of votes (one vote per voter, voters are user
   accounts, weights non-negative summing to at most one, at most four options),
        r_yes + r_abstain + r_no + r_veto  <=  total bonded tokens,
   provided the number of rounded terms stays below 2 * 10^18 (nval * (10 * votes + 5)): every
   LegacyDec rounding can add half a unit of 10^-18, and the final truncation to whole tokens
   absorbs them. *)
From Kava Require Import Base.Prelude Base.Dec Model.Staking Model.Tally Model.Liquid Proofs.Liquid.
Local Open Scope Z_scope.

(** * sums *)
Fixpoint lsum {A} (l : list A) (f : A -> Z) : Z := match l with [] => 0 | a :: r => f a + lsum r f end.

Lemma lsum_nonneg {A} (l : list A) f : (forall a, In a l -> 0 <= f a) -> 0 <= lsum l f.
Proof. induction l as [|a r IH]; intros H; cbn; [lia|]. pose proof (H a (or_introl eq_refl)). specialize (IH (fun x Hx => H x (or_intror Hx))). lia. Qed.

Lemma lsum_ext {A} (l : list A) f g : (forall a, In a l -> f a = g a) -> lsum l f = lsum l g.
Proof. induction l as [|a r IH]; intros H; cbn; [reflexivity|]. rewrite (H a (or_introl eq_refl)), IH; [reflexivity|]. intros; apply H; now right. Qed.

Lemma lsum_le {A} (l : list A) f g : (forall a, In a l -> f a <= g a) -> lsum l f <= lsum l g.
Proof. induction l as [|a r IH]; intros H; cbn; [lia|]. pose proof (H a (or_introl eq_refl)). specialize (IH (fun x Hx => H x (or_intror Hx))). lia. Qed.

Lemma lsum_add {A} (l : list A) f g : lsum l (fun a => f a + g a) = lsum l f + lsum l g.
Proof. induction l as [|a r IH]; cbn; lia. Qed.

Lemma lsum_seq n f : lsum (seq 0 n) f = sumN n f.
Proof.
  induction n as [|n IH]; [reflexivity|]. rewrite seq_S. cbn [sumN]. rewrite <- IH. cbn [plus].
  generalize (seq 0 n). intros l. induction l as [|a r IHl]; cbn; lia.
Qed.

(* distinct indices below n: a list sum is at most the full sum *)
Lemma lsum_NoDup_le l : forall n f, NoDup l -> (forall a, In a l -> (a < n)%nat) -> (forall x, 0 <= f x) ->
  lsum l f <= sumN n f.
Proof.
  induction l as [|a r IH]; intros n f Hnd Hlt Hf; cbn.
  - now apply sumN_nonneg.
  - inversion Hnd as [|? ? Hnotin Hnd']; subst.
    set (g := fun x => if Nat.eqb x a then 0 else f x).
    assert (Ha : (a < n)%nat) by (apply Hlt; now left).
    assert (E : sumN n g = sumN n f - f a + g a).
    { apply (sumN_change n f g a Ha). intros x Hx. subst g. cbv beta. destruct (Nat.eqb_spec x a); congruence. }
    assert (g a = 0) by (subst g; cbv beta; now rewrite Nat.eqb_refl).
    assert (lsum r f = lsum r g).
    { apply lsum_ext. intros x Hx. subst g. cbv beta. destruct (Nat.eqb_spec x a); [subst; contradiction|reflexivity]. }
    assert (lsum r g <= sumN n g).
    { apply IH; [exact Hnd'|intros x Hx; apply Hlt; now right|].
      intros x. subst g. cbv beta. destruct (Nat.eqb x a); [lia|apply Hf]. }
    lia.
Qed.

Lemma sumN_le n f g : (forall x, (x < n)%nat -> f x <= g x) -> sumN n f <= sumN n g.
Proof. induction n; intros H; cbn [sumN]; [lia|]. pose proof (H n ltac:(lia)). specialize (IHn (fun x Hx => H x ltac:(lia))). lia. Qed.

(** * the four counted results *)
Definition sum4 (r : nat -> Z) : Z := r 0%nat + r 1%nat + r 2%nat + r 3%nat.

Lemma sum4_upd_le r o x : 0 <= x -> sum4 (upd r o (r o + x)) <= sum4 r + x.
Proof.
  intros Hx. unfold sum4, upd.
  destruct o as [|[|[|[|o]]]]; cbn [Nat.eqb]; lia.
Qed.

Definition wsum (opts : list (nat * Z)) : Z := lsum opts snd.

Definition opts_wf (opts : list (nat * Z)) : Prop :=
  (length opts <= 4)%nat /\ (forall o, In o opts -> 0 <= snd o) /\ wsum opts <= PREC.

(* adding one voter's power [vp], split by its weighted options: every result stays non-negative
   and the four results grow by at most vp * (sum of weights) + half a unit per option *)
Lemma add_power_bound opts : forall r vp,
  0 <= vp -> (forall o, In o opts -> 0 <= snd o) -> (forall o, 0 <= r o) ->
  (forall o, 0 <= add_power r opts vp o) /\
  2 * PREC * sum4 (add_power r opts vp) <= 2 * PREC * sum4 r + 2 * vp * wsum opts + PREC * Z.of_nat (length opts).
Proof.
  unfold add_power. induction opts as [|[o w] rest IH]; intros r vp Hvp Hw Hr.
  - cbn. split; [exact Hr|]. unfold wsum. cbn. lia.
  - cbn [fold_left fst snd].
    assert (Hw0 : 0 <= w) by (apply (Hw (o, w)); now left).
    pose proof (dec_mul_nonneg vp w Hvp Hw0) as Hx. pose proof (dec_mul_bounds vp w) as Hb.
    set (x := dec_mul vp w) in *.
    assert (Hr' : forall o', 0 <= upd r o (r o + x) o').
    { intros o'. rewrite upd_eq. destruct (Nat.eqb o' o); [specialize (Hr o); lia|apply Hr]. }
    destruct (IH (upd r o (r o + x)) vp Hvp (fun o' Ho' => Hw o' (or_intror Ho')) Hr') as (I0 & I1).
    split; [exact I0|].
    pose proof (sum4_upd_le r o x Hx) as Hs.
    unfold wsum in *. cbn [lsum snd length]. rewrite Nat2Z.inj_succ.
    assert (2 * PREC * sum4 (upd r o (r o + x)) <= 2 * PREC * (sum4 r + x)) by (apply Z.mul_le_mono_nonneg_l; [unfold PREC|]; lia).
    lia.
Qed.

(** * the accumulator of the fold *)

(* one counted term: power [vp] added to the total and, split by [opts], to the results *)
Definition add_term (t : acc) (opts : list (nat * Z)) (vp : Z) (ded : nat -> Z) : acc :=
  mkAcc (add_power (t_res t) opts vp) (t_total t + vp) ded (t_panic t).

Definition set_panic (t : acc) : acc := mkAcc (t_res t) (t_total t) (t_ded t) true.

(* results: non-negative, and their sum exceeds the total power by at most c/2 units of 10^-18 *)
Definition RI (t : acc) (c : Z) : Prop :=
  (forall o, 0 <= t_res t o) /\ 2 * sum4 (t_res t) <= 2 * t_total t + c.

Lemma RI_add_term t c opts vp ded :
  RI t c -> 0 <= vp -> opts_wf opts -> RI (add_term t opts vp ded) (c + 4).
Proof.
  intros (R0 & R1) Hvp (Hlen & Hw & Hsum).
  destruct (add_power_bound opts (t_res t) vp Hvp Hw R0) as (A0 & A1).
  split; [exact A0|]. cbn [add_term t_res t_total].
  assert (Hl : Z.of_nat (length opts) <= 4) by lia.
  assert (B1 : 2 * vp * wsum opts <= 2 * vp * PREC) by (apply Z.mul_le_mono_nonneg_l; lia).
  pose proof PREC_pos as HP.
  assert (B2 : PREC * Z.of_nat (length opts) <= PREC * 4) by (apply Z.mul_le_mono_nonneg_l; lia).
  apply (Z.mul_le_mono_pos_l _ _ PREC HP).
  assert (B3 : PREC * (2 * sum4 (t_res t)) <= PREC * (2 * t_total t + c)) by (apply Z.mul_le_mono_nonneg_l; lia).
  ring_simplify in B3. ring_simplify in A1. ring_simplify in B1. ring_simplify in B2. ring_simplify. lia.
Qed.

Lemma RI_mono t c c' : RI t c -> c <= c' -> RI t c'.
Proof. intros (R0 & R1) H. split; [exact R0|lia]. Qed.

Lemma RI_panic t c : RI t c -> RI (set_panic t) c.
Proof. intros H. exact H. Qed.

(* per validator: [pw i] is the power counted so far on account of validator [i]; it is paid for
   by the shares deducted so far, up to half a unit per rounded term ([n i] of them) *)
Definition active (s : state) (i : nat) : bool := curr s i && negb (v_shares (vals s i) =? 0).

Definition PI (e : env) (s : state) (t : acc) (pw n : nat -> Z) : Prop :=
  t_total t = sumN (nval e) pw /\
  (forall i, 0 <= pw i /\ 0 <= n i /\ 0 <= t_ded t i) /\
  (forall i, active s i = false -> pw i = 0) /\
  (forall i, 2 * v_shares (vals s i) * pw i <= 2 * PREC * v_tokens (vals s i) * t_ded t i + n i * v_shares (vals s i)).

(* the whole invariant, with a counter [m] of the terms added so far *)
Definition TI (e : env) (s : state) (t : acc) (m : Z) : Prop :=
  RI t (4 * m) /\ exists pw n, PI e s t pw n /\ sumN (nval e) n <= m.

Lemma TI_mono e s t m m' : TI e s t m -> m <= m' -> TI e s t m'.
Proof. intros (R & pw & n & P & Hn) H. split; [eapply RI_mono; eauto; lia|]. exists pw, n. split; [exact P|lia]. Qed.

Lemma TI_panic e s t m : TI e s t m -> TI e s (set_panic t) m.
Proof. intros H. exact H. Qed.

(* adding a term for validator [i]: [x] more shares deducted, [vp] more power, which the new
   shares pay for up to [k] halves of a unit (k = 1 rounded, k = 0 truncated) *)
Lemma TI_add_term e s t m i opts vp x k :
  TI e s t m -> (i < nval e)%nat -> active s i = true -> opts_wf opts ->
  0 <= vp -> 0 <= x -> 0 <= k <= 1 -> 0 <= v_tokens (vals s i) ->
  2 * v_shares (vals s i) * vp <= 2 * PREC * v_tokens (vals s i) * x + k * v_shares (vals s i) ->
  TI e s (add_term t opts vp (upd (t_ded t) i (t_ded t i + x))) (m + 1).
Proof.
  intros (R & pw & n & (P1 & P2 & P3 & P4) & Hn) Hi Hact Hopts Hvp Hx Hk HT Hb.
  split.
  { replace (4 * (m + 1)) with (4 * m + 4) by ring. now apply RI_add_term. }
  exists (upd pw i (pw i + vp)), (upd n i (n i + k)).
  split; [split; [|split; [|split]]|].
  - cbn [add_term t_total]. rewrite P1.
    rewrite (sumN_change (nval e) pw (upd pw i (pw i + vp)) i Hi) by (intros x0 Hx0; now apply upd_other).
    rewrite upd_same. lia.
  - intros j. cbn [add_term t_ded]. rewrite !upd_eq. pose proof (P2 j) as (? & ? & ?). pose proof (P2 i) as (? & ? & ?).
    destruct (Nat.eqb j i); repeat split; lia.
  - intros j Hj. rewrite upd_eq. destruct (Nat.eqb_spec j i) as [->|]; [congruence|now apply P3].
  - intros j. cbn [add_term t_ded]. rewrite !upd_eq.
    destruct (Nat.eqb_spec j i) as [->|]; [|apply P4].
    pose proof (P4 i) as B.
    set (S := v_shares (vals s i)) in *. set (T := v_tokens (vals s i)) in *.
    ring_simplify in B. ring_simplify in Hb. ring_simplify. lia.
  - rewrite (sumN_change (nval e) n (upd n i (n i + k)) i Hi) by (intros x0 Hx0; now apply upd_other).
    rewrite upd_same. lia.
Qed.

(** * the two inner folds (one voter) and the fold over the votes *)
Definition fD (s : state) (a : nat) (opts : list (nat * Z)) (t : acc) (i : nat) : acc :=
  match del s a i with
  | Some d =>
      if curr s i then
        let v := vals s i in
        if v_shares v =? 0 then mkAcc (t_res t) (t_total t) (t_ded t) true else
        let vp := delegation_power v d in
        mkAcc (add_power (t_res t) opts vp) (t_total t + vp) (upd (t_ded t) i (t_ded t i + d)) (t_panic t)
      else t
  | None => t
  end.

Definition fB (s : state) (a : nat) (opts : list (nat * Z)) (t : acc) (i : nat) : acc :=
  let h := held s a i in
  let v := vals s i in
  if (0 <? h) && v_exists v && curr s i then
    if v_shares v =? 0 then mkAcc (t_res t) (t_total t) (t_ded t) true else
    let vp := dec_of_int (derivative_value v h) in
    mkAcc (add_power (t_res t) opts vp) (t_total t + vp) (upd (t_ded t) i (t_ded t i + dec_of_int h)) (t_panic t)
  else t.

Lemma tally_dels_fold e s a opts t : tally_dels e s a opts t = fold_left (fD s a opts) (seq 0 (nval e)) t.
Proof. reflexivity. Qed.
Lemma tally_bkava_fold e s a opts t : tally_bkava e s a opts t = fold_left (fB s a opts) (seq 0 (nval e)) t.
Proof. reflexivity. Qed.

Lemma fold_TI e s (f : acc -> nat -> acc) l :
  (forall t m i, In i l -> TI e s t m -> TI e s (f t i) (m + 1)) ->
  forall t m, TI e s t m -> TI e s (fold_left f l t) (m + Z.of_nat (length l)).
Proof.
  induction l as [|i r IH]; intros Hstep t m Ht.
  - cbn. replace (m + 0) with m by lia. exact Ht.
  - cbn [fold_left length]. rewrite Nat2Z.inj_succ.
    replace (m + Z.succ (Z.of_nat (length r))) with ((m + 1) + Z.of_nat (length r)) by lia.
    apply IH; [intros; apply Hstep; auto; now right|]. apply Hstep; [now left|exact Ht].
Qed.

Lemma active_spec s i : active s i = true <-> curr s i = true /\ v_shares (vals s i) <> 0.
Proof.
  unfold active. rewrite andb_true_iff, negb_true_iff, Z.eqb_neq. tauto.
Qed.

Lemma fD_TI e s a opts t m i :
  Inv e s -> opts_wf opts -> (i < nval e)%nat -> TI e s t m -> TI e s (fD s a opts t i) (m + 1).
Proof.
  intros HI Ho Hi Ht. pose proof HI as (I1 & _ & I3 & _).
  unfold fD. destruct (del s a i) as [d|] eqn:Ed; [|apply (TI_mono e s t m); [exact Ht|lia]].
  destruct (curr s i) eqn:Ec; [|apply (TI_mono e s t m); [exact Ht|lia]].
  cbv zeta. destruct (Z.eqb_spec (v_shares (vals s i)) 0) as [E0|E0].
  - apply (TI_mono e s _ m); [apply (TI_panic e s t m Ht)|lia].
  - pose proof (I1 i) as (HT & HS). pose proof (I3 a i) as Hd. unfold dshares in Hd. rewrite Ed in Hd.
    destruct (delegation_power_bound (vals s i) d Hd HT ltac:(lia)) as (Hvp & Hb).
    apply (TI_add_term e s t m i opts (delegation_power (vals s i) d) d 1); auto; try lia.
    apply active_spec. split; assumption.
Qed.

Lemma fB_TI e s a opts t m i :
  Inv e s -> opts_wf opts -> (i < nval e)%nat -> TI e s t m -> TI e s (fB s a opts t i) (m + 1).
Proof.
  intros HI Ho Hi Ht. pose proof HI as (I1 & _ & _ & _ & I5 & _).
  unfold fB. cbv zeta.
  destruct ((0 <? held s a i) && v_exists (vals s i) && curr s i) eqn:Ec; [|apply (TI_mono e s t m); [exact Ht|lia]].
  apply andb_prop in Ec. destruct Ec as (Ec & Ecurr). apply andb_prop in Ec. destruct Ec as (Eh & _).
  apply Z.ltb_lt in Eh.
  destruct (Z.eqb_spec (v_shares (vals s i)) 0) as [E0|E0].
  - apply (TI_mono e s _ m); [apply (TI_panic e s t m Ht)|lia].
  - pose proof (I1 i) as (HT & HS).
    destruct (derivative_power_bound (vals s i) (held s a i) ltac:(lia) HT ltac:(lia)) as (Hvp & Hb).
    apply (TI_add_term e s t m i opts (dec_of_int (derivative_value (vals s i) (held s a i))) (dec_of_int (held s a i)) 0); auto; try lia.
    + apply active_spec. split; assumption.
    + unfold dec_of_int. unfold PREC; lia.
Qed.

Definition vote_wf (e : env) (vt : vote) : Prop :=
  (fst vt < nacc e)%nat /\ fst vt <> liq e /\ opts_wf (snd vt).

Definition votes_wf (e : env) (votes : list vote) : Prop :=
  NoDup (map fst votes) /\ forall vt, In vt votes -> vote_wf e vt.

Lemma in_seq_lt i n : In i (seq 0 n) -> (i < n)%nat.
Proof. intros H. apply in_seq in H. lia. Qed.

Lemma vote_TI e s vt t m :
  Inv e s -> opts_wf (snd vt) -> TI e s t m ->
  TI e s (tally_bkava e s (fst vt) (snd vt) (tally_dels e s (fst vt) (snd vt) t)) (m + 2 * Z.of_nat (nval e)).
Proof.
  intros HI Ho Ht. rewrite tally_dels_fold, tally_bkava_fold.
  replace (m + 2 * Z.of_nat (nval e)) with ((m + Z.of_nat (length (seq 0 (nval e)))) + Z.of_nat (length (seq 0 (nval e))))
    by (rewrite seq_length; lia).
  apply fold_TI; [intros t0 m0 i Hin; apply fB_TI; auto; now apply in_seq_lt|].
  apply fold_TI; [intros t0 m0 i Hin; apply fD_TI; auto; now apply in_seq_lt|exact Ht].
Qed.

Lemma votes_TI e s votes :
  Inv e s -> (forall vt, In vt votes -> opts_wf (snd vt)) ->
  forall t m, TI e s t m -> TI e s (tally_votes e s votes t) (m + 2 * Z.of_nat (nval e) * Z.of_nat (length votes)).
Proof.
  intros HI. unfold tally_votes. induction votes as [|vt r IH]; intros Hw t m Ht.
  - cbn [fold_left length]. change (Z.of_nat 0) with 0. replace (m + 2 * Z.of_nat (nval e) * 0) with m by lia. exact Ht.
  - cbn [fold_left length]. rewrite Nat2Z.inj_succ.
    replace (m + 2 * Z.of_nat (nval e) * Z.succ (Z.of_nat (length r)))
      with ((m + 2 * Z.of_nat (nval e)) + 2 * Z.of_nat (nval e) * Z.of_nat (length r)) by lia.
    apply IH; [intros; apply Hw; now right|]. apply vote_TI; auto. apply Hw. now left.
Qed.

(** * the deductions: at most what the voters own, hence at most the validator's shares *)
Lemma fold_ded_other (f : acc -> nat -> acc) l i :
  (forall t j, i <> j -> t_ded (f t j) i = t_ded t i) ->
  ~ In i l -> forall t, t_ded (fold_left f l t) i = t_ded t i.
Proof.
  intros P1. induction l as [|j r IH]; intros Hni t; [reflexivity|]. cbn [fold_left].
  rewrite IH by (intros H; apply Hni; now right). apply P1. intros ->. apply Hni. now left.
Qed.

Lemma fold_ded_le (f : acc -> nat -> acc) l i X :
  (forall t j, i <> j -> t_ded (f t j) i = t_ded t i) ->
  (forall t, t_ded (f t i) i <= t_ded t i + X) -> 0 <= X ->
  NoDup l -> forall t, t_ded (fold_left f l t) i <= t_ded t i + X.
Proof.
  intros P1 P2 HX. induction l as [|j r IH]; intros Hnd t; [cbn; lia|]. cbn [fold_left].
  inversion Hnd as [|? ? Hni Hnd']; subst.
  destruct (Nat.eq_dec i j) as [->|Hij].
  - rewrite (fold_ded_other f r j P1 Hni). apply P2.
  - specialize (IH Hnd' (f t j)). rewrite (P1 t j Hij) in IH. exact IH.
Qed.

Lemma fD_ded_other s a opts t j i : i <> j -> t_ded (fD s a opts t j) i = t_ded t i.
Proof.
  intros Hij. unfold fD. destruct (del s a j); [|reflexivity]. destruct (curr s j); [|reflexivity].
  cbv zeta. destruct (_ =? 0); [reflexivity|]. cbn [t_ded]. now apply upd_other.
Qed.

Lemma fD_ded_same e s a opts t i : Inv e s -> t_ded (fD s a opts t i) i <= t_ded t i + dshares s a i.
Proof.
  intros (_ & _ & I3 & _). pose proof (I3 a i) as Hd. unfold fD, dshares in *.
  destruct (del s a i) as [d|]; [|lia]. destruct (curr s i); [|lia].
  cbv zeta. destruct (_ =? 0); [cbn [t_ded]; lia|]. cbn [t_ded]. rewrite upd_same. lia.
Qed.

Lemma fB_ded_other s a opts t j i : i <> j -> t_ded (fB s a opts t j) i = t_ded t i.
Proof.
  intros Hij. unfold fB. cbv zeta. destruct (_ && _ && _); [|reflexivity].
  destruct (_ =? 0); [reflexivity|]. cbn [t_ded]. now apply upd_other.
Qed.

Lemma fB_ded_same e s a opts t i : Inv e s -> t_ded (fB s a opts t i) i <= t_ded t i + held s a i * PREC.
Proof.
  intros (_ & _ & _ & _ & I5 & _). pose proof (I5 a i) as (? & ? & ?).
  assert (0 <= held s a i * PREC) by (unfold held; apply Z.mul_nonneg_nonneg; [lia|unfold PREC; lia]).
  unfold fB. cbv zeta. destruct (_ && _ && _); [|lia].
  destruct (_ =? 0); [cbn [t_ded]; lia|]. cbn [t_ded]. rewrite upd_same. unfold dec_of_int. lia.
Qed.

Definition own (s : state) (a i : nat) : Z := dshares s a i + held s a i * PREC.

Lemma own_nonneg e s a i : Inv e s -> 0 <= own s a i.
Proof.
  intros (_ & _ & I3 & _ & I5 & _). pose proof (I3 a i). pose proof (I5 a i) as (? & ? & ?).
  assert (0 <= held s a i * PREC) by (unfold held; apply Z.mul_nonneg_nonneg; [lia|unfold PREC; lia]).
  unfold own. lia.
Qed.

Lemma vote_ded_le e s vt t i :
  Inv e s ->
  t_ded (tally_bkava e s (fst vt) (snd vt) (tally_dels e s (fst vt) (snd vt) t)) i <= t_ded t i + own s (fst vt) i.
Proof.
  intros HI. rewrite tally_dels_fold, tally_bkava_fold. pose proof HI as (_ & _ & I3 & _ & I5 & _).
  pose proof (I3 (fst vt) i). pose proof (I5 (fst vt) i) as (? & ? & ?).
  assert (0 <= held s (fst vt) i * PREC) by (unfold held; apply Z.mul_nonneg_nonneg; [lia|unfold PREC; lia]).
  pose proof (fold_ded_le (fB s (fst vt) (snd vt)) (seq 0 (nval e)) i (held s (fst vt) i * PREC)
    (fun t j => fB_ded_other s _ _ t j i) (fun t => fB_ded_same e s _ _ t i HI) H3 (seq_NoDup _ _)
    (fold_left (fD s (fst vt) (snd vt)) (seq 0 (nval e)) t)) as B.
  pose proof (fold_ded_le (fD s (fst vt) (snd vt)) (seq 0 (nval e)) i (dshares s (fst vt) i)
    (fun t j => fD_ded_other s _ _ t j i) (fun t => fD_ded_same e s _ _ t i HI) H (seq_NoDup _ _) t) as D.
  unfold own. lia.
Qed.

Lemma votes_ded_le e s votes i :
  Inv e s -> forall t, t_ded (tally_votes e s votes t) i <= t_ded t i + lsum (map fst votes) (fun a => own s a i).
Proof.
  intros HI. unfold tally_votes. induction votes as [|vt r IH]; intros t; [cbn; lia|].
  cbn [fold_left map lsum]. specialize (IH (tally_bkava e s (fst vt) (snd vt) (tally_dels e s (fst vt) (snd vt) t))).
  pose proof (vote_ded_le e s vt t i HI). lia.
Qed.

Lemma lsum_scale {A} (l : list A) f c : lsum l (fun a => f a * c) = lsum l f * c.
Proof. induction l as [|a r IH]; cbn [lsum]; [lia|]. rewrite IH. ring. Qed.

(* distinct voters, none of them the module account: what they own of validator [i] fits into
   its shares (staking invariant + backing) *)
Lemma voters_own_le e s l i :
  env_wf e -> Inv e s -> backed_all e s -> v_exists (vals s i) = true ->
  NoDup l -> (forall a, In a l -> (a < nacc e)%nat /\ a <> liq e) ->
  lsum l (fun a => own s a i) <= v_shares (vals s i).
Proof.
  intros Hwf HI HB Hex Hnd Hl. pose proof HI as (_ & I2 & I3 & I4 & I5 & _).
  unfold own. rewrite lsum_add, lsum_scale.
  (* delegations of the voters: the module account's delegation is not among them *)
  set (g := fun x => if Nat.eqb x (liq e) then 0 else dshares s x i).
  assert (E : sumN (nacc e) g = sumN (nacc e) (fun x => dshares s x i) - dshares s (liq e) i + g (liq e)).
  { apply (sumN_change (nacc e) (fun x => dshares s x i) g (liq e) Hwf).
    intros x Hx. subst g. cbv beta. destruct (Nat.eqb_spec x (liq e)); congruence. }
  assert (Eg : g (liq e) = 0) by (subst g; cbv beta; now rewrite Nat.eqb_refl).
  assert (D1 : lsum l (fun a => dshares s a i) = lsum l g).
  { apply lsum_ext. intros a Ha. destruct (Hl a Ha) as (_ & Hne). subst g. cbv beta. destruct (Nat.eqb_spec a (liq e)); congruence. }
  assert (D2 : lsum l g <= sumN (nacc e) g).
  { apply lsum_NoDup_le; auto; [intros a Ha; apply Hl; exact Ha|].
    intros x. subst g. cbv beta. destruct (Nat.eqb x (liq e)); [lia|apply I3]. }
  (* derivative holdings of the voters: part of the supply *)
  assert (Hh0 : forall x, 0 <= held s x i) by (intros x; unfold held; pose proof (I5 x i); lia).
  assert (H1 : lsum l (fun a => held s a i) <= sumN (nacc e) (fun a => held s a i)).
  { apply lsum_NoDup_le; auto. intros a Ha; apply Hl; exact Ha. }
  rewrite <- I4 in H1. pose proof (HB i) as Hb. rewrite (I2 i Hex).
  assert (lsum l (fun a => held s a i) * PREC <= dsup s i * PREC) by (apply Z.mul_le_mono_nonneg_r; [unfold PREC|]; lia).
  lia.
Qed.

(** * the second pass: the validators that voted get their remaining power *)
Definition fV (e : env) (s : state) (votes : list vote) (t : acc) (i : nat) : acc :=
  if curr s i then
    match vote_of votes (oper e i) with
    | Some ((_ :: _) as opts) =>
        let v := vals s i in
        if v_shares v =? 0 then mkAcc (t_res t) (t_total t) (t_ded t) true else
        let vp := validator_power v (t_ded t i) in
        mkAcc (add_power (t_res t) opts vp) (t_total t + vp) (t_ded t) (t_panic t)
    | _ => t
    end
  else t.

Lemma tally_validators_fold e s votes t : tally_validators e s votes t = fold_left (fV e s votes) (seq 0 (nval e)) t.
Proof. reflexivity. Qed.

(* the power the second pass adds for validator [i] *)
Definition vterm (e : env) (s : state) (votes : list vote) (ded : nat -> Z) (i : nat) : Z :=
  if curr s i then
    match vote_of votes (oper e i) with
    | Some (_ :: _) => if v_shares (vals s i) =? 0 then 0 else validator_power (vals s i) (ded i)
    | _ => 0
    end
  else 0.

Lemma vote_of_in votes a opts : vote_of votes a = Some opts -> In (a, opts) votes.
Proof.
  induction votes as [|[b o] r IH]; cbn [vote_of]; [discriminate|].
  destruct (Nat.eqb_spec a b) as [->|]; [intros H; injection H as <-; now left|intros H; right; auto].
Qed.

Lemma vterm_bound e s votes ded i :
  Inv e s ->
  (active s i = false -> vterm e s votes ded i = 0) /\
  (active s i = true -> 0 <= ded i <= v_shares (vals s i) ->
   0 <= vterm e s votes ded i /\
   2 * v_shares (vals s i) * vterm e s votes ded i
     <= 2 * PREC * v_tokens (vals s i) * (v_shares (vals s i) - ded i) + v_shares (vals s i)).
Proof.
  intros HI. pose proof HI as (I1 & _). pose proof (I1 i) as (HT & HS). pose proof PREC_pos as HP.
  unfold vterm, active.
  destruct (curr s i) eqn:Ec; cbn [andb]; [|split; [reflexivity|discriminate]].
  destruct (Z.eqb_spec (v_shares (vals s i)) 0) as [E|E]; cbn [negb].
  { split; [|discriminate]. intros _. destruct (vote_of votes (oper e i)) as [[|? ?]|]; reflexivity. }
  split; [discriminate|]. intros _ Hd.
  assert (Z0 : 0 <= 2 * PREC * v_tokens (vals s i) * (v_shares (vals s i) - ded i) + v_shares (vals s i)).
  { assert (0 <= 2 * PREC * v_tokens (vals s i) * (v_shares (vals s i) - ded i)) by (repeat apply Z.mul_nonneg_nonneg; lia). lia. }
  destruct (vote_of votes (oper e i)) as [[|? ?]|]; try (split; lia).
  apply validator_power_bound; lia.
Qed.

Lemma fV_ded e s votes t i : t_ded (fV e s votes t i) = t_ded t.
Proof.
  unfold fV. destruct (curr s i); [|reflexivity]. destruct (vote_of votes (oper e i)) as [[|? ?]|]; try reflexivity.
  cbv zeta. destruct (_ =? 0); reflexivity.
Qed.

Lemma fV_total e s votes t i : t_total (fV e s votes t i) = t_total t + vterm e s votes (t_ded t) i.
Proof.
  unfold fV, vterm. destruct (curr s i); [|lia]. destruct (vote_of votes (oper e i)) as [[|? ?]|]; try (cbn; lia).
  cbv zeta. destruct (_ =? 0); cbn [t_total]; lia.
Qed.

Lemma fV_RI e s votes t i c :
  Inv e s -> (forall vt, In vt votes -> opts_wf (snd vt)) ->
  (active s i = true -> 0 <= t_ded t i <= v_shares (vals s i)) ->
  RI t c -> RI (fV e s votes t i) (c + 4).
Proof.
  intros HI Hw Hd HR. pose proof (vterm_bound e s votes (t_ded t) i HI) as (_ & Hb).
  unfold fV, vterm, active in *.
  destruct (curr s i) eqn:Ec; cbn [andb] in *; [|eapply RI_mono; eauto; lia].
  destruct (vote_of votes (oper e i)) as [[|o1 orest]|] eqn:Ev; try (eapply RI_mono; eauto; lia).
  cbv zeta. destruct (Z.eqb_spec (v_shares (vals s i)) 0) as [E|E]; cbn [negb] in *.
  - apply (RI_mono (set_panic t) c); [apply RI_panic; exact HR|lia].
  - destruct (Hb eq_refl (Hd eq_refl)) as (Hvp & _).
    apply (RI_add_term t c (o1 :: orest) _ (t_ded t)); auto.
    apply vote_of_in in Ev. apply (Hw _ Ev).
Qed.

Lemma validators_pass e s votes l :
  Inv e s -> (forall vt, In vt votes -> opts_wf (snd vt)) ->
  forall t c,
  (forall i, active s i = true -> 0 <= t_ded t i <= v_shares (vals s i)) ->
  RI t c ->
  t_ded (fold_left (fV e s votes) l t) = t_ded t /\
  t_total (fold_left (fV e s votes) l t) = t_total t + lsum l (vterm e s votes (t_ded t)) /\
  RI (fold_left (fV e s votes) l t) (c + 4 * Z.of_nat (length l)).
Proof.
  intros HI Hw. induction l as [|i r IH]; intros t c Hd HR.
  - cbn [fold_left lsum length]. change (Z.of_nat 0) with 0. repeat split; try lia; try apply HR.
    destruct HR as (_ & H). lia.
  - cbn [fold_left lsum length]. rewrite Nat2Z.inj_succ.
    assert (Hd' : forall j, active s j = true -> 0 <= t_ded (fV e s votes t i) j <= v_shares (vals s j))
      by (intros j Hj; rewrite fV_ded; now apply Hd).
    destruct (IH (fV e s votes t i) (c + 4) Hd' (fV_RI e s votes t i c HI Hw (Hd i) HR)) as (E1 & E2 & E3).
    rewrite fV_ded in E1, E2. rewrite fV_total in E2.
    split; [exact E1|]. split; [lia|].
    eapply RI_mono; [exact E3|lia].
Qed.

(** * the whole handler *)
Definition acc0 : acc := mkAcc (fun _ => 0) 0 (fun _ => 0) false.

Lemma sumN_zero n : sumN n (fun _ => 0) = 0.
Proof. induction n; cbn [sumN]; lia. Qed.

Lemma TI_acc0 e s : TI e s acc0 0.
Proof.
  split; [split; [intros; cbn; lia|cbn; lia]|].
  exists (fun _ => 0), (fun _ => 0). split; [|rewrite sumN_zero; lia].
  split; [cbn; now rewrite sumN_zero|]. split; [intros; cbn; lia|]. split; [reflexivity|]. intros; cbn. lia.
Qed.

(* bonded tokens of validator [i] as TotalBondedTokens counts them *)
Definition bonded_of (s : state) (i : nat) : Z :=
  let v := vals s i in if v_exists v && vstatus_eqb (v_status v) Bonded then v_tokens v else 0.

Lemma total_bonded_sum e s : total_bonded e s = sumN (nval e) (bonded_of s).
Proof. reflexivity. Qed.

Lemma active_bonded s i : active s i = true ->
  v_exists (vals s i) = true /\ bonded_of s i = v_tokens (vals s i) /\ v_shares (vals s i) <> 0.
Proof.
  intros H. apply active_spec in H. destruct H as (Hc & Hs). unfold curr in Hc.
  apply andb_prop in Hc. destruct Hc as (Hc & _). apply andb_prop in Hc. destruct Hc as (Hx & Hb).
  unfold bonded_of. rewrite Hx, Hb. auto.
Qed.

(* the total voting power of the fold: at most the bonded tokens plus half a unit of 10^-18 per
   rounded term *)
Theorem tally_total_power_le e s votes :
  env_wf e -> Inv e s -> backed_all e s -> votes_wf e votes ->
  let t := tally_acc e s votes in
  let k := Z.of_nat (length votes) in let nv := Z.of_nat (nval e) in
  2 * t_total t <= 2 * PREC * total_bonded e s + nv * (2 * k + 1) /\
  RI t (4 * nv * (2 * k + 1)).
Proof.
  intros Hwf HI HB (Hnd & Hvw) t k nv. pose proof HI as (I1 & _).
  assert (Hopts : forall vt, In vt votes -> opts_wf (snd vt)) by (intros vt Hin; apply (Hvw vt Hin)).
  (* first pass *)
  pose proof (votes_TI e s votes HI Hopts acc0 0 (TI_acc0 e s)) as (R1 & pw & n & (P1 & P2 & P3 & P4) & Hn).
  set (t1 := tally_votes e s votes acc0) in *.
  replace (0 + 2 * Z.of_nat (nval e) * Z.of_nat (length votes)) with (2 * nv * k) in * by (subst nv k; lia).
  (* the deductions fit into the shares *)
  assert (Hded : forall i, active s i = true -> 0 <= t_ded t1 i <= v_shares (vals s i)).
  { intros i Hact. destruct (active_bonded s i Hact) as (Hex & _ & _).
    split; [apply P2|].
    pose proof (votes_ded_le e s votes i HI acc0) as D. fold t1 in D. cbn [acc0 t_ded] in D.
    assert (lsum (map fst votes) (fun a => own s a i) <= v_shares (vals s i)).
    { apply (voters_own_le e s); auto. intros a Ha. apply in_map_iff in Ha. destruct Ha as (vt & <- & Hin).
      destruct (Hvw vt Hin) as (? & ? & _). split; assumption. }
    lia. }
  (* second pass *)
  destruct (validators_pass e s votes (seq 0 (nval e)) HI Hopts t1 (4 * (2 * nv * k)) Hded R1) as (E1 & E2 & E3).
  rewrite <- tally_validators_fold in E1, E2, E3.
  change (tally_validators e s votes t1) with t in E1, E2, E3.
  rewrite seq_length in E3. rewrite lsum_seq in E2.
  split; [|eapply RI_mono; [exact E3|subst nv; lia]].
  (* per validator *)
  assert (Hper : forall i, (i < nval e)%nat ->
            2 * (pw i + vterm e s votes (t_ded t1) i) <= 2 * PREC * bonded_of s i + (n i + 1)).
  { intros i Hi. pose proof (P2 i) as (Hpw0 & Hn0 & Hd0). pose proof (I1 i) as (HT & HS).
    destruct (vterm_bound e s votes (t_ded t1) i HI) as (Vz & Vb).
    destruct (active s i) eqn:Hact.
    - destruct (active_bonded s i Hact) as (_ & -> & Hs0).
      destruct (Vb eq_refl (Hded i Hact)) as (Hv0 & Hvb). pose proof (P4 i) as Hp. pose proof (Hded i Hact) as (_ & HdS).
      set (S := v_shares (vals s i)) in *. set (T := v_tokens (vals s i)) in *.
      set (vt := vterm e s votes (t_ded t1) i) in *.
      assert (HSp : 0 < S) by lia.
      apply (Z.mul_le_mono_pos_l _ _ S HSp).
      ring_simplify in Hp. ring_simplify in Hvb. ring_simplify. lia.
    - rewrite (P3 i Hact), (Vz eq_refl).
      assert (0 <= bonded_of s i) by (unfold bonded_of; destruct (_ && _); lia).
      pose proof PREC_pos. assert (0 <= 2 * PREC * bonded_of s i) by (apply Z.mul_nonneg_nonneg; lia). lia. }
  rewrite E2, P1, total_bonded_sum.
  assert (Hsum : sumN (nval e) (fun i => 2 * (pw i + vterm e s votes (t_ded t1) i))
                 <= sumN (nval e) (fun i => 2 * PREC * bonded_of s i + (n i + 1))) by (apply sumN_le; exact Hper).
  assert (L1 : sumN (nval e) (fun i => 2 * (pw i + vterm e s votes (t_ded t1) i))
               = 2 * (sumN (nval e) pw + sumN (nval e) (vterm e s votes (t_ded t1)))).
  { clear. induction (nval e); cbn [sumN]; lia. }
  assert (L2 : sumN (nval e) (fun i => 2 * PREC * bonded_of s i + (n i + 1))
               = 2 * PREC * sumN (nval e) (bonded_of s) + sumN (nval e) n + nv).
  { subst nv. clear. induction (nval e) as [|m IH]; [cbn; lia|]. cbn [sumN]. rewrite IH, Nat2Z.inj_succ. ring. }
  rewrite L1, L2 in Hsum.
  assert (Hn' : sumN (nval e) n <= 2 * nv * k) by (subst nv k; unfold vote in *; lia).
  assert (Hnk : nv * (2 * k + 1) = 2 * nv * k + nv) by ring.
  clearbody nv k. clear - Hn' Hsum Hnk. lia.
Qed.

Lemma tally_results e s votes o :
  tally e s votes = Some o ->
  let res := t_res (tally_acc e s votes) in
  r_yes o = dec_trunc_int (res 0%nat) /\ r_abstain o = dec_trunc_int (res 1%nat) /\
  r_no o = dec_trunc_int (res 2%nat) /\ r_veto o = dec_trunc_int (res 3%nat).
Proof.
  unfold tally. intros H. destruct (t_panic _); [discriminate|].
  repeat match type of H with
  | (if ?b then _ else _) = Some _ => destruct b
  end; try discriminate; injection H as <-; cbn; auto.
Qed.

(** ** counted power never exceeds the bonded stake *)
Theorem tally_counted_le_bonded e s votes o :
  env_wf e -> Inv e s -> backed_all e s -> votes_wf e votes ->
  Z.of_nat (nval e) * (10 * Z.of_nat (length votes) + 5) < 2 * PREC ->
  tally e s votes = Some o ->
  counted o <= total_bonded e s.
Proof.
  intros Hwf HI HB Hv Hslack Ht.
  destruct (tally_total_power_le e s votes Hwf HI HB Hv) as (Htot & (R0 & R1)). cbv zeta in *.
  destruct (tally_results e s votes o Ht) as (Ey & Ea & En & Ev). cbv zeta in *.
  set (t := tally_acc e s votes) in *.
  pose proof (trunc_mul_le _ (R0 0%nat)). pose proof (trunc_mul_le _ (R0 1%nat)).
  pose proof (trunc_mul_le _ (R0 2%nat)). pose proof (trunc_mul_le _ (R0 3%nat)).
  unfold counted. rewrite Ey, Ea, En, Ev. unfold sum4 in R1.
  set (k := Z.of_nat (length votes)) in *. set (nv := Z.of_nat (nval e)) in *.
  pose proof PREC_pos as HP.
  set (cn := dec_trunc_int (t_res t 0%nat) + dec_trunc_int (t_res t 1%nat) + dec_trunc_int (t_res t 2%nat) + dec_trunc_int (t_res t 3%nat)).
  assert (A : 2 * (cn * PREC) <= 2 * PREC * total_bonded e s + nv * (2 * k + 1) + 4 * nv * (2 * k + 1)) by (subst cn; lia).
  assert (B : nv * (2 * k + 1) + 4 * nv * (2 * k + 1) = nv * (10 * k + 5)) by ring.
  assert (C : 2 * PREC * cn < 2 * PREC * (total_bonded e s + 1)) by (ring_simplify; ring_simplify in A; lia).
  assert (cn < total_bonded e s + 1) by (apply (Z.mul_lt_mono_pos_l (2 * PREC)); lia).
  lia.
Qed.
