(* C14 (component C14a), x/auction: ExportGenesis / Validate / InitGenesis round
   trip over the model of Model/Auction.v.  See Model/GenesisAuction.v. *)
From Coq Require Import Sorted Permutation.
From Kava Require Import Base.Prelude Base.Dec Model.Split Model.Auction Proofs.Auction Model.GenesisAuction Proofs.GenesisCommon.
Local Open Scope Z_scope.

(** * The import loop rebuilds store and index *)

Lemma key_lt_irrefl k : ~ key_lt k k.
Proof. unfold key_lt. lia. Qed.

Lemma idx_insert_in_iff x k l : In x (idx_insert k l) <-> x = k \/ In x l.
Proof.
  split; [apply idx_insert_in|].
  induction l as [|h r IH]; cbn [idx_insert In].
  - intros [->|[]]. left; reflexivity.
  - destruct (key_eqb k h) eqn:E.
    + apply key_eqb_eq in E. subst. cbn [In]. intros [->|H]; auto.
    + destruct (key_ltb k h); cbn [In]; intros [->|[->|H]]; auto.
Qed.

Definition keys_fold (l : list auction) (ix : list (Z * Z)) : list (Z * Z) :=
  fold_left (fun i a => idx_insert (akey a) i) l ix.

Lemma keys_fold_spec : forall l ix, idx_sorted ix ->
  idx_sorted (keys_fold l ix) /\ forall x, In x (keys_fold l ix) <-> In x ix \/ In x (map akey l).
Proof.
  induction l as [|a r IH]; intros ix Hs; cbn [keys_fold fold_left map In].
  - split; [exact Hs|]. intros x. tauto.
  - destruct (IH (idx_insert (akey a) ix) (idx_insert_sorted _ _ Hs)) as [A B]. split; [exact A|].
    intros x. unfold keys_fold in B. rewrite B, idx_insert_in_iff. intuition.
Qed.

Lemma set_auction_fresh b l1 ix nx a :
  Forall (fun x => a_id x < a_id a) l1 ->
  set_auction (mkState b l1 ix nx) b a = mkState b (l1 ++ [a]) (idx_insert (akey a) ix) nx.
Proof.
  intros Hlt. unfold set_auction. cbn [aucs idx bal next_id].
  rewrite (afind_fresh (a_id a) l1 Hlt), (aput_fresh a l1 Hlt). reflexivity.
Qed.

(* storing auctions with increasing ids one after the other appends them and inserts their keys *)
Lemma import_fold b nx : forall l2 l1 ix,
  ids_sorted (l1 ++ l2) ->
  fold_left (fun s a => set_auction s (bal s) a) l2 (mkState b l1 ix nx) = mkState b (l1 ++ l2) (keys_fold l2 ix) nx.
Proof.
  induction l2 as [|a r IH]; intros l1 ix Hs; cbn [fold_left keys_fold].
  - rewrite app_nil_r. reflexivity.
  - assert (Hlt : Forall (fun x => a_id x < a_id a) l1).
    { unfold ids_sorted in Hs. rewrite map_app in Hs. cbn [map] in Hs.
      apply Forall_forall. intros x Hx.
      clear - Hs Hx. induction l1 as [|h t IHt]; [destruct Hx|].
      cbn in Hs. apply StronglySorted_inv in Hs. destruct Hs as [Hs' Hall].
      destruct Hx as [->|Hx]; [|apply IHt; assumption].
      rewrite Forall_forall in Hall. apply Hall. apply in_or_app. right. left. reflexivity. }
    cbn [bal]. rewrite (set_auction_fresh b l1 ix nx a Hlt).
    rewrite (IH (l1 ++ [a]) (idx_insert (akey a) ix)) by (rewrite <- app_assoc; exact Hs).
    rewrite <- app_assoc. reflexivity.
Qed.

(** * Validate accepts the exported auctions *)

Lemma validate_aucs_ok e next : forall l seen,
  StronglySorted Z.lt (map a_id l) ->
  (forall x a, In x seen -> In a l -> x < a_id a) ->
  Forall (fun a => auc_valid e a = true /\ a_id a < next) l ->
  validate_aucs e next seen l = true.
Proof.
  induction l as [|a r IH]; intros seen Hs Hseen Hall; cbn [validate_aucs]; [reflexivity|].
  inversion Hall as [|? ? [Hv Hn] Hall']; subst. cbn [map] in Hs. apply StronglySorted_inv in Hs. destruct Hs as [Hs Hlt].
  rewrite Hv. replace (a_id a <? next) with true by (symmetry; apply Z.ltb_lt; exact Hn).
  replace (existsb (Z.eqb (a_id a)) seen) with false.
  - cbn [negb andb]. apply IH; try assumption.
    intros x a' [<-|Hx] Ha'; [|apply Hseen; [exact Hx|right; exact Ha']].
    rewrite Forall_forall in Hlt. apply Hlt, in_map, Ha'.
  - symmetry. apply Bool.not_true_iff_false. intros H. apply existsb_exists in H. destruct H as (x & Hx & E).
    apply Z.eqb_eq in E. subst. pose proof (Hseen _ a Hx (or_introl eq_refl)). lia.
Qed.

Lemma auc_valid_of_ok e a : env_wf e -> auc_ok e a -> gen_ok e a -> auc_valid e a = true.
Proof.
  intros Hwf [Hend Hlot Hbid Hdebt _ _ Hcoll] [Hpos Hw]. unfold auc_valid.
  repeat (apply andb_true_iff; split); try (apply Z.leb_le; lia); try (apply Z.ltb_lt; lia).
  destruct (a_kind a) eqn:K; [reflexivity|apply Z.leb_le; lia|].
  destruct (Hcoll eq_refl) as (Hmb & _). rewrite (Hw eq_refl).
  repeat (apply andb_true_iff; split); try reflexivity; apply Z.leb_le; lia.
Qed.

(** * The round trip *)

Theorem auction_roundtrip e denoms s :
  env_wf e -> Inv e s -> idx_sorted (idx s) -> XInv e s ->
  validate_genesis e (export_genesis s) = true /\
  init_genesis e denoms (bal s) (export_genesis s) = Ok s tt.
Proof.
  intros Hwf (Hbal & Hperm & Hids & Hnext & Hok) Hsorted HX.
  assert (Hval : validate_genesis e (export_genesis s) = true).
  { unfold validate_genesis, export_genesis. cbn [g_next g_aucs].
    apply validate_aucs_ok; [exact Hids|intros x a []|].
    unfold XInv in HX. rewrite Forall_forall in *. intros a Ha. split; [|apply Hnext, Ha].
    apply auc_valid_of_ok; [exact Hwf|apply Hok, Ha|apply HX, Ha]. }
  split; [exact Hval|].
  unfold init_genesis. rewrite Hval. cbn [negb]. unfold export_genesis at 1 2 3. cbn [g_next g_aucs].
  rewrite (import_fold (bal s) (next_id s) (aucs s) [] []) by exact Hids. cbn [app].
  replace (forallb _ denoms) with true.
  - f_equal. destruct s as [b l ix nx]. cbn [bal aucs idx next_id] in *. f_equal.
    destruct (keys_fold_spec l [] ltac:(constructor)) as [A B].
    apply (ssorted_ext key_lt key_lt_irrefl key_lt_trans); [exact A|exact Hsorted|].
    intros x. rewrite B. split.
    + intros [[]|H]. eapply Permutation_in; [apply Permutation_sym, Hperm|exact H].
    + intros H. right. eapply Permutation_in; [exact Hperm|exact H].
  - symmetry. apply forallb_forall. intros d _. apply Z.eqb_eq, Hbal.
Qed.

(** * The extra facts hold along every history *)

Lemma in_aput x a : forall l, In x (aput a l) -> x = a \/ In x l.
Proof.
  induction l as [|h r IH]; cbn [aput In]; [intros [->|[]]; auto|].
  destruct (a_id h =? a_id a); [cbn [In]; intros [->|H]; auto|].
  destruct (a_id a <? a_id h); cbn [In]; [intros [->|[->|H]]; auto|].
  intros [->|H]; [auto|]. destruct (IH H); auto.
Qed.

Lemma in_adel x id : forall l, In x (adel id l) -> In x l.
Proof.
  induction l as [|h r IH]; cbn [adel In]; [tauto|].
  destruct (a_id h =? id); cbn [In]; [tauto|]. intros [->|H]; auto.
Qed.

Lemma XInv_set e s b a : XInv e s -> gen_ok e a -> XInv e (set_auction s b a).
Proof.
  unfold XInv. rewrite !Forall_forall. intros H Ha x Hx. cbn [aucs set_auction] in Hx.
  apply in_aput in Hx. destruct Hx as [->|Hx]; [exact Ha|apply H, Hx].
Qed.

Lemma XInv_delete e s b id : XInv e s -> XInv e (delete_auction s b id).
Proof.
  unfold XInv. rewrite !Forall_forall. intros H x Hx. cbn [aucs delete_auction] in Hx. apply in_adel in Hx. apply H, Hx.
Qed.

Lemma close_XInv e s t id s' : XInv e s -> close e s t id = Ok s' tt -> XInv e s'.
Proof.
  intros HX. unfold close. destruct (afind id (aucs s)); [|discriminate]. destruct (t <? a_end a); [discriminate|].
  destruct (exec e (bal s) (payout e a)) as [b' []| |]; try discriminate. intros H; inversion H; subst. apply XInv_delete, HX.
Qed.

Lemma close_all_XInv e t : forall ids s s', XInv e s -> close_all e s t ids = Ok s' tt -> XInv e s'.
Proof.
  induction ids as [|id r IH]; intros s s' HX H; cbn [close_all] in H; [inversion H; subst; exact HX|].
  destruct (afind id (aucs s)); [|eapply IH; eassumption].
  destruct (close e s t id) as [s1 []| |] eqn:E; try discriminate. eapply IH; [eapply close_XInv; eassumption|exact H].
Qed.

Lemma start_XInv e s seller a xs s' : XInv e s -> gen_ok e a -> start e s seller a xs = Ok s' tt -> XInv e s'.
Proof.
  intros HX Ha. unfold start. destruct (negb (is_module e seller)); [discriminate|].
  destruct (exec e (bal s) xs) as [b' []| |]; try discriminate. intros H; inversion H; subst.
  unfold store_new, XInv. cbn [aucs]. apply XInv_set; assumption.
Qed.

Lemma DISTANT_FUTURE_pos : 0 < DISTANT_FUTURE. Proof. reflexivity. Qed.

(* a bid routine keeps kind, return addresses and weights; the new end time is min(t + duration, max end) *)
Lemma bid_routine_gen_ok e t a bidder d x parts a' xs :
  durs_ok e -> 0 < t -> auc_ok e a -> gen_ok e a -> bid_routine e t a bidder d x parts = Ok (a', xs) tt -> gen_ok e a'.
Proof.
  intros (D1 & D2 & D3) Ht Hok [Hpos Hw] H.
  assert (G : forall dur lot bid debt, 0 <= dur -> gen_ok e (touch e t dur a bidder lot bid debt)).
  { intros dur lot bid debt Hd. unfold gen_ok, touch. cbn. split; [|exact Hw].
    pose proof (ok_end e a Hok). destruct (a_has a); lia. }
  unfold bid_routine in H. destruct (a_kind a).
  - unfold bid_surplus in H. destruct (negb _); [discriminate|]. destruct (_ <? _); [discriminate|]. inversion H; subst. apply G, D2.
  - unfold bid_debt in H. destruct (negb _); [discriminate|]. destruct (_ <? _); [discriminate|]. destruct (_ <? _); [discriminate|].
    inversion H; subst. apply G, D2.
  - destruct (is_reverse a).
    + unfold bid_coll_rev in H. destruct (negb _); [discriminate|]. destruct (_ <? _); [discriminate|]. destruct (_ <? _); [discriminate|].
      inversion H; subst. apply G, D3.
    + unfold bid_coll_fwd in H. destruct (negb _); [discriminate|]. destruct (_ <? _); [discriminate|]. destruct (_ <? _); [discriminate|].
      inversion H; subst. apply G. destruct (_ =? _); assumption.
Qed.

Theorem step_XInv e s o s' :
  durs_ok e -> Inv e s -> XInv e s -> op_time_ok o -> step e s o = Ok s' tt -> XInv e s'.
Proof.
  intros Hd HI HX Ht H.
  destruct o as [seller ld lot bd|buyer bd bid ld lot dd debt|seller ld lot bd maxbid raddrs rws dd debt|t id bidder d x parts|t id|t]; cbn [step] in H.
  - eapply start_XInv; [exact HX| |exact H]. split; [apply DISTANT_FUTURE_pos|discriminate].
  - destruct (negb (is_module e buyer)); [discriminate|]. destruct (negb (minter e buyer)); [discriminate|].
    eapply start_XInv; [exact HX| |exact H]. split; [apply DISTANT_FUTURE_pos|discriminate].
  - destruct (weights_valid e raddrs rws) eqn:Hw; cbn [negb] in H; [|discriminate].
    eapply start_XInv; [exact HX| |exact H]. split; [apply DISTANT_FUTURE_pos|]. intros _. exact Hw.
  - unfold place_bid in H. destruct (afind id (aucs s)) as [a|] eqn:Ea; [|discriminate].
    destruct (a_end a <? t); [discriminate|].
    destruct (bid_routine e t a bidder d x parts) as [[a' xs] []| |] eqn:Eb; try discriminate.
    destruct (exec e (bal s) xs) as [b' []| |]; try discriminate. inversion H; subst.
    apply XInv_set; [exact HX|]. eapply bid_routine_gen_ok; try eassumption.
    + eapply Inv_auc_ok; eassumption.
    + unfold XInv in HX. rewrite Forall_forall in HX. apply HX. eapply afind_In; eassumption.
  - eapply close_XInv; eassumption.
  - unfold begin_block in H. eapply close_all_XInv; eassumption.
Qed.

(* histories whose successful operations satisfy C06's guard and whose bids carry positive block times *)
Fixpoint tguarded (e : env) (s : state) (ops : list op) : Prop :=
  match ops with
  | [] => True
  | o :: r => op_time_ok o /\ (forall s', step e s o = Ok s' tt -> op_okb e s o = true) /\ tguarded e (step' e s o) r
  end.

Lemma tguarded_guarded e : forall ops s, tguarded e s ops -> guarded e s ops.
Proof. induction ops as [|o r IH]; intros s H; cbn in *; [exact I|]. destruct H as (_ & A & B). split; [exact A|apply IH, B]. Qed.

Theorem run_all e : forall ops s,
  env_wf e -> durs_ok e -> Inv e s -> idx_sorted (idx s) -> XInv e s -> tguarded e s ops ->
  Inv e (run e s ops) /\ idx_sorted (idx (run e s ops)) /\ XInv e (run e s ops).
Proof.
  induction ops as [|o r IH]; intros s Hwf Hd HI Hs HX Hg; cbn [run fold_left]; [auto|].
  destruct Hg as (Ht & Hok & Hg). unfold step' in *.
  destruct (step e s o) as [s' []| |] eqn:E; try (apply IH; assumption).
  apply IH; try assumption.
  - eapply step_inv; eauto.
  - eapply step_sorted; eassumption.
  - eapply step_XInv; eassumption.
Qed.

(* every state reached from the empty store re-imports to itself *)
Theorem auction_roundtrip_reachable e denoms b nx ops :
  env_wf e -> durs_ok e -> (forall d, b (amod e) d = 0) -> tguarded e (mkState b [] [] nx) ops ->
  let s := run e (mkState b [] [] nx) ops in
  validate_genesis e (export_genesis s) = true /\ init_genesis e denoms (bal s) (export_genesis s) = Ok s tt.
Proof.
  intros Hwf Hd Hb Hg s.
  destruct (run_all e ops (mkState b [] [] nx) Hwf Hd (Inv_init e b nx Hb) ltac:(constructor) ltac:(constructor) Hg) as (A & B & C).
  apply auction_roundtrip; assumption.
Qed.
