(* Lemmas and proofs about Model/Staking.v, Model/Liquid.v and Model/Tally.v *)
From Kava Require Import Base.Prelude Base.Dec Model.Staking Model.Tally Model.Liquid.
Local Open Scope Z_scope.

(** * small facts *)
Lemma upd_eq {A} (f : nat -> A) a v x : upd f a v x = if Nat.eqb x a then v else f x.
Proof. reflexivity. Qed.
Lemma upd2_eq {A} (f : nat -> nat -> A) a d v x y :
  upd2 f a d v x y = if Nat.eqb x a && Nat.eqb y d then v else f x y.
Proof. reflexivity. Qed.
Lemma upd_same {A} (f : nat -> A) a v : upd f a v a = v.
Proof. unfold upd. now rewrite Nat.eqb_refl. Qed.
Lemma upd_other {A} (f : nat -> A) a v x : x <> a -> upd f a v x = f x.
Proof. intros H. unfold upd. destruct (Nat.eqb_spec x a); congruence. Qed.
Lemma upd2_same {A} (f : nat -> nat -> A) a d v : upd2 f a d v a d = v.
Proof. unfold upd2. now rewrite !Nat.eqb_refl. Qed.
Lemma upd2_other {A} (f : nat -> nat -> A) a d v x y : (x <> a \/ y <> d) -> upd2 f a d v x y = f x y.
Proof.
  intros H. unfold upd2. destruct (Nat.eqb_spec x a); destruct (Nat.eqb_spec y d); cbn; try reflexivity.
  destruct H; congruence.
Qed.

Lemma PREC_gt : 1 < PREC. Proof. reflexivity. Qed.

(** * the two halves of a transfer: exact effect on the state *)

(* everything except the validator record [i] and the delegation ([a],[i]) is untouched *)
Definition same_but (s s' : state) (a i : nat) : Prop :=
  (forall j, j <> i -> vals s' j = vals s j) /\
  (forall x j, (x <> a \/ j <> i) -> del s' x j = del s x j) /\
  bal s' = bal s /\ dbal s' = dbal s /\ sav s' = sav s /\ ern s' = ern s /\ dsup s' = dsup s /\
  redel s' = redel s /\ ubd s' = ubd s.

Lemma unbond_spec e s a i sh s' issued :
  unbond e s a i sh = Ok s' issued ->
  exists d v1,
    del s a i = Some d /\ sh <= d /\ v_exists (vals s i) = true /\
    (v1 = vals s i \/ (a = oper e i /\ v1 = set_jailed (vals s i) true /\
                       dec_trunc_int (tokens_from_shares (vals s i) (d - sh)) < v_minself (vals s i))) /\
    (exists v2, remove_del_shares v1 sh = Some (v2, issued) /\
       vals s' i = (if (v_shares v2 =? 0) && vstatus_eqb (v_status v2) Unbonded then set_exists v2 false else v2)) /\
    del s' a i = (if d - sh =? 0 then None else Some (d - sh)) /\
    same_but s s' a i.
Proof.
  unfold unbond. intros H.
  destruct (del s a i) as [d|] eqn:Ed; [|discriminate].
  destruct (Z.ltb_spec d sh); [discriminate|].
  destruct (v_exists (vals s i)) eqn:Ex; cbn [negb] in H; [|discriminate].
  set (jc := Nat.eqb a (oper e i) && negb (v_jailed (vals s i))) in *.
  destruct (jc && (v_shares (vals s i) =? 0)); [discriminate|].
  set (v1 := if jc && (dec_trunc_int (tokens_from_shares (vals s i) (d - sh)) <? v_minself (vals s i))
             then set_jailed (vals s i) true else vals s i) in *.
  destruct (remove_del_shares v1 sh) as [[v2 iss]|] eqn:Er; [|discriminate].
  inversion H; subst s' iss; clear H.
  exists d, v1. repeat split; auto.
  - subst v1. destruct jc eqn:Ej; cbn [andb]; [|now left].
    destruct (Z.ltb_spec (dec_trunc_int (tokens_from_shares (vals s i) (d - sh))) (v_minself (vals s i))); [|now left].
    right. apply andb_prop in Ej. destruct Ej as [Ea _]. apply Nat.eqb_eq in Ea. auto.
  - exists v2. split; [exact Er|]. cbn [set_val set_vals vals set_del]. now rewrite upd_same.
  - cbn [set_val set_vals del set_del]. now rewrite upd2_same.
  - intros j Hj. cbn [set_val set_vals vals set_del]. now rewrite upd_other.
  - intros x j Hx. cbn [set_val set_vals del set_del]. now rewrite upd2_other.
Qed.

Lemma delegate_spec s a i amt s' sh :
  delegate s a i amt false = Ok s' sh ->
  invalid_ex_rate (vals s i) = false /\
  (exists v', add_tokens_from_del (vals s i) amt = Some (v', sh) /\ vals s' i = v') /\
  del s' a i = Some (dshares s a i + sh) /\
  same_but s s' a i.
Proof.
  unfold delegate. intros H.
  destruct (invalid_ex_rate (vals s i)) eqn:Ei; [discriminate|]. cbn [andb] in H.
  destruct (add_tokens_from_del (vals s i) amt) as [[v' sh']|] eqn:Ea; [|discriminate].
  inversion H; subst s' sh'; clear H.
  repeat split; auto.
  - exists v'. split; [reflexivity|]. cbn [set_val set_vals vals set_del]. now rewrite upd_same.
  - cbn [set_val set_vals del set_del]. now rewrite upd2_same.
  - intros j Hj. cbn [set_val set_vals vals set_del]. now rewrite upd_other.
  - intros x j Hx. cbn [set_val set_vals del set_del]. now rewrite upd2_other.
Qed.

(** * validator arithmetic: tokens are conserved by remove + add *)
Lemma remove_add_tokens v sh v1 issued v2 recv :
  remove_del_shares v sh = Some (v1, issued) ->
  add_tokens_from_del v1 issued = Some (v2, recv) ->
  v_tokens v2 = v_tokens v /\ v_shares v2 = v_shares v - sh + recv /\
  v_exists v2 = v_exists v /\ v_status v2 = v_status v /\ v_jailed v2 = v_jailed v /\ v_minself v2 = v_minself v /\
  v_shares v1 = v_shares v - sh /\ v_tokens v1 = v_tokens v - issued /\ 0 <= v_tokens v1.
Proof.
  unfold remove_del_shares, add_tokens_from_del. intros Hr Ha.
  destruct (Z.eqb_spec (v_shares v - sh) 0) as [E0|E0].
  - inversion Hr; subst v1 issued; clear Hr. cbn [set_ts v_shares v_tokens] in Ha.
    rewrite E0 in Ha. cbn in Ha. inversion Ha; subst v2 recv; clear Ha. cbn.
    repeat split; try lia.
  - destruct (v_shares v =? 0); [discriminate|].
    destruct (Z.ltb_spec (v_tokens v - dec_trunc_int (tokens_from_shares v sh)) 0); [discriminate|].
    inversion Hr; subst v1 issued; clear Hr. cbn [set_ts v_shares v_tokens] in Ha.
    destruct (Z.eqb_spec (v_shares v - sh) 0); [contradiction|].
    destruct (v_tokens v - dec_trunc_int (tokens_from_shares v sh) =? 0); [discriminate|].
    inversion Ha; subst v2 recv; clear Ha. cbn.
    repeat split; try lia.
Qed.

(** * TransferDelegation: the stake moves, nothing else does *)
Definition transfer_post (e : env) (s s' : state) (i from to : nat) (sh recv : Z) : Prop :=
  exists d,
    del s from i = Some d /\ 0 < sh <= d /\
    del s' from i = (if d - sh =? 0 then None else Some (d - sh)) /\
    del s' to i = Some (dshares s to i + recv) /\
    (forall x j, (x <> from /\ x <> to) \/ j <> i -> del s' x j = del s x j) /\
    (forall j, j <> i -> vals s' j = vals s j) /\
    v_tokens (vals s' i) = v_tokens (vals s i) /\
    v_shares (vals s' i) = v_shares (vals s i) - sh + recv /\
    v_exists (vals s' i) = true /\ v_exists (vals s i) = true /\
    v_status (vals s' i) = v_status (vals s i) /\
    v_jailed (vals s' i) = v_jailed (vals s i) /\
    v_minself (vals s' i) = v_minself (vals s i) /\
    bal s' = bal s /\ ubd s' = ubd s /\ redel s' = redel s /\
    dbal s' = dbal s /\ sav s' = sav s /\ ern s' = ern s /\ dsup s' = dsup s.

Lemma transfer_spec e s i from to sh s' recv :
  from <> to ->
  transfer_delegation e s i from to sh = Ok s' recv ->
  transfer_post e s s' i from to sh recv.
Proof.
  intros Hft. unfold transfer_delegation. intros H.
  destruct (redel s from i); [discriminate|].
  destruct (Z.ltb_spec sh 0); [discriminate|].
  destruct (Z.eqb_spec sh 0); [discriminate|].
  destruct (del s from i) as [d|] eqn:Ed; [|discriminate].
  destruct (v_exists (vals s i)) eqn:Ex; cbn [negb] in H; [|discriminate].
  destruct (Nat.eqb from (oper e i) && (v_shares (vals s i) =? 0)) eqn:Ep; [discriminate|].
  destruct (Nat.eqb from (oper e i) && below_min_self (vals s i) (d - sh)) eqn:Eg; [discriminate|].
  destruct (unbond e s from i sh) as [s1 issued| |] eqn:Eu; try discriminate.
  destruct (v_exists (vals s1 i)) eqn:Ex1; cbn [negb] in H; [|discriminate].
  apply unbond_spec in Eu.
  destruct Eu as (d' & v1 & Ed' & Hle & _ & Hv1 & (v2 & Hrem & Hvals1) & Hdel1 & Hsame1).
  rewrite Ed in Ed'. inversion Ed'; subst d'; clear Ed'.
  (* the operator guard of TransferDelegation rules out the jailing branch of Unbond *)
  assert (Ev1 : v1 = vals s i).
  { destruct Hv1 as [->|(Ha & _ & Hlt)]; [reflexivity|]. exfalso.
    subst from. rewrite Nat.eqb_refl in Eg. cbn [andb] in Eg. unfold below_min_self in Eg.
    apply Z.ltb_ge in Eg. lia. }
  subst v1.
  apply delegate_spec in H. destruct H as (_ & (v' & Hadd & Hv') & Hdel2 & Hsame2).
  (* the validator was not removed in between *)
  assert (Ev2 : vals s1 i = v2).
  { rewrite Hvals1. destruct ((v_shares v2 =? 0) && vstatus_eqb (v_status v2) Unbonded) eqn:Eb; [|reflexivity].
    rewrite Hvals1 in Ex1. cbn in Ex1. discriminate. }
  rewrite Ev2 in Hadd.
  destruct (remove_add_tokens _ _ _ _ _ _ Hrem Hadd) as (Ht & Hs & Hx & Hst & Hj & Hm & _).
  destruct Hsame1 as (Hv1o & Hd1o & Hb1 & Hdb1 & Hsv1 & Her1 & Hds1 & Hr1 & Hu1).
  destruct Hsame2 as (Hv2o & Hd2o & Hb2 & Hdb2 & Hsv2 & Her2 & Hds2 & Hr2 & Hu2).
  exists d. rewrite Hv'. repeat split; try congruence; try lia.
  - rewrite Hd2o by (left; congruence). exact Hdel1.
  - rewrite Hdel2. unfold dshares. rewrite Hd1o by (left; congruence). reflexivity.
  - intros x j Hxj. rewrite Hd2o, Hd1o; [reflexivity| |]; destruct Hxj as [[? ?]|?]; auto.
  - intros j Hj'. rewrite Hv2o, Hv1o by assumption. reflexivity.
Qed.

(** * guards *)
Lemma transfer_refused_redelegation e s i from to sh :
  redel s from i = true -> transfer_delegation e s i from to sh = Err.
Proof. intros H. unfold transfer_delegation. now rewrite H. Qed.

Lemma mint_refused_redelegation e s a i amt :
  redel s a i = true -> mint e s a i amt = Err.
Proof.
  intros H. unfold mint. destruct (amt <=? 0); [reflexivity|].
  destruct (validate_unbond_amount s a i amt); [|reflexivity].
  now rewrite transfer_refused_redelegation.
Qed.

Lemma transfer_refused_min_self e s i to sh d :
  del s (oper e i) i = Some d ->
  v_shares (vals s i) <> 0 ->
  dec_trunc_int (tokens_from_shares (vals s i) (d - sh)) < v_minself (vals s i) ->
  transfer_delegation e s i (oper e i) to sh = Err.
Proof.
  intros Hd Hs Hlt. unfold transfer_delegation.
  destruct (redel s (oper e i) i); [reflexivity|].
  destruct (sh <? 0); [reflexivity|]. destruct (sh =? 0); [reflexivity|].
  rewrite Hd. destruct (negb (v_exists (vals s i))); [reflexivity|].
  rewrite Nat.eqb_refl. cbn [andb].
  destruct (Z.eqb_spec (v_shares (vals s i)) 0); [contradiction|].
  unfold below_min_self. destruct (Z.ltb_spec (dec_trunc_int (tokens_from_shares (vals s i) (d - sh))) (v_minself (vals s i))); [reflexivity|lia].
Qed.

(* the shares a mint moves never exceed the delegation (ValidateUnbondAmount caps them) *)
Lemma validate_unbond_le s a i amt sh :
  validate_unbond_amount s a i amt = Some sh ->
  exists d, del s a i = Some d /\ sh <= d /\ v_exists (vals s i) = true /\ v_tokens (vals s i) <> 0.
Proof.
  unfold validate_unbond_amount. intros H.
  destruct (v_exists (vals s i)) eqn:Ex; cbn [negb] in H; [|discriminate].
  destruct (del s a i) as [d|]; [|discriminate].
  destruct (Z.eqb_spec (v_tokens (vals s i)) 0); [discriminate|].
  destruct (d <? shares_from_tokens_trunc (vals s i) amt); [discriminate|].
  exists d. repeat split; auto.
  destruct (Z.ltb_spec d (shares_from_tokens (vals s i) amt)); inversion H; lia.
Qed.

(* a mint by the operator that would leave the self delegation below the minimum is refused *)
Lemma mint_refused_min_self e s i amt sh d :
  validate_unbond_amount s (oper e i) i amt = Some sh ->
  del s (oper e i) i = Some d ->
  v_shares (vals s i) <> 0 ->
  dec_trunc_int (tokens_from_shares (vals s i) (d - sh)) < v_minself (vals s i) ->
  mint e s (oper e i) i amt = Err.
Proof.
  intros Hv Hd Hs Hlt. unfold mint. destruct (amt <=? 0); [reflexivity|]. rewrite Hv.
  now rewrite (transfer_refused_min_self e s i (liq e) sh d).
Qed.

(** * MintDerivative / BurnDerivative *)
Lemma mint_spec e s a i amt s' minted :
  a <> liq e ->
  mint e s a i amt = Ok s' minted ->
  exists sh recv s1,
    validate_unbond_amount s a i amt = Some sh /\ minted = dec_trunc_int sh /\
    transfer_post e s s1 i a (liq e) sh recv /\
    vals s' = vals s1 /\ del s' = del s1 /\ bal s' = bal s /\ ubd s' = ubd s /\ redel s' = redel s /\
    sav s' = sav s /\ ern s' = ern s /\
    dbal s' a i = dbal s a i + minted /\ dsup s' i = dsup s i + minted /\
    (forall x j, (x <> a \/ j <> i) -> dbal s' x j = dbal s x j) /\
    (forall j, j <> i -> dsup s' j = dsup s j).
Proof.
  intros Hne. unfold mint. intros H.
  destruct (amt <=? 0); [discriminate|].
  destruct (validate_unbond_amount s a i amt) as [sh|] eqn:Ev; [|discriminate].
  destruct (transfer_delegation e s i a (liq e) sh) as [s1 recv| |] eqn:Et; try discriminate.
  inversion H; subst s' minted; clear H.
  pose proof (transfer_spec _ _ _ _ _ _ _ _ Hne Et) as Hp.
  exists sh, recv, s1. repeat split; auto.
  all: destruct Hp as (d & _ & _ & _ & _ & _ & _ & _ & _ & _ & _ & _ & _ & _ & Hb & Hu & Hr & Hdb & Hsv & Her & Hds).
  all: cbn [set_dsup set_dbal vals del bal ubd redel sav ern dbal dsup]; try congruence.
  - rewrite upd2_same. now rewrite Hdb.
  - rewrite upd_same. now rewrite Hds.
  - intros x j Hx. rewrite upd2_other by assumption. now rewrite Hdb.
  - intros j Hj. rewrite upd_other by assumption. now rewrite Hds.
Qed.

Lemma burn_spec e s a i amt s' recv :
  a <> liq e ->
  burn e s a i amt = Ok s' recv ->
  0 < amt <= dbal s a i /\
  let s0 := set_dsup (set_dbal s a i (dbal s a i - amt)) i (dsup s i - amt) in
  transfer_post e s0 s' i (liq e) a (dec_of_int amt) recv.
Proof.
  intros Hne. unfold burn. intros H.
  destruct (Z.leb_spec amt 0); [discriminate|].
  destruct (Z.ltb_spec (dbal s a i) amt); [discriminate|].
  split; [lia|]. cbv zeta. apply transfer_spec; auto.
Qed.

(** * validators at exchange rate one: every conversion is exact *)

Lemma quot_mul_cancel a b : b <> 0 -> Z.quot (a * b) b = a.
Proof. intros H. apply Z.quot_mul. exact H. Qed.

Lemma tfs_rate1 v T k : v_tokens v = T -> v_shares v = T * PREC -> 0 < T -> 0 <= k ->
  tokens_from_shares v (k * PREC) = k * PREC.
Proof.
  intros Ht Hs HT Hk. unfold tokens_from_shares, dec_quo. rewrite Ht, Hs.
  replace (k * PREC * T * PREC * PREC) with (k * PREC * PREC * (T * PREC)) by ring.
  rewrite quot_mul_cancel by (unfold PREC; lia).
  apply chop_round_exact. unfold PREC; lia.
Qed.

Lemma sft_rate1 v T amt : v_tokens v = T -> v_shares v = T * PREC -> T <> 0 ->
  shares_from_tokens v amt = amt * PREC.
Proof.
  intros Ht Hs HT. unfold shares_from_tokens, dec_quo_int. rewrite Ht, Hs.
  replace (T * PREC * amt) with (amt * PREC * T) by ring. now apply quot_mul_cancel.
Qed.

Lemma sftt_rate1 v T amt : v_tokens v = T -> v_shares v = T * PREC -> T <> 0 ->
  shares_from_tokens_trunc v amt = amt * PREC.
Proof.
  intros Ht Hs HT. unfold shares_from_tokens_trunc, dec_quo_trunc, dec_of_int, chop_trunc. rewrite Ht, Hs.
  replace (T * PREC * amt * PREC * PREC) with (amt * PREC * PREC * (T * PREC)) by ring.
  rewrite quot_mul_cancel by (unfold PREC; lia).
  apply quot_mul_cancel. unfold PREC; lia.
Qed.

Lemma remove_rate1 v T k v1 issued :
  v_tokens v = T -> v_shares v = T * PREC -> 0 <= T -> 0 <= k ->
  remove_del_shares v (k * PREC) = Some (v1, issued) ->
  issued = k /\ v_tokens v1 = T - k /\ v_shares v1 = (T - k) * PREC /\ 0 <= T - k.
Proof.
  intros Ht Hs HT Hk. unfold remove_del_shares. rewrite Hs, Ht.
  destruct (Z.eqb_spec (T * PREC - k * PREC) 0) as [E|E].
  - intros H. injection H as <- <-. cbn [set_ts v_tokens v_shares].
    assert (T = k) by (unfold PREC in *; lia). repeat split; lia.
  - destruct (Z.eqb_spec (T * PREC) 0) as [E0|E0]; [discriminate|].
    assert (0 < T) by (unfold PREC in *; lia).
    rewrite (tfs_rate1 v T k) by auto.
    replace (dec_trunc_int (k * PREC)) with k
      by (unfold dec_trunc_int; symmetry; apply quot_mul_cancel; unfold PREC; lia).
    destruct (Z.ltb_spec (T - k) 0); [discriminate|].
    intros H'. injection H' as <- <-. cbn [set_ts v_tokens v_shares]. repeat split; lia.
Qed.

Lemma add_rate1 v T amt v2 recv :
  v_tokens v = T -> v_shares v = T * PREC -> 0 <= T ->
  add_tokens_from_del v amt = Some (v2, recv) ->
  recv = amt * PREC /\ v_tokens v2 = T + amt /\ v_shares v2 = (T + amt) * PREC.
Proof.
  intros Ht Hs HT. unfold add_tokens_from_del. rewrite Hs, Ht.
  destruct (Z.eqb_spec (T * PREC) 0) as [E|E].
  - intros H. injection H as <- <-. cbn [set_ts v_tokens v_shares]. unfold dec_of_int. repeat split; lia.
  - destruct (Z.eqb_spec T 0); [discriminate|].
    rewrite (sft_rate1 v T amt) by auto.
    intros H. injection H as <- <-. cbn [set_ts v_tokens v_shares]. repeat split; lia.
Qed.

(* validator [i] is at exchange rate one and all its delegations are whole shares *)
Definition rate1 (s : state) (i : nat) : Prop :=
  v_shares (vals s i) = v_tokens (vals s i) * PREC /\ 0 <= v_tokens (vals s i) /\
  forall a, exists k, dshares s a i = k * PREC /\ 0 <= k.

(* backing with equality *)
Definition backed_eq (e : env) (s : state) (i : nat) : Prop := dsup s i * PREC = dshares s (liq e) i.

Definition same_core (s s' : state) (a i : nat) : Prop :=
  (forall j, j <> i -> vals s' j = vals s j) /\
  (forall x j, (x <> a \/ j <> i) -> del s' x j = del s x j) /\
  dbal s' = dbal s /\ sav s' = sav s /\ ern s' = ern s /\ dsup s' = dsup s /\
  redel s' = redel s /\ ubd s' = ubd s.

Lemma same_but_core s s' a i : same_but s s' a i -> same_core s s' a i.
Proof. unfold same_but, same_core. tauto. Qed.

Lemma delegate_spec_gen s a i amt sub s' sh :
  delegate s a i amt sub = Ok s' sh ->
  (exists v', add_tokens_from_del (vals s i) amt = Some (v', sh) /\ vals s' i = v') /\
  del s' a i = Some (dshares s a i + sh) /\
  same_core s s' a i /\
  (forall x, x <> a -> bal s' x = bal s x) /\ (bal s' a = if sub then bal s a - amt else bal s a) /\
  (sub = true -> amt <= bal s a).
Proof.
  unfold delegate. intros H.
  destruct (invalid_ex_rate (vals s i)); [discriminate|].
  destruct (sub && (bal s a <? amt)) eqn:Eb; [discriminate|].
  destruct (add_tokens_from_del (vals s i) amt) as [[v' sh']|] eqn:Ea; [|discriminate].
  inversion H; subst s' sh'; clear H.
  split; [|split; [|split; [|split; [|split]]]].
  - exists v'. split; [reflexivity|]. cbn [set_val set_vals vals set_del]. now rewrite upd_same.
  - cbn [set_val set_vals del set_del]. rewrite upd2_same. destruct sub; reflexivity.
  - unfold same_core. destruct sub; cbn [set_val set_vals vals del set_del set_bal dbal sav ern dsup redel ubd];
      repeat split; auto; intros; try (now rewrite upd_other); try (now rewrite upd2_other).
  - intros x Hx. destruct sub; cbn [set_val set_vals set_del set_bal bal]; [now rewrite upd_other|reflexivity].
  - destruct sub; cbn [set_val set_vals set_del set_bal bal]; [now rewrite upd_same|reflexivity].
  - intros ->. cbn [andb] in Eb. apply Z.ltb_ge in Eb. lia.
Qed.

Lemma dshares_same s s' x i : del s' x i = del s x i -> dshares s' x i = dshares s x i.
Proof. unfold dshares. now intros ->. Qed.

(* Unbond on any validator [j] keeps [rate1 s i]; on [i] itself (whole shares) it is exact *)
Lemma unbond_rate1 e s a j sh s' issued i :
  rate1 s i ->
  (j = i -> exists k, sh = k * PREC /\ 0 <= k) ->
  unbond e s a j sh = Ok s' issued ->
  rate1 s' i /\ dsup s' = dsup s /\
  (j = i -> issued * PREC = sh /\ dshares s' a i = dshares s a i - sh) /\
  (forall x, (x <> a \/ j <> i) -> dshares s' x i = dshares s x i).
Proof.
  intros (Hs & HT & Hk) Hsh Hu. apply unbond_spec in Hu.
  destruct Hu as (d & v1 & Ed & Hle & _ & Hv1 & (v2 & Hrem & Hvals) & Hdel & Hsame).
  apply same_but_core in Hsame. destruct Hsame as (Hvo & Hdo & _ & _ & _ & Hds & _ & _).
  assert (Hdsh : dshares s' a j = d - sh).
  { unfold dshares. rewrite Hdel. destruct (Z.eqb_spec (d - sh) 0); lia. }
  assert (Hoth : forall x, (x <> a \/ j <> i) -> dshares s' x i = dshares s x i).
  { intros x Hx. apply dshares_same. apply Hdo. destruct Hx; [left|right]; congruence. }
  destruct (Nat.eq_dec j i) as [->|Hne].
  - destruct (Hsh eq_refl) as (k & -> & Hk0).
    assert (Ht1 : v_tokens v1 = v_tokens (vals s i) /\ v_shares v1 = v_shares (vals s i)).
    { destruct Hv1 as [->|(_ & -> & _)]; split; reflexivity. }
    destruct Ht1 as (Ht1 & Hs1).
    destruct (remove_rate1 v1 (v_tokens (vals s i)) k v2 issued Ht1 ltac:(congruence) HT Hk0 Hrem) as (Hi & Ht2 & Hs2 & Hge).
    assert (Hv' : v_tokens (vals s' i) = v_tokens v2 /\ v_shares (vals s' i) = v_shares v2).
    { rewrite Hvals. destruct (_ && _); split; reflexivity. }
    destruct Hv' as (Ht' & Hs').
    split; [|split; [exact Hds|split; [|exact Hoth]]].
    + split; [|split]; [rewrite Hs', Ht'; lia | rewrite Ht'; lia |].
      intros x. destruct (Nat.eq_dec x a) as [->|Hx].
      * destruct (Hk a) as (k0 & Hk0' & Hk0''). exists (k0 - k). rewrite Hdsh.
        unfold dshares in Hk0'. rewrite Ed in Hk0'. split; [lia|]. unfold PREC in *; lia.
      * rewrite Hoth by tauto. apply Hk.
    + intros _. split; [lia|]. rewrite Hdsh. unfold dshares. now rewrite Ed.
  - split; [|split; [exact Hds|split; [intros; congruence|exact Hoth]]].
    split; [|split]; rewrite ?Hvo by congruence; auto.
    intros x. rewrite Hoth by tauto. apply Hk.
Qed.

Lemma delegate_rate1 s a j amt sub s' recv i :
  rate1 s i -> 0 <= amt ->
  delegate s a j amt sub = Ok s' recv ->
  rate1 s' i /\ dsup s' = dsup s /\
  (j = i -> recv = amt * PREC /\ dshares s' a i = dshares s a i + recv) /\
  (forall x, (x <> a \/ j <> i) -> dshares s' x i = dshares s x i).
Proof.
  intros (Hs & HT & Hk) Hamt Hd. apply delegate_spec_gen in Hd.
  destruct Hd as ((v' & Hadd & Hv') & Hdel & Hsame & _).
  destruct Hsame as (Hvo & Hdo & _ & _ & _ & Hds & _ & _).
  assert (Hoth : forall x, (x <> a \/ j <> i) -> dshares s' x i = dshares s x i).
  { intros x Hx. apply dshares_same. apply Hdo. destruct Hx; [left|right]; congruence. }
  destruct (Nat.eq_dec j i) as [->|Hne].
  - destruct (add_rate1 _ _ _ _ _ eq_refl Hs HT Hadd) as (Hr & Ht2 & Hs2).
    assert (Hdsh : dshares s' a i = dshares s a i + recv) by (unfold dshares at 1; now rewrite Hdel).
    split; [|split; [exact Hds|split; [auto|exact Hoth]]].
    split; [|split]; [rewrite Hv'; lia | rewrite Hv'; lia |].
    intros x. destruct (Nat.eq_dec x a) as [->|Hx].
    + destruct (Hk a) as (k0 & Hk0' & Hk0''). exists (k0 + amt). rewrite Hdsh, Hk0', Hr. split; lia.
    + rewrite Hoth by tauto. apply Hk.
  - split; [|split; [exact Hds|split; [intros; congruence|exact Hoth]]].
    split; [|split]; rewrite ?Hvo by congruence; auto.
    intros x. rewrite Hoth by tauto. apply Hk.
Qed.

(* the share amounts the messages compute are whole shares on a rate-one validator *)
Lemma validate_rate1 s a i amt sh :
  rate1 s i -> 0 < amt -> validate_unbond_amount s a i amt = Some sh ->
  exists k, sh = k * PREC /\ 0 <= k.
Proof.
  intros (Hs & HT & Hk). intros Hamt. unfold validate_unbond_amount. intros H.
  destruct (negb (v_exists (vals s i))); [discriminate|].
  destruct (del s a i) as [d|] eqn:Ed; [|discriminate].
  destruct (Z.eqb_spec (v_tokens (vals s i)) 0) as [|HT0]; [discriminate|].
  rewrite (sft_rate1 _ _ amt eq_refl Hs HT0) in H.
  destruct (d <? _); [discriminate|].
  destruct (d <? amt * PREC).
  - inversion H; subst. destruct (Hk a) as (k & Hk' & Hk''). unfold dshares in Hk'. rewrite Ed in Hk'. eauto.
  - inversion H; subst. exists amt. split; lia.
Qed.

(** * the model invariant *)
Definition env_wf (e : env) : Prop := (liq e < nacc e)%nat.

Definition Inv (e : env) (s : state) : Prop :=
  (forall j, 0 <= v_tokens (vals s j) /\ 0 <= v_shares (vals s j)) /\
  (forall j, v_exists (vals s j) = true -> v_shares (vals s j) = sumN (nacc e) (fun a => dshares s a j)) /\
  (forall a j, 0 <= dshares s a j) /\
  (forall j, dsup s j = sumN (nacc e) (fun a => held s a j)) /\
  (forall a j, 0 <= dbal s a j /\ 0 <= sav s a j /\ 0 <= ern s a j) /\
  (forall a, 0 <= bal s a /\ 0 <= ubd s a).

Lemma sumN_ext n f g : (forall x, (x < n)%nat -> f x = g x) -> sumN n f = sumN n g.
Proof. induction n; intros H; cbn [sumN]; [reflexivity|]. rewrite IHn by (intros; apply H; lia). rewrite H by lia. reflexivity. Qed.

Lemma sumN_change n f g a : (a < n)%nat -> (forall x, x <> a -> g x = f x) -> sumN n g = sumN n f - f a + g a.
Proof.
  induction n as [|n IH]; intros Ha H; [lia|]. cbn [sumN].
  destruct (Nat.eq_dec a n) as [->|Hne].
  - rewrite (sumN_ext n g f) by (intros; apply H; lia). lia.
  - rewrite IH by (auto; lia). rewrite (H n) by lia. lia.
Qed.

Lemma sumN_nonneg n f : (forall a, 0 <= f a) -> 0 <= sumN n f.
Proof. intros H; induction n; cbn [sumN]; [lia|]. specialize (H n). lia. Qed.

Lemma sumN_ge1 n f a : (forall x, 0 <= f x) -> (a < n)%nat -> f a <= sumN n f.
Proof.
  intros H Ha. pose proof (sumN_change n f (fun x => if Nat.eqb x a then 0 else f x) a Ha) as E.
  cbv beta in E. rewrite Nat.eqb_refl in E.
  assert (0 <= sumN n (fun x => if Nat.eqb x a then 0 else f x)).
  { apply sumN_nonneg. intros x. destruct (Nat.eqb x a); [lia|apply H]. }
  rewrite E in H0; [lia|]. intros x Hx. destruct (Nat.eqb_spec x a); congruence.
Qed.

Lemma held_core s s' a i x j : same_core s s' a i -> held s' x j = held s x j.
Proof. intros (_ & _ & Hdb & Hsv & Her & _). unfold held. now rewrite Hdb, Hsv, Her. Qed.

(* one validator record and one delegation change, consistently *)
Lemma inv_update e s s' a j :
  (a < nacc e)%nat -> Inv e s -> same_core s s' a j ->
  0 <= v_tokens (vals s' j) -> 0 <= v_shares (vals s' j) -> 0 <= dshares s' a j ->
  (v_exists (vals s' j) = true ->
     v_exists (vals s j) = true /\
     v_shares (vals s' j) - v_shares (vals s j) = dshares s' a j - dshares s a j) ->
  (forall x, 0 <= bal s' x) ->
  Inv e s'.
Proof.
  intros Ha (I1 & I2 & I3 & I4 & I5 & I6) Hc Ht Hs0 Hd Hsh Hb.
  pose proof Hc as (Hvo & Hdo & Hdb & Hsv & Her & Hds & Hr & Hu).
  assert (Hoth : forall x i, (x <> a \/ i <> j) -> dshares s' x i = dshares s x i).
  { intros x i Hx. apply dshares_same. now apply Hdo. }
  split; [|split; [|split; [|split; [|split]]]].
  - intros i. destruct (Nat.eq_dec i j) as [->|Hi]; [split; assumption|]. rewrite Hvo by exact Hi. apply I1.
  - intros i Hex. destruct (Nat.eq_dec i j) as [->|Hi].
    + destruct (Hsh Hex) as (Hex0 & Hdiff).
      rewrite (sumN_change (nacc e) (fun x => dshares s x j) (fun x => dshares s' x j) a Ha)
        by (intros x Hx; apply Hoth; now left).
      rewrite <- (I2 j Hex0). lia.
    + rewrite Hvo in * by exact Hi. rewrite (I2 i Hex). apply sumN_ext. intros x _. symmetry. apply Hoth. now right.
  - intros x i. destruct (Nat.eq_dec x a) as [->|Hx]; [destruct (Nat.eq_dec i j) as [->|Hi]|].
    + exact Hd.
    + rewrite Hoth by now right. apply I3.
    + rewrite Hoth by now left. apply I3.
  - intros i. rewrite Hds, I4. apply sumN_ext. intros x _. symmetry. eapply held_core; eauto.
  - intros x i. rewrite Hdb, Hsv, Her. apply I5.
  - intros x. split; [apply Hb|]. rewrite Hu. apply I6.
Qed.

Lemma tfs_nonneg v sh : 0 <= sh -> 0 <= v_tokens v -> 0 < v_shares v -> 0 <= dec_trunc_int (tokens_from_shares v sh).
Proof.
  intros. unfold dec_trunc_int, tokens_from_shares. apply Z.quot_pos; [|unfold PREC; lia].
  apply dec_quo_nonneg; [nia|lia].
Qed.

Lemma unbond_inv e s a j sh s' issued :
  (a < nacc e)%nat -> Inv e s -> 0 <= sh ->
  unbond e s a j sh = Ok s' issued -> Inv e s' /\ 0 <= issued.
Proof.
  intros Ha HI Hsh Hu. pose proof HI as (I1 & I2 & I3 & I4 & I5 & I6).
  apply unbond_spec in Hu.
  destruct Hu as (d & v1 & Ed & Hle & Hex & Hv1 & (v2 & Hrem & Hvals) & Hdel & Hsame).
  assert (Hdsh : dshares s' a j = d - sh).
  { unfold dshares. rewrite Hdel. destruct (Z.eqb_spec (d - sh) 0); lia. }
  assert (Hd0 : dshares s a j = d) by (unfold dshares; now rewrite Ed).
  assert (Ht1 : v_tokens v1 = v_tokens (vals s j) /\ v_shares v1 = v_shares (vals s j) /\ v_exists v1 = true).
  { destruct Hv1 as [->|(_ & -> & _)]; repeat split; auto. }
  destruct Ht1 as (Ht1 & Hs1 & Hx1).
  assert (HS : v_shares (vals s j) = sumN (nacc e) (fun x => dshares s x j)) by (apply I2; exact Hex).
  assert (HdS : d <= v_shares (vals s j)).
  { rewrite HS, <- Hd0. apply (sumN_ge1 (nacc e) (fun x => dshares s x j)); [intros; apply I3|exact Ha]. }
  (* what RemoveDelShares did *)
  assert (Hr : v_shares v2 = v_shares (vals s j) - sh /\ 0 <= v_tokens v2 /\ 0 <= issued /\ v_exists v2 = true).
  { unfold remove_del_shares in Hrem. rewrite Hs1, Ht1 in Hrem.
    destruct (Z.eqb_spec (v_shares (vals s j) - sh) 0).
    - injection Hrem as <- <-. cbn. repeat split; auto; try lia. apply I1.
    - destruct (Z.eqb_spec (v_shares (vals s j)) 0); [discriminate|].
      pose proof (I1 j) as (? & ?).
      destruct (Z.ltb_spec (v_tokens (vals s j) - dec_trunc_int (tokens_from_shares v1 sh)) 0); [discriminate|].
      injection Hrem as <- <-. cbn. repeat split; auto; try lia.
      apply tfs_nonneg; [lia|rewrite Ht1; lia|rewrite Hs1; lia]. }
  destruct Hr as (Hs2 & Ht2 & Hi0 & Hx2).
  split; [|exact Hi0].
  apply (inv_update e s s' a j Ha HI (same_but_core _ _ _ _ Hsame)).
  - rewrite Hvals. destruct (_ && _); exact Ht2.
  - rewrite Hvals. destruct (_ && _); cbn [set_exists v_shares]; lia.
  - lia.
  - intros Hex'. split; [exact Hex|]. rewrite Hvals in *. destruct (_ && _); [cbn in Hex'; discriminate|]. lia.
  - intros x. destruct Hsame as (_ & _ & Hb & _). rewrite Hb. apply I6.
Qed.

Lemma delegate_inv e s a j amt sub s' recv :
  (a < nacc e)%nat -> Inv e s -> 0 <= amt ->
  delegate s a j amt sub = Ok s' recv -> Inv e s' /\ 0 <= recv.
Proof.
  intros Ha HI Hamt Hd. pose proof HI as (I1 & I2 & I3 & I4 & I5 & I6).
  apply delegate_spec_gen in Hd.
  destruct Hd as ((v' & Hadd & Hv') & Hdel & Hsame & Hbo & Hba & Hsub).
  assert (Hdsh : dshares s' a j = dshares s a j + recv) by (unfold dshares at 1; now rewrite Hdel).
  pose proof (I1 j) as (HT & HS).
  assert (Hr : 0 <= recv /\ v_tokens v' = v_tokens (vals s j) + amt /\ v_shares v' = v_shares (vals s j) + recv /\
               v_exists v' = v_exists (vals s j)).
  { unfold add_tokens_from_del in Hadd.
    destruct (Z.eqb_spec (v_shares (vals s j)) 0).
    - injection Hadd as <- <-. cbn. unfold dec_of_int. repeat split; auto; unfold PREC; lia.
    - destruct (Z.eqb_spec (v_tokens (vals s j)) 0); [discriminate|].
      injection Hadd as <- <-. cbn. repeat split; auto.
      unfold shares_from_tokens, dec_quo_int. apply Z.quot_pos; [nia|lia]. }
  destruct Hr as (Hr0 & Ht' & Hs' & Hx').
  split; [|exact Hr0].
  apply (inv_update e s s' a j Ha HI Hsame); rewrite ?Hv'.
  - lia.
  - lia.
  - specialize (I3 a j). lia.
  - intros Hex. split; [congruence|]. lia.
  - intros x. destruct (Nat.eq_dec x a) as [->|Hx].
    + rewrite Hba. destruct sub; [specialize (Hsub eq_refl); lia|apply I6].
    + rewrite Hbo by exact Hx. apply I6.
Qed.
