(* Lemmas and proofs about Model/Staking.v, Model/Liquid.v and Model/Tally.v *)
From Kava Require Import Base.Prelude Base.Dec Model.Staking Model.Tally Model.Liquid.
Local Open Scope Z_scope.

(** * small facts *)
Lemma upd_eq {A} (f : nat -> A) a v x : upd f a v x = if Nat.eqb x a then v else f x.
Proof. reflexivity. Qed.
Lemma upd2_eq {A} (f : nat -> nat -> A) a d v x y :
  upd2 f a d v x y = if Nat.eqb x a && Nat.eqb y d then v else f x y.
Proof. reflexivity. Qed.
Lemma upd_same {A} (f : nat -> A) a v : upd f a v a = v.
Proof. unfold upd. now rewrite Nat.eqb_refl. Qed.
Lemma upd_other {A} (f : nat -> A) a v x : x <> a -> upd f a v x = f x.
Proof. intros H. unfold upd. destruct (Nat.eqb_spec x a); congruence. Qed.
Lemma upd2_same {A} (f : nat -> nat -> A) a d v : upd2 f a d v a d = v.
Proof. unfold upd2. now rewrite !Nat.eqb_refl. Qed.
Lemma upd2_other {A} (f : nat -> nat -> A) a d v x y : (x <> a \/ y <> d) -> upd2 f a d v x y = f x y.
Proof.
  intros H. unfold upd2. destruct (Nat.eqb_spec x a); destruct (Nat.eqb_spec y d); cbn; try reflexivity.
  destruct H; congruence.
Qed.

Lemma PREC_gt : 1 < PREC. Proof. reflexivity. Qed.

(** * the two halves of a transfer: exact effect on the state *)

(* everything except the validator record [i] and the delegation ([a],[i]) is untouched *)
Definition same_but (s s' : state) (a i : nat) : Prop :=
  (forall j, j <> i -> vals s' j = vals s j) /\
  (forall x j, (x <> a \/ j <> i) -> del s' x j = del s x j) /\
  bal s' = bal s /\ dbal s' = dbal s /\ sav s' = sav s /\ ern s' = ern s /\ dsup s' = dsup s /\
  redel s' = redel s /\ ubd s' = ubd s.

Lemma unbond_spec e s a i sh s' issued :
  unbond e s a i sh = Ok s' issued ->
  exists d v1,
    del s a i = Some d /\ sh <= d /\ v_exists (vals s i) = true /\
    (v1 = vals s i \/ (a = oper e i /\ v1 = set_jailed (vals s i) true /\
                       dec_trunc_int (tokens_from_shares (vals s i) (d - sh)) < v_minself (vals s i))) /\
    (exists v2, remove_del_shares v1 sh = Some (v2, issued) /\
       vals s' i = (if (v_shares v2 =? 0) && vstatus_eqb (v_status v2) Unbonded then set_exists v2 false else v2)) /\
    del s' a i = (if d - sh =? 0 then None else Some (d - sh)) /\
    same_but s s' a i.
Proof.
  unfold unbond. intros H.
  destruct (del s a i) as [d|] eqn:Ed; [|discriminate].
  destruct (Z.ltb_spec d sh); [discriminate|].
  destruct (v_exists (vals s i)) eqn:Ex; cbn [negb] in H; [|discriminate].
  set (jc := Nat.eqb a (oper e i) && negb (v_jailed (vals s i))) in *.
  destruct (jc && (v_shares (vals s i) =? 0)); [discriminate|].
  set (v1 := if jc && (dec_trunc_int (tokens_from_shares (vals s i) (d - sh)) <? v_minself (vals s i))
             then set_jailed (vals s i) true else vals s i) in *.
  destruct (remove_del_shares v1 sh) as [[v2 iss]|] eqn:Er; [|discriminate].
  inversion H; subst s' iss; clear H.
  exists d, v1. repeat split; auto.
  - subst v1. destruct jc eqn:Ej; cbn [andb]; [|now left].
    destruct (Z.ltb_spec (dec_trunc_int (tokens_from_shares (vals s i) (d - sh))) (v_minself (vals s i))); [|now left].
    right. apply andb_prop in Ej. destruct Ej as [Ea _]. apply Nat.eqb_eq in Ea. auto.
  - exists v2. split; [exact Er|]. cbn [set_val set_vals vals set_del]. now rewrite upd_same.
  - cbn [set_val set_vals del set_del]. now rewrite upd2_same.
  - intros j Hj. cbn [set_val set_vals vals set_del]. now rewrite upd_other.
  - intros x j Hx. cbn [set_val set_vals del set_del]. now rewrite upd2_other.
Qed.

Lemma delegate_spec s a i amt s' sh :
  delegate s a i amt false = Ok s' sh ->
  invalid_ex_rate (vals s i) = false /\
  (exists v', add_tokens_from_del (vals s i) amt = Some (v', sh) /\ vals s' i = v') /\
  del s' a i = Some (dshares s a i + sh) /\
  same_but s s' a i.
Proof.
  unfold delegate. intros H.
  destruct (invalid_ex_rate (vals s i)) eqn:Ei; [discriminate|]. cbn [andb] in H.
  destruct (add_tokens_from_del (vals s i) amt) as [[v' sh']|] eqn:Ea; [|discriminate].
  inversion H; subst s' sh'; clear H.
  repeat split; auto.
  - exists v'. split; [reflexivity|]. cbn [set_val set_vals vals set_del]. now rewrite upd_same.
  - cbn [set_val set_vals del set_del]. now rewrite upd2_same.
  - intros j Hj. cbn [set_val set_vals vals set_del]. now rewrite upd_other.
  - intros x j Hx. cbn [set_val set_vals del set_del]. now rewrite upd2_other.
Qed.

(** * validator arithmetic: tokens are conserved by remove + add *)
Lemma remove_add_tokens v sh v1 issued v2 recv :
  remove_del_shares v sh = Some (v1, issued) ->
  add_tokens_from_del v1 issued = Some (v2, recv) ->
  v_tokens v2 = v_tokens v /\ v_shares v2 = v_shares v - sh + recv /\
  v_exists v2 = v_exists v /\ v_status v2 = v_status v /\ v_jailed v2 = v_jailed v /\ v_minself v2 = v_minself v /\
  v_shares v1 = v_shares v - sh /\ v_tokens v1 = v_tokens v - issued /\ 0 <= v_tokens v1.
Proof.
  unfold remove_del_shares, add_tokens_from_del. intros Hr Ha.
  destruct (Z.eqb_spec (v_shares v - sh) 0) as [E0|E0].
  - inversion Hr; subst v1 issued; clear Hr. cbn [set_ts v_shares v_tokens] in Ha.
    rewrite E0 in Ha. cbn in Ha. inversion Ha; subst v2 recv; clear Ha. cbn.
    repeat split; try lia.
  - destruct (v_shares v =? 0); [discriminate|].
    destruct (Z.ltb_spec (v_tokens v - dec_trunc_int (tokens_from_shares v sh)) 0); [discriminate|].
    inversion Hr; subst v1 issued; clear Hr. cbn [set_ts v_shares v_tokens] in Ha.
    destruct (Z.eqb_spec (v_shares v - sh) 0); [contradiction|].
    destruct (v_tokens v - dec_trunc_int (tokens_from_shares v sh) =? 0); [discriminate|].
    inversion Ha; subst v2 recv; clear Ha. cbn.
    repeat split; try lia.
Qed.

(** * TransferDelegation: the stake moves, nothing else does *)
Definition transfer_post (e : env) (s s' : state) (i from to : nat) (sh recv : Z) : Prop :=
  exists d,
    del s from i = Some d /\ 0 < sh <= d /\
    del s' from i = (if d - sh =? 0 then None else Some (d - sh)) /\
    (forall x j, (x <> from /\ x <> to) \/ j <> i -> del s' x j = del s x j) /\
    (forall j, j <> i -> vals s' j = vals s j) /\
    v_tokens (vals s' i) = v_tokens (vals s i) /\
    v_shares (vals s' i) = v_shares (vals s i) - sh + recv /\
    v_exists (vals s i) = true /\
    v_status (vals s' i) = v_status (vals s i) /\
    v_jailed (vals s' i) = v_jailed (vals s i) /\
    v_minself (vals s' i) = v_minself (vals s i) /\
    bal s' = bal s /\ ubd s' = ubd s /\ redel s' = redel s /\
    dbal s' = dbal s /\ sav s' = sav s /\ ern s' = ern s /\ dsup s' = dsup s /\
    (* either the shares were worth less than one token and nothing reached the receiver,
       or the receiver's delegation grew by the shares received *)
    ((recv = 0 /\ del s' to i = del s to i) \/
     (del s' to i = Some (dshares s to i + recv) /\ v_exists (vals s' i) = true)).

Lemma transfer_spec e s i from to sh s' recv :
  from <> to ->
  transfer_delegation e s i from to sh = Ok s' recv ->
  transfer_post e s s' i from to sh recv.
Proof.
  intros Hft. unfold transfer_delegation. intros H.
  destruct (redel s from i); [discriminate|].
  destruct (Z.ltb_spec sh 0); [discriminate|].
  destruct (Z.eqb_spec sh 0); [discriminate|].
  destruct (del s from i) as [d|] eqn:Ed; [|discriminate].
  destruct (v_exists (vals s i)) eqn:Ex; cbn [negb] in H; [|discriminate].
  destruct (Nat.eqb from (oper e i) && (v_shares (vals s i) =? 0)) eqn:Ep; [discriminate|].
  destruct (Nat.eqb from (oper e i) && below_min_self (vals s i) (d - sh)) eqn:Eg; [discriminate|].
  destruct (unbond e s from i sh) as [s1 issued| |] eqn:Eu; try discriminate.
  apply unbond_spec in Eu.
  destruct Eu as (d' & v1 & Ed' & Hle & _ & Hv1 & (v2 & Hrem & Hvals1) & Hdel1 & Hsame1).
  rewrite Ed in Ed'. inversion Ed'; subst d'; clear Ed'.
  (* the operator guard of TransferDelegation rules out the jailing branch of Unbond *)
  assert (Ev1 : v1 = vals s i).
  { destruct Hv1 as [->|(Ha & _ & Hlt)]; [reflexivity|]. exfalso.
    subst from. rewrite Nat.eqb_refl in Eg. cbn [andb] in Eg. unfold below_min_self in Eg.
    apply Z.ltb_ge in Eg. lia. }
  subst v1.
  destruct Hsame1 as (Hv1o & Hd1o & Hb1 & Hdb1 & Hsv1 & Her1 & Hds1 & Hr1 & Hu1).
  destruct (Z.eqb_spec issued 0) as [Hi0|Hi0].
  - (* nothing to re-delegate *)
    inversion H; subst s' recv; clear H.
    assert (Hr2 : v_tokens v2 = v_tokens (vals s i) /\ v_shares v2 = v_shares (vals s i) - sh /\
                  v_status v2 = v_status (vals s i) /\ v_jailed v2 = v_jailed (vals s i) /\ v_minself v2 = v_minself (vals s i)).
    { unfold remove_del_shares in Hrem.
      destruct (Z.eqb_spec (v_shares (vals s i) - sh) 0).
      - injection Hrem as <- Hiss. cbn. repeat split; lia.
      - destruct (Z.eqb_spec (v_shares (vals s i)) 0); [discriminate|].
        destruct (Z.ltb_spec (v_tokens (vals s i) - dec_trunc_int (tokens_from_shares (vals s i) sh)) 0); [discriminate|].
        injection Hrem as <- Hiss. cbn. repeat split; lia. }
    destruct Hr2 as (Ht2 & Hs2 & Hst2 & Hj2 & Hm2).
    assert (Hvv : v_tokens (vals s1 i) = v_tokens v2 /\ v_shares (vals s1 i) = v_shares v2 /\ v_status (vals s1 i) = v_status v2 /\
                  v_jailed (vals s1 i) = v_jailed v2 /\ v_minself (vals s1 i) = v_minself v2).
    { rewrite Hvals1. destruct ((v_shares v2 =? 0) && vstatus_eqb (v_status v2) Unbonded); cbn; repeat split; reflexivity. }
    destruct Hvv as (A1 & A2 & A3 & A4 & A5).
    exists d. repeat split; try congruence; try lia.
    + intros x j Hxj. apply Hd1o. destruct Hxj as [[? ?]|?]; auto.
    + exact Hv1o.
    + left. split; [reflexivity|]. apply Hd1o. left. congruence.
  - destruct (v_exists (vals s1 i)) eqn:Ex1; cbn [negb] in H; [|discriminate].
    apply delegate_spec in H. destruct H as (_ & (v' & Hadd & Hv') & Hdel2 & Hsame2).
    (* the validator was not removed in between *)
    assert (Ev2 : vals s1 i = v2).
    { rewrite Hvals1. destruct ((v_shares v2 =? 0) && vstatus_eqb (v_status v2) Unbonded) eqn:Eb; [|reflexivity].
      rewrite Hvals1 in Ex1. cbn in Ex1. discriminate. }
    rewrite Ev2 in Hadd.
    destruct (remove_add_tokens _ _ _ _ _ _ Hrem Hadd) as (Ht & Hs & Hx & Hst & Hj & Hm & _).
    destruct Hsame2 as (Hv2o & Hd2o & Hb2 & Hdb2 & Hsv2 & Her2 & Hds2 & Hr2 & Hu2).
    exists d. rewrite Hv'. repeat split; try congruence; try lia.
    + rewrite Hd2o by (left; congruence). exact Hdel1.
    + intros x j Hxj. rewrite Hd2o, Hd1o; [reflexivity| |]; destruct Hxj as [[? ?]|?]; auto.
    + intros j Hj'. rewrite Hv2o, Hv1o by assumption. reflexivity.
    + right. split; [|congruence]. rewrite Hdel2. unfold dshares. rewrite Hd1o by (left; congruence). reflexivity.
Qed.

(** * guards *)
Lemma transfer_refused_redelegation e s i from to sh :
  redel s from i = true -> transfer_delegation e s i from to sh = Err.
Proof. intros H. unfold transfer_delegation. now rewrite H. Qed.

Lemma mint_refused_redelegation e s a i amt :
  redel s a i = true -> mint e s a i amt = Err.
Proof.
  intros H. unfold mint. destruct (amt <=? 0); [reflexivity|].
  destruct (validate_unbond_amount s a i amt); [|reflexivity].
  now rewrite transfer_refused_redelegation.
Qed.

Lemma transfer_refused_min_self e s i to sh d :
  del s (oper e i) i = Some d ->
  v_shares (vals s i) <> 0 ->
  dec_trunc_int (tokens_from_shares (vals s i) (d - sh)) < v_minself (vals s i) ->
  transfer_delegation e s i (oper e i) to sh = Err.
Proof.
  intros Hd Hs Hlt. unfold transfer_delegation.
  destruct (redel s (oper e i) i); [reflexivity|].
  destruct (sh <? 0); [reflexivity|]. destruct (sh =? 0); [reflexivity|].
  rewrite Hd. destruct (negb (v_exists (vals s i))); [reflexivity|].
  rewrite Nat.eqb_refl. cbn [andb].
  destruct (Z.eqb_spec (v_shares (vals s i)) 0); [contradiction|].
  unfold below_min_self. destruct (Z.ltb_spec (dec_trunc_int (tokens_from_shares (vals s i) (d - sh))) (v_minself (vals s i))); [reflexivity|lia].
Qed.

(* the shares a mint moves never exceed the delegation (ValidateUnbondAmount caps them) *)
Lemma validate_unbond_le s a i amt sh :
  validate_unbond_amount s a i amt = Some sh ->
  exists d, del s a i = Some d /\ sh <= d /\ v_exists (vals s i) = true /\ v_tokens (vals s i) <> 0.
Proof.
  unfold validate_unbond_amount. intros H.
  destruct (v_exists (vals s i)) eqn:Ex; cbn [negb] in H; [|discriminate].
  destruct (del s a i) as [d|]; [|discriminate].
  destruct (Z.eqb_spec (v_tokens (vals s i)) 0); [discriminate|].
  destruct (d <? shares_from_tokens_trunc (vals s i) amt); [discriminate|].
  exists d. repeat split; auto.
  destruct (Z.ltb_spec d (shares_from_tokens (vals s i) amt)); inversion H; lia.
Qed.

(* a mint by the operator that would leave the self delegation below the minimum is refused *)
Lemma mint_refused_min_self e s i amt sh d :
  validate_unbond_amount s (oper e i) i amt = Some sh ->
  del s (oper e i) i = Some d ->
  v_shares (vals s i) <> 0 ->
  dec_trunc_int (tokens_from_shares (vals s i) (d - sh)) < v_minself (vals s i) ->
  mint e s (oper e i) i amt = Err.
Proof.
  intros Hv Hd Hs Hlt. unfold mint. destruct (amt <=? 0); [reflexivity|]. rewrite Hv.
  now rewrite (transfer_refused_min_self e s i (liq e) sh d).
Qed.

(** * MintDerivative / BurnDerivative *)
Lemma mint_spec e s a i amt s' minted :
  a <> liq e ->
  mint e s a i amt = Ok s' minted ->
  exists sh recv s1,
    validate_unbond_amount s a i amt = Some sh /\
    minted = Z.min (dec_trunc_int sh) (dec_trunc_int recv) /\ 0 < minted /\
    transfer_post e s s1 i a (liq e) sh recv /\
    vals s' = vals s1 /\ del s' = del s1 /\ bal s' = bal s /\ ubd s' = ubd s /\ redel s' = redel s /\
    sav s' = sav s /\ ern s' = ern s /\
    dbal s' a i = dbal s a i + minted /\ dsup s' i = dsup s i + minted /\
    (forall x j, (x <> a \/ j <> i) -> dbal s' x j = dbal s x j) /\
    (forall j, j <> i -> dsup s' j = dsup s j).
Proof.
  intros Hne. unfold mint. intros H.
  destruct (amt <=? 0); [discriminate|].
  destruct (validate_unbond_amount s a i amt) as [sh|] eqn:Ev; [|discriminate].
  destruct (transfer_delegation e s i a (liq e) sh) as [s1 recv| |] eqn:Et; try discriminate.
  destruct (Z.leb_spec (Z.min (dec_trunc_int sh) (dec_trunc_int recv)) 0); [discriminate|].
  inversion H; subst s' minted; clear H.
  pose proof (transfer_spec _ _ _ _ _ _ _ _ Hne Et) as Hp.
  exists sh, recv, s1. repeat split; auto; try lia.
  all: destruct Hp as (d & _ & _ & _ & _ & _ & _ & _ & _ & _ & _ & _ & Hb & Hu & Hr & Hdb & Hsv & Her & Hds & _).
  all: cbn [set_dsup set_dbal vals del bal ubd redel sav ern dbal dsup]; try congruence.
  - rewrite upd2_same. now rewrite Hdb.
  - rewrite upd_same. now rewrite Hds.
  - intros x j Hx. rewrite upd2_other by assumption. now rewrite Hdb.
  - intros j Hj. rewrite upd_other by assumption. now rewrite Hds.
Qed.

Lemma burn_spec e s a i amt s' recv :
  a <> liq e ->
  burn e s a i amt = Ok s' recv ->
  0 < amt <= dbal s a i /\
  let s0 := set_dsup (set_dbal s a i (dbal s a i - amt)) i (dsup s i - amt) in
  transfer_post e s0 s' i (liq e) a (dec_of_int amt) recv.
Proof.
  intros Hne. unfold burn. intros H.
  destruct (Z.leb_spec amt 0); [discriminate|].
  destruct (Z.ltb_spec (dbal s a i) amt); [discriminate|].
  split; [lia|]. cbv zeta. apply transfer_spec; auto.
Qed.

(** * validators at exchange rate one: every conversion is exact *)

Lemma quot_mul_cancel a b : b <> 0 -> Z.quot (a * b) b = a.
Proof. intros H. apply Z.quot_mul. exact H. Qed.

Lemma tfs_rate1 v T k : v_tokens v = T -> v_shares v = T * PREC -> 0 < T -> 0 <= k ->
  tokens_from_shares v (k * PREC) = k * PREC.
Proof.
  intros Ht Hs HT Hk. unfold tokens_from_shares, dec_quo. rewrite Ht, Hs.
  replace (k * PREC * T * PREC * PREC) with (k * PREC * PREC * (T * PREC)) by ring.
  rewrite quot_mul_cancel by (unfold PREC; lia).
  apply chop_round_exact. unfold PREC; lia.
Qed.

Lemma sft_rate1 v T amt : v_tokens v = T -> v_shares v = T * PREC -> T <> 0 ->
  shares_from_tokens v amt = amt * PREC.
Proof.
  intros Ht Hs HT. unfold shares_from_tokens, dec_quo_int. rewrite Ht, Hs.
  replace (T * PREC * amt) with (amt * PREC * T) by ring. now apply quot_mul_cancel.
Qed.

Lemma sftt_rate1 v T amt : v_tokens v = T -> v_shares v = T * PREC -> T <> 0 ->
  shares_from_tokens_trunc v amt = amt * PREC.
Proof.
  intros Ht Hs HT. unfold shares_from_tokens_trunc, dec_quo_trunc, dec_of_int, chop_trunc. rewrite Ht, Hs.
  replace (T * PREC * amt * PREC * PREC) with (amt * PREC * PREC * (T * PREC)) by ring.
  rewrite quot_mul_cancel by (unfold PREC; lia).
  apply quot_mul_cancel. unfold PREC; lia.
Qed.

Lemma remove_rate1 v T k v1 issued :
  v_tokens v = T -> v_shares v = T * PREC -> 0 <= T -> 0 <= k ->
  remove_del_shares v (k * PREC) = Some (v1, issued) ->
  issued = k /\ v_tokens v1 = T - k /\ v_shares v1 = (T - k) * PREC /\ 0 <= T - k.
Proof.
  intros Ht Hs HT Hk. unfold remove_del_shares. rewrite Hs, Ht.
  destruct (Z.eqb_spec (T * PREC - k * PREC) 0) as [E|E].
  - intros H. injection H as <- <-. cbn [set_ts v_tokens v_shares].
    assert (T = k) by (unfold PREC in *; lia). repeat split; lia.
  - destruct (Z.eqb_spec (T * PREC) 0) as [E0|E0]; [discriminate|].
    assert (0 < T) by (unfold PREC in *; lia).
    rewrite (tfs_rate1 v T k) by auto.
    replace (dec_trunc_int (k * PREC)) with k
      by (unfold dec_trunc_int; symmetry; apply quot_mul_cancel; unfold PREC; lia).
    destruct (Z.ltb_spec (T - k) 0); [discriminate|].
    intros H'. injection H' as <- <-. cbn [set_ts v_tokens v_shares]. repeat split; lia.
Qed.

Lemma add_rate1 v T amt v2 recv :
  v_tokens v = T -> v_shares v = T * PREC -> 0 <= T ->
  add_tokens_from_del v amt = Some (v2, recv) ->
  recv = amt * PREC /\ v_tokens v2 = T + amt /\ v_shares v2 = (T + amt) * PREC.
Proof.
  intros Ht Hs HT. unfold add_tokens_from_del. rewrite Hs, Ht.
  destruct (Z.eqb_spec (T * PREC) 0) as [E|E].
  - intros H. injection H as <- <-. cbn [set_ts v_tokens v_shares]. unfold dec_of_int. repeat split; lia.
  - destruct (Z.eqb_spec T 0); [discriminate|].
    rewrite (sft_rate1 v T amt) by auto.
    intros H. injection H as <- <-. cbn [set_ts v_tokens v_shares]. repeat split; lia.
Qed.

(* validator [i] is at exchange rate one and all its delegations are whole shares *)
Definition rate1 (s : state) (i : nat) : Prop :=
  v_shares (vals s i) = v_tokens (vals s i) * PREC /\ 0 <= v_tokens (vals s i) /\
  forall a, exists k, dshares s a i = k * PREC /\ 0 <= k.

(* backing with equality *)
Definition backed_eq (e : env) (s : state) (i : nat) : Prop := dsup s i * PREC = dshares s (liq e) i.

Definition same_core (s s' : state) (a i : nat) : Prop :=
  (forall j, j <> i -> vals s' j = vals s j) /\
  (forall x j, (x <> a \/ j <> i) -> del s' x j = del s x j) /\
  dbal s' = dbal s /\ sav s' = sav s /\ ern s' = ern s /\ dsup s' = dsup s /\
  redel s' = redel s /\ ubd s' = ubd s.

Lemma same_but_core s s' a i : same_but s s' a i -> same_core s s' a i.
Proof. unfold same_but, same_core. tauto. Qed.

Lemma delegate_spec_gen s a i amt sub s' sh :
  delegate s a i amt sub = Ok s' sh ->
  (exists v', add_tokens_from_del (vals s i) amt = Some (v', sh) /\ vals s' i = v') /\
  del s' a i = Some (dshares s a i + sh) /\
  same_core s s' a i /\
  (forall x, x <> a -> bal s' x = bal s x) /\ (bal s' a = if sub then bal s a - amt else bal s a) /\
  (sub = true -> amt <= bal s a).
Proof.
  unfold delegate. intros H.
  destruct (invalid_ex_rate (vals s i)); [discriminate|].
  destruct (sub && (bal s a <? amt)) eqn:Eb; [discriminate|].
  destruct (add_tokens_from_del (vals s i) amt) as [[v' sh']|] eqn:Ea; [|discriminate].
  inversion H; subst s' sh'; clear H.
  split; [|split; [|split; [|split; [|split]]]].
  - exists v'. split; [reflexivity|]. cbn [set_val set_vals vals set_del]. now rewrite upd_same.
  - cbn [set_val set_vals del set_del]. rewrite upd2_same. destruct sub; reflexivity.
  - unfold same_core. destruct sub; cbn [set_val set_vals vals del set_del set_bal dbal sav ern dsup redel ubd];
      repeat split; auto; intros; try (now rewrite upd_other); try (now rewrite upd2_other).
  - intros x Hx. destruct sub; cbn [set_val set_vals set_del set_bal bal]; [now rewrite upd_other|reflexivity].
  - destruct sub; cbn [set_val set_vals set_del set_bal bal]; [now rewrite upd_same|reflexivity].
  - intros ->. cbn [andb] in Eb. apply Z.ltb_ge in Eb. lia.
Qed.

Lemma dshares_same s s' x i : del s' x i = del s x i -> dshares s' x i = dshares s x i.
Proof. unfold dshares. now intros ->. Qed.

(* Unbond on any validator [j] keeps [rate1 s i]; on [i] itself (whole shares) it is exact *)
Lemma unbond_rate1 e s a j sh s' issued i :
  rate1 s i ->
  (j = i -> exists k, sh = k * PREC /\ 0 <= k) ->
  unbond e s a j sh = Ok s' issued ->
  rate1 s' i /\ dsup s' = dsup s /\
  (j = i -> issued * PREC = sh /\ dshares s' a i = dshares s a i - sh) /\
  (forall x, (x <> a \/ j <> i) -> dshares s' x i = dshares s x i).
Proof.
  intros (Hs & HT & Hk) Hsh Hu. apply unbond_spec in Hu.
  destruct Hu as (d & v1 & Ed & Hle & _ & Hv1 & (v2 & Hrem & Hvals) & Hdel & Hsame).
  apply same_but_core in Hsame. destruct Hsame as (Hvo & Hdo & _ & _ & _ & Hds & _ & _).
  assert (Hdsh : dshares s' a j = d - sh).
  { unfold dshares. rewrite Hdel. destruct (Z.eqb_spec (d - sh) 0); lia. }
  assert (Hoth : forall x, (x <> a \/ j <> i) -> dshares s' x i = dshares s x i).
  { intros x Hx. apply dshares_same. apply Hdo. destruct Hx; [left|right]; congruence. }
  destruct (Nat.eq_dec j i) as [->|Hne].
  - destruct (Hsh eq_refl) as (k & -> & Hk0).
    assert (Ht1 : v_tokens v1 = v_tokens (vals s i) /\ v_shares v1 = v_shares (vals s i)).
    { destruct Hv1 as [->|(_ & -> & _)]; split; reflexivity. }
    destruct Ht1 as (Ht1 & Hs1).
    destruct (remove_rate1 v1 (v_tokens (vals s i)) k v2 issued Ht1 ltac:(congruence) HT Hk0 Hrem) as (Hi & Ht2 & Hs2 & Hge).
    assert (Hv' : v_tokens (vals s' i) = v_tokens v2 /\ v_shares (vals s' i) = v_shares v2).
    { rewrite Hvals. destruct (_ && _); split; reflexivity. }
    destruct Hv' as (Ht' & Hs').
    split; [|split; [exact Hds|split; [|exact Hoth]]].
    + split; [|split]; [rewrite Hs', Ht'; lia | rewrite Ht'; lia |].
      intros x. destruct (Nat.eq_dec x a) as [->|Hx].
      * destruct (Hk a) as (k0 & Hk0' & Hk0''). exists (k0 - k). rewrite Hdsh.
        unfold dshares in Hk0'. rewrite Ed in Hk0'. split; [lia|]. unfold PREC in *; lia.
      * rewrite Hoth by tauto. apply Hk.
    + intros _. split; [lia|]. rewrite Hdsh. unfold dshares. now rewrite Ed.
  - split; [|split; [exact Hds|split; [intros; congruence|exact Hoth]]].
    split; [|split]; rewrite ?Hvo by congruence; auto.
    intros x. rewrite Hoth by tauto. apply Hk.
Qed.

Lemma delegate_rate1 s a j amt sub s' recv i :
  rate1 s i -> 0 <= amt ->
  delegate s a j amt sub = Ok s' recv ->
  rate1 s' i /\ dsup s' = dsup s /\
  (j = i -> recv = amt * PREC /\ dshares s' a i = dshares s a i + recv) /\
  (forall x, (x <> a \/ j <> i) -> dshares s' x i = dshares s x i).
Proof.
  intros (Hs & HT & Hk) Hamt Hd. apply delegate_spec_gen in Hd.
  destruct Hd as ((v' & Hadd & Hv') & Hdel & Hsame & _).
  destruct Hsame as (Hvo & Hdo & _ & _ & _ & Hds & _ & _).
  assert (Hoth : forall x, (x <> a \/ j <> i) -> dshares s' x i = dshares s x i).
  { intros x Hx. apply dshares_same. apply Hdo. destruct Hx; [left|right]; congruence. }
  destruct (Nat.eq_dec j i) as [->|Hne].
  - destruct (add_rate1 _ _ _ _ _ eq_refl Hs HT Hadd) as (Hr & Ht2 & Hs2).
    assert (Hdsh : dshares s' a i = dshares s a i + recv) by (unfold dshares at 1; now rewrite Hdel).
    split; [|split; [exact Hds|split; [auto|exact Hoth]]].
    split; [|split]; [rewrite Hv'; lia | rewrite Hv'; lia |].
    intros x. destruct (Nat.eq_dec x a) as [->|Hx].
    + destruct (Hk a) as (k0 & Hk0' & Hk0''). exists (k0 + amt). rewrite Hdsh, Hk0', Hr. split; lia.
    + rewrite Hoth by tauto. apply Hk.
  - split; [|split; [exact Hds|split; [intros; congruence|exact Hoth]]].
    split; [|split]; rewrite ?Hvo by congruence; auto.
    intros x. rewrite Hoth by tauto. apply Hk.
Qed.

(* the share amounts the messages compute are whole shares on a rate-one validator *)
Lemma validate_rate1 s a i amt sh :
  rate1 s i -> 0 < amt -> validate_unbond_amount s a i amt = Some sh ->
  exists k, sh = k * PREC /\ 0 <= k.
Proof.
  intros (Hs & HT & Hk). intros Hamt. unfold validate_unbond_amount. intros H.
  destruct (negb (v_exists (vals s i))); [discriminate|].
  destruct (del s a i) as [d|] eqn:Ed; [|discriminate].
  destruct (Z.eqb_spec (v_tokens (vals s i)) 0) as [|HT0]; [discriminate|].
  rewrite (sft_rate1 _ _ amt eq_refl Hs HT0) in H.
  destruct (d <? _); [discriminate|].
  destruct (d <? amt * PREC).
  - inversion H; subst. destruct (Hk a) as (k & Hk' & Hk''). unfold dshares in Hk'. rewrite Ed in Hk'. eauto.
  - inversion H; subst. exists amt. split; lia.
Qed.

(** * the model invariant *)
Definition env_wf (e : env) : Prop := (liq e < nacc e)%nat.

Definition Inv (e : env) (s : state) : Prop :=
  (forall j, 0 <= v_tokens (vals s j) /\ 0 <= v_shares (vals s j)) /\
  (forall j, v_exists (vals s j) = true -> v_shares (vals s j) = sumN (nacc e) (fun a => dshares s a j)) /\
  (forall a j, 0 <= dshares s a j) /\
  (forall j, dsup s j = sumN (nacc e) (fun a => held s a j)) /\
  (forall a j, 0 <= dbal s a j /\ 0 <= sav s a j /\ 0 <= ern s a j) /\
  (forall a, 0 <= bal s a /\ 0 <= ubd s a).

Lemma sumN_ext n f g : (forall x, (x < n)%nat -> f x = g x) -> sumN n f = sumN n g.
Proof. induction n; intros H; cbn [sumN]; [reflexivity|]. rewrite IHn by (intros; apply H; lia). rewrite H by lia. reflexivity. Qed.

Lemma sumN_change n f g a : (a < n)%nat -> (forall x, x <> a -> g x = f x) -> sumN n g = sumN n f - f a + g a.
Proof.
  induction n as [|n IH]; intros Ha H; [lia|]. cbn [sumN].
  destruct (Nat.eq_dec a n) as [->|Hne].
  - rewrite (sumN_ext n g f) by (intros; apply H; lia). lia.
  - rewrite IH by (auto; lia). rewrite (H n) by lia. lia.
Qed.

Lemma sumN_nonneg n f : (forall a, 0 <= f a) -> 0 <= sumN n f.
Proof. intros H; induction n; cbn [sumN]; [lia|]. specialize (H n). lia. Qed.

Lemma sumN_ge1 n f a : (forall x, 0 <= f x) -> (a < n)%nat -> f a <= sumN n f.
Proof.
  intros H Ha. pose proof (sumN_change n f (fun x => if Nat.eqb x a then 0 else f x) a Ha) as E.
  cbv beta in E. rewrite Nat.eqb_refl in E.
  assert (0 <= sumN n (fun x => if Nat.eqb x a then 0 else f x)).
  { apply sumN_nonneg. intros x. destruct (Nat.eqb x a); [lia|apply H]. }
  rewrite E in H0; [lia|]. intros x Hx. destruct (Nat.eqb_spec x a); congruence.
Qed.

Lemma held_core s s' a i x j : same_core s s' a i -> held s' x j = held s x j.
Proof. intros (_ & _ & Hdb & Hsv & Her & _). unfold held. now rewrite Hdb, Hsv, Her. Qed.

(* one validator record and one delegation change, consistently *)
Lemma inv_update e s s' a j :
  (a < nacc e)%nat -> Inv e s -> same_core s s' a j ->
  0 <= v_tokens (vals s' j) -> 0 <= v_shares (vals s' j) -> 0 <= dshares s' a j ->
  (v_exists (vals s' j) = true ->
     v_exists (vals s j) = true /\
     v_shares (vals s' j) - v_shares (vals s j) = dshares s' a j - dshares s a j) ->
  (forall x, 0 <= bal s' x) ->
  Inv e s'.
Proof.
  intros Ha (I1 & I2 & I3 & I4 & I5 & I6) Hc Ht Hs0 Hd Hsh Hb.
  pose proof Hc as (Hvo & Hdo & Hdb & Hsv & Her & Hds & Hr & Hu).
  assert (Hoth : forall x i, (x <> a \/ i <> j) -> dshares s' x i = dshares s x i).
  { intros x i Hx. apply dshares_same. now apply Hdo. }
  split; [|split; [|split; [|split; [|split]]]].
  - intros i. destruct (Nat.eq_dec i j) as [->|Hi]; [split; assumption|]. rewrite Hvo by exact Hi. apply I1.
  - intros i Hex. destruct (Nat.eq_dec i j) as [->|Hi].
    + destruct (Hsh Hex) as (Hex0 & Hdiff).
      rewrite (sumN_change (nacc e) (fun x => dshares s x j) (fun x => dshares s' x j) a Ha)
        by (intros x Hx; apply Hoth; now left).
      rewrite <- (I2 j Hex0). lia.
    + rewrite Hvo in * by exact Hi. rewrite (I2 i Hex). apply sumN_ext. intros x _. symmetry. apply Hoth. now right.
  - intros x i. destruct (Nat.eq_dec x a) as [->|Hx]; [destruct (Nat.eq_dec i j) as [->|Hi]|].
    + exact Hd.
    + rewrite Hoth by now right. apply I3.
    + rewrite Hoth by now left. apply I3.
  - intros i. rewrite Hds, I4. apply sumN_ext. intros x _. symmetry. eapply held_core; eauto.
  - intros x i. rewrite Hdb, Hsv, Her. apply I5.
  - intros x. split; [apply Hb|]. rewrite Hu. apply I6.
Qed.

Lemma tfs_nonneg v sh : 0 <= sh -> 0 <= v_tokens v -> 0 < v_shares v -> 0 <= dec_trunc_int (tokens_from_shares v sh).
Proof.
  intros. unfold dec_trunc_int, tokens_from_shares. apply Z.quot_pos; [|unfold PREC; lia].
  apply dec_quo_nonneg; [nia|lia].
Qed.

Lemma unbond_inv e s a j sh s' issued :
  (a < nacc e)%nat -> Inv e s -> 0 <= sh ->
  unbond e s a j sh = Ok s' issued -> Inv e s' /\ 0 <= issued.
Proof.
  intros Ha HI Hsh Hu. pose proof HI as (I1 & I2 & I3 & I4 & I5 & I6).
  apply unbond_spec in Hu.
  destruct Hu as (d & v1 & Ed & Hle & Hex & Hv1 & (v2 & Hrem & Hvals) & Hdel & Hsame).
  assert (Hdsh : dshares s' a j = d - sh).
  { unfold dshares. rewrite Hdel. destruct (Z.eqb_spec (d - sh) 0); lia. }
  assert (Hd0 : dshares s a j = d) by (unfold dshares; now rewrite Ed).
  assert (Ht1 : v_tokens v1 = v_tokens (vals s j) /\ v_shares v1 = v_shares (vals s j) /\ v_exists v1 = true).
  { destruct Hv1 as [->|(_ & -> & _)]; repeat split; auto. }
  destruct Ht1 as (Ht1 & Hs1 & Hx1).
  assert (HS : v_shares (vals s j) = sumN (nacc e) (fun x => dshares s x j)) by (apply I2; exact Hex).
  assert (HdS : d <= v_shares (vals s j)).
  { rewrite HS, <- Hd0. apply (sumN_ge1 (nacc e) (fun x => dshares s x j)); [intros; apply I3|exact Ha]. }
  (* what RemoveDelShares did *)
  assert (Hr : v_shares v2 = v_shares (vals s j) - sh /\ 0 <= v_tokens v2 /\ 0 <= issued /\ v_exists v2 = true).
  { unfold remove_del_shares in Hrem. rewrite Hs1, Ht1 in Hrem.
    destruct (Z.eqb_spec (v_shares (vals s j) - sh) 0).
    - injection Hrem as <- <-. cbn. repeat split; auto; try lia. apply I1.
    - destruct (Z.eqb_spec (v_shares (vals s j)) 0); [discriminate|].
      pose proof (I1 j) as (? & ?).
      destruct (Z.ltb_spec (v_tokens (vals s j) - dec_trunc_int (tokens_from_shares v1 sh)) 0); [discriminate|].
      injection Hrem as <- <-. cbn. repeat split; auto; try lia.
      apply tfs_nonneg; [lia|rewrite Ht1; lia|rewrite Hs1; lia]. }
  destruct Hr as (Hs2 & Ht2 & Hi0 & Hx2).
  split; [|exact Hi0].
  apply (inv_update e s s' a j Ha HI (same_but_core _ _ _ _ Hsame)).
  - rewrite Hvals. destruct (_ && _); exact Ht2.
  - rewrite Hvals. destruct (_ && _); cbn [set_exists v_shares]; lia.
  - lia.
  - intros Hex'. split; [exact Hex|]. rewrite Hvals in *. destruct (_ && _); [cbn in Hex'; discriminate|]. lia.
  - intros x. destruct Hsame as (_ & _ & Hb & _). rewrite Hb. apply I6.
Qed.

Lemma delegate_inv e s a j amt sub s' recv :
  (a < nacc e)%nat -> Inv e s -> 0 <= amt ->
  delegate s a j amt sub = Ok s' recv -> Inv e s' /\ 0 <= recv.
Proof.
  intros Ha HI Hamt Hd. pose proof HI as (I1 & I2 & I3 & I4 & I5 & I6).
  apply delegate_spec_gen in Hd.
  destruct Hd as ((v' & Hadd & Hv') & Hdel & Hsame & Hbo & Hba & Hsub).
  assert (Hdsh : dshares s' a j = dshares s a j + recv) by (unfold dshares at 1; now rewrite Hdel).
  pose proof (I1 j) as (HT & HS).
  assert (Hr : 0 <= recv /\ v_tokens v' = v_tokens (vals s j) + amt /\ v_shares v' = v_shares (vals s j) + recv /\
               v_exists v' = v_exists (vals s j)).
  { unfold add_tokens_from_del in Hadd.
    destruct (Z.eqb_spec (v_shares (vals s j)) 0).
    - injection Hadd as <- <-. cbn. unfold dec_of_int. repeat split; auto; unfold PREC; lia.
    - destruct (Z.eqb_spec (v_tokens (vals s j)) 0); [discriminate|].
      injection Hadd as <- <-. cbn. repeat split; auto.
      unfold shares_from_tokens, dec_quo_int. apply Z.quot_pos; [nia|lia]. }
  destruct Hr as (Hr0 & Ht' & Hs' & Hx').
  split; [|exact Hr0].
  apply (inv_update e s s' a j Ha HI Hsame); rewrite ?Hv'.
  - lia.
  - lia.
  - specialize (I3 a j). lia.
  - intros Hex. split; [congruence|]. lia.
  - intros x. destruct (Nat.eq_dec x a) as [->|Hx].
    + rewrite Hba. destruct sub; [specialize (Hsub eq_refl); lia|apply I6].
    + rewrite Hbo by exact Hx. apply I6.
Qed.

Lemma validate_nonneg e s a i amt sh :
  Inv e s -> 0 < amt -> validate_unbond_amount s a i amt = Some sh -> 0 <= sh.
Proof.
  intros (I1 & _ & I3 & _) Hamt. unfold validate_unbond_amount. intros H.
  destruct (negb (v_exists (vals s i))); [discriminate|].
  destruct (del s a i) as [d|] eqn:Ed; [|discriminate].
  destruct (Z.eqb_spec (v_tokens (vals s i)) 0); [discriminate|].
  destruct (d <? shares_from_tokens_trunc (vals s i) amt); [discriminate|].
  pose proof (I1 i) as (HT & HS). pose proof (I3 a i) as Hd. unfold dshares in Hd. rewrite Ed in Hd.
  assert (0 <= shares_from_tokens (vals s i) amt).
  { unfold shares_from_tokens, dec_quo_int. apply Z.quot_pos; [nia|lia]. }
  destruct (d <? shares_from_tokens (vals s i) amt); inversion H; lia.
Qed.

Lemma transfer_form e s i from to sh s' recv :
  transfer_delegation e s i from to sh = Ok s' recv ->
  0 < sh /\ redel s from i = false /\
  exists s1 issued, unbond e s from i sh = Ok s1 issued /\
    ((issued = 0 /\ s' = s1 /\ recv = 0) \/ (issued <> 0 /\ delegate s1 to i issued false = Ok s' recv)).
Proof.
  unfold transfer_delegation. intros H.
  destruct (redel s from i); [discriminate|].
  destruct (Z.ltb_spec sh 0); [discriminate|].
  destruct (Z.eqb_spec sh 0); [discriminate|].
  destruct (del s from i); [|discriminate].
  destruct (negb (v_exists (vals s i))); [discriminate|].
  destruct (_ && (v_shares (vals s i) =? 0)); [discriminate|].
  destruct (_ && below_min_self _ _); [discriminate|].
  destruct (unbond e s from i sh) as [s1 issued| |]; try discriminate.
  split; [lia|]. split; [reflexivity|]. exists s1, issued. split; [reflexivity|].
  destruct (Z.eqb_spec issued 0).
  - left. inversion H. auto.
  - right. destruct (negb (v_exists (vals s1 i))); [discriminate|]. auto.
Qed.

Lemma transfer_inv e s i from to sh s' recv :
  (from < nacc e)%nat -> (to < nacc e)%nat -> Inv e s ->
  transfer_delegation e s i from to sh = Ok s' recv -> Inv e s' /\ 0 <= recv.
Proof.
  intros Hf Ht HI H. apply transfer_form in H. destruct H as (Hsh & _ & s1 & issued & Hu & Hc).
  assert (Hsh0 : 0 <= sh) by lia.
  destruct (unbond_inv _ _ _ _ _ _ _ Hf HI Hsh0 Hu) as (HI1 & Hi0).
  destruct Hc as [(_ & -> & ->)|(_ & Hd)]; [split; [exact HI1|lia]|].
  exact (delegate_inv _ _ _ _ _ _ _ _ Ht HI1 Hi0 Hd).
Qed.

(* changes that touch neither validators nor delegations *)
Lemma inv_of_parts e s s' :
  Inv e s -> vals s' = vals s -> del s' = del s ->
  (forall j, dsup s' j = sumN (nacc e) (fun a => held s' a j)) ->
  (forall a j, 0 <= dbal s' a j /\ 0 <= sav s' a j /\ 0 <= ern s' a j) ->
  (forall a, 0 <= bal s' a /\ 0 <= ubd s' a) ->
  Inv e s'.
Proof.
  intros (I1 & I2 & I3 & _) Hv Hd H4 H5 H6.
  assert (Hds : forall a j, dshares s' a j = dshares s a j) by (intros; unfold dshares; now rewrite Hd).
  split; [|split; [|split; [|split; [|split]]]]; auto.
  - intros j. rewrite Hv. apply I1.
  - intros j. rewrite Hv. intros Hex. rewrite (I2 j Hex). apply sumN_ext. intros. now rewrite Hds.
  - intros a j. rewrite Hds. apply I3.
Qed.

(* validator records change but keep their shares; nothing else changes *)
Lemma inv_set_vals e s f :
  Inv e s ->
  (forall j, 0 <= v_tokens (f j) /\ v_shares (f j) = v_shares (vals s j) /\
             (v_exists (f j) = true -> v_exists (vals s j) = true)) ->
  Inv e (set_vals s f).
Proof.
  intros (I1 & I2 & I3 & I4 & I5 & I6) Hf.
  split; [|split; [|split; [|split; [|split]]]]; cbn [set_vals vals del dsup dbal sav ern bal ubd]; auto.
  - intros j. destruct (Hf j) as (? & -> & _). split; [assumption|apply I1].
  - intros j Hex. destruct (Hf j) as (_ & -> & Hx). now apply I2, Hx.
Qed.

Lemma inv_set_val e s i v' :
  Inv e s -> 0 <= v_tokens v' -> v_shares v' = v_shares (vals s i) ->
  (v_exists v' = true -> v_exists (vals s i) = true) -> Inv e (set_val s i v').
Proof.
  intros HI Ht Hs Hx. apply inv_set_vals; [exact HI|]. intros j. rewrite upd_eq.
  destruct (Nat.eqb_spec j i) as [->|]; [auto|]. pose proof HI as (I1 & _). repeat split; auto. apply I1.
Qed.

Lemma sumN_add n f h : sumN n (fun x => f x + h x) = sumN n f + sumN n h.
Proof. induction n; cbn [sumN]; lia. Qed.

Lemma sumN_ind n a c : (a < n)%nat -> sumN n (fun x => if Nat.eqb x a then c else 0) = c.
Proof.
  intros Ha. rewrite (sumN_change n (fun _ => 0) _ a Ha).
  - rewrite Nat.eqb_refl. assert (sumN n (fun _ => 0) = 0) by (clear; induction n; cbn [sumN]; lia). lia.
  - intros x Hx. destruct (Nat.eqb_spec x a); congruence.
Qed.

Lemma sumN_zero_out n a c : (n <= a)%nat -> sumN n (fun x => if Nat.eqb x a then c else 0) = 0.
Proof. induction n; intros H; cbn [sumN]; [reflexivity|]. rewrite IHn by lia. destruct (Nat.eqb_spec n a); lia. Qed.

(* the derivative holdings change for validator [i]; [dsup] follows the total *)
Lemma inv_held e s s' i :
  Inv e s -> vals s' = vals s -> del s' = del s -> bal s' = bal s -> ubd s' = ubd s ->
  (forall j, j <> i -> dsup s' j = dsup s j) ->
  (forall a j, j <> i -> held s' a j = held s a j) ->
  dsup s' i - dsup s i = sumN (nacc e) (fun a => held s' a i - held s a i) ->
  (forall a j, 0 <= dbal s' a j /\ 0 <= sav s' a j /\ 0 <= ern s' a j) ->
  Inv e s'.
Proof.
  intros HI Hv Hd Hb Hu Hso Hho Hsum H5. pose proof HI as (_ & _ & _ & I4 & _ & I6).
  apply (inv_of_parts e s s' HI Hv Hd); auto.
  - intros j. destruct (Nat.eq_dec j i) as [->|Hj].
    + assert (sumN (nacc e) (fun a => held s' a i) = sumN (nacc e) (fun a => held s a i) + sumN (nacc e) (fun a => held s' a i - held s a i)).
      { rewrite <- sumN_add. apply sumN_ext. intros. lia. }
      rewrite H, <- I4. lia.
    + rewrite Hso, I4 by exact Hj. apply sumN_ext. intros. symmetry. now apply Hho.
  - intros a. rewrite Hb, Hu. apply I6.
Qed.

Lemma inv_dbal_change e s a i x :
  (a < nacc e)%nat -> Inv e s -> 0 <= dbal s a i + x ->
  Inv e (set_dsup (set_dbal s a i (dbal s a i + x)) i (dsup s i + x)).
Proof.
  intros Ha HI Hx. pose proof HI as (_ & _ & _ & _ & I5 & _).
  apply (inv_held e s _ i HI); cbn [set_dsup set_dbal vals del bal ubd dsup]; auto.
  - intros j Hj. now rewrite upd_other.
  - intros b j Hj. unfold held. cbn [set_dsup set_dbal dbal sav ern]. rewrite upd2_other by (now right). reflexivity.
  - rewrite upd_same.
    rewrite (sumN_ext _ _ (fun b => if Nat.eqb b a then x else 0)); [rewrite sumN_ind by exact Ha; lia|].
    intros b _. unfold held. cbn [set_dsup set_dbal dbal sav ern]. rewrite upd2_eq.
    destruct (Nat.eqb_spec b a) as [->|]; cbn [andb]; [rewrite Nat.eqb_refl|]; lia.
  - intros b j. cbn [set_dsup set_dbal dbal sav ern]. rewrite upd2_eq.
    destruct (Nat.eqb b a && Nat.eqb j i) eqn:E; [|apply I5].
    apply andb_prop in E. destruct E as (E1 & E2). apply Nat.eqb_eq in E1, E2. subst.
    pose proof (I5 a i). lia.
Qed.

Lemma lift_ok {A} (f : A -> output) r s' o : lift f r = Ok s' o -> exists x, r = Ok s' x.
Proof. destruct r; cbn; intros H; inversion H; eauto. Qed.

Theorem step_inv e s o s' out : env_wf e -> Inv e s -> step e s o = Ok s' out -> Inv e s'.
Proof.
  intros Hwf HI H. unfold env_wf in Hwf. pose proof HI as (I1 & I2 & I3 & I4 & I5 & I6).
  destruct o as [a i amt|a i amt|a src dst amt|i power factor|i|i|m|a i amt|a i amt|a b i amt|p a i amt|p a i amt|votes];
    cbn [step] in H.
  - (* Delegate *)
    destruct (user_ok e a && val_ok e i) eqn:Eo; [|discriminate]. apply andb_prop in Eo. destruct Eo as (Ea & _).
    unfold user_ok in Ea. apply andb_prop in Ea. destruct Ea as (Ea & _). apply Nat.ltb_lt in Ea.
    apply lift_ok in H. destruct H as (x & H). unfold msg_delegate in H.
    destruct (Z.leb_spec amt 0); [discriminate|]. destruct (negb _); [discriminate|].
    destruct (delegate s a i amt true) as [s1 r| |] eqn:Ed; try discriminate. inversion H; subst s1.
    assert (Hamt0 : 0 <= amt) by lia.
    exact (proj1 (delegate_inv _ _ _ _ _ _ _ _ Ea HI Hamt0 Ed)).
  - (* Undelegate *)
    destruct (user_ok e a && val_ok e i) eqn:Eo; [|discriminate]. apply andb_prop in Eo. destruct Eo as (Ea & _).
    unfold user_ok in Ea. apply andb_prop in Ea. destruct Ea as (Ea & _). apply Nat.ltb_lt in Ea.
    apply lift_ok in H. destruct H as (x & H). unfold undelegate in H.
    destruct (Z.leb_spec amt 0); [discriminate|].
    destruct (validate_unbond_amount s a i amt) as [sh|] eqn:Ev; [|discriminate].
    destruct (unbond e s a i sh) as [s1 issued| |] eqn:Eu; try discriminate. inversion H; subst s'.
    assert (Hamt0 : 0 < amt) by lia.
    destruct (unbond_inv _ _ _ _ _ _ _ Ea HI (validate_nonneg _ _ _ _ _ _ HI Hamt0 Ev) Eu) as (HI1 & Hi0).
    pose proof HI1 as (_ & _ & _ & J4 & J5 & J6).
    apply (inv_of_parts e s1); auto. intros b. cbn [set_ubd bal ubd]. rewrite upd_eq.
    split; [apply J6|]. destruct (Nat.eqb b a); [pose proof (J6 a); lia|apply J6].
  - (* Redelegate *)
    destruct (user_ok e a && val_ok e src && val_ok e dst) eqn:Eo; [|discriminate].
    apply andb_prop in Eo. destruct Eo as (Eo & _). apply andb_prop in Eo. destruct Eo as (Ea & _).
    unfold user_ok in Ea. apply andb_prop in Ea. destruct Ea as (Ea & _). apply Nat.ltb_lt in Ea.
    apply lift_ok in H. destruct H as (x & H). unfold redelegate in H.
    destruct (Z.leb_spec amt 0); [discriminate|].
    destruct (validate_unbond_amount s a src amt) as [sh|] eqn:Ev; [|discriminate].
    destruct (Nat.eqb src dst); [discriminate|]. destruct (negb _); [discriminate|].
    destruct (redel s a src); [discriminate|].
    destruct (unbond e s a src sh) as [s1 issued| |] eqn:Eu; try discriminate.
    destruct (issued =? 0); [discriminate|].
    destruct (delegate s1 a dst issued false) as [s2 r| |] eqn:Ed; try discriminate.
    assert (Hamt0 : 0 < amt) by lia.
    destruct (unbond_inv _ _ _ _ _ _ _ Ea HI (validate_nonneg _ _ _ _ _ _ HI Hamt0 Ev) Eu) as (HI1 & Hi0).
    destruct (delegate_inv _ _ _ _ _ _ _ _ Ea HI1 Hi0 Ed) as (HI2 & _).
    destruct (_ && _); inversion H; subst s'; [exact HI2|].
    pose proof HI2 as (_ & _ & _ & J4 & J5 & J6). apply (inv_of_parts e s2); auto.
  - (* Slash *)
    destruct (val_ok e i); [|discriminate]. apply lift_ok in H. destruct H as (x & H). unfold slash in H.
    destruct (factor <? 0); [discriminate|].
    destruct (negb (v_exists (vals s i))); [inversion H; subst; exact HI|].
    destruct (vstatus_eqb _ _); [discriminate|]. inversion H; subst s'.
    apply inv_set_val; auto. cbn. pose proof (I1 i). lia.
  - (* Jail *)
    destruct (val_ok e i); [|discriminate]. apply lift_ok in H. destruct H as (x & H). unfold jail in H.
    destruct (negb _); [discriminate|]. destruct (v_jailed _); [discriminate|]. inversion H; subst s'.
    apply inv_set_val; auto. apply I1.
  - (* Unjail *)
    destruct (val_ok e i); [|discriminate]. apply lift_ok in H. destruct H as (x & H). unfold unjail in H.
    destruct (negb (v_exists _)); [discriminate|]. destruct (del s (oper e _) _); [|discriminate]. destruct (_ =? 0); [discriminate|].
    destruct (_ <? _); [discriminate|]. destruct (negb (v_jailed _)); [discriminate|]. inversion H; subst s'.
    apply inv_set_val; auto. apply I1.
  - (* EndBlock *)
    inversion H; subst s'. unfold end_block.
    assert (HIv : Inv e (set_vals s (fun i => end_block_val m (vals s i)))).
    { apply inv_set_vals; [exact HI|]. intros j. unfold end_block_val.
      pose proof (I1 j) as (HT & _).
      destruct (v_exists (vals s j)) eqn:Ex; cbn [negb]; [|rewrite Ex; auto].
      destruct (eligible (vals s j)); [cbn; auto|].
      destruct (v_status (vals s j)); cbn; auto.
      destruct m; [destruct (_ =? 0)|]; cbn; auto. }
    destruct m; [|exact HIv].
    pose proof HIv as (_ & _ & _ & J4 & J5 & J6). apply (inv_of_parts e _ _ HIv); auto.
    intros b. cbn [bal ubd set_vals]. pose proof (I6 b). lia.
  - (* Mint *)
    destruct (user_ok e a && val_ok e i) eqn:Eo; [|discriminate]. apply andb_prop in Eo. destruct Eo as (Ea & _).
    unfold user_ok in Ea. apply andb_prop in Ea. destruct Ea as (Ea & _). apply Nat.ltb_lt in Ea.
    apply lift_ok in H. destruct H as (x & H). unfold mint in H.
    destruct (Z.leb_spec amt 0); [discriminate|].
    destruct (validate_unbond_amount s a i amt) as [sh|] eqn:Ev; [|discriminate].
    destruct (transfer_delegation e s i a (liq e) sh) as [s1 r| |] eqn:Et; try discriminate.
    destruct (Z.leb_spec (Z.min (dec_trunc_int sh) (dec_trunc_int r)) 0); [discriminate|].
    inversion H; subst s'.
    destruct (transfer_inv _ _ _ _ _ _ _ _ Ea Hwf HI Et) as (HI1 & _).
    apply inv_dbal_change; auto.
    pose proof HI1 as (_ & _ & _ & _ & J5 & _). pose proof (J5 a i). lia.
  - (* Burn *)
    destruct (user_ok e a && val_ok e i) eqn:Eo; [|discriminate]. apply andb_prop in Eo. destruct Eo as (Ea & _).
    unfold user_ok in Ea. apply andb_prop in Ea. destruct Ea as (Ea & _). apply Nat.ltb_lt in Ea.
    apply lift_ok in H. destruct H as (x & H). unfold burn in H.
    destruct (Z.leb_spec amt 0); [discriminate|]. destruct (Z.ltb_spec (dbal s a i) amt); [discriminate|].
    assert (HI0 : Inv e (set_dsup (set_dbal s a i (dbal s a i - amt)) i (dsup s i - amt))).
    { replace (dbal s a i - amt) with (dbal s a i + - amt) by lia. replace (dsup s i - amt) with (dsup s i + - amt) by lia.
      apply inv_dbal_change; auto. lia. }
    exact (proj1 (transfer_inv _ _ _ _ _ _ _ _ Hwf Ea HI0 H)).
  - (* SendD *)
    destruct (user_ok e a && acc_ok e b && val_ok e i) eqn:Eo; [|discriminate].
    apply andb_prop in Eo. destruct Eo as (Eo & _). apply andb_prop in Eo. destruct Eo as (Ea & Eb).
    unfold user_ok in Ea. apply andb_prop in Ea. destruct Ea as (Ea & _). apply Nat.ltb_lt in Ea.
    unfold acc_ok in Eb. apply Nat.ltb_lt in Eb.
    apply lift_ok in H. destruct H as (x & H). unfold send_deriv in H.
    destruct (Z.leb_spec amt 0); [discriminate|]. destruct (Z.ltb_spec (dbal s a i) amt); [discriminate|].
    inversion H; subst s'. clear H.
    apply (inv_held e s _ i HI); cbn [set_dbal vals del bal ubd dsup]; auto.
    + intros c j Hj. unfold held. cbn [set_dbal dbal sav ern]. rewrite !upd2_other by (now right). reflexivity.
    + rewrite (sumN_ext _ _ (fun c => (if Nat.eqb c a then - amt else 0) + (if Nat.eqb c b then amt else 0))).
      * rewrite sumN_add, !sumN_ind by assumption. lia.
      * intros c _. unfold held. cbn [set_dbal dbal sav ern]. rewrite !upd2_eq, Nat.eqb_refl, !andb_true_r.
        destruct (Nat.eqb_spec c b) as [Ecb|Ecb]; destruct (Nat.eqb_spec b a) as [Eba|Eba];
          destruct (Nat.eqb_spec c a) as [Eca|Eca]; cbn [andb]; subst; try lia; try congruence.
    + intros c j. cbn [set_dbal dbal sav ern]. rewrite !upd2_eq.
      pose proof (I5 c j). pose proof (I5 a i). pose proof (I5 b i).
      destruct (Nat.eqb_spec c b) as [Ecb|Ecb]; destruct (Nat.eqb_spec j i) as [Eji|Eji];
        destruct (Nat.eqb_spec b a) as [Eba|Eba]; destruct (Nat.eqb_spec c a) as [Eca|Eca];
        destruct (Nat.eqb_spec i i); cbn [andb]; subst; repeat split; try lia; try congruence.
  - (* Stash *)
    destruct (user_ok e a && val_ok e i) eqn:Eo; [|discriminate]. apply andb_prop in Eo. destruct Eo as (Ea & _).
    unfold user_ok in Ea. apply andb_prop in Ea. destruct Ea as (Ea & _). apply Nat.ltb_lt in Ea.
    apply lift_ok in H. destruct H as (x & H). unfold stash in H.
    destruct (Z.leb_spec amt 0); [discriminate|]. destruct (negb _); [discriminate|].
    destruct (Z.ltb_spec (dbal s a i) amt); [discriminate|].
    assert (Hz : sumN (nacc e) (fun _ => 0) = 0) by (clear; induction (nacc e); cbn [sumN]; lia).
    destruct p; inversion H; subst s'; clear H;
      (apply (inv_held e s _ i HI); cbn [set_dbal set_sav set_ern vals del bal ubd dsup]; auto;
       [ intros c j Hj; unfold held; cbn [set_dbal set_sav set_ern dbal sav ern]; rewrite !upd2_other by (now right); reflexivity
       | rewrite (sumN_ext _ _ (fun _ => 0)); [lia|]; intros c _; unfold held; cbn [set_dbal set_sav set_ern dbal sav ern];
         rewrite !upd2_eq; destruct (Nat.eqb c a && Nat.eqb i i) eqn:E;
         [apply andb_prop in E; destruct E as (E1 & _); apply Nat.eqb_eq in E1; subst|]; lia
       | intros c j; cbn [set_dbal set_sav set_ern dbal sav ern]; rewrite !upd2_eq; pose proof (I5 c j); pose proof (I5 a i);
         destruct (Nat.eqb c a && Nat.eqb j i) eqn:E; [apply andb_prop in E; destruct E as (E1 & E2); apply Nat.eqb_eq in E1, E2; subst|]; lia ]).
  - (* Unstash *)
    destruct (user_ok e a && val_ok e i) eqn:Eo; [|discriminate]. apply andb_prop in Eo. destruct Eo as (Ea & _).
    unfold user_ok in Ea. apply andb_prop in Ea. destruct Ea as (Ea & _). apply Nat.ltb_lt in Ea.
    apply lift_ok in H. destruct H as (x & H). unfold unstash in H.
    destruct (Z.leb_spec amt 0); [discriminate|].
    destruct p.
    + destruct (Z.leb_spec (sav s a i) 0); [discriminate|]. inversion H; subst s'; clear H.
      apply (inv_held e s _ i HI); cbn [set_dbal set_sav set_ern vals del bal ubd dsup]; auto.
      * intros c j Hj; unfold held; cbn [set_dbal set_sav set_ern dbal sav ern]; rewrite !upd2_other by (now right); reflexivity.
      * rewrite (sumN_ext _ _ (fun _ => 0)); [clear; induction (nacc e); cbn [sumN]; lia|]. intros c _; unfold held; cbn [set_dbal set_sav set_ern dbal sav ern].
        rewrite !upd2_eq; destruct (Nat.eqb c a && Nat.eqb i i) eqn:E;
          [apply andb_prop in E; destruct E as (E1 & _); apply Nat.eqb_eq in E1; subst|]; lia.
      * intros c j; cbn [set_dbal set_sav set_ern dbal sav ern]; rewrite !upd2_eq; pose proof (I5 c j); pose proof (I5 a i).
        destruct (Nat.eqb c a && Nat.eqb j i) eqn:E; [apply andb_prop in E; destruct E as (E1 & E2); apply Nat.eqb_eq in E1, E2; subst|]; lia.
    + destruct (Z.eqb_spec (ern s a i) amt); cbn [negb] in H; [|discriminate]. inversion H; subst s'; clear H.
      apply (inv_held e s _ i HI); cbn [set_dbal set_sav set_ern vals del bal ubd dsup]; auto.
      * intros c j Hj; unfold held; cbn [set_dbal set_sav set_ern dbal sav ern]; rewrite !upd2_other by (now right); reflexivity.
      * rewrite (sumN_ext _ _ (fun _ => 0)); [clear; induction (nacc e); cbn [sumN]; lia|]. intros c _; unfold held; cbn [set_dbal set_sav set_ern dbal sav ern].
        rewrite !upd2_eq; destruct (Nat.eqb c a && Nat.eqb i i) eqn:E;
          [apply andb_prop in E; destruct E as (E1 & _); apply Nat.eqb_eq in E1; subst|]; lia.
      * intros c j; cbn [set_dbal set_sav set_ern dbal sav ern]; rewrite !upd2_eq; pose proof (I5 c j); pose proof (I5 a i).
        destruct (Nat.eqb c a && Nat.eqb j i) eqn:E; [apply andb_prop in E; destruct E as (E1 & E2); apply Nat.eqb_eq in E1, E2; subst|]; lia.
  - (* Tally *)
    destruct (tally e s votes); inversion H; subst; exact HI.
Qed.

Lemma step'_inv e s o : env_wf e -> Inv e s -> Inv e (step' e s o).
Proof.
  intros Hwf HI. unfold step'. destruct (step e s o) as [s' out| |] eqn:E; auto. eapply step_inv; eauto.
Qed.

Theorem run_inv e ops : forall s, env_wf e -> Inv e s -> Inv e (run e s ops).
Proof.
  induction ops as [|o r IH]; intros s Hwf HI; [exact HI|]. cbn [run fold_left]. apply IH; auto. now apply step'_inv.
Qed.

(** * backing holds (with equality) on validators that are never slashed *)
Definition R1 (e : env) (s : state) (i : nat) : Prop := rate1 s i /\ backed_eq e s i.

Lemma rate1_ext s s' i :
  vals s' i = vals s i -> (forall a, del s' a i = del s a i) -> rate1 s i -> rate1 s' i.
Proof.
  intros Hv Hd (H1 & H2 & H3). unfold rate1. rewrite Hv. repeat split; auto.
  intros a. rewrite (dshares_same s s' a i (Hd a)). apply H3.
Qed.

Lemma R1_ext e s s' i :
  vals s' i = vals s i -> (forall a, del s' a i = del s a i) -> dsup s' i = dsup s i -> R1 e s i -> R1 e s' i.
Proof.
  intros Hv Hd Hs (Hr & Hb). split; [eapply rate1_ext; eauto|].
  unfold backed_eq. rewrite Hs, (dshares_same s s' _ i (Hd _)). exact Hb.
Qed.

Lemma transfer_rate1 e s j from to sh s' recv i :
  (from < nacc e)%nat -> Inv e s -> rate1 s i ->
  (j = i -> exists k, sh = k * PREC /\ 0 <= k) ->
  transfer_delegation e s j from to sh = Ok s' recv ->
  from <> to ->
  rate1 s' i /\ dsup s' = dsup s /\
  (j = i -> recv = sh /\ dshares s' from i = dshares s from i - sh /\ dshares s' to i = dshares s to i + sh) /\
  (forall x, ((x <> from /\ x <> to) \/ j <> i) -> dshares s' x i = dshares s x i).
Proof.
  intros Hf HI Hr Hk Ht Hne. apply transfer_form in Ht. destruct Ht as (Hsh & _ & s1 & issued & Hu & Hc).
  destruct (unbond_rate1 _ _ _ _ _ _ _ i Hr Hk Hu) as (Hr1 & Hds1 & Hi1 & Ho1).
  assert (Hsh0 : 0 <= sh) by lia.
  destruct (unbond_inv _ _ _ _ _ _ _ Hf HI Hsh0 Hu) as (_ & Hi0).
  destruct Hc as [(Hz & -> & ->)|(Hnz & Hd)].
  - (* no token moved: impossible on the rate-one validator itself *)
    assert (Hji : j <> i) by (intros E; destruct (Hi1 E) as (Hp & _); lia).
    split; [exact Hr1|]. split; [exact Hds1|]. split; [intros; congruence|].
    intros x Hx. apply Ho1. now right.
  - destruct (delegate_rate1 _ _ _ _ _ _ _ i Hr1 Hi0 Hd) as (Hr2 & Hds2 & Hi2 & Ho2).
    split; [exact Hr2|]. split; [congruence|]. split.
    + intros ->. destruct (Hi1 eq_refl) as (Hiss & Hdf). destruct (Hi2 eq_refl) as (Hrecv & Hdt).
      split; [lia|]. split.
      * rewrite Ho2 by (left; congruence). exact Hdf.
      * rewrite Hdt, Ho1 by (left; congruence). lia.
    + intros x Hx. rewrite Ho2, Ho1; [reflexivity| |]; destruct Hx as [[? ?]|?]; auto.
Qed.

Theorem step_R1 e s o s' out i :
  env_wf e -> Inv e s -> R1 e s i ->
  (forall p f, o <> Slash i p f) ->
  step e s o = Ok s' out -> R1 e s' i.
Proof.
  intros Hwf HI (Hr & Hb) Hns H. unfold env_wf in Hwf. unfold backed_eq in Hb.
  destruct o as [a j amt|a j amt|a src dst amt|j power factor|j|j|m|a j amt|a j amt|a b j amt|p a j amt|p a j amt|votes];
    cbn [step] in H.
  - (* Delegate *)
    destruct (user_ok e a && val_ok e j) eqn:Eo; [|discriminate]. apply andb_prop in Eo. destruct Eo as (Ea & _).
    unfold user_ok in Ea. apply andb_prop in Ea. destruct Ea as (Ea & Eal). apply Nat.ltb_lt in Ea.
    apply negb_true_iff, Nat.eqb_neq in Eal.
    apply lift_ok in H. destruct H as (x & H). unfold msg_delegate in H.
    destruct (Z.leb_spec amt 0); [discriminate|]. destruct (negb _); [discriminate|].
    destruct (delegate s a j amt true) as [s1 r| |] eqn:Ed; try discriminate. inversion H; subst s1.
    assert (Hamt0 : 0 <= amt) by lia.
    destruct (delegate_rate1 _ _ _ _ _ _ _ i Hr Hamt0 Ed) as (Hr' & Hds & _ & Ho).
    split; [exact Hr'|]. unfold backed_eq. rewrite Hds, Ho by (left; congruence). exact Hb.
  - (* Undelegate *)
    destruct (user_ok e a && val_ok e j) eqn:Eo; [|discriminate]. apply andb_prop in Eo. destruct Eo as (Ea & _).
    unfold user_ok in Ea. apply andb_prop in Ea. destruct Ea as (Ea & Eal). apply Nat.ltb_lt in Ea.
    apply negb_true_iff, Nat.eqb_neq in Eal.
    apply lift_ok in H. destruct H as (x & H). unfold undelegate in H.
    destruct (Z.leb_spec amt 0); [discriminate|].
    destruct (validate_unbond_amount s a j amt) as [sh|] eqn:Ev; [|discriminate].
    destruct (unbond e s a j sh) as [s1 issued| |] eqn:Eu; try discriminate. inversion H; subst s'.
    assert (Hk : j = i -> exists k, sh = k * PREC /\ 0 <= k).
    { intros ->. apply (validate_rate1 s a i amt sh Hr); [lia|exact Ev]. }
    destruct (unbond_rate1 _ _ _ _ _ _ _ i Hr Hk Eu) as (Hr' & Hds & _ & Ho).
    apply (R1_ext e s1); cbn [set_ubd vals del dsup]; auto.
    split; [exact Hr'|]. unfold backed_eq. rewrite Hds, Ho by (left; congruence). exact Hb.
  - (* Redelegate *)
    destruct (user_ok e a && val_ok e src && val_ok e dst) eqn:Eo; [|discriminate].
    apply andb_prop in Eo. destruct Eo as (Eo & _). apply andb_prop in Eo. destruct Eo as (Ea & _).
    unfold user_ok in Ea. apply andb_prop in Ea. destruct Ea as (Ea & Eal). apply Nat.ltb_lt in Ea.
    apply negb_true_iff, Nat.eqb_neq in Eal.
    apply lift_ok in H. destruct H as (x & H). unfold redelegate in H.
    destruct (Z.leb_spec amt 0); [discriminate|].
    destruct (validate_unbond_amount s a src amt) as [sh|] eqn:Ev; [|discriminate].
    destruct (Nat.eqb src dst); [discriminate|]. destruct (negb _); [discriminate|].
    destruct (redel s a src); [discriminate|].
    destruct (unbond e s a src sh) as [s1 issued| |] eqn:Eu; try discriminate.
    destruct (issued =? 0); [discriminate|].
    destruct (delegate s1 a dst issued false) as [s2 r| |] eqn:Ed; try discriminate.
    assert (Hk : src = i -> exists k, sh = k * PREC /\ 0 <= k).
    { intros ->. apply (validate_rate1 s a i amt sh Hr); [lia|exact Ev]. }
    destruct (unbond_rate1 _ _ _ _ _ _ _ i Hr Hk Eu) as (Hr1 & Hds1 & _ & Ho1).
    assert (Hamt0 : 0 < amt) by lia.
    destruct (unbond_inv _ _ _ _ _ _ _ Ea HI (validate_nonneg _ _ _ _ _ _ HI Hamt0 Ev) Eu) as (_ & Hi0).
    destruct (delegate_rate1 _ _ _ _ _ _ _ i Hr1 Hi0 Ed) as (Hr2 & Hds2 & _ & Ho2).
    assert (HR2 : R1 e s2 i).
    { split; [exact Hr2|]. unfold backed_eq. rewrite Hds2, Hds1, Ho2, Ho1 by (left; congruence). exact Hb. }
    destruct (_ && _); inversion H; subst s'; [exact HR2|].
    apply (R1_ext e s2); cbn [set_redel vals del dsup]; auto.
  - (* Slash on another validator *)
    destruct (val_ok e j); [|discriminate]. apply lift_ok in H. destruct H as (x & H). unfold slash in H.
    destruct (factor <? 0); [discriminate|].
    destruct (negb (v_exists (vals s j))); [inversion H; subst; split; assumption|].
    destruct (vstatus_eqb _ _); [discriminate|]. inversion H; subst s'.
    assert (j <> i) by (intros ->; exact (Hns power factor eq_refl)).
    apply (R1_ext e s); cbn [set_val set_vals vals del dsup]; auto; [now rewrite upd_other by congruence|split; assumption].
  - (* Jail *)
    destruct (val_ok e j); [|discriminate]. apply lift_ok in H. destruct H as (x & H). unfold jail in H.
    destruct (negb _); [discriminate|]. destruct (v_jailed _); [discriminate|]. inversion H; subst s'.
    destruct Hr as (Ra & Rb & Rc). split; [|exact Hb].
    unfold rate1. cbn [set_val set_vals vals]. rewrite upd_eq. destruct (Nat.eqb_spec i j) as [->|]; cbn; repeat split; auto.
  - (* Unjail *)
    destruct (val_ok e j); [|discriminate]. apply lift_ok in H. destruct H as (x & H). unfold unjail in H.
    destruct (negb (v_exists _)); [discriminate|]. destruct (del s (oper e _) _); [|discriminate]. destruct (_ =? 0); [discriminate|].
    destruct (_ <? _); [discriminate|]. destruct (negb (v_jailed _)); [discriminate|]. inversion H; subst s'.
    destruct Hr as (Ra & Rb & Rc). split; [|exact Hb].
    unfold rate1. cbn [set_val set_vals vals]. rewrite upd_eq. destruct (Nat.eqb_spec i j) as [->|]; cbn; repeat split; auto.
  - (* EndBlock *)
    inversion H; subst s'. destruct Hr as (Ra & Rb & Rc).
    assert (Hts : v_tokens (end_block_val m (vals s i)) = v_tokens (vals s i) /\ v_shares (end_block_val m (vals s i)) = v_shares (vals s i)).
    { unfold end_block_val. destruct (negb _); [auto|]. destruct (eligible _); [auto|].
      destruct (v_status (vals s i)); auto. destruct m; auto. cbn. destruct (_ =? 0); auto. }
    destruct Hts as (Ht' & Hs').
    unfold end_block. destruct m; (split; [unfold rate1; cbn [set_vals vals]; rewrite Ht', Hs'; repeat split; auto|exact Hb]).
  - (* Mint *)
    destruct (user_ok e a && val_ok e j) eqn:Eo; [|discriminate]. apply andb_prop in Eo. destruct Eo as (Ea & _).
    unfold user_ok in Ea. apply andb_prop in Ea. destruct Ea as (Ea & Eal). apply Nat.ltb_lt in Ea.
    apply negb_true_iff, Nat.eqb_neq in Eal.
    apply lift_ok in H. destruct H as (x & H). unfold mint in H.
    destruct (Z.leb_spec amt 0); [discriminate|].
    destruct (validate_unbond_amount s a j amt) as [sh|] eqn:Ev; [|discriminate].
    destruct (transfer_delegation e s j a (liq e) sh) as [s1 r| |] eqn:Et; try discriminate.
    destruct (Z.leb_spec (Z.min (dec_trunc_int sh) (dec_trunc_int r)) 0); [discriminate|].
    inversion H; subst s'. clear H.
    assert (Hk : j = i -> exists k, sh = k * PREC /\ 0 <= k).
    { intros ->. apply (validate_rate1 s a i amt sh Hr); [lia|exact Ev]. }
    destruct (transfer_rate1 _ _ _ _ _ _ _ _ i Ea HI Hr Hk Et Eal) as (Hr1 & Hds1 & Hi1 & Ho1).
    split.
    + eapply rate1_ext; [| |exact Hr1]; reflexivity.
    + unfold backed_eq. cbn [set_dsup set_dbal dsup]. unfold dshares. cbn [set_dsup set_dbal del]. fold (dshares s1 (liq e) i).
      rewrite upd_eq. destruct (Nat.eqb_spec i j) as [->|Hij].
      * destruct (Hi1 eq_refl) as (Hrs & _ & Hto). destruct (Hk eq_refl) as (k & -> & Hk0).
        rewrite Hto, Hds1, Hrs, Z.min_id. unfold dec_trunc_int. rewrite quot_mul_cancel by (unfold PREC; lia). lia.
      * rewrite Hds1, Ho1 by (right; congruence). exact Hb.
  - (* Burn *)
    destruct (user_ok e a && val_ok e j) eqn:Eo; [|discriminate]. apply andb_prop in Eo. destruct Eo as (Ea & _).
    unfold user_ok in Ea. apply andb_prop in Ea. destruct Ea as (Ea & Eal). apply Nat.ltb_lt in Ea.
    apply negb_true_iff, Nat.eqb_neq in Eal.
    apply lift_ok in H. destruct H as (x & H). unfold burn in H.
    destruct (Z.leb_spec amt 0); [discriminate|]. destruct (Z.ltb_spec (dbal s a j) amt); [discriminate|].
    set (s0 := set_dsup (set_dbal s a j (dbal s a j - amt)) j (dsup s j - amt)) in *.
    assert (HI0 : Inv e s0).
    { subst s0. replace (dbal s a j - amt) with (dbal s a j + - amt) by lia. replace (dsup s j - amt) with (dsup s j + - amt) by lia.
      apply inv_dbal_change; auto. lia. }
    assert (Hr0 : rate1 s0 i) by (eapply rate1_ext; [| |exact Hr]; reflexivity).
    assert (Hk : j = i -> exists k, dec_of_int amt = k * PREC /\ 0 <= k) by (intros _; exists amt; unfold dec_of_int; split; lia).
    assert (Hne : liq e <> a) by congruence.
    destruct (transfer_rate1 _ _ _ _ _ _ _ _ i Hwf HI0 Hr0 Hk H Hne) as (Hr1 & Hds1 & Hi1 & Ho1).
    split; [exact Hr1|]. unfold backed_eq. rewrite Hds1. subst s0. cbn [set_dsup set_dbal dsup]. rewrite upd_eq.
    destruct (Nat.eqb_spec i j) as [->|Hij].
    + destruct (Hi1 eq_refl) as (_ & Hfrom & _). rewrite Hfrom. unfold dshares at 1. cbn [set_dsup set_dbal del].
      fold (dshares s (liq e) j). unfold dec_of_int. lia.
    + rewrite Ho1 by (right; congruence). unfold dshares at 1. cbn [set_dsup set_dbal del]. exact Hb.
  - (* SendD *)
    destruct (_ && _); [|discriminate]. apply lift_ok in H. destruct H as (x & H). unfold send_deriv in H.
    destruct (amt <=? 0); [discriminate|]. destruct (_ <? _); [discriminate|]. inversion H; subst s'.
    apply (R1_ext e s); auto. split; assumption.
  - (* Stash *)
    destruct (_ && _); [|discriminate]. apply lift_ok in H. destruct H as (x & H). unfold stash in H.
    destruct (amt <=? 0); [discriminate|]. destruct (negb _); [discriminate|]. destruct (_ <? _); [discriminate|].
    destruct p; inversion H; subst s'; (apply (R1_ext e s); auto; split; assumption).
  - (* Unstash *)
    destruct (_ && _); [|discriminate]. apply lift_ok in H. destruct H as (x & H). unfold unstash in H.
    destruct (amt <=? 0); [discriminate|].
    destruct p; [destruct (_ <=? 0)|destruct (negb _)]; try discriminate;
      inversion H; subst s'; (apply (R1_ext e s); auto; split; assumption).
  - (* Tally *)
    destruct (tally e s votes); inversion H; subst; split; assumption.
Qed.

Definition no_slash_of (i : nat) (o : op) : Prop := forall p f, o <> Slash i p f.

Theorem run_R1 e i ops : forall s, env_wf e -> Inv e s -> R1 e s i -> Forall (no_slash_of i) ops -> R1 e (run e s ops) i.
Proof.
  induction ops as [|o r IH]; intros s Hwf HI HR Hns; [exact HR|].
  inversion Hns as [|? ? Ho Hr']; subst. cbn [run fold_left]. apply IH; auto.
  - now apply step'_inv.
  - unfold step'. destruct (step e s o) as [s' out| |] eqn:E; auto. eapply step_R1; eauto.
Qed.

Lemma R1_backed e s i : R1 e s i -> dsup s i * PREC <= dshares s (liq e) i.
Proof. intros (_ & Hb). unfold backed_eq in Hb. lia. Qed.

(** * how far the module's new shares can fall short of the shares unbonded *)
Lemma transfer_shortfall v sh v1 issued v2 recv :
  0 <= v_tokens v -> 0 < v_shares v -> 0 <= sh <= v_shares v ->
  remove_del_shares v sh = Some (v1, issued) -> v_shares v1 <> 0 ->
  add_tokens_from_del v1 issued = Some (v2, recv) ->
  0 < v_tokens v1 /\ (sh - recv) * v_tokens v1 < v_shares v + v_tokens v1.
Proof.
  intros HT HS Hsh Hrem Hne Hadd.
  unfold remove_del_shares in Hrem.
  destruct (Z.eqb_spec (v_shares v - sh) 0) as [E0|E0].
  { injection Hrem as <- <-. cbn in Hne. contradiction. }
  destruct (Z.eqb_spec (v_shares v) 0); [lia|].
  destruct (Z.ltb_spec (v_tokens v - dec_trunc_int (tokens_from_shares v sh)) 0); [discriminate|].
  injection Hrem as <- <-. clear Hne.
  unfold add_tokens_from_del in Hadd. cbn [set_ts v_shares v_tokens] in Hadd.
  destruct (Z.eqb_spec (v_shares v - sh) 0); [contradiction|].
  destruct (Z.eqb_spec (v_tokens v - dec_trunc_int (tokens_from_shares v sh)) 0) as [|HT'0]; [discriminate|].
  injection Hadd as _ <-. cbn [set_ts v_tokens v_shares].
  unfold shares_from_tokens, dec_quo_int. cbn [set_ts v_tokens v_shares].
  set (T := v_tokens v) in *. set (S := v_shares v) in *.
  unfold tokens_from_shares, dec_trunc_int in *. fold T S in H, HT'0 |- *.
  set (x := sh * T) in *.
  assert (Hx : 0 <= x) by (subst x; nia).
  pose proof (dec_quo_bounds x S Hx HS) as Hq. cbv zeta in Hq.
  pose proof (dec_quo_nonneg x S Hx HS) as Hq0.
  set (tq := dec_quo x S) in *.
  set (q := x * PREC * PREC / S) in *.
  assert (Hqs : q * S <= x * PREC * PREC < q * S + S).
  { subst q. pose proof (Z.div_mod (x * PREC * PREC) S ltac:(lia)). pose proof (Z.mod_pos_bound (x * PREC * PREC) S HS). nia. }
  rewrite Z.quot_div_nonneg in * by (unfold PREC; lia).
  set (issued := tq / PREC) in *.
  assert (Hiss : issued * PREC <= tq < issued * PREC + PREC).
  { subst issued. pose proof (Z.div_mod tq PREC ltac:(unfold PREC; lia)). pose proof (Z.mod_pos_bound tq PREC PREC_pos). nia. }
  assert (Hi0 : 0 <= issued) by (subst issued; apply Z.div_pos; [lia|apply PREC_pos]).
  set (T' := T - issued) in *.
  assert (HT' : 0 < T') by lia.
  split; [exact HT'|].
  assert (HS' : 0 < S - sh) by lia.
  rewrite Z.quot_div_nonneg by nia.
  set (recv := (S - sh) * issued / T').
  assert (Hrecv : recv * T' <= (S - sh) * issued < recv * T' + T').
  { subst recv. pose proof (Z.div_mod ((S - sh) * issued) T' ltac:(lia)). pose proof (Z.mod_pos_bound ((S - sh) * issued) T' HT'). nia. }
  (* S * issued > sh * T - S *)
  assert (Hkey : x - S < S * issued).
  { assert (P2 : 2 < PREC) by reflexivity.
    assert (A1 : 2 * x * PREC * PREC - 2 * S < 2 * q * S) by lia.
    assert (A2 : S * (2 * q - PREC) <= 2 * S * tq * PREC) by nia.
    assert (A3 : S * tq - S * PREC + S <= S * issued * PREC) by nia.
    (* combine: 2 P (S issued P) >= 2P (S tq - S P + S) and 2 P S tq >= 2 q S - P S > 2 x P^2 - 2 S - P S *)
    assert (A4 : 2 * x * PREC * PREC - 2 * S - PREC * S < 2 * S * tq * PREC) by lia.
    assert (A5 : 2 * x * PREC * PREC - 2 * S - PREC * S - 2 * S * PREC * PREC + 2 * S * PREC < 2 * S * issued * PREC * PREC) by nia.
    (* divide by 2 P^2: x - S + (S/P - S/(2P) - S/P^2) < S issued, and the bracket is >= 0 *)
    assert (A6 : 0 <= 2 * S * PREC - 2 * S - PREC * S) by (unfold PREC in *; lia).
    assert (A7 : (x - S) * (2 * PREC * PREC) < (S * issued) * (2 * PREC * PREC)) by lia.
    unfold PREC in A7. lia. }
  subst x T'. nia.
Qed.

(* the same bound for a successful MintDerivative, on the state.  The units minted never exceed
   the shares the module gained; and unless the mint unbonds every share of the validator, the
   shares the user gave up that did not arrive satisfy (sh - gained) * T' < S + T', where S are the
   validator's shares before and T' > 0 the tokens left in it between unbond and re-delegation *)
Theorem mint_shortfall e s a i amt s' minted :
  env_wf e -> Inv e s -> (a < nacc e)%nat -> a <> liq e ->
  mint e s a i amt = Ok s' minted ->
  let gained := dshares s' (liq e) i - dshares s (liq e) i in
  exists sh, validate_unbond_amount s a i amt = Some sh /\ 0 < minted /\ minted * PREC <= sh /\ minted * PREC <= gained /\
    (v_shares (vals s i) - sh <> 0 ->
     exists T', 0 < T' <= v_tokens (vals s i) /\ (sh - gained) * T' < v_shares (vals s i) + T').
Proof.
  intros Hwf HI Ha Hne Hm gained. subst gained. pose proof HI as (I1 & I2 & I3 & _).
  unfold mint in Hm. destruct (Z.leb_spec amt 0); [discriminate|].
  destruct (validate_unbond_amount s a i amt) as [sh|] eqn:Ev; [|discriminate].
  destruct (transfer_delegation e s i a (liq e) sh) as [s1 r| |] eqn:Et; try discriminate.
  destruct (Z.leb_spec (Z.min (dec_trunc_int sh) (dec_trunc_int r)) 0) as [|Hmin]; [discriminate|].
  injection Hm as <- <-.
  assert (Hamt0 : 0 < amt) by lia.
  pose proof (validate_nonneg _ _ _ _ _ _ HI Hamt0 Ev) as Hsh0.
  assert (Htr : forall z, 0 <= z -> dec_trunc_int z * PREC <= z).
  { intros z Hz. unfold dec_trunc_int. rewrite Z.quot_div_nonneg by (unfold PREC; lia).
    pose proof (Z.div_mod z PREC ltac:(unfold PREC; lia)). pose proof (Z.mod_pos_bound z PREC PREC_pos). lia. }
  destruct (transfer_inv _ _ _ _ _ _ _ _ Ha Hwf HI Et) as (_ & Hr0).
  (* the module's delegation grew by r *)
  pose proof (transfer_spec _ _ _ _ _ _ _ _ Hne Et) as (d0 & _ & _ & _ & _ & _ & _ & _ & _ & _ & _ & _ & _ & _ & _ & _ & _ & _ & _ & Hcase).
  assert (Hliq : dshares (set_dsup (set_dbal s1 a i (dbal s1 a i + Z.min (dec_trunc_int sh) (dec_trunc_int r))) i
                                   (dsup s1 i + Z.min (dec_trunc_int sh) (dec_trunc_int r))) (liq e) i
                 = dshares s (liq e) i + r).
  { unfold dshares at 1. cbn [set_dsup set_dbal del].
    destruct Hcase as [(-> & Hd)|(Hd & _)]; rewrite Hd; [unfold dshares; destruct (del s (liq e) i); lia|reflexivity]. }
  rewrite Hliq.
  exists sh. split; [reflexivity|]. split; [lia|].
  pose proof (Htr sh Hsh0). pose proof (Htr r Hr0).
  split; [unfold PREC in *; lia|]. split; [unfold PREC in *; lia|].
  intros Hnz.
  destruct (validate_unbond_le _ _ _ _ _ Ev) as (d & Ed & Hle & Hex & _).
  apply transfer_form in Et. destruct Et as (Hshp & _ & s0 & issued & Hu & Hc).
  destruct Hc as [(_ & _ & ->)|(Hinz & Hd)].
  { exfalso. unfold dec_trunc_int in Hmin. cbn in Hmin. lia. }
  apply unbond_spec in Hu.
  destruct Hu as (d' & v1 & Ed' & _ & _ & Hv1 & (v2 & Hrem & Hvals) & _ & Hsame).
  assert (Ht1 : v_tokens v1 = v_tokens (vals s i) /\ v_shares v1 = v_shares (vals s i)).
  { destruct Hv1 as [->|(_ & -> & _)]; split; reflexivity. }
  destruct Ht1 as (Ht1 & Hs1).
  assert (HdS : d <= v_shares (vals s i)).
  { rewrite (I2 i Hex). replace d with (dshares s a i) by (unfold dshares; now rewrite Ed).
    apply (sumN_ge1 (nacc e) (fun x => dshares s x i)); [intros; apply I3|exact Ha]. }
  apply delegate_spec_gen in Hd. destruct Hd as ((v' & Hadd & _) & Hdel & _).
  assert (Hs2 : v_shares v2 = v_shares (vals s i) - sh).
  { unfold remove_del_shares in Hrem. rewrite Hs1 in Hrem.
    destruct (Z.eqb_spec (v_shares (vals s i) - sh) 0); [injection Hrem as <- _; reflexivity|].
    destruct (Z.eqb_spec (v_shares (vals s i)) 0); [discriminate|].
    destruct (_ <? 0); [discriminate|]. injection Hrem as <- _. reflexivity. }
  assert (Ev2 : vals s0 i = v2).
  { rewrite Hvals. destruct (Z.eqb_spec (v_shares v2) 0); [lia|reflexivity]. }
  rewrite Ev2 in Hadd.
  pose proof (I1 i) as (HT & HS).
  destruct (transfer_shortfall v1 sh v2 issued v' r) as (HT' & Hb); try rewrite Ht1; try rewrite Hs1; auto; try lia.
  exists (v_tokens v2). split.
  - split; [exact HT'|].
    unfold remove_del_shares in Hrem. rewrite Hs1, Ht1 in Hrem.
    destruct (Z.eqb_spec (v_shares (vals s i) - sh) 0); [injection Hrem as <- _; cbn; lia|].
    destruct (Z.eqb_spec (v_shares (vals s i)) 0); [discriminate|].
    destruct (Z.ltb_spec (v_tokens (vals s i) - dec_trunc_int (tokens_from_shares v1 sh)) 0); [discriminate|].
    injection Hrem as <- _. cbn.
    assert (0 <= dec_trunc_int (tokens_from_shares v1 sh)) by (apply tfs_nonneg; lia). lia.
  - rewrite Hs1 in Hb. replace (dshares s (liq e) i + r - dshares s (liq e) i) with r by lia. exact Hb.
Qed.

(** * the tally *)
Lemma fold_left_ext {A B} (f g : A -> B -> A) l : (forall x y, f x y = g x y) -> forall a, fold_left f l a = fold_left g l a.
Proof. intros H. induction l as [|b r IH]; intros a; cbn; [reflexivity|]. now rewrite H, IH. Qed.

(* the tally reads derivative holdings only through wallet + savings + earn *)
Lemma tally_ext e s s' votes :
  (forall i, vals s' i = vals s i) -> (forall a i, del s' a i = del s a i) ->
  (forall a i, held s' a i = held s a i) ->
  tally e s' votes = tally e s votes.
Proof.
  intros Hv Hd Hh.
  assert (Hc : forall i, curr s' i = curr s i) by (intros; unfold curr; now rewrite Hv).
  assert (E1 : forall a opts t, tally_dels e s' a opts t = tally_dels e s a opts t).
  { intros. unfold tally_dels. apply fold_left_ext. intros. now rewrite Hd, Hc, Hv. }
  assert (E2 : forall a opts t, tally_bkava e s' a opts t = tally_bkava e s a opts t).
  { intros. unfold tally_bkava. apply fold_left_ext. intros. now rewrite Hh, Hc, Hv. }
  assert (E3 : forall t, tally_votes e s' votes t = tally_votes e s votes t).
  { intros. unfold tally_votes. apply fold_left_ext. intros. now rewrite E1, E2. }
  assert (E4 : forall t, tally_validators e s' votes t = tally_validators e s votes t).
  { intros. unfold tally_validators. apply fold_left_ext. intros. now rewrite Hc, Hv. }
  assert (E5 : total_bonded e s' = total_bonded e s).
  { unfold total_bonded. apply sumN_ext. intros. now rewrite Hv. }
  unfold tally, tally_acc. now rewrite E3, E4, E5.
Qed.

Lemma stash_tally e s p a i amt s' votes :
  stash s p a i amt = Ok s' tt -> tally e s' votes = tally e s votes.
Proof.
  unfold stash. intros H. destruct (amt <=? 0); [discriminate|]. destruct (negb _); [discriminate|].
  destruct (_ <? _); [discriminate|].
  destruct p; injection H as <-; apply tally_ext; intros; try reflexivity;
    unfold held; cbn [set_dbal set_sav set_ern dbal sav ern]; rewrite !upd2_eq;
    destruct (Nat.eqb a0 a && Nat.eqb i0 i) eqn:E; try lia;
    apply andb_prop in E; destruct E as (E1 & E2); apply Nat.eqb_eq in E1, E2; subst; lia.
Qed.

Lemma unstash_tally e s p a i amt s' votes :
  unstash s p a i amt = Ok s' tt -> tally e s' votes = tally e s votes.
Proof.
  unfold unstash. intros H. destruct (amt <=? 0); [discriminate|].
  destruct p; [destruct (_ <=? 0)|destruct (Z.eqb_spec (ern s a i) amt); cbn [negb] in H]; try discriminate;
    injection H as <-; apply tally_ext; intros; try reflexivity;
    unfold held; cbn [set_dbal set_sav set_ern dbal sav ern]; rewrite !upd2_eq;
    destruct (Nat.eqb a0 a && Nat.eqb i0 i) eqn:E; try lia;
    apply andb_prop in E; destruct E as (E1 & E2); apply Nat.eqb_eq in E1, E2; subst; lia.
Qed.

(* a derivative position carries (up to one token of truncation) the power a delegation of
   the same number of shares carries *)
Lemma derivative_power_close v h :
  0 <= h -> 0 <= v_tokens v -> 0 < v_shares v ->
  0 <= delegation_power v (dec_of_int h) - dec_of_int (derivative_value v h) <= PREC.
Proof.
  intros Hh HT HS. unfold delegation_power, derivative_value, tokens_from_shares_trunc, dec_quo, dec_quo_trunc, dec_of_int, dec_trunc_int.
  set (x := h * PREC * v_tokens v).
  assert (Hx : 0 <= x) by (subst x; unfold PREC; nia).
  set (q := Z.quot (x * PREC * PREC) (v_shares v)).
  assert (Hq : 0 <= q) by (subst q; apply Z.quot_pos; [unfold PREC; nia|lia]).
  pose proof (chop_round_bounds q) as B1. pose proof (chop_trunc_bounds q Hq) as B2.
  pose proof (chop_round_nonneg q Hq) as B3.
  set (cr := chop_round q) in *. set (ct := chop_trunc q) in *.
  assert (0 <= ct) by (subst ct; unfold chop_trunc; apply Z.quot_pos; [lia|unfold PREC; lia]).
  rewrite Z.quot_div_nonneg by (unfold PREC; lia).
  pose proof (Z.div_mod ct PREC ltac:(unfold PREC; lia)). pose proof (Z.mod_pos_bound ct PREC PREC_pos).
  assert (ct <= cr <= ct + 1) by (unfold PREC in *; lia).
  lia.
Qed.

(** * the boolean invariant evaluated during the correspondence run follows from [Inv] *)
Lemma inv_b_of_Inv e s : Inv e s -> inv_b e s = true.
Proof.
  intros (I1 & I2 & I3 & I4 & I5 & I6). unfold inv_b. apply andb_true_intro. split.
  - apply forallb_forall. intros i _. pose proof (I1 i) as (? & ?).
    repeat (apply andb_true_intro; split); try (apply Z.leb_le; lia).
    + destruct (v_exists (vals s i)) eqn:Ex; cbn [negb orb]; [|reflexivity]. apply Z.eqb_eq. now apply I2.
    + apply Z.eqb_eq. apply I4.
  - apply forallb_forall. intros a _. pose proof (I6 a) as (? & ?).
    repeat (apply andb_true_intro; split); try (apply Z.leb_le; lia).
    apply forallb_forall. intros i _. pose proof (I5 a i) as (? & ? & ?). pose proof (I3 a i).
    repeat (apply andb_true_intro; split); apply Z.leb_le; lia.
Qed.

(** * value owned by a user: delegation shares plus derivative units (one unit = one share) *)
Definition owned (s : state) (a i : nat) : Z := dshares s a i + held s a i * PREC.
Definition staked_value (s : state) (a i : nat) : Z := dec_trunc_int (tokens_from_shares (vals s i) (owned s a i)).

Lemma val_eq v w :
  v_exists v = v_exists w -> v_tokens v = v_tokens w -> v_shares v = v_shares w -> v_status v = v_status w ->
  v_jailed v = v_jailed w -> v_minself v = v_minself w -> v = w.
Proof. destruct v, w; cbn; intros; subst; reflexivity. Qed.

Lemma mint_rate1_value e s a i amt s' minted :
  env_wf e -> Inv e s -> rate1 s i -> (a < nacc e)%nat -> a <> liq e ->
  mint e s a i amt = Ok s' minted ->
  owned s' a i = owned s a i /\ vals s' i = vals s i /\ minted * PREC = dshares s a i - dshares s' a i /\
  dshares s' (liq e) i = dshares s (liq e) i + minted * PREC.
Proof.
  intros Hwf HI Hr Ha Hne Hm. unfold mint in Hm.
  destruct (Z.leb_spec amt 0); [discriminate|].
  destruct (validate_unbond_amount s a i amt) as [sh|] eqn:Ev; [|discriminate].
  destruct (transfer_delegation e s i a (liq e) sh) as [s1 r| |] eqn:Et; try discriminate.
  destruct (Z.leb_spec (Z.min (dec_trunc_int sh) (dec_trunc_int r)) 0); [discriminate|].
  injection Hm as <- <-.
  assert (Hamt0 : 0 < amt) by lia.
  destruct (validate_rate1 s a i amt sh Hr Hamt0 Ev) as (k & -> & Hk0).
  assert (Hk : i = i -> exists k0, k * PREC = k0 * PREC /\ 0 <= k0) by (intros _; eauto).
  destruct (transfer_rate1 _ _ _ _ _ _ _ _ i Ha HI Hr Hk Et Hne) as (Hr1 & Hds1 & Hi1 & _).
  destruct (Hi1 eq_refl) as (Hrecv & Hfrom & Hto). subst r.
  pose proof (transfer_spec _ _ _ _ _ _ _ _ Hne Et) as (d & _ & _ & _ & _ & _ & Ht & Hs & Hx0 & Hst & Hj & Hms & _ & _ & _ & Hdb & Hsv & Her & _ & Hcase).
  assert (Hx : v_exists (vals s1 i) = true).
  { destruct Hcase as [(Hz & _)|(_ & Hx)]; [|exact Hx]. exfalso.
    apply transfer_form in Et. destruct Et as (? & _). lia. }
  assert (Htr : dec_trunc_int (k * PREC) = k) by (unfold dec_trunc_int; apply quot_mul_cancel; unfold PREC; lia).
  rewrite Htr, Z.min_id in *.
  assert (Hd' : forall x, dshares (set_dsup (set_dbal s1 a i (dbal s1 a i + k)) i (dsup s1 i + k)) x i = dshares s1 x i) by reflexivity.
  repeat split.
  - unfold owned, held. rewrite Hd'. cbn [set_dsup set_dbal dbal sav ern]. rewrite upd2_same, Hfrom, Hdb, Hsv, Her. lia.
  - cbn [set_dsup set_dbal vals]. apply val_eq; try congruence; lia.
  - rewrite Hd', Hfrom. lia.
  - rewrite Hd', Hto. lia.
Qed.

Lemma transfer_sender_not_empty e s i from to sh s' recv :
  from <> to -> transfer_delegation e s i from to sh = Ok s' recv -> del s' from i <> Some 0.
Proof.
  intros Hne Ht. destruct (transfer_spec _ _ _ _ _ _ _ _ Hne Ht) as (d & _ & _ & Hd & _).
  rewrite Hd. destruct (Z.eqb_spec (d - sh) 0); congruence.
Qed.

Lemma transfer_receiver_positive_rate1 e s i from to sh s' recv :
  (from < nacc e)%nat -> Inv e s -> rate1 s i -> (exists k, sh = k * PREC /\ 0 <= k) -> from <> to ->
  transfer_delegation e s i from to sh = Ok s' recv -> recv = sh /\ 0 < recv.
Proof.
  intros Hf HI Hr Hk Hne Ht.
  destruct (transfer_rate1 _ _ _ _ _ _ _ _ i Hf HI Hr (fun _ => Hk) Ht Hne) as (_ & _ & Hi & _).
  destruct (Hi eq_refl) as (-> & _). apply transfer_form in Ht. destruct Ht as (? & _). split; [reflexivity|lia].
Qed.

(** * backing: the derivative supply never exceeds the module account's delegation shares *)
Definition backed_all (e : env) (s : state) : Prop := forall i, dsup s i * PREC <= dshares s (liq e) i.

Lemma trunc_mul_le z : 0 <= z -> dec_trunc_int z * PREC <= z.
Proof.
  intros Hz. unfold dec_trunc_int. rewrite Z.quot_div_nonneg by (unfold PREC; lia).
  pose proof (Z.div_mod z PREC ltac:(unfold PREC; lia)). pose proof (Z.mod_pos_bound z PREC PREC_pos). lia.
Qed.

Lemma trunc_pos_nonneg z : 0 < dec_trunc_int z -> 0 <= z.
Proof.
  unfold dec_trunc_int. intros H. destruct (Z.le_gt_cases 0 z); [assumption|]. exfalso.
  replace z with (- (- z)) in H by lia. rewrite Z.quot_opp_l in H by (unfold PREC; lia).
  assert (0 <= Z.quot (- z) PREC) by (apply Z.quot_pos; unfold PREC; lia). lia.
Qed.

Lemma backed_ext e s s' :
  (forall i, dsup s' i = dsup s i) -> (forall i, del s' (liq e) i = del s (liq e) i) -> backed_all e s -> backed_all e s'.
Proof. intros Hs Hd H i. rewrite Hs, (dshares_same s s' _ i (Hd i)). apply H. Qed.

Theorem step_backed e s o s' out : backed_all e s -> step e s o = Ok s' out -> backed_all e s'.
Proof.
  intros HB H.
  destruct o as [a j amt|a j amt|a src dst amt|j power factor|j|j|m|a j amt|a j amt|a b j amt|p a j amt|p a j amt|votes];
    cbn [step] in H.
  - (* Delegate *)
    destruct (user_ok e a && val_ok e j) eqn:Eo; [|discriminate]. apply andb_prop in Eo. destruct Eo as (Ea & _).
    unfold user_ok in Ea. apply andb_prop in Ea. destruct Ea as (_ & Eal). apply negb_true_iff, Nat.eqb_neq in Eal.
    apply lift_ok in H. destruct H as (x & H). unfold msg_delegate in H.
    destruct (amt <=? 0); [discriminate|]. destruct (negb _); [discriminate|].
    destruct (delegate s a j amt true) as [s1 r| |] eqn:Ed; try discriminate. inversion H; subst s1.
    apply delegate_spec_gen in Ed. destruct Ed as (_ & _ & (_ & Hdo & _ & _ & _ & Hds & _) & _).
    apply (backed_ext e s); [intros i0; now rewrite Hds|intros i0; apply Hdo; left; congruence|exact HB].
  - (* Undelegate *)
    destruct (user_ok e a && val_ok e j) eqn:Eo; [|discriminate]. apply andb_prop in Eo. destruct Eo as (Ea & _).
    unfold user_ok in Ea. apply andb_prop in Ea. destruct Ea as (_ & Eal). apply negb_true_iff, Nat.eqb_neq in Eal.
    apply lift_ok in H. destruct H as (x & H). unfold undelegate in H.
    destruct (amt <=? 0); [discriminate|].
    destruct (validate_unbond_amount s a j amt) as [sh|]; [|discriminate].
    destruct (unbond e s a j sh) as [s1 issued| |] eqn:Eu; try discriminate. inversion H; subst s'.
    apply unbond_spec in Eu. destruct Eu as (_ & _ & _ & _ & _ & _ & _ & _ & (_ & Hdo & _ & _ & _ & _ & Hds & _)).
    apply (backed_ext e s); [intros i0; cbn [set_ubd dsup]; now rewrite Hds|intros i0; cbn [set_ubd del]; apply Hdo; left; congruence|exact HB].
  - (* Redelegate *)
    destruct (user_ok e a && val_ok e src && val_ok e dst) eqn:Eo; [|discriminate].
    apply andb_prop in Eo. destruct Eo as (Eo & _). apply andb_prop in Eo. destruct Eo as (Ea & _).
    unfold user_ok in Ea. apply andb_prop in Ea. destruct Ea as (_ & Eal). apply negb_true_iff, Nat.eqb_neq in Eal.
    apply lift_ok in H. destruct H as (x & H). unfold redelegate in H.
    destruct (amt <=? 0); [discriminate|].
    destruct (validate_unbond_amount s a src amt) as [sh|]; [|discriminate].
    destruct (Nat.eqb src dst); [discriminate|]. destruct (negb _); [discriminate|].
    destruct (redel s a src); [discriminate|].
    destruct (unbond e s a src sh) as [s1 issued| |] eqn:Eu; try discriminate.
    destruct (issued =? 0); [discriminate|].
    destruct (delegate s1 a dst issued false) as [s2 r| |] eqn:Ed; try discriminate.
    apply unbond_spec in Eu. destruct Eu as (_ & _ & _ & _ & _ & _ & _ & _ & (_ & Hdo1 & _ & _ & _ & _ & Hds1 & _)).
    apply delegate_spec_gen in Ed. destruct Ed as (_ & _ & (_ & Hdo2 & _ & _ & _ & Hds2 & _) & _).
    assert (HB2 : backed_all e s2).
    { apply (backed_ext e s); [intros i0; now rewrite Hds2, Hds1|intros i0; rewrite Hdo2, Hdo1; auto; left; congruence|exact HB]. }
    destruct (_ && _); inversion H; subst s'; [exact HB2|]. apply (backed_ext e s2); auto.
  - (* Slash *)
    destruct (val_ok e j); [|discriminate]. apply lift_ok in H. destruct H as (x & H). unfold slash in H.
    destruct (factor <? 0); [discriminate|].
    destruct (negb (v_exists (vals s j))); [inversion H; subst; exact HB|].
    destruct (vstatus_eqb _ _); [discriminate|]. inversion H; subst s'. apply (backed_ext e s); auto.
  - destruct (val_ok e j); [|discriminate]. apply lift_ok in H. destruct H as (x & H). unfold jail in H.
    destruct (negb _); [discriminate|]. destruct (v_jailed _); [discriminate|]. inversion H; subst s'. apply (backed_ext e s); auto.
  - destruct (val_ok e j); [|discriminate]. apply lift_ok in H. destruct H as (x & H). unfold unjail in H.
    destruct (negb (v_exists _)); [discriminate|]. destruct (del s (oper e _) _); [|discriminate]. destruct (_ =? 0); [discriminate|].
    destruct (_ <? _); [discriminate|]. destruct (negb (v_jailed _)); [discriminate|]. inversion H; subst s'. apply (backed_ext e s); auto.
  - inversion H; subst s'. unfold end_block. destruct m; apply (backed_ext e s); auto.
  - (* Mint: at most the shares received are minted *)
    destruct (user_ok e a && val_ok e j) eqn:Eo; [|discriminate]. apply andb_prop in Eo. destruct Eo as (Ea & _).
    unfold user_ok in Ea. apply andb_prop in Ea. destruct Ea as (_ & Eal). apply negb_true_iff, Nat.eqb_neq in Eal.
    apply lift_ok in H. destruct H as (x & H).
    destruct (mint_spec _ _ _ _ _ _ _ Eal H) as (sh & recv & s1 & _ & Hmin & Hpos & Hp & _ & Hdel & _ & _ & _ & _ & _ & _ & Hds & _ & Hdso).
    destruct Hp as (d & _ & _ & _ & Hdo & _ & _ & _ & _ & _ & _ & _ & _ & _ & _ & _ & _ & _ & _ & Hcase).
    intros i. unfold dshares. rewrite Hdel. fold (dshares s1 (liq e) i).
    destruct (Nat.eq_dec i j) as [->|Hij].
    + rewrite Hds.
      assert (Hr : 0 < dec_trunc_int recv) by lia.
      pose proof (trunc_pos_nonneg recv Hr) as Hr0. pose proof (trunc_mul_le recv Hr0) as Hle.
      assert (Hliq : dshares s1 (liq e) j = dshares s (liq e) j + recv).
      { destruct Hcase as [(Hz & _)|(Hd & _)]; [exfalso; subst recv; cbn in Hr; lia|].
        unfold dshares at 1. now rewrite Hd. }
      rewrite Hliq. pose proof (HB j). unfold PREC in *. lia.
    + rewrite Hdso by exact Hij. unfold dshares. rewrite Hdo by (right; exact Hij). apply HB.
  - (* Burn: exactly the units burned leave the module's delegation *)
    destruct (user_ok e a && val_ok e j) eqn:Eo; [|discriminate]. apply andb_prop in Eo. destruct Eo as (Ea & _).
    unfold user_ok in Ea. apply andb_prop in Ea. destruct Ea as (_ & Eal). apply negb_true_iff, Nat.eqb_neq in Eal.
    apply lift_ok in H. destruct H as (x & H).
    destruct (burn_spec _ _ _ _ _ _ _ Eal H) as (Hamt & Hp). cbv zeta in Hp.
    destruct Hp as (d & Hd & Hsh & Hfrom & Hdo & _ & _ & _ & _ & _ & _ & _ & _ & _ & _ & _ & _ & _ & Hds & _).
    intros i. rewrite Hds. cbn [set_dsup set_dbal dsup]. rewrite upd_eq.
    destruct (Nat.eqb_spec i j) as [->|Hij].
    + unfold dshares. rewrite Hfrom. cbn [set_dsup set_dbal del] in Hd.
      pose proof (HB j) as Hb. unfold dshares in Hb. rewrite Hd in Hb. unfold dec_of_int in *.
      destruct (Z.eqb_spec (d - amt * PREC) 0); lia.
    + unfold dshares. rewrite Hdo by (right; exact Hij). cbn [set_dsup set_dbal del]. apply HB.
  - destruct (_ && _); [|discriminate]. apply lift_ok in H. destruct H as (x & H). unfold send_deriv in H.
    destruct (amt <=? 0); [discriminate|]. destruct (_ <? _); [discriminate|]. inversion H; subst s'. apply (backed_ext e s); auto.
  - destruct (_ && _); [|discriminate]. apply lift_ok in H. destruct H as (x & H). unfold stash in H.
    destruct (amt <=? 0); [discriminate|]. destruct (negb _); [discriminate|]. destruct (_ <? _); [discriminate|].
    destruct p; inversion H; subst s'; apply (backed_ext e s); auto.
  - destruct (_ && _); [|discriminate]. apply lift_ok in H. destruct H as (x & H). unfold unstash in H.
    destruct (amt <=? 0); [discriminate|].
    destruct p; [destruct (_ <=? 0)|destruct (negb _)]; try discriminate; inversion H; subst s'; apply (backed_ext e s); auto.
  - destruct (tally e s votes); inversion H; subst; exact HB.
Qed.

Theorem run_backed e ops : forall s, backed_all e s -> backed_all e (run e s ops).
Proof.
  induction ops as [|o r IH]; intros s HB; [exact HB|]. cbn [run fold_left]. apply IH.
  unfold step'. destruct (step e s o) as [s' out| |] eqn:E; auto. eapply step_backed; eauto.
Qed.

(** * never an empty delegation *)
Lemma issued_lower v sh :
  0 <= v_tokens v -> 0 < v_shares v -> 0 <= sh ->
  let issued := dec_trunc_int (tokens_from_shares v sh) in
  0 <= issued /\ sh * v_tokens v - v_shares v < v_shares v * issued.
Proof.
  intros HT HS Hsh. cbv zeta. unfold tokens_from_shares, dec_trunc_int.
  set (T := v_tokens v) in *. set (S := v_shares v) in *. set (x := sh * T).
  assert (Hx : 0 <= x) by (subst x; nia).
  pose proof (dec_quo_bounds x S Hx HS) as Hq. cbv zeta in Hq.
  pose proof (dec_quo_nonneg x S Hx HS) as Hq0.
  set (tq := dec_quo x S) in *.
  set (q := x * PREC * PREC / S) in *.
  assert (Hqs : q * S <= x * PREC * PREC < q * S + S).
  { subst q. pose proof (Z.div_mod (x * PREC * PREC) S ltac:(lia)). pose proof (Z.mod_pos_bound (x * PREC * PREC) S HS). nia. }
  rewrite Z.quot_div_nonneg by (unfold PREC; lia).
  set (issued := tq / PREC).
  assert (Hiss : issued * PREC <= tq < issued * PREC + PREC).
  { subst issued. pose proof (Z.div_mod tq PREC ltac:(unfold PREC; lia)). pose proof (Z.mod_pos_bound tq PREC PREC_pos). nia. }
  split; [subst issued; apply Z.div_pos; [lia|apply PREC_pos]|].
  assert (P2 : 2 < PREC) by reflexivity.
  assert (A1 : 2 * x * PREC * PREC - 2 * S < 2 * q * S) by lia.
  assert (A2 : S * (2 * q - PREC) <= 2 * S * tq * PREC) by nia.
  assert (A3 : S * tq - S * PREC + S <= S * issued * PREC) by nia.
  assert (A4 : 2 * x * PREC * PREC - 2 * S - PREC * S < 2 * S * tq * PREC) by lia.
  assert (A5 : 2 * x * PREC * PREC - 2 * S - PREC * S - 2 * S * PREC * PREC + 2 * S * PREC < 2 * S * issued * PREC * PREC) by nia.
  assert (A6 : 0 <= 2 * S * PREC - 2 * S - PREC * S) by (unfold PREC in *; lia).
  assert (A7 : (x - S) * (2 * PREC * PREC) < (S * issued) * (2 * PREC * PREC)) by lia.
  unfold PREC in A7. lia.
Qed.

(* a share worth less than 5*10^17 tokens: with it, a transfer that moves at least one token
   delivers a positive number of shares *)
Lemma recv_positive v sh v1 issued v2 recv :
  0 <= v_tokens v -> 0 < v_shares v -> 2 * v_tokens v <= v_shares v -> 0 <= sh <= v_shares v ->
  remove_del_shares v sh = Some (v1, issued) -> 0 < issued ->
  add_tokens_from_del v1 issued = Some (v2, recv) -> 0 < recv.
Proof.
  intros HT HS H2 Hsh Hrem Hi Hadd.
  unfold remove_del_shares in Hrem.
  destruct (Z.eqb_spec (v_shares v - sh) 0) as [E0|E0].
  { injection Hrem as <- <-. unfold add_tokens_from_del in Hadd. cbn [set_ts v_shares v_tokens] in Hadd.
    rewrite E0 in Hadd. cbn in Hadd. injection Hadd as _ <-. unfold dec_of_int, PREC. lia. }
  destruct (Z.eqb_spec (v_shares v) 0); [lia|].
  destruct (Z.ltb_spec (v_tokens v - dec_trunc_int (tokens_from_shares v sh)) 0) as [|HT'ge]; [discriminate|].
  injection Hrem as <- <-.
  unfold add_tokens_from_del in Hadd. cbn [set_ts v_shares v_tokens] in Hadd.
  destruct (Z.eqb_spec (v_shares v - sh) 0); [contradiction|].
  destruct (Z.eqb_spec (v_tokens v - dec_trunc_int (tokens_from_shares v sh)) 0) as [|HT'0]; [discriminate|].
  injection Hadd as _ <-. unfold shares_from_tokens, dec_quo_int. cbn [set_ts v_tokens v_shares].
  destruct (issued_lower v sh HT HS ltac:(lia)) as (Hi0 & Hkey). cbv zeta in Hi0, Hkey.
  set (issued := dec_trunc_int (tokens_from_shares v sh)) in *.
  set (T := v_tokens v) in *. set (S := v_shares v) in *.
  assert (HS' : 1 <= S - sh) by lia.
  assert (HT' : 0 < T - issued) by lia.
  (* S * T' < T * S' + S, and 2 T <= S: 2 T' <= S' + 1 <= 2 S' *)
  assert (B1 : S * (T - issued) < T * (S - sh) + S) by nia.
  assert (B2 : 2 * S * (T - issued) < S * (S - sh) + 2 * S) by nia.
  assert (B3 : 2 * (T - issued) < (S - sh) + 2) by nia.
  assert (B4 : T - issued <= S - sh) by lia.
  rewrite Z.quot_div_nonneg by nia.
  assert ((T - issued) * 1 <= (S - sh) * issued) by nia.
  apply Z.div_str_pos. lia.
Qed.

Theorem transfer_no_empty_delegation e s i from to sh s' recv :
  from <> to -> (from < nacc e)%nat -> Inv e s ->
  2 * v_tokens (vals s i) <= v_shares (vals s i) ->
  transfer_delegation e s i from to sh = Ok s' recv ->
  del s' from i <> Some 0 /\ (del s' to i = Some 0 -> del s to i = Some 0) /\
  forall x j, (x <> from /\ x <> to) \/ j <> i -> del s' x j = del s x j.
Proof.
  intros Hne Hf HI H2 Ht. pose proof HI as (I1 & I2 & I3 & _).
  pose proof (transfer_spec _ _ _ _ _ _ _ _ Hne Ht) as (d & Hd & Hsh & Hfrom & Hdo & _ & _ & _ & Hex & _ & _ & _ & _ & _ & _ & _ & _ & _ & _ & Hcase).
  split; [rewrite Hfrom; destruct (Z.eqb_spec (d - sh) 0); congruence|]. split; [|exact Hdo].
  destruct Hcase as [(_ & ->)|(Hto & _)]; [auto|].
  intros Hz. rewrite Hto in Hz. injection Hz as Hz.
  (* the received shares are positive *)
  apply transfer_form in Ht. destruct Ht as (Hshp & _ & s1 & issued & Hu & Hc).
  assert (Hsh0 : 0 <= sh) by lia.
  destruct (unbond_inv _ _ _ _ _ _ _ Hf HI Hsh0 Hu) as (_ & Hi0).
  destruct Hc as [(_ & -> & ->)|(Hinz & Hdg)].
  { (* nothing moved: the receiver's record is the old one *)
    apply unbond_spec in Hu. destruct Hu as (_ & _ & _ & _ & _ & _ & _ & _ & (_ & Hdo1 & _)).
    rewrite Hdo1 in Hto by (left; congruence). rewrite Hto. f_equal. lia. }
  exfalso.
  apply unbond_spec in Hu. destruct Hu as (d' & v1 & Ed' & _ & _ & Hv1 & (v2 & Hrem & Hvals) & _ & _).
  assert (Ht1 : v_tokens v1 = v_tokens (vals s i) /\ v_shares v1 = v_shares (vals s i)).
  { destruct Hv1 as [->|(_ & -> & _)]; split; reflexivity. }
  destruct Ht1 as (Ht1 & Hs1).
  apply delegate_spec_gen in Hdg. destruct Hdg as ((v' & Hadd & _) & _).
  assert (HdS : d <= v_shares (vals s i)).
  { rewrite (I2 i Hex). replace d with (dshares s from i) by (unfold dshares; now rewrite Hd).
    apply (sumN_ge1 (nacc e) (fun x => dshares s x i)); [intros; apply I3|exact Hf]. }
  pose proof (I1 i) as (HT & HS).
  assert (Ev2 : vals s1 i = v2 \/ v_shares v2 = 0).
  { rewrite Hvals. destruct (Z.eqb_spec (v_shares v2) 0); [now right|now left]. }
  assert (Hadd' : add_tokens_from_del v2 issued = Some (v', recv) \/
                  (v_shares v2 = 0 /\ recv = dec_of_int issued)).
  { destruct Ev2 as [E|E]; [left; now rewrite <- E|right]. split; [exact E|].
    unfold add_tokens_from_del in Hadd.
    assert (Es : v_shares (vals s1 i) = 0) by (rewrite Hvals; destruct (_ && _); cbn; exact E).
    rewrite Es in Hadd. cbn in Hadd. injection Hadd as _ <-. reflexivity. }
  pose proof (I3 to i).
  destruct Hadd' as [Ha|(_ & ->)].
  - assert (0 < recv); [|lia].
    eapply (recv_positive v1 sh v2 issued v' recv); rewrite ?Ht1, ?Hs1; eauto; lia.
  - unfold dec_of_int, PREC in *. lia.
Qed.

(** * the tally's arithmetic for one bonded validator *)
Lemma delegation_power_bound v d :
  0 <= d -> 0 <= v_tokens v -> 0 < v_shares v ->
  0 <= delegation_power v d /\ 2 * v_shares v * delegation_power v d <= 2 * PREC * v_tokens v * d + v_shares v.
Proof.
  intros Hd HT HS. unfold delegation_power.
  assert (Hx : 0 <= d * v_tokens v) by nia.
  pose proof (dec_quo_bounds _ _ Hx HS) as B. cbv zeta in B.
  pose proof (dec_quo_nonneg _ _ Hx HS) as B0.
  set (q := d * v_tokens v * PREC * PREC / v_shares v) in *.
  assert (q * v_shares v <= d * v_tokens v * PREC * PREC).
  { subst q. pose proof (Z.div_mod (d * v_tokens v * PREC * PREC) (v_shares v) ltac:(lia)).
    pose proof (Z.mod_pos_bound (d * v_tokens v * PREC * PREC) (v_shares v) HS). nia. }
  split; [exact B0|].
  set (dq := dec_quo (d * v_tokens v) (v_shares v)) in *.
  assert (2 * dq * PREC * v_shares v <= (2 * q + PREC) * v_shares v) by nia.
  assert (PREC * (2 * v_shares v * dq) <= PREC * (2 * PREC * v_tokens v * d + v_shares v)) by nia.
  unfold PREC in *. nia.
Qed.

Lemma derivative_power_bound v h :
  0 <= h -> 0 <= v_tokens v -> 0 < v_shares v ->
  0 <= dec_of_int (derivative_value v h) /\
  v_shares v * dec_of_int (derivative_value v h) <= PREC * v_tokens v * dec_of_int h.
Proof.
  intros Hh HT HS. unfold derivative_value, tokens_from_shares_trunc, dec_quo_trunc, dec_of_int, dec_trunc_int, chop_trunc.
  set (x := h * PREC * v_tokens v).
  assert (Hx : 0 <= x) by (subst x; unfold PREC; nia).
  assert (Hn : 0 <= x * PREC * PREC) by (unfold PREC; nia).
  rewrite (Z.quot_div_nonneg (x * PREC * PREC) (v_shares v)) by lia.
  set (q := x * PREC * PREC / v_shares v).
  assert (Hq : 0 <= q /\ q * v_shares v <= x * PREC * PREC).
  { subst q. split; [apply Z.div_pos; lia|].
    pose proof (Z.div_mod (x * PREC * PREC) (v_shares v) ltac:(lia)).
    pose proof (Z.mod_pos_bound (x * PREC * PREC) (v_shares v) HS). nia. }
  rewrite (Z.quot_div_nonneg q PREC) by (unfold PREC; lia).
  set (c := q / PREC).
  assert (Hc : 0 <= c /\ c * PREC <= q).
  { subst c. split; [apply Z.div_pos; [lia|unfold PREC; lia]|].
    pose proof (Z.div_mod q PREC ltac:(unfold PREC; lia)). pose proof (Z.mod_pos_bound q PREC PREC_pos). nia. }
  rewrite (Z.quot_div_nonneg c PREC) by (unfold PREC; lia).
  set (t := c / PREC).
  assert (Ht : 0 <= t /\ t * PREC <= c).
  { subst t. split; [apply Z.div_pos; [lia|unfold PREC; lia]|].
    pose proof (Z.div_mod c PREC ltac:(unfold PREC; lia)). pose proof (Z.mod_pos_bound c PREC PREC_pos). nia. }
  split; [destruct Ht; unfold PREC in *; lia|].
  destruct Hq as (Hq0 & Hq1). destruct Hc as (Hc0 & Hc1). destruct Ht as (Ht0 & Ht1).
  assert (E1 : t * PREC * PREC <= q) by (unfold PREC in *; lia).
  assert (E2 : t * PREC * PREC * v_shares v <= q * v_shares v) by (apply Z.mul_le_mono_nonneg_r; lia).
  assert (E3 : PREC * PREC * (v_shares v * (t * PREC)) <= PREC * PREC * (PREC * x)) by (unfold PREC in *; lia).
  assert (E4 : v_shares v * (t * PREC) <= PREC * x) by (unfold PREC in *; lia).
  subst x. unfold PREC in *. lia.
Qed.

Lemma validator_power_bound v ded :
  0 <= ded <= v_shares v -> 0 <= v_tokens v -> 0 < v_shares v ->
  0 <= validator_power v ded /\
  2 * v_shares v * validator_power v ded <= 2 * PREC * v_tokens v * (v_shares v - ded) + v_shares v.
Proof.
  intros Hd HT HS. unfold validator_power.
  apply (delegation_power_bound v (v_shares v - ded)); lia.
Qed.

(* all the power counted on account of one bonded validator: the voting delegators' shares [ds],
   the voting derivative holders' units [hs], and, if the validator voted, its remaining shares *)
Definition counted_for (v : validator) (ds hs : list Z) (validator_voted : bool) : Z :=
  zsum (map (delegation_power v) ds) + zsum (map (fun h => dec_of_int (derivative_value v h)) hs) +
  (if validator_voted then validator_power v (zsum ds + zsum (map dec_of_int hs)) else 0).

Lemma zsum_dels v ds : (forall d, In d ds -> 0 <= d) -> 0 <= v_tokens v -> 0 < v_shares v ->
  0 <= zsum ds /\
  2 * v_shares v * zsum (map (delegation_power v) ds) <= 2 * PREC * v_tokens v * zsum ds + Z.of_nat (length ds) * v_shares v.
Proof.
  intros Hd HT HS. induction ds as [|d r IH]; [cbn; lia|].
  destruct IH as (I0 & I1); [intros; apply Hd; now right|].
  pose proof (delegation_power_bound v d (Hd d (or_introl eq_refl)) HT HS) as (_ & B).
  pose proof (Hd d (or_introl eq_refl)).
  cbn [map zsum fold_right length]. fold (zsum r). fold (zsum (map (delegation_power v) r)).
  rewrite Nat2Z.inj_succ. split; [lia|]. rewrite !Z.mul_add_distr_l. unfold Z.succ. rewrite Z.mul_add_distr_r. lia.
Qed.

Lemma zsum_bkava v hs : (forall h, In h hs -> 0 <= h) -> 0 <= v_tokens v -> 0 < v_shares v ->
  0 <= zsum (map dec_of_int hs) /\
  v_shares v * zsum (map (fun h => dec_of_int (derivative_value v h)) hs) <= PREC * v_tokens v * zsum (map dec_of_int hs).
Proof.
  intros Hh HT HS. induction hs as [|h r IH]; [cbn; lia|].
  destruct IH as (I0 & I1); [intros; apply Hh; now right|].
  pose proof (derivative_power_bound v h (Hh h (or_introl eq_refl)) HT HS) as (_ & B).
  pose proof (Hh h (or_introl eq_refl)).
  cbn [map zsum fold_right]. fold (zsum (map dec_of_int r)). fold (zsum (map (fun h => dec_of_int (derivative_value v h)) r)).
  split; [unfold dec_of_int at 1; unfold PREC; lia|]. rewrite !Z.mul_add_distr_l. lia.
Qed.

Theorem counted_for_bound v ds hs voted :
  (forall d, In d ds -> 0 <= d) -> (forall h, In h hs -> 0 <= h) ->
  0 <= v_tokens v -> 0 < v_shares v ->
  zsum ds + zsum (map dec_of_int hs) <= v_shares v ->
  2 * counted_for v ds hs voted <= 2 * dec_of_int (v_tokens v) + Z.of_nat (length ds) + 1.
Proof.
  intros Hd Hh HT HS HD.
  destruct (zsum_dels v ds Hd HT HS) as (D0 & D1). destruct (zsum_bkava v hs Hh HT HS) as (H0 & H1).
  unfold counted_for, dec_of_int at 2.
  set (A := zsum (map (delegation_power v) ds)) in *.
  set (B := zsum (map (fun h => dec_of_int (derivative_value v h)) hs)) in *.
  set (sd := zsum ds) in *. set (sh := zsum (map dec_of_int hs)) in *.
  set (n := Z.of_nat (length ds)) in *. assert (0 <= n) by (subst n; lia).
  set (S := v_shares v) in *. set (T := v_tokens v) in *.
  destruct voted.
  - destruct (validator_power_bound v (sd + sh) ltac:(lia) HT HS) as (_ & V). fold S T in V.
    set (C := validator_power v (sd + sh)) in *.
    assert (E : S * (2 * (A + B + C)) <= S * (2 * (T * PREC) + n + 1)) by nia.
    apply (Z.mul_le_mono_pos_l _ _ S HS). unfold dec_of_int. exact E.
  - assert (G : PREC * T * (sd + sh) <= PREC * T * S) by (apply Z.mul_le_mono_nonneg_l; [unfold PREC; nia|lia]).
    assert (E : S * (2 * (A + B + 0)) <= S * (2 * (T * PREC) + n + 1)) by nia.
    apply (Z.mul_le_mono_pos_l _ _ S HS). unfold dec_of_int. exact E.
Qed.

(** * redeemability on a validator at exchange rate one *)
Theorem burn_succeeds_rate1 e s a i amt :
  Inv e s -> rate1 s i -> (liq e < nacc e)%nat ->
  0 < amt <= dbal s a i ->
  dec_of_int amt <= dshares s (liq e) i ->
  redel s (liq e) i = false -> liq e <> oper e i -> v_exists (vals s i) = true ->
  (v_status (vals s i) <> Unbonded \/ v_shares (vals s i) <> dec_of_int amt) ->
  exists s' recv, burn e s a i amt = Ok s' recv /\ recv = dec_of_int amt.
Proof.
  intros HI (Hs & HT & Hk) Hl Hamt Hle Hrd Hop Hex Hlast. pose proof HI as (I1 & I2 & I3 & _).
  unfold burn. destruct (Z.leb_spec amt 0); [lia|]. destruct (Z.ltb_spec (dbal s a i) amt); [lia|].
  unfold transfer_delegation. cbn [set_dsup set_dbal del vals redel]. rewrite Hrd.
  unfold dec_of_int in *.
  destruct (Z.ltb_spec (amt * PREC) 0); [unfold PREC in *; lia|].
  destruct (Z.eqb_spec (amt * PREC) 0); [unfold PREC in *; lia|].
  unfold dshares in Hle. destruct (del s (liq e) i) as [d|] eqn:Ed; [|unfold PREC in *; lia].
  rewrite Hex. cbn [negb].
  destruct (Nat.eqb_spec (liq e) (oper e i)); [contradiction|]. cbn [andb].
  (* Unbond *)
  unfold unbond. cbn [set_dsup set_dbal del vals]. rewrite Ed. destruct (Z.ltb_spec d (amt * PREC)); [lia|].
  rewrite Hex. cbn [negb].
  destruct (Nat.eqb_spec (liq e) (oper e i)); [contradiction|]. cbn [andb].
  assert (HdS : d <= v_shares (vals s i)).
  { rewrite (I2 i Hex). replace d with (dshares s (liq e) i) by (unfold dshares; now rewrite Ed).
    apply (sumN_ge1 (nacc e) (fun x => dshares s x i)); [intros; apply I3|exact Hl]. }
  set (T := v_tokens (vals s i)) in *.
  assert (HaT : amt <= T) by (unfold PREC in *; lia).
  assert (Hrem : remove_del_shares (vals s i) (amt * PREC) = Some (set_ts (vals s i) (T - amt) ((T - amt) * PREC), amt)).
  { unfold remove_del_shares. rewrite Hs. fold T.
    destruct (Z.eqb_spec (T * PREC - amt * PREC) 0) as [E|E].
    - assert (T = amt) by (unfold PREC in *; lia). subst amt. do 2 f_equal. f_equal; lia.
    - destruct (Z.eqb_spec (T * PREC) 0); [unfold PREC in *; lia|].
      assert (0 < T) by (unfold PREC in *; lia).
      rewrite (tfs_rate1 (vals s i) T amt eq_refl Hs) by lia.
      replace (dec_trunc_int (amt * PREC)) with amt by (unfold dec_trunc_int; symmetry; apply quot_mul_cancel; unfold PREC; lia).
      destruct (Z.ltb_spec (T - amt) 0); [lia|]. do 2 f_equal. f_equal; lia. }
  rewrite Hrem. cbn [set_ts v_shares v_status].
  destruct (Z.eqb_spec amt 0); [lia|].
  (* the validator is still there *)
  assert (Hkeep : ((T - amt) * PREC =? 0) && vstatus_eqb (v_status (vals s i)) Unbonded = false).
  { destruct Hlast as [Hst|Hsh].
    - destruct (v_status (vals s i)); try contradiction; cbn; apply andb_false_r.
    - destruct (Z.eqb_spec ((T - amt) * PREC) 0); [|reflexivity]. exfalso. apply Hsh. rewrite Hs. fold T. unfold PREC in *; lia. }
  rewrite Hkeep.
  cbn [set_val set_vals vals set_del]. rewrite upd_same. cbn [set_ts v_exists]. rewrite Hex. cbn [negb].
  (* Delegate *)
  unfold delegate. cbn [set_val set_vals vals set_del]. rewrite upd_same.
  unfold invalid_ex_rate. cbn [set_ts v_tokens v_shares].
  assert (Hinv : (T - amt =? 0) && (0 <? (T - amt) * PREC) = false).
  { destruct (Z.eqb_spec (T - amt) 0) as [->|]; [reflexivity|reflexivity]. }
  rewrite Hinv. cbn [andb].
  unfold add_tokens_from_del. cbn [set_ts v_tokens v_shares].
  destruct (Z.eqb_spec ((T - amt) * PREC) 0).
  - eexists. eexists. split; [reflexivity|]. unfold dec_of_int. reflexivity.
  - destruct (Z.eqb_spec (T - amt) 0); [unfold PREC in *; lia|].
    eexists. eexists. split; [reflexivity|].
    unfold shares_from_tokens, dec_quo_int. cbn [set_ts v_tokens v_shares].
    replace ((T - amt) * PREC * amt) with (amt * PREC * (T - amt)) by ring. now apply quot_mul_cancel.
Qed.
