(* C02 instance: x/auction.  Begin blocker = Model.Auction.begin_block (abci.go BeginBlocker ->
   CloseExpiredAuctions: every index entry with end time <= block time is closed; ErrAuctionNotFound is
   ignored, ANY other error panics — a payout that fails halts the chain).
   Operations: MsgPlaceBid, and the keeper calls of other modules: StartSurplusAuction,
   StartDebtAuction, StartCollateralAuction (x/cdp, x/hard), CloseAuction.

   Invariant [InvW e s]:
     Proofs.Auction.Inv e s  (C06), whose conjuncts are the model form of the three invariants of
     x/auction/keeper/invariants.go —
       1. module account balance = sum of GetModuleAccountCoins over stored auctions, per denom — "module-account"
       2. the by-time index is a permutation of the (end time, id) keys of the stored auctions,
          ids pairwise distinct and below the next id                                         — "valid-index"
       3. every stored auction is valid (amounts >= 0, end <= max end, weights of a collateral
          auction valid)                                                                      — "valid-auctions"
     NOTE: keeper.RegisterInvariants defines these three routes but x/auction's AppModule.RegisterInvariants
     is an EMPTY function in this tree, so the crisis keeper never evaluates them; the C02 driver evaluates
     the index/custody predicates itself (harness/drivers/world/extinv.go).
     plus what the no-panic proof needs —
       4. every bank balance is non-negative (x/bank);
       5. [payable]: the initiator of an auction is a real (module) account; an auction that has received no
          bid still has the end time DistantFuture; the bidder of an auction that has received a bid can be
          paid (not a blocked address, not the empty address); the initiator of a debt auction may mint.
   Guards.
     block: the block time is before types.DistantFuture (year 9000): an auction without bids keeps
       EndTime = DistantFuture and its Bidder is the empty address (surplus, collateral) or the initiator
       module account, so closing it would fail — see [auction_begin_block_refuted_distant_future].
     operations: [op_okb] (C06: Start*Auction is called by another keeper with its own module account, valid
       amounts and return addresses; a reverse collateral bid carries the split the implementation computed)
       and [bidder_ok]: the bidder of MsgPlaceBid is a message signer — an account with a key, hence neither
       a blocked (module) address nor the empty address.  Discharged by the ante handler's signature
       verification and by app.go loadBlockedMaccAddrs (only module accounts are blocked).
     environment [env_ok]: the empty address is neither the auction module account nor a module account. *)
From Coq Require Import String Permutation.
From Kava Require Import Base.Prelude Model.World Model.WorldG Proofs.WorldG.
From Kava Require Import Base.Dec Model.Split Model.Auction Proofs.Split Proofs.Auction.
Local Open Scope string_scope.
Local Open Scope Z_scope.

Definition payable (e : env) (a : auction) : Prop :=
  a_init a <> nobody e /\
  (a_has a = false -> a_end a = DISTANT_FUTURE) /\
  (a_has a = true -> blocked e (a_bidder a) = false /\ a_bidder a <> nobody e) /\
  (a_kind a = KDebt -> minter e (a_init a) = true).

Definition nonneg (b : bank) : Prop := forall a d, 0 <= b a d.

Definition InvW (e : env) (s : state) : Prop :=
  Inv e s /\ nonneg (bal s) /\ Forall (payable e) (aucs s).

Definition env_ok (e : env) : Prop := env_wf e /\ is_module e (nobody e) = false.

Definition bidder_ok (e : env) (o : op) : Prop :=
  match o with
  | PlaceBid _ _ bidder _ _ _ => blocked e bidder = false /\ bidder <> nobody e
  | _ => True
  end.

(* the block hook is not a transaction *)
Definition auction_tx (e : env) (s : state) (o : op) : outcome state unit :=
  match o with BeginBlock _ => Err | _ => step e s o end.

Definition auction_M (e : env) : module :=
  mkModule ["auction"] state Z op
           (begin_block e) (auction_tx e) no_blocker
           (InvW e)
           (fun _ t => t < DISTANT_FUTURE)
           (fun s o => op_okb e s o = true /\ bidder_ok e o).

(** * bank balances stay non-negative *)
Lemma exec1_nonneg_bal e b xf b' : nonneg b -> exec1 e b xf = Ok b' tt -> nonneg b'.
Proof.
  intros N H a d. pose proof (exec1_net _ _ _ _ H a d) as E. rewrite E. clear E.
  destruct xf as [f t d0 x|f t d0 x|m d0 x|m d0 x]; cbn [exec1] in H; cbn [net1].
  - destruct (Z.ltb_spec x 0); [discriminate|]. destruct (Z.eqb_spec x 0).
    { subst. pose proof (N a d). eqb_cases; lia. }
    destruct (Z.ltb_spec (b f d0) x); [discriminate|].
    pose proof (N a d). eqb_cases; lia.
  - destruct (Z.ltb_spec x 0); [discriminate|]. destruct (blocked e t); [discriminate|].
    destruct (Z.eqb_spec x 0).
    { subst. pose proof (N a d). eqb_cases; lia. }
    destruct (Z.ltb_spec (b f d0) x); [discriminate|].
    pose proof (N a d). eqb_cases; lia.
  - destruct (Z.ltb_spec x 0); [discriminate|]. pose proof (N a d). eqb_cases; lia.
  - destruct (Z.ltb_spec x 0); [discriminate|]. destruct (negb (burner e m)); [discriminate|].
    destruct (Z.eqb_spec x 0).
    { subst. pose proof (N a d). eqb_cases; lia. }
    destruct (Z.ltb_spec (b m d0) x); [discriminate|].
    pose proof (N a d). eqb_cases; lia.
Qed.

Lemma exec_nonneg_bal e xs : forall b b', nonneg b -> exec e b xs = Ok b' tt -> nonneg b'.
Proof.
  induction xs as [|xf r IH]; intros b b' N H; cbn [exec] in H.
  - inversion H; subst; exact N.
  - destruct (exec1 e b xf) as [b1 []| |] eqn:E1; try discriminate.
    eapply IH; [|exact H]. eapply exec1_nonneg_bal; eauto.
Qed.

(** * stores *)
Lemma aput_in a l x : In x (aput a l) -> x = a \/ In x l.
Proof.
  induction l as [|h r IH]; cbn [aput]; intros H.
  - destruct H as [<-|[]]; auto.
  - destruct (a_id h =? a_id a).
    + destruct H as [<-|H]; [auto|right; right; exact H].
    + destruct (a_id a <? a_id h).
      * destruct H as [<-|H]; auto.
      * destruct H as [<-|H]; [right; left; reflexivity|].
        destruct (IH H) as [->|H']; [auto|right; right; exact H'].
Qed.

Lemma adel_in id l x : In x (adel id l) -> In x l.
Proof.
  induction l as [|h r IH]; cbn [adel]; intros H; [exact H|].
  destruct (a_id h =? id); [right; exact H|]. destruct H as [<-|H]; [left; reflexivity|right; auto].
Qed.

Lemma payable_put e a l : payable e a -> Forall (payable e) l -> Forall (payable e) (aput a l).
Proof.
  intros Pa Pl. rewrite Forall_forall in *. intros x Hx.
  destruct (aput_in _ _ _ Hx) as [->|H]; auto.
Qed.

(** * operations keep the extended invariant *)
Lemma start_W e s seller a xs s' :
  env_ok e -> nonneg (bal s) -> Forall (payable e) (aucs s) ->
  a_init a = seller -> a_has a = false -> a_end a = DISTANT_FUTURE ->
  (a_kind a = KDebt -> minter e seller = true) ->
  start e s seller a xs = Ok s' tt -> nonneg (bal s') /\ Forall (payable e) (aucs s').
Proof.
  intros [_ Hnm] N Q Hi Hh He Hk H. unfold start in H.
  destruct (is_module e seller) eqn:Em; cbn [negb] in H; [|discriminate].
  destruct (exec e (bal s) xs) as [b' []| |] eqn:Ex; try discriminate.
  inversion H; subst s'; clear H. unfold store_new, set_auction. cbn [bal aucs]. split.
  - eapply exec_nonneg_bal; eauto.
  - apply payable_put; [|exact Q]. split; [|split; [|split]].
    + rewrite Hi. intros E. rewrite E, Hnm in Em. discriminate.
    + intros _. exact He.
    + rewrite Hh. discriminate.
    + rewrite Hi. exact Hk.
Qed.

Lemma tx_W e s o s' :
  env_ok e -> InvW e s -> op_okb e s o = true -> bidder_ok e o ->
  auction_tx e s o = Ok s' tt -> InvW e s'.
Proof.
  intros Hok (HI & N & Q) Hg Hb H. pose proof Hok as [Hwf Hnm].
  assert (Hst : step e s o = Ok s' tt) by (destruct o; try discriminate; exact H).
  split; [eapply step_inv; eauto|].
  destruct o as [seller ld lot bd|buyer bd bid ld lot dd debt|seller ld lot bd maxbid raddrs rws dd debt|t id bidder d x parts|t id|t];
    cbn [auction_tx step] in H.
  - refine (start_W e s _ _ _ s' Hok N Q _ _ _ _ H); try reflexivity. cbn [a_kind]. discriminate.
  - destruct (is_module e buyer); cbn [negb] in H; [|discriminate].
    destruct (minter e buyer) eqn:Em; cbn [negb] in H; [|discriminate].
    refine (start_W e s _ _ _ s' Hok N Q _ _ _ _ H); try reflexivity. intros _. exact Em.
  - destruct (weights_valid e raddrs rws); cbn [negb] in H; [|discriminate].
    refine (start_W e s _ _ _ s' Hok N Q _ _ _ _ H); try reflexivity. cbn [a_kind]. discriminate.
  - unfold place_bid in H. destruct (afind id (aucs s)) as [a|] eqn:Hf; [|discriminate].
    destruct (a_end a <? t); [discriminate|].
    destruct (bid_routine e t a bidder d x parts) as [[a' xs] []| |] eqn:Hr; try discriminate.
    destruct (exec e (bal s) xs) as [b' []| |] eqn:Ex; try discriminate.
    inversion H; subst s'; clear H. unfold set_auction. cbn [bal aucs]. split.
    + eapply exec_nonneg_bal; eauto.
    + destruct (bid_routine_rules _ _ _ _ _ _ _ _ _ Hr) as (Rb & Rk & Ri & Rh & _).
      rewrite Forall_forall in Q. pose proof (Q _ (afind_In _ _ _ Hf)) as (Pa1 & _ & _ & Pa4).
      apply payable_put; [|rewrite Forall_forall; exact Q]. cbn [bidder_ok] in Hb. split; [|split; [|split]].
      * rewrite Ri. exact Pa1.
      * rewrite Rh. discriminate.
      * rewrite Rb. intros _. exact Hb.
      * rewrite Rk, Ri. exact Pa4.
  - unfold close in H. destruct (afind id (aucs s)) as [a|] eqn:Hf; [|discriminate].
    destruct (t <? a_end a); [discriminate|].
    destruct (exec e (bal s) (payout e a)) as [b' []| |] eqn:Ex; try discriminate.
    inversion H; subst s'; clear H. unfold delete_auction. cbn [bal aucs]. split.
    + eapply exec_nonneg_bal; eauto.
    + rewrite Forall_forall in *. intros y Hy. apply Q. eapply adel_in; eauto.
  - discriminate.
Qed.

(** * the begin blocker completes *)
Lemma close_W e s t id s' :
  InvW e s -> close e s t id = Ok s' tt -> InvW e s'.
Proof.
  intros (HI & N & Q) H. split; [eapply close_inv; eauto|].
  unfold close in H. destruct (afind id (aucs s)) as [a|] eqn:Hf; [|discriminate].
  destruct (t <? a_end a); [discriminate|].
  destruct (exec e (bal s) (payout e a)) as [b' []| |] eqn:Ex; try discriminate.
  inversion H; subst s'; clear H. unfold delete_auction. cbn [bal aucs]. split.
  - eapply exec_nonneg_bal; eauto.
  - rewrite Forall_forall in *. intros y Hy. apply Q. eapply adel_in; eauto.
Qed.

(* every listed id that is still stored has reached its end time *)
Definition due (t : Z) (s : state) (ids : list Z) : Prop :=
  forall a, In a (aucs s) -> In (a_id a) ids -> a_end a <= t.

Lemma close_all_ok e t : t < DISTANT_FUTURE -> forall ids s,
  InvW e s -> due t s ids -> exists s', close_all e s t ids = Ok s' tt /\ InvW e s'.
Proof.
  intros Ht. induction ids as [|id r IH]; intros s W D; cbn [close_all].
  - eexists; split; [reflexivity|exact W].
  - destruct (afind id (aucs s)) as [a|] eqn:Hf.
    + pose proof W as (HI & N & Q).
      pose proof (afind_In _ _ _ Hf) as Hin. pose proof (afind_id _ _ _ Hf) as Hid.
      assert (Hend : a_end a <= t) by (apply D; [exact Hin|rewrite Hid; left; reflexivity]).
      rewrite Forall_forall in Q. destruct (Q _ Hin) as (P1 & P2 & P3 & P4).
      assert (Hh : a_has a = true).
      { destruct (a_has a) eqn:Eh; [reflexivity|]. specialize (P2 eq_refl). lia. }
      destruct (P3 Hh) as (Pb & Pn).
      destruct (close_pays e s t id a HI Hf Hend Pb Pn P1) as (s1 & Hc).
      { intros Hk. split; [exact (P4 Hk)|apply N]. }
      cbn [step] in Hc. rewrite Hc.
      pose proof (close_W _ _ _ _ _ W Hc) as W1.
      apply IH; [exact W1|].
      intros y Hy Hyr. destruct (close_aucs _ _ _ _ _ _ HI Hf Hc y Hy) as (Hy0 & _).
      apply D; [exact Hy0|right; exact Hyr].
    + apply IH; [exact W|]. intros y Hy Hyr. apply D; [exact Hy|right; exact Hyr].
Qed.

Lemma in_same_id l : NoDup (map a_id l) -> forall a a', In a l -> In a' l -> a_id a = a_id a' -> a = a'.
Proof.
  induction l as [|h r IH]; intros ND a a' Ha Ha' E; [destruct Ha|].
  cbn [map] in ND. inversion ND as [|? ? Hn ND']; subst.
  destruct Ha as [<-|Ha]; destruct Ha' as [<-|Ha'].
  - reflexivity.
  - exfalso. apply Hn. rewrite E. apply in_map. exact Ha'.
  - exfalso. apply Hn. rewrite <- E. apply in_map. exact Ha.
  - apply IH; assumption.
Qed.

Lemma expired_due e s t : Inv e s -> due t s (expired t (idx s)).
Proof.
  intros HI a Ha Hid. destruct (Inv_means e s HI) as (_ & Hp & ND & _).
  unfold expired in Hid. apply in_map_iff in Hid. destruct Hid as ([en i] & Ei & Hf). cbn [snd] in Ei. subst i.
  apply filter_In in Hf. destruct Hf as (Hk & Hle). cbn [fst] in Hle. apply Z.leb_le in Hle.
  pose proof (Permutation_in _ Hp Hk) as Hk'. apply in_map_iff in Hk'. destruct Hk' as (a' & Ek & Ha').
  unfold akey in Ek. inversion Ek; subst.
  rewrite (in_same_id _ ND a a' Ha Ha' (eq_sym H1)). exact Hle.
Qed.

Lemma auction_M_ok e : env_ok e -> module_ok (auction_M e).
Proof.
  intros Hok. constructor; cbn [m_S m_B m_O m_bb m_tx m_eb m_Inv m_goodB m_goodT auction_M].
  - intros s t W Ht. unfold begin_block. apply close_all_ok; [exact Ht|exact W|].
    apply (expired_due e). exact (proj1 W).
  - intros s o s' u W [Hg Hb] H. destruct u. eapply tx_W; eauto.
  - intros s b W. exists s. split; [reflexivity|exact W].
Qed.

(** * the block guard is needed: at (or after) DistantFuture the begin blocker tries to pay the lot of a
      surplus auction that never received a bid to the empty address and panics *)
Definition rf_env : env :=
  mk_env 4 5 [false;false;false;true;true;false] [false;false;false;true;false;false]
         [false;false;false;true;false;false] [false;false;false;true;true;false]
         [1000; 300; 100] [50000000000000000; 50000000000000000; 50000000000000000].
Definition rf_init : state :=
  mk_state [[0;1000;1000;1000]; [0;1000;1000;1000]; [0;1000;1000;1000]; [500;5000;5000;5000]; [0;0;0;0]; [0;0;0;0]] [] [] 1.

Lemma env_ok_rf : env_ok rf_env.
Proof. split; [unfold env_wf; cbn; discriminate|reflexivity]. Qed.

Lemma InvW_init e b nx : (forall d, b (amod e) d = 0) -> nonneg b -> InvW e (mkState b [] [] nx).
Proof. intros H N. split; [apply Inv_init; exact H|]. split; [exact N|constructor]. Qed.

Lemma rf_init_W : InvW rf_env rf_init.
Proof.
  apply InvW_init.
  - intros d. unfold rf_init, mk_state, amod, rf_env, mk_env. cbn.
    destruct d as [|[|[|[|d]]]]; cbn; try reflexivity. destruct d; reflexivity.
  - intros a d. unfold rf_init, mk_state. cbn.
    do 7 (destruct a as [|a]; [do 5 (destruct d as [|d]; [cbn; lia|]); cbn; destruct d; cbn; lia|]).
    cbn. destruct a; cbn; destruct d; cbn; lia.
Qed.

Definition rf_s1 : state := step' rf_env rf_init (StartSurplus 3 2 40 1).

Lemma rf_s1_W : InvW rf_env rf_s1.
Proof.
  apply (tx_W rf_env rf_init (StartSurplus 3 2 40 1)); [exact env_ok_rf|exact rf_init_W|reflexivity|exact I|].
  vm_compute. reflexivity.
Qed.

Theorem auction_begin_block_refuted_distant_future :
  exists e s t, env_ok e /\ InvW e s /\ ~ t < DISTANT_FUTURE /\ begin_block e s t = Panic.
Proof.
  exists rf_env, rf_s1, DISTANT_FUTURE.
  split; [exact env_ok_rf|]. split; [exact rf_s1_W|]. split; [lia|]. vm_compute. reflexivity.
Qed.

(** * non-vacuity: an auction with bids is closed by a good block, from a state satisfying InvW *)
Definition nv_ops : list op :=
  [StartColl 3 3 100 2 60 [0%nat;1%nat] [1;2] 0 50;
   PlaceBid 10 1 0 2 20 [];
   PlaceBid 20 1 1 2 60 [];
   PlaceBid 30 1 2 3 90 [3;7]].

Example auction_nonvacuous :
  InvW rf_env rf_init /\
  let s := run rf_env rf_init nv_ops in
  length (aucs s) = 1%nat /\
  match begin_block rf_env s 130 with Ok s' _ => aucs s' = [] | _ => False end.
Proof. split; [exact rf_init_W|]. vm_compute. split; reflexivity. Qed.

Print Assumptions auction_M_ok.
Print Assumptions auction_begin_block_refuted_distant_future.
