(* C02 instance: x/cdp.

   BEGIN BLOCKER = x/cdp/abci.go BeginBlocker = Model.Cdp.begin_block, run by the model operation
   [Block dt prices] (new pricefeed prices, clock + dt, height + 1, then begin_block): for every
   collateral type in params order UpdatePricefeedStatus (spot, liquidation market; a market without a
   valid price skips the type), AccumulateInterest, and - when height mod LiquidationBlockInterval = 0 -
   SynchronizeInterestForRiskyCDPs and LiquidateCdps (SeizeCollateral, AuctionCollateral,
   CreateAuctionsFromDeposit, x/auction StartCollateralAuction as bank movements); then
   RunSurplusAndDebtAuctions (NetSurplusAndDebt, StartDebtAuction, StartSurplusAuction).  Every error
   returned by these keeper functions is turned into a panic by BeginBlocker, i.e. halts the chain
   (only pricefeed ErrNoValidPrice from LiquidateCdps is ignored).  The block input is (dt, new prices).
   x/cdp has no end blocker.

   OPERATIONS = MsgCreateCDP, MsgDeposit, MsgWithdraw, MsgDrawDebt, MsgRepayDebt, MsgLiquidate
   (Model.Cdp.step without [Block]).

   INVARIANT [Inv5 e s] = Inv4 e s /\ TimeInv s (x/cdp registers NO invariant with the crisis keeper: module.go
   RegisterInvariants is empty; everything below is either a C04 coherence invariant or "needed by the
   no-panic proof"):
     1. IdxInv e s  (C04): every record sits under its own key; the collateral-ratio index of every type
        holds exactly one entry per stored cdp, keyed by the ratio recomputed from the stored record; no
        cdp at or above the next id.  NEEDED: the scans of SynchronizeInterestForRiskyCDPs /
        LiquidateCdps load every index entry (a missing cdp = panic); distinct entries = distinct cdps.
     2. CustInv e s (C04): cdp collateral = sum of its deposits, one type per id, deposits non-negative,
        of users, of stored cdps; the cdp module account holds exactly the recorded collateral per
        denom.  NEEDED: SeizeCollateral can send every deposit from the cdp module account.
     3. OwnInv s    (C04): the owner index lists every cdp exactly once under its owner.
     4. BalNN s     : no negative x/bank balance.  NEEDED: the liquidator can hand lots and debt to
        x/auction after a seizure.
     5. DepPos s    : every deposit record is > 0.  NEEDED: CreateAuctionsFromDeposit divides by the
        deposit, AuctionCollateral by the sum of the deposits.  (The keeper reward can write a zero
        record, but only inside a MsgLiquidate whose seizure then deletes it or fails: a zero record
        never survives a transaction; see payout_reward_New / keeper_liquidate_New.)
     6. FeeInv s    : global interest factors >= 1; every stored cdp has principal >= 0, fees >= 0 and
        interest factor in (0, global factor of its type].  NEEDED: a stored cdp implies the global
        factor of its type is set (SynchronizeInterestForRiskyCDPs panics otherwise), interest
        increments are >= 0, the seized debt is >= 0 (sdk.NewCoin panics on a negative amount; the
        auction arithmetic of the model agrees with Go's truncating Quo/Mod only for debt >= 0).

     7. TimeInv s   : every stored previous-accrual time is <= the block time.  NOT needed by the model
        proof; it is what makes the elapsed time of every AccumulateInterest call >= 0 (Proofs/WorldCdpTime.v
        elapsed_nonneg): the Go code converts the elapsed seconds to an unsigned integer
        (CalculateInterestFactor, sdkmath.NewUintFromBigInt panics on a negative value) - a panic the model
        does not represent ([rel_pow] is total), so the theorem is stated where model and code agree.

   GUARDS: block input [m_goodB s (dt, prices)] = 0 <= dt: the block time does not run backwards (CometBFT:
   BFT time is monotone); it keeps TimeInv.  No guard on prices.  None on operations ([m_goodT] = True;
   [step] itself refuses signers that are not user accounts - module accounts have no key).
   ENVIRONMENT [env_ok e] (Proofs/WorldCdpLive.v):
     - env_wf e: the stable denom and the debt denom are not collateral denoms (deployment configuration:
       "usdx"/"debt" vs bnb, btcb, ...; Params.Validate does not check it);
     - params_ok e: KeeperRewardPercentage >= 0        (types/params.go validateCollateralParams);
     - AuctionSize > 0, StabilityFee >= 1              (validateCollateralParams);
     - DebtAuctionLot <= DebtAuctionThreshold: NOT enforced by Params.Validate (both are only required
       to be positive).  Without it the begin blocker can halt the chain:
       [cdp_begin_block_refuted_params] below.
   PARAMETER DOMAIN [env_dom e] (not used by the proof; it delimits where Model/Cdp.v follows the Go code:
   outside it the Go code panics where the model computes a value):
     - LiquidationRatio > 0 (validateCollateralParams), LiquidationBlockInterval > 0 (validated);
     - 0 <= ConversionFactor <= 18 for every collateral and for the debt param: NOT checked by
       Params.Validate; sdk.NewDecFromIntWithPrec panics outside this range
       (convertCollateralToBaseUnits / convertDebtToBaseUnits / calculateCollateralRatio, all on the
       begin-blocker path as soon as a cdp is synchronised or scanned) - reproduced on the real keepers:
       ConversionFactor 19 passes Params.Validate, the next BeginBlocker with a cdp of that type panics
       "too much precision, maximum 18, provided 19";
     - CheckCollateralizationIndexCount <= 2^20: NOT bounded by Params.Validate (only >= 0);
       SynchronizeInterestForRiskyCDPs allocates make([]uint64, 0, count): with count = 2^45 the
       process dies with "fatal error: out of memory" in BeginBlocker (reproduced), from 2^63 Int64()
       panics.  The model's [scan_count] does not represent allocation; the formal bound 2^20 only
       excludes such values.

   RESULT: [cdp_M_ok : env_ok e -> env_dom e -> module_ok (cdp_M e)]: from every state satisfying Inv5 the
   begin blocker returns Ok for every block input with dt >= 0 (any prices) and re-establishes Inv5; every
   accepted message keeps Inv5.  ([cdp_bb_ok]: for Inv4 alone no guard at all is needed.) *)
From Coq Require Import String.
From Kava Require Import Base.Prelude Model.World Model.WorldG Proofs.WorldG.
From Kava Require Import Base.Dec Model.Cdp Proofs.CdpRatio Proofs.Cdp Proofs.CdpInv Proofs.CdpInv2 Proofs.CdpInv3
  Proofs.CdpCust Proofs.CdpOwn Proofs.WorldCdpInv Proofs.WorldCdpLive Proofs.WorldCdpTime.
Local Open Scope string_scope.
Local Open Scope Z_scope.

(* the block hook is not a transaction *)
Definition cdp_tx (e : env) (s : state) (o : op) : outcome state unit :=
  match o with Block _ _ => Err | _ => step e s o end.

Definition cdp_bb (e : env) (s : state) (b : Z * list (nat * Z)) : outcome state unit :=
  step e s (Block (fst b) (snd b)).

Definition Inv5 (e : env) (s : state) : Prop := Inv4 e s /\ TimeInv s.

(* where the model follows the code (see the header) *)
Definition env_dom (e : env) : Prop :=
  (forall t cp, get_cp e t = Some cp -> 0 < cp_liq cp /\ 0 <= cp_cf cp <= 18 /\ 0 <= cp_count cp <= 2 ^ 20) /\
  0 <= dp_cf e <= 18 /\ 0 < interval e.

Definition cdp_M (e : env) : module :=
  mkModule ["cdp"] state (Z * list (nat * Z)) op
           (cdp_bb e) (cdp_tx e) no_blocker
           (Inv5 e) (fun _ b => 0 <= fst b) (fun _ _ => True).

(** safety half alone (no environment hypothesis beyond C04's) *)
Lemma cdp_keeps e : env_wf e -> params_ok e ->
  forall s b s', Inv3 e s -> cdp_bb e s b = Ok s' tt -> Inv3 e s'.
Proof. intros Hwf Hpar s b s' HI E. unfold cdp_bb in E. eapply step_Inv3; eassumption. Qed.

(** the begin blocker completes *)
Lemma cdp_bb_ok e s b : env_ok e -> Inv4 e s -> exists s', cdp_bb e s b = Ok s' tt /\ Inv4 e s'.
Proof.
  intros Hok H4. unfold cdp_bb. cbn [step].
  apply begin_block_ok; [exact Hok|]. apply (Inv4_frame e s); try reflexivity. exact H4.
Qed.

Lemma cdp_M_ok e : env_ok e -> env_dom e -> module_ok (cdp_M e).
Proof.
  intros Hok _. constructor; cbn [m_S m_B m_O m_bb m_tx m_eb m_Inv m_goodB m_goodT cdp_M].
  - intros s b [HI HT] Hdt. destruct (cdp_bb_ok e s b Hok HI) as (s' & E & HI'). exists s'. split; [exact E|].
    split; [exact HI'|]. unfold cdp_bb in E. eapply block_TimeInv; eassumption.
  - intros s o s' u [HI HT] _ E. destruct Hok as (Hwf & Hpar & _). unfold cdp_tx in E.
    assert (Hnb : forall dt p, o <> Block dt p) by (intros dt p ->; discriminate).
    assert (E' : step e s o = Ok s' u) by (destruct o; try discriminate; exact E).
    split; [eapply tx_Inv4; eassumption|eapply tx_TimeInv; eassumption].
  - intros s b HI. exists s. split; [reflexivity|exact HI].
Qed.

Lemma cdp_good_txs e os : forall s, good_txs (cdp_M e) s os.
Proof. induction os as [|o os IHo]; intros s; cbn [good_txs]; [exact I|]. split; [intros; exact I|apply IHo]. Qed.

(* the chain of the component never halts and Inv5 holds at every height *)
Corollary cdp_never_halts e : env_ok e -> env_dom e ->
  forall blks s, Forall (fun blk : (Z * list (nat * Z)) * list op => 0 <= fst (fst blk)) blks ->
  Inv5 e s -> exists s', run_blocksG (cdp_M e) s blks = Some s' /\ Inv5 e s'.
Proof.
  intros Hok Hdom blks s Hdt HI. apply (module_never_halts (cdp_M e) (cdp_M_ok e Hok Hdom) blks s HI).
  clear HI. revert s. induction Hdt as [|b r Hb _ IH]; intros s; cbn [good_blocks]; [exact I|].
  split; [exact Hb|split].
  - intros s1 _. apply cdp_good_txs.
  - intros s2 _. apply IH.
Qed.

(** * genesis states *)
Lemma nthZ_nonneg (l : list Z) d : Forall (fun z => 0 <= z) l -> 0 <= nthZ l d.
Proof.
  intros H. unfold nthZ. revert d. induction H as [|x r Hx _ IH]; intros d; destruct d; cbn; try lia. apply IH.
Qed.

Lemma init_BalNN bals sups prices status ifacs ptimes startid t h :
  Forall (Forall (fun z => 0 <= z)) bals -> BalNN (mk_state bals sups prices status ifacs ptimes startid t h).
Proof.
  intros H a d. cbn [mk_state bal]. apply nthZ_nonneg.
  revert a. induction H as [|x r Hx _ IH]; intros a; destruct a; cbn; try constructor; auto.
Qed.

Lemma init_FeeInv bals sups prices status ifacs ptimes startid t h :
  Forall (fun z => z < 0 \/ PREC <= z) ifacs -> FeeInv (mk_state bals sups prices status ifacs ptimes startid t h).
Proof.
  intros H. split; [|intros t0 id c E; cbn in E; discriminate].
  intros t0 gf. cbn [mk_state ifac]. unfold nthO. revert t0.
  induction H as [|x r Hx _ IH]; intros t0; destruct t0; cbn [nth_error]; try discriminate; [|apply IH].
  destruct (Z.ltb_spec x 0); [discriminate|]. intros E; inversion E; subst. lia.
Qed.

Lemma init_Inv4 e bals sups prices status ifacs ptimes startid t h :
  (forall t0 cp, get_cp e t0 = Some cp -> nthZ (nth (CDPM e) bals []) (cp_denom cp) = 0) ->
  Forall (Forall (fun z => 0 <= z)) bals -> Forall (fun z => z < 0 \/ PREC <= z) ifacs ->
  Inv4 e (mk_state bals sups prices status ifacs ptimes startid t h).
Proof.
  intros Hc Hb Hf. split; [split; [|split]|split; [|split]].
  - destruct (init_idx_ok e bals sups prices status ifacs ptimes startid t h) as [A B].
    split; [exact A|split; [exact B|]]. intros t0 id c H. cbn in H. discriminate.
  - apply init_CustInv. exact Hc.
  - apply init_OwnInv.
  - apply init_BalNN. exact Hb.
  - intros id u a H. cbn in H. discriminate.
  - apply init_FeeInv. exact Hf.
Qed.

Lemma init_TimeInv bals sups prices status ifacs ptimes startid t h :
  Forall (fun z => z <= t) ptimes -> TimeInv (mk_state bals sups prices status ifacs ptimes startid t h).
Proof.
  intros H t0 p. cbn [mk_state ptime now]. unfold nthO. revert t0.
  induction H as [|x r Hx _ IH]; intros t0; destruct t0; cbn [nth_error]; try discriminate; [|apply IH].
  destruct (x <? 0); [discriminate|]. intros E; inversion E; subst. exact Hx.
Qed.

(** * Refutation without [debt_lot e <= debt_thr e] *)
(* Param values that Params.Validate accepts (DebtAuctionThreshold = 1000 and DebtAuctionLot = 2000 are both
   positive), a liquidator module account holding 1500 debt coins and no stable coin (debt returned by
   x/auction when collateral auctions close), no cdps: the next begin blocker nets nothing, sees
   debt 1500 >= threshold 1000, and StartDebtAuction tries to move the lot of 2000 debt coins from the
   liquidator to the auction module account: insufficient funds -> error -> panic in BeginBlocker. *)
Definition r_env : env :=
  mkEnv 4 5 4 [mkCP 0 1500000000000000000 100000000000000 1000000001547125958 10000000 50000000000000000 0 1 10000000000000000 10 8;
               mkCP 4 1500000000000000000 100000000000000 1000000001547125958 10000000 50000000000000000 2 3 10000000000000000 10 6]
        3 1 2 6 1 400000000000000 500000000000 10000000000 1000 2000 1.
Definition r_s0 : state :=
  mk_state [[100000000000000; 0; 1000000000; 2000000000000; 100000000000000]; [100000000000000; 0; 1000000000; 2000000000000; 100000000000000];
            [100000000000000; 0; 1000000000; 2000000000000; 100000000000000]; [100000000000000; 0; 1000000000; 2000000000000; 100000000000000];
            [0; 0; 0; 0; 0]; [0; 1500; 0; 0; 0]; [0; 0; 0; 0; 0]]
           [400000000000000; 1500; 100004001000000; 8000000000000; 400000000000000]
           [17250000000000000000; 17250000000000000000; 500000000000000000; 500000000000000000] [true; true; true; true]
           [1000000000000000000; 1000000000000000000]
           [1704067200000000000; 1704067200000000000] 1 1704067200000000000 1.

Lemma r_env_cps t cp : get_cp r_env t = Some cp ->
  (cp_denom cp = 0%nat \/ cp_denom cp = 4%nat) /\ 0 <= cp_reward cp /\ 0 < cp_asize cp /\ PREC <= cp_fee cp.
Proof.
  intros H. destruct t as [|[|t]]; cbn in H; try (inversion H; subst; cbn; unfold PREC; repeat split; auto; lia).
  destruct t; discriminate.
Qed.

Lemma r_s0_Inv5 : Inv5 r_env r_s0.
Proof.
  split; [|apply init_TimeInv; repeat (apply Forall_cons; [lia|]); apply Forall_nil].
  apply init_Inv4.
  - intros t cp H. destruct (r_env_cps t cp H) as [[D|D] _]; rewrite D; reflexivity.
  - repeat (apply Forall_cons; [repeat (apply Forall_cons; [lia|]); apply Forall_nil|]); apply Forall_nil.
  - repeat (apply Forall_cons; [right; unfold PREC; lia|]); apply Forall_nil.
Qed.

Theorem cdp_begin_block_refuted_params :
  exists e s b,
    env_wf e /\ params_ok e /\ (forall t cp, get_cp e t = Some cp -> 0 < cp_asize cp /\ PREC <= cp_fee cp) /\
    0 < debt_thr e /\ 0 < debt_lot e /\ 0 < sur_thr e /\ 0 < sur_lot e /\ env_dom e /\
    Inv5 e s /\ m_goodB (cdp_M e) s b /\ m_bb (cdp_M e) s b = Panic.
Proof.
  exists r_env, r_s0, (6000000000, []).
  split; [|split; [|split; [|split; [|split; [|split; [|split; [|split; [|split; [|split]]]]]]]]].
  - intros t cp H. destruct (r_env_cps t cp H) as [[D|D] _]; rewrite D; cbn; split; discriminate.
  - intros t cp H. apply (r_env_cps t cp H).
  - intros t cp H. apply (r_env_cps t cp H).
  - reflexivity.
  - reflexivity.
  - reflexivity.
  - reflexivity.
  - split; [|cbn; lia]. intros t cp H. destruct t as [|[|t]]; cbn in H; try (inversion H; subst; cbn; lia). destruct t; discriminate.
  - exact r_s0_Inv5.
  - cbn. lia.
  - vm_compute. reflexivity.
Qed.

(** * Non-vacuity *)
(* the C05 witness environment satisfies env_ok and env_dom, its genesis satisfies Inv5 *)
Definition n_env : env :=
  mkEnv 4 5 4 [mkCP 0 1500000000000000000 100000000000000 1000000001547125958 10000000 50000000000000000 0 1 10000000000000000 10 8;
               mkCP 0 1500000000000000000 100000000000000 1000000001547125958 10000000 50000000000000000 0 1 10000000000000000 10 8;
               mkCP 4 1500000000000000000 100000000000000 1000000001547125958 10000000 50000000000000000 2 3 10000000000000000 10 6]
        3 1 2 6 1 400000000000000 500000000000 10000000000 100000000000 10000000000 1.
Definition n_s0 : state :=
  mk_state [[100000000000000; 0; 1000000000; 2000000000000; 100000000000000]; [100000000000000; 0; 1000000000; 2000000000000; 100000000000000];
            [100000000000000; 0; 1000000000; 2000000000000; 100000000000000]; [100000000000000; 0; 1000000000; 2000000000000; 100000000000000];
            [0; 0; 0; 0; 0]; [0; 0; 0; 0; 0]; [0; 0; 0; 0; 0]]
           [400000000000000; 0; 100004001000000; 8000000000000; 400000000000000]
           [17250000000000000000; 17250000000000000000; 500000000000000000; 500000000000000000] [true; true; true; true]
           [1000000000000000000; 1000000000000000000; 1000000000000000000]
           [1704067200000000000; 1704067200000000000; 1704067200000000000] 1 1704067200000000000 1.

Lemma n_env_cps t cp : get_cp n_env t = Some cp ->
  (cp_denom cp = 0%nat \/ cp_denom cp = 4%nat) /\ 0 <= cp_reward cp /\ 0 < cp_asize cp /\ PREC <= cp_fee cp.
Proof.
  intros H. destruct t as [|[|[|t]]]; cbn in H; try (inversion H; subst; cbn; unfold PREC; repeat split; auto; lia).
  destruct t; discriminate.
Qed.

Example cdp_env_hypotheses_satisfiable : env_ok n_env /\ env_dom n_env /\ Inv5 n_env n_s0.
Proof.
  split; [split; [|split; [|split]]|split; [|split]].
  - intros t cp H. destruct (n_env_cps t cp H) as [[D|D] _]; rewrite D; cbn; split; discriminate.
  - intros t cp H. apply (n_env_cps t cp H).
  - intros t cp H. apply (n_env_cps t cp H).
  - cbn. lia.
  - split; [|cbn; lia]. intros t cp H. destruct t as [|[|[|t]]]; cbn in H; try (inversion H; subst; cbn; lia). destruct t; discriminate.
  - apply init_Inv4.
    + intros t cp H. destruct (n_env_cps t cp H) as [[D|D] _]; rewrite D; reflexivity.
    + repeat (apply Forall_cons; [repeat (apply Forall_cons; [lia|]); apply Forall_nil|]); apply Forall_nil.
    + repeat (apply Forall_cons; [right; unfold PREC; lia|]); apply Forall_nil.
  - apply init_TimeInv. repeat (apply Forall_cons; [lia|]); apply Forall_nil.
Qed.

(* three blocks are executed: a cdp is created and gets a third-party deposit; a day later interest has
   accrued (the liquidator holds the surplus); then the price drops to 0.15 and the begin blocker seizes
   the cdp and starts collateral auctions for exactly its two deposits and its debt; the chain goes on *)
Example cdp_nonvacuous :
  match run_blocksG (cdp_M n_env) n_s0
          [((6000000000, []), [Create 0 2 4 40000000 3 10000003; Deposit 0 1 2 4 40000000]);
           ((86400000000000, []), [Draw 0 2 3 5]);
           ((6000000000, [(2%nat, 150000000000000000); (3%nat, 150000000000000000)]), [])] with
  | Some s3 => cdps s3 2 1 = None /\ lots (aucs s3) = 80000000 /\ 10000008 <= adebts (aucs s3) /\
               0 < bal s3 (LIQM n_env) (d_usdx n_env) /\ inv_b n_env 8000000000000 s3 = true
  | None => False
  end.
Proof. vm_compute. repeat split; try reflexivity; discriminate. Qed.

Print Assumptions cdp_M_ok.
Print Assumptions cdp_begin_block_refuted_params.
Print Assumptions cdp_never_halts.
