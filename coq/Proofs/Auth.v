(* C16 — proofs about Model/Auth.v *)
From Coq Require Import String.
From Kava Require Import Base.Prelude Model.Auth.
Open Scope Z_scope.

Ltac dgoal :=
  match goal with
  | |- context [match ?x with _ => _ end] => destruct x eqn:?
  end.

Lemma mem_In : forall a l, mem a l = true <-> In a l.
Proof.
  intros a l. unfold mem. rewrite existsb_exists. split.
  - intros [x [Hx E]]. apply Nat.eqb_eq in E. subst. exact Hx.
  - intros H. exists a. split; [exact H | apply Nat.eqb_refl].
Qed.

Lemma mem_false : forall a l, ~ In a l -> mem a l = false.
Proof.
  intros a l H. destruct (mem a l) eqn:E; [|reflexivity].
  apply mem_In in E. contradiction.
Qed.

Lemma neqb_false : forall a b : nat, a <> b -> Nat.eqb a b = false.
Proof. intros a b H. apply Nat.eqb_neq. exact H. Qed.

(** * A signer who is not the designated principal is refused *)

Lemma post_price_unauth : forall e s a m p x,
  authorised e s (PostPrice a m p x) = false -> post_price e s a m p x = Err.
Proof.
  intros e s a m p x H. cbn [authorised] in H. unfold post_price.
  destruct (oracles_of s m) as [os|]; [|reflexivity]. rewrite H. reflexivity.
Qed.

Lemma issue_unauth : forall e s a d amt rcv,
  authorised e s (Issue a d amt rcv) = false -> issue e s a d amt rcv = Err.
Proof.
  intros e s a d amt rcv H. cbn [authorised] in H. unfold issue.
  destruct (find_asset s d) as [x|]; [|reflexivity]. rewrite H. reflexivity.
Qed.

Lemma redeem_unauth : forall e s a d amt,
  authorised e s (Redeem a d amt) = false -> redeem e s a d amt = Err.
Proof.
  intros e s a d amt H. cbn [authorised] in H. unfold redeem.
  destruct (find_asset s d) as [x|]; [|reflexivity]. rewrite H. reflexivity.
Qed.

Lemma block_unauth : forall e s a d b,
  authorised e s (Block a d b) = false -> block e s a d b = Err.
Proof.
  intros e s a d b H. cbn [authorised] in H. unfold block.
  destruct (find_asset s d) as [x|]; [|reflexivity]. rewrite H.
  destruct (as_blockable x); reflexivity.
Qed.

Lemma unblock_unauth : forall e s a d b,
  authorised e s (Unblock a d b) = false -> unblock e s a d b = Err.
Proof.
  intros e s a d b H. cbn [authorised] in H. unfold unblock.
  destruct (find_asset s d) as [x|]; [|reflexivity]. rewrite H.
  destruct (as_blockable x); reflexivity.
Qed.

Lemma set_pause_unauth : forall e s a d st,
  authorised e s (SetPause a d st) = false -> set_pause e s a d st = Err.
Proof.
  intros e s a d st H. cbn [authorised] in H. unfold set_pause.
  destruct (find_asset s d) as [x|]; [|reflexivity]. rewrite H. reflexivity.
Qed.

Lemma create_swap_unauth : forall e s a rcp amount rest,
  authorised e s (CreateSwap a rcp amount rest) = false -> create_swap_msg e s a rcp amount rest = Err.
Proof.
  intros e s a rcp amount rest H. unfold create_swap_msg.
  destruct amount as [|[d amt] [|c r]]; try reflexivity.
  cbn [authorised] in H. unfold create_swap.
  destruct (is_macc e rcp); [reflexivity|].
  destruct (find_b3 s d) as [x|]; [|reflexivity].
  apply orb_false_iff in H. destruct H as [H1 H2]. rewrite H1, H2. reflexivity.
Qed.

Lemma submit_unauth : forall e s a c dur rest,
  authorised e s (Submit a c dur rest) = false -> submit e s a c dur rest = Err.
Proof.
  intros e s a c dur rest H. cbn [authorised] in H. unfold submit.
  destruct (find_com s c) as [x|]; [|reflexivity]. rewrite H. reflexivity.
Qed.

Lemma vote_unauth : forall e s a pid vt,
  authorised e s (Vote a pid vt) = false -> vote e s a pid vt = Err.
Proof.
  intros e s a pid vt H. cbn [authorised] in H. unfold vote.
  destruct (proposals s pid) as [[c dl]|]; [|reflexivity].
  destruct (dl <=? now e); [reflexivity|].
  destruct (find_com s c) as [x|]; [|reflexivity].
  apply orb_false_iff in H. destruct H as [H1 H2].
  apply negb_false_iff in H1. rewrite H1, H2. reflexivity.
Qed.

Lemma update_params_unauth : forall e s a p,
  authorised e s (UpdateParams a p) = false -> update_params e s a p = Err.
Proof.
  intros e s a p H. cbn [authorised] in H. unfold update_params. rewrite H. reflexivity.
Qed.

Lemma cdp_draw_unauth : forall e s a ct amt rest,
  authorised e s (CdpDraw a ct amt rest) = false -> cdp_draw e s a ct amt rest = Err.
Proof.
  intros e s a ct amt rest H. cbn [authorised] in H. unfold cdp_draw.
  destruct (find_cdp s a ct) as [[i c]|]; [discriminate|reflexivity].
Qed.

Lemma cdp_repay_unauth : forall e s a ct amt rest,
  authorised e s (CdpRepay a ct amt rest) = false -> cdp_repay e s a ct amt rest = Err.
Proof.
  intros e s a ct amt rest H. cbn [authorised] in H. unfold cdp_repay.
  destruct (find_cdp s a ct) as [[i c]|]; [discriminate|reflexivity].
Qed.

Lemma cdp_withdraw_unauth : forall e s a owner ct amt rest,
  authorised e s (CdpWithdraw a owner ct amt rest) = false -> cdp_withdraw e s a owner ct amt rest = Err.
Proof.
  intros e s a owner ct amt rest H. cbn [authorised] in H. unfold cdp_withdraw.
  destruct (find_cdp s owner ct) as [[i c]|]; [|reflexivity].
  apply Z.ltb_ge in H. apply Z.leb_le in H. rewrite H. reflexivity.
Qed.

Lemma hard_withdraw_unauth : forall e s a req l,
  authorised e s (HardWithdraw a req l) = false -> hard_withdraw e s a req l = Err.
Proof.
  intros e s a req l H. cbn [authorised] in H. unfold hard_withdraw. rewrite H. reflexivity.
Qed.

Lemma sav_withdraw_unauth : forall e s a req,
  authorised e s (SavWithdraw a req) = false -> sav_withdraw e s a req = Err.
Proof.
  intros e s a req H. cbn [authorised] in H. unfold sav_withdraw. rewrite H. reflexivity.
Qed.

Lemma swap_withdraw_unauth : forall e s a pool sh ma mb dl,
  authorised e s (SwapWithdraw a pool sh ma mb dl) = false -> swap_withdraw e s a pool sh ma mb dl = Err.
Proof.
  intros e s a pool sh ma mb dl H. cbn [authorised] in H. unfold swap_withdraw.
  destruct dl; [|reflexivity]. cbn [negb].
  apply Z.ltb_ge in H. apply Z.leb_le in H. rewrite H. reflexivity.
Qed.

Lemma earn_withdraw_unauth : forall e s a d ws wa av dust rest,
  authorised e s (EarnWithdraw a d ws wa av dust rest) = false -> earn_withdraw e s a d ws wa av dust rest = Err.
Proof.
  intros e s a d ws wa av dust rest H. cbn [authorised] in H. unfold earn_withdraw.
  destruct rest; [|reflexivity]. cbn [negb]. rewrite H. reflexivity.
Qed.

Theorem unauthorised_rejected : forall e s o, authorised e s o = false -> step e s o = Err.
Proof.
  intros e s o H. destruct o; cbn [step].
  - apply post_price_unauth; exact H.
  - apply issue_unauth; exact H.
  - apply redeem_unauth; exact H.
  - apply block_unauth; exact H.
  - apply unblock_unauth; exact H.
  - apply set_pause_unauth; exact H.
  - apply create_swap_unauth; exact H.
  - apply submit_unauth; exact H.
  - apply vote_unauth; exact H.
  - apply update_params_unauth; exact H.
  - apply cdp_draw_unauth; exact H.
  - apply cdp_repay_unauth; exact H.
  - apply cdp_withdraw_unauth; exact H.
  - apply hard_withdraw_unauth; exact H.
  - apply sav_withdraw_unauth; exact H.
  - apply swap_withdraw_unauth; exact H.
  - apply earn_withdraw_unauth; exact H.
Qed.

(* accepted => the signer was the designated principal *)
Theorem accepted_authorised : forall e s o s' out, step e s o = Ok s' out -> authorised e s o = true.
Proof.
  intros e s o s' out H. destruct (authorised e s o) eqn:E; [reflexivity|].
  rewrite (unauthorised_rejected e s o E) in H. discriminate.
Qed.

(* the same message from any signer who is not a principal is refused, whatever
   the other checks of the handler say *)
Theorem same_message_other_signer : forall e s o b r,
  authorised e s (with_signer o b r) = false -> step e s (with_signer o b r) = Err.
Proof. intros. apply unauthorised_rejected. assumption. Qed.

Theorem failed_changes_nothing : forall e s o, (forall s' u, step e s o <> Ok s' u) -> step' e s o = s.
Proof.
  intros e s o H. unfold step'. destruct (step e s o) as [s' u| |] eqn:E; auto.
  exfalso. exact (H s' u eq_refl).
Qed.

(** * The principal of each handler, spelled out *)

Theorem post_price_requires_oracle : forall e s b m p x,
  (forall os, oracles_of s m = Some os -> ~ In b os) -> step e s (PostPrice b m p x) = Err.
Proof.
  intros e s b m p x H. apply unauthorised_rejected. cbn [authorised].
  destruct (oracles_of s m) as [os|]; [|reflexivity]. apply mem_false. apply H. reflexivity.
Qed.

Theorem issuance_requires_owner : forall e s b d,
  (forall x, find_asset s d = Some x -> b <> as_owner x) ->
  (forall amt rcv, step e s (Issue b d amt rcv) = Err) /\
  (forall amt, step e s (Redeem b d amt) = Err) /\
  (forall c, step e s (Block b d c) = Err) /\
  (forall c, step e s (Unblock b d c) = Err) /\
  (forall st, step e s (SetPause b d st) = Err).
Proof.
  intros e s b d H.
  assert (A : match find_asset s d with Some x => Nat.eqb b (as_owner x) | None => false end = false).
  { destruct (find_asset s d) as [x|]; [|reflexivity]. apply neqb_false. apply H. reflexivity. }
  repeat split; intros; apply unauthorised_rejected; cbn [authorised]; exact A.
Qed.

Theorem incoming_swap_requires_deputy : forall e s b rcp d amt rest,
  (forall x, find_b3 s d = Some x -> b <> b3_deputy x /\ rcp <> b3_deputy x) ->
  step e s (CreateSwap b rcp [(d, amt)] rest) = Err.
Proof.
  intros e s b rcp d amt rest H. apply unauthorised_rejected. cbn [authorised].
  destruct (find_b3 s d) as [x|]; [|reflexivity].
  destruct (H x eq_refl) as [H1 H2]. rewrite (neqb_false _ _ H1), (neqb_false _ _ H2). reflexivity.
Qed.

(* a swap recorded as incoming has the deputy as sender; a swap sent by anyone
   else is recorded as outgoing and goes to the deputy *)
Theorem create_swap_direction : forall e s a rcp d amt rest s' out,
  step e s (CreateSwap a rcp [(d, amt)] rest) = Ok s' out ->
  exists x, find_b3 s d = Some x /\
    ((a = b3_deputy x /\ rcp <> b3_deputy x /\ swaps s' = mkSwap a rcp d amt true :: swaps s) \/
     (a <> b3_deputy x /\ rcp = b3_deputy x /\ swaps s' = mkSwap a rcp d amt false :: swaps s)).
Proof.
  intros e s a rcp d amt rest s' out H. cbn [step create_swap_msg] in H. unfold create_swap in H.
  destruct (is_macc e rcp); [discriminate|].
  destruct (find_b3 s d) as [x|]; [|discriminate]. exists x. split; [reflexivity|].
  destruct (Nat.eqb a (b3_deputy x)) eqn:Ea.
  - destruct (Nat.eqb rcp (b3_deputy x)) eqn:Er; [discriminate|].
    destruct rest; [|discriminate]. cbn [negb] in H. inversion H; subst. left.
    apply Nat.eqb_eq in Ea. apply Nat.eqb_neq in Er. repeat split; assumption.
  - destruct (Nat.eqb rcp (b3_deputy x)) eqn:Er; cbn [negb] in H; [|discriminate].
    destruct rest; [|discriminate]. cbn [negb] in H. inversion H; subst. right.
    apply Nat.eqb_neq in Ea. apply Nat.eqb_eq in Er. repeat split; assumption.
Qed.

(* the deputy's incoming message, sent by anybody else, is refused *)
Theorem deputy_message_from_other_signer : forall e s a rcp d amt rest s' out x,
  step e s (CreateSwap a rcp [(d, amt)] rest) = Ok s' out ->
  find_b3 s d = Some x -> a = b3_deputy x ->
  forall b r, b <> a -> step e s (CreateSwap b rcp [(d, amt)] r) = Err.
Proof.
  intros e s a rcp d amt rest s' out x H F Ea b r Hb.
  destruct (create_swap_direction _ _ _ _ _ _ _ _ _ H) as [y [Fy [[_ [Hr _]]|[Hn _]]]];
    rewrite F in Fy; inversion Fy; subst y.
  - apply incoming_swap_requires_deputy. intros z Fz. rewrite F in Fz. inversion Fz; subst z.
    split; [congruence | exact Hr].
  - contradiction.
Qed.

(* an accepted swap creation carries exactly one coin; a message with none or
   several coins is refused for every signer *)
Theorem create_swap_single_coin : forall e s a rcp amount rest s' out,
  step e s (CreateSwap a rcp amount rest) = Ok s' out -> exists d amt, amount = [(d, amt)].
Proof.
  intros e s a rcp amount rest s' out H. cbn [step] in H. unfold create_swap_msg in H.
  destruct amount as [|[d amt] [|c r]]; try discriminate. exists d, amt. reflexivity.
Qed.

Theorem create_swap_multi_coin_refused : forall e s a rcp amount rest,
  length amount <> 1%nat -> step e s (CreateSwap a rcp amount rest) = Err.
Proof.
  intros e s a rcp amount rest H. cbn [step]. unfold create_swap_msg.
  destruct amount as [|[d amt] [|c r]]; try reflexivity. cbn in H. congruence.
Qed.

Theorem submit_requires_member : forall e s b c dur rest,
  (forall x, find_com s c = Some x -> ~ In b (cm_members x)) -> step e s (Submit b c dur rest) = Err.
Proof.
  intros e s b c dur rest H. apply unauthorised_rejected. cbn [authorised].
  destruct (find_com s c) as [x|]; [|reflexivity]. apply mem_false. apply H. reflexivity.
Qed.

Theorem member_vote_requires_member : forall e s b pid vt c dl x,
  proposals s pid = Some (c, dl) -> find_com s c = Some x -> cm_member_type x = true ->
  ~ In b (cm_members x) -> step e s (Vote b pid vt) = Err.
Proof.
  intros e s b pid vt c dl x Hp Hc Ht Hn. apply unauthorised_rejected. cbn [authorised].
  rewrite Hp, Hc, Ht. cbn [negb orb]. apply mem_false. exact Hn.
Qed.

Theorem update_params_requires_authority : forall e s b p, b <> gov e -> step e s (UpdateParams b p) = Err.
Proof.
  intros e s b p H. apply unauthorised_rejected. cbn [authorised]. apply neqb_false. exact H.
Qed.

(** * CDPs: the record is found through the signer *)

Lemma find_cdp_spec : forall s a ct i c,
  find_cdp s a ct = Some (i, c) -> cdps s i = Some c /\ cd_owner c = a /\ cd_type c = ct.
Proof.
  intros s a ct i c H. unfold find_cdp in H.
  destruct (find _ (seq 0 (ncdp s))) as [j|] eqn:F; [|discriminate].
  apply find_some in F. destruct F as [_ F].
  destruct (cdps s j) as [c'|] eqn:Ej; [|discriminate].
  inversion H; subst. apply andb_true_iff in F. destruct F as [F1 F2].
  apply Nat.eqb_eq in F1. apply Nat.eqb_eq in F2. auto.
Qed.

Lemma upd_same : forall {A} (f : nat -> A) a v, upd f a v a = v.
Proof. intros. unfold upd. rewrite Nat.eqb_refl. reflexivity. Qed.
Lemma upd_other : forall {A} (f : nat -> A) a v x, x <> a -> upd f a v x = f x.
Proof. intros A f a v x H. unfold upd. rewrite (neqb_false _ _ H). reflexivity. Qed.
Lemma upd2_same : forall {A} (f : nat -> nat -> A) a d v, upd2 f a d v a d = v.
Proof. intros. unfold upd2. rewrite !Nat.eqb_refl. reflexivity. Qed.
Lemma upd2_other : forall {A} (f : nat -> nat -> A) a d v x y, (x <> a \/ y <> d) -> upd2 f a d v x y = f x y.
Proof.
  intros A f a d v x y H. unfold upd2.
  destruct H as [H|H]; rewrite (neqb_false _ _ H); [reflexivity | rewrite andb_false_r; reflexivity].
Qed.

(* drawing touches one record, and that record belongs to the signer *)
Theorem cdp_draw_own : forall e s a ct amt rest s' out,
  step e s (CdpDraw a ct amt rest) = Ok s' out ->
  exists i c, cdps s i = Some c /\ cd_owner c = a /\ cd_type c = ct /\
    cdps s' i = Some (mkCdp a ct (cd_coll c) (cd_princ c + amt)) /\
    (forall j, j <> i -> cdps s' j = cdps s j) /\
    cdp_deps s' = cdp_deps s.
Proof.
  intros e s a ct amt rest s' out H. cbn [step] in H. unfold cdp_draw in H.
  destruct (find_cdp s a ct) as [[i c]|] eqn:F; [|discriminate].
  destruct rest; [|discriminate]. cbn [negb] in H. inversion H; subst. clear H.
  destruct (find_cdp_spec _ _ _ _ _ F) as [H1 [H2 H3]].
  exists i, c. cbn. rewrite upd_same. subst. repeat split; auto.
  intros j Hj. apply upd_other. exact Hj.
Qed.

Theorem cdp_repay_own : forall e s a ct amt rest s' out,
  step e s (CdpRepay a ct amt rest) = Ok s' out ->
  exists i c, cdps s i = Some c /\ cd_owner c = a /\ cd_type c = ct /\
    (forall j, j <> i -> cdps s' j = cdps s j /\ forall b, cdp_deps s' j b = cdp_deps s j b).
Proof.
  intros e s a ct amt rest s' out H. cbn [step] in H. unfold cdp_repay in H.
  destruct (find_cdp s a ct) as [[i c]|] eqn:F; [|discriminate].
  destruct rest; [|discriminate]. cbn [negb] in H.
  destruct (find_cdp_spec _ _ _ _ _ F) as [H1 [H2 H3]].
  exists i, c. repeat split; auto;
    destruct (cd_princ c - Z.min amt (cd_princ c) =? 0); inversion H; subst; cbn;
    try (apply upd_other; assumption); try reflexivity.
  rewrite upd_other by assumption. reflexivity.
Qed.

(* no signer can draw on, repay or close a CDP of another owner *)
Theorem cdp_other_owner_untouched : forall e s a ct amt rest s' out j c',
  (step e s (CdpDraw a ct amt rest) = Ok s' out \/ step e s (CdpRepay a ct amt rest) = Ok s' out) ->
  cdps s j = Some c' -> cd_owner c' <> a ->
  cdps s' j = Some c' /\ forall b, cdp_deps s' j b = cdp_deps s j b.
Proof.
  intros e s a ct amt rest s' out j c' H Hj Ho. destruct H as [H|H].
  - destruct (cdp_draw_own _ _ _ _ _ _ _ _ H) as [i [c [H1 [H2 [H3 [H4 [H5 H6]]]]]]].
    assert (j <> i) by (intro; subst j; rewrite H1 in Hj; inversion Hj; subst; contradiction).
    rewrite H5 by assumption. rewrite H6. auto.
  - destruct (cdp_repay_own _ _ _ _ _ _ _ _ H) as [i [c [H1 [H2 [H3 H4]]]]].
    assert (Hn : j <> i) by (intro; subst j; rewrite H1 in Hj; inversion Hj; subst; contradiction).
    destruct (H4 j Hn) as [H5 H6]. rewrite H5. auto.
Qed.

(* a collateral withdrawal takes from the signer's own deposit, at most what is recorded *)
Theorem cdp_withdraw_own : forall e s a owner ct amt rest s' out,
  step e s (CdpWithdraw a owner ct amt rest) = Ok s' out ->
  exists i c, cdps s i = Some c /\ cd_owner c = owner /\ cd_type c = ct /\
    0 < amt <= cdp_deps s i a /\ out = [(ct, amt)] /\
    cdp_deps s' i a = cdp_deps s i a - amt /\
    (forall j b, (j <> i \/ b <> a) -> cdp_deps s' j b = cdp_deps s j b) /\
    (forall j, j <> i -> cdps s' j = cdps s j).
Proof.
  intros e s a owner ct amt rest s' out H. cbn [step] in H. unfold cdp_withdraw in H.
  destruct (find_cdp s owner ct) as [[i c]|] eqn:F; [|discriminate].
  destruct (cdp_deps s i a <=? 0) eqn:E1; [discriminate|].
  destruct (cdp_deps s i a <? amt) eqn:E2; [discriminate|].
  destruct (amt <=? 0) eqn:E3; [discriminate|].
  destruct rest; [|discriminate]. cbn [negb] in H. inversion H; subst. clear H.
  destruct (find_cdp_spec _ _ _ _ _ F) as [H1 [H2 H3]].
  apply Z.leb_gt in E1. apply Z.ltb_ge in E2. apply Z.leb_gt in E3.
  exists i, c. cbn. rewrite upd2_same. repeat split; auto; try lia.
  - intros j b Hjb. apply upd2_other. exact Hjb.
  - intros j Hj. apply upd_other. exact Hj.
Qed.

(** * Deposits: hard and savings *)

Fixpoint total (d : nat) (c : coins) : Z :=
  match c with
  | [] => 0
  | (d', x) :: r => (if Nat.eqb d' d then x else 0) + total d r
  end.

Lemma sub_coins_spec : forall c pos d, sub_coins pos c d = pos d - total d c.
Proof.
  induction c as [|[d' x] r IH]; intros pos d.
  - cbn. lia.
  - unfold sub_coins in *. cbn [fold_left fst snd total]. rewrite IH.
    unfold upd. rewrite (Nat.eqb_sym d d'). destruct (Nat.eqb d' d) eqn:E.
    + apply Nat.eqb_eq in E. subst. lia.
    + lia.
Qed.

Lemma total_capped_zero : forall req pos p d,
  coins_valid_from (Some p) req = true -> (d <= p)%nat -> total d (capped req pos) = 0.
Proof.
  induction req as [|[d' x] r IH]; intros pos p d V Hd.
  - reflexivity.
  - cbn [coins_valid_from] in V. apply andb_true_iff in V. destruct V as [V V3].
    apply andb_true_iff in V. destruct V as [V1 V2]. apply Nat.ltb_lt in V2.
    cbn [capped map fst snd total]. rewrite (neqb_false d' d) by lia.
    fold (capped r pos). rewrite (IH pos d' d V3) by lia. lia.
Qed.

(* for valid coins a denom is paid at most once, and never above the recorded amount *)
Lemma total_capped_le : forall req pos lo d,
  coins_valid_from lo req = true -> subset_of req pos = true ->
  0 <= total d (capped req pos) <= Z.max 0 (pos d).
Proof.
  induction req as [|[d' x] r IH]; intros pos lo d V S.
  - cbn. lia.
  - cbn [coins_valid_from] in V. apply andb_true_iff in V. destruct V as [V V3].
    apply andb_true_iff in V. destruct V as [V1 V2]. apply Z.ltb_lt in V1.
    cbn [subset_of forallb fst] in S. apply andb_true_iff in S. destruct S as [S1 S2].
    apply Z.ltb_lt in S1.
    cbn [capped map fst snd total]. fold (capped r pos).
    destruct (Nat.eqb d' d) eqn:E.
    + apply Nat.eqb_eq in E. subst d'.
      rewrite (total_capped_zero r pos d d V3) by lia. lia.
    + specialize (IH pos (Some d') d V3 S2). lia.
Qed.

Lemma capped_In : forall req pos d x,
  coins_valid req = true -> subset_of req pos = true -> In (d, x) (capped req pos) -> 0 < x <= pos d.
Proof.
  intros req pos d x. unfold coins_valid. generalize (@None nat).
  induction req as [|[d' y] r IH]; intros lo V S HI.
  - destruct HI.
  - cbn [coins_valid_from] in V. apply andb_true_iff in V. destruct V as [V V3].
    apply andb_true_iff in V. destruct V as [V1 V2]. apply Z.ltb_lt in V1.
    cbn [subset_of forallb fst] in S. apply andb_true_iff in S. destruct S as [S1 S2].
    apply Z.ltb_lt in S1.
    cbn [capped map fst snd] in HI. destruct HI as [HI|HI].
    + inversion HI; subst. lia.
    + exact (IH (Some d') V3 S2 HI).
Qed.

(* withdrawal from hard: only the signer's record changes; every coin paid is
   positive and at most the recorded amount; the record decreases by exactly
   what is paid and does not go below zero *)
Theorem hard_withdraw_own : forall e s a req l s' out,
  step e s (HardWithdraw a req l) = Ok s' out ->
  (forall w, w <> a -> forall d, hard_dep s' w d = hard_dep s w d) /\
  (forall d x, In (d, x) out -> 0 < x <= hard_dep s a d) /\
  (forall d, hard_dep s' a d = hard_dep s a d - total d out /\ 0 <= total d out <= Z.max 0 (hard_dep s a d)).
Proof.
  intros e s a req l s' out H. cbn [step] in H. unfold hard_withdraw in H.
  destruct (has_rec (nden e) (hard_dep s a)); [|discriminate]. cbn [negb] in H.
  destruct (coins_valid req) eqn:V; [|discriminate]. cbn [negb] in H.
  destruct (subset_of req (hard_dep s a)) eqn:S; [|discriminate]. cbn [negb] in H.
  destruct l; [|discriminate]. cbn [negb] in H. inversion H; subst. clear H. cbn.
  split; [|split].
  - intros w Hw d. rewrite upd_other by assumption. reflexivity.
  - intros d x HI. exact (capped_In _ _ _ _ V S HI).
  - intros d. rewrite upd_same. split; [apply sub_coins_spec|].
    exact (total_capped_le req (hard_dep s a) None d V S).
Qed.

Theorem sav_withdraw_own : forall e s a req s' out,
  step e s (SavWithdraw a req) = Ok s' out ->
  (forall w, w <> a -> forall d, sav_dep s' w d = sav_dep s w d) /\
  (forall d x, In (d, x) out -> 0 < x <= sav_dep s a d) /\
  (forall d, sav_dep s' a d = sav_dep s a d - total d out /\ 0 <= total d out <= Z.max 0 (sav_dep s a d)).
Proof.
  intros e s a req s' out H. cbn [step] in H. unfold sav_withdraw in H.
  destruct (has_rec (nden e) (sav_dep s a)); [|discriminate]. cbn [negb] in H.
  destruct (coins_valid req) eqn:V; [|discriminate]. cbn [negb] in H.
  destruct (subset_of req (sav_dep s a)) eqn:S; [|discriminate]. cbn [negb] in H.
  inversion H; subst. clear H. cbn.
  split; [|split].
  - intros w Hw d. rewrite upd_other by assumption. reflexivity.
  - intros d x HI. exact (capped_In _ _ _ _ V S HI).
  - intros d. rewrite upd_same. split; [apply sub_coins_spec|].
    exact (total_capped_le req (sav_dep s a) None d V S).
Qed.

(** * Shares: swap and earn *)

Theorem swap_withdraw_own : forall e s a pool sh ma mb dl s' out,
  step e s (SwapWithdraw a pool sh ma mb dl) = Ok s' out ->
  0 < sh <= swap_shares s a pool /\
  swap_shares s' a pool = swap_shares s a pool - sh /\
  (forall w p, (w <> a \/ p <> pool) -> swap_shares s' w p = swap_shares s w p) /\
  (forall q, q <> pool -> swap_pools s' q = swap_pools s q) /\
  (let '(ra, rb, tot) := swap_pools s pool in
   sh <= tot /\
   out = [(0%nat, Z.quot (ra * sh) tot); (1%nat, Z.quot (rb * sh) tot)] /\
   swap_pools s' pool = (ra - Z.quot (ra * sh) tot, rb - Z.quot (rb * sh) tot, tot - sh) /\
   (0 <= ra -> tot * Z.quot (ra * sh) tot <= ra * sh) /\
   (0 <= rb -> tot * Z.quot (rb * sh) tot <= rb * sh)).
Proof.
  intros e s a pool sh ma mb dl s' out H. cbn [step] in H. unfold swap_withdraw in H.
  destruct dl; [|discriminate]. cbn [negb] in H.
  destruct (swap_shares s a pool <=? 0) eqn:E1; [discriminate|].
  destruct (swap_shares s a pool <? sh) eqn:E2; [discriminate|].
  destruct (swap_pools s pool) as [[ra rb] tot] eqn:EP.
  destruct (tot <=? 0) eqn:E3; [discriminate|].
  destruct (sh <=? 0) eqn:E4; [discriminate|].
  destruct (tot <? sh) eqn:E5; [discriminate|].
  destruct ((Z.quot (ra * sh) tot =? 0) || (Z.quot (rb * sh) tot =? 0)); [discriminate|].
  destruct ((Z.quot (ra * sh) tot <? ma) || (Z.quot (rb * sh) tot <? mb)); [discriminate|].
  inversion H; subst. clear H. cbn.
  apply Z.leb_gt in E1. apply Z.ltb_ge in E2. apply Z.leb_gt in E3. apply Z.leb_gt in E4. apply Z.ltb_ge in E5.
  rewrite upd2_same, upd_same. repeat split; try lia.
  - intros w p Hwp. apply upd2_other. exact Hwp.
  - intros q Hq. apply upd_other. exact Hq.
  - intros Hra. apply Z.mul_quot_le; [|lia]. apply Z.mul_nonneg_nonneg; lia.
  - intros Hrb. apply Z.mul_quot_le; [|lia]. apply Z.mul_nonneg_nonneg; lia.
Qed.

(* the strategy withdrawal writes the hard or the savings deposits only *)
Lemma strategy_withdraw_frame : forall e s d amt s1,
  strategy_withdraw e s d amt = Some s1 ->
  earn_shares s1 = earn_shares s /\ b3assets s1 = b3assets s /\ committees s1 = committees s /\
  swaps s1 = swaps s /\ proposals s1 = proposals s /\ next_pid s1 = next_pid s /\ votes s1 = votes s.
Proof.
  intros e s d amt s1 H. unfold strategy_withdraw in H.
  destruct (amt <=? 0); [inversion H; subst; repeat split; reflexivity|].
  destruct (Nat.eqb (earn_strat e d) 0).
  - unfold hard_withdraw in H.
    repeat match type of H with match (if ?c then _ else _) with _ => _ end = _ => destruct c; [discriminate|] end.
    inversion H; subst. repeat split; reflexivity.
  - unfold sav_withdraw in H.
    repeat match type of H with match (if ?c then _ else _) with _ => _ end = _ => destruct c; [discriminate|] end.
    inversion H; subst. repeat split; reflexivity.
Qed.

Theorem earn_withdraw_own : forall e s a d ws wa av dust rest s' out,
  step e s (EarnWithdraw a d ws wa av dust rest) = Ok s' out ->
  ws <= earn_shares s a d /\ wa <= av /\ out = [(d, wa)] /\
  (forall w d', (w <> a \/ d' <> d) -> earn_shares s' w d' = earn_shares s w d') /\
  (0 <= ws -> 0 <= earn_shares s' a d <= earn_shares s a d) /\
  (earn_shares s' a d = 0 \/ earn_shares s' a d = earn_shares s a d - ws).
Proof.
  intros e s a d ws wa av dust rest s' out H. cbn [step] in H. unfold earn_withdraw in H.
  destruct rest; [|discriminate]. cbn [negb] in H.
  destruct (has_rec (nden e) (earn_shares s a)); [|discriminate]. cbn [negb] in H.
  destruct (earn_shares s a d <? ws) eqn:E1; [discriminate|].
  destruct (av <? wa) eqn:E2; [discriminate|].
  destruct (strategy_withdraw e s d wa) as [s1|] eqn:SW; [|discriminate].
  destruct (strategy_withdraw_frame _ _ _ _ _ SW) as [Fe _].
  inversion H; subst. clear H. cbn. rewrite Fe.
  apply Z.ltb_ge in E1. apply Z.ltb_ge in E2. rewrite upd2_same.
  repeat split; try lia.
  - intros w d' Hwd. apply upd2_other. exact Hwd.
  - destruct dust; lia.
  - destruct dust; lia.
  - destruct dust; [left|right]; reflexivity.
Qed.

(* an earn withdrawal moves, besides the signer's shares, only the strategy
   deposit of the earn module account *)
Lemma strategy_withdraw_deps : forall e s d amt s1,
  strategy_withdraw e s d amt = Some s1 ->
  forall w, w <> earn_macc e -> forall x, hard_dep s1 w x = hard_dep s w x /\ sav_dep s1 w x = sav_dep s w x.
Proof.
  intros e s d amt s1 H w Hw x. unfold strategy_withdraw in H.
  destruct (amt <=? 0); [inversion H; subst; auto|].
  destruct (Nat.eqb (earn_strat e d) 0).
  - unfold hard_withdraw in H.
    repeat match type of H with match (if ?c then _ else _) with _ => _ end = _ => destruct c; [discriminate|] end.
    inversion H; subst. cbn. rewrite upd_other by assumption. auto.
  - unfold sav_withdraw in H.
    repeat match type of H with match (if ?c then _ else _) with _ => _ end = _ => destruct c; [discriminate|] end.
    inversion H; subst. cbn. rewrite upd_other by assumption. auto.
Qed.

Theorem earn_withdraw_strategy_frame : forall e s a d ws wa av dust rest s' out,
  step e s (EarnWithdraw a d ws wa av dust rest) = Ok s' out ->
  forall w, w <> earn_macc e -> forall x, hard_dep s' w x = hard_dep s w x /\ sav_dep s' w x = sav_dep s w x.
Proof.
  intros e s a d ws wa av dust rest s' out H w Hw x. cbn [step] in H. unfold earn_withdraw in H.
  repeat match type of H with (if ?c then _ else _) = _ => destruct c; [discriminate|] end.
  destruct (strategy_withdraw e s d wa) as [s1|] eqn:SW; [|discriminate].
  inversion H; subst. cbn. exact (strategy_withdraw_deps _ _ _ _ _ SW w Hw x).
Qed.

(** * Invariant over all histories *)

Record Inv (e : env) (s : state) : Prop := {
  inv_swaps : forall w, In w (swaps s) -> sw_incoming w = true ->
     exists x, find_b3 s (sw_denom w) = Some x /\ sw_sender w = b3_deputy x;
  inv_votes : forall pid a vt, votes s pid a = Some vt ->
     exists c dl x, proposals s pid = Some (c, dl) /\ find_com s c = Some x /\
       (cm_member_type x = true -> In a (cm_members x) /\ vt = 1%nat);
  inv_props : forall pid p, proposals s pid = Some p -> (pid < next_pid s)%nat;
  inv_fresh : forall pid a, (next_pid s <= pid)%nat -> votes s pid a = None
}.

(* the components the invariant reads, and which operations write them *)
Definition same_b3_com (s s' : state) : Prop :=
  b3assets s' = b3assets s /\ committees s' = committees s.

Lemma find_b3_same : forall s s' d, b3assets s' = b3assets s -> find_b3 s' d = find_b3 s d.
Proof. intros s s' d H. unfold find_b3. rewrite H. reflexivity. Qed.
Lemma find_com_same : forall s s' c, committees s' = committees s -> find_com s' c = find_com s c.
Proof. intros s s' c H. unfold find_com. rewrite H. reflexivity. Qed.

(* an operation that leaves swaps, proposals and votes alone keeps the invariant *)
Lemma inv_frame : forall e s s',
  Inv e s -> b3assets s' = b3assets s -> committees s' = committees s ->
  swaps s' = swaps s -> proposals s' = proposals s -> next_pid s' = next_pid s -> votes s' = votes s ->
  Inv e s'.
Proof.
  intros e s s' [I1 I2 I3 I4] Hb Hc Hs Hp Hn Hv. constructor.
  - intros w Hw Hi. rewrite Hs in Hw. destruct (I1 w Hw Hi) as [x [F E]].
    exists x. rewrite (find_b3_same s s') by assumption. auto.
  - intros pid a vt H. rewrite Hv in H. destruct (I2 pid a vt H) as [c [dl [x [P [F M]]]]].
    exists c, dl, x. rewrite Hp, (find_com_same s s') by assumption. auto.
  - intros pid p H. rewrite Hp in H. rewrite Hn. exact (I3 pid p H).
  - intros pid a H. rewrite Hn in H. rewrite Hv. exact (I4 pid a H).
Qed.

Ltac frame_tac I := apply (inv_frame _ _ _ I); reflexivity.

Theorem step_inv : forall e s o s' out, Inv e s -> step e s o = Ok s' out -> Inv e s'.
Proof.
  intros e s o s' out I H. destruct o; cbn [step] in H.
  - (* PostPrice *) unfold post_price in H.
    destruct (oracles_of s m); [|discriminate]. destruct (negb (mem a l)); [discriminate|].
    destruct (expiry <=? now e); [discriminate|]. inversion H; subst. frame_tac I.
  - (* Issue *) unfold issue in H. destruct (find_asset s d); [|discriminate].
    repeat match type of H with (if ?c then _ else _) = _ => destruct c; [discriminate|] end.
    inversion H; subst. frame_tac I.
  - (* Redeem *) unfold redeem in H. destruct (find_asset s d); [|discriminate].
    repeat match type of H with (if ?c then _ else _) = _ => destruct c; [discriminate|] end.
    inversion H; subst. frame_tac I.
  - (* Block *) unfold block in H. destruct (find_asset s d); [|discriminate].
    repeat match type of H with (if ?c then _ else _) = _ => destruct c; [discriminate|] end.
    inversion H; subst. frame_tac I.
  - (* Unblock *) unfold unblock in H. destruct (find_asset s d); [|discriminate].
    repeat match type of H with (if ?c then _ else _) = _ => destruct c; [discriminate|] end.
    inversion H; subst. frame_tac I.
  - (* SetPause *) unfold set_pause in H. destruct (find_asset s d); [|discriminate].
    destruct (negb (Nat.eqb a (as_owner a0))); [discriminate|].
    destruct (Bool.eqb (as_paused a0) st); inversion H; subst; [exact I | frame_tac I].
  - (* CreateSwap *)
    destruct (create_swap_single_coin _ _ _ _ _ _ _ _ H) as [d [amt Ea]]. subst amount.
    cbn [create_swap_msg] in H.
    destruct (create_swap_direction e s a rcp d amt rest s' out H) as [x [F D]].
    assert (Hb : b3assets s' = b3assets s /\ committees s' = committees s /\ proposals s' = proposals s
                 /\ next_pid s' = next_pid s /\ votes s' = votes s).
    { unfold create_swap in H. destruct (is_macc e rcp); [discriminate|].
      destruct (find_b3 s d); [|discriminate].
      destruct (Nat.eqb a (b3_deputy b)); destruct (Nat.eqb rcp (b3_deputy b)); cbn [negb] in H; try discriminate;
        destruct rest; cbn [negb] in H; try discriminate; inversion H; subst; cbn; auto. }
    destruct Hb as [Hb [Hc [Hp [Hn Hv]]]]. destruct I as [I1 I2 I3 I4]. constructor.
    + intros w Hw Hi.
      assert (Hcase : w = mkSwap a rcp d amt true /\ a = b3_deputy x \/ In w (swaps s)).
      { destruct D as [[Ea [_ Es]]|[_ [_ Es]]]; rewrite Es in Hw; destruct Hw as [Hw|Hw]; auto.
        subst w. discriminate. }
      destruct Hcase as [[Ew Ea]|Hold].
      * subst w. cbn. exists x. rewrite (find_b3_same s s') by assumption. auto.
      * destruct (I1 w Hold Hi) as [y [Fy Ey]]. exists y. rewrite (find_b3_same s s') by assumption. auto.
    + intros pid v vt Hvt. rewrite Hv in Hvt. destruct (I2 pid v vt Hvt) as [c [dl [y [P [Fc M]]]]].
      exists c, dl, y. rewrite Hp, (find_com_same s s') by assumption. auto.
    + intros pid p Hpp. rewrite Hp in Hpp. rewrite Hn. exact (I3 pid p Hpp).
    + intros pid v Hpid. rewrite Hn in Hpid. rewrite Hv. exact (I4 pid v Hpid).
  - (* Submit *) unfold submit in H. destruct (find_com s c) as [x|] eqn:F; [|discriminate].
    destruct (negb (mem a (cm_members x))); [discriminate|]. destruct rest; [|discriminate]. cbn [negb] in H.
    inversion H; subst. clear H. destruct I as [I1 I2 I3 I4]. constructor; cbn.
    + exact I1.
    + intros pid v vt Hvt. destruct (I2 pid v vt Hvt) as [c0 [dl [y [P [Fc M]]]]].
      exists c0, dl, y. split; [|split; [exact Fc | exact M]].
      rewrite upd_other; [exact P|]. intro Eq. subst pid.
      rewrite (I4 (next_pid s) v (Nat.le_refl _)) in Hvt. discriminate.
    + intros pid p Hpp. unfold upd in Hpp. destruct (Nat.eqb pid (next_pid s)) eqn:E.
      * apply Nat.eqb_eq in E. lia.
      * specialize (I3 pid p Hpp). lia.
    + intros pid v Hpid. apply I4. lia.
  - (* Vote *) unfold vote in H. destruct (proposals s pid) as [[c dl]|] eqn:P; [|discriminate].
    destruct (dl <=? now e); [discriminate|].
    destruct (find_com s c) as [x|] eqn:F; [|discriminate].
    destruct (cm_member_type x && negb (mem a (cm_members x))) eqn:G1; [discriminate|].
    destruct (cm_member_type x && negb (Nat.eqb vt 1)) eqn:G2; [discriminate|].
    inversion H; subst. clear H. destruct I as [I1 I2 I3 I4]. constructor; cbn.
    + exact I1.
    + intros pid' v vt' Hvt. unfold upd2 in Hvt.
      destruct (Nat.eqb pid' pid && Nat.eqb v a) eqn:E.
      * apply andb_true_iff in E. destruct E as [E1 E2].
        apply Nat.eqb_eq in E1. apply Nat.eqb_eq in E2. subst pid' v. inversion Hvt; subst vt'.
        exists c, dl, x. split; [exact P|]. split; [exact F|]. intros Hm.
        rewrite Hm in G1, G2. cbn [andb] in G1, G2. split.
        -- apply negb_false_iff in G1. apply mem_In. exact G1.
        -- apply negb_false_iff in G2. apply Nat.eqb_eq. exact G2.
      * exact (I2 pid' v vt' Hvt).
    + exact I3.
    + intros pid' v Hpid. unfold upd2.
      destruct (Nat.eqb pid' pid && Nat.eqb v a) eqn:E; [|exact (I4 pid' v Hpid)].
      apply andb_true_iff in E. destruct E as [E1 _]. apply Nat.eqb_eq in E1. subst pid'.
      specialize (I3 pid _ P). lia.
  - (* UpdateParams *) unfold update_params in H. destruct (negb (Nat.eqb a (gov e))); [discriminate|].
    destruct p as [[t r1] r2]. destruct ((r1 <? 0) || (r2 <? 0)); [discriminate|].
    inversion H; subst. frame_tac I.
  - (* CdpDraw *) unfold cdp_draw in H. destruct (find_cdp s a ct) as [[i c]|]; [|discriminate].
    destruct rest; [|discriminate]. inversion H; subst. frame_tac I.
  - (* CdpRepay *) unfold cdp_repay in H. destruct (find_cdp s a ct) as [[i c]|]; [|discriminate].
    destruct rest; [|discriminate]. cbn [negb] in H.
    destruct (cd_princ c - Z.min amt (cd_princ c) =? 0); inversion H; subst; frame_tac I.
  - (* CdpWithdraw *) unfold cdp_withdraw in H. destruct (find_cdp s owner ct) as [[i c]|]; [|discriminate].
    repeat match type of H with (if ?c then _ else _) = _ => destruct c; [discriminate|] end.
    inversion H; subst. frame_tac I.
  - (* HardWithdraw *) unfold hard_withdraw in H.
    repeat match type of H with (if ?c then _ else _) = _ => destruct c; [discriminate|] end.
    inversion H; subst. frame_tac I.
  - (* SavWithdraw *) unfold sav_withdraw in H.
    repeat match type of H with (if ?c then _ else _) = _ => destruct c; [discriminate|] end.
    inversion H; subst. frame_tac I.
  - (* SwapWithdraw *) unfold swap_withdraw in H.
    destruct (negb deadline_ok); [discriminate|].
    destruct (swap_shares s a pool <=? 0); [discriminate|].
    destruct (swap_shares s a pool <? shares); [discriminate|].
    destruct (swap_pools s pool) as [[ra rb] tot].
    repeat match type of H with (if ?c then _ else _) = _ => destruct c; [discriminate|] end.
    inversion H; subst. frame_tac I.
  - (* EarnWithdraw *) unfold earn_withdraw in H.
    repeat match type of H with (if ?c then _ else _) = _ => destruct c; [discriminate|] end.
    destruct (strategy_withdraw e s d wamount) as [s1|] eqn:SW; [|discriminate].
    destruct (strategy_withdraw_frame _ _ _ _ _ SW) as [_ [F1 [F2 [F3 [F4 [F5 F6]]]]]].
    inversion H; subst. apply (inv_frame _ _ _ I); cbn; assumption.
Qed.

Lemma step'_inv : forall e s o, Inv e s -> Inv e (step' e s o).
Proof.
  intros e s o I. unfold step'. destruct (step e s o) as [s' out| |] eqn:E; auto.
  exact (step_inv _ _ _ _ _ I E).
Qed.

Theorem run_inv : forall e ops s, Inv e s -> Inv e (run e s ops).
Proof.
  intros e ops. induction ops as [|o r IH]; intros s I; [exact I|].
  cbn [run fold_left]. apply IH. apply step'_inv. exact I.
Qed.

(* the boolean invariant evaluated during the correspondence run follows from [Inv] *)
Theorem Inv_inv_b : forall e s, Inv e s -> inv_b e s = true.
Proof.
  intros e s [I1 I2 I3 I4]. unfold inv_b. apply andb_true_iff. split.
  - apply forallb_forall. intros w Hw. unfold swap_ok.
    destruct (sw_incoming w) eqn:Ei; [|reflexivity]. cbn [negb orb].
    destruct (I1 w Hw Ei) as [x [F E]]. rewrite F, E. apply Nat.eqb_refl.
  - apply forallb_forall. intros pid _. apply forallb_forall. intros a _. unfold vote_ok.
    destruct (votes s pid a) as [vt|] eqn:V; [|reflexivity].
    destruct (I2 pid a vt V) as [c [dl [x [P [F M]]]]]. rewrite P, F.
    destruct (cm_member_type x); [|reflexivity]. cbn [negb orb].
    destruct (M eq_refl) as [M1 M2]. subst vt. apply mem_In in M1. rewrite M1. reflexivity.
Qed.

(* what the invariant says, in the terms of the property *)
Theorem incoming_swaps_from_deputy_all_histories : forall e ops s w,
  Inv e s -> In w (swaps (run e s ops)) -> sw_incoming w = true ->
  exists x, find_b3 (run e s ops) (sw_denom w) = Some x /\ sw_sender w = b3_deputy x.
Proof. intros e ops s w I. exact (inv_swaps _ _ (run_inv e ops s I) w). Qed.

Theorem member_votes_from_members_all_histories : forall e ops s pid a vt,
  Inv e s -> votes (run e s ops) pid a = Some vt ->
  exists c dl x, proposals (run e s ops) pid = Some (c, dl) /\ find_com (run e s ops) c = Some x /\
    (cm_member_type x = true -> In a (cm_members x) /\ vt = 1%nat).
Proof. intros e ops s pid a vt I. exact (inv_votes _ _ (run_inv e ops s I) pid a vt). Qed.

(** * The handler table *)

Theorem table_is_covered : table_covered = true.
Proof. vm_compute. reflexivity. Qed.

Theorem table_size : length handlers = 49%nat.
Proof. reflexivity. Qed.

Theorem table_self_match : table_matches handlers = true.
Proof. vm_compute. reflexivity. Qed.

(** * Changes of the designated principals *)

(** ** The lookups of the guards after a change *)

Lemma find_map_oracles : forall (mk : list (nat * list nat)) m l m',
  match find (fun p => Nat.eqb (fst p) m') (map (fun p => if Nat.eqb (fst p) m then (fst p, l) else p) mk) with
  | Some p => Some (snd p) | None => None end
  = if Nat.eqb m' m
    then match find (fun p => Nat.eqb (fst p) m) mk with Some _ => Some l | None => None end
    else match find (fun p => Nat.eqb (fst p) m') mk with Some p => Some (snd p) | None => None end.
Proof.
  induction mk as [|[k os] r IH]; intros m l m'.
  - cbn. destruct (Nat.eqb m' m); reflexivity.
  - cbn [map find fst snd]. destruct (Nat.eqb k m) eqn:Ekm; cbn [fst snd find].
    + apply Nat.eqb_eq in Ekm. subst k. destruct (Nat.eqb m m') eqn:E.
      * apply Nat.eqb_eq in E. subst m'. rewrite Nat.eqb_refl. reflexivity.
      * rewrite IH. rewrite (Nat.eqb_sym m' m), E. reflexivity.
    + destruct (Nat.eqb k m') eqn:E.
      * apply Nat.eqb_eq in E. subst m'. rewrite Ekm. reflexivity.
      * rewrite IH. destruct (Nat.eqb m' m) eqn:E2; [|reflexivity]. reflexivity.
Qed.

Theorem set_oracles_lookup : forall s m l s' out,
  set_oracles s m l = Ok s' out ->
  forall m', oracles_of s' m' =
    if Nat.eqb m' m then match oracles_of s m with Some _ => Some l | None => None end
    else oracles_of s m'.
Proof.
  intros s m l s' out H m'. unfold set_oracles in H.
  destruct (negb (nodup_b l)); [discriminate|]. inversion H; subst. clear H.
  unfold oracles_of. cbn [markets set_markets]. rewrite find_map_oracles.
  destruct (Nat.eqb m' m); [|reflexivity].
  destruct (find (fun p => Nat.eqb (fst p) m) (markets s)); reflexivity.
Qed.

(* the other components are left alone *)
Lemma set_oracles_frame : forall s m l s' out,
  set_oracles s m l = Ok s' out ->
  prices s' = prices s /\ assets s' = assets s /\ b3assets s' = b3assets s /\ committees s' = committees s /\
  swaps s' = swaps s /\ proposals s' = proposals s /\ next_pid s' = next_pid s /\ votes s' = votes s.
Proof.
  intros s m l s' out H. unfold set_oracles in H.
  destruct (negb (nodup_b l)); [discriminate|]. inversion H; subst. repeat split; reflexivity.
Qed.

Lemma find_com_map : forall (cs : list committee) c l c',
  find (fun x => Nat.eqb (cm_id x) c')
       (map (fun y => if Nat.eqb (cm_id y) c then mkCom (cm_id y) l (cm_member_type y) else y) cs)
  = if Nat.eqb c' c
    then match find (fun x => Nat.eqb (cm_id x) c) cs with
         | Some y => Some (mkCom c l (cm_member_type y)) | None => None end
    else find (fun x => Nat.eqb (cm_id x) c') cs.
Proof.
  induction cs as [|y r IH]; intros c l c'.
  - cbn. destruct (Nat.eqb c' c); reflexivity.
  - cbn [map find]. destruct (Nat.eqb (cm_id y) c) eqn:Eyc; cbn [cm_id find].
    + apply Nat.eqb_eq in Eyc. destruct (Nat.eqb (cm_id y) c') eqn:E.
      * apply Nat.eqb_eq in E. subst c'. rewrite <- Eyc. rewrite Nat.eqb_refl. reflexivity.
      * rewrite IH. subst c. rewrite (Nat.eqb_sym c' (cm_id y)), E. reflexivity.
    + destruct (Nat.eqb (cm_id y) c') eqn:E.
      * apply Nat.eqb_eq in E. subst c'. rewrite Eyc. reflexivity.
      * rewrite IH. destruct (Nat.eqb c' c); reflexivity.
Qed.

Lemma find_com_app_new : forall (cs : list committee) c x c',
  find (fun y => Nat.eqb (cm_id y) c) cs = None -> cm_id x = c ->
  find (fun y => Nat.eqb (cm_id y) c') (cs ++ [x])
  = if Nat.eqb c' c then Some x else find (fun y => Nat.eqb (cm_id y) c') cs.
Proof.
  induction cs as [|y r IH]; intros c x c' Hn Hx.
  - cbn. rewrite Hx, (Nat.eqb_sym c c'). destruct (Nat.eqb c' c); reflexivity.
  - cbn [app find] in *. destruct (Nat.eqb (cm_id y) c) eqn:Eyc; [discriminate|].
    destruct (Nat.eqb (cm_id y) c') eqn:E.
    + apply Nat.eqb_eq in E. subst c'. rewrite Eyc. reflexivity.
    + apply IH; assumption.
Qed.

Lemma find_com_filter : forall (cs : list committee) c c',
  find (fun y => Nat.eqb (cm_id y) c') (filter (fun y => negb (Nat.eqb (cm_id y) c)) cs)
  = if Nat.eqb c' c then None else find (fun y => Nat.eqb (cm_id y) c') cs.
Proof.
  induction cs as [|y r IH]; intros c c'.
  - cbn. destruct (Nat.eqb c' c); reflexivity.
  - cbn [filter find]. destruct (Nat.eqb (cm_id y) c) eqn:Eyc; cbn [negb find].
    + rewrite IH. destruct (Nat.eqb c' c) eqn:E; [reflexivity|].
      apply Nat.eqb_eq in Eyc. subst c. rewrite (Nat.eqb_sym (cm_id y) c'), E. reflexivity.
    + destruct (Nat.eqb (cm_id y) c') eqn:E.
      * apply Nat.eqb_eq in E. subst c'. rewrite Eyc. reflexivity.
      * apply IH.
Qed.

Theorem set_members_lookup : forall s c l s' out,
  set_members s c l = Ok s' out ->
  (exists ty, find_com s' c = Some (mkCom c l ty)) /\
  (forall c', c' <> c -> find_com s' c' = find_com s c') /\
  proposals s' = closed_props s c /\ votes s' = closed_votes s c /\ next_pid s' = next_pid s /\
  markets s' = markets s /\ assets s' = assets s /\ b3assets s' = b3assets s /\ swaps s' = swaps s.
Proof.
  intros s c l s' out H. unfold set_members in H.
  destruct ((match l with [] => true | _ => false end) || negb (nodup_b l)); [discriminate|].
  inversion H; subst. clear H. unfold find_com. cbn [committees set_coms].
  destruct (find (fun x => Nat.eqb (cm_id x) c) (committees s)) as [y|] eqn:F.
  - split; [|split].
    + exists (cm_member_type y). rewrite find_com_map, Nat.eqb_refl, F. reflexivity.
    + intros c' Hc. rewrite find_com_map, (neqb_false _ _ Hc). reflexivity.
    + repeat split; reflexivity.
  - split; [|split].
    + exists true. rewrite (find_com_app_new (committees s) c (mkCom c l true) c F eq_refl), Nat.eqb_refl. reflexivity.
    + intros c' Hc. rewrite (find_com_app_new (committees s) c (mkCom c l true) c' F eq_refl), (neqb_false _ _ Hc). reflexivity.
    + repeat split; reflexivity.
Qed.

Theorem del_committee_lookup : forall s c s' out,
  del_committee s c = Ok s' out ->
  find_com s' c = None /\ (forall c', c' <> c -> find_com s' c' = find_com s c') /\
  proposals s' = closed_props s c /\ votes s' = closed_votes s c /\ next_pid s' = next_pid s /\
  markets s' = markets s /\ assets s' = assets s /\ b3assets s' = b3assets s /\ swaps s' = swaps s.
Proof.
  intros s c s' out H. unfold del_committee in H. inversion H; subst. clear H.
  unfold find_com. cbn [committees set_coms]. split; [|split].
  - rewrite find_com_filter, Nat.eqb_refl. reflexivity.
  - intros c' Hc. rewrite find_com_filter, (neqb_false _ _ Hc). reflexivity.
  - repeat split; reflexivity.
Qed.

Lemma find_asset_denom : forall s d x, find_asset s d = Some x -> as_denom x = d.
Proof.
  intros s d x H. unfold find_asset in H. apply find_some in H. destruct H as [_ H].
  apply Nat.eqb_eq in H. exact H.
Qed.

Lemma find_put_asset : forall (l : list asset) x d,
  find (fun y => Nat.eqb (as_denom y) d) (map (fun y => if Nat.eqb (as_denom y) (as_denom x) then x else y) l)
  = if Nat.eqb d (as_denom x)
    then match find (fun y => Nat.eqb (as_denom y) d) l with Some _ => Some x | None => None end
    else find (fun y => Nat.eqb (as_denom y) d) l.
Proof.
  induction l as [|y r IH]; intros x d.
  - cbn. destruct (Nat.eqb d (as_denom x)); reflexivity.
  - cbn [map find]. destruct (Nat.eqb (as_denom y) (as_denom x)) eqn:Eyx.
    + apply Nat.eqb_eq in Eyx. destruct (Nat.eqb (as_denom x) d) eqn:E.
      * apply Nat.eqb_eq in E. rewrite Eyx, E, !Nat.eqb_refl. reflexivity.
      * rewrite IH. rewrite Eyx, (Nat.eqb_sym d (as_denom x)), E. reflexivity.
    + destruct (Nat.eqb (as_denom y) d) eqn:E.
      * apply Nat.eqb_eq in E. subst d. rewrite Eyx. reflexivity.
      * apply IH.
Qed.

Theorem set_owner_lookup : forall s d a s' out x,
  set_owner s d a = Ok s' out -> find_asset s d = Some x ->
  find_asset s' d = Some (with_owner x a) /\
  (forall d', d' <> d -> find_asset s' d' = find_asset s d').
Proof.
  intros s d a s' out x H F. unfold set_owner in H. rewrite F in H.
  destruct (mem a (as_blocked x)); [discriminate|]. inversion H; subst. clear H.
  pose proof (find_asset_denom _ _ _ F) as Hd.
  unfold find_asset, put_asset. cbn [assets set_assets]. split.
  - rewrite find_put_asset. cbn [with_owner as_denom]. rewrite Hd, Nat.eqb_refl.
    unfold find_asset in F. rewrite F. reflexivity.
  - intros d' Hn. rewrite find_put_asset. cbn [with_owner as_denom]. rewrite Hd, (neqb_false _ _ Hn). reflexivity.
Qed.

Lemma find_b3_map : forall (l : list b3asset) d a d',
  find (fun x => Nat.eqb (b3_denom x) d') (map (fun x => if Nat.eqb (b3_denom x) d then mkB3 (b3_denom x) a else x) l)
  = if Nat.eqb d' d
    then match find (fun x => Nat.eqb (b3_denom x) d) l with Some _ => Some (mkB3 d a) | None => None end
    else find (fun x => Nat.eqb (b3_denom x) d') l.
Proof.
  induction l as [|y r IH]; intros d a d'.
  - cbn. destruct (Nat.eqb d' d); reflexivity.
  - cbn [map find]. destruct (Nat.eqb (b3_denom y) d) eqn:Eyd; cbn [b3_denom find].
    + apply Nat.eqb_eq in Eyd. destruct (Nat.eqb (b3_denom y) d') eqn:E.
      * apply Nat.eqb_eq in E. subst d'. rewrite <- Eyd, Nat.eqb_refl. reflexivity.
      * rewrite IH. subst d. rewrite (Nat.eqb_sym d' (b3_denom y)), E. reflexivity.
    + destruct (Nat.eqb (b3_denom y) d') eqn:E.
      * apply Nat.eqb_eq in E. subst d'. rewrite Eyd. reflexivity.
      * rewrite IH. destruct (Nat.eqb d' d); reflexivity.
Qed.

Theorem set_deputy_lookup : forall s d a s' out,
  set_deputy s d a = Ok s' out ->
  find_b3 s' d = (match find_b3 s d with Some _ => Some (mkB3 d a) | None => None end) /\
  (forall d', d' <> d -> find_b3 s' d' = find_b3 s d') /\ swaps s' = swaps s.
Proof.
  intros s d a s' out H. unfold set_deputy in H. inversion H; subst. clear H.
  unfold find_b3. cbn [b3assets set_b3 swaps]. split; [|split].
  - rewrite find_b3_map, Nat.eqb_refl. reflexivity.
  - intros d' Hn. rewrite find_b3_map, (neqb_false _ _ Hn). reflexivity.
  - reflexivity.
Qed.

(** ** A principal removed by a change is refused by the next message, an added one is accepted *)

(* whatever the removed oracle has posted before: [prices] is not consulted *)
Theorem removed_oracle_refused : forall e s m l s' out b p x,
  admin_step e s (SetOracles m l) = Ok s' out -> ~ In b l -> step e s' (PostPrice b m p x) = Err.
Proof.
  intros e s m l s' out b p x H Hn. cbn [admin_step] in H.
  apply post_price_requires_oracle. intros os Ho.
  rewrite (set_oracles_lookup _ _ _ _ _ H m), Nat.eqb_refl in Ho.
  destruct (oracles_of s m); inversion Ho; subst. exact Hn.
Qed.

Theorem added_oracle_accepted : forall e s m l s' out b p x,
  admin_step e s (SetOracles m l) = Ok s' out -> oracles_of s m <> None -> In b l -> now e < x ->
  exists s'', step e s' (PostPrice b m p x) = Ok s'' [].
Proof.
  intros e s m l s' out b p x H Hm Hb Hx. cbn [admin_step] in H.
  cbn [step]. unfold post_price.
  rewrite (set_oracles_lookup _ _ _ _ _ H m), Nat.eqb_refl.
  destruct (oracles_of s m); [|contradiction].
  apply mem_In in Hb. rewrite Hb. cbn [negb].
  apply Z.leb_gt in Hx. rewrite Hx. eexists. reflexivity.
Qed.

(* the oracle lists of the other markets are not touched *)
Theorem other_markets_keep_oracles : forall e s m l s' out m',
  admin_step e s (SetOracles m l) = Ok s' out -> m' <> m -> oracles_of s' m' = oracles_of s m'.
Proof.
  intros e s m l s' out m' H Hn. cbn [admin_step] in H.
  rewrite (set_oracles_lookup _ _ _ _ _ H m'), (neqb_false _ _ Hn). reflexivity.
Qed.

Theorem removed_member_refused : forall e s c l s' out b,
  admin_step e s (SetMembers c l) = Ok s' out -> ~ In b l ->
  (forall dur rest, step e s' (Submit b c dur rest) = Err) /\
  (forall pid vt dl, proposals s' pid = Some (c, dl) ->
     (exists x, find_com s' c = Some x /\ cm_member_type x = true) -> step e s' (Vote b pid vt) = Err).
Proof.
  intros e s c l s' out b H Hn. cbn [admin_step] in H.
  destruct (set_members_lookup _ _ _ _ _ H) as [[ty F] _]. split.
  - intros dur rest. apply submit_requires_member. intros x Fx. rewrite F in Fx. inversion Fx; subst. exact Hn.
  - intros pid vt dl Hp [x [Fx Ht]]. rewrite F in Fx. inversion Fx; subst x.
    apply (member_vote_requires_member e s' b pid vt c dl _ Hp F Ht). exact Hn.
Qed.

(* the committee's open proposals are closed by the change: nobody votes on them any more *)
Theorem member_change_closes_proposals : forall e s c l s' out pid dl,
  (admin_step e s (SetMembers c l) = Ok s' out \/ admin_step e s (DelCommittee c) = Ok s' out) ->
  proposals s pid = Some (c, dl) ->
  proposals s' pid = None /\ (forall a, votes s' pid a = None) /\ forall b vt, step e s' (Vote b pid vt) = Err.
Proof.
  intros e s c l s' out pid dl H Hp. cbn [admin_step] in H.
  assert (HH : proposals s' = closed_props s c /\ votes s' = closed_votes s c).
  { destruct H as [H|H].
    - destruct (set_members_lookup _ _ _ _ _ H) as [_ [_ [P [V _]]]]. auto.
    - destruct (del_committee_lookup _ _ _ _ H) as [_ [_ [P [V _]]]]. auto. }
  destruct HH as [P V].
  assert (Pn : proposals s' pid = None).
  { rewrite P. unfold closed_props. rewrite Hp, Nat.eqb_refl. reflexivity. }
  split; [exact Pn|]. split.
  - intros a. rewrite V. unfold closed_votes. rewrite Hp, Nat.eqb_refl. reflexivity.
  - intros b vt. cbn [step]. unfold vote. rewrite Pn. reflexivity.
Qed.

Theorem added_member_accepted : forall e s c l s' out b dur,
  admin_step e s (SetMembers c l) = Ok s' out -> In b l ->
  exists s'', step e s' (Submit b c dur true) = Ok s'' [].
Proof.
  intros e s c l s' out b dur H Hb. cbn [admin_step] in H.
  destruct (set_members_lookup _ _ _ _ _ H) as [[ty F] _].
  cbn [step]. unfold submit. rewrite F. cbn [cm_members].
  apply mem_In in Hb. rewrite Hb. cbn [negb]. eexists. reflexivity.
Qed.

Theorem deleted_committee_refuses_all : forall e s c s' out b dur rest,
  admin_step e s (DelCommittee c) = Ok s' out -> step e s' (Submit b c dur rest) = Err.
Proof.
  intros e s c s' out b dur rest H. cbn [admin_step] in H.
  destruct (del_committee_lookup _ _ _ _ H) as [F _].
  apply submit_requires_member. intros x Fx. rewrite F in Fx. discriminate.
Qed.

Theorem former_owner_refused : forall e s d a s' out b,
  admin_step e s (SetOwner d a) = Ok s' out -> find_asset s d <> None -> b <> a ->
  (forall amt rcv, step e s' (Issue b d amt rcv) = Err) /\
  (forall amt, step e s' (Redeem b d amt) = Err) /\
  (forall c, step e s' (Block b d c) = Err) /\
  (forall c, step e s' (Unblock b d c) = Err) /\
  (forall st, step e s' (SetPause b d st) = Err).
Proof.
  intros e s d a s' out b H Hf Hb. cbn [admin_step] in H.
  destruct (find_asset s d) as [x|] eqn:F; [|contradiction].
  destruct (set_owner_lookup _ _ _ _ _ _ H F) as [F' _].
  apply issuance_requires_owner. intros y Fy. rewrite F' in Fy. inversion Fy; subst. cbn. exact Hb.
Qed.

Theorem new_owner_is_principal : forall e s d a s' out,
  admin_step e s (SetOwner d a) = Ok s' out -> find_asset s d <> None ->
  forall st, authorised e s' (SetPause a d st) = true /\ exists s'', step e s' (SetPause a d st) = Ok s'' [].
Proof.
  intros e s d a s' out H Hf st. cbn [admin_step] in H.
  destruct (find_asset s d) as [x|] eqn:F; [|contradiction].
  destruct (set_owner_lookup _ _ _ _ _ _ H F) as [F' _].
  cbn [authorised step]. unfold set_pause. rewrite F'. cbn [with_owner as_owner as_paused].
  rewrite Nat.eqb_refl. split; [reflexivity|]. cbn [negb].
  destruct (Bool.eqb (as_paused x) st); eexists; reflexivity.
Qed.

(* after a change of the deputy an incoming swap comes from the new deputy only *)
Theorem former_deputy_refused : forall e s d a s' out b rcp amt rest,
  admin_step e s (SetDeputy d a) = Ok s' out -> b <> a -> rcp <> a ->
  step e s' (CreateSwap b rcp [(d, amt)] rest) = Err.
Proof.
  intros e s d a s' out b rcp amt rest H Hb Hr. cbn [admin_step] in H.
  destruct (set_deputy_lookup _ _ _ _ _ H) as [F _].
  apply incoming_swap_requires_deputy. intros x Fx. rewrite F in Fx.
  destruct (find_b3 s d); inversion Fx; subst. cbn. auto.
Qed.

Theorem new_deputy_sends_incoming : forall e s d a s' out rcp amt s'' out',
  admin_step e s (SetDeputy d a) = Ok s' out ->
  step e s' (CreateSwap a rcp [(d, amt)] true) = Ok s'' out' ->
  swaps s'' = mkSwap a rcp d amt true :: swaps s.
Proof.
  intros e s d a s' out rcp amt s'' out' H H2. cbn [admin_step] in H.
  destruct (set_deputy_lookup _ _ _ _ _ H) as [F [_ Sw]].
  destruct (create_swap_direction _ _ _ _ _ _ _ _ _ H2) as [x [Fx [[_ [_ E]]|[Hn _]]]].
  - rewrite E, Sw. reflexivity.
  - rewrite F in Fx. destruct (find_b3 s d); inversion Fx; subst. cbn in Hn. contradiction.
Qed.

(** ** Messages never change who the principals are *)

Definition owner_of (s : state) (d : nat) : option nat :=
  match find_asset s d with Some x => Some (as_owner x) | None => None end.

Lemma owner_of_put : forall s x y d,
  find_asset s (as_denom x) = Some y -> as_owner x = as_owner y -> as_denom x = as_denom y ->
  owner_of (put_asset s x) d = owner_of s d.
Proof.
  intros s x y d F Ho Hd. unfold owner_of, find_asset, put_asset. cbn [assets set_assets].
  rewrite find_put_asset. destruct (Nat.eqb d (as_denom x)) eqn:E; [|reflexivity].
  apply Nat.eqb_eq in E. subst d. unfold find_asset in F. rewrite F, Ho. reflexivity.
Qed.

Definition same_principals (s s' : state) : Prop :=
  markets s' = markets s /\ b3assets s' = b3assets s /\ committees s' = committees s /\
  forall d, owner_of s' d = owner_of s d.

Lemma same_principals_refl : forall s, same_principals s s.
Proof. intros s. repeat split; reflexivity. Qed.

Lemma same_principals_trans : forall s1 s2 s3,
  same_principals s1 s2 -> same_principals s2 s3 -> same_principals s1 s3.
Proof.
  intros s1 s2 s3 [A1 [A2 [A3 A4]]] [B1 [B2 [B3 B4]]]. repeat split; try congruence; intros d; rewrite B4; apply A4.
Qed.

Ltac sp_trivial := repeat split; reflexivity.

Lemma strategy_withdraw_principals : forall e s d amt s1,
  strategy_withdraw e s d amt = Some s1 -> same_principals s s1.
Proof.
  intros e s d amt s1 H. unfold strategy_withdraw in H.
  destruct (amt <=? 0); [inversion H; subst; apply same_principals_refl|].
  destruct (Nat.eqb (earn_strat e d) 0).
  - unfold hard_withdraw in H.
    repeat match type of H with match (if ?c then _ else _) with _ => _ end = _ => destruct c; [discriminate|] end.
    inversion H; subst. sp_trivial.
  - unfold sav_withdraw in H.
    repeat match type of H with match (if ?c then _ else _) with _ => _ end = _ => destruct c; [discriminate|] end.
    inversion H; subst. sp_trivial.
Qed.

Theorem messages_keep_principals : forall e s o s' out, step e s o = Ok s' out -> same_principals s s'.
Proof.
  intros e s o s' out H. destruct o; cbn [step] in H.
  - unfold post_price in H.
    destruct (oracles_of s m); [|discriminate]. destruct (negb (mem a l)); [discriminate|].
    destruct (expiry <=? now e); [discriminate|]. inversion H; subst. sp_trivial.
  - unfold issue in H. destruct (find_asset s d); [|discriminate].
    repeat match type of H with (if ?c then _ else _) = _ => destruct c; [discriminate|] end.
    inversion H; subst. sp_trivial.
  - unfold redeem in H. destruct (find_asset s d); [|discriminate].
    repeat match type of H with (if ?c then _ else _) = _ => destruct c; [discriminate|] end.
    inversion H; subst. sp_trivial.
  - unfold block in H. destruct (find_asset s d) as [x|] eqn:F; [|discriminate].
    repeat match type of H with (if ?c then _ else _) = _ => destruct c; [discriminate|] end.
    inversion H; subst. pose proof (find_asset_denom _ _ _ F) as Hd.
    repeat split; try reflexivity. intros d0.
    apply (owner_of_put s (with_blocked x (as_blocked x ++ [b])) x d0); cbn; try reflexivity.
    rewrite Hd. exact F.
  - unfold unblock in H. destruct (find_asset s d) as [x|] eqn:F; [|discriminate].
    repeat match type of H with (if ?c then _ else _) = _ => destruct c; [discriminate|] end.
    inversion H; subst. pose proof (find_asset_denom _ _ _ F) as Hd.
    repeat split; try reflexivity. intros d0.
    apply (owner_of_put s (with_blocked x (remove_blocked b (as_blocked x))) x d0); cbn; try reflexivity.
    rewrite Hd. exact F.
  - unfold set_pause in H. destruct (find_asset s d) as [x|] eqn:F; [|discriminate].
    destruct (negb (Nat.eqb a (as_owner x))); [discriminate|].
    destruct (Bool.eqb (as_paused x) st); inversion H; subst; [apply same_principals_refl|].
    pose proof (find_asset_denom _ _ _ F) as Hd.
    repeat split; try reflexivity. intros d0.
    apply (owner_of_put s (with_paused x (negb (as_paused x))) x d0); cbn; try reflexivity.
    rewrite Hd. exact F.
  - unfold create_swap_msg in H. destruct amount as [|[d amt] [|c r]]; try discriminate.
    unfold create_swap in H. destruct (is_macc e rcp); [discriminate|].
    destruct (find_b3 s d); [|discriminate].
    destruct (Nat.eqb a (b3_deputy b)); destruct (Nat.eqb rcp (b3_deputy b)); cbn [negb] in H; try discriminate;
      destruct rest; cbn [negb] in H; try discriminate; inversion H; subst; sp_trivial.
  - unfold submit in H. destruct (find_com s c); [|discriminate].
    repeat match type of H with (if ?c then _ else _) = _ => destruct c; [discriminate|] end.
    inversion H; subst. sp_trivial.
  - unfold vote in H. destruct (proposals s pid) as [[c dl]|]; [|discriminate].
    destruct (dl <=? now e); [discriminate|]. destruct (find_com s c); [|discriminate].
    repeat match type of H with (if ?c then _ else _) = _ => destruct c; [discriminate|] end.
    inversion H; subst. sp_trivial.
  - unfold update_params in H. destruct (negb (Nat.eqb a (gov e))); [discriminate|].
    destruct p as [[t r1] r2]. destruct ((r1 <? 0) || (r2 <? 0)); [discriminate|].
    inversion H; subst. sp_trivial.
  - unfold cdp_draw in H. destruct (find_cdp s a ct) as [[i c]|]; [|discriminate].
    destruct rest; [|discriminate]. inversion H; subst. sp_trivial.
  - unfold cdp_repay in H. destruct (find_cdp s a ct) as [[i c]|]; [|discriminate].
    destruct rest; [|discriminate]. cbn [negb] in H.
    destruct (cd_princ c - Z.min amt (cd_princ c) =? 0); inversion H; subst; sp_trivial.
  - unfold cdp_withdraw in H. destruct (find_cdp s owner ct) as [[i c]|]; [|discriminate].
    repeat match type of H with (if ?c then _ else _) = _ => destruct c; [discriminate|] end.
    inversion H; subst. sp_trivial.
  - unfold hard_withdraw in H.
    repeat match type of H with (if ?c then _ else _) = _ => destruct c; [discriminate|] end.
    inversion H; subst. sp_trivial.
  - unfold sav_withdraw in H.
    repeat match type of H with (if ?c then _ else _) = _ => destruct c; [discriminate|] end.
    inversion H; subst. sp_trivial.
  - unfold swap_withdraw in H.
    destruct (negb deadline_ok); [discriminate|].
    destruct (swap_shares s a pool <=? 0); [discriminate|].
    destruct (swap_shares s a pool <? shares); [discriminate|].
    destruct (swap_pools s pool) as [[ra rb] tot].
    repeat match type of H with (if ?c then _ else _) = _ => destruct c; [discriminate|] end.
    inversion H; subst. sp_trivial.
  - unfold earn_withdraw in H.
    repeat match type of H with (if ?c then _ else _) = _ => destruct c; [discriminate|] end.
    destruct (strategy_withdraw e s d wamount) as [s1|] eqn:SW; [|discriminate].
    pose proof (strategy_withdraw_principals _ _ _ _ _ SW) as [A1 [A2 [A3 A4]]].
    inversion H; subst. repeat split; cbn; try assumption;
      intros d0; specialize (A4 d0); unfold owner_of, find_asset in *; cbn; exact A4.
Qed.

Lemma run_keeps_principals : forall e ops s, same_principals s (run e s ops).
Proof.
  intros e ops. induction ops as [|o r IH]; intros s; [apply same_principals_refl|].
  cbn [run fold_left]. apply (same_principals_trans s (step' e s o)); [|apply IH].
  unfold step'. destruct (step e s o) as [s1 out| |] eqn:E; try apply same_principals_refl.
  exact (messages_keep_principals _ _ _ _ _ E).
Qed.

(* authorisation for the five list-guarded kinds of message depends on the lists only *)
Lemma oracles_of_same : forall s s' m, markets s' = markets s -> oracles_of s' m = oracles_of s m.
Proof. intros s s' m H. unfold oracles_of. rewrite H. reflexivity. Qed.

(** ** All histories: messages and changes of principals in any order *)

Lemma hrun_app : forall e hs1 hs2 s, hrun e s (hs1 ++ hs2) = hrun e (hrun e s hs1) hs2.
Proof. intros e hs1 hs2 s. unfold hrun. apply fold_left_app. Qed.

Lemma hrun_msgs : forall e ops s, hrun e s (map Msg ops) = run e s ops.
Proof.
  intros e ops. induction ops as [|o r IH]; intros s; [reflexivity|].
  cbn [map hrun run fold_left]. exact (IH (step' e s o)).
Qed.

(* the decision is taken on the lists of the state the message arrives in, whatever came before *)
Theorem wrong_signer_rejected_all_histories : forall e hs s o,
  authorised e (hrun e s hs) o = false -> step e (hrun e s hs) o = Err.
Proof. intros e hs s o. apply unauthorised_rejected. Qed.

(* after any history, a change that removes an oracle, and any further messages:
   the removed oracle is refused *)
Theorem removed_oracle_refused_all_histories : forall e s hs m l ops b p x,
  nodup_b l = true -> ~ In b l ->
  step e (hrun e s (hs ++ Adm (SetOracles m l) :: map Msg ops)) (PostPrice b m p x) = Err.
Proof.
  intros e s hs m l ops b p x Hd Hn.
  rewrite hrun_app. set (s1 := hrun e s hs). cbn [hrun fold_left]. fold (hrun e (hstep' e s1 (Adm (SetOracles m l))) (map Msg ops)).
  rewrite hrun_msgs.
  assert (H : admin_step e s1 (SetOracles m l) =
              Ok (hstep' e s1 (Adm (SetOracles m l))) []).
  { unfold hstep'. cbn [hstep admin_step]. unfold set_oracles. rewrite Hd. reflexivity. }
  set (s2 := hstep' e s1 (Adm (SetOracles m l))) in *.
  apply post_price_requires_oracle. intros os Ho.
  destruct (run_keeps_principals e ops s2) as [Mk _].
  rewrite (oracles_of_same _ _ m Mk) in Ho.
  rewrite (set_oracles_lookup _ _ _ _ _ H m), Nat.eqb_refl in Ho.
  destruct (oracles_of s1 m); inversion Ho; subst. exact Hn.
Qed.

Lemma find_com_same' : forall s s' c, committees s' = committees s -> find_com s' c = find_com s c.
Proof. intros s s' c H. unfold find_com. rewrite H. reflexivity. Qed.

Theorem removed_member_refused_all_histories : forall e s hs c l ops b dur rest,
  l <> [] -> nodup_b l = true -> ~ In b l ->
  step e (hrun e s (hs ++ Adm (SetMembers c l) :: map Msg ops)) (Submit b c dur rest) = Err.
Proof.
  intros e s hs c l ops b dur rest Hl Hd Hn.
  rewrite hrun_app. set (s1 := hrun e s hs). cbn [hrun fold_left]. fold (hrun e (hstep' e s1 (Adm (SetMembers c l))) (map Msg ops)).
  rewrite hrun_msgs.
  assert (H : exists out, admin_step e s1 (SetMembers c l) = Ok (hstep' e s1 (Adm (SetMembers c l))) out).
  { unfold hstep'. cbn [hstep admin_step]. unfold set_members. rewrite Hd.
    destruct l; [contradiction|]. cbn [orb negb]. eexists. reflexivity. }
  destruct H as [out H]. set (s2 := hstep' e s1 (Adm (SetMembers c l))) in *.
  cbn [admin_step] in H. destruct (set_members_lookup _ _ _ _ _ H) as [[ty F] _].
  apply submit_requires_member. intros x Fx.
  destruct (run_keeps_principals e ops s2) as [_ [_ [Cm _]]].
  rewrite (find_com_same' _ _ c Cm), F in Fx. inversion Fx; subst. exact Hn.
Qed.

Theorem former_owner_refused_all_histories : forall e s hs d a ops b st,
  let s1 := hrun e s hs in
  (forall x, find_asset s1 d = Some x -> mem a (as_blocked x) = false) -> b <> a ->
  step e (hrun e s (hs ++ Adm (SetOwner d a) :: map Msg ops)) (SetPause b d st) = Err.
Proof.
  intros e s hs d a ops b st s1 Hbl Hb.
  rewrite hrun_app. fold s1. cbn [hrun fold_left]. fold (hrun e (hstep' e s1 (Adm (SetOwner d a))) (map Msg ops)).
  rewrite hrun_msgs. set (s2 := hstep' e s1 (Adm (SetOwner d a))).
  apply unauthorised_rejected. cbn [authorised].
  destruct (run_keeps_principals e ops s2) as [_ [_ [_ Ow]]]. specialize (Ow d). unfold owner_of in Ow.
  destruct (find_asset (run e s2 ops) d) as [y|] eqn:Fy; [|reflexivity].
  destruct (find_asset s2 d) as [z|] eqn:Fz; [|discriminate]. inversion Ow as [Eo]. rewrite Eo.
  destruct (find_asset s1 d) as [x|] eqn:F.
  - assert (H : admin_step e s1 (SetOwner d a) = Ok s2 []).
    { unfold s2, hstep'. cbn [hstep admin_step]. unfold set_owner. rewrite F, (Hbl x eq_refl). reflexivity. }
    cbn [admin_step] in H. destruct (set_owner_lookup _ _ _ _ _ _ H F) as [F' _].
    rewrite F' in Fz. inversion Fz; subst z. cbn. apply neqb_false. exact Hb.
  - exfalso. unfold s2, hstep' in Fz. cbn [hstep admin_step] in Fz. unfold set_owner in Fz. rewrite F in Fz.
    rewrite F in Fz. discriminate.
Qed.

(* all five issuance messages, over all histories *)
Theorem former_owner_refused_all_messages_all_histories : forall e s hs d a ops b,
  (forall x, find_asset (hrun e s hs) d = Some x -> mem a (as_blocked x) = false) -> b <> a ->
  let s3 := hrun e s (hs ++ Adm (SetOwner d a) :: map Msg ops) in
  (forall amt rcv, step e s3 (Issue b d amt rcv) = Err) /\
  (forall amt, step e s3 (Redeem b d amt) = Err) /\
  (forall c, step e s3 (Block b d c) = Err) /\
  (forall c, step e s3 (Unblock b d c) = Err) /\
  (forall st, step e s3 (SetPause b d st) = Err).
Proof.
  intros e s hs d a ops b Hbl Hb s3. apply issuance_requires_owner. intros x Fx Hbx.
  pose proof (former_owner_refused_all_histories e s hs d a ops b true Hbl Hb) as E.
  fold s3 in E. cbn [step] in E. unfold set_pause in E. rewrite Fx in E. subst b.
  rewrite Nat.eqb_refl in E. cbn [negb] in E. destruct (Bool.eqb (as_paused x) true); discriminate.
Qed.

Lemma find_b3_same' : forall s s' d, b3assets s' = b3assets s -> find_b3 s' d = find_b3 s d.
Proof. intros s s' d H. unfold find_b3. rewrite H. reflexivity. Qed.

Theorem former_deputy_refused_all_histories : forall e s hs d a ops b rcp amt rest,
  b <> a -> rcp <> a ->
  step e (hrun e s (hs ++ Adm (SetDeputy d a) :: map Msg ops)) (CreateSwap b rcp [(d, amt)] rest) = Err.
Proof.
  intros e s hs d a ops b rcp amt rest Hb Hr.
  rewrite hrun_app. set (s1 := hrun e s hs). cbn [hrun fold_left]. fold (hrun e (hstep' e s1 (Adm (SetDeputy d a))) (map Msg ops)).
  rewrite hrun_msgs. set (s2 := hstep' e s1 (Adm (SetDeputy d a))).
  assert (H : admin_step e s1 (SetDeputy d a) = Ok s2 []) by reflexivity.
  cbn [admin_step] in H. destruct (set_deputy_lookup _ _ _ _ _ H) as [F _].
  apply incoming_swap_requires_deputy. intros x Fx.
  destruct (run_keeps_principals e ops s2) as [_ [B3 _]].
  rewrite (find_b3_same' _ _ d B3), F in Fx.
  destruct (find_b3 s1 d); inversion Fx; subst. cbn. auto.
Qed.

(** ** The vote invariant over histories with changes of principals *)

Record VInv (e : env) (s : state) : Prop := {
  vinv_votes : forall pid a vt, votes s pid a = Some vt ->
     exists c dl x, proposals s pid = Some (c, dl) /\ find_com s c = Some x /\
       (cm_member_type x = true -> In a (cm_members x) /\ vt = 1%nat);
  vinv_props : forall pid p, proposals s pid = Some p -> (pid < next_pid s)%nat;
  vinv_fresh : forall pid a, (next_pid s <= pid)%nat -> votes s pid a = None
}.

Lemma Inv_VInv : forall e s, Inv e s -> VInv e s.
Proof. intros e s [I1 I2 I3 I4]. constructor; assumption. Qed.

Lemma vinv_frame : forall e s s',
  VInv e s -> committees s' = committees s ->
  proposals s' = proposals s -> next_pid s' = next_pid s -> votes s' = votes s -> VInv e s'.
Proof.
  intros e s s' [I2 I3 I4] Hc Hp Hn Hv. constructor.
  - intros pid a vt H. rewrite Hv in H. destruct (I2 pid a vt H) as [c [dl [x [P [F M]]]]].
    exists c, dl, x. rewrite Hp, (find_com_same' s s') by assumption. auto.
  - intros pid p H. rewrite Hp in H. rewrite Hn. exact (I3 pid p H).
  - intros pid a H. rewrite Hn in H. rewrite Hv. exact (I4 pid a H).
Qed.

Ltac vframe_tac I := apply (vinv_frame _ _ _ I); reflexivity.

Lemma strategy_withdraw_vframe : forall e s d amt s1,
  strategy_withdraw e s d amt = Some s1 ->
  committees s1 = committees s /\ proposals s1 = proposals s /\ next_pid s1 = next_pid s /\ votes s1 = votes s.
Proof.
  intros e s d amt s1 H.
  destruct (strategy_withdraw_frame _ _ _ _ _ H) as [_ [_ [A [_ [B [C D]]]]]]. auto.
Qed.

Theorem step_vinv : forall e s o s' out, VInv e s -> step e s o = Ok s' out -> VInv e s'.
Proof.
  intros e s o s' out I H. destruct o; cbn [step] in H.
  - unfold post_price in H.
    destruct (oracles_of s m); [|discriminate]. destruct (negb (mem a l)); [discriminate|].
    destruct (expiry <=? now e); [discriminate|]. inversion H; subst. vframe_tac I.
  - unfold issue in H. destruct (find_asset s d); [|discriminate].
    repeat match type of H with (if ?c then _ else _) = _ => destruct c; [discriminate|] end.
    inversion H; subst. vframe_tac I.
  - unfold redeem in H. destruct (find_asset s d); [|discriminate].
    repeat match type of H with (if ?c then _ else _) = _ => destruct c; [discriminate|] end.
    inversion H; subst. vframe_tac I.
  - unfold block in H. destruct (find_asset s d); [|discriminate].
    repeat match type of H with (if ?c then _ else _) = _ => destruct c; [discriminate|] end.
    inversion H; subst. vframe_tac I.
  - unfold unblock in H. destruct (find_asset s d); [|discriminate].
    repeat match type of H with (if ?c then _ else _) = _ => destruct c; [discriminate|] end.
    inversion H; subst. vframe_tac I.
  - unfold set_pause in H. destruct (find_asset s d); [|discriminate].
    destruct (negb (Nat.eqb a (as_owner a0))); [discriminate|].
    destruct (Bool.eqb (as_paused a0) st); inversion H; subst; [exact I | vframe_tac I].
  - unfold create_swap_msg in H. destruct amount as [|[d amt] [|c r]]; try discriminate.
    unfold create_swap in H. destruct (is_macc e rcp); [discriminate|].
    destruct (find_b3 s d); [|discriminate].
    destruct (Nat.eqb a (b3_deputy b)); destruct (Nat.eqb rcp (b3_deputy b)); cbn [negb] in H; try discriminate;
      destruct rest; cbn [negb] in H; try discriminate; inversion H; subst; vframe_tac I.
  - unfold submit in H. destruct (find_com s c) as [x|] eqn:F; [|discriminate].
    destruct (negb (mem a (cm_members x))); [discriminate|]. destruct rest; [|discriminate]. cbn [negb] in H.
    inversion H; subst. clear H. destruct I as [I2 I3 I4]. constructor; cbn.
    + intros pid v vt Hvt. destruct (I2 pid v vt Hvt) as [c0 [dl [y [P [Fc M]]]]].
      exists c0, dl, y. split; [|split; [exact Fc | exact M]].
      rewrite upd_other; [exact P|]. intro Eq. subst pid.
      rewrite (I4 (next_pid s) v (Nat.le_refl _)) in Hvt. discriminate.
    + intros pid p Hpp. unfold upd in Hpp. destruct (Nat.eqb pid (next_pid s)) eqn:E.
      * apply Nat.eqb_eq in E. lia.
      * specialize (I3 pid p Hpp). lia.
    + intros pid v Hpid. apply I4. lia.
  - unfold vote in H. destruct (proposals s pid) as [[c dl]|] eqn:P; [|discriminate].
    destruct (dl <=? now e); [discriminate|].
    destruct (find_com s c) as [x|] eqn:F; [|discriminate].
    destruct (cm_member_type x && negb (mem a (cm_members x))) eqn:G1; [discriminate|].
    destruct (cm_member_type x && negb (Nat.eqb vt 1)) eqn:G2; [discriminate|].
    inversion H; subst. clear H. destruct I as [I2 I3 I4]. constructor; cbn.
    + intros pid' v vt' Hvt. unfold upd2 in Hvt.
      destruct (Nat.eqb pid' pid && Nat.eqb v a) eqn:E.
      * apply andb_true_iff in E. destruct E as [E1 E2].
        apply Nat.eqb_eq in E1. apply Nat.eqb_eq in E2. subst pid' v. inversion Hvt; subst vt'.
        exists c, dl, x. split; [exact P|]. split; [exact F|]. intros Hm.
        rewrite Hm in G1, G2. cbn [andb] in G1, G2. split.
        -- apply negb_false_iff in G1. apply mem_In. exact G1.
        -- apply negb_false_iff in G2. apply Nat.eqb_eq. exact G2.
      * exact (I2 pid' v vt' Hvt).
    + exact I3.
    + intros pid' v Hpid. unfold upd2.
      destruct (Nat.eqb pid' pid && Nat.eqb v a) eqn:E; [|exact (I4 pid' v Hpid)].
      apply andb_true_iff in E. destruct E as [E1 _]. apply Nat.eqb_eq in E1. subst pid'.
      specialize (I3 pid _ P). lia.
  - unfold update_params in H. destruct (negb (Nat.eqb a (gov e))); [discriminate|].
    destruct p as [[t r1] r2]. destruct ((r1 <? 0) || (r2 <? 0)); [discriminate|].
    inversion H; subst. vframe_tac I.
  - unfold cdp_draw in H. destruct (find_cdp s a ct) as [[i c]|]; [|discriminate].
    destruct rest; [|discriminate]. inversion H; subst. vframe_tac I.
  - unfold cdp_repay in H. destruct (find_cdp s a ct) as [[i c]|]; [|discriminate].
    destruct rest; [|discriminate]. cbn [negb] in H.
    destruct (cd_princ c - Z.min amt (cd_princ c) =? 0); inversion H; subst; vframe_tac I.
  - unfold cdp_withdraw in H. destruct (find_cdp s owner ct) as [[i c]|]; [|discriminate].
    repeat match type of H with (if ?c then _ else _) = _ => destruct c; [discriminate|] end.
    inversion H; subst. vframe_tac I.
  - unfold hard_withdraw in H.
    repeat match type of H with (if ?c then _ else _) = _ => destruct c; [discriminate|] end.
    inversion H; subst. vframe_tac I.
  - unfold sav_withdraw in H.
    repeat match type of H with (if ?c then _ else _) = _ => destruct c; [discriminate|] end.
    inversion H; subst. vframe_tac I.
  - unfold swap_withdraw in H.
    destruct (negb deadline_ok); [discriminate|].
    destruct (swap_shares s a pool <=? 0); [discriminate|].
    destruct (swap_shares s a pool <? shares); [discriminate|].
    destruct (swap_pools s pool) as [[ra rb] tot].
    repeat match type of H with (if ?c then _ else _) = _ => destruct c; [discriminate|] end.
    inversion H; subst. vframe_tac I.
  - unfold earn_withdraw in H.
    repeat match type of H with (if ?c then _ else _) = _ => destruct c; [discriminate|] end.
    destruct (strategy_withdraw e s d wamount) as [s1|] eqn:SW; [|discriminate].
    destruct (strategy_withdraw_vframe _ _ _ _ _ SW) as [F2 [F4 [F5 F6]]].
    inversion H; subst. apply (vinv_frame _ _ _ I); cbn; assumption.
Qed.

(* closing the proposals of committee c keeps the invariant for any new value
   of that committee (its remaining proposals are the other committees') *)
Lemma vinv_close : forall e s s' c,
  VInv e s ->
  (forall c', c' <> c -> find_com s' c' = find_com s c') ->
  proposals s' = closed_props s c -> votes s' = closed_votes s c -> next_pid s' = next_pid s ->
  VInv e s'.
Proof.
  intros e s s' c [I2 I3 I4] Hf Hp Hv Hn. constructor.
  - intros pid a vt H. rewrite Hv in H. unfold closed_votes in H.
    destruct (proposals s pid) as [[c' dl]|] eqn:P.
    + destruct (Nat.eqb c' c) eqn:E; [discriminate|].
      destruct (I2 pid a vt H) as [c0 [dl0 [x [P0 [F M]]]]].
      rewrite P in P0. inversion P0; subst c0 dl0.
      exists c', dl, x. split; [|split].
      * rewrite Hp. unfold closed_props. rewrite P, E. reflexivity.
      * rewrite Hf; [exact F|]. apply Nat.eqb_neq. exact E.
      * exact M.
    + destruct (I2 pid a vt H) as [c0 [dl0 [x [P0 _]]]]. rewrite P in P0. discriminate.
  - intros pid p H. rewrite Hp in H. unfold closed_props in H. rewrite Hn.
    destruct (proposals s pid) as [[c' dl]|] eqn:P; [|discriminate]. exact (I3 pid _ P).
  - intros pid a H. rewrite Hn in H. rewrite Hv. unfold closed_votes.
    rewrite (I4 pid a H). destruct (proposals s pid) as [[c' dl]|]; [|reflexivity].
    destruct (Nat.eqb c' c); reflexivity.
Qed.

Theorem admin_step_vinv : forall e s a s' out, VInv e s -> admin_step e s a = Ok s' out -> VInv e s'.
Proof.
  intros e s a s' out I H. destruct a; cbn [admin_step] in H.
  - destruct (set_oracles_frame _ _ _ _ _ H) as [_ [_ [_ [C [_ [P [N V]]]]]]].
    exact (vinv_frame _ _ _ I C P N V).
  - unfold set_owner in H. destruct (find_asset s d) as [x|]; [|inversion H; subst; exact I].
    destruct (mem a (as_blocked x)); [discriminate|]. inversion H; subst. vframe_tac I.
  - unfold set_deputy in H. inversion H; subst. vframe_tac I.
  - destruct (set_members_lookup _ _ _ _ _ H) as [_ [F [P [V [N _]]]]].
    exact (vinv_close _ _ _ c I F P V N).
  - destruct (del_committee_lookup _ _ _ _ H) as [_ [F [P [V [N _]]]]].
    exact (vinv_close _ _ _ c I F P V N).
Qed.

Lemma hstep'_vinv : forall e s h, VInv e s -> VInv e (hstep' e s h).
Proof.
  intros e s h I. unfold hstep'. destruct (hstep e s h) as [s' out| |] eqn:E; auto.
  destruct h; cbn [hstep] in E.
  - exact (step_vinv _ _ _ _ _ I E).
  - exact (admin_step_vinv _ _ _ _ _ I E).
Qed.

Theorem hrun_vinv : forall e hs s, VInv e s -> VInv e (hrun e s hs).
Proof.
  intros e hs. induction hs as [|h r IH]; intros s I; [exact I|].
  cbn [hrun fold_left]. apply IH. apply hstep'_vinv. exact I.
Qed.

(* over every history with changes of the member lists: every recorded vote on
   a member-committee proposal is a yes vote of a CURRENT member *)
Theorem member_votes_from_current_members_all_histories : forall e hs s pid a vt,
  VInv e s -> votes (hrun e s hs) pid a = Some vt ->
  exists c dl x, proposals (hrun e s hs) pid = Some (c, dl) /\ find_com (hrun e s hs) c = Some x /\
    (cm_member_type x = true -> In a (cm_members x) /\ vt = 1%nat).
Proof. intros e hs s pid a vt I. exact (vinv_votes _ _ (hrun_vinv e hs s I) pid a vt). Qed.

Theorem VInv_vinv_b : forall e s, VInv e s -> vinv_b e s = true.
Proof.
  intros e s [I2 I3 I4]. unfold vinv_b.
  apply forallb_forall. intros pid _. apply forallb_forall. intros a _. unfold vote_ok.
  destruct (votes s pid a) as [vt|] eqn:V; [|reflexivity].
  destruct (I2 pid a vt V) as [c [dl [x [P [F M]]]]]. rewrite P, F.
  destruct (cm_member_type x); [|reflexivity]. cbn [negb orb].
  destruct (M eq_refl) as [M1 M2]. subst vt. apply mem_In in M1. rewrite M1. reflexivity.
Qed.

(** ** Swaps over histories with changes of the deputy *)

Ltac crush_step H :=
  repeat (match type of H with
          | match ?x with _ => _ end = _ => destruct x eqn:?
          end; try discriminate).

(* a message records at most one swap, labelled incoming only if its sender is
   the deputy of the state the message ran in *)
Lemma step_swaps : forall e s o s' out, step e s o = Ok s' out ->
  swaps s' = swaps s \/
  exists w, swaps s' = w :: swaps s /\
    (sw_incoming w = true -> exists x, find_b3 s (sw_denom w) = Some x /\ sw_sender w = b3_deputy x).
Proof.
  intros e s o s' out H.
  destruct (match o with CreateSwap _ _ _ _ => true | _ => false end) eqn:K.
  - destruct o; try discriminate. right.
    destruct (create_swap_single_coin _ _ _ _ _ _ _ _ H) as [d [amt Ea]]. subst amount.
    destruct (create_swap_direction _ _ _ _ _ _ _ _ _ H) as [x [F [[Ea [_ Es]]|[_ [_ Es]]]]].
    + exists (mkSwap a rcp d amt true). split; [exact Es|]. intros _. exists x. cbn. auto.
    + exists (mkSwap a rcp d amt false). split; [exact Es|]. cbn. discriminate.
  - left. destruct o; try discriminate; cbn [step] in H;
      unfold post_price, issue, redeem, block, unblock, set_pause, submit, vote, update_params,
             cdp_draw, cdp_repay, cdp_withdraw, hard_withdraw, sav_withdraw, swap_withdraw, earn_withdraw in H;
      crush_step H; inversion H; subst; try reflexivity.
    match goal with
    | SW : strategy_withdraw _ _ _ _ = Some _ |- _ =>
        destruct (strategy_withdraw_frame _ _ _ _ _ SW) as [_ [_ [_ [Sw _]]]]; cbn; exact Sw
    end.
Qed.

Lemma admin_step_swaps : forall e s a s' out, admin_step e s a = Ok s' out -> swaps s' = swaps s.
Proof.
  intros e s a s' out H. destruct a; cbn [admin_step] in H;
    unfold set_oracles, set_owner, set_deputy, set_members, del_committee in H;
    crush_step H; inversion H; subst; reflexivity.
Qed.

(* one step of any history records at most one swap, labelled by the deputy of
   the state the message ran in; a change of the deputy records nothing and
   re-labels nothing *)
Theorem hstep_new_swap : forall e s h,
  swaps (hstep' e s h) = swaps s \/
  exists w, swaps (hstep' e s h) = w :: swaps s /\
    (sw_incoming w = true -> exists x, find_b3 s (sw_denom w) = Some x /\ sw_sender w = b3_deputy x).
Proof.
  intros e s h. unfold hstep'. destruct (hstep e s h) as [s' out| |] eqn:E; auto.
  destruct h as [o|a]; cbn [hstep] in E.
  - exact (step_swaps _ _ _ _ _ E).
  - left. exact (admin_step_swaps _ _ _ _ _ E).
Qed.

(* over every history: a swap recorded as incoming was sent by the account that
   was the asset's deputy when the swap was created *)
Theorem incoming_swaps_from_deputy_of_their_time : forall e hs s w,
  In w (swaps (hrun e s hs)) ->
  In w (swaps s) \/
  exists pre h post, hs = pre ++ h :: post /\
    (sw_incoming w = true ->
     exists x, find_b3 (hrun e s pre) (sw_denom w) = Some x /\ sw_sender w = b3_deputy x).
Proof.
  intros e hs. induction hs as [|h r IH]; intros s w Hw.
  - left. exact Hw.
  - cbn [hrun fold_left] in Hw. fold (hrun e (hstep' e s h) r) in Hw.
    destruct (IH _ _ Hw) as [Hin|[pre [h' [post [Eq Hd]]]]].
    + destruct (hstep_new_swap e s h) as [Es|[w0 [Es Hd]]].
      * left. rewrite Es in Hin. exact Hin.
      * rewrite Es in Hin. destruct Hin as [Hin|Hin].
        -- subst w0. right. exists [], h, r. split; [reflexivity|]. exact Hd.
        -- left. exact Hin.
    + right. exists (h :: pre), h', post. split; [rewrite Eq; reflexivity|]. exact Hd.
Qed.

(* issuance: the asset lookup is by the EXACT denom (params.go GetAsset compares asset.Denom == denom;
   coin denoms are case sensitive, so "usdtoken" and "USDTOKEN" are two denoms).  Two assets with
   different denoms have independent owners: each lookup returns the asset of the denom asked for,
   the owner of one asset has no right on the other (unless it owns both), the owner of the other
   one is its principal, and a change of one owner leaves the other asset as it is. *)
Theorem issuance_owner_is_per_denom : forall e s d d' x y,
  find_asset s d = Some x -> find_asset s d' = Some y -> d <> d' ->
  as_denom x = d /\ as_denom y = d' /\
  (as_owner x <> as_owner y ->
   (forall amt rcv, step e s (Issue (as_owner x) d' amt rcv) = Err) /\
   (forall amt, step e s (Redeem (as_owner x) d' amt) = Err) /\
   (forall c, step e s (Block (as_owner x) d' c) = Err) /\
   (forall c, step e s (Unblock (as_owner x) d' c) = Err) /\
   (forall st, step e s (SetPause (as_owner x) d' st) = Err)) /\
  (forall amt rcv st c,
     authorised e s (Issue (as_owner y) d' amt rcv) = true /\ authorised e s (Redeem (as_owner y) d' amt) = true /\
     authorised e s (Block (as_owner y) d' c) = true /\ authorised e s (Unblock (as_owner y) d' c) = true /\
     authorised e s (SetPause (as_owner y) d' st) = true) /\
  (forall a s' out, admin_step e s (SetOwner d a) = Ok s' out -> find_asset s' d' = Some y).
Proof.
  intros e s d d' x y Fx Fy Hn.
  split; [exact (find_asset_denom _ _ _ Fx)|]. split; [exact (find_asset_denom _ _ _ Fy)|].
  split; [|split].
  - intros Ho. apply issuance_requires_owner. intros z Fz. rewrite Fy in Fz. injection Fz as <-. exact Ho.
  - intros amt rcv st c. cbn [authorised]. rewrite Fy, Nat.eqb_refl. repeat split; reflexivity.
  - intros a s' out H. cbn [admin_step] in H.
    destruct (set_owner_lookup _ _ _ _ _ _ H Fx) as [_ Ho]. rewrite (Ho d'); [exact Fy|].
    intros E. apply Hn. symmetry. exact E.
Qed.
