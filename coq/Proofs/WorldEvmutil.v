(* C02 instance: x/evmutil (no begin or end blocker).
   Operations: the four conversion messages (or direct keeper calls), ERC20 transfers, mints, approvals and
   transferFroms, bank sends, a governance parameter-change proposal (validated like the real handler does).
   Invariant = Proofs.Evmutil.Inv:
     1-3. the registry of deployed cosmos-coin contracts is injective and within the allocated range
          (needed by 4)
     4.   for every cosmos coin: module account balance = total supply of its ERC20 wrapper
                                  — "cosmos-coins-fully-backed" (the one invariant evmutil registers)
     5.   for every conversion pair of the table (OpenZeppelin bytecode): coin supply (x 10^10 for bep3 assets)
          <= ERC20 tokens held by the module's EVM address
                                  — BackedCoinsInvariant (defined in invariants.go, NOT registered:
                                    the RegisterRoute line is commented out; kept, in its scaled form)
     6.   nobody holds an allowance over those locked tokens
     7.   for a table contract whose transfer() emits Approval no coin of its denom exists
          (every conversion through it is refused)
     8.   the enabled pairs are pairs of the table
   Guard [op_wf]: the module account and the zero address sign no message (they have no key); a pair list
   that passes the validators of the parameter-change path consists of table pairs.  [env_wf]: the module
   account is a blocked bank recipient; table pairs have distinct denoms; the module is not the zero address. *)
From Coq Require Import String.
From Kava Require Import Base.Prelude Model.World Model.WorldG Proofs.WorldG.
From Kava Require Import Model.Erc20 Model.Evmutil Proofs.Evmutil.
Local Open Scope string_scope.

Definition evmutil_M (e : env) : module :=
  mkModule ["evmutil"] state unit op no_blocker (step e) no_blocker
           (Inv e) (fun _ _ => True) (fun _ o => op_wf e o).

Lemma evmutil_M_ok e : env_wf e -> module_ok (evmutil_M e).
Proof.
  intros Hwf. apply no_blockers_ok. intros s o s' u HI G E. destruct u. eapply step_inv; eauto.
Qed.

(** * non-vacuity (the witness of C10): accounts 0,1 users, 2 the module (blocked); pair contract 0 <-> denom 0
      (bep3), pair contract 1 <-> denom 1; denom 2 is an allowed cosmos coin *)
Definition evm_e0 : env := mk_env 3 3 2 [false; false; true] [0; 1]%nat [true; false; false].
Definition evm_s0 : state :=
  mk_state [[0; 0; 500]; [0; 0; 40]; [0; 0; 0]] [0; 0; 540]
           [(30000000007, [30000000007; 0; 0]); (90, [50; 40; 0])] [] [(0, 0); (1, 1)]%nat [2%nat].
Definition evm_blk : list (unit * list op) :=
  [(tt, [ConvERC20ToCoin false 0 1 0 25000000003; ConvCosmosToERC20 false 0 1 2 120; ConvCoinToERC20 false 1 0 0 1]%nat)].

Example evmutil_nonvacuous :
  env_wf evm_e0 /\ m_Inv (evmutil_M evm_e0) evm_s0 /\ good_blocks (evmutil_M evm_e0) evm_s0 evm_blk /\
  match run_blocksG (evmutil_M evm_e0) evm_s0 evm_blk with
  | Some s => reg s 2%nat = Some 2%nat /\ (etot (erc s 2), bal s 2 2, ebal (erc s 2) 1)%nat = (120, 120, 120)
  | None => False
  end.
Proof.
  split; [|split; [|split]].
  - split; [reflexivity|]. split; [|cbn; lia]. intros c c' Hc Hc' H. cbn in Hc, Hc'.
    destruct c as [|[|c]], c' as [|[|c']]; try lia; cbn in H; try reflexivity; discriminate.
  - unfold evmutil_M, m_Inv, Inv. split; [cbn; lia|]. split; [intros d c H; discriminate|].
    split; [intros d d' c H; discriminate|]. split.
    { intros d. cbn. destruct d as [|[|[|[|d]]]]; reflexivity. }
    split.
    { intros c Hc _. cbn in Hc. destruct c as [|[|c]]; [vm_compute; discriminate|vm_compute; discriminate|lia]. }
    split.
    { intros c Hc _ a. cbn in Hc. destruct c as [|[|c]]; [| |lia]; destruct a as [|a]; reflexivity. }
    split.
    { intros c Hc Hk. cbn in Hc. destruct c as [|[|c]]; [discriminate Hk|discriminate Hk|lia]. }
    repeat constructor; cbn; lia.
  - unfold evm_blk. cbn [good_blocks fst snd]. split; [exact I|]. split; [|intros; exact I].
    intros s1 _. cbn [good_txs].
    repeat (split; [intros _ _ _; unfold evmutil_M, m_goodT, op_wf; cbn; repeat split; discriminate|]). exact I.
  - vm_compute. repeat split; reflexivity.
Qed.
Print Assumptions evmutil_M_ok.
