(* Lemmas and proofs about Model/Precisebank.v *)
From Kava Require Import Base.Prelude Model.Precisebank.

Local Open Scope Z_scope.

(** ** sums *)
Lemma sumN_upd_below f a v : forall k, (k <= a)%nat -> sumN k (upd f a v) = sumN k f.
Proof.
  induction k as [|k IHk]; intros Hk; cbn [sumN]; [reflexivity|].
  rewrite IHk by lia. unfold upd. destruct (Nat.eqb_spec k a); [lia|reflexivity].
Qed.

Lemma sumN_upd n f a v : (a < n)%nat -> sumN n (upd f a v) = sumN n f - f a + v.
Proof.
  induction n as [|n IH]; intros H; [lia|].
  cbn [sumN]. unfold upd at 2.
  destruct (Nat.eqb_spec n a) as [->|Hne].
  - rewrite sumN_upd_below by lia. lia.
  - rewrite IH by lia. lia.
Qed.

Lemma sumN_nonneg n f : (forall a, 0 <= f a) -> 0 <= sumN n f.
Proof. intros H; induction n; cbn [sumN]; [lia|]. specialize (H n). lia. Qed.

Lemma sumN_ge1 n f a : (forall x, 0 <= f x) -> (a < n)%nat -> f a <= sumN n f.
Proof.
  intros H Ha. pose proof (sumN_upd n f a 0 Ha) as E.
  assert (0 <= sumN n (upd f a 0)).
  { apply sumN_nonneg. intros x. unfold upd. destruct (Nat.eqb x a); [lia|apply H]. }
  lia.
Qed.

Lemma sumN_ge2 n f a b : (forall x, 0 <= f x) -> (a < n)%nat -> (b < n)%nat -> a <> b ->
  f a + f b <= sumN n f.
Proof.
  intros H Ha Hb Hab.
  pose proof (sumN_upd n f a 0 Ha) as E.
  assert (G : upd f a 0 b <= sumN n (upd f a 0)).
  { apply sumN_ge1; [|exact Hb]. intros x. unfold upd. destruct (Nat.eqb x a); [lia|apply H]. }
  unfold upd at 1 in G. destruct (Nat.eqb_spec b a); [congruence|]. lia.
Qed.

(** ** x/bank primitives: exact deltas *)
Fixpoint total_of (d : nat) (c : coins) : Z :=
  match c with
  | [] => 0
  | (d', x) :: r => (if Nat.eqb d' d then x else 0) + total_of d r
  end.

Definition same_pb (s s' : state) : Prop :=
  frac s' = frac s /\ rem s' = rem s.

Lemma upd2_eq {A} (f : nat -> nat -> A) a d v x y :
  upd2 f a d v x y = if Nat.eqb x a && Nat.eqb y d then v else f x y.
Proof. reflexivity. Qed.

Lemma bsub_spec e c : forall s a s', bsub e s a c = Some s' ->
  frac s' = frac s /\ rem s' = rem s /\ sup s' = sup s /\
  forall x d, bal s' x d = bal s x d - (if Nat.eqb x a then total_of d c else 0).
Proof.
  induction c as [|[d0 x0] r IH]; intros s a s' H; cbn [bsub] in H.
  - inversion H; subst. repeat split; try reflexivity. intros x d. cbn. destruct (Nat.eqb x a); lia.
  - unfold bsub1 in H.
    destruct ((lock e a d0 <=? bal s a d0) && (x0 <=? bal s a d0 - lock e a d0)); [|discriminate].
    apply IH in H. destruct H as (Hf & Hr & Hs & Hb). cbn in Hf, Hr, Hs.
    repeat split; try assumption.
    intros x d. rewrite Hb. cbn [set_bal bal total_of]. rewrite upd2_eq.
    destruct (Nat.eqb_spec x a) as [->|]; cbn [andb].
    + destruct (Nat.eqb_spec d d0) as [->|].
      * rewrite Nat.eqb_refl. lia.
      * destruct (Nat.eqb_spec d0 d); [congruence|]. lia.
    + lia.
Qed.

Lemma badd_spec c : forall s a,
  frac (badd s a c) = frac s /\ rem (badd s a c) = rem s /\ sup (badd s a c) = sup s /\
  forall x d, bal (badd s a c) x d = bal s x d + (if Nat.eqb x a then total_of d c else 0).
Proof.
  induction c as [|[d0 x0] r IH]; intros s a; cbn [badd].
  - repeat split. intros x d. cbn. destruct (Nat.eqb x a); lia.
  - destruct (IH (badd1 s a d0 x0) a) as (Hf & Hr & Hs & Hb).
    repeat split; try assumption.
    intros x d. rewrite Hb. unfold badd1. cbn [set_bal bal total_of]. rewrite upd2_eq.
    destruct (Nat.eqb_spec x a) as [->|]; cbn [andb].
    + destruct (Nat.eqb_spec d d0) as [->|].
      * rewrite Nat.eqb_refl. lia.
      * destruct (Nat.eqb_spec d0 d); [congruence|]. lia.
    + lia.
Qed.

Lemma bsend_spec e s f t c s' : bsend e s f t c = Some s' ->
  frac s' = frac s /\ rem s' = rem s /\ sup s' = sup s /\
  forall x d, bal s' x d = bal s x d - (if Nat.eqb x f then total_of d c else 0)
                                      + (if Nat.eqb x t then total_of d c else 0).
Proof.
  unfold bsend. destruct (bsub e s f c) as [s1|] eqn:E; [|discriminate].
  intros H; inversion H; subst; clear H.
  apply bsub_spec in E. destruct E as (Hf & Hr & Hs & Hb).
  destruct (badd_spec c s1 t) as (Hf' & Hr' & Hs' & Hb').
  repeat split; try congruence.
  intros x d. rewrite Hb', Hb. reflexivity.
Qed.

Lemma sup_add_spec c sg : forall s,
  frac (sup_add s c sg) = frac s /\ rem (sup_add s c sg) = rem s /\ bal (sup_add s c sg) = bal s /\
  forall d, sup (sup_add s c sg) d = sup s d + sg * total_of d c.
Proof.
  induction c as [|[d0 x0] r IH]; intros s; cbn [sup_add].
  - repeat split. intros d. cbn. lia.
  - destruct (IH (set_sup s d0 (sup s d0 + sg * x0))) as (Hf & Hr & Hb & Hs).
    repeat split; try assumption.
    intros d. rewrite Hs. cbn [set_sup sup total_of]. unfold upd.
    destruct (Nat.eqb_spec d d0) as [->|].
    + rewrite Nat.eqb_refl. lia.
    + destruct (Nat.eqb_spec d0 d); [congruence|]. lia.
Qed.

Lemma bmint_spec s m c :
  frac (bmint s m c) = frac s /\ rem (bmint s m c) = rem s /\
  (forall x d, bal (bmint s m c) x d = bal s x d + (if Nat.eqb x m then total_of d c else 0)) /\
  forall d, sup (bmint s m c) d = sup s d + total_of d c.
Proof.
  unfold bmint.
  destruct (sup_add_spec c 1 (badd s m c)) as (Hf & Hr & Hb & Hs).
  destruct (badd_spec c s m) as (Hf' & Hr' & Hs' & Hb').
  repeat split; try congruence.
  - intros x d. rewrite Hb. apply Hb'.
  - intros d. rewrite Hs, Hs'. lia.
Qed.

Lemma bburn_spec e s m c s' : bburn e s m c = Some s' ->
  frac s' = frac s /\ rem s' = rem s /\
  (forall x d, bal s' x d = bal s x d - (if Nat.eqb x m then total_of d c else 0)) /\
  forall d, sup s' d = sup s d - total_of d c.
Proof.
  unfold bburn. destruct (bsub e s m c) as [s1|] eqn:E; [|discriminate].
  intros H; inversion H; subst; clear H.
  apply bsub_spec in E. destruct E as (Hf & Hr & Hs & Hb).
  destruct (sup_add_spec c (-1) s1) as (Hf' & Hr' & Hb' & Hs').
  repeat split; try congruence.
  - intros x d. rewrite Hb'. apply Hb.
  - intros d. rewrite Hs', Hs. lia.
Qed.

Lemma without_cons d d0 x0 r :
  without d ((d0, x0) :: r) = if Nat.eqb d0 d then without d r else (d0, x0) :: without d r.
Proof. unfold without. cbn [filter fst]. destruct (Nat.eqb d0 d); reflexivity. Qed.

Lemma total_of_without_same d c : total_of d (without d c) = 0.
Proof.
  induction c as [|[d0 x0] r IH]; [reflexivity|].
  rewrite without_cons. destruct (Nat.eqb_spec d0 d) as [|Hne]; [exact IH|].
  cbn [total_of]. destruct (Nat.eqb_spec d0 d); [congruence|]. rewrite IH. reflexivity.
Qed.

Lemma total_of_without_other d d' c : d <> d' -> total_of d (without d' c) = total_of d c.
Proof.
  intros Hne. induction c as [|[d0 x0] r IH]; [reflexivity|].
  rewrite without_cons. cbn [total_of]. destruct (Nat.eqb_spec d0 d') as [->|].
  - destruct (Nat.eqb_spec d' d); [congruence|]. rewrite IH. lia.
  - cbn [total_of]. rewrite IH. reflexivity.
Qed.

(** ** The module invariant *)
Definition env_wf (e : env) : Prop :=
  (reserve e < nacc e)%nat /\ lock e (reserve e) dU = 0.

Definition Inv (e : env) (s : state) : Prop :=
  (forall a, 0 <= frac s a < CF) /\
  0 <= rem s < CF /\
  bal s (reserve e) dU * CF = sumN (nacc e) (frac s) + rem s /\
  sup s dA = 0 /\
  frac s (reserve e) = 0.

Lemma inv_b_sound e s : inv_b e s = true -> (forall a, (nacc e <= a)%nat -> frac s a = 0) -> Inv e s.
Proof.
  unfold inv_b, Inv. intros H Hout.
  repeat (apply andb_true_iff in H; destruct H as [H ?]).
  repeat split; try lia.
  - destruct (Nat.lt_ge_cases a (nacc e)) as [Hlt|Hge].
    + rewrite forallb_forall in H. specialize (H a). rewrite in_seq in H.
      specialize (H ltac:(lia)). lia.
    + rewrite (Hout a Hge). lia.
  - destruct (Nat.lt_ge_cases a (nacc e)) as [Hlt|Hge].
    + rewrite forallb_forall in H. specialize (H a). rewrite in_seq in H.
      specialize (H ltac:(lia)). lia.
    + rewrite (Hout a Hge). unfold CF. lia.
Qed.

Ltac inv_ok H := injection H as <-.

Lemma CF_pos : 0 < CF. Proof. unfold CF; lia. Qed.

Lemma mod_CF x : 0 <= x mod CF < CF.
Proof. apply Z.mod_pos_bound, CF_pos. Qed.

Lemma div_mod_CF x : x = x / CF * CF + x mod CF.
Proof. pose proof (Z.div_mod x CF). unfold CF in *. lia. Qed.

(** *** sendExtendedCoins *)
Lemma send_ext_spec e s f t x s' :
  env_wf e -> Inv e s -> (f < nacc e)%nat -> (t < nacc e)%nat ->
  f <> reserve e -> t <> reserve e -> 0 < x ->
  send_ext e s f t x = Ok s' tt ->
  Inv e s' /\ rem s' = rem s /\ sup s' = sup s /\
  (forall a, xbal s' a = xbal s a - (if Nat.eqb a f then x else 0) + (if Nat.eqb a t then x else 0)
             \/ a = reserve e) /\
  (forall a d, d <> dU -> bal s' a d = bal s a d).
Proof.
  intros (Hr1 & Hr2) HInv Hf Ht Hfr' Htr' Hx.
  pose proof HInv as (Hfr & Hrem & Hres & Hsa & Hfres).
  unfold send_ext.
  destruct (Nat.eqb_spec f t) as [->|Hft].
  { destruct (x <=? spendable_ext e s t); intros H; [inv_ok H|discriminate].
    split; [exact HInv|]. split; [reflexivity|]. split; [reflexivity|]. split; [|reflexivity].
    intros a. left. destruct (Nat.eqb a t); lia. }
  set (fa := x mod CF). set (ia := x / CF).
  pose proof (mod_CF x) as Hfa. fold fa in Hfa.
  pose proof (div_mod_CF x) as Hdm. fold fa ia in Hdm.
  assert (Hia : 0 <= ia) by (apply Z.div_pos; [lia|apply CF_pos]).
  set (borrow := frac s f - fa <? 0).
  set (carry := CF <=? frac s t + fa).
  set (ia' := if borrow && carry then ia + 1 else ia).
  destruct (if 0 <? ia' then bsend e s f t [(dU, ia')] else Some s) as [s1|] eqn:E1; [|discriminate].
  destruct (if borrow && negb carry then bsend e s1 f (reserve e) [(dU, 1)] else Some s1) as [s2|] eqn:E2; [|discriminate].
  destruct (if negb borrow && carry then bsend e s2 (reserve e) t [(dU, 1)] else Some s2) as [s3|] eqn:E3; [|discriminate].
  intros H; inv_ok H.
  (* facts about s1 *)
  assert (A1 : frac s1 = frac s /\ rem s1 = rem s /\ sup s1 = sup s /\
               forall a d, bal s1 a d = bal s a d
                 - (if Nat.eqb a f then (if Nat.eqb d dU then (if 0 <? ia' then ia' else 0) else 0) else 0)
                 + (if Nat.eqb a t then (if Nat.eqb d dU then (if 0 <? ia' then ia' else 0) else 0) else 0)).
  { destruct (0 <? ia').
    - apply bsend_spec in E1. destruct E1 as (? & ? & ? & Hb). repeat split; auto.
      intros a d. rewrite Hb. cbn [total_of]. rewrite (Nat.eqb_sym dU d).
      destruct (Nat.eqb a f), (Nat.eqb a t), (Nat.eqb d dU); lia.
    - inv_ok E1. repeat split; auto. intros a d.
      destruct (Nat.eqb a f), (Nat.eqb a t), (Nat.eqb d dU); lia. }
  destruct A1 as (F1 & R1 & S1 & B1).
  assert (A2 : frac s2 = frac s1 /\ rem s2 = rem s1 /\ sup s2 = sup s1 /\
               forall a d, bal s2 a d = bal s1 a d
                 - (if Nat.eqb a f then (if Nat.eqb d dU then (if borrow && negb carry then 1 else 0) else 0) else 0)
                 + (if Nat.eqb a (reserve e) then (if Nat.eqb d dU then (if borrow && negb carry then 1 else 0) else 0) else 0)).
  { destruct (borrow && negb carry).
    - apply bsend_spec in E2. destruct E2 as (? & ? & ? & Hb). repeat split; auto.
      intros a d. rewrite Hb. cbn [total_of]. rewrite (Nat.eqb_sym dU d).
      destruct (Nat.eqb a f), (Nat.eqb a (reserve e)), (Nat.eqb d dU); lia.
    - inv_ok E2. repeat split; auto. intros a d.
      destruct (Nat.eqb a f), (Nat.eqb a (reserve e)), (Nat.eqb d dU); lia. }
  destruct A2 as (F2 & R2 & S2 & B2).
  assert (A3 : frac s3 = frac s2 /\ rem s3 = rem s2 /\ sup s3 = sup s2 /\
               forall a d, bal s3 a d = bal s2 a d
                 - (if Nat.eqb a (reserve e) then (if Nat.eqb d dU then (if negb borrow && carry then 1 else 0) else 0) else 0)
                 + (if Nat.eqb a t then (if Nat.eqb d dU then (if negb borrow && carry then 1 else 0) else 0) else 0)).
  { destruct (negb borrow && carry).
    - apply bsend_spec in E3. destruct E3 as (? & ? & ? & Hb). repeat split; auto.
      intros a d. rewrite Hb. cbn [total_of]. rewrite (Nat.eqb_sym dU d).
      destruct (Nat.eqb a (reserve e)), (Nat.eqb a t), (Nat.eqb d dU); lia.
    - inv_ok E3. repeat split; auto. intros a d.
      destruct (Nat.eqb a (reserve e)), (Nat.eqb a t), (Nat.eqb d dU); lia. }
  destruct A3 as (F3 & R3 & S3 & B3).
  pose proof (Hfr f) as Hff. pose proof (Hfr t) as Hft'.
  assert (Hsum : sumN (nacc e)
            (upd (upd (frac s3) f (if borrow then frac s f - fa + CF else frac s f - fa)) t
                 (if carry then frac s t + fa - CF else frac s t + fa))
          = sumN (nacc e) (frac s) - frac s f + (if borrow then frac s f - fa + CF else frac s f - fa)
            - frac s t + (if carry then frac s t + fa - CF else frac s t + fa)).
  { rewrite sumN_upd by exact Ht. rewrite sumN_upd by exact Hf.
    rewrite F3, F2, F1. unfold upd at 1.
    destruct (Nat.eqb_spec t f); [congruence|]. lia. }
  assert (Hbr : bal s3 (reserve e) dU = bal s (reserve e) dU
                + (if borrow && negb carry then 1 else 0) - (if negb borrow && carry then 1 else 0)).
  { rewrite B3, B2, B1. rewrite !Nat.eqb_refl.
    destruct (Nat.eqb_spec (reserve e) f); [congruence|].
    destruct (Nat.eqb_spec (reserve e) t); [congruence|].
    destruct (borrow && negb carry), (negb borrow && carry); lia. }
  refine (conj (conj _ (conj _ (conj _ (conj _ _)))) (conj _ (conj _ (conj _ _)))).
  - (* frac range *)
    intros a. cbn [set_frac frac]. unfold upd.
    destruct (Nat.eqb a t).
    + unfold carry. destruct (Z.leb_spec CF (frac s t + fa)); lia.
    + destruct (Nat.eqb a f).
      * unfold borrow. destruct (Z.ltb_spec (frac s f - fa) 0); lia.
      * rewrite F3, F2, F1. apply Hfr.
  - cbn [set_frac rem]. rewrite R3, R2, R1. lia.
  - cbn [set_frac frac bal rem]. rewrite Hsum, Hbr, R3, R2, R1.
    unfold borrow, carry.
    destruct (Z.ltb_spec (frac s f - fa) 0), (Z.leb_spec CF (frac s t + fa)); cbn [andb negb]; lia.
  - cbn [set_frac sup]. rewrite S3, S2, S1. exact Hsa.
  - cbn [set_frac frac]. unfold upd.
    destruct (Nat.eqb_spec (reserve e) t); [congruence|].
    destruct (Nat.eqb_spec (reserve e) f); [congruence|].
    rewrite F3, F2, F1. exact Hfres.
  - cbn [set_frac rem]. rewrite R3, R2, R1. reflexivity.
  - cbn [set_frac sup]. rewrite S3, S2, S1. reflexivity.
  - intros a. destruct (Nat.eqb_spec a (reserve e)) as [->|Har]; [right; reflexivity|left].
    unfold xbal. cbn [set_frac frac bal]. rewrite B3, B2, B1. rewrite !Nat.eqb_refl.
    destruct (Nat.eqb_spec a (reserve e)); [congruence|].
    unfold upd. rewrite F3, F2, F1.
    unfold ia'. unfold borrow, carry in *.
    destruct (Nat.eqb_spec a t) as [->|]; destruct (Nat.eqb_spec t f) as [Htf|];
      try congruence.
    + destruct (Z.ltb_spec (frac s f - fa) 0), (Z.leb_spec CF (frac s t + fa)); cbn [andb negb];
        repeat match goal with |- context [0 <? ?z] => destruct (Z.ltb_spec 0 z) end; nia.
    + destruct (Nat.eqb_spec a f) as [->|].
      * destruct (Z.ltb_spec (frac s f - fa) 0), (Z.leb_spec CF (frac s t + fa)); cbn [andb negb];
          repeat match goal with |- context [0 <? ?z] => destruct (Z.ltb_spec 0 z) end; nia.
      * lia.
  - intros a d Hd. cbn [set_frac bal]. rewrite B3, B2, B1.
    destruct (Nat.eqb_spec d dU); [congruence|].
    destruct (Nat.eqb a f), (Nat.eqb a t), (Nat.eqb a (reserve e)); lia.
Qed.

(* the carry of case 3 can always be paid: the Panic branch is unreachable *)
Lemma send_ext_no_panic e s f t x :
  env_wf e -> Inv e s -> (f < nacc e)%nat -> (t < nacc e)%nat ->
  f <> reserve e -> t <> reserve e ->
  send_ext e s f t x <> Panic.
Proof.
  intros (Hr1 & Hr2) (Hfr & Hrem & Hres & Hsa & Hfres) Hf Ht Hfr' Htr'.
  unfold send_ext.
  destruct (Nat.eqb_spec f t) as [->|Hft].
  { destruct (x <=? spendable_ext e s t); discriminate. }
  set (fa := x mod CF). set (ia := x / CF).
  pose proof (mod_CF x) as Hfa. fold fa in Hfa.
  set (borrow := frac s f - fa <? 0).
  set (carry := CF <=? frac s t + fa).
  set (ia' := if borrow && carry then ia + 1 else ia).
  destruct (if 0 <? ia' then bsend e s f t [(dU, ia')] else Some s) as [s1|] eqn:E1; [|discriminate].
  destruct (if borrow && negb carry then bsend e s1 f (reserve e) [(dU, 1)] else Some s1) as [s2|] eqn:E2; [|discriminate].
  destruct (negb borrow && carry) eqn:Ebc.
  2:{ discriminate. }
  apply andb_true_iff in Ebc. destruct Ebc as [Eb Ec].
  apply negb_true_iff in Eb. rewrite Eb in E2. cbn [andb] in E2. inv_ok E2.
  (* reserve balance after the integer transfer is unchanged and >= 1 *)
  assert (B1 : bal s1 (reserve e) dU = bal s (reserve e) dU /\ rem s1 = rem s /\ frac s1 = frac s).
  { destruct (0 <? ia').
    - apply bsend_spec in E1. destruct E1 as (? & ? & ? & Hb). repeat split; auto.
      rewrite Hb. destruct (Nat.eqb_spec (reserve e) f); [congruence|].
      destruct (Nat.eqb_spec (reserve e) t); [congruence|]. lia.
    - inv_ok E1. auto. }
  destruct B1 as (B1 & R1 & F1).
  assert (Hge : frac s f + frac s t <= sumN (nacc e) (frac s)).
  { apply sumN_ge2; auto. intros a. apply Hfr. }
  unfold borrow in Eb. unfold carry in Ec.
  apply Z.ltb_ge in Eb. apply Z.leb_le in Ec.
  assert (1 <= bal s (reserve e) dU) by (unfold CF in *; nia).
  unfold bsend, bsub, bsub1. rewrite B1, Hr2.
  destruct (Z.leb_spec 0 (bal s (reserve e) dU)); [|lia].
  destruct (Z.leb_spec 1 (bal s (reserve e) dU - 0)); [|lia].
  cbn. discriminate.
Qed.

(** *** mintExtendedCoin *)
Lemma bsend1_spec e s f t x s' : bsend e s f t [(dU, x)] = Some s' ->
  frac s' = frac s /\ rem s' = rem s /\ sup s' = sup s /\
  forall a d, bal s' a d = bal s a d
     - (if Nat.eqb a f then (if Nat.eqb d dU then x else 0) else 0)
     + (if Nat.eqb a t then (if Nat.eqb d dU then x else 0) else 0).
Proof.
  intros H. apply bsend_spec in H. destruct H as (? & ? & ? & Hb). repeat split; auto.
  intros a d. rewrite Hb. cbn [total_of]. rewrite (Nat.eqb_sym dU d).
  destruct (Nat.eqb a f), (Nat.eqb a t), (Nat.eqb d dU); lia.
Qed.

Lemma bmint1_spec s m x :
  frac (bmint s m [(dU, x)]) = frac s /\ rem (bmint s m [(dU, x)]) = rem s /\
  (forall a d, bal (bmint s m [(dU, x)]) a d = bal s a d + (if Nat.eqb a m then (if Nat.eqb d dU then x else 0) else 0)) /\
  forall d, sup (bmint s m [(dU, x)]) d = sup s d + (if Nat.eqb d dU then x else 0).
Proof.
  destruct (bmint_spec s m [(dU, x)]) as (? & ? & Hb & Hs). repeat split; auto.
  - intros a d. rewrite Hb. cbn [total_of]. rewrite (Nat.eqb_sym dU d).
    destruct (Nat.eqb a m), (Nat.eqb d dU); lia.
  - intros d. rewrite Hs. cbn [total_of]. rewrite (Nat.eqb_sym dU d). destruct (Nat.eqb d dU); lia.
Qed.

Lemma bburn1_spec e s m x s' : bburn e s m [(dU, x)] = Some s' ->
  frac s' = frac s /\ rem s' = rem s /\
  (forall a d, bal s' a d = bal s a d - (if Nat.eqb a m then (if Nat.eqb d dU then x else 0) else 0)) /\
  forall d, sup s' d = sup s d - (if Nat.eqb d dU then x else 0).
Proof.
  intros H. apply bburn_spec in H. destruct H as (? & ? & Hb & Hs). repeat split; auto.
  - intros a d. rewrite Hb. cbn [total_of]. rewrite (Nat.eqb_sym dU d).
    destruct (Nat.eqb a m), (Nat.eqb d dU); lia.
  - intros d. rewrite Hs. cbn [total_of]. rewrite (Nat.eqb_sym dU d). destruct (Nat.eqb d dU); lia.
Qed.

Lemma dA_ne_dU : Nat.eqb dA dU = false. Proof. reflexivity. Qed.

Lemma mint_ext_spec e s m x s' :
  env_wf e -> Inv e s -> (m < nacc e)%nat -> m <> reserve e -> 0 < x ->
  mint_ext e s m x = Ok s' tt ->
  Inv e s' /\
  xbal s' m = xbal s m + x /\
  (forall a, a <> m -> a <> reserve e -> xbal s' a = xbal s a) /\
  (forall a d, d <> dU -> bal s' a d = bal s a d) /\
  (forall d, d <> dU -> sup s' d = sup s d) /\
  (* extended total supply view: integer supply * CF - remainder grows by x *)
  sup s' dU * CF - rem s' = sup s dU * CF - rem s + x.
Proof.
  intros (Hr1 & Hr2) HInv Hm Hmr Hx.
  pose proof HInv as (Hfr & Hrem & Hres & Hsa & Hfres).
  unfold mint_ext.
  set (fm := x mod CF). set (im := x / CF).
  pose proof (mod_CF x) as Hfm. fold fm in Hfm.
  pose proof (div_mod_CF x) as Hdm. fold fm im in Hdm.
  assert (Him : 0 <= im) by (apply Z.div_pos; [lia|apply CF_pos]).
  pose proof (Hfr m) as Hfrm.
  set (c1 := CF <=? frac s m + fm).
  set (c2 := 0 <=? rem s - fm).
  set (c3 := rem s - fm <? 0).
  set (c4 := rem s <? fm).
  destruct (if c1 && c2 then bsend e s (reserve e) m [(dU, 1)] else Some s) as [s1|] eqn:E1; [|discriminate].
  intros H. inv_ok H.
  assert (A1 : frac s1 = frac s /\ rem s1 = rem s /\ sup s1 = sup s /\
     forall a d, bal s1 a d = bal s a d
     - (if Nat.eqb a (reserve e) then (if Nat.eqb d dU then (if c1 && c2 then 1 else 0) else 0) else 0)
     + (if Nat.eqb a m then (if Nat.eqb d dU then (if c1 && c2 then 1 else 0) else 0) else 0)).
  { destruct (c1 && c2).
    - apply bsend1_spec in E1. exact E1.
    - inv_ok E1. repeat split; auto. intros a d.
      destruct (Nat.eqb a (reserve e)), (Nat.eqb a m), (Nat.eqb d dU); lia. }
  destruct A1 as (F1 & R1 & S1 & B1).
  set (im' := if c1 && c3 then im + 1 else im) in *.
  set (s2 := if 0 <? im' then bmint s1 m [(dU, im')] else s1) in *.
  assert (A2 : frac s2 = frac s1 /\ rem s2 = rem s1 /\
     (forall a d, bal s2 a d = bal s1 a d + (if Nat.eqb a m then (if Nat.eqb d dU then im' else 0) else 0)) /\
     forall d, sup s2 d = sup s1 d + (if Nat.eqb d dU then im' else 0)).
  { unfold s2. destruct (Z.ltb_spec 0 im').
    - apply bmint1_spec.
    - assert (im' = 0) by (unfold im' in *; destruct (c1 && c3); lia).
      repeat split; auto.
      + intros a d. destruct (Nat.eqb a m), (Nat.eqb d dU); lia.
      + intros d. destruct (Nat.eqb d dU); lia. }
  destruct A2 as (F2 & R2 & B2 & S2).
  set (nf' := if c1 then frac s m + fm - CF else frac s m + fm) in *.
  set (s3 := set_frac s2 m nf') in *.
  set (s4 := if c4 && negb c1 then bmint s3 (reserve e) [(dU, 1)] else s3) in *.
  assert (A4 : frac s4 = frac s3 /\ rem s4 = rem s3 /\
     (forall a d, bal s4 a d = bal s3 a d + (if Nat.eqb a (reserve e) then (if Nat.eqb d dU then (if c4 && negb c1 then 1 else 0) else 0) else 0)) /\
     forall d, sup s4 d = sup s3 d + (if Nat.eqb d dU then (if c4 && negb c1 then 1 else 0) else 0)).
  { unfold s4. destruct (c4 && negb c1).
    - apply bmint1_spec.
    - repeat split; auto.
      + intros a d. destruct (Nat.eqb a (reserve e)), (Nat.eqb d dU); lia.
      + intros d. destruct (Nat.eqb d dU); lia. }
  destruct A4 as (F4 & R4 & B4 & S4).
  assert (Hsum : sumN (nacc e) (frac s4) = sumN (nacc e) (frac s) - frac s m + nf').
  { rewrite F4. unfold s3. cbn [set_frac frac]. rewrite sumN_upd by exact Hm. rewrite F2, F1. reflexivity. }
  assert (Hmr' : Nat.eqb (reserve e) m = false) by (apply Nat.eqb_neq; congruence).
  assert (Hmr'' : Nat.eqb m (reserve e) = false) by (apply Nat.eqb_neq; congruence).
  assert (Hbr : bal s4 (reserve e) dU = bal s (reserve e) dU - (if c1 && c2 then 1 else 0) + (if c4 && negb c1 then 1 else 0)).
  { rewrite B4. unfold s3. cbn [set_frac bal]. rewrite B2, B1. rewrite !Nat.eqb_refl, Hmr'. lia. }
  assert (Hbm : bal s4 m dU = bal s m dU + (if c1 && c2 then 1 else 0) + im').
  { rewrite B4. unfold s3. cbn [set_frac bal]. rewrite B2, B1. rewrite !Nat.eqb_refl, Hmr''. lia. }
  assert (Hsu : sup s4 dU = sup s dU + im' + (if c4 && negb c1 then 1 else 0)).
  { rewrite S4. unfold s3. cbn [set_frac sup]. rewrite S2, S1. rewrite !Nat.eqb_refl. lia. }
  subst s4 s3 s2. subst nf' im'. subst c1 c2 c3 c4.
  refine (conj (conj _ (conj _ (conj _ (conj _ _)))) (conj _ (conj _ (conj _ (conj _ _))))).
  - intros a. cbn [set_rem frac]. rewrite F4. cbn [set_frac frac]. unfold upd.
    destruct (Nat.eqb a m).
    + destruct (Z.leb_spec CF (frac s m + fm)); lia.
    + rewrite F2, F1. apply Hfr.
  - cbn [set_rem rem]. destruct (Z.ltb_spec (rem s - fm) 0); lia.
  - cbn [set_rem rem bal frac]. rewrite Hsum, Hbr.
    destruct (Z.leb_spec CF (frac s m + fm)), (Z.leb_spec 0 (rem s - fm)),
             (Z.ltb_spec (rem s - fm) 0), (Z.ltb_spec (rem s) fm); cbn [andb negb]; lia.
  - cbn [set_rem sup]. rewrite S4. cbn [set_frac sup]. rewrite S2, S1.
    rewrite !dA_ne_dU. lia.
  - cbn [set_rem frac]. rewrite F4. cbn [set_frac frac]. unfold upd. rewrite Hmr'.
    rewrite F2, F1. exact Hfres.
  - unfold xbal. cbn [set_rem bal frac]. rewrite Hbm, F4. cbn [set_frac frac].
    unfold upd. rewrite Nat.eqb_refl.
    destruct (Z.leb_spec CF (frac s m + fm)), (Z.leb_spec 0 (rem s - fm)),
             (Z.ltb_spec (rem s - fm) 0); cbn [andb negb]; lia.
  - intros a Ham Har. unfold xbal. cbn [set_rem bal frac]. rewrite B4, F4.
    cbn [set_frac frac bal]. rewrite B2, B1. unfold upd.
    destruct (Nat.eqb_spec a m); [congruence|].
    destruct (Nat.eqb_spec a (reserve e)); [congruence|].
    rewrite F2, F1. lia.
  - intros a d Hd. cbn [set_rem bal]. rewrite B4. cbn [set_frac bal]. rewrite B2, B1.
    destruct (Nat.eqb_spec d dU); [congruence|].
    destruct (Nat.eqb a (reserve e)), (Nat.eqb a m); lia.
  - intros d Hd. cbn [set_rem sup]. rewrite S4. cbn [set_frac sup]. rewrite S2, S1.
    destruct (Nat.eqb_spec d dU); [congruence|]. lia.
  - cbn [set_rem sup rem]. rewrite Hsu.
    destruct (Z.leb_spec CF (frac s m + fm)), (Z.leb_spec 0 (rem s - fm)),
             (Z.ltb_spec (rem s - fm) 0), (Z.ltb_spec (rem s) fm); cbn [andb negb]; lia.
Qed.

(** *** burnExtendedCoin *)
Lemma burn_ext_spec e s m x s' :
  env_wf e -> Inv e s -> (m < nacc e)%nat -> m <> reserve e -> 0 < x ->
  burn_ext e s m x = Ok s' tt ->
  Inv e s' /\
  xbal s' m = xbal s m - x /\
  (forall a, a <> m -> a <> reserve e -> xbal s' a = xbal s a) /\
  (forall a d, d <> dU -> bal s' a d = bal s a d) /\
  (forall d, d <> dU -> sup s' d = sup s d) /\
  sup s' dU * CF - rem s' = sup s dU * CF - rem s - x.
Proof.
  intros (Hr1 & Hr2) HInv Hm Hmr Hx.
  pose proof HInv as (Hfr & Hrem & Hres & Hsa & Hfres).
  unfold burn_ext.
  set (fb := x mod CF). set (ib := x / CF).
  pose proof (mod_CF x) as Hfb. fold fb in Hfb.
  pose proof (div_mod_CF x) as Hdm. fold fb ib in Hdm.
  assert (Hib : 0 <= ib) by (apply Z.div_pos; [lia|apply CF_pos]).
  pose proof (Hfr m) as Hfrm.
  set (borrow := frac s m - fb <? 0).
  set (over := CF <=? rem s + fb).
  set (ib' := if borrow && over then ib + 1 else ib).
  destruct (if borrow && negb over then bsend e s m (reserve e) [(dU, 1)] else Some s) as [s1|] eqn:E1; [|discriminate].
  destruct (if negb borrow && over then bburn e s1 (reserve e) [(dU, 1)] else Some s1) as [s2|] eqn:E2; [|discriminate].
  destruct (if negb (ib' =? 0) then bburn e s2 m [(dU, ib')] else Some s2) as [s3|] eqn:E3; [|discriminate].
  intros H. inv_ok H.
  assert (A1 : frac s1 = frac s /\ rem s1 = rem s /\ sup s1 = sup s /\
     forall a d, bal s1 a d = bal s a d
     - (if Nat.eqb a m then (if Nat.eqb d dU then (if borrow && negb over then 1 else 0) else 0) else 0)
     + (if Nat.eqb a (reserve e) then (if Nat.eqb d dU then (if borrow && negb over then 1 else 0) else 0) else 0)).
  { destruct (borrow && negb over).
    - apply bsend1_spec in E1. exact E1.
    - inv_ok E1. repeat split; auto. intros a d.
      destruct (Nat.eqb a (reserve e)), (Nat.eqb a m), (Nat.eqb d dU); lia. }
  destruct A1 as (F1 & R1 & S1 & B1).
  assert (A2 : frac s2 = frac s1 /\ rem s2 = rem s1 /\
     (forall a d, bal s2 a d = bal s1 a d - (if Nat.eqb a (reserve e) then (if Nat.eqb d dU then (if negb borrow && over then 1 else 0) else 0) else 0)) /\
     forall d, sup s2 d = sup s1 d - (if Nat.eqb d dU then (if negb borrow && over then 1 else 0) else 0)).
  { destruct (negb borrow && over).
    - apply bburn1_spec in E2. exact E2.
    - inv_ok E2. repeat split; auto.
      + intros a d. destruct (Nat.eqb a (reserve e)), (Nat.eqb d dU); lia.
      + intros d. destruct (Nat.eqb d dU); lia. }
  destruct A2 as (F2 & R2 & B2 & S2).
  assert (A3 : frac s3 = frac s2 /\ rem s3 = rem s2 /\
     (forall a d, bal s3 a d = bal s2 a d - (if Nat.eqb a m then (if Nat.eqb d dU then ib' else 0) else 0)) /\
     forall d, sup s3 d = sup s2 d - (if Nat.eqb d dU then ib' else 0)).
  { destruct (Z.eqb_spec ib' 0) as [Hz|Hz]; cbn [negb] in E3.
    - inv_ok E3. rewrite Hz. repeat split; auto.
      + intros a d. destruct (Nat.eqb a m), (Nat.eqb d dU); lia.
      + intros d. destruct (Nat.eqb d dU); lia.
    - apply bburn1_spec in E3. exact E3. }
  destruct A3 as (F3 & R3 & B3 & S3).
  assert (Hmr' : Nat.eqb (reserve e) m = false) by (apply Nat.eqb_neq; congruence).
  assert (Hmr'' : Nat.eqb m (reserve e) = false) by (apply Nat.eqb_neq; congruence).
  assert (Hsum : sumN (nacc e) (upd (frac s3) m (if borrow then frac s m - fb + CF else frac s m - fb))
                 = sumN (nacc e) (frac s) - frac s m + (if borrow then frac s m - fb + CF else frac s m - fb)).
  { rewrite sumN_upd by exact Hm. rewrite F3, F2, F1. reflexivity. }
  assert (Hbr : bal s3 (reserve e) dU = bal s (reserve e) dU + (if borrow && negb over then 1 else 0) - (if negb borrow && over then 1 else 0)).
  { rewrite B3, B2, B1. rewrite !Nat.eqb_refl, Hmr'. lia. }
  assert (Hbm : bal s3 m dU = bal s m dU - (if borrow && negb over then 1 else 0) - ib').
  { rewrite B3, B2, B1. rewrite !Nat.eqb_refl, Hmr''. lia. }
  assert (Hsu : sup s3 dU = sup s dU - (if negb borrow && over then 1 else 0) - ib').
  { rewrite S3, S2, S1. rewrite !Nat.eqb_refl. lia. }
  subst ib'. subst borrow over.
  refine (conj (conj _ (conj _ (conj _ (conj _ _)))) (conj _ (conj _ (conj _ (conj _ _))))).
  - intros a. cbn [set_rem set_frac frac]. unfold upd.
    destruct (Nat.eqb a m).
    + destruct (Z.ltb_spec (frac s m - fb) 0); lia.
    + rewrite F3, F2, F1. apply Hfr.
  - cbn [set_rem rem]. destruct (Z.leb_spec CF (rem s + fb)); lia.
  - cbn [set_rem set_frac rem bal frac]. rewrite Hsum, Hbr.
    destruct (Z.ltb_spec (frac s m - fb) 0), (Z.leb_spec CF (rem s + fb)); cbn [andb negb]; lia.
  - cbn [set_rem set_frac sup]. rewrite S3, S2, S1. rewrite !dA_ne_dU. lia.
  - cbn [set_rem set_frac frac]. unfold upd. rewrite Hmr'. rewrite F3, F2, F1. exact Hfres.
  - unfold xbal. cbn [set_rem set_frac bal frac]. rewrite Hbm. unfold upd. rewrite Nat.eqb_refl.
    destruct (Z.ltb_spec (frac s m - fb) 0), (Z.leb_spec CF (rem s + fb)); cbn [andb negb]; lia.
  - intros a Ham Har. unfold xbal. cbn [set_rem set_frac bal frac]. rewrite B3, B2, B1. unfold upd.
    destruct (Nat.eqb_spec a m); [congruence|].
    destruct (Nat.eqb_spec a (reserve e)); [congruence|].
    rewrite F3, F2, F1. lia.
  - intros a d Hd. cbn [set_rem set_frac bal]. rewrite B3, B2, B1.
    destruct (Nat.eqb_spec d dU); [congruence|].
    destruct (Nat.eqb a (reserve e)), (Nat.eqb a m); lia.
  - intros d Hd. cbn [set_rem set_frac sup]. rewrite S3, S2, S1.
    destruct (Nat.eqb_spec d dU); [congruence|]. lia.
  - cbn [set_rem set_frac sup rem]. rewrite Hsu.
    destruct (Z.ltb_spec (frac s m - fb) 0), (Z.leb_spec CF (rem s + fb)); cbn [andb negb]; lia.
Qed.

(** ** Operation level *)
Lemma Inv_transport e s s' :
  frac s' = frac s -> rem s' = rem s -> sup s' dA = sup s dA ->
  bal s' (reserve e) dU = bal s (reserve e) dU -> Inv e s -> Inv e s'.
Proof. unfold Inv. intros -> -> -> ->. exact (fun H => H). Qed.

Lemma amount_of_nonneg d c : forall lo, coins_valid_from lo c = true -> 0 <= amount_of d c.
Proof.
  induction c as [|[d0 x0] r IH]; intros lo H; cbn [amount_of]; [lia|].
  cbn [coins_valid_from] in H. apply andb_true_iff in H. destruct H as [H H2].
  apply andb_true_iff in H. destruct H as [H1 _]. apply Z.ltb_lt in H1.
  destruct (Nat.eqb d0 d); [lia|]. exact (IH _ H2).
Qed.

Definition ext_value (c : coins) : Z := total_of dU (without dA c) * CF + amount_of dA c.

Lemma send_coins_spec e s f t c s' :
  env_wf e -> Inv e s -> (f < nacc e)%nat -> (t < nacc e)%nat ->
  send_coins e s f t c = Ok s' tt ->
  f <> reserve e /\ t <> reserve e /\
  Inv e s' /\ rem s' = rem s /\
  (forall a, a <> reserve e ->
     xbal s' a = xbal s a - (if Nat.eqb a f then ext_value c else 0)
                         + (if Nat.eqb a t then ext_value c else 0)) /\
  (forall a d, d <> dU -> d <> dA ->
     bal s' a d = bal s a d - (if Nat.eqb a f then total_of d c else 0)
                            + (if Nat.eqb a t then total_of d c else 0)) /\
  (forall a, bal s' a dA = bal s a dA) /\
  sup s' = sup s.
Proof.
  intros Hwf HInv Hf Ht. unfold send_coins.
  destruct (Nat.eqb_spec f (reserve e)) as [|Hfr]; [discriminate|].
  destruct (Nat.eqb_spec t (reserve e)) as [|Htr]; [discriminate|]. cbn [orb].
  destruct (coins_valid c) eqn:Hval; cbn [negb]; [|discriminate].
  pose proof (amount_of_nonneg dA c None Hval) as Hnn.
  set (pass := without dA c).
  assert (P : forall s1, (match pass with [] => Some s | _ => bsend e s f t pass end) = Some s1 ->
     frac s1 = frac s /\ rem s1 = rem s /\ sup s1 = sup s /\
     forall x d, bal s1 x d = bal s x d - (if Nat.eqb x f then total_of d pass else 0)
                                        + (if Nat.eqb x t then total_of d pass else 0)).
  { intros s1 H. destruct pass eqn:Ep.
    - inv_ok H. repeat split; auto. intros x d. cbn. destruct (Nat.eqb x f), (Nat.eqb x t); lia.
    - rewrite <- Ep in *. apply bsend_spec in H. exact H. }
  destruct (match pass with [] => Some s | _ => bsend e s f t pass end) as [s1|] eqn:E1; [|discriminate].
  destruct (P s1 eq_refl) as (F1 & R1 & S1 & B1). clear P.
  assert (HfrE : Nat.eqb (reserve e) f = false) by (apply Nat.eqb_neq; congruence).
  assert (HtrE : Nat.eqb (reserve e) t = false) by (apply Nat.eqb_neq; congruence).
  assert (I1 : Inv e s1).
  { apply (Inv_transport e s s1); auto.
    - rewrite S1. reflexivity.
    - rewrite B1, HfrE, HtrE. lia. }
  assert (TA : total_of dA pass = 0) by apply total_of_without_same.
  assert (X1 : forall a, xbal s1 a = xbal s a - (if Nat.eqb a f then total_of dU pass * CF else 0)
                                           + (if Nat.eqb a t then total_of dU pass * CF else 0)).
  { intros a. unfold xbal. rewrite B1, F1. destruct (Nat.eqb a f), (Nat.eqb a t); lia. }
  destruct (Z.ltb_spec 0 (amount_of dA c)) as [Hpos|Hnp].
  - intros H. apply send_ext_spec in H; auto.
    destruct H as (I2 & R2 & S2 & X2 & B2).
    split; [exact Hfr|]. split; [exact Htr|].
    split; [exact I2|]. split; [congruence|].
    split; [|split; [|split]].
    + intros a Ha. destruct (X2 a) as [E|E]; [|congruence]. rewrite E, X1. unfold ext_value. fold pass.
      destruct (Nat.eqb a f), (Nat.eqb a t); lia.
    + intros a d Hd Hd'. rewrite B2 by exact Hd. rewrite B1. unfold pass.
      rewrite total_of_without_other by exact Hd'. reflexivity.
    + intros a. rewrite B2 by discriminate. rewrite B1, TA. destruct (Nat.eqb a f), (Nat.eqb a t); lia.
    + congruence.
  - intros H. inv_ok H.
    assert (amount_of dA c = 0 \/ amount_of dA c < 0) as Hz by lia.
    split; [exact Hfr|]. split; [exact Htr|].
    split; [exact I1|]. split; [exact R1|].
    split; [|split; [|split]].
    + intros a Ha. rewrite X1. unfold ext_value. fold pass.
      destruct Hz as [Hz|Hz]; [rewrite Hz; destruct (Nat.eqb a f), (Nat.eqb a t); lia|lia].
    + intros a d Hd Hd'. rewrite B1. unfold pass. rewrite total_of_without_other by exact Hd'. reflexivity.
    + intros a. rewrite B1, TA. destruct (Nat.eqb a f), (Nat.eqb a t); lia.
    + exact S1.
Qed.

Lemma mint_coins_spec e s m c s' :
  env_wf e -> Inv e s -> (m < nacc e)%nat ->
  mint_coins e s m c = Ok s' tt ->
  m <> reserve e /\ Inv e s' /\
  xbal s' m = xbal s m + ext_value c /\
  (forall a, a <> m -> a <> reserve e -> xbal s' a = xbal s a) /\
  (forall a d, d <> dU -> d <> dA ->
     bal s' a d = bal s a d + (if Nat.eqb a m then total_of d c else 0)) /\
  sup s' dU * CF - rem s' = sup s dU * CF - rem s + ext_value c.
Proof.
  intros Hwf HInv Hm. unfold mint_coins.
  destruct (Nat.eqb_spec m (reserve e)) as [|Hmr]; [discriminate|].
  destruct (is_module e m); cbn [negb]; [|discriminate].
  destruct (minter e m); cbn [negb]; [|discriminate].
  destruct (coins_valid c) eqn:Hval; cbn [negb]; [|discriminate].
  pose proof (amount_of_nonneg dA c None Hval) as Hnn.
  set (pass := without dA c).
  set (s1 := match pass with [] => s | _ => bmint s m pass end).
  assert (P : frac s1 = frac s /\ rem s1 = rem s /\
    (forall x d, bal s1 x d = bal s x d + (if Nat.eqb x m then total_of d pass else 0)) /\
    forall d, sup s1 d = sup s d + total_of d pass).
  { unfold s1. destruct pass eqn:Ep.
    - repeat split; auto. + intros x d. cbn. destruct (Nat.eqb x m); lia. + intros d. cbn. lia.
    - rewrite <- Ep. apply bmint_spec. }
  destruct P as (F1 & R1 & B1 & S1).
  assert (HmrE : Nat.eqb (reserve e) m = false) by (apply Nat.eqb_neq; congruence).
  assert (TA : total_of dA pass = 0) by apply total_of_without_same.
  assert (I1 : Inv e s1).
  { apply (Inv_transport e s s1); auto.
    - rewrite S1, TA. lia.
    - rewrite B1, HmrE. lia. }
  assert (X1 : forall a, xbal s1 a = xbal s a + (if Nat.eqb a m then total_of dU pass * CF else 0)).
  { intros a. unfold xbal. rewrite B1, F1. destruct (Nat.eqb a m); lia. }
  intros HS. split; [exact Hmr|].
  destruct (Z.ltb_spec 0 (amount_of dA c)) as [Hpos|Hnp].
  - apply mint_ext_spec in HS; auto.
    destruct HS as (I2 & Xm & Xo & B2 & S2 & T2).
    split; [exact I2|]. split; [|split; [|split]].
    + rewrite Xm, X1, Nat.eqb_refl. unfold ext_value. fold pass. lia.
    + intros a Ham Har. rewrite Xo by assumption. rewrite X1.
      destruct (Nat.eqb_spec a m); [congruence|]. lia.
    + intros a d Hd Hd'. rewrite B2 by exact Hd. rewrite B1. unfold pass.
      rewrite total_of_without_other by exact Hd'. reflexivity.
    + rewrite T2, S1, R1. unfold ext_value. fold pass. lia.
  - inv_ok HS. assert (Hz : amount_of dA c = 0) by lia.
    split; [exact I1|]. split; [|split; [|split]].
    + rewrite X1, Nat.eqb_refl. unfold ext_value. fold pass. lia.
    + intros a Ham Har. rewrite X1. destruct (Nat.eqb_spec a m); [congruence|]. lia.
    + intros a d Hd Hd'. rewrite B1. unfold pass. rewrite total_of_without_other by exact Hd'. reflexivity.
    + rewrite S1, R1. unfold ext_value. fold pass. lia.
Qed.

Lemma burn_coins_spec e s m c s' :
  env_wf e -> Inv e s -> (m < nacc e)%nat ->
  burn_coins e s m c = Ok s' tt ->
  m <> reserve e /\ Inv e s' /\
  xbal s' m = xbal s m - ext_value c /\
  (forall a, a <> m -> a <> reserve e -> xbal s' a = xbal s a) /\
  (forall a d, d <> dU -> d <> dA ->
     bal s' a d = bal s a d - (if Nat.eqb a m then total_of d c else 0)) /\
  sup s' dU * CF - rem s' = sup s dU * CF - rem s - ext_value c.
Proof.
  intros Hwf HInv Hm. unfold burn_coins.
  destruct (Nat.eqb_spec m (reserve e)) as [|Hmr]; [discriminate|].
  destruct (is_module e m); cbn [negb]; [|discriminate].
  destruct (burner e m); cbn [negb]; [|discriminate].
  destruct (coins_valid c) eqn:Hval; cbn [negb]; [|discriminate].
  pose proof (amount_of_nonneg dA c None Hval) as Hnn.
  set (pass := without dA c).
  assert (P : forall s1, (match pass with [] => Some s | _ => bburn e s m pass end) = Some s1 ->
    frac s1 = frac s /\ rem s1 = rem s /\
    (forall x d, bal s1 x d = bal s x d - (if Nat.eqb x m then total_of d pass else 0)) /\
    forall d, sup s1 d = sup s d - total_of d pass).
  { intros s1 H. destruct pass eqn:Ep.
    - inv_ok H. repeat split; auto. + intros x d. cbn. destruct (Nat.eqb x m); lia. + intros d. cbn. lia.
    - rewrite <- Ep in *. apply bburn_spec in H. exact H. }
  destruct (match pass with [] => Some s | _ => bburn e s m pass end) as [s1|] eqn:E1; [|discriminate].
  destruct (P s1 eq_refl) as (F1 & R1 & B1 & S1). clear P.
  assert (HmrE : Nat.eqb (reserve e) m = false) by (apply Nat.eqb_neq; congruence).
  assert (TA : total_of dA pass = 0) by apply total_of_without_same.
  assert (I1 : Inv e s1).
  { apply (Inv_transport e s s1); auto.
    - rewrite S1, TA. lia.
    - rewrite B1, HmrE. lia. }
  assert (X1 : forall a, xbal s1 a = xbal s a - (if Nat.eqb a m then total_of dU pass * CF else 0)).
  { intros a. unfold xbal. rewrite B1, F1. destruct (Nat.eqb a m); lia. }
  intros HS. split; [exact Hmr|].
  destruct (Z.ltb_spec 0 (amount_of dA c)) as [Hpos|Hnp].
  - apply burn_ext_spec in HS; auto.
    destruct HS as (I2 & Xm & Xo & B2 & S2 & T2).
    split; [exact I2|]. split; [|split; [|split]].
    + rewrite Xm, X1, Nat.eqb_refl. unfold ext_value. fold pass. lia.
    + intros a Ham Har. rewrite Xo by assumption. rewrite X1.
      destruct (Nat.eqb_spec a m); [congruence|]. lia.
    + intros a d Hd Hd'. rewrite B2 by exact Hd. rewrite B1. unfold pass.
      rewrite total_of_without_other by exact Hd'. reflexivity.
    + rewrite T2, S1, R1. unfold ext_value. fold pass. lia.
  - inv_ok HS. assert (Hz : amount_of dA c = 0) by lia.
    split; [exact I1|]. split; [|split; [|split]].
    + rewrite X1, Nat.eqb_refl. unfold ext_value. fold pass. lia.
    + intros a Ham Har. rewrite X1. destruct (Nat.eqb_spec a m); [congruence|]. lia.
    + intros a d Hd Hd'. rewrite B1. unfold pass. rewrite total_of_without_other by exact Hd'. reflexivity.
    + rewrite S1, R1. unfold ext_value. fold pass. lia.
Qed.

(** ** Invariant for every operation and every history *)
Lemma step_inv e s o s' :
  env_wf e -> Inv e s -> step e s o = Ok s' tt -> Inv e s'.
Proof.
  intros Hwf HInv. destruct o as [f t c|m t c|f m c|m c|m c]; cbn [step] in *.
  - unfold in_range. destruct (Nat.ltb_spec f (nacc e)), (Nat.ltb_spec t (nacc e)); cbn [andb]; try discriminate.
    intros HS. apply send_coins_spec in HS; auto. tauto.
  - unfold in_range. destruct (Nat.ltb_spec m (nacc e)), (Nat.ltb_spec t (nacc e)); cbn [andb negb]; try discriminate.
    destruct (is_module e m); cbn [negb]; [|discriminate].
    destruct (Nat.eqb_spec m (reserve e)); [discriminate|].
    destruct (blocked e t); [discriminate|].
    intros HS. apply send_coins_spec in HS; auto. tauto.
  - unfold in_range. destruct (Nat.ltb_spec m (nacc e)), (Nat.ltb_spec f (nacc e)); cbn [andb negb]; try discriminate.
    destruct (is_module e m); cbn [negb]; [|discriminate].
    destruct (Nat.eqb_spec m (reserve e)); [discriminate|].
    intros HS. apply send_coins_spec in HS; auto. tauto.
  - unfold in_range. destruct (Nat.ltb_spec m (nacc e)); [|discriminate].
    intros HS. apply mint_coins_spec in HS; auto. tauto.
  - unfold in_range. destruct (Nat.ltb_spec m (nacc e)); [|discriminate].
    intros HS. apply burn_coins_spec in HS; auto. tauto.
Qed.

Lemma step'_inv e s o : env_wf e -> Inv e s -> Inv e (step' e s o).
Proof.
  intros Hwf HInv. unfold step'. destruct (step e s o) as [s' []| |] eqn:E; auto.
  eapply step_inv; eauto.
Qed.

Lemma run_inv e ops : forall s, env_wf e -> Inv e s -> Inv e (run e s ops).
Proof.
  induction ops as [|o ops IH]; intros s Hwf HInv; cbn [run fold_left]; [exact HInv|].
  apply IH; auto. apply step'_inv; auto.
Qed.

(* the reserve is never a party of a successful transfer *)
Lemma send_reserve_refused e s f t c :
  (f = reserve e \/ t = reserve e) -> send_coins e s f t c = Err.
Proof.
  intros [->| ->]; unfold send_coins; rewrite Nat.eqb_refl; [reflexivity|].
  rewrite orb_true_r. reflexivity.
Qed.
