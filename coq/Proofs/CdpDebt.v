(* C04: stable/debt accounting.  The debt coin exists only in the cdp, liquidator and
   auction module accounts, and (stable supply - debt supply) never grows: the stable
   coin issued by the module never exceeds the debt coin.  Every operation, every history. *)
From Kava Require Import Base.Prelude Base.Dec Model.Cdp Proofs.CdpRatio Proofs.Cdp Proofs.CdpInv Proofs.CdpInv2 Proofs.CdpInv3 Proofs.CdpCust.
Local Open Scope Z_scope.

Definition debt_held (e : env) (s : state) : Z :=
  bal s (CDPM e) (d_debt e) + bal s (LIQM e) (d_debt e) + bal s (AUCM e) (d_debt e).
(* debt coins outside the three module accounts *)
Definition m1 (e : env) (s : state) : Z := sup s (d_debt e) - debt_held e s.
(* stable supply minus debt supply *)
Definition m2 (e : env) (s : state) : Z := sup s (d_usdx e) - sup s (d_debt e).

Definition inM (e : env) (w : nat) : bool := Nat.eqb w (CDPM e) || Nat.eqb w (LIQM e) || Nat.eqb w (AUCM e).

Definition denoms_ok (e : env) : Prop := d_usdx e <> d_debt e.

Lemma m_frame e s s' : bal s' = bal s -> sup s' = sup s -> m1 e s' = m1 e s /\ m2 e s' = m2 e s.
Proof. intros B S. unfold m1, m2, debt_held. rewrite B, S. auto. Qed.

Lemma mods_distinct e : CDPM e <> LIQM e /\ CDPM e <> AUCM e /\ LIQM e <> AUCM e.
Proof. unfold CDPM, LIQM, AUCM. lia. Qed.

(* a send that does not move debt coins across the boundary of the three module accounts *)
Lemma m_send e s f t d x s' :
  b_send s f t d x = Some s' -> f <> t ->
  d <> d_debt e \/ (inM e f = true /\ inM e t = true) \/ (inM e f = false /\ inM e t = false) ->
  m1 e s' = m1 e s /\ m2 e s' = m2 e s.
Proof.
  intros H Hft Hn. unfold m1, m2, debt_held.
  unfold b_send in H. destruct (Z.leb_spec x 0); [inversion H; subst; auto|].
  destruct (bal s f d <? x); [discriminate|]. inversion H; subst; clear H. cbn [set_bal bal sup].
  destruct (mods_distinct e) as (N1 & N2 & N3). split; [|reflexivity].
  unfold upd2, inM in *.
  repeat match goal with |- context [Nat.eqb ?a ?b] => destruct (Nat.eqb_spec a b) end; cbn [andb orb] in *; subst; try lia;
  try (destruct Hn as [Hn|[[Hn1 Hn2]|[Hn1 Hn2]]]; try congruence;
       repeat match goal with H : context [Nat.eqb ?a ?b] |- _ => destruct (Nat.eqb_spec a b) end; cbn [andb orb] in *; try congruence; try lia).
Qed.

Definition mint_a (e : env) (m d : nat) (x : Z) : Z :=
  if (0 <? x) && Nat.eqb d (d_debt e) && negb (inM e m) then x else 0.
Definition mint_b (e : env) (d : nat) (x : Z) : Z :=
  if 0 <? x then (if Nat.eqb d (d_usdx e) then x else 0) - (if Nat.eqb d (d_debt e) then x else 0) else 0.

Lemma m_mint e s m d x : denoms_ok e ->
  m1 e (b_mint s m d x) = m1 e s + mint_a e m d x /\ m2 e (b_mint s m d x) = m2 e s + mint_b e d x.
Proof.
  intros Hdn. unfold denoms_ok in Hdn. unfold m1, m2, debt_held, mint_a, mint_b, b_mint.
  destruct (Z.leb_spec x 0); [destruct (Z.ltb_spec 0 x); [lia|]; cbn [andb]; lia|].
  destruct (Z.ltb_spec 0 x); [|lia]. cbn [andb set_sup set_bal bal sup].
  destruct (mods_distinct e) as (N1 & N2 & N3). unfold upd, upd2, inM.
  repeat match goal with |- context [Nat.eqb ?a ?b] => destruct (Nat.eqb_spec a b) end; cbn [andb orb negb]; subst; try lia; try congruence.
Qed.

Lemma m_burn e s m d x s' : denoms_ok e ->
  b_burn s m d x = Some s' -> m1 e s' = m1 e s - mint_a e m d x /\ m2 e s' = m2 e s - mint_b e d x.
Proof.
  unfold b_burn. intros Hdn H. unfold denoms_ok in Hdn. unfold m1, m2, debt_held, mint_a, mint_b.
  destruct (Z.leb_spec x 0); [inversion H; subst; destruct (Z.ltb_spec 0 x); [lia|]; cbn [andb]; lia|].
  destruct (bal s m d <? x); [discriminate|]. inversion H; subst; clear H.
  destruct (Z.ltb_spec 0 x); [|lia]. cbn [andb set_sup set_bal bal sup].
  destruct (mods_distinct e) as (N1 & N2 & N3). unfold upd, upd2, inM.
  repeat match goal with |- context [Nat.eqb ?a ?b] => destruct (Nat.eqb_spec a b) end; cbn [andb orb negb]; subst; try lia; try congruence.
Qed.

Lemma inM_cdpm e : inM e (CDPM e) = true.
Proof. unfold inM. rewrite Nat.eqb_refl. reflexivity. Qed.
Lemma inM_liqm e : inM e (LIQM e) = true.
Proof. unfold inM. rewrite Nat.eqb_refl. rewrite orb_true_r. reflexivity. Qed.
Lemma inM_aucm e : inM e (AUCM e) = true.
Proof. unfold inM. rewrite Nat.eqb_refl. rewrite orb_true_r. reflexivity. Qed.
Lemma inM_user e u : (u < nusers e)%nat -> inM e u = false.
Proof. unfold inM, CDPM, LIQM, AUCM. intros H. repeat match goal with |- context [Nat.eqb ?a ?b] => destruct (Nat.eqb_spec a b) end; cbn; try reflexivity; lia. Qed.

(* the relation "debt coins stay inside, stable minus debt does not grow" *)
Definition dm (e : env) (s s' : state) : Prop := m1 e s' = m1 e s /\ m2 e s' <= m2 e s.
Lemma dm_refl e s : dm e s s. Proof. split; lia. Qed.
Lemma dm_trans e s1 s2 s3 : dm e s1 s2 -> dm e s2 s3 -> dm e s1 s3.
Proof. intros [A B] [C D]. split; lia. Qed.
Lemma dm_eq e s s' : m1 e s' = m1 e s /\ m2 e s' = m2 e s -> dm e s s'.
Proof. intros [A B]. split; lia. Qed.

(** * Helpers *)
Lemma dm_env_same e s s' : env_same s s' -> dm e s s'.
Proof. intros (_&_&B&S&_). apply dm_eq, m_frame; assumption. Qed.

Lemma dm_send e s f t d x s' :
  b_send s f t d x = Some s' -> f <> t ->
  d <> d_debt e \/ (inM e f = true /\ inM e t = true) \/ (inM e f = false /\ inM e t = false) -> dm e s s'.
Proof. intros. apply dm_eq. eapply m_send; eassumption. Qed.

Lemma dm_update_cdp e s cp c r s' u : update_cdp e s cp c r = Ok s' u -> dm e s s'.
Proof. intros H. apply update_cdp_env in H. destruct H as [H _]. apply dm_env_same, H. Qed.

Lemma dm_sync e s cp c s1 c1 : sync_interest e s cp c = Ok s1 c1 -> dm e s s1.
Proof. intros H. apply sync_interest_spec in H. destruct H as [H _]. apply dm_env_same, H. Qed.

(* minting the stable coin and the debt coin together *)
Lemma dm_mint_pair e s1 o x s3 :
  denoms_ok e -> (o < nusers e)%nat ->
  b_send (b_mint s1 (CDPM e) (d_usdx e) x) (CDPM e) o (d_usdx e) x = Some s3 ->
  m1 e (b_mint s3 (CDPM e) (d_debt e) x) = m1 e s1 /\ m2 e (b_mint s3 (CDPM e) (d_debt e) x) = m2 e s1.
Proof.
  intros Hdn Ho Eb. unfold denoms_ok in Hdn.
  destruct (m_mint e s1 (CDPM e) (d_usdx e) x Hdn) as [A1 A2].
  destruct (m_send e _ _ _ _ _ _ Eb (not_eq_sym (user_not_cdpm e o Ho)) (or_introl Hdn)) as [B1 B2].
  destruct (m_mint e s3 (CDPM e) (d_debt e) x Hdn) as [C1 C2].
  rewrite C1, C2, B1, B2, A1, A2. unfold mint_a, mint_b. rewrite inM_cdpm, !Nat.eqb_refl.
  destruct (Nat.eqb_spec (d_usdx e) (d_debt e)); [contradiction|]. destruct (Nat.eqb_spec (d_debt e) (d_usdx e)); [congruence|].
  cbn [andb negb]. rewrite !andb_false_r. destruct (0 <? x); lia.
Qed.

Lemma dm_start_auction e s ld lot mb debt ret s' u :
  ld <> d_debt e -> start_coll_auction e s ld lot mb debt ret = Ok s' u -> dm e s s'.
Proof.
  intros Hld. unfold start_coll_auction. destruct (mods_distinct e) as (_ & _ & N3).
  destruct (b_send s (LIQM e) (AUCM e) ld lot) as [s1|] eqn:E1; [|discriminate].
  destruct (b_send s1 (LIQM e) (AUCM e) (d_debt e) debt) as [s2|] eqn:E2; [|discriminate].
  intros H; inversion H; subst.
  eapply dm_trans; [eapply dm_send; [exact E1|exact N3|left; exact Hld]|].
  eapply dm_trans; [eapply dm_send; [exact E2|exact N3|right; left; split; [apply inM_liqm|apply inM_aucm]]|].
  apply dm_eq, m_frame; reflexivity.
Qed.

Lemma dm_whole_auctions e cp ret n dpa : cp_denom cp <> d_debt e -> forall s un s' un',
  whole_auctions e cp ret n dpa s un = Ok s' un' -> dm e s s'.
Proof.
  intros Hd. induction n as [|n IH]; intros s un s' un' H; cbn [whole_auctions] in H.
  - inversion H; subst. apply dm_refl.
  - destruct (start_coll_auction _ _ _ _ _ _ _) as [s1 []| |] eqn:E; try discriminate.
    eapply dm_trans; [eapply dm_start_auction; eassumption|eapply IH; eassumption].
Qed.

Lemma dm_auctions_from_deposit e cp s ret coll debt s' u :
  cp_denom cp <> d_debt e -> auctions_from_deposit e cp s ret coll debt = Ok s' u -> dm e s s'.
Proof.
  intros Hd. unfold auctions_from_deposit. destruct (coll =? 0); [discriminate|]. cbv zeta.
  destruct (whole_auctions _ _ _ _ _ _ _) as [s1 un2| |] eqn:E; try discriminate.
  apply dm_whole_auctions in E; [|exact Hd].
  destruct (_ mod _ <=? 0).
  - intros H; inversion H; subst. exact E.
  - intros H. eapply dm_trans; [exact E|eapply dm_start_auction; eassumption].
Qed.

Lemma dm_auction_deposits e cp total debt dl : cp_denom cp <> d_debt e -> forall s rem s' u,
  auction_deposits e cp total debt s dl rem = Ok s' u -> dm e s s'.
Proof.
  intros Hd. induction dl as [|d tl IH]; intros s rem s' u H; cbn [auction_deposits] in H.
  - inversion H; subst. apply dm_refl.
  - destruct (total =? 0); [discriminate|]. cbv zeta in H.
    destruct (auctions_from_deposit _ _ _ _ _ _) as [s1 []| |] eqn:E; try discriminate.
    eapply dm_trans; [eapply dm_auctions_from_deposit; eassumption|eapply IH; eassumption].
Qed.

Lemma dm_seize e s cp c s' u : cp_denom cp <> d_debt e -> seize e s cp c = Ok s' u -> dm e s s'.
Proof.
  intros Hd. unfold seize. destruct (mods_distinct e) as (N1 & _ & _).
  destruct (b_send s _ _ _ _) as [s1|] eqn:E1; [|discriminate].
  destruct (ofold _ s1 _) as [s4 []| |] eqn:E2; try discriminate.
  destruct (auction_collateral _ _ _ _ _) as [s5 []| |] eqn:E3; try discriminate.
  intros H; inversion H; subst; clear H.
  eapply dm_trans; [eapply dm_send; [exact E1|exact N1|right; left; split; [apply inM_cdpm|apply inM_liqm]]|].
  eapply dm_trans.
  { eapply (ofold_inv (dm e s1)); [|apply dm_refl|exact E2].
    intros z d z' u0 P Hz. cbv beta in Hz. destruct (b_send z _ _ _ _) as [z2|] eqn:Ez; [|discriminate]. inversion Hz; subst.
    eapply dm_trans; [exact P|]. eapply dm_trans; [eapply dm_send; [exact Ez|exact N1|left; exact Hd]|]. apply dm_eq, m_frame; reflexivity. }
  eapply dm_trans; [eapply dm_auction_deposits; [exact Hd|exact E3]|]. apply dm_eq, m_frame; reflexivity.
Qed.

(** * Operations *)
Lemma dm_create e s o t cd coll pd prin s' v :
  denoms_ok e -> env_wf e -> (o < nusers e)%nat -> create e s o t cd coll pd prin = Ok s' v -> dm e s s'.
Proof.
  intros Hdn Hwf Ho. unfold create. destruct (_ && _); [|discriminate]. cbn [negb].
  destruct (validate_collateral e s t cd) as [cp|] eqn:Ev; [|discriminate].
  apply validate_collateral_ok in Ev. destruct Ev as (Hcp & Hcd & _). destruct (Hwf _ _ Hcp) as [W1 W2].
  destruct (bal s o cd <? coll); [discriminate|].
  destruct (find_cdp e s o t); [discriminate|].
  destruct (Nat.eqb pd (d_usdx e)); [|discriminate]. cbn [negb].
  destruct (prin <? dp_floor e); [discriminate|].
  destruct (debt_limit_ok e s t cp prin); [|discriminate]. cbn [negb].
  destruct (ratio_gate e s cp coll prin 0) as [[] []| |]; try discriminate.
  set (s0 := match ifac s t with Some _ => s | None => set_ifac s (upd (ifac s) t (Some PREC)) end).
  destruct (b_send s0 o (CDPM e) cd coll) as [s1|] eqn:Eb1; [|discriminate].
  destruct (b_send (b_mint s1 _ _ _) _ _ _ _) as [s3|] eqn:Eb3; [|discriminate].
  intros H; inversion H; subst; clear H.
  assert (D0 : dm e s s0) by (unfold s0; destruct (ifac s t); apply dm_eq, m_frame; reflexivity).
  eapply dm_trans; [exact D0|].
  eapply dm_trans; [eapply dm_send; [exact Eb1|apply (user_not_cdpm e o Ho)|left; exact W2]|].
  eapply dm_trans; [apply dm_eq; eapply dm_mint_pair; eassumption|]. apply dm_eq, m_frame; reflexivity.
Qed.

Lemma dm_deposit e s o u t cd x s' v :
  env_wf e -> (u < nusers e)%nat -> deposit e s o u t cd x = Ok s' v -> dm e s s'.
Proof.
  intros Hwf Hu. unfold deposit. destruct (0 <? x); [|discriminate]. cbn [negb].
  destruct (validate_collateral e s t cd) as [cp|] eqn:Ev; [|discriminate].
  apply validate_collateral_ok in Ev. destruct Ev as (Hcp & Hcd & _). destruct (Hwf _ _ Hcp) as [W1 W2].
  destruct (find_cdp e s o t) as [c0|]; [|discriminate].
  destruct (bal s u cd <? x); [discriminate|].
  destruct (sync_interest e s cp c0) as [s1 c| |] eqn:Es; try discriminate.
  destruct (b_send s1 u (CDPM e) cd x) as [s2|] eqn:Eb; [|discriminate].
  intros H. eapply dm_trans; [eapply dm_sync; exact Es|].
  eapply dm_trans; [eapply dm_send; [exact Eb|apply (user_not_cdpm e u Hu)|left; congruence]|].
  eapply dm_trans; [|eapply dm_update_cdp; exact H]. apply dm_eq, m_frame; reflexivity.
Qed.

Lemma dm_withdraw e s o u t cd x s' v :
  env_wf e -> (u < nusers e)%nat -> withdraw e s o u t cd x = Ok s' v -> dm e s s'.
Proof.
  intros Hwf Hu. unfold withdraw. destruct (0 <? x); [|discriminate]. cbn [negb].
  destruct (validate_collateral e s t cd) as [cp|] eqn:Ev; [|discriminate].
  apply validate_collateral_ok in Ev. destruct Ev as (Hcp & Hcd & _). destruct (Hwf _ _ Hcp) as [W1 W2].
  destruct (find_cdp e s o t) as [c0|]; [|discriminate].
  destruct (deps s (c_id c0) u) as [a|]; [|discriminate].
  destruct (a <? x); [discriminate|].
  destruct (sync_interest e s cp c0) as [s1 c| |] eqn:Es; try discriminate.
  destruct (c_coll c <? x); [discriminate|].
  destruct (ratio_gate _ _ _ _ _ _) as [[] []| |]; try discriminate.
  destruct (b_send s1 (CDPM e) u cd x) as [s2|] eqn:Eb; [|discriminate].
  destruct (update_cdp _ _ _ _ _) as [s3 []| |] eqn:Eu; try discriminate.
  intros H. eapply dm_trans; [eapply dm_sync; exact Es|].
  eapply dm_trans; [eapply dm_send; [exact Eb|apply not_eq_sym, (user_not_cdpm e u Hu)|left; congruence]|].
  eapply dm_trans; [eapply dm_update_cdp; exact Eu|]. inversion H; subst. apply dm_eq, m_frame; destruct (a - x =? 0); reflexivity.
Qed.

Lemma dm_draw e s o t pd x s' v :
  denoms_ok e -> (o < nusers e)%nat -> draw e s o t pd x = Ok s' v -> dm e s s'.
Proof.
  intros Hdn Ho. unfold draw. destruct (0 <? x); [|discriminate]. cbn [negb].
  destruct (find_cdp e s o t) as [c0|]; [|discriminate].
  destruct (get_cp e t) as [cp|]; [|discriminate].
  destruct (mstat s (cp_spot cp) && mstat s (cp_liqm cp)) eqn:Em; [|discriminate]. cbn [negb].
  destruct (Nat.eqb pd (d_usdx e)); [|discriminate]. cbn [negb].
  destruct (debt_limit_ok e s t cp x); [|discriminate]. cbn [negb].
  destruct (sync_interest e s cp c0) as [s1 c| |] eqn:Es; try discriminate.
  destruct (ratio_gate _ _ _ _ _ _) as [[] []| |]; try discriminate.
  destruct (b_send _ _ _ _ _) as [s3|] eqn:Eb; [|discriminate].
  intros H. eapply dm_trans; [eapply dm_sync; exact Es|].
  eapply dm_trans; [apply dm_eq; eapply dm_mint_pair; eassumption|].
  eapply dm_trans; [|eapply dm_update_cdp; exact H]. apply dm_eq, m_frame; reflexivity.
Qed.

Lemma dm_repay e s o t pd x s' v :
  denoms_ok e -> env_wf e -> (o < nusers e)%nat -> repay e s o t pd x = Ok s' v -> dm e s s'.
Proof.
  intros Hdn Hwf Ho. unfold repay. destruct (0 <? x); [|discriminate]. cbn [negb].
  destruct (find_cdp e s o t) as [c0|]; [|discriminate].
  destruct (get_cp e t) as [cp|] eqn:Hcp; [|discriminate]. destruct (Hwf _ _ Hcp) as [W1 W2].
  destruct (Nat.eqb pd (d_usdx e)); [|discriminate]. cbn [negb].
  destruct (bal s o pd <? x); [discriminate|].
  destruct (sync_interest e s cp c0) as [s1 c| |] eqn:Es; try discriminate.
  destruct (calc_payment (cdp_debt c) (c_fees c) x) as [fp pp].
  destruct (_ && _); [discriminate|].
  destruct (b_send s1 o (CDPM e) (d_usdx e) (fp + pp)) as [s2|] eqn:E2; [|discriminate].
  destruct (b_burn s2 _ _ _) as [s3|] eqn:E3; [|discriminate].
  destruct (b_burn s3 _ _ _) as [s4|] eqn:E4; [|discriminate].
  set (c1 := with_fees (with_prin c (c_prin c - pp)) (c_fees c - fp) (c_upd c) (c_ifac c)).
  set (s5 := set_tprin s4 _).
  assert (D5 : dm e s s5).
  { eapply dm_trans; [eapply dm_sync; exact Es|]. unfold denoms_ok in Hdn.
    destruct (m_send e _ _ _ _ _ _ E2 (user_not_cdpm e o Ho) (or_introl Hdn)) as [A1 A2].
    destruct (m_burn e _ _ _ _ _ Hdn E3) as [B1 B2]. destruct (m_burn e _ _ _ _ _ Hdn E4) as [C1 C2].
    assert (F : m1 e s5 = m1 e s4 /\ m2 e s5 = m2 e s4) by (apply m_frame; reflexivity). destruct F as [F1 F2].
    split; [rewrite F1, C1, B1, A1|rewrite F2, C2, B2, A2]; unfold mint_a, mint_b; rewrite ?inM_cdpm, !Nat.eqb_refl;
    destruct (Nat.eqb_spec (d_usdx e) (d_debt e)); try contradiction; destruct (Nat.eqb_spec (d_debt e) (d_usdx e)); try congruence;
    cbn [andb negb]; rewrite ?andb_false_r; [lia|].
    set (b := Z.min (fp + pp) (bal s3 (CDPM e) (d_debt e))). assert (b <= fp + pp) by (unfold b; lia).
    destruct (Z.ltb_spec 0 (fp + pp)); destruct (Z.ltb_spec 0 b); lia. }
  destruct ((c_prin c1 =? 0) && (c_fees c1 =? 0)).
  - destruct (return_collateral e s5 cp c1) as [s6 []| |] eqn:E6; try discriminate.
    destruct (get_cdp e _ _ _) as [old|]; [|discriminate].
    intros H; injection H as Hs'; subst s'.
    eapply dm_trans; [exact D5|].
    apply (dm_trans e s5 s6); [|apply dm_eq, m_frame; reflexivity].
    unfold return_collateral in E6. eapply (ofold_inv (dm e s5)); [|apply dm_refl|exact E6].
    intros z d z' u0 P Hz. cbv beta in Hz. destruct (b_send z _ _ _ _) as [z2|] eqn:Ez; [|discriminate]. inversion Hz; subst.
    eapply dm_trans; [exact P|].
    (* the depositor is a user (or at least not the module account): the send is of a collateral denom anyway *)
    destruct (Nat.eq_dec (CDPM e) (fst d)) as [Heq|Hne].
    + (* sending to itself moves nothing in total *)
      apply dm_eq. unfold b_send in Ez. destruct (snd d <=? 0); [inversion Ez; subst; apply m_frame; reflexivity|].
      destruct (_ <? _); [discriminate|]. inversion Ez; subst. unfold m1, m2, debt_held. cbn. unfold upd2. rewrite <- Heq.
      destruct (mods_distinct e) as (N1 & N2 & N3).
      repeat match goal with |- context [Nat.eqb ?a ?b] => destruct (Nat.eqb_spec a b) end; cbn [andb]; subst; try lia; try congruence.
    + eapply dm_trans; [eapply dm_send; [exact Ez|exact Hne|left; exact W2]|]. apply dm_eq, m_frame; reflexivity.
  - intros H. eapply dm_trans; [exact D5|eapply dm_update_cdp; exact H].
Qed.

Lemma dm_payout e s cp k c s2 c1 :
  cp_denom cp <> d_debt e -> (k < nusers e)%nat -> payout_reward e s cp k c = Ok s2 c1 -> dm e s s2.
Proof.
  intros Hd Hk. unfold payout_reward.
  destruct (first_dep_ge _ _) as [[w a]|]; [|intros H; inversion H; subst; apply dm_refl].
  destruct (b_send _ _ _ _ _) as [s1|] eqn:Eb; [|discriminate].
  destruct (c_coll c <? _); [discriminate|].
  destruct (update_cdp _ _ _ _ _) as [s3 []| |] eqn:Eu; try discriminate.
  intros H; inversion H; subst.
  eapply dm_trans; [apply dm_eq, (m_frame e s (put_dep s (c_id c) w (a - dec_round_int (dec_mul (dec_of_int (c_coll c)) (cp_reward cp))))); reflexivity|].
  eapply dm_trans; [eapply dm_send; [exact Eb|apply not_eq_sym, (user_not_cdpm e k Hk)|left; exact Hd]|].
  eapply dm_update_cdp; exact Eu.
Qed.

Lemma dm_keeper_liquidate e s k o t s' v :
  env_wf e -> (k < nusers e)%nat -> keeper_liquidate e s k o t = Ok s' v -> dm e s s'.
Proof.
  intros Hwf Hk. unfold keeper_liquidate.
  destruct (find_cdp e s o t) as [c0|]; [|discriminate].
  destruct (get_cp e t) as [cp|] eqn:Hcp; [|discriminate]. destruct (Hwf _ _ Hcp) as [W1 W2].
  destruct (sync_interest e s cp c0) as [s1 c| |] eqn:Es; try discriminate.
  destruct (ratio_at _ _ _ _ _ _) as [[] r| |]; try discriminate.
  destruct (cp_liq cp <=? r); [discriminate|].
  destruct (payout_reward e s1 cp k c) as [s2 c1| |] eqn:Ep; try discriminate.
  intros H. eapply dm_trans; [eapply dm_sync; exact Es|].
  eapply dm_trans; [eapply dm_payout; [exact W2|exact Hk|exact Ep]|]. eapply dm_seize; [exact W2|exact H].
Qed.

(** * Begin blocker *)
Lemma dm_accumulate e s t cp : denoms_ok e -> dm e s (accumulate_interest e s t cp).
Proof.
  intros Hdn. unfold accumulate_interest. destruct (ptime s t); [|apply dm_eq, m_frame; reflexivity].
  destruct (_ =? 0); [apply dm_refl|]. destruct (_ <=? 0); [apply dm_eq, m_frame; reflexivity|].
  destruct (ifac s t); [|apply dm_eq, m_frame; reflexivity]. destruct (_ =? PREC); [apply dm_eq, m_frame; reflexivity|]. cbv zeta.
  destruct (_ =? 0); [apply dm_refl|].
  set (acc := dec_round_int _ - tprin s t).
  apply (dm_trans e s (b_mint (b_mint s (CDPM e) (d_debt e) acc) (LIQM e) (d_usdx e) acc)); [|apply dm_eq, m_frame; reflexivity].
  destruct (m_mint e s (CDPM e) (d_debt e) acc Hdn) as [A1 A2].
  destruct (m_mint e (b_mint s (CDPM e) (d_debt e) acc) (LIQM e) (d_usdx e) acc Hdn) as [B1 B2].
  unfold denoms_ok in Hdn.
  split; [rewrite B1, A1|rewrite B2, A2]; unfold mint_a, mint_b; rewrite ?inM_cdpm, ?inM_liqm, !Nat.eqb_refl;
  destruct (Nat.eqb_spec (d_usdx e) (d_debt e)); try contradiction; destruct (Nat.eqb_spec (d_debt e) (d_usdx e)); try congruence;
  cbn [andb negb]; rewrite ?andb_false_r; destruct (0 <? acc); lia.
Qed.

Lemma dm_sync_risky e s t cp s' u : sync_risky e s t cp = Ok s' u -> dm e s s'.
Proof.
  unfold sync_risky. destruct (ptime s t) as [prev|]; [|discriminate].
  destruct (ifac s t) as [gf|].
  - intros H. eapply (ofold_inv (dm e s)); [|apply dm_refl|exact H].
    intros z id z' u0 P Hz. eapply dm_trans; [exact P|]. unfold sync_risky_one in Hz.
    destruct (cdps z t id); [|discriminate]. destruct (_ && _); [inversion Hz; subst; apply dm_refl|].
    inversion Hz; subst. apply dm_eq, m_frame; destruct (_ =? 0); reflexivity.
  - destruct (map snd _); [intros H; inversion H; subst; apply dm_refl|discriminate].
Qed.

Lemma dm_liquidate e s t cp s' u : cp_denom cp <> d_debt e -> liquidate_cdps e s t cp = Ok s' u -> dm e s s'.
Proof.
  intros Hd. unfold liquidate_cdps. destruct (_ =? 0); [intros H; inversion H; subst; apply dm_refl|].
  destruct (existsb _ _); [discriminate|]. intros H.
  eapply (ofold_inv (dm e s)); [|apply dm_refl|exact H].
  intros z o z' u0 P Hz. destruct o as [c|]; [|discriminate]. unfold liq_step in Hz.
  destruct (confirm_below _ _ _ _); [eapply dm_trans; [exact P|eapply dm_seize; eassumption]|inversion Hz; subst; exact P].
Qed.

Lemma dm_run_auctions e s s' u : denoms_ok e -> run_auctions e s = Ok s' u -> dm e s s'.
Proof.
  intros Hdn. unfold run_auctions. intros H. destruct (mods_distinct e) as (N1 & N2 & N3).
  set (net := Z.min _ _) in H.
  destruct (if net =? 0 then Some s else _) as [s2|] eqn:E2; [|discriminate].
  assert (F2 : dm e s s2).
  { destruct (Z.eqb_spec net 0); [inversion E2; apply dm_refl|].
    destruct (b_burn s _ _ net) as [s1|] eqn:Eb1; [|discriminate].
    destruct (m_burn e _ _ _ _ _ Hdn Eb1) as [A1 A2]. destruct (m_burn e _ _ _ _ _ Hdn E2) as [B1 B2].
    assert (Hu : bal s1 (LIQM e) (d_usdx e) = bal s (LIQM e) (d_usdx e)).
    { apply (b_burn_other _ _ _ _ _ Eb1). left. exact Hdn. }
    unfold denoms_ok in Hdn.
    split; [rewrite B1, A1|rewrite B2, A2]; unfold mint_a, mint_b; rewrite ?inM_liqm, !Nat.eqb_refl;
    destruct (Nat.eqb_spec (d_usdx e) (d_debt e)); try contradiction; destruct (Nat.eqb_spec (d_debt e) (d_usdx e)); try congruence;
    cbn [andb negb]; rewrite ?andb_false_r; [lia|].
    rewrite Hu. unfold net.
    set (a := bal s (LIQM e) (d_usdx e)). set (b := bal s (LIQM e) (d_debt e)).
    destruct (Z.ltb_spec 0 (Z.min a b)); destruct (Z.ltb_spec 0 (Z.min a (Z.min a b))); lia. }
  destruct (if debt_thr e <=? _ then _ else Some s2) as [s4|] eqn:E4; [|discriminate].
  assert (F4 : dm e s2 s4).
  { destruct (debt_thr e <=? _); [|inversion E4; apply dm_refl].
    destruct (b_send s2 _ _ _ _) as [s3|] eqn:Eb3; [|discriminate]. inversion E4; subst.
    eapply dm_trans; [eapply dm_send; [exact Eb3|exact N3|right; left; split; [apply inM_liqm|apply inM_aucm]]|].
    apply dm_eq, m_frame; reflexivity. }
  assert (F5 : dm e s4 s').
  { destruct (_ <? sur_thr e); [inversion H; subst; apply dm_refl|].
    destruct (b_send s4 _ _ _ _) as [s5|] eqn:Eb5; [|discriminate]. inversion H; subst.
    eapply dm_trans; [eapply dm_send; [exact Eb5|exact N3|left; exact Hdn]|]. apply dm_eq, m_frame; reflexivity. }
  eapply dm_trans; [exact F2|eapply dm_trans; [exact F4|exact F5]].
Qed.

Lemma dm_begin_type e skip s t cp s' u :
  denoms_ok e -> cp_denom cp <> d_debt e -> begin_type e skip s (t, cp) = Ok s' u -> dm e s s'.
Proof.
  intros Hdn Hd. unfold begin_type, update_status.
  destruct (negb (negb (price s (cp_spot cp) =? 0))); [intros H; inversion H; subst; apply dm_eq, m_frame; reflexivity|].
  cbn [set_mstat price].
  destruct (negb (negb (price s (cp_liqm cp) =? 0))); [intros H; inversion H; subst; apply dm_eq, m_frame; reflexivity|].
  set (s2 := set_mstat _ _).
  assert (D2 : dm e s s2) by (apply dm_eq, m_frame; reflexivity).
  pose proof (dm_accumulate e s2 t cp Hdn) as D3.
  destruct skip; [intros H; inversion H; subst; exact (dm_trans e _ _ _ D2 D3)|].
  destruct (sync_risky _ _ _ _) as [s4 []| |] eqn:E4; try discriminate.
  destruct (liquidate_cdps e s4 t cp) as [s5 []| |] eqn:E5; try discriminate.
  intros H; inversion H; subst.
  eapply dm_trans; [exact D2|]. eapply dm_trans; [exact D3|].
  eapply dm_trans; [eapply dm_sync_risky; exact E4|eapply dm_liquidate; eassumption].
Qed.

Lemma dm_begin_block e s s' u : denoms_ok e -> env_wf e -> begin_block e s = Ok s' u -> dm e s s'.
Proof.
  intros Hdn Hwf. unfold begin_block.
  destruct (ofold _ s _) as [s1 []| |] eqn:E; try discriminate.
  destruct (run_auctions e s1) as [s2 []| |] eqn:Er; try discriminate.
  intros H; inversion H; subst.
  eapply dm_trans; [|eapply dm_run_auctions; eassumption].
  revert E. generalize (negb (Z.rem (height s) (interval e) =? 0)). intros skip E.
  assert (G : forall l s0 s3 u0,
    (forall t cp, In (t, cp) l -> get_cp e t = Some cp) ->
    ofold (begin_type e skip) s0 l = Ok s3 u0 -> dm e s0 s3).
  { induction l as [|[t cp] tl IH]; intros s0 s3 u0 Hl H1; cbn [ofold] in H1; [inversion H1; subst; apply dm_refl|].
    destruct (begin_type e skip s0 (t, cp)) as [s4 []| |] eqn:E4; try discriminate.
    eapply dm_trans; [eapply dm_begin_type; [exact Hdn| |exact E4]|eapply IH; [intros t' cp' Hin; apply Hl; right; exact Hin|exact H1]].
    destruct (Hwf t cp (Hl t cp (or_introl eq_refl))) as [_ W2]. exact W2. }
  eapply G; [|exact E].
  intros t cp Hin. unfold ntypes in Hin. apply combine_seq_nth in Hin. destruct Hin as [Hn _].
  unfold get_cp. rewrite Nat.sub_0_r in Hn. exact Hn.
Qed.

(** * Every operation, every history *)
Lemma dm_step e s o s' u : denoms_ok e -> env_wf e -> step e s o = Ok s' u -> dm e s s'.
Proof.
  intros Hdn Hwf E. destruct o; cbn [step] in E; unfold user_ok in E.
  - destruct (Nat.ltb_spec o (nusers e)); [|discriminate]. eapply dm_create; eassumption.
  - destruct (Nat.ltb_spec o (nusers e)); [|discriminate]. destruct (Nat.ltb_spec u0 (nusers e)); [|discriminate]. cbn [andb] in E. eapply dm_deposit; eassumption.
  - destruct (Nat.ltb_spec o (nusers e)); [|discriminate]. destruct (Nat.ltb_spec u0 (nusers e)); [|discriminate]. cbn [andb] in E. eapply dm_withdraw; eassumption.
  - destruct (Nat.ltb_spec o (nusers e)); [|discriminate]. eapply dm_draw; eassumption.
  - destruct (Nat.ltb_spec o (nusers e)); [|discriminate]. eapply dm_repay; eassumption.
  - destruct (Nat.ltb_spec o (nusers e)); [|discriminate]. destruct (Nat.ltb_spec k (nusers e)); [|discriminate]. cbn [andb] in E. eapply dm_keeper_liquidate; eassumption.
  - eapply dm_trans; [|eapply dm_begin_block; eassumption]. apply dm_eq, m_frame; reflexivity.
Qed.

Lemma dm_run e ops : denoms_ok e -> env_wf e -> forall s, dm e s (run e s ops).
Proof.
  intros Hdn Hwf. induction ops as [|o r IH]; intros s; [apply dm_refl|]. cbn [run fold_left]. fold (run e (step' e s o) r).
  eapply dm_trans; [|apply IH]. unfold step'. destruct (step e s o) as [s1 []| |] eqn:E; [|apply dm_refl|apply dm_refl].
  eapply dm_step; eassumption.
Qed.

(* the property's form: debt coin only in the three module accounts; stable issued <= debt coin *)
Definition DebtInv (e : env) (usdx0 : Z) (s : state) : Prop :=
  sup s (d_debt e) = debt_held e s /\ sup s (d_usdx e) - usdx0 <= debt_held e s.

Lemma DebtInv_run e usdx0 ops s :
  denoms_ok e -> env_wf e -> DebtInv e usdx0 s -> DebtInv e usdx0 (run e s ops).
Proof.
  intros Hdn Hwf [A B]. destruct (dm_run e ops Hdn Hwf s) as [C D]. unfold m1, m2 in *. split; lia.
Qed.
