(* C14 (component C14a), x/cdp: ExportGenesis / Validate / InitGenesis round trip
   over the model of Model/Cdp.v.  See Model/GenesisCdp.v for the definitions. *)
From Coq Require Import Sorted.
From Kava Require Import Base.Prelude Base.Dec Model.Cdp Proofs.CdpRatio Proofs.Cdp Proofs.CdpInv Proofs.CdpInv2
  Proofs.CdpInv3 Proofs.CdpCust Proofs.CdpOwn Model.GenesisCdp Proofs.GenesisCommon.
From Coq Require Import ZifyBool ZifyNat.
Local Open Scope Z_scope.

(** * Sorted insertion *)

Lemma ent_lt_irrefl x : ~ ent_lt x x.
Proof. unfold ent_lt, ent_ltb. destruct x as [r i]. cbn [fst snd]. lia. Qed.

Lemma ent_lt_trans x y z : ent_lt x y -> ent_lt y z -> ent_lt x z.
Proof. unfold ent_lt, ent_ltb. destruct x, y, z. cbn [fst snd]. lia. Qed.

Lemma ent_total x y : ent_eqb x y = false -> ent_ltb x y = false -> ent_lt y x.
Proof. unfold ent_lt, ent_ltb, ent_eqb. destruct x, y. cbn [fst snd]. lia. Qed.

Lemma ent_ins_sorted x : forall l, StronglySorted ent_lt l -> StronglySorted ent_lt (ent_ins x l).
Proof.
  induction l as [|h tl IH]; intros H; cbn [ent_ins].
  - constructor; constructor.
  - destruct (ent_eqb x h) eqn:E; [exact H|].
    pose proof (StronglySorted_inv H) as [S F].
    destruct (ent_ltb x h) eqn:L.
    + constructor; [exact H|]. constructor; [exact L|].
      rewrite Forall_forall in *. intros y Hy. eapply ent_lt_trans; [exact L|apply F, Hy].
    + constructor; [apply IH, S|].
      rewrite Forall_forall in *. intros y Hy. apply in_ent_ins in Hy. destruct Hy as [->|Hy]; [|apply F, Hy].
      apply ent_total; assumption.
Qed.

Lemma ent_del_sorted x l : StronglySorted ent_lt l -> StronglySorted ent_lt (ent_del x l).
Proof. apply ssorted_filter. Qed.

Lemma nat_ins_sorted x : forall l, ~ In x l -> StronglySorted Nat.lt l -> StronglySorted Nat.lt (nat_ins x l).
Proof.
  induction l as [|h tl IH]; intros Hn H; cbn [nat_ins].
  - constructor; constructor.
  - pose proof (StronglySorted_inv H) as [S F].
    assert (x <> h) by (intros ->; apply Hn; left; reflexivity).
    destruct (Nat.leb_spec x h).
    + constructor; [exact H|]. constructor; [unfold Nat.lt; lia|].
      rewrite Forall_forall in *. intros y Hy. specialize (F y Hy). unfold Nat.lt in *. lia.
    + constructor; [apply IH; [intros Hin; apply Hn; right; exact Hin|exact S]|].
      rewrite Forall_forall in *. intros y Hy. apply in_nat_ins in Hy. destruct Hy as [->|Hy]; [unfold Nat.lt; lia|apply F, Hy].
Qed.

Lemma nat_lt_irrefl x : ~ Nat.lt x x. Proof. unfold Nat.lt. lia. Qed.
Lemma nat_lt_trans x y z : Nat.lt x y -> Nat.lt y z -> Nat.lt x z. Proof. unfold Nat.lt. lia. Qed.

(** * Decimal facts *)

Lemma dec_mul_ge_one' x f : 0 <= x -> PREC <= f -> x <= dec_round_int (dec_mul (dec_of_int x) f).
Proof.
  intros Hx Hf. unfold dec_round_int, dec_mul, dec_of_int.
  assert (A : x * PREC <= chop_round (x * PREC * f)).
  { rewrite <- (chop_round_exact (x * PREC)) at 1 by (unfold PREC; lia).
    apply chop_round_mono_nonneg. unfold PREC in *. nia. }
  rewrite <- (chop_round_exact x) at 1 by lia.
  apply chop_round_mono_nonneg. unfold PREC in *. lia.
Qed.

Lemma dec_quo_ge_one a b : 0 < b -> b <= a -> PREC <= dec_quo a b.
Proof.
  intros Hb Hab. unfold dec_quo.
  rewrite <- (chop_round_exact PREC) at 1 by (unfold PREC; lia).
  apply chop_round_mono_nonneg. split; [unfold PREC; lia|].
  rewrite Z.quot_div_nonneg by (unfold PREC in *; nia).
  apply Z.div_le_lower_bound; [lia|]. unfold PREC in *. nia.
Qed.

Lemma new_interest_nonneg gf cf debt : 0 < cf -> cf <= gf -> 0 <= debt -> 0 <= new_interest gf cf debt.
Proof.
  intros Hc Hg Hd. unfold new_interest. destruct (_ =? PREC); [lia|].
  pose proof (dec_mul_ge_one' debt (dec_quo gf cf) Hd (dec_quo_ge_one gf cf Hc Hg)). lia.
Qed.

(** * SynchronizeInterest, as ExportGenesis uses it *)

Definition dflt (o : option Z) : Z := match o with Some f => f | None => PREC end.

(* it cannot fail on a stored cdp; it rewrites that cdp's record only, keeps the key order of the
   ratio index and stores the interest factor 1.0 for a type that had none *)
Lemma sync_interest_char e s cp c :
  get_cp e (c_type c) = Some cp -> cdps s (c_type c) (c_id c) = Some c ->
  exists s1 c1, sync_interest e s cp c = Ok s1 c1 /\
    (forall t id, cdps s1 t id = if Nat.eqb t (c_type c) && Nat.eqb id (c_id c) then Some c1 else cdps s t id) /\
    (forall t, t <> c_type c -> ridx s1 t = ridx s t) /\
    ((forall t, StronglySorted ent_lt (ridx s t)) -> forall t, StronglySorted ent_lt (ridx s1 t)) /\
    (forall t, ifac s1 t = if Nat.eqb t (c_type c) then Some (dflt (ifac s t)) else ifac s t) /\
    c_coll c1 = c_coll c /\ c_prin c1 = c_prin c /\
    match ifac s (c_type c), ptime s (c_type c) with
    | None, _ => c_fees c1 = c_fees c /\ c_upd c1 = now s /\ c_ifac c1 = PREC
    | Some gf, None => c1 = c
    | Some gf, Some prev =>
        (c1 = c /\ new_interest gf (c_ifac c) (cdp_debt c) = 0 /\ c_upd c = prev) \/
        (c_fees c1 = c_fees c + new_interest gf (c_ifac c) (cdp_debt c) /\ c_upd c1 = prev /\ c_ifac c1 = gf)
    end.
Proof.
  intros Hcp Hst. unfold sync_interest.
  destruct (ifac s (c_type c)) as [gf|] eqn:Hif.
  - destruct (ptime s (c_type c)) as [prev|] eqn:Hpt.
    + destruct ((new_interest gf (c_ifac c) (cdp_debt c) =? 0) && (c_upd c =? prev)) eqn:Hno.
      * exists s, c. split; [reflexivity|]. repeat split; auto.
        -- intros t id. destruct (Nat.eqb_spec t (c_type c)) as [->|]; [destruct (Nat.eqb_spec id (c_id c)) as [->|]|]; cbn [andb]; auto.
        -- intros t. destruct (Nat.eqb_spec t (c_type c)) as [->|]; [rewrite Hif|]; reflexivity.
        -- left. apply andb_true_iff in Hno. destruct Hno as [A B]. apply Z.eqb_eq in A, B. auto.
      * set (acc := new_interest gf (c_ifac c) (cdp_debt c)) in *.
        set (c0 := if acc =? 0 then with_fees c (c_fees c) prev (c_ifac c) else c).
        set (s0 := if acc =? 0 then put_cdp s c0 else s).
        set (c2 := with_fees c0 (c_fees c0 + acc) prev gf).
        assert (K0 : c_type c0 = c_type c /\ c_id c0 = c_id c /\ c_coll c0 = c_coll c /\ c_prin c0 = c_prin c /\ c_fees c0 = c_fees c)
          by (unfold c0; destruct (acc =? 0); cbn; auto).
        destruct K0 as (K1 & K2 & K3 & K4 & K5).
        assert (Hst0 : cdps s0 (c_type c) (c_id c) = Some c0).
        { unfold s0, c0. destruct (acc =? 0); [|exact Hst]. cbn. unfold upd2. rewrite !Nat.eqb_refl. reflexivity. }
        assert (Hs0 : forall t id, cdps s0 t id = if Nat.eqb t (c_type c) && Nat.eqb id (c_id c) then Some c0 else cdps s t id).
        { intros t id. unfold s0. destruct (acc =? 0) eqn:Ez.
          - cbn [cdps put_cdp set_cdps]. unfold upd2. rewrite K1, K2. reflexivity.
          - destruct (Nat.eqb_spec t (c_type c)) as [->|]; [destruct (Nat.eqb_spec id (c_id c)) as [->|]|]; cbn [andb]; auto. }
        assert (Hr0 : ridx s0 = ridx s /\ ifac s0 = ifac s) by (unfold s0; destruct (acc =? 0); split; reflexivity).
        destruct Hr0 as [Hr0 Hi0].
        unfold update_cdp, get_cdp. change (c_type c2) with (c_type c0). change (c_id c2) with (c_id c0).
        rewrite K1, K2, Hcp, Hst0.
        eexists _, c2. split; [reflexivity|]. repeat split.
        -- intros t id. cbn. unfold upd2. rewrite K1, K2.
           destruct (Nat.eqb t (c_type c) && Nat.eqb id (c_id c)) eqn:E; [reflexivity|].
           rewrite Hs0, E. reflexivity.
        -- intros t Ht. cbn. unfold upd. rewrite K1.
           destruct (Nat.eqb_spec t (c_type c)); [contradiction|]. rewrite Hr0. reflexivity.
        -- intros Hs t. cbn. unfold upd. rewrite K1.
           destruct (Nat.eqb_spec t (c_type c)) as [->|]; [|rewrite Hr0; apply Hs].
           rewrite Nat.eqb_refl. apply ent_ins_sorted, ent_del_sorted. rewrite Hr0. apply Hs.
        -- intros t. cbn. rewrite Hi0. destruct (Nat.eqb_spec t (c_type c)) as [->|]; [rewrite Hif|]; reflexivity.
        -- exact K3.
        -- exact K4.
        -- right. cbn. rewrite K5. auto.
    + exists s, c. split; [reflexivity|]. repeat split; auto.
      * intros t id. destruct (Nat.eqb_spec t (c_type c)) as [->|]; [destruct (Nat.eqb_spec id (c_id c)) as [->|]|]; cbn [andb]; auto.
      * intros t. destruct (Nat.eqb_spec t (c_type c)) as [->|]; [rewrite Hif|]; reflexivity.
  - eexists _, _. split; [reflexivity|]. repeat split; auto.
    + intros t. cbn. unfold upd. destruct (Nat.eqb_spec t (c_type c)) as [->|]; [rewrite Hif|]; reflexivity.
Qed.

(** * The invariant the round trip rests on *)

Definition GI (e : env) (s : state) : Prop := Inv3 e s /\ idx_sorted s /\ vals_ok s.

Lemma env_same_ptimes e s s1 : env_same s s1 -> ptimes_set e s -> ptimes_set e s1.
Proof. intros (_&_&_&_&_&_&_&_&Hp&_) H t Ht. rewrite Hp. apply H, Ht. Qed.

Lemma sync_interest_GI e s cp c s1 c1 :
  GI e s -> get_cp e (c_type c) = Some cp -> cdps s (c_type c) (c_id c) = Some c ->
  sync_interest e s cp c = Ok s1 c1 -> GI e s1.
Proof.
  intros ((HI & HC & HO) & (HSo & HSr) & HV) Hcp Hst H.
  destruct (sync_interest_char e s cp c Hcp Hst) as (s1' & c1' & H' & Hcd & Hrx & Hsrt & Hif & Hco & Hpr & Hcase).
  rewrite H in H'. inversion H'; subst s1' c1'. clear H'.
  pose proof (sync_interest_spec _ _ _ _ _ _ H) as (Henv & Hid & Hty & Hown & _).
  split; [|split].
  - split; [|split].
    + eapply sync_interest_IdxInv; eassumption.
    + eapply sync_interest_CustInv; eassumption.
    + destruct (sync_interest_own _ _ _ _ _ _ Hst H) as [A B]. eapply OwnInv_view; eassumption.
  - split.
    + destruct Henv as (_&_&_&_&_&Ho&_). rewrite Ho. exact HSo.
    + apply Hsrt, HSr.
  - destruct HV as (V0 & Vc & Vf & Vp & Vt & Vn).
    destruct Henv as (_&_&_&_&_&_&Htp&_&Hpt&_&Hnow&_).
    assert (Vf1 : forall t f, ifac s1 t = Some f -> PREC <= f).
    { intros t f. rewrite Hif. destruct (Nat.eqb t (c_type c)); [|apply Vf].
      intros E; inversion E; subst. unfold dflt. destruct (ifac s t) eqn:Ei; [eapply Vf, Ei|lia]. }
    destruct (Vc _ _ _ Hst) as (P1 & P2 & P3 & P4 & gf & Eg & P5).
    rewrite Eg in Hcase.
    assert (Hif' : forall t, ifac s1 t = ifac s t).
    { intros t. rewrite Hif. destruct (Nat.eqb_spec t (c_type c)) as [->|]; [rewrite Eg|]; reflexivity. }
    split; [|split; [|split; [exact Vf1|split; [|split]]]].
    + intros t. rewrite Hcd. destruct (Nat.eqb_spec t (c_type c)) as [->|]; [|apply V0].
      destruct (Nat.eqb_spec 0 (c_id c)) as [E|]; cbn [andb]; [|apply V0].
      rewrite <- E in Hst. rewrite V0 in Hst. discriminate.
    + intros t id c' Hc'. rewrite Hcd in Hc'. rewrite Hif'.
      destruct (Nat.eqb t (c_type c) && Nat.eqb id (c_id c)) eqn:Ek; [|apply Vc in Hc'; exact Hc'].
      apply andb_true_iff in Ek. destruct Ek as [Ek1 Ek2]. apply Nat.eqb_eq in Ek1, Ek2. subst t id.
      inversion Hc'; subst c'. clear Hc'. rewrite Hpr.
      destruct (ptime s (c_type c)) as [prev|] eqn:Ep.
      * destruct Hcase as [(-> & _)|(F1 & F2 & F3)].
        -- repeat split; try assumption. exists gf. auto.
        -- rewrite F1, F2, F3. repeat split; try assumption.
           ++ pose proof (new_interest_nonneg gf (c_ifac c) (cdp_debt c) ltac:(unfold PREC in *; lia) P5 ltac:(unfold cdp_debt; lia)). lia.
           ++ eapply Vp, Ep.
           ++ eapply Vf, Eg.
           ++ exists gf. split; [exact Eg|lia].
      * subst c1. repeat split; try assumption. exists gf. auto.
    + intros t p. rewrite Hpt. apply Vp.
    + intros t. rewrite Htp. apply Vt.
    + rewrite Hnow. exact Vn.
Qed.

(** * ExportGenesis *)

Definition stored (e : env) (s : state) (c : cdp) : Prop :=
  (c_type c < ntypes e)%nat /\ cdps s (c_type c) (c_id c) = Some c.

Lemma stored_cp e s c : stored e s c -> exists cp, get_cp e (c_type c) = Some cp.
Proof.
  intros [Ht _]. unfold get_cp, ntypes in *. destruct (nth_error (cps e) (c_type c)) eqn:E; [eauto|].
  apply nth_error_None in E. lia.
Qed.

Definition deps_of (e : env) (s : state) (c : cdp) : list (nat * nat * Z) :=
  map (fun d : nat * Z => (c_id c, fst d, snd d)) (dep_list e s (c_id c)).

Lemma dep_list_deps e s s' id : deps s' = deps s -> dep_list e s' id = dep_list e s id.
Proof. intros H. unfold dep_list. rewrite H. reflexivity. Qed.

Definition same_key (c c' : cdp) : Prop := c_type c' = c_type c /\ c_id c' = c_id c.

(* the loop over the stored cdps: never panics; every listed cdp ends up synchronised and
   exported as stored; the others are untouched; deposits are read as they are *)
Lemma export_cdps_spec e : forall l s,
  GI e s -> NoDup l -> (forall c, In c l -> stored e s c) ->
  exists s1 cs, export_cdps e s l = Ok s1 (cs, flat_map (deps_of e s) l) /\
    GI e s1 /\ env_same s s1 /\
    (forall t id, (forall c, In c l -> ~ (c_type c = t /\ c_id c = id)) -> cdps s1 t id = cdps s t id) /\
    Forall2 (fun c c1 => same_key c c1 /\ stored e s1 c1) l cs.
Proof.
  induction l as [|c r IH]; intros s HG Hnd Hst.
  - exists s, []. cbn. split; [reflexivity|]. split; [exact HG|]. split; [apply env_same_refl|]. split; [reflexivity|constructor].
  - inversion Hnd as [|? ? Hnotin Hnd']; subst.
    pose proof (Hst c (or_introl eq_refl)) as Hc. destruct (stored_cp _ _ _ Hc) as [cp Hcp]. destruct Hc as [Hct Hcs].
    destruct (sync_interest_char e s cp c Hcp Hcs) as (s' & c1 & Hsy & Hcd & _ & _ & _ & _ & _ & _).
    pose proof (sync_interest_GI _ _ _ _ _ _ HG Hcp Hcs Hsy) as HG'.
    pose proof (sync_interest_spec _ _ _ _ _ _ Hsy) as (Henv & Hid & Hty & _).
    assert (Hst' : forall c', In c' r -> stored e s' c').
    { intros c' Hin. destruct (Hst c' (or_intror Hin)) as [A B]. split; [exact A|]. rewrite Hcd.
      destruct (Nat.eqb_spec (c_type c') (c_type c)) as [Et|]; [destruct (Nat.eqb_spec (c_id c') (c_id c)) as [Ei|]|]; cbn [andb]; try exact B.
      exfalso. rewrite Et, Ei in B. rewrite Hcs in B. inversion B; subst. contradiction. }
    destruct (IH s' HG' Hnd' Hst') as (s1 & cs & Hex & HG1 & Henv1 & Hoth & Hall).
    exists s1, (c1 :: cs). cbn [export_cdps flat_map]. rewrite Hcp, Hsy, Hex.
    assert (Hd : deps s' = deps s) by (destruct Henv as (_&_&_&_&Hd&_); exact Hd).
    split.
    { f_equal. f_equal. f_equal.
      - unfold deps_of. rewrite (dep_list_deps e s s' _ Hd). reflexivity.
      - apply flat_map_ext. intros a. unfold deps_of. rewrite (dep_list_deps e s s' _ Hd). reflexivity. }
    split; [exact HG1|]. split; [eapply env_same_trans; eassumption|]. split.
    + intros t id Hno. rewrite Hoth by (intros c' Hin; apply Hno; right; exact Hin). rewrite Hcd.
      destruct (Nat.eqb_spec t (c_type c)) as [->|]; [destruct (Nat.eqb_spec id (c_id c)) as [->|]|]; cbn [andb]; try reflexivity.
      exfalso. apply (Hno c (or_introl eq_refl)). auto.
    + constructor; [|exact Hall]. split; [split; assumption|]. split; [rewrite Hty; exact Hct|].
      rewrite Hoth.
      * rewrite Hcd, Hty, Hid, !Nat.eqb_refl. reflexivity.
      * intros c' Hin [E1 E2]. destruct (Hst c' (or_intror Hin)) as [_ B].
        rewrite E1, E2, Hty, Hid, Hcs in B. inversion B; subst. contradiction.
Qed.

(** * The cdp store in key order *)

Lemma NoDup_app' {A} (l1 l2 : list A) :
  NoDup l1 -> NoDup l2 -> (forall x, In x l1 -> ~ In x l2) -> NoDup (l1 ++ l2).
Proof.
  induction l1 as [|a r IH]; intros H1 H2 Hd; cbn; [exact H2|].
  inversion H1; subst. constructor.
  - rewrite in_app_iff. intros [Hin|Hin]; [contradiction|]. apply (Hd a); [left; reflexivity|exact Hin].
  - apply IH; try assumption. intros x Hx. apply Hd. right; exact Hx.
Qed.

Lemma NoDup_flat_map {A B} (f : A -> list B) : forall l,
  NoDup l -> (forall a, In a l -> NoDup (f a)) ->
  (forall a a' b, In a l -> In a' l -> In b (f a) -> In b (f a') -> a = a') ->
  NoDup (flat_map f l).
Proof.
  induction l as [|a r IH]; intros Hnd Hf Hdis; cbn; [constructor|].
  inversion Hnd; subst. apply NoDup_app'.
  - apply Hf. left; reflexivity.
  - apply IH; try assumption.
    + intros a' Ha'. apply Hf. right; exact Ha'.
    + intros a1 a2 b G1 G2. apply Hdis; right; assumption.
  - intros b Hb Hb'. apply in_flat_map in Hb'. destruct Hb' as (a' & Ha' & Hb').
    assert (a = a') by (eapply Hdis; [left; reflexivity|right; exact Ha'|exact Hb|exact Hb']). subst. contradiction.
Qed.

Lemma in_cdps_of_type s t c :
  In c (cdps_of_type s t) <-> exists id, (id < nextid s)%nat /\ cdps s t id = Some c.
Proof.
  unfold cdps_of_type. rewrite in_flat_map. split.
  - intros (id & Hid & Hc). apply in_seq in Hid. exists id. split; [lia|].
    destruct (cdps s t id); [|contradiction]. destruct Hc as [->|[]]. reflexivity.
  - intros (id & Hid & Hc). exists id. split; [apply in_seq; lia|]. rewrite Hc. left; reflexivity.
Qed.

Lemma in_all_cdps e s c : key_ok s -> ids_ok s -> In c (all_cdps e s) <-> stored e s c.
Proof.
  intros Hk Hi. unfold all_cdps, stored. rewrite in_flat_map. split.
  - intros (t & Ht & Hc). apply in_seq in Ht. apply in_cdps_of_type in Hc. destruct Hc as (id & _ & Hc).
    destruct (Hk _ _ _ Hc) as [-> ->]. split; [lia|exact Hc].
  - intros [Ht Hc]. exists (c_type c). split; [apply in_seq; lia|]. apply in_cdps_of_type. exists (c_id c).
    split; [eapply Hi, Hc|exact Hc].
Qed.

Lemma nodup_all_cdps e s : key_ok s -> NoDup (all_cdps e s).
Proof.
  intros Hk. unfold all_cdps. apply NoDup_flat_map.
  - apply seq_NoDup.
  - intros t _. unfold cdps_of_type. apply NoDup_flat_map.
    + apply seq_NoDup.
    + intros id _. destruct (cdps s t id); repeat constructor. intros [].
    + intros id id' c _ _ H1 H2.
      destruct (cdps s t id) as [c1|] eqn:E1; [|contradiction]. destruct H1 as [->|[]].
      destruct (cdps s t id') as [c2|] eqn:E2; [|contradiction]. destruct H2 as [->|[]].
      destruct (Hk _ _ _ E1) as [_ <-]. destruct (Hk _ _ _ E2) as [_ <-]. reflexivity.
  - intros t t' c _ _ H1 H2. apply in_cdps_of_type in H1, H2.
    destruct H1 as (i1 & _ & E1). destruct H2 as (i2 & _ & E2).
    destruct (Hk _ _ _ E1) as [<- _]. destruct (Hk _ _ _ E2) as [<- _]. reflexivity.
Qed.

(** * What an exported genesis says about the exporting context's final state *)

Definition opt0 (o : option Z) : Z := match o with Some p => p | None => 0 end.

Definition gen_of (e : env) (s : state) (g : genesis) : Prop :=
  NoDup (g_cdps g) /\
  (forall c, In c (g_cdps g) <-> stored e s c) /\
  (forall id u a, In (id, u, a) (g_deps g) <-> deps s id u = Some a) /\
  g_start g = nextid s /\
  g_accs g = map (fun t => (t, opt0 (ptime s t), dflt (ifac s t))) (seq 0 (ntypes e)) /\
  g_tprins g = map (fun t => (t, tprin s t)) (seq 0 (ntypes e)).

Lemma export_types_spec s : forall ts, (forall t, In t ts -> ptime s t <> None) ->
  export_types s ts = Some (map (fun t => (t, opt0 (ptime s t), dflt (ifac s t))) ts, map (fun t => (t, tprin s t)) ts).
Proof.
  induction ts as [|t r IH]; intros H; cbn [export_types map]; [reflexivity|].
  destruct (ptime s t) as [p|] eqn:E; [|exfalso; apply (H t); [left; reflexivity|exact E]].
  rewrite IH by (intros t' Ht'; apply H; right; exact Ht'). reflexivity.
Qed.

Lemma Forall2_in_l {A B} (R : A -> B -> Prop) l1 l2 a :
  Forall2 R l1 l2 -> In a l1 -> exists b, In b l2 /\ R a b.
Proof.
  induction 1 as [|x y r1 r2 Hxy _ IH]; intros Hin; [destruct Hin|].
  destruct Hin as [->|Hin]; [exists y; split; [left; reflexivity|exact Hxy]|].
  destruct (IH Hin) as (b & Hb & Hr). exists b. split; [right; exact Hb|exact Hr].
Qed.

Lemma Forall2_in_r {A B} (R : A -> B -> Prop) l1 l2 b :
  Forall2 R l1 l2 -> In b l2 -> exists a, In a l1 /\ R a b.
Proof.
  induction 1 as [|x y r1 r2 Hxy _ IH]; intros Hin; [destruct Hin|].
  destruct Hin as [->|Hin]; [exists x; split; [left; reflexivity|exact Hxy]|].
  destruct (IH Hin) as (a & Ha & Hr). exists a. split; [right; exact Ha|exact Hr].
Qed.

Lemma key_dec (l : list cdp) t id :
  (exists c, In c l /\ c_type c = t /\ c_id c = id) \/ (forall c, In c l -> ~ (c_type c = t /\ c_id c = id)).
Proof.
  induction l as [|c r IH]; [right; intros c []|].
  destruct (Nat.eq_dec (c_type c) t) as [Et|Nt]; [destruct (Nat.eq_dec (c_id c) id) as [Ei|Ni]|].
  - left. exists c. split; [left; reflexivity|auto].
  - destruct IH as [(c' & Hin & Hk)|Hno]; [left; exists c'; split; [right; exact Hin|exact Hk]|].
    right. intros c' [<-|Hin]; [intros [_ E]; contradiction|apply Hno, Hin].
  - destruct IH as [(c' & Hin & Hk)|Hno]; [left; exists c'; split; [right; exact Hin|exact Hk]|].
    right. intros c' [<-|Hin]; [intros [E _]; contradiction|apply Hno, Hin].
Qed.

Lemma Forall2_nodup (l cs : list cdp) (P : cdp -> Prop) :
  Forall2 (fun c c1 => same_key c c1 /\ P c1) l cs -> NoDup l ->
  (forall c c', In c l -> In c' l -> c_type c = c_type c' -> c_id c = c_id c' -> c = c') -> NoDup cs.
Proof.
  induction 1 as [|c c1 r rs [[K1 K2] _] Hall IH]; intros Hnd Hinj; constructor.
  - intros Hin. destruct (Forall2_in_r _ _ _ _ Hall Hin) as (c' & Hc' & [K1' K2'] & _).
    inversion Hnd; subst. assert (c = c') by (apply Hinj; [left; reflexivity|right; exact Hc'|congruence|congruence]).
    subst. contradiction.
  - inversion Hnd; subst. apply IH; [assumption|]. intros a b Ha Hb. apply Hinj; right; assumption.
Qed.

Theorem export_genesis_spec e s :
  GI e s -> ptimes_set e s ->
  exists s1 g, export_genesis e s = Ok s1 g /\ GI e s1 /\ env_same s s1 /\ ptimes_set e s1 /\ gen_of e s1 g.
Proof.
  intros HG Hpt. pose proof HG as (((Hk & Hr & Hi) & HC & HO) & _ & _).
  destruct (export_cdps_spec e (all_cdps e s) s HG (nodup_all_cdps e s Hk)
              (fun c Hc => proj1 (in_all_cdps e s c Hk Hi) Hc)) as (s1 & cs & Hex & HG1 & Henv & Hoth & Hall).
  pose proof (env_same_ptimes e s s1 Henv Hpt) as Hpt1.
  exists s1. eexists. unfold export_genesis. rewrite Hex.
  rewrite (export_types_spec s1 (seq 0 (ntypes e))) by (intros t Ht; apply in_seq in Ht; apply Hpt1; lia).
  split; [reflexivity|]. split; [exact HG1|]. split; [exact Henv|]. split; [exact Hpt1|].
  pose proof HG1 as (((Hk1 & _ & Hi1) & HC1 & _) & _ & _).
  destruct Henv as (_&_&_&_&Hd&_&_&Hn&_).
  split; [|split; [|split; [|split; [reflexivity|split; reflexivity]]]]; cbn [g_cdps g_deps].
  - eapply Forall2_nodup; [exact Hall|apply nodup_all_cdps, Hk|].
    intros c c' Hc Hc' E1 E2. apply in_all_cdps in Hc, Hc'; try assumption.
    destruct Hc as [_ Hc]. destruct Hc' as [_ Hc']. rewrite E1, E2 in Hc. congruence.
  - intros c1. split.
    + intros Hin. destruct (Forall2_in_r _ _ _ _ Hall Hin) as (c & _ & _ & Hs). exact Hs.
    + intros [Ht Hs]. destruct (key_dec (all_cdps e s) (c_type c1) (c_id c1)) as [(c & Hin & E1 & E2)|Hno].
      * destruct (Forall2_in_l _ _ _ _ Hall Hin) as (c1' & Hin' & (K1 & K2) & (_ & Hs')).
        rewrite K1, K2, E1, E2, Hs in Hs'. inversion Hs'; subst. exact Hin'.
      * exfalso. rewrite (Hoth _ _ Hno) in Hs.
        apply (Hno c1); [|auto]. apply in_all_cdps; [exact Hk|exact Hi|]. split; assumption.
  - intros id u a. rewrite in_flat_map. split.
    + intros (c & _ & Hin). unfold deps_of in Hin. apply in_map_iff in Hin. destruct Hin as ([u' a'] & E & Hin).
      inversion E; subst. apply dep_list_in in Hin. rewrite Hd. tauto.
    + intros Hdep. rewrite Hd in Hdep. destruct HC as (C1 & _ & C3 & _).
      destruct (C3 _ _ _ Hdep) as (_ & Hu & t & Hhas). unfold has in Hhas.
      destruct (cdps s t id) as [c|] eqn:Ec; [|discriminate].
      destruct (Hk _ _ _ Ec) as [Et Ei].
      exists c. split.
      * apply in_all_cdps; [exact Hk|exact Hi|]. split; [|rewrite Et, Ei; exact Ec].
        destruct (C1 t id) as (_ & Hcp & _); [unfold has; rewrite Ec; reflexivity|].
        rewrite Et. unfold get_cp, ntypes in *. apply nth_error_Some. exact Hcp.
      * unfold deps_of. apply in_map_iff. exists (u, a). split; [cbn; rewrite Ei; reflexivity|].
        apply dep_list_in. rewrite Ei. auto.
Qed.

(** * GenesisState.Validate accepts what ExportGenesis produces *)

Lemma unix_pos p : NS <= p -> 0 < unix p.
Proof. intros H. unfold unix. assert (1 <= p / NS); [|lia]. apply Z.div_le_lower_bound; unfold NS in *; lia. Qed.

Theorem export_validates e s g : GI e s -> gen_of e s g -> validate_genesis g = true.
Proof.
  intros (((Hk & _ & Hi) & (C1 & _ & C3 & _) & _) & _ & (V0 & Vc & Vf & Vp & Vt & _)) (_ & Gc & Gd & _ & Ga & Gt).
  unfold validate_genesis. repeat (apply andb_true_iff; split).
  - apply forallb_forall. intros c Hc. apply Gc in Hc. destruct Hc as [_ Hc].
    destruct (Vc _ _ _ Hc) as (P1 & P2 & P3 & _).
    assert (Hid : c_id c <> 0%nat) by (intros E; rewrite E, V0 in Hc; discriminate).
    assert (Hco : 0 <= c_coll c).
    { destruct (C1 (c_type c) (c_id c)) as (E & _); [unfold has; rewrite Hc; reflexivity|].
      unfold coll_of in E. rewrite Hc in E. rewrite E. apply dep_total_nonneg. intros w a Hw. apply (C3 _ _ _ Hw). }
    pose proof (unix_pos _ P3). unfold cdp_valid.
    repeat (apply andb_true_iff; split); try (apply Z.leb_le; assumption); [|apply Z.ltb_lt; assumption].
    apply negb_true_iff, Nat.eqb_neq, Hid.
  - apply forallb_forall. intros [[id u] a] Hd. apply Gd in Hd. destruct (C3 _ _ _ Hd) as (Ha & _ & t & Hh).
    unfold dep_valid. cbn [fst snd]. apply andb_true_iff. split; [|apply Z.leb_le, Ha].
    apply negb_true_iff, Nat.eqb_neq. intros ->. unfold has in Hh. rewrite V0 in Hh. discriminate.
  - rewrite Ga. apply forallb_forall. intros x Hx. apply in_map_iff in Hx. destruct Hx as (t & <- & _). cbn [snd].
    apply Z.leb_le. unfold dflt. destruct (ifac s t) eqn:E; [eapply Vf, E|lia].
  - rewrite Gt. apply forallb_forall. intros x Hx. apply in_map_iff in Hx. destruct Hx as (t & <- & _). cbn [snd].
    apply Z.leb_le, Vt.
Qed.

(** * InitGenesis, loop by loop *)

(* every field but the market status flags *)
Definition same_but_mstat (s s' : state) : Prop :=
  cdps s' = cdps s /\ deps s' = deps s /\ oidx s' = oidx s /\ ridx s' = ridx s /\ tprin s' = tprin s /\
  ifac s' = ifac s /\ ptime s' = ptime s /\ nextid s' = nextid s /\ price s' = price s /\ bal s' = bal s /\
  sup s' = sup s /\ aucs s' = aucs s /\ now s' = now s /\ height s' = height s.

Definition uses (m : nat) (cp : cparam) : bool := Nat.eqb (cp_spot cp) m || Nat.eqb (cp_liqm cp) m.

Lemma init_markets_spec e : forall l s,
  (forall cp, In cp l -> (cp_spot cp < nmarkets e)%nat /\ (cp_liqm cp < nmarkets e)%nat) ->
  exists s', ofold (init_market e) s l = Ok s' tt /\ same_but_mstat s s' /\
    forall m, mstat s' m = if existsb (uses m) l then negb (price s m =? 0) else mstat s m.
Proof.
  induction l as [|cp r IH]; intros s Hm.
  - exists s. cbn. repeat split.
  - destruct (Hm cp (or_introl eq_refl)) as [M1 M2].
    cbn [ofold]. unfold init_market at 1.
    apply Nat.ltb_lt in M1, M2. rewrite M1, M2. cbn [negb].
    set (s1 := fst (update_status (fst (update_status s (cp_spot cp))) (cp_liqm cp))).
    destruct (IH s1 (fun c H => Hm c (or_intror H))) as (s' & Hof & Hsame & Hst).
    exists s'. split; [exact Hof|]. split.
    + destruct Hsame as (a1&a2&a3&a4&a5&a6&a7&a8&a9&a10&a11&a12&a13&a14).
      repeat split; try (etransitivity; [eassumption|reflexivity]).
    + intros m. rewrite Hst. destruct Hsame as (_&_&_&_&_&_&_&_&_&_).
      assert (Hp : price s1 = price s) by reflexivity. rewrite Hp.
      cbn [existsb]. destruct (existsb (uses m) r); [rewrite orb_true_r; reflexivity|]. rewrite orb_false_r.
      unfold s1, update_status. cbn. unfold upd, uses.
      destruct (Nat.eqb_spec m (cp_liqm cp)) as [->|N2].
      * rewrite Nat.eqb_refl, orb_true_r. reflexivity.
      * destruct (Nat.eqb_spec m (cp_spot cp)) as [->|N1].
        -- rewrite Nat.eqb_refl. reflexivity.
        -- destruct (Nat.eqb_spec (cp_spot cp) m); [congruence|]. destruct (Nat.eqb_spec (cp_liqm cp) m); [congruence|]. reflexivity.
Qed.

Lemma init_accs_spec (p f : nat -> Z) : forall ts s,
  (forall t, In t ts -> NS <= p t) ->
  let s' := fold_left init_acc (map (fun t => (t, p t, f t)) ts) s in
  ifac s' = fold_left (fun m t => upd m t (Some (f t))) ts (ifac s) /\
  ptime s' = fold_left (fun m t => upd m t (Some (p t))) ts (ptime s) /\
  cdps s' = cdps s /\ deps s' = deps s /\ oidx s' = oidx s /\ ridx s' = ridx s /\ tprin s' = tprin s /\
  nextid s' = nextid s /\ mstat s' = mstat s /\ price s' = price s /\ bal s' = bal s /\
  sup s' = sup s /\ aucs s' = aucs s /\ now s' = now s /\ height s' = height s.
Proof.
  induction ts as [|t r IH]; intros s Hp; cbn [map fold_left]; [repeat split|].
  assert (E : init_acc s (t, p t, f t) = set_ptime (set_ifac s (upd (ifac s) t (Some (f t)))) (upd (ptime s) t (Some (p t)))).
  { unfold init_acc. pose proof (unix_pos (p t) (Hp t (or_introl eq_refl))) as U. apply Z.ltb_lt in U. rewrite U. reflexivity. }
  rewrite E. specialize (IH (set_ptime (set_ifac s (upd (ifac s) t (Some (f t)))) (upd (ptime s) t (Some (p t)))) (fun t' H => Hp t' (or_intror H))).
  cbn zeta in IH. exact IH.
Qed.

Lemma init_tprins_spec (v : nat -> Z) : forall ts s,
  let s' := fold_left init_tprin (map (fun t => (t, v t)) ts) s in
  tprin s' = fold_left (fun m t => upd m t (v t)) ts (tprin s) /\
  cdps s' = cdps s /\ deps s' = deps s /\ oidx s' = oidx s /\ ridx s' = ridx s /\ ifac s' = ifac s /\ ptime s' = ptime s /\
  nextid s' = nextid s /\ mstat s' = mstat s /\ price s' = price s /\ bal s' = bal s /\
  sup s' = sup s /\ aucs s' = aucs s /\ now s' = now s /\ height s' = height s.
Proof.
  induction ts as [|t r IH]; intros s; cbn [map fold_left]; [repeat split|].
  specialize (IH (init_tprin s (t, v t))). cbn zeta in IH. exact IH.
Qed.

(* the three stores the cdp loop writes, as folds over the genesis list *)
Definition put_fold (l : list cdp) (m : nat -> nat -> option cdp) :=
  fold_left (fun m c => upd2 m (c_type c) (c_id c) (Some c)) l m.
Definition oidx_fold (l : list cdp) (m : nat -> list nat) :=
  fold_left (fun m c => upd m (c_owner c) (nat_ins (c_id c) (m (c_owner c)))) l m.
Definition ridx_entry (e : env) (c : cdp) : Z * nat :=
  (rkey (match get_cp e (c_type c) with Some cp => cdp_ratio e cp c | None => 0 end), c_id c).
Definition ridx_fold (e : env) (l : list cdp) (m : nat -> list (Z * nat)) :=
  fold_left (fun m c => upd m (c_type c) (ent_ins (ridx_entry e c) (m (c_type c)))) l m.

Lemma init_cdps_spec e start : forall l s,
  (forall c, In c l -> c_id c <> start /\ get_cp e (c_type c) <> None) ->
  exists s', ofold (init_cdp e start) s l = Ok s' tt /\
    cdps s' = put_fold l (cdps s) /\ oidx s' = oidx_fold l (oidx s) /\ ridx s' = ridx_fold e l (ridx s) /\
    deps s' = deps s /\ tprin s' = tprin s /\ ifac s' = ifac s /\ ptime s' = ptime s /\
    nextid s' = nextid s /\ mstat s' = mstat s /\ price s' = price s /\ bal s' = bal s /\
    sup s' = sup s /\ aucs s' = aucs s /\ now s' = now s /\ height s' = height s.
Proof.
  induction l as [|c r IH]; intros s H.
  - exists s. cbn. repeat split.
  - destruct (H c (or_introl eq_refl)) as [Hid Hcp].
    cbn [ofold]. unfold init_cdp at 1. apply Nat.eqb_neq in Hid. rewrite Hid.
    destruct (get_cp e (c_type c)) as [cp|] eqn:Ecp; [|congruence].
    set (s1 := ridx_ins (oidx_add (put_cdp s c) (c_owner c) (c_id c)) (c_type c) (cdp_ratio e cp c) (c_id c)).
    destruct (IH s1 (fun c' H' => H c' (or_intror H'))) as (s' & Hof & A & B & C & Rest).
    exists s'. split; [exact Hof|]. split; [exact A|]. split; [exact B|]. split; [|exact Rest].
    rewrite C. unfold ridx_fold. cbn [fold_left]. f_equal. unfold ridx_entry. rewrite Ecp. reflexivity.
Qed.

Lemma init_deps_spec : forall (l : list (nat * nat * Z)) s,
  let s' := fold_left init_dep l s in
  deps s' = fold_left (fun m d => upd2 m (fst (fst d)) (snd (fst d)) (Some (snd d))) l (deps s) /\
  cdps s' = cdps s /\ oidx s' = oidx s /\ ridx s' = ridx s /\ tprin s' = tprin s /\ ifac s' = ifac s /\ ptime s' = ptime s /\
  nextid s' = nextid s /\ mstat s' = mstat s /\ price s' = price s /\ bal s' = bal s /\
  sup s' = sup s /\ aucs s' = aucs s /\ now s' = now s /\ height s' = height s.
Proof.
  induction l as [|d r IH]; intros s; cbn [fold_left]; [repeat split|].
  specialize (IH (init_dep s d)). cbn zeta in IH. exact IH.
Qed.

(** * The rebuilt indexes *)

Lemma oidx_fold_spec : forall l m,
  (forall o, StronglySorted Nat.lt (m o)) -> NoDup (map c_id l) ->
  (forall c, In c l -> ~ In (c_id c) (m (c_owner c))) ->
  forall o, StronglySorted Nat.lt (oidx_fold l m o) /\
    forall id, In id (oidx_fold l m o) <-> In id (m o) \/ exists c, In c l /\ c_owner c = o /\ c_id c = id.
Proof.
  induction l as [|c r IH]; intros m Hs Hnd Hfresh o.
  - cbn. split; [apply Hs|]. intros id. split; [auto|intros [H|(c & [] & _)]; exact H].
  - unfold oidx_fold. cbn [fold_left]. fold (oidx_fold r (upd m (c_owner c) (nat_ins (c_id c) (m (c_owner c))))).
    set (m1 := upd m (c_owner c) (nat_ins (c_id c) (m (c_owner c)))).
    cbn [map] in Hnd. inversion Hnd as [|? ? Hnotin Hnd']; subst.
    assert (Hs1 : forall o', StronglySorted Nat.lt (m1 o')).
    { intros o'. unfold m1, upd. destruct (Nat.eqb_spec o' (c_owner c)) as [->|]; [|apply Hs].
      apply nat_ins_sorted; [apply Hfresh; left; reflexivity|apply Hs]. }
    assert (Hf1 : forall c', In c' r -> ~ In (c_id c') (m1 (c_owner c'))).
    { intros c' Hc'. unfold m1, upd. destruct (Nat.eqb_spec (c_owner c') (c_owner c)) as [E|]; [|apply Hfresh; right; exact Hc'].
      rewrite in_nat_ins. intros [E'|Hin].
      - apply Hnotin. rewrite <- E'. apply in_map, Hc'.
      - apply (Hfresh c' (or_intror Hc')). rewrite E. exact Hin. }
    destruct (IH m1 Hs1 Hnd' Hf1 o) as [A B]. split; [exact A|].
    intros id. rewrite B. unfold m1, upd. destruct (Nat.eqb_spec o (c_owner c)) as [->|No].
    + rewrite in_nat_ins. split.
      * intros [[->|H]|(c' & Hc' & E1 & E2)]; [right; exists c; split; [left; reflexivity|auto]|left; exact H|].
        right. exists c'. split; [right; exact Hc'|auto].
      * intros [H|(c' & [<-|Hc'] & E1 & E2)]; [left; right; exact H|left; left; symmetry; exact E2|].
        right. exists c'. auto.
    + split.
      * intros [H|(c' & Hc' & E1 & E2)]; [left; exact H|]. right. exists c'. split; [right; exact Hc'|auto].
      * intros [H|(c' & [<-|Hc'] & E1 & E2)]; [left; exact H|congruence|]. right. exists c'. auto.
Qed.

Lemma ridx_fold_spec e : forall l m,
  (forall t, StronglySorted ent_lt (m t)) ->
  forall t, StronglySorted ent_lt (ridx_fold e l m t) /\
    forall x, In x (ridx_fold e l m t) <-> In x (m t) \/ exists c, In c l /\ c_type c = t /\ x = ridx_entry e c.
Proof.
  induction l as [|c r IH]; intros m Hs t.
  - cbn. split; [apply Hs|]. intros x. split; [auto|intros [H|(c & [] & _)]; exact H].
  - unfold ridx_fold. cbn [fold_left]. fold (ridx_fold e r (upd m (c_type c) (ent_ins (ridx_entry e c) (m (c_type c))))).
    set (m1 := upd m (c_type c) (ent_ins (ridx_entry e c) (m (c_type c)))).
    assert (Hs1 : forall t', StronglySorted ent_lt (m1 t')).
    { intros t'. unfold m1, upd. destruct (Nat.eqb_spec t' (c_type c)) as [->|]; [|apply Hs]. apply ent_ins_sorted, Hs. }
    destruct (IH m1 Hs1 t) as [A B]. split; [exact A|].
    intros x. rewrite B. unfold m1, upd. destruct (Nat.eqb_spec t (c_type c)) as [->|No].
    + rewrite in_ent_ins. split.
      * intros [[->|H]|(c' & Hc' & E1 & E2)]; [right; exists c; split; [left; reflexivity|auto]|left; exact H|].
        right. exists c'. split; [right; exact Hc'|auto].
      * intros [H|(c' & [<-|Hc'] & E1 & E2)]; [left; right; exact H|left; left; exact E2|].
        right. exists c'. auto.
    + split.
      * intros [H|(c' & Hc' & E1 & E2)]; [left; exact H|]. right. exists c'. split; [right; exact Hc'|auto].
      * intros [H|(c' & [<-|Hc'] & E1 & E2)]; [left; exact H|congruence|]. right. exists c'. auto.
Qed.

(* the ratio index is only written for the types of the listed cdps *)
Lemma ridx_fold_other e : forall l m t, (forall c, In c l -> c_type c <> t) -> ridx_fold e l m t = m t.
Proof.
  induction l as [|c r IH]; intros m t H; [reflexivity|].
  unfold ridx_fold. cbn [fold_left]. fold (ridx_fold e r (upd m (c_type c) (ent_ins (ridx_entry e c) (m (c_type c))))).
  rewrite IH by (intros c' Hc'; apply H; right; exact Hc'). unfold upd.
  destruct (Nat.eqb_spec t (c_type c)) as [E|]; [|reflexivity]. exfalso. apply (H c); [left; reflexivity|auto].
Qed.

Lemma NoDup_map_local {A B} (f : A -> B) : forall l,
  (forall x y, In x l -> In y l -> f x = f y -> x = y) -> NoDup l -> NoDup (map f l).
Proof.
  induction l as [|a r IH]; intros Hinj Hnd; cbn; [constructor|]. inversion Hnd; subst. constructor.
  - intros Hin. apply in_map_iff in Hin. destruct Hin as (y & E & Hy).
    assert (y = a) by (apply Hinj; [right; exact Hy|left; reflexivity|exact E]). subst. contradiction.
  - apply IH; [|assumption]. intros x y Hx Hy. apply Hinj; right; assumption.
Qed.

(** * InitGenesis on an exported genesis *)

(* exact description of the imported state in terms of the exporting context's final state *)
Definition imported (e : env) (s s' : state) : Prop :=
  (forall t id, cdps s' t id = cdps s t id) /\
  (forall id u, deps s' id u = deps s id u) /\
  (forall o, oidx s' o = oidx s o) /\
  (forall t, ridx s' t = if Nat.ltb t (ntypes e) then ridx s t else []) /\
  (forall t, tprin s' t = if Nat.ltb t (ntypes e) then tprin s t else 0) /\
  (forall t, ifac s' t = if Nat.ltb t (ntypes e) then Some (dflt (ifac s t)) else None) /\
  (forall t, ptime s' t = if Nat.ltb t (ntypes e) then ptime s t else None) /\
  nextid s' = nextid s /\
  (forall m, mstat s' m = if is_market e m then negb (price s m =? 0) else false) /\
  price s' = price s /\ bal s' = bal s /\ sup s' = sup s /\ aucs s' = aucs s /\
  now s' = now s /\ height s' = height s.

Lemma stored_lt e s t id c : CustInv e s -> cdps s t id = Some c -> (t < ntypes e)%nat.
Proof.
  intros (C1 & _) Hc. destruct (C1 t id) as (_ & Hcp & _); [unfold has; rewrite Hc; reflexivity|].
  unfold get_cp, ntypes in *. apply nth_error_Some. exact Hcp.
Qed.

Theorem init_genesis_spec e s g :
  GI e s -> ptimes_set e s -> markets_ok e -> gen_of e s g ->
  exists s', init_genesis e (wipe s) g = Ok s' tt /\ imported e s s'.
Proof.
  intros HG Hpt Hmk Hgen. pose proof (export_validates e s g HG Hgen) as Hval.
  destruct HG as (((Hk & Hr & Hi) & HC & HO) & (HSo & HSr) & (V0 & Vc & Vf & Vp & Vt & Vn)).
  pose proof HC as (C1 & C2 & C3 & C4).
  destruct Hgen as (Gnd & Gc & Gd & Gs & Ga & Gt).
  unfold init_genesis. rewrite Hval. cbn [negb].
  destruct (init_markets_spec e (cps e) (wipe s) Hmk) as (sA & HofA & SA & MA). rewrite HofA.
  destruct SA as (a1&a2&a3&a4&a5&a6&a7&a8&a9&a10&a11&a12&a13&a14).
  rewrite Ga, Gt.
  pose proof (init_accs_spec (fun t => opt0 (ptime s t)) (fun t => dflt (ifac s t)) (seq 0 (ntypes e)) sA) as HB.
  cbn zeta in HB. set (sB := fold_left init_acc _ sA) in *.
  destruct HB as (b1&b2&b3&b4&b5&b6&b7&b8&b9&b10&b11&b12&b13&b14&b15).
  { intros t Ht. apply in_seq in Ht. destruct (ptime s t) as [p|] eqn:Ep; [cbn; eapply Vp, Ep|]. exfalso. apply (Hpt t); [lia|exact Ep]. }
  pose proof (init_tprins_spec (fun t => tprin s t) (seq 0 (ntypes e)) sB) as HCc.
  cbn zeta in HCc. set (sC := fold_left init_tprin _ sB) in *.
  destruct HCc as (c1&c2&c3&c4&c5&c6&c7&c8&c9&c10&c11&c12&c13&c14&c15).
  destruct (init_cdps_spec e (g_start g) (g_cdps g) sC) as (sD & HofD & d1&d2&d3&d4&d5&d6&d7&d8&d9&d10&d11&d12&d13&d14&d15).
  { intros c Hc. apply Gc in Hc. destruct Hc as [Ht Hc]. split.
    - rewrite Gs. pose proof (Hi _ _ _ Hc). lia.
    - unfold get_cp, ntypes in *. apply nth_error_Some. exact Ht. }
  rewrite HofD.
  pose proof (init_deps_spec (g_deps g) (set_nextid sD (g_start g))) as HE.
  cbn zeta in HE. set (sE := fold_left init_dep _ _) in *.
  destruct HE as (e1&e2&e3&e4&e5&e6&e7&e8&e9&e10&e11&e12&e13&e14&e15).
  exists sE. split; [reflexivity|].
  (* every cdp in the genesis sits under its own key; keys and ids are not repeated *)
  assert (Gkey : forall c c', In c (g_cdps g) -> In c' (g_cdps g) -> c_type c = c_type c' -> c_id c = c_id c' -> c = c').
  { intros c c' Hc Hc' E1 E2. apply Gc in Hc, Hc'. destruct Hc as [_ Hc]. destruct Hc' as [_ Hc']. rewrite E1, E2 in Hc. congruence. }
  assert (Gid : forall c c', In c (g_cdps g) -> In c' (g_cdps g) -> c_id c = c_id c' -> c = c').
  { intros c c' Hc Hc' E. apply Gkey; try assumption. apply Gc in Hc, Hc'. destruct Hc as [_ Hc]. destruct Hc' as [_ Hc'].
    apply (C2 _ _ (c_id c)); unfold has; [rewrite Hc|rewrite E, Hc']; reflexivity. }
  unfold imported. repeat match goal with |- _ /\ _ => split end.
  - (* cdp store *)
    intros t id. rewrite e2. cbn [cdps set_nextid]. rewrite d1, c2, b3, a1. cbn [cdps wipe]. unfold put_fold.
    destruct (cdps s t id) as [c|] eqn:Ec.
    + destruct (Hk _ _ _ Ec) as [Et Ei].
      apply (fold_upd2_hit c_type c_id (fun c => Some c)).
      * intros c' Hc' E1 E2. f_equal. apply Gc in Hc'. destruct Hc' as [_ Hc']. rewrite E1, E2 in Hc'. congruence.
      * exists c. split; [|auto]. apply Gc. split; [rewrite Et; eapply stored_lt; eassumption|rewrite Et, Ei; exact Ec].
    + rewrite (fold_upd2_miss c_type c_id (fun c => Some c)); [reflexivity|].
      intros c' Hc' [E1 E2]. apply Gc in Hc'. destruct Hc' as [_ Hc']. rewrite E1, E2 in Hc'. congruence.
  - (* deposits *)
    intros id u. rewrite e1. cbn [deps set_nextid]. rewrite d4, c3, b4, a2. cbn [deps wipe].
    destruct (deps s id u) as [a|] eqn:Ed.
    + apply (fold_upd2_hit (fun d : nat * nat * Z => fst (fst d)) (fun d => snd (fst d)) (fun d => Some (snd d))).
      * intros [[id' u'] a'] Hd E1 E2. cbn in E1, E2. subst. apply Gd in Hd. cbn. congruence.
      * exists (id, u, a). split; [apply Gd, Ed|auto].
    + rewrite (fold_upd2_miss (fun d : nat * nat * Z => fst (fst d)) (fun d => snd (fst d)) (fun d => Some (snd d))); [reflexivity|].
      intros [[id' u'] a'] Hd [E1 E2]. cbn in E1, E2. subst. apply Gd in Hd. congruence.
  - (* owner index *)
    intros o. rewrite e3. cbn [oidx set_nextid]. rewrite d2, c4, b5, a3. cbn [oidx wipe].
    destruct (oidx_fold_spec (g_cdps g) (fun _ => [])) with (o := o) as [A B].
    + intros _. constructor.
    + apply NoDup_map_local; assumption.
    + intros c _ [].
    + apply (ssorted_ext Nat.lt nat_lt_irrefl nat_lt_trans); [exact A|apply HSo|].
      intros id. rewrite B. destruct (HO o) as [_ Ho]. rewrite Ho. split.
      * intros [[]|(c & Hc & E1 & E2)]. apply Gc in Hc. destruct Hc as [_ Hc]. exists (c_type c). unfold owner_of. rewrite <- E2, Hc, E1. reflexivity.
      * intros (t & Ht). unfold owner_of in Ht. destruct (cdps s t id) as [c|] eqn:Ec; [|discriminate]. inversion Ht; subst.
        destruct (Hk _ _ _ Ec) as [Et Ei]. right. exists c. split; [|auto].
        apply Gc. split; [rewrite Et; eapply stored_lt; eassumption|rewrite Et, Ei; exact Ec].
  - (* ratio index *)
    intros t. rewrite e4. cbn [ridx set_nextid]. rewrite d3, c5, b6, a4. cbn [ridx wipe].
    destruct (Nat.ltb_spec t (ntypes e)) as [Ht|Ht].
    + destruct (ridx_fold_spec e (g_cdps g) (fun _ => [])) with (t := t) as [A B]; [intros _; constructor|].
      apply (ssorted_ext ent_lt ent_lt_irrefl ent_lt_trans); [exact A|apply HSr|].
      intros [r id]. rewrite B.
      assert (Hcp : exists cp, get_cp e t = Some cp).
      { unfold get_cp, ntypes in *. destruct (nth_error (cps e) t) eqn:E; [eauto|]. apply nth_error_None in E. lia. }
      destruct Hcp as [cp Hcp]. destruct (Hr t cp Hcp) as [_ Hin]. rewrite Hin. split.
      * intros [[]|(c & Hc & E1 & E2)]. apply Gc in Hc. destruct Hc as [_ Hc]. unfold ridx_entry in E2. rewrite E1, Hcp in E2.
        inversion E2; subst. exists c. split; [exact Hc|reflexivity].
      * intros (c & Ec & ->). destruct (Hk _ _ _ Ec) as [Et Ei]. right. exists c. split; [|split; [exact Et|]].
        -- apply Gc. split; [rewrite Et; exact Ht|rewrite Et, Ei; exact Ec].
        -- unfold ridx_entry. rewrite Et, Hcp, Ei. reflexivity.
    + apply ridx_fold_other. intros c Hc. apply Gc in Hc. destruct Hc as [Hc _]. lia.
  - intros t. rewrite e5. cbn [tprin set_nextid]. rewrite d5, c1, b7, a5. cbn [tprin wipe]. apply fold_upd_seq.
  - intros t. rewrite e6. cbn [ifac set_nextid]. rewrite d6, c6, b1, a6. cbn [ifac wipe].
    rewrite (fold_upd_seq (fun t => Some (dflt (ifac s t)))). reflexivity.
  - intros t. rewrite e7. cbn [ptime set_nextid]. rewrite d7, c7, b2, a7. cbn [ptime wipe].
    rewrite (fold_upd_seq (fun t => Some (opt0 (ptime s t)))).
    destruct (Nat.ltb_spec t (ntypes e)) as [Ht|Ht]; [|reflexivity].
    destruct (ptime s t) eqn:Ep; [reflexivity|]. exfalso. apply (Hpt t Ht Ep).
  - rewrite e8. cbn [nextid set_nextid]. exact Gs.
  - intros m. rewrite e9. cbn [mstat set_nextid]. rewrite d9, c9, b9, MA. cbn [mstat price wipe]. reflexivity.
  - rewrite e10. cbn [price set_nextid]. rewrite d10, c10, b10, a9. reflexivity.
  - rewrite e11. cbn [bal set_nextid]. rewrite d11, c11, b11, a10. reflexivity.
  - rewrite e12. cbn [sup set_nextid]. rewrite d12, c12, b12, a11. reflexivity.
  - rewrite e13. cbn [aucs set_nextid]. rewrite d13, c13, b13, a12. reflexivity.
  - rewrite e14. cbn [now set_nextid]. rewrite d14, c14, b14, a13. reflexivity.
  - rewrite e15. cbn [height set_nextid]. rewrite d15, c15, b15, a14. reflexivity.
Qed.

(** * The imported state satisfies the invariants again *)

Lemma CustInv_pointwise e s s' :
  (forall t id, cdps s' t id = cdps s t id) -> (forall id u, deps s' id u = deps s id u) ->
  nextid s' = nextid s -> bal s' = bal s -> CustInv e s -> CustInv e s'.
Proof.
  intros Hc Hd Hn Hb (P1 & P2 & P3 & P4).
  assert (Hv : forall t id, has s' t id = has s t id /\ coll_of s' t id = coll_of s t id)
    by (intros t id; unfold has, coll_of; rewrite Hc; split; reflexivity).
  split; [|split; [|split]].
  - intros t id H. destruct (Hv t id) as [Hh Hco]. rewrite Hh in H. destruct (P1 t id H) as (A & B & C).
    rewrite Hco, Hn. split; [|split; assumption]. rewrite A. symmetry. apply dep_total_same. intros w. apply Hd.
  - intros t t' id H H'. rewrite (proj1 (Hv t id)) in H. rewrite (proj1 (Hv t' id)) in H'. eapply P2; eassumption.
  - intros id u a H. rewrite Hd in H. destruct (P3 id u a H) as (A & B & t & C). split; [exact A|split; [exact B|]].
    exists t. rewrite (proj1 (Hv t id)). exact C.
  - intros t cp Hcp. rewrite Hb, (P4 t cp Hcp). symmetry. apply custody_ext; [exact Hn|]. intros t0 id. apply Hv.
Qed.

Lemma imported_GI e s s' : GI e s -> ptimes_set e s -> imported e s s' -> GI e s' /\ ptimes_set e s'.
Proof.
  intros (((Hk & Hr & Hi) & HC & HO) & (HSo & HSr) & (V0 & Vc & Vf & Vp & Vt & Vn)) Hpt
         (I1 & I2 & I3 & I4 & I5 & I6 & I7 & I8 & I9 & I10 & I11 & I12 & I13 & I14 & I15).
  assert (Hlt : forall t cp, get_cp e t = Some cp -> (t <? ntypes e)%nat = true).
  { intros t cp H. apply Nat.ltb_lt. unfold get_cp, ntypes in *. apply nth_error_Some. congruence. }
  split; [split; [split; [split; [|split]|split]|split]|].
  - intros t id c H. rewrite I1 in H. eapply Hk, H.
  - intros t cp Hcp. rewrite I4, (Hlt _ _ Hcp). destruct (Hr t cp Hcp) as [A B]. split; [exact A|].
    intros r id. rewrite B. split; intros (c & Hc & E); exists c; [rewrite I1|rewrite <- I1]; auto.
  - intros t id c H. rewrite I1 in H. rewrite I8. eapply Hi, H.
  - eapply CustInv_pointwise; eassumption.
  - intros o. rewrite I3. destruct (HO o) as [A B]. split; [exact A|]. intros id. rewrite B.
    unfold owner_of. split; intros (t & Ht); exists t; [rewrite I1|rewrite <- I1]; exact Ht.
  - split; [intros o; rewrite I3; apply HSo|]. intros t. rewrite I4. destruct (_ <? _)%nat; [apply HSr|constructor].
  - split; [intros t; rewrite I1; apply V0|]. split; [|split; [|split; [|split]]].
    + intros t id c H. rewrite I1 in H. destruct (Vc _ _ _ H) as (P1 & P2 & P3 & P4 & f & Ef & P5).
      repeat split; try assumption. exists f. split; [|exact P5]. rewrite I6.
      replace (t <? ntypes e)%nat with true; [rewrite Ef; reflexivity|]. symmetry. apply Nat.ltb_lt. eapply stored_lt; eassumption.
    + intros t f. rewrite I6. destruct (_ <? _)%nat; [|discriminate]. intros E; inversion E; subst.
      unfold dflt. destruct (ifac s t) eqn:Ei; [eapply Vf, Ei|lia].
    + intros t p. rewrite I7. destruct (_ <? _)%nat; [apply Vp|discriminate].
    + intros t. rewrite I5. destruct (_ <? _)%nat; [apply Vt|lia].
    + rewrite I14. exact Vn.
  - intros t Ht. rewrite I7. apply Nat.ltb_lt in Ht. rewrite Ht. apply Nat.ltb_lt in Ht. apply Hpt, Ht.
Qed.

(* in terms of the equivalence of Model/GenesisCdp.v *)
Lemma imported_equiv e s s' : imported e s s' -> st_equiv e (norm e s) s'.
Proof.
  intros (I1 & I2 & I3 & I4 & I5 & I6 & I7 & I8 & I9 & I10 & I11 & I12 & I13 & I14 & I15).
  unfold st_equiv, norm. cbn [cdps deps oidx ridx tprin ifac ptime nextid mstat price bal sup aucs now height set_mstat set_ifac].
  repeat match goal with |- _ /\ _ => split end; try assumption.
  - intros t Ht. rewrite I4. apply Nat.ltb_lt in Ht. rewrite Ht. reflexivity.
  - intros t Ht. rewrite I5, I6, I7. apply Nat.ltb_lt in Ht. rewrite Ht. repeat split.
  - intros m Hm. rewrite I9, Hm. reflexivity.
Qed.

(* when every type already has an interest factor and the status flags are those of the current
   prices, the import reproduces the exporting context's final state itself *)
Lemma imported_exact e s s' :
  imported e s s' ->
  (forall t, (t < ntypes e)%nat -> ifac s t <> None) ->
  (forall m, is_market e m = true -> mstat s m = negb (price s m =? 0)) ->
  st_equiv e s s'.
Proof.
  intros (I1 & I2 & I3 & I4 & I5 & I6 & I7 & I8 & I9 & I10 & I11 & I12 & I13 & I14 & I15) Hf Hm.
  unfold st_equiv. repeat match goal with |- _ /\ _ => split end; try assumption.
  - intros t Ht. rewrite I4. apply Nat.ltb_lt in Ht. rewrite Ht. reflexivity.
  - intros t Ht. rewrite I5, I6, I7. pose proof (Hf t Ht) as Hft. apply Nat.ltb_lt in Ht. rewrite Ht. repeat split.
    destruct (ifac s t); [reflexivity|congruence].
  - intros m Hmk. rewrite I9, Hmk. symmetry. apply Hm, Hmk.
Qed.

(** * The round trip *)

Theorem cdp_roundtrip e s :
  GI e s -> ptimes_set e s -> markets_ok e ->
  exists s1 g,
    export_genesis e s = Ok s1 g /\ env_same s s1 /\ GI e s1 /\
    validate_genesis g = true /\
    exists s', init_genesis e (wipe s1) g = Ok s' tt /\ imported e s1 s' /\ st_equiv e (norm e s1) s' /\
               GI e s' /\ ptimes_set e s'.
Proof.
  intros HG Hpt Hmk.
  destruct (export_genesis_spec e s HG Hpt) as (s1 & g & Hex & HG1 & Henv & Hpt1 & Hgen).
  exists s1, g. split; [exact Hex|]. split; [exact Henv|]. split; [exact HG1|].
  split; [eapply export_validates; eassumption|].
  destruct (init_genesis_spec e s1 g HG1 Hpt1 Hmk Hgen) as (s' & Hin & Himp).
  exists s'. split; [exact Hin|]. split; [exact Himp|]. split; [apply imported_equiv, Himp|].
  eapply imported_GI; eassumption.
Qed.

Corollary cdp_reimport_ok e s :
  GI e s -> ptimes_set e s -> markets_ok e ->
  exists s', reimport e s = Ok s' tt /\ GI e s' /\ ptimes_set e s'.
Proof.
  intros HG Hpt Hmk. destruct (cdp_roundtrip e s HG Hpt Hmk) as (s1 & g & Hex & _ & _ & _ & s' & Hin & _ & _ & HG' & Hpt').
  exists s'. unfold reimport. rewrite Hex. auto.
Qed.

Theorem cdp_export_validates e s :
  GI e s -> ptimes_set e s ->
  exists s1 g, export_genesis e s = Ok s1 g /\ env_same s s1 /\ GI e s1 /\ validate_genesis g = true.
Proof.
  intros HG Hpt. destruct (export_genesis_spec e s HG Hpt) as (s1 & g & Hex & HG1 & Henv & _ & Hgen).
  exists s1, g. split; [exact Hex|]. split; [exact Henv|]. split; [exact HG1|]. eapply export_validates; eassumption.
Qed.

(* the export never removes an interest factor *)
Lemma export_cdps_ifac e t : forall l s s1 r, ifac s t <> None -> export_cdps e s l = Ok s1 r -> ifac s1 t <> None.
Proof.
  induction l as [|c r IH]; intros s s1 res Hf E; cbn [export_cdps] in E.
  - inversion E; subst. exact Hf.
  - destruct (get_cp e (c_type c)) as [cp|]; try discriminate.
    destruct (sync_interest e s cp c) as [s2 c2| |] eqn:Es; try discriminate.
    destruct (export_cdps e s2 r) as [s3 [cs3 dd3]| |] eqn:E3; try discriminate. inversion E; subst.
    eapply IH; [|exact E3].
    unfold sync_interest in Es. destruct (ifac s (c_type c)) eqn:Ei.
    + destruct (ptime s (c_type c)); [|inversion Es; subst; exact Hf].
      destruct (_ && _); [inversion Es; subst; exact Hf|].
      destruct (update_cdp _ _ _ _ _) as [s4 []| |] eqn:Eu; try discriminate. inversion Es; subst.
      apply update_cdp_env in Eu. destruct Eu as [_ Eu]. rewrite Eu. destruct (_ =? 0); exact Hf.
    + inversion Es; subst. cbn. unfold upd. destruct (Nat.eqb t (c_type c)); [discriminate|exact Hf].
Qed.

Theorem cdp_roundtrip_exact e s :
  GI e s -> ptimes_set e s -> markets_ok e ->
  (forall t, (t < ntypes e)%nat -> ifac s t <> None) ->
  (forall m, is_market e m = true -> mstat s m = negb (price s m =? 0)) ->
  exists s1 g s', export_genesis e s = Ok s1 g /\ init_genesis e (wipe s1) g = Ok s' tt /\ st_equiv e s1 s'.
Proof.
  intros HG Hpt Hmk Hf Hm.
  destruct (cdp_roundtrip e s HG Hpt Hmk) as (s1 & g & Hex & Henv & _ & _ & s' & Hin & Himp & _).
  exists s1, g, s'. split; [exact Hex|]. split; [exact Hin|].
  apply imported_exact; [exact Himp| |].
  - intros t Ht. unfold export_genesis in Hex.
    destruct (export_cdps e s (all_cdps e s)) as [s2 [cs dd]| |] eqn:E; try discriminate.
    destruct (export_types s2 (seq 0 (ntypes e))) as [[a b]|]; try discriminate. inversion Hex; subst s2.
    eapply export_cdps_ifac; [apply Hf, Ht|exact E].
  - destruct Henv as (Hp & Hms & _). intros m Hmm. rewrite Hp, Hms. apply Hm, Hmm.
Qed.
