(* C04, total principal vs. sum of cdp debt: the state invariants the bound rests on
   (interest-factor freshness, accrual times, sorted ratio index) and what every
   message-level operation does to the total principal and to the sum of synchronised debt. *)
From Kava Require Import Base.Prelude Base.Dec Model.Cdp Proofs.CdpRatio Proofs.Cdp Proofs.CdpInv Proofs.CdpInv2
  Proofs.CdpInv3 Proofs.CdpCust Proofs.CdpTotalA.
From Coq Require Import Sorting.Sorted.
Local Open Scope Z_scope.

(** * Definitions *)
(* the global interest factor of a collateral type (one while none is stored) *)
Definition gfac (s : state) (t : nat) : Z := match ifac s t with Some g => g | None => PREC end.
(* a cdp's debt brought up to the factor g, as CalculateNewInterest rounds it *)
Definition debt_at (g : Z) (c : cdp) : Z := chop_round (cdp_debt c * dec_quo g (c_ifac c)).
Definition syn (s : state) (t id : nat) : Z :=
  match cdps s t id with Some c => debt_at (gfac s t) c | None => 0 end.
(* sum of the synchronised debt of the cdps of a type *)
Definition ssum (s : state) (t : nat) : Z := sumN (nextid s) (syn s t).
(* sum of the stored debt, number of stored cdps *)
Definition sdebt (s : state) (t : nat) : Z := sumN (nextid s) (debt_of s t).
Definition one_of (s : state) (t id : nat) : Z := match cdps s t id with Some _ => 1 | None => 0 end.
Definition live (s : state) (t : nat) : Z := sumN (nextid s) (one_of s t).
(* total principal minus synchronised debt *)
Definition drift (s : state) (t : nat) : Z := tprin s t - ssum s t.

Definition cdp_ok (s : state) (t : nat) (c : cdp) : Prop :=
  0 <= c_prin c /\ 0 <= c_fees c /\ PREC <= c_ifac c <= gfac s t /\ c_upd c <= now s /\
  (c_ifac c = gfac s t \/ exists p, ptime s t = Some p /\ c_upd c < p).
(* every stored cdp: amounts not negative, its factor between one and the global factor, and either
   at the global factor or last touched before the accrual time *)
Definition FInv (s : state) : Prop := forall t id c, cdps s t id = Some c -> cdp_ok s t c.
Definition TInv (s : state) : Prop :=
  forall t, PREC <= gfac s t /\ (forall p, ptime s t = Some p -> p <= now s).
Definition ent_lt (a b : Z * nat) : Prop := ent_ltb a b = true.
Definition RS (s : state) : Prop := forall t, StronglySorted ent_lt (ridx s t).

(** * Sorted index lists *)
Lemma ent_lt_trans a b c : ent_lt a b -> ent_lt b c -> ent_lt a c.
Proof.
  unfold ent_lt, ent_ltb. intros H1 H2.
  destruct a as [a1 a2], b as [b1 b2], c as [c1 c2]; cbn [fst snd] in *.
  destruct (Z.ltb_spec a1 b1), (Z.ltb_spec b1 c1), (Z.ltb_spec a1 c1), (Z.eqb_spec a1 b1), (Z.eqb_spec b1 c1), (Z.eqb_spec a1 c1),
    (Nat.ltb_spec a2 b2), (Nat.ltb_spec b2 c2), (Nat.ltb_spec a2 c2); cbn in *; try lia; try discriminate; auto.
Qed.

Lemma ent_lt_irrefl a : ~ ent_lt a a.
Proof.
  unfold ent_lt, ent_ltb. destruct a as [a1 a2]; cbn [fst snd].
  destruct (Z.ltb_spec a1 a1), (Z.eqb_spec a1 a1), (Nat.ltb_spec a2 a2); cbn; try lia; discriminate.
Qed.

Lemma ent_total a b : ent_eqb a b = true \/ ent_lt a b \/ ent_lt b a.
Proof.
  unfold ent_lt, ent_ltb, ent_eqb. destruct a as [a1 a2], b as [b1 b2]; cbn [fst snd].
  destruct (Z.ltb_spec a1 b1), (Z.ltb_spec b1 a1), (Z.eqb_spec a1 b1), (Z.eqb_spec b1 a1),
    (Nat.ltb_spec a2 b2), (Nat.ltb_spec b2 a2), (Nat.eqb_spec a2 b2); cbn; try lia; auto.
Qed.

Lemma sorted_ent_ins x l : StronglySorted ent_lt l -> StronglySorted ent_lt (ent_ins x l).
Proof.
  induction l as [|h tl IH]; intros H; cbn [ent_ins]; [repeat constructor|].
  inversion H as [|? ? Htl Hall]; subst.
  destruct (ent_eqb x h) eqn:Ee; [exact H|].
  destruct (ent_ltb x h) eqn:El.
  - constructor; [exact H|]. constructor; [exact El|].
    eapply Forall_impl; [|exact Hall]. intros a Ha. eapply ent_lt_trans; [exact El|exact Ha].
  - constructor; [apply IH, Htl|].
    apply Forall_forall. intros y Hy. apply in_ent_ins in Hy. destruct Hy as [->|Hy].
    + destruct (ent_total x h) as [E|[L|L]]; [congruence|unfold ent_lt in L; congruence|exact L].
    + rewrite Forall_forall in Hall. apply Hall, Hy.
Qed.

Lemma sorted_filter (p : Z * nat -> bool) l : StronglySorted ent_lt l -> StronglySorted ent_lt (filter p l).
Proof.
  induction l as [|h tl IH]; intros H; cbn [filter]; [constructor|].
  inversion H as [|? ? Htl Hall]; subst. destruct (p h); [|apply IH, Htl].
  constructor; [apply IH, Htl|]. apply Forall_forall. intros y Hy. apply filter_In in Hy.
  rewrite Forall_forall in Hall. apply Hall, Hy.
Qed.

Lemma sorted_ent_del x l : StronglySorted ent_lt l -> StronglySorted ent_lt (ent_del x l).
Proof. apply sorted_filter. Qed.

Lemma RS_ins s t r id : RS s -> RS (ridx_ins s t r id).
Proof.
  intros H t'. cbn. unfold upd. destruct (Nat.eqb t' t); [apply sorted_ent_ins, H|apply H].
Qed.
Lemma RS_del s t r id : RS s -> RS (ridx_del s t r id).
Proof.
  intros H t'. cbn. unfold upd. destruct (Nat.eqb t' t); [apply sorted_ent_del, H|apply H].
Qed.
Lemma RS_eq s s' : ridx s' = ridx s -> RS s -> RS s'.
Proof. intros E H t. rewrite E. apply H. Qed.

(** * Interest of one cdp *)
Lemma new_interest_eq gf cf d : 0 <= d -> d + new_interest gf cf d = chop_round (d * dec_quo gf cf).
Proof.
  intros Hd. unfold new_interest. destruct (Z.eqb_spec (dec_quo gf cf) PREC) as [E|N].
  - rewrite E, chop_round_exact by exact Hd. lia.
  - rewrite dec_mul_of_int_z. unfold dec_round_int. lia.
Qed.

Lemma debt_at_fresh g c : 0 < c_ifac c -> c_ifac c = g -> 0 <= cdp_debt c -> debt_at g c = cdp_debt c.
Proof.
  intros Hp <- Hd. unfold debt_at. rewrite dec_quo_self by exact Hp. apply chop_round_exact, Hd.
Qed.

Lemma debt_at_ge g c : 0 < c_ifac c -> c_ifac c <= g -> 0 <= cdp_debt c -> cdp_debt c <= debt_at g c.
Proof.
  intros Hp Hg Hd. unfold debt_at. pose proof (dec_quo_ge_one g (c_ifac c) Hp Hg) as Q.
  rewrite <- (chop_round_exact (cdp_debt c) Hd) at 1. apply chop_round_mono_nonneg. pose proof PREC_pos. nia.
Qed.

Lemma cdp_ok_debt s t c : cdp_ok s t c -> 0 <= cdp_debt c /\ 0 < c_ifac c.
Proof. intros (A & B & C & _). unfold cdp_debt. pose proof PREC_pos. lia. Qed.

(** * Replacing, adding, removing one record *)
Definition same_g (s s' : state) : Prop :=
  (forall t, gfac s' t = gfac s t) /\ ptime s' = ptime s /\ now s' = now s /\ nextid s' = nextid s.
Definition rep (s s' : state) (t id : nat) (oc : option cdp) : Prop :=
  forall t' id', cdps s' t' id' = if Nat.eqb t' t && Nat.eqb id' id then oc else cdps s t' id'.

Lemma same_g_refl s : same_g s s. Proof. repeat split. Qed.
Lemma same_g_trans s1 s2 s3 : same_g s1 s2 -> same_g s2 s3 -> same_g s1 s3.
Proof. intros (a&b&c&d) (a'&b'&c'&d'). split; [intros t; rewrite a', a; reflexivity|]. repeat split; congruence. Qed.
Lemma same_g_eq s s' : ifac s' = ifac s -> ptime s' = ptime s -> now s' = now s -> nextid s' = nextid s -> same_g s s'.
Proof. intros a b c d. split; [intros t; unfold gfac; rewrite a; reflexivity|]. repeat split; assumption. Qed.
Lemma bank_same_g s s' : bank_only s s' -> same_g s s'.
Proof. intros (_&_&_&_&_&a&b&c&_&_&d&_). apply same_g_eq; assumption. Qed.
Lemma env_same_g s s' : env_same s s' -> ifac s' = ifac s -> same_g s s'.
Proof. intros (_&_&_&_&_&_&_&a&b&_&c&_) d. apply same_g_eq; assumption. Qed.

Lemma rep_trans s1 s2 s3 t id o1 o2 : rep s1 s2 t id o1 -> rep s2 s3 t id o2 -> rep s1 s3 t id o2.
Proof. intros A B t' id'. rewrite B, A. destruct (_ && _); reflexivity. Qed.
Lemma rep_eq_r s1 s2 s3 t id o : rep s1 s2 t id o -> cdps s3 = cdps s2 -> rep s1 s3 t id o.
Proof. intros A E t' id'. rewrite E. apply A. Qed.
Lemma rep_eq_l s1 s2 s3 t id o : cdps s2 = cdps s1 -> rep s2 s3 t id o -> rep s1 s3 t id o.
Proof. intros E A t' id'. rewrite A, E. reflexivity. Qed.
Lemma rep_put s c : rep s (put_cdp s c) (c_type c) (c_id c) (Some c).
Proof. intros t' id'. reflexivity. Qed.
Lemma rep_self s t id : rep s s t id (cdps s t id).
Proof.
  intros t' id'. destruct (Nat.eqb_spec t' t) as [->|]; [destruct (Nat.eqb_spec id' id) as [->|]|]; reflexivity.
Qed.
Lemma rep_get s s' t id oc : rep s s' t id oc -> cdps s' t id = oc.
Proof. intros A. rewrite A, !Nat.eqb_refl. reflexivity. Qed.
Lemma rep_other s s' t id oc t' id' : rep s s' t id oc -> (t', id') <> (t, id) -> cdps s' t' id' = cdps s t' id'.
Proof.
  intros A N. rewrite A. destruct (Nat.eqb_spec t' t) as [->|]; [destruct (Nat.eqb_spec id' id) as [->|]|]; cbn; congruence.
Qed.

Lemma cdp_ok_same s s' t c : same_g s s' -> cdp_ok s t c -> cdp_ok s' t c.
Proof. intros (a&b&c0&d) H. unfold cdp_ok in *. rewrite a, b, c0. exact H. Qed.

Lemma FInv_rep s s' t id oc :
  FInv s -> same_g s s' -> rep s s' t id oc -> (forall c, oc = Some c -> cdp_ok s t c) -> FInv s'.
Proof.
  intros HF Hg Hr Hoc t' id' c Hc. rewrite Hr in Hc.
  destruct (Nat.eqb_spec t' t) as [->|]; [destruct (Nat.eqb_spec id' id) as [->|]|]; cbn [andb] in Hc;
    eapply cdp_ok_same; try exact Hg; eauto.
Qed.

Lemma TInv_same s s' : same_g s s' -> TInv s -> TInv s'.
Proof. intros (a&b&c&d) H t. rewrite a, b, c. apply H. Qed.

Lemma sumN_le n f g : (forall i, (i < n)%nat -> f i <= g i) -> sumN n f <= sumN n g.
Proof.
  induction n as [|n IH]; intros H; cbn [sumN]; [lia|].
  assert (sumN n f <= sumN n g) by (apply IH; intros; apply H; lia). assert (f n <= g n) by (apply H; lia). lia.
Qed.
Lemma sumN_nonneg n f : (forall i, (i < n)%nat -> 0 <= f i) -> 0 <= sumN n f.
Proof. intros H. rewrite <- (sumN_zero n (fun _ => 0)) by reflexivity. apply sumN_le. exact H. Qed.

Definition oc_at (g : Z) (oc : option cdp) : Z := match oc with Some c => debt_at g c | None => 0 end.

(* the sum of synchronised debt after one record was replaced *)
Lemma ssum_rep s s' t id oc :
  same_g s s' -> rep s s' t id oc -> (id < nextid s)%nat ->
  forall t', ssum s' t' = ssum s t' + (if Nat.eqb t' t then oc_at (gfac s t) oc - syn s t id else 0).
Proof.
  intros (a&b&c&d) Hr Hid t'. unfold ssum. rewrite d.
  destruct (Nat.eqb_spec t' t) as [->|N].
  - apply (sumN_change (nextid s) _ _ id); [exact Hid| |].
    + unfold syn. rewrite (rep_get _ _ _ _ _ Hr), a. unfold oc_at. destruct oc; lia.
    + intros j _ Hj. unfold syn. rewrite (rep_other _ _ _ _ _ t j Hr), a by congruence. reflexivity.
  - rewrite Z.add_0_r. apply sumN_ext. intros j _. unfold syn.
    rewrite (rep_other _ _ _ _ _ t' j Hr), a by congruence. reflexivity.
Qed.

(* a new record at the next id *)
Lemma ssum_new s s' t c :
  (forall t0, gfac s' t0 = gfac s t0) -> nextid s' = S (nextid s) -> rep s s' t (nextid s) (Some c) ->
  (forall t0, cdps s t0 (nextid s) = None) ->
  forall t', ssum s' t' = ssum s t' + (if Nat.eqb t' t then debt_at (gfac s t) c else 0).
Proof.
  intros a d Hr Hfree t'. unfold ssum. rewrite d. cbn [sumN].
  rewrite (sumN_ext (nextid s) (syn s' t') (syn s t')).
  2:{ intros j Hj. unfold syn. rewrite (rep_other _ _ _ _ _ t' j Hr), a; [reflexivity|]. intros E; inversion E; lia. }
  f_equal. unfold syn. destruct (Nat.eqb_spec t' t) as [->|N].
  - rewrite (rep_get _ _ _ _ _ Hr), a. reflexivity.
  - rewrite (rep_other _ _ _ _ _ t' (nextid s) Hr), Hfree by congruence. reflexivity.
Qed.

(** * SynchronizeInterest and UpdateCdpAndCollateralRatioIndex *)
Lemma update_cdp_eff e s cp c r s' u :
  update_cdp e s cp c r = Ok s' u ->
  same_g s s' /\ tprin s' = tprin s /\ rep s s' (c_type c) (c_id c) (Some c) /\ (RS s -> RS s').
Proof.
  intros H. pose proof (update_cdp_env _ _ _ _ _ _ _ H) as [He Hi].
  apply update_cdp_spec in H. destruct H as (old & _ & ->).
  split; [apply env_same_g; assumption|]. split; [reflexivity|]. split; [intros t' id'; reflexivity|].
  intros HR. apply RS_ins. apply (RS_eq (ridx_del s (c_type old) (cdp_ratio e cp old) (c_id old))); [reflexivity|]. apply RS_del, HR.
Qed.

Ltac splits := repeat match goal with |- _ /\ _ => split end.

Lemma sync_eff e s cp c s1 c1 :
  TInv s -> cdps s (c_type c) (c_id c) = Some c -> cdp_ok s (c_type c) c ->
  sync_interest e s cp c = Ok s1 c1 ->
  same_g s s1 /\ tprin s1 = tprin s /\ rep s s1 (c_type c) (c_id c) (Some c1) /\ (RS s -> RS s1) /\
  c_id c1 = c_id c /\ c_type c1 = c_type c /\ c_coll c1 = c_coll c /\ c_prin c1 = c_prin c /\
  cdp_debt c1 = debt_at (gfac s (c_type c)) c /\ c_ifac c1 = gfac s (c_type c) /\ cdp_ok s (c_type c) c1.
Proof.
  intros HT Hst Hok. pose proof Hok as (Hp & Hf & [HF1 HF2] & Hu & Hfr).
  destruct (cdp_ok_debt _ _ _ Hok) as [Hd HF0].
  assert (Hself : rep s s (c_type c) (c_id c) (Some c)) by (rewrite <- Hst; apply rep_self).
  assert (Hfresh : c_ifac c = gfac s (c_type c) -> cdp_debt c = debt_at (gfac s (c_type c)) c).
  { intros E. symmetry. apply debt_at_fresh; assumption. }
  pose proof (new_interest_eq (gfac s (c_type c)) (c_ifac c) (cdp_debt c) Hd) as Hni.
  assert (Hacc : 0 <= new_interest (gfac s (c_type c)) (c_ifac c) (cdp_debt c)).
  { assert (cdp_debt c <= debt_at (gfac s (c_type c)) c) by (apply debt_at_ge; assumption). unfold debt_at in *. lia. }
  unfold sync_interest.
  destruct (ifac s (c_type c)) as [gf|] eqn:Eg.
  - assert (EG : gfac s (c_type c) = gf) by (unfold gfac; rewrite Eg; reflexivity).
    rewrite EG in *.
    destruct (ptime s (c_type c)) as [prev|] eqn:Ep.
    + destruct (Z.eqb_spec (new_interest gf (c_ifac c) (cdp_debt c)) 0) as [Ez|Nz]; cbn [andb].
      * destruct (Z.eqb_spec (c_upd c) prev) as [Eu|Nu].
        -- intros H; inversion H; subst s1 c1.
           assert (c_ifac c = gf) by (destruct Hfr as [|(p & Hp0 & Hlt)]; [assumption|inversion Hp0; lia]).
           splits; try assumption; try reflexivity; try (intros HR; exact HR); try (apply same_g_refl); auto.
        -- set (c0 := with_fees c (c_fees c) prev (c_ifac c)).
           destruct (update_cdp _ _ _ _ _) as [s2 []| |] eqn:E; try discriminate.
           intros H; inversion H; subst s2 c1. apply update_cdp_eff in E. destruct E as (G1 & T1 & R1 & S1).
           pose proof (proj2 (HT (c_type c)) prev Ep) as Hprev.
           split; [eapply same_g_trans; [|exact G1]; apply same_g_eq; reflexivity|].
           split; [rewrite T1; reflexivity|].
           split; [eapply rep_trans; [apply (rep_put s c0)|exact R1]|].
           split; [intros HR; apply S1; apply (RS_eq s); [reflexivity|exact HR]|].
           clear R1 G1 T1 S1 H. subst c0. cbn. splits; try reflexivity; try assumption; try lia.
           ++ unfold debt_at in *. unfold cdp_debt in *. cbn. lia.
           ++ unfold cdp_ok. cbn. rewrite EG. splits; try lia; try (left; reflexivity).
      * destruct (update_cdp _ _ _ _ _) as [s2 []| |] eqn:E; try discriminate.
        intros H; inversion H; subst s2 c1. apply update_cdp_eff in E. destruct E as (G1 & T1 & R1 & S1).
        pose proof (proj2 (HT (c_type c)) prev Ep) as Hprev.
        split; [exact G1|]. split; [exact T1|]. split; [exact R1|]. split; [exact S1|].
        cbn. splits; try reflexivity; try assumption; try lia.
        -- unfold debt_at in *. unfold cdp_debt in *. cbn. lia.
        -- unfold cdp_ok. cbn. rewrite EG. splits; try lia; try (left; reflexivity).
    + intros H; inversion H; subst s1 c1.
      assert (c_ifac c = gf) by (destruct Hfr as [|(p & Hp0 & _)]; [assumption|discriminate]).
      splits; try assumption; try reflexivity; try (intros HR; exact HR); try (apply same_g_refl); auto.
  - assert (EG : gfac s (c_type c) = PREC) by (unfold gfac; rewrite Eg; reflexivity).
    rewrite EG in *.
    intros H; inversion H; subst s1 c1. assert (EF : c_ifac c = PREC) by lia.
    split.
    { split; [|repeat split]. intros t. cbn. unfold gfac, upd. cbn.
      destruct (Nat.eqb_spec t (c_type c)) as [->|]; [rewrite Eg|]; reflexivity. }
    split; [reflexivity|]. split; [intros t' id'; reflexivity|]. split; [intros HR; exact HR|].
    cbn. splits; try reflexivity; try assumption; try lia.
    + unfold cdp_debt in *. cbn. rewrite <- (Hfresh EF). reflexivity.
    + unfold cdp_ok. cbn. rewrite EG. splits; try lia; try (left; reflexivity).
Qed.

(** * What one operation does: the invariants are kept, the factors and clocks are untouched, and the
      drift (total principal minus synchronised debt) does not grow in absolute value *)
Definition PInv (s : state) : Prop := FInv s /\ TInv s /\ RS s.
Definition same_c (s s' : state) : Prop := (forall t, gfac s' t = gfac s t) /\ ptime s' = ptime s /\ now s' = now s.
Definition OpEff (s s' : state) : Prop :=
  PInv s' /\ same_c s s' /\ forall t, Z.abs (drift s' t) <= Z.abs (drift s t).

Lemma same_g_c s s' : same_g s s' -> same_c s s'.
Proof. intros (a&b&c&_). repeat split; assumption. Qed.

Lemma debt_at_nonneg g c : 0 <= g -> 0 < c_ifac c -> 0 <= cdp_debt c -> 0 <= debt_at g c.
Proof.
  intros Hg Hf Hd. unfold debt_at. apply chop_round_nonneg.
  pose proof (dec_quo_nonneg g (c_ifac c) Hg Hf). nia.
Qed.

Lemma syn_nonneg s t id : FInv s -> 0 <= syn s t id.
Proof.
  intros HF. unfold syn. destruct (cdps s t id) as [c|] eqn:E; [|lia].
  pose proof (HF _ _ _ E) as Hok. destruct (cdp_ok_debt _ _ _ Hok) as [Hd Hf].
  destruct Hok as (_ & _ & [A B] & _). apply debt_at_nonneg; try assumption. pose proof PREC_pos. lia.
Qed.

Lemma ssum_nonneg s t : FInv s -> 0 <= ssum s t.
Proof. intros HF. apply sumN_nonneg. intros i _. apply syn_nonneg, HF. Qed.

(* pointwise description of the total principal after an operation on type t *)
Definition tprin_is (s s' : state) (t : nat) (v : Z) : Prop :=
  tprin s' t = v /\ forall t', t' <> t -> tprin s' t' = tprin s t'.

Lemma eff_replace s s' t id oc v :
  PInv s -> (id < nextid s)%nat ->
  same_g s s' -> rep s s' t id oc -> RS s' ->
  (forall c, oc = Some c -> cdp_ok s t c) ->
  tprin_is s s' t v ->
  (let dl := oc_at (gfac s t) oc - syn s t id in
   v = tprin s t + dl \/ (tprin s t + dl < 0 /\ v = 0)) ->
  OpEff s s'.
Proof.
  intros (HF & HT & _) Hid Hg Hr HR Hoc [Tv To] Hv.
  assert (HF' : FInv s') by (eapply FInv_rep; eassumption).
  split; [split; [exact HF'|split; [eapply TInv_same; eassumption|exact HR]]|].
  split; [apply same_g_c, Hg|].
  intros t'. unfold drift. rewrite (ssum_rep _ _ _ _ _ Hg Hr Hid t').
  destruct (Nat.eqb_spec t' t) as [->|N]; [|rewrite To by exact N; lia].
  pose proof (ssum_nonneg s' t HF') as Hn. rewrite (ssum_rep _ _ _ _ _ Hg Hr Hid t), Nat.eqb_refl in Hn.
  rewrite Tv. cbv zeta in Hv. lia.
Qed.

(** * Frames *)
Definition pv_eq (s s' : state) : Prop :=
  cdps s' = cdps s /\ ridx s' = ridx s /\ tprin s' = tprin s /\ ifac s' = ifac s /\ ptime s' = ptime s /\
  now s' = now s /\ nextid s' = nextid s.
Lemma pv_refl s : pv_eq s s. Proof. repeat split. Qed.
Lemma pv_trans s1 s2 s3 : pv_eq s1 s2 -> pv_eq s2 s3 -> pv_eq s1 s3.
Proof. intros (a&b&c&d&f&g&h) (a'&b'&c'&d'&f'&g'&h'). repeat split; congruence. Qed.
Lemma bank_pv s s' : bank_only s s' -> pv_eq s s'.
Proof. intros (a&_&_&b&c&d&f&g&_&_&h&_). repeat split; assumption. Qed.
Lemma pv_same_g s s' : pv_eq s s' -> same_g s s'.
Proof. intros (_&_&_&d&f&g&h). apply same_g_eq; assumption. Qed.
Lemma pv_rep s s' t id : pv_eq s s' -> rep s s' t id (cdps s t id).
Proof. intros (a&_). eapply rep_eq_r; [apply rep_self|exact a]. Qed.
Lemma pv_RS s s' : pv_eq s s' -> RS s -> RS s'.
Proof. intros (_&b&_). apply RS_eq, b. Qed.

Ltac pv_chain :=
  repeat first
    [ apply pv_refl
    | eapply pv_trans; [apply bank_pv; first [eapply b_send_frame; eassumption | eapply b_burn_frame; eassumption | apply b_mint_frame]|] ].

(* DepositCollateral *)
Lemma deposit_eff e s o u t cd x s' v :
  IdxInv e s -> PInv s -> deposit e s o u t cd x = Ok s' v -> OpEff s s'.
Proof.
  intros HI HP. pose proof HP as (HF & HT & HR). unfold deposit. destruct (0 <? x); [|discriminate]. cbn [negb].
  destruct (validate_collateral e s t cd) as [cp|] eqn:Ev; [|discriminate].
  apply validate_collateral_ok in Ev. destruct Ev as (Hcp & _).
  destruct (find_cdp e s o t) as [c0|] eqn:Ef; [|discriminate].
  destruct (find_cdp_stored' _ _ _ _ _ _ HI Ef Hcp) as [Ht Hst].
  destruct (bal s u cd <? x); [discriminate|].
  destruct (sync_interest e s cp c0) as [s1 c| |] eqn:Es; try discriminate.
  apply sync_eff in Es; [|exact HT|exact Hst|apply (HF _ _ _ Hst)].
  destruct Es as (G1 & T1 & R1 & S1 & Hid & Hty & Hco & Hpr & Hdb & Hif & Hok).
  destruct (b_send s1 u (CDPM e) cd x) as [s2|] eqn:Eb; [|discriminate].
  intros H. apply update_cdp_eff in H. destruct H as (G3 & T3 & R3 & S3).
  pose proof (bank_pv _ _ (b_send_frame _ _ _ _ _ _ Eb)) as P2.
  cbn [with_coll c_type c_id] in R3. rewrite Hid, Hty in R3.
  assert (Hlt : (c_id c0 < nextid s)%nat) by (destruct HI as (_ & _ & Hi); eapply Hi, Hst).
  eapply (eff_replace s s' (c_type c0) (c_id c0) _ (tprin s (c_type c0))); [exact HP|exact Hlt| | | | | |].
  - eapply same_g_trans; [exact G1|]. eapply same_g_trans; [apply pv_same_g, P2|]. eapply same_g_trans; [|exact G3]. apply same_g_eq; reflexivity.
  - eapply rep_trans; [exact R1|]. eapply rep_eq_l; [|exact R3]. cbn. destruct P2 as (a&_). rewrite a. reflexivity.
  - apply S3. apply (RS_eq s2); [reflexivity|]. eapply pv_RS; [exact P2|]. apply S1, HR.
  - intros c' E; inversion E; subst c'. exact Hok.
  - split; [rewrite T3; cbn; destruct P2 as (_&_&a&_); rewrite a, T1; reflexivity|].
    intros t' _. rewrite T3. cbn. destruct P2 as (_&_&a&_). rewrite a, T1. reflexivity.
  - cbv zeta. left. unfold oc_at, syn. rewrite Hst.
    replace (debt_at (gfac s (c_type c0)) (with_coll c (c_coll c + x))) with (debt_at (gfac s (c_type c0)) c) by reflexivity.
    rewrite debt_at_fresh; [lia| | |]; destruct Hok as (a&b&[c1 c2]&d&f); unfold cdp_debt; pose proof PREC_pos; lia.
Qed.

Lemma fresh_debt s t c : cdp_ok s t c -> c_ifac c = gfac s t -> debt_at (gfac s t) c = cdp_debt c.
Proof.
  intros Hok E. destruct (cdp_ok_debt _ _ _ Hok) as [Hd Hf]. apply debt_at_fresh; [exact Hf|exact E|exact Hd].
Qed.

(* WithdrawCollateral *)
Lemma withdraw_eff e s o u t cd x s' v :
  IdxInv e s -> PInv s -> withdraw e s o u t cd x = Ok s' v -> OpEff s s'.
Proof.
  intros HI HP. pose proof HP as (HF & HT & HR). unfold withdraw. destruct (0 <? x); [|discriminate]. cbn [negb].
  destruct (validate_collateral e s t cd) as [cp|] eqn:Ev; [|discriminate].
  apply validate_collateral_ok in Ev. destruct Ev as (Hcp & _).
  destruct (find_cdp e s o t) as [c0|] eqn:Ef; [|discriminate].
  destruct (find_cdp_stored' _ _ _ _ _ _ HI Ef Hcp) as [Ht Hst].
  destruct (deps s (c_id c0) u) as [a|]; [|discriminate].
  destruct (a <? x); [discriminate|].
  destruct (sync_interest e s cp c0) as [s1 c| |] eqn:Es; try discriminate.
  apply sync_eff in Es; [|exact HT|exact Hst|apply (HF _ _ _ Hst)].
  destruct Es as (G1 & T1 & R1 & S1 & Hid & Hty & Hco & Hpr & Hdb & Hif & Hok).
  destruct (c_coll c <? x); [discriminate|].
  destruct (ratio_gate _ _ _ _ _ _) as [[] []| |]; try discriminate.
  destruct (b_send s1 (CDPM e) u cd x) as [s2|] eqn:Eb; [|discriminate].
  destruct (update_cdp _ _ _ _ _) as [s3 []| |] eqn:Eu; try discriminate.
  intros H. apply update_cdp_eff in Eu. destruct Eu as (G3 & T3 & R3 & S3).
  pose proof (bank_pv _ _ (b_send_frame _ _ _ _ _ _ Eb)) as P2.
  cbn [with_coll c_type c_id] in R3. rewrite Hid, Hty in R3.
  assert (P4 : pv_eq s3 s') by (inversion H; subst; destruct (a - x =? 0); repeat split).
  assert (Hlt : (c_id c0 < nextid s)%nat) by (destruct HI as (_ & _ & Hi); eapply Hi, Hst).
  eapply (eff_replace s s' (c_type c0) (c_id c0) _ (tprin s (c_type c0))); [exact HP|exact Hlt| | | | | |].
  - eapply same_g_trans; [exact G1|]. eapply same_g_trans; [apply pv_same_g, P2|]. eapply same_g_trans; [exact G3|]. apply pv_same_g, P4.
  - eapply rep_eq_r; [|exact (proj1 P4)]. eapply rep_trans; [exact R1|]. eapply rep_eq_l; [|exact R3]. exact (proj1 P2).
  - eapply pv_RS; [exact P4|]. apply S3. eapply pv_RS; [exact P2|]. apply S1, HR.
  - intros c' E; inversion E; subst c'. exact Hok.
  - destruct P4 as (_&_&a4&_). destruct P2 as (_&_&a2&_).
    split; [rewrite a4, T3, a2, T1; reflexivity|]. intros t' _. rewrite a4, T3, a2, T1. reflexivity.
  - cbv zeta. left. unfold oc_at, syn. rewrite Hst.
    replace (debt_at (gfac s (c_type c0)) (with_coll c (c_coll c - x))) with (debt_at (gfac s (c_type c0)) c) by reflexivity.
    rewrite (fresh_debt _ _ _ Hok Hif). lia.
Qed.

(* AddPrincipal *)
Lemma draw_eff e s o t pd x s' v :
  IdxInv e s -> PInv s -> draw e s o t pd x = Ok s' v -> OpEff s s'.
Proof.
  intros HI HP. pose proof HP as (HF & HT & HR). unfold draw. destruct (Z.ltb_spec 0 x) as [Hx|]; [|discriminate]. cbn [negb].
  destruct (find_cdp e s o t) as [c0|] eqn:Ef; [|discriminate].
  destruct (get_cp e t) as [cp|] eqn:Hcp; [|discriminate].
  destruct (find_cdp_stored' _ _ _ _ _ _ HI Ef Hcp) as [Ht Hst].
  destruct (mstat s (cp_spot cp) && mstat s (cp_liqm cp)); [|discriminate]. cbn [negb].
  destruct (Nat.eqb pd (d_usdx e)); [|discriminate]. cbn [negb].
  destruct (debt_limit_ok e s t cp x); [|discriminate]. cbn [negb].
  destruct (sync_interest e s cp c0) as [s1 c| |] eqn:Es; try discriminate.
  apply sync_eff in Es; [|exact HT|exact Hst|apply (HF _ _ _ Hst)].
  destruct Es as (G1 & T1 & R1 & S1 & Hid & Hty & Hco & Hpr & Hdb & Hif & Hok).
  destruct (ratio_gate _ _ _ _ _ _) as [[] []| |]; try discriminate.
  destruct (b_send _ _ _ _ _) as [s3|] eqn:Eb; [|discriminate].
  intros H. apply update_cdp_eff in H. destruct H as (G5 & T5 & R5 & S5).
  assert (P4 : pv_eq s1 (b_mint s3 (CDPM e) (d_debt e) x)) by pv_chain.
  cbn [with_prin c_type c_id] in R5. rewrite Hid, Hty in R5.
  assert (Hlt : (c_id c0 < nextid s)%nat) by (destruct HI as (_ & _ & Hi); eapply Hi, Hst).
  eapply (eff_replace s s' (c_type c0) (c_id c0) _ (tprin s (c_type c0) + x)); [exact HP|exact Hlt| | | | | |].
  - eapply same_g_trans; [exact G1|]. eapply same_g_trans; [apply pv_same_g, P4|]. eapply same_g_trans; [|exact G5]. apply same_g_eq; reflexivity.
  - eapply rep_trans; [exact R1|]. eapply rep_eq_l; [|exact R5]. cbn. exact (proj1 P4).
  - apply S5. apply (RS_eq (b_mint s3 (CDPM e) (d_debt e) x)); [reflexivity|]. eapply pv_RS; [exact P4|]. apply S1, HR.
  - intros c' E; inversion E; subst c'. destruct Hok as (a&b&c1&d&f). unfold cdp_ok. cbn. splits; try assumption; lia.
  - destruct P4 as (_&_&a4&_). unfold tprin_is. rewrite T5. cbn. rewrite a4, T1. unfold upd. rewrite <- Ht, Nat.eqb_refl.
    split; [reflexivity|]. intros t' N. destruct (Nat.eqb_spec t' (c_type c0)); [contradiction|reflexivity].
  - cbv zeta. left. unfold oc_at, syn. rewrite Hst.
    assert (Hok' : cdp_ok s (c_type c0) (with_prin c (c_prin c + x))).
    { destruct Hok as (a&b&c1&d&f). unfold cdp_ok. cbn. splits; try assumption; lia. }
    rewrite (fresh_debt _ _ _ Hok' Hif). unfold cdp_debt in *. cbn. lia.
Qed.

Lemma calc_payment_bounds prin fees pay fp pp :
  0 <= prin -> 0 <= fees -> 0 < pay -> calc_payment (prin + fees) fees pay = (fp, pp) ->
  0 <= fp <= fees /\ 0 <= pp <= prin.
Proof.
  intros Hp Hf Hx. unfold calc_payment.
  destruct (Z.ltb_spec (prin + fees) pay); destruct (Z.eqb_spec fees 0);
    try (destruct (Z.ltb_spec fees (prin + fees))); try (destruct (Z.ltb_spec fees pay));
    intros EE; inversion EE; subst; lia.
Qed.

Lemma return_collateral_pv e s cp c s' u : return_collateral e s cp c = Ok s' u -> pv_eq s s'.
Proof.
  unfold return_collateral. intros H.
  eapply (ofold_inv (fun z => pv_eq s z)); [|apply pv_refl|exact H].
  intros z d z' u0 P Hz. cbv beta in Hz. destruct (b_send z _ _ _ _) as [z2|] eqn:Ez; [|discriminate].
  inversion Hz; subst. eapply pv_trans; [exact P|]. eapply pv_trans; [apply bank_pv; eapply b_send_frame; exact Ez|]. repeat split.
Qed.

(* RepayPrincipal, including the close of a fully repaid cdp *)
Lemma repay_eff e s o t pd x s' v :
  IdxInv e s -> PInv s -> repay e s o t pd x = Ok s' v -> OpEff s s'.
Proof.
  intros HI HP. pose proof HP as (HF & HT & HR). unfold repay. destruct (Z.ltb_spec 0 x) as [Hx|]; [|discriminate]. cbn [negb].
  destruct (find_cdp e s o t) as [c0|] eqn:Ef; [|discriminate].
  destruct (get_cp e t) as [cp|] eqn:Hcp; [|discriminate].
  destruct (find_cdp_stored' _ _ _ _ _ _ HI Ef Hcp) as [Ht Hst].
  destruct (Nat.eqb pd (d_usdx e)); [|discriminate]. cbn [negb].
  destruct (bal s o pd <? x); [discriminate|].
  destruct (sync_interest e s cp c0) as [s1 c| |] eqn:Es; try discriminate.
  apply sync_eff in Es; [|exact HT|exact Hst|apply (HF _ _ _ Hst)].
  destruct Es as (G1 & T1 & R1 & S1 & Hid & Hty & Hco & Hpr & Hdb & Hif & Hok).
  destruct (calc_payment (cdp_debt c) (c_fees c) x) as [fp pp] eqn:Ecp.
  pose proof Hok as (Hp0 & Hf0 & HF12 & Hu0 & Hfr0).
  destruct (calc_payment_bounds _ _ _ _ _ Hp0 Hf0 Hx Ecp) as [Bf Bp].
  destruct (_ && _); [discriminate|].
  destruct (b_send s1 o (CDPM e) (d_usdx e) (fp + pp)) as [s2|] eqn:E2; [|discriminate].
  destruct (b_burn s2 _ _ _) as [s3|] eqn:E3; [|discriminate].
  destruct (b_burn s3 _ _ _) as [s4|] eqn:E4; [|discriminate].
  set (c1 := with_fees (with_prin c (c_prin c - pp)) (c_fees c - fp) (c_upd c) (c_ifac c)).
  set (s5 := set_tprin s4 _).
  assert (P4 : pv_eq s1 s4) by pv_chain.
  assert (Hlt : (c_id c0 < nextid s)%nat) by (destruct HI as (_ & _ & Hi); eapply Hi, Hst).
  assert (Hok1 : cdp_ok s (c_type c0) c1) by (unfold cdp_ok, c1; cbn; splits; try assumption; lia).
  assert (Hd1 : debt_at (gfac s (c_type c0)) c1 = cdp_debt c - (fp + pp)).
  { rewrite (fresh_debt _ _ _ Hok1 Hif). unfold cdp_debt, c1. cbn. lia. }
  assert (Hsyn : syn s (c_type c0) (c_id c0) = cdp_debt c) by (unfold syn; rewrite Hst; symmetry; exact Hdb).
  assert (T5 : tprin_is s s5 (c_type c0) (Z.max (tprin s (c_type c0) - (fp + pp)) 0)).
  { unfold tprin_is, s5. cbn. destruct P4 as (_&_&a4&_). rewrite a4, T1. unfold upd. rewrite <- Ht, Nat.eqb_refl.
    split; [reflexivity|]. intros t' N. destruct (Nat.eqb_spec t' (c_type c0)); [contradiction|reflexivity]. }
  assert (G5 : same_g s s5).
  { eapply same_g_trans; [exact G1|]. eapply same_g_trans; [apply pv_same_g, P4|]. apply same_g_eq; reflexivity. }
  assert (C5 : cdps s5 = cdps s1) by (exact (proj1 P4)).
  assert (R5 : RS s5) by (apply (RS_eq s4); [reflexivity|]; eapply pv_RS; [exact P4|]; apply S1, HR).
  destruct ((c_prin c1 =? 0) && (c_fees c1 =? 0)) eqn:Ez.
  - destruct (return_collateral e s5 cp c1) as [s6 []| |] eqn:E6; try discriminate.
    apply return_collateral_pv in E6.
    destruct (get_cdp e _ _ _) as [old|] eqn:Eg; [|discriminate].
    intros H; injection H as Hs'; subst s'.
    apply andb_true_iff in Ez. destruct Ez as [Z1 Z2]. apply Z.eqb_eq in Z1, Z2. unfold c1 in Z1, Z2. cbn in Z1, Z2.
    assert (Eold : c_type old = c_type c0 /\ c_id old = c_id c0).
    { unfold get_cdp in Eg. destruct (get_cp e (c_type c1)); [|discriminate]. cbn in Eg.
      destruct E6 as (a6&_). rewrite a6, C5 in Eg. change (c_type c1) with (c_type c) in Eg. change (c_id c1) with (c_id c) in Eg.
      rewrite Hty, Hid, (rep_get _ _ _ _ _ R1) in Eg. inversion Eg; subst old. split; [exact Hty|exact Hid]. }
    destruct Eold as [Eo1 Eo2].
    eapply (eff_replace s _ (c_type c0) (c_id c0) None (Z.max (tprin s (c_type c0) - (fp + pp)) 0)); [exact HP|exact Hlt| | | | | |].
    + eapply same_g_trans; [exact G5|]. eapply same_g_trans; [apply pv_same_g, E6|]. apply same_g_eq; reflexivity.
    + intros t' id'. cbn. unfold upd2. change (c_type c1) with (c_type c). change (c_id c1) with (c_id c). rewrite Hty, Hid.
      destruct (Nat.eqb t' (c_type c0) && Nat.eqb id' (c_id c0)) eqn:Eb; [reflexivity|].
      destruct E6 as (a6&_). rewrite a6, C5, R1, Eb. reflexivity.
    + apply (RS_eq (ridx_del (oidx_rm s6 (c_owner c1) (c_id c1)) (c_type old) (cdp_ratio e cp old) (c_id old))); [reflexivity|].
      apply RS_del. apply (RS_eq s6); [reflexivity|]. eapply pv_RS; [exact E6|exact R5].
    + intros c' E; discriminate.
    + destruct T5 as [Ta Tb]. destruct E6 as (_&_&a6&_). split; [cbn; rewrite a6; exact Ta|]. intros t' N. cbn. rewrite a6. apply Tb, N.
    + cbv zeta. unfold oc_at. rewrite Hsyn. unfold cdp_debt. lia.
  - intros H. apply update_cdp_eff in H. destruct H as (G6 & T6 & R6 & S6).
    change (c_type c1) with (c_type c) in R6. change (c_id c1) with (c_id c) in R6. rewrite Hid, Hty in R6.
    eapply (eff_replace s s' (c_type c0) (c_id c0) _ (Z.max (tprin s (c_type c0) - (fp + pp)) 0)); [exact HP|exact Hlt| | | | | |].
    + eapply same_g_trans; [exact G5|exact G6].
    + eapply rep_trans; [exact R1|]. eapply rep_eq_l; [|exact R6]. exact C5.
    + apply S6, R5.
    + intros c' E; inversion E; subst c'. exact Hok1.
    + destruct T5 as [Ta Tb]. split; [rewrite T6; exact Ta|]. intros t' N. rewrite T6. apply Tb, N.
    + cbv zeta. unfold oc_at. rewrite Hsyn, Hd1. lia.
Qed.

Lemma cdp_ok_same_c s s' t c : same_c s s' -> cdp_ok s t c -> cdp_ok s' t c.
Proof. intros (a&b&c0) H. unfold cdp_ok in *. rewrite a, b, c0. exact H. Qed.
Lemma FInv_rep_c s s' t id oc :
  FInv s -> same_c s s' -> rep s s' t id oc -> (forall c, oc = Some c -> cdp_ok s t c) -> FInv s'.
Proof.
  intros HF Hg Hr Hoc t' id' c Hc. rewrite Hr in Hc.
  destruct (Nat.eqb_spec t' t) as [->|]; [destruct (Nat.eqb_spec id' id) as [->|]|]; cbn [andb] in Hc;
    eapply cdp_ok_same_c; try exact Hg; eauto.
Qed.
Lemma TInv_same_c s s' : same_c s s' -> TInv s -> TInv s'.
Proof. intros (a&b&c) H t. rewrite a, b, c. apply H. Qed.

Lemma eff_new s s' t c :
  PInv s -> (forall t0, cdps s t0 (nextid s) = None) ->
  same_c s s' -> nextid s' = S (nextid s) -> rep s s' t (nextid s) (Some c) -> RS s' ->
  cdp_ok s t c -> c_ifac c = gfac s t -> tprin_is s s' t (tprin s t + cdp_debt c) ->
  OpEff s s'.
Proof.
  intros (HF & HT & _) Hfree Hc Hn Hr HR Hok Hfr [Tv To].
  split; [split; [|split; [eapply TInv_same_c; eassumption|exact HR]]|].
  - eapply FInv_rep_c; try eassumption. intros c' E; inversion E; subst; exact Hok.
  - split; [exact Hc|]. intros t'. unfold drift. rewrite (ssum_new s s' t c (proj1 Hc) Hn Hr Hfree t').
    destruct (Nat.eqb_spec t' t) as [->|N]; [|rewrite To by exact N; lia].
    rewrite Tv, (fresh_debt _ _ _ Hok Hfr). lia.
Qed.

(* AddCdp *)
Lemma create_eff e s o t cd coll pd prin s' v :
  IdxInv e s -> PInv s -> create e s o t cd coll pd prin = Ok s' v -> OpEff s s'.
Proof.
  intros HI HP. pose proof HP as (HF & HT & HR). unfold create.
  destruct (Z.ltb_spec 0 coll) as [Hcoll|]; [|discriminate]. destruct (Z.ltb_spec 0 prin) as [Hprin|]; [|discriminate]. cbn [andb negb].
  destruct (validate_collateral e s t cd) as [cp|] eqn:Ev; [|discriminate].
  destruct (bal s o cd <? coll); [discriminate|].
  destruct (find_cdp e s o t); [discriminate|].
  destruct (Nat.eqb pd (d_usdx e)); [|discriminate]. cbn [negb].
  destruct (prin <? dp_floor e); [discriminate|].
  destruct (debt_limit_ok e s t cp prin); [|discriminate]. cbn [negb].
  destruct (ratio_gate e s cp coll prin 0) as [[] []| |]; try discriminate.
  set (s0 := match ifac s t with Some _ => s | None => set_ifac s (upd (ifac s) t (Some PREC)) end).
  assert (E0 : match ifac s t with Some f => f | None => PREC end = gfac s t) by reflexivity. rewrite E0.
  destruct (b_send s0 o (CDPM e) cd coll) as [s1|] eqn:Eb1; [|discriminate].
  destruct (b_send (b_mint s1 _ _ _) _ _ _ _) as [s3|] eqn:Eb3; [|discriminate].
  intros HH; inversion HH; subst s'; clear HH.
  assert (P4 : pv_eq s0 (b_mint s3 (CDPM e) (d_debt e) prin)) by pv_chain.
  assert (C0 : same_c s s0 /\ cdps s0 = cdps s /\ ridx s0 = ridx s /\ tprin s0 = tprin s /\ nextid s0 = nextid s).
  { unfold s0. destruct (ifac s t) eqn:Ei; [repeat split|]. split; [|repeat split].
    split; [|repeat split]. intros t'. unfold gfac. cbn. unfold upd. destruct (Nat.eqb_spec t' t) as [->|]; [rewrite Ei|]; reflexivity. }
  destruct C0 as (C0 & D0 & R0 & T0 & N0). destruct P4 as (a4 & b4 & c4 & d4 & f4 & g4 & h4).
  set (c := mkCdp (nextid s) o t coll prin 0 (now s) (gfac s t)).
  assert (Hgt : PREC <= gfac s t) by apply HT.
  eapply (eff_new s _ t c); [exact HP| | | | | | | |].
  - intros t0. destruct HI as (_ & _ & Hi). destruct (cdps s t0 (nextid s)) eqn:E; [|reflexivity]. apply Hi in E. lia.
  - destruct C0 as (x1 & x2 & x3). split; [|split].
    + intros t'. unfold gfac. cbn. rewrite d4. apply x1.
    + cbn. rewrite f4. exact x2.
    + cbn. rewrite g4. exact x3.
  - reflexivity.
  - intros t' id'. cbn. unfold upd2. rewrite a4, D0. reflexivity.
  - apply (RS_eq (ridx_ins (put_cdp (set_tprin (b_mint s3 (CDPM e) (d_debt e) prin) (upd (tprin (b_mint s3 (CDPM e) (d_debt e) prin)) t (tprin (b_mint s3 (CDPM e) (d_debt e) prin) t + prin))) c) t (cdp_ratio e cp c) (nextid s))).
    + reflexivity.
    + apply RS_ins. apply (RS_eq s); [cbn; rewrite b4; exact R0|exact HR].
  - unfold cdp_ok, c. cbn. splits; try lia; try (left; reflexivity).
  - reflexivity.
  - unfold tprin_is. cbn. rewrite c4, T0. unfold upd. rewrite Nat.eqb_refl. unfold cdp_debt, c. cbn.
    split; [lia|]. intros t' N. destruct (Nat.eqb_spec t' t); [contradiction|reflexivity].
Qed.

(** * Seizure and keeper liquidation *)
Lemma seize_pv e s cp c s' u :
  seize e s cp c = Ok s' u ->
  same_g s s' /\ rep s s' (c_type c) (c_id c) None /\ (RS s -> RS s') /\
  tprin_is s s' (c_type c) (Z.max (tprin s (c_type c) - cdp_debt c) 0).
Proof.
  unfold seize. intros H.
  destruct (b_send s _ _ _ _) as [s1|] eqn:E1; [|discriminate].
  destruct (ofold _ s1 _) as [s4 []| |] eqn:E2; try discriminate.
  destruct (auction_collateral _ _ _ _ _) as [s5 []| |] eqn:E3; try discriminate.
  inversion H; subst s'; clear H.
  assert (P4 : pv_eq s1 s4).
  { eapply (ofold_inv (fun z => pv_eq s1 z)); [|apply pv_refl|exact E2].
    intros z d z' u0 P Hz. cbv beta in Hz. destruct (b_send z _ _ _ _) as [z2|] eqn:Ez; [|discriminate].
    inversion Hz; subst. eapply pv_trans; [exact P|]. eapply pv_trans; [apply bank_pv; eapply b_send_frame; exact Ez|]. repeat split. }
  assert (P5 : pv_eq s s5).
  { eapply pv_trans; [apply bank_pv; eapply b_send_frame; exact E1|]. eapply pv_trans; [exact P4|].
    apply bank_pv. eapply auction_collateral_frame; exact E3. }
  destruct P5 as (a & b & c5 & d & f & g & h).
  split; [apply same_g_eq; cbn; assumption|].
  split; [intros t' id'; cbn; unfold upd2; rewrite a; reflexivity|].
  split.
  - intros HR. apply (RS_eq (ridx_del s5 (c_type c) (cdp_ratio e cp c) (c_id c))); [reflexivity|]. apply RS_del.
    apply (RS_eq s); [exact b|exact HR].
  - unfold tprin_is. cbn. rewrite c5. unfold upd. rewrite Nat.eqb_refl. split; [reflexivity|].
    intros t' N. destruct (Nat.eqb_spec t' (c_type c)); [contradiction|reflexivity].
Qed.

(* seizing a stored, synchronised cdp *)
Lemma seize_eff e s cp c s' u :
  PInv s -> (c_id c < nextid s)%nat -> cdps s (c_type c) (c_id c) = Some c -> c_ifac c = gfac s (c_type c) ->
  seize e s cp c = Ok s' u -> OpEff s s'.
Proof.
  intros HP Hlt Hst Hfr H. pose proof HP as (HF & HT & HR).
  apply seize_pv in H. destruct H as (G & R & S & T).
  eapply (eff_replace s s' (c_type c) (c_id c) None _ HP Hlt G R (S HR)); [intros c' E; discriminate|exact T|].
  cbv zeta. unfold oc_at, syn. rewrite Hst, (fresh_debt _ _ _ (HF _ _ _ Hst) Hfr). lia.
Qed.

Lemma payout_reward_eff e s cp k c s2 c1 :
  PInv s -> (c_id c < nextid s)%nat -> cdps s (c_type c) (c_id c) = Some c -> c_ifac c = gfac s (c_type c) ->
  payout_reward e s cp k c = Ok s2 c1 ->
  OpEff s s2 /\ nextid s2 = nextid s /\ c_id c1 = c_id c /\ c_type c1 = c_type c /\ c_ifac c1 = c_ifac c /\
  cdps s2 (c_type c1) (c_id c1) = Some c1.
Proof.
  intros HP Hlt Hst Hfr. pose proof HP as (HF & HT & HR). unfold payout_reward.
  destruct (first_dep_ge _ _) as [[w a]|].
  2:{ intros H; inversion H; subst. split; [|auto]. split; [exact HP|]. split; [repeat split|]. intros t. lia. }
  destruct (b_send _ _ _ _ _) as [s1|] eqn:Eb; [|discriminate].
  destruct (c_coll c <? _); [discriminate|].
  destruct (update_cdp _ _ _ _ _) as [s3 []| |] eqn:Eu; try discriminate.
  intros H; inversion H; subst s3 c1; clear H.
  pose proof (update_cdp_stored _ _ _ _ _ _ _ Eu) as Hs.
  apply update_cdp_eff in Eu. destruct Eu as (G3 & T3 & R3 & S3).
  assert (P1 : pv_eq s s1).
  { eapply pv_trans; [|apply bank_pv; eapply b_send_frame; exact Eb]. repeat split. }
  cbn [with_coll c_type c_id c_ifac] in *.
  split; [|split; [destruct G3 as (_&_&_&n3); destruct P1 as (_&_&_&_&_&_&n1); congruence|auto]].
  pose proof (HF _ _ _ Hst) as Hok.
  eapply (eff_replace s s2 (c_type c) (c_id c) _ (tprin s (c_type c))); [exact HP|exact Hlt| | | | | |].
  - eapply same_g_trans; [apply pv_same_g, P1|exact G3].
  - eapply rep_eq_l; [|exact R3]. exact (proj1 P1).
  - apply S3. eapply pv_RS; [exact P1|exact HR].
  - intros c' E; inversion E; subst c'. exact Hok.
  - destruct P1 as (_&_&a1&_). split; [rewrite T3, a1; reflexivity|]. intros t' _. rewrite T3, a1. reflexivity.
  - cbv zeta. left. unfold oc_at, syn. rewrite Hst. 
    match goal with |- context [debt_at ?g (with_coll c ?x)] => replace (debt_at g (with_coll c x)) with (debt_at g c) by reflexivity end. lia.
Qed.

Lemma OpEff_trans s1 s2 s3 : OpEff s1 s2 -> OpEff s2 s3 -> OpEff s1 s3.
Proof.
  intros (_ & (a&b&c) & D1) (P & (a'&b'&c') & D2). split; [exact P|]. split.
  - split; [intros t; rewrite a', a; reflexivity|split; congruence].
  - intros t. specialize (D1 t). specialize (D2 t). lia.
Qed.

(* AttemptKeeperLiquidation *)
Lemma keeper_liquidate_eff e s k o t s' v :
  IdxInv e s -> PInv s -> keeper_liquidate e s k o t = Ok s' v -> OpEff s s'.
Proof.
  intros HI HP. pose proof HP as (HF & HT & HR). unfold keeper_liquidate.
  destruct (find_cdp e s o t) as [c0|] eqn:Ef; [|discriminate].
  destruct (get_cp e t) as [cp|] eqn:Hcp; [|discriminate].
  destruct (find_cdp_stored' _ _ _ _ _ _ HI Ef Hcp) as [Ht Hst].
  destruct (sync_interest e s cp c0) as [s1 c| |] eqn:Es; try discriminate.
  pose proof Es as Es'.
  apply sync_eff in Es; [|exact HT|exact Hst|apply (HF _ _ _ Hst)].
  destruct Es as (G1 & T1 & R1 & S1 & Hid & Hty & Hco & Hpr & Hdb & Hif & Hok).
  assert (Hlt : (c_id c0 < nextid s)%nat) by (destruct HI as (_ & _ & Hi); eapply Hi, Hst).
  assert (E1 : OpEff s s1).
  { eapply (eff_replace s s1 (c_type c0) (c_id c0) _ (tprin s (c_type c0))); [exact HP|exact Hlt|exact G1|exact R1|exact (S1 HR)| | |].
    - intros c' E; inversion E; subst c'. exact Hok.
    - split; [rewrite T1; reflexivity|intros t' _; rewrite T1; reflexivity].
    - cbv zeta. left. unfold oc_at, syn. rewrite Hst, (fresh_debt _ _ _ Hok Hif). lia. }
  destruct (ratio_at _ _ _ _ _ _) as [[] r| |]; try discriminate.
  destruct (cp_liq cp <=? r); [discriminate|].
  destruct (payout_reward e s1 cp k c) as [s2 c1| |] eqn:Ep; try discriminate.
  pose proof E1 as (HP1 & C1 & _).
  assert (Hst1 : cdps s1 (c_type c) (c_id c) = Some c) by (rewrite Hty, Hid; apply (rep_get _ _ _ _ _ R1)).
  assert (Hlt1 : (c_id c < nextid s1)%nat) by (destruct G1 as (_&_&_&n1); rewrite n1, Hid; exact Hlt).
  assert (Hfr1 : c_ifac c = gfac s1 (c_type c)) by (rewrite (proj1 C1), Hty; exact Hif).
  apply payout_reward_eff in Ep; try assumption.
  destruct Ep as (E2 & N2 & Hid2 & Hty2 & Hif2 & Hst2).
  pose proof E2 as (HP2 & C2 & _).
  intros H. apply seize_eff in H; [|exact HP2| |exact Hst2|].
  - eapply OpEff_trans; [exact E1|]. eapply OpEff_trans; [exact E2|exact H].
  - rewrite N2, Hid2. exact Hlt1.
  - rewrite Hif2, Hty2, (proj1 C2). exact Hfr1.
Qed.
