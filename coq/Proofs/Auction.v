(* Lemmas and proofs about Model/Auction.v *)
From Coq Require Import Permutation Sorted.
From Kava Require Import Base.Prelude Base.Dec Model.Split Model.Auction Proofs.Split.
Local Open Scope Z_scope.

(** * small tactics *)

Ltac eqb_cases :=
  repeat match goal with
  | |- context [Nat.eqb ?x ?y] => destruct (Nat.eqb_spec x y); subst; try congruence
  | H : context [Nat.eqb ?x ?y] |- _ => destruct (Nat.eqb_spec x y); subst; try congruence
  end.

Lemma zsum_app l1 l2 : zsum (l1 ++ l2) = zsum l1 + zsum l2.
Proof. unfold zsum. induction l1 as [|x r IH]; cbn [app fold_right]; lia. Qed.

Lemma zsum_cons x l : zsum (x :: l) = x + zsum l.
Proof. reflexivity. Qed.

(** * x/bank: the net effect of a list of transfers *)

Definition net1 (xf : xfer) (a d : nat) : Z :=
  match xf with
  | XSend f t d' x | XSendAcc f t d' x =>
      if Nat.eqb d d' then (if Nat.eqb a t then x else 0) - (if Nat.eqb a f then x else 0) else 0
  | XMint m d' x => if Nat.eqb d d' then (if Nat.eqb a m then x else 0) else 0
  | XBurn m d' x => if Nat.eqb d d' then (if Nat.eqb a m then - x else 0) else 0
  end.

Fixpoint net (xs : list xfer) (a d : nat) : Z :=
  match xs with
  | [] => 0
  | xf :: r => net1 xf a d + net r a d
  end.

Lemma net_app xs ys a d : net (xs ++ ys) a d = net xs a d + net ys a d.
Proof. induction xs as [|x r IH]; cbn [net app]; lia. Qed.

Lemma move_spec b f t d x a d0 :
  move b f t d x a d0 =
  b a d0 + (if Nat.eqb d0 d then (if Nat.eqb a t then x else 0) - (if Nat.eqb a f then x else 0) else 0).
Proof.
  unfold move, upd2.
  repeat match goal with |- context [Nat.eqb ?x ?y] => destruct (Nat.eqb_spec x y) end;
    cbn [andb]; subst; try congruence; try lia.
Qed.

Lemma upd2_spec (b : bank) m d v a d0 :
  upd2 b m d v a d0 = if Nat.eqb a m && Nat.eqb d0 d then v else b a d0.
Proof. reflexivity. Qed.

Lemma exec1_net e b xf b' : exec1 e b xf = Ok b' tt ->
  forall a d, b' a d = b a d + net1 xf a d.
Proof.
  intros H a d. destruct xf as [f t d' x|f t d' x|m d' x|m d' x]; cbn [exec1 net1] in *.
  - destruct (x <? 0); [discriminate|]. destruct (Z.eqb_spec x 0) as [->|Hx].
    + inversion H; subst. destruct (Nat.eqb d d'), (Nat.eqb a t), (Nat.eqb a f); lia.
    + destruct (b f d' <? x); [discriminate|]. destruct (Nat.eqb t (nobody e)); [discriminate|].
      inversion H; subst. apply move_spec.
  - destruct (x <? 0); [discriminate|]. destruct (blocked e t); [discriminate|].
    destruct (Z.eqb_spec x 0) as [->|Hx].
    + inversion H; subst. destruct (Nat.eqb d d'), (Nat.eqb a t), (Nat.eqb a f); lia.
    + destruct (b f d' <? x); [discriminate|]. destruct (Nat.eqb t (nobody e)); [discriminate|].
      inversion H; subst. apply move_spec.
  - destruct (x <? 0); [discriminate|]. destruct (negb (minter e m)); [discriminate|].
    inversion H; subst. rewrite upd2_spec.
    destruct (Nat.eqb_spec d d') as [->|]; destruct (Nat.eqb_spec a m) as [->|]; cbn [andb]; lia.
  - destruct (x <? 0); [discriminate|]. destruct (negb (burner e m)); [discriminate|].
    destruct (Z.eqb_spec x 0) as [->|Hx].
    + inversion H; subst. destruct (Nat.eqb d d'), (Nat.eqb a m); lia.
    + destruct (b m d' <? x); [discriminate|]. inversion H; subst. rewrite upd2_spec.
      destruct (Nat.eqb_spec d d') as [->|]; destruct (Nat.eqb_spec a m) as [->|]; cbn [andb]; lia.
Qed.

Lemma exec_net e xs : forall b b', exec e b xs = Ok b' tt ->
  forall a d, b' a d = b a d + net xs a d.
Proof.
  induction xs as [|xf r IH]; intros b b' H a d; cbn [exec net] in *.
  - inversion H; subst. lia.
  - destruct (exec1 e b xf) as [b1 []| |] eqn:E1; try discriminate.
    rewrite (IH _ _ H), (exec1_net _ _ _ _ E1). lia.
Qed.

(* a successful transfer list had non-negative amounts throughout *)
Definition xf_amount (xf : xfer) : Z :=
  match xf with XSend _ _ _ x | XSendAcc _ _ _ x | XMint _ _ x | XBurn _ _ x => x end.

Lemma exec_nonneg e xs : forall b b', exec e b xs = Ok b' tt -> Forall (fun xf => 0 <= xf_amount xf) xs.
Proof.
  induction xs as [|xf r IH]; intros b b' H; [constructor|].
  cbn [exec] in H. destruct (exec1 e b xf) as [b1 []| |] eqn:E1; try discriminate.
  constructor; [|eapply IH; eauto].
  destruct xf; cbn [exec1 xf_amount] in *; destruct (Z.ltb_spec x 0); try discriminate; lia.
Qed.

(** * the auction store *)

Lemma afind_id id l a : afind id l = Some a -> a_id a = id.
Proof.
  induction l as [|h r IH]; cbn [afind]; [discriminate|].
  destruct (Z.eqb_spec (a_id h) id); [intros H; inversion H; subst; auto|auto].
Qed.

Lemma afind_In id l a : afind id l = Some a -> In a l.
Proof.
  induction l as [|h r IH]; cbn [afind]; [discriminate|].
  destruct (a_id h =? id); [intros H; inversion H; subst; left; auto|right; auto].
Qed.

Lemma afind_none_notin id l : afind id l = None -> ~ In id (map a_id l).
Proof.
  induction l as [|h r IH]; cbn [afind map In]; [tauto|].
  destruct (Z.eqb_spec (a_id h) id); [discriminate|]. intros H [E|I]; [congruence|]. apply IH; auto.
Qed.

Definition ids_sorted (l : list auction) : Prop := StronglySorted Z.lt (map a_id l).

Lemma afind_above id l : Forall (fun x => id < x) (map a_id l) -> afind id l = None.
Proof.
  induction l as [|h r IH]; cbn [afind map]; [reflexivity|].
  intros H. inversion H; subst. destruct (Z.eqb_spec (a_id h) id); [lia|auto].
Qed.

(* decomposition of the (id-ordered) store around the record with a given id *)
Lemma afind_split id l a : ids_sorted l -> afind id l = Some a ->
  exists l1 l2, l = l1 ++ a :: l2 /\
    (forall a', a_id a' = id -> aput a' l = l1 ++ a' :: l2) /\
    adel id l = l1 ++ l2 /\ afind id (l1 ++ l2) = None.
Proof.
  unfold ids_sorted. induction l as [|h r IH]; cbn [afind map]; [discriminate|].
  intros Hs. inversion Hs as [|? ? Hs' Hall]; subst.
  destruct (Z.eqb_spec (a_id h) id) as [E|N].
  - intros H; inversion H; subst. exists [], r. repeat split; auto.
    + intros a' Ha'. cbn [aput app]. rewrite Ha', Z.eqb_refl. reflexivity.
    + cbn [adel app]. rewrite Z.eqb_refl. reflexivity.
    + cbn [app]. apply afind_above. exact Hall.
  - intros H. destruct (IH Hs' H) as (l1 & l2 & -> & Hp & Hd & Hn).
    assert (Hlt : a_id h < id).
    { rewrite Forall_forall in Hall. apply Hall. rewrite map_app, in_app_iff. right.
      cbn [map In]. left. apply (afind_id _ _ _ H). }
    exists (h :: l1), l2. repeat split.
    + intros a' Ha'. cbn [aput app]. rewrite Ha'.
      destruct (Z.eqb_spec (a_id h) id); [congruence|].
      destruct (Z.ltb_spec id (a_id h)); [lia|].
      rewrite (Hp a' Ha'). reflexivity.
    + cbn [adel app]. destruct (Z.eqb_spec (a_id h) id); [congruence|]. rewrite Hd. reflexivity.
    + cbn [app afind]. destruct (Z.eqb_spec (a_id h) id); [congruence|auto].
Qed.

(* storing a record whose id is above all stored ids appends it *)
Lemma aput_fresh x l : Forall (fun a => a_id a < a_id x) l -> aput x l = l ++ [x].
Proof.
  induction l as [|h r IH]; cbn [aput app]; [reflexivity|].
  intros H. inversion H; subst.
  destruct (Z.eqb_spec (a_id h) (a_id x)); [lia|]. destruct (Z.ltb_spec (a_id x) (a_id h)); [lia|].
  rewrite IH by assumption. reflexivity.
Qed.

Lemma afind_fresh x l : Forall (fun a => a_id a < x) l -> afind x l = None.
Proof.
  induction l as [|h r IH]; cbn [afind]; [reflexivity|].
  intros H. inversion H; subst. destruct (Z.eqb_spec (a_id h) x); [lia|auto].
Qed.

Lemma afind_app_none id l1 l2 : afind id l1 = None -> afind id (l1 ++ l2) = afind id l2.
Proof.
  induction l1 as [|h r IH]; cbn [afind app]; [reflexivity|].
  destruct (a_id h =? id); [discriminate|auto].
Qed.

Lemma afind_app_none_l id l1 l2 : afind id (l1 ++ l2) = None -> afind id l1 = None /\ afind id l2 = None.
Proof.
  induction l1 as [|h r IH]; cbn [afind app]; [auto|].
  destruct (a_id h =? id); [discriminate|auto].
Qed.

(* looking up in the store after a put of a record with the id of a stored one *)
Lemma afind_replace l1 l2 a a' id :
  afind (a_id a) (l1 ++ l2) = None -> a_id a' = a_id a ->
  afind id (l1 ++ a' :: l2) = if id =? a_id a then Some a' else afind id (l1 ++ a :: l2).
Proof.
  intros Hn E. induction l1 as [|h r IH]; cbn [afind app] in *.
  - rewrite E. destruct (Z.eqb_spec (a_id a) id) as [<-|N].
    + rewrite Z.eqb_refl. reflexivity.
    + destruct (Z.eqb_spec id (a_id a)); [congruence|reflexivity].
  - destruct (Z.eqb_spec (a_id h) (a_id a)) as [|N]; [discriminate|].
    destruct (Z.eqb_spec (a_id h) id) as [<-|N2].
    + destruct (Z.eqb_spec (a_id h) (a_id a)); [congruence|reflexivity].
    + apply IH. exact Hn.
Qed.

Lemma held_app d l1 l2 : held d (l1 ++ l2) = held d l1 + held d l2.
Proof. unfold held. rewrite map_app, zsum_app. reflexivity. Qed.

Lemma held_cons d a l : held d (a :: l) = held1 d a + held d l.
Proof. reflexivity. Qed.

Lemma sorted_app_remove (l1 : list Z) x l2 :
  StronglySorted Z.lt (l1 ++ x :: l2) -> StronglySorted Z.lt (l1 ++ l2).
Proof.
  induction l1 as [|h r IH]; cbn [app]; intros H; inversion H as [|? ? H1 H2]; subst; [assumption|].
  constructor; [apply IH; assumption|].
  rewrite Forall_forall in *. intros y Hy. apply H2. rewrite in_app_iff in *. cbn [In]. tauto.
Qed.

Lemma sorted_app_end (l : list Z) x :
  StronglySorted Z.lt l -> Forall (fun y => y < x) l -> StronglySorted Z.lt (l ++ [x]).
Proof.
  induction l as [|h r IH]; cbn [app]; intros Hs Hf.
  - constructor; constructor.
  - inversion Hs as [|? ? H1 H2]; subst. inversion Hf; subst.
    constructor; [apply IH; assumption|].
    rewrite Forall_forall in *. intros y Hy. rewrite in_app_iff in Hy. cbn [In] in Hy.
    destruct Hy as [Hy|[<-|[]]]; [apply H2; assumption|assumption].
Qed.

(** * the by-time index *)

Lemma key_eqb_eq k h : key_eqb k h = true <-> k = h.
Proof.
  unfold key_eqb. destruct k as [a b], h as [c d]. cbn [fst snd].
  rewrite Bool.andb_true_iff, !Z.eqb_eq. split; [intros [-> ->]; reflexivity|intros H; inversion H; auto].
Qed.

Lemma idx_insert_perm k l : ~ In k l -> Permutation (idx_insert k l) (k :: l).
Proof.
  induction l as [|h r IH]; cbn [idx_insert In]; intros Hn; [reflexivity|].
  destruct (key_eqb k h) eqn:E; [apply key_eqb_eq in E; subst; tauto|].
  destruct (key_ltb k h); [reflexivity|].
  rewrite IH by tauto. apply perm_swap.
Qed.

Lemma idx_remove_perm k l : In k l -> Permutation l (k :: idx_remove k l).
Proof.
  induction l as [|h r IH]; cbn [idx_remove In]; [tauto|].
  destruct (key_eqb k h) eqn:E; [apply key_eqb_eq in E; subst; reflexivity|].
  intros [->|Hi]; [rewrite (proj2 (key_eqb_eq k k) eq_refl) in E; discriminate|].
  rewrite (IH Hi) at 1. apply perm_swap.
Qed.

(** * the invariant *)

Record auc_ok (e : env) (a : auction) : Prop := mkAucOk {
  ok_end : a_end a <= a_maxend a;
  ok_lot : 0 <= a_lot a;
  ok_bid : 0 <= a_bid a;
  ok_debt : 0 <= a_debt a;
  ok_init : a_init a <> amod e;
  ok_bidder : a_bidder a <> amod e;
  ok_coll : a_kind a = KColl ->
     a_bid a <= a_maxbid a /\ length (a_raddrs a) = length (a_rw a) /\
     Forall (fun w => 0 <= w) (a_rw a) /\ 0 < zsum (a_rw a) /\ ~ In (amod e) (a_raddrs a)
}.

Definition Inv (e : env) (s : state) : Prop :=
  (forall d, bal s (amod e) d = held d (aucs s)) /\
  Permutation (idx s) (map akey (aucs s)) /\
  ids_sorted (aucs s) /\
  Forall (fun a => a_id a < next_id s) (aucs s) /\
  Forall (auc_ok e) (aucs s).

(* the empty address is not the auction module account *)
Definition env_wf (e : env) : Prop := nobody e <> amod e.

Lemma key_notin id en l : afind id l = None -> ~ In (en, id) (map akey l).
Proof.
  intros Hn Hi. apply (afind_none_notin _ _ Hn).
  rewrite in_map_iff in *. destruct Hi as (a & Ha & Hin). exists a. split; [|assumption].
  unfold akey in Ha. inversion Ha; reflexivity.
Qed.

Lemma Forall_app_inv {A} (P : A -> Prop) l1 l2 : Forall P (l1 ++ l2) -> Forall P l1 /\ Forall P l2.
Proof. rewrite !Forall_forall. intros H. split; intros x Hx; apply H; rewrite in_app_iff; tauto. Qed.

Lemma Forall_app_intro {A} (P : A -> Prop) l1 l2 : Forall P l1 -> Forall P l2 -> Forall P (l1 ++ l2).
Proof. rewrite !Forall_forall. intros H1 H2 x Hx. rewrite in_app_iff in Hx. destruct Hx; auto. Qed.

Lemma set_auction_inv e s b' a a' :
  Inv e s -> afind (a_id a') (aucs s) = Some a -> auc_ok e a' ->
  (forall d, b' (amod e) d = bal s (amod e) d + held1 d a' - held1 d a) ->
  Inv e (set_auction s b' a').
Proof.
  intros (Hc & Hp & Hs & Hlt & Hok) Hf Hok' Hb.
  destruct (afind_split _ _ _ Hs Hf) as (l1 & l2 & El & Hput & _ & Hnone).
  unfold set_auction. rewrite Hf. rewrite (Hput a' eq_refl).
  assert (Hid : a_id a = a_id a') by (apply (afind_id _ _ _ Hf)).
  rewrite El in *.
  unfold Inv; cbn [bal aucs idx next_id]. repeat split.
  - intros d. rewrite Hb, Hc, !held_app, !held_cons. lia.
  - assert (Hin : In (akey a) (idx s)).
    { eapply Permutation_in; [symmetry; exact Hp|]. rewrite map_app, in_app_iff. right. left. reflexivity. }
    pose proof (idx_remove_perm _ _ Hin) as P1.
    assert (P2 : Permutation (idx_remove (akey a) (idx s)) (map akey (l1 ++ l2))).
    { apply Permutation_cons_inv with (a := akey a).
      rewrite <- P1, Hp, !map_app. cbn [map]. symmetry. apply Permutation_middle. }
    assert (Hni : ~ In (akey a') (idx_remove (akey a) (idx s))).
    { intros Hi. apply (key_notin (a_id a') (a_end a') (l1 ++ l2)); [exact Hnone|].
      eapply Permutation_in; [exact P2|exact Hi]. }
    rewrite (idx_insert_perm _ _ Hni), P2, !map_app. cbn [map]. apply Permutation_middle.
  - unfold ids_sorted in *. rewrite map_app in *. cbn [map] in *. rewrite <- Hid. exact Hs.
  - apply Forall_app_inv in Hlt. destruct Hlt as (H1 & H2). inversion H2; subst.
    apply Forall_app_intro; [assumption|]. constructor; [lia|assumption].
  - apply Forall_app_inv in Hok. destruct Hok as (H1 & H2). inversion H2; subst.
    apply Forall_app_intro; [assumption|]. constructor; assumption.
Qed.

Lemma store_new_inv e s b' a :
  Inv e s -> a_id a = next_id s -> auc_ok e a ->
  (forall d, b' (amod e) d = bal s (amod e) d + held1 d a) ->
  Inv e (store_new s b' a).
Proof.
  intros (Hc & Hp & Hs & Hlt & Hok) Hid Hok' Hb.
  assert (Hlt' : Forall (fun x => a_id x < a_id a) (aucs s)) by (rewrite Hid; exact Hlt).
  assert (Hn : afind (a_id a) (aucs s) = None) by (apply afind_fresh; exact Hlt').
  unfold store_new, set_auction. rewrite Hn, (aput_fresh _ _ Hlt').
  unfold Inv; cbn [bal aucs idx next_id]. repeat split.
  - intros d. rewrite Hb, Hc, held_app, held_cons. unfold held at 3. cbn [map zsum fold_right]. lia.
  - assert (Hni : ~ In (akey a) (idx s)).
    { intros Hi. apply (key_notin (a_id a) (a_end a) (aucs s) Hn).
      eapply Permutation_in; [exact Hp|exact Hi]. }
    rewrite (idx_insert_perm _ _ Hni), Hp, map_app. cbn [map].
    rewrite Permutation_app_comm. reflexivity.
  - unfold ids_sorted in *. rewrite map_app. cbn [map]. apply sorted_app_end; [assumption|].
    rewrite Forall_forall in *. intros y Hy. rewrite in_map_iff in Hy. destruct Hy as (x & <- & Hx). auto.
  - apply Forall_app_intro.
    + rewrite Forall_forall in *. intros x Hx. specialize (Hlt x Hx). cbn beta in *. lia.
    + constructor; [lia|constructor].
  - apply Forall_app_intro; [assumption|constructor; [assumption|constructor]].
Qed.

Lemma delete_inv e s b' id a :
  Inv e s -> afind id (aucs s) = Some a ->
  (forall d, b' (amod e) d = bal s (amod e) d - held1 d a) ->
  Inv e (delete_auction s b' id).
Proof.
  intros (Hc & Hp & Hs & Hlt & Hok) Hf Hb.
  destruct (afind_split _ _ _ Hs Hf) as (l1 & l2 & El & _ & Hdel & Hnone).
  unfold delete_auction. rewrite Hf, Hdel. rewrite El in *.
  unfold Inv; cbn [bal aucs idx next_id]. repeat split.
  - intros d. rewrite Hb, Hc, !held_app, !held_cons. lia.
  - assert (Hin : In (akey a) (idx s)).
    { eapply Permutation_in; [symmetry; exact Hp|]. rewrite map_app, in_app_iff. right. left. reflexivity. }
    pose proof (idx_remove_perm _ _ Hin) as P1.
    apply Permutation_cons_inv with (a := akey a).
    rewrite <- P1, Hp, !map_app. cbn [map]. symmetry. apply Permutation_middle.
  - unfold ids_sorted in *. rewrite map_app in *. cbn [map] in *. eapply sorted_app_remove; eauto.
  - apply Forall_app_inv in Hlt. destruct Hlt as (H1 & H2). inversion H2; subst. apply Forall_app_intro; assumption.
  - apply Forall_app_inv in Hok. destruct Hok as (H1 & H2). inversion H2; subst. apply Forall_app_intro; assumption.
Qed.

(** * the bid routines *)

Ltac simp_auc :=
  cbn [touch a_id a_kind a_init a_lot_d a_lot a_bidder a_bid_d a_bid a_has a_end a_maxend
       a_debt_d a_debt a_maxbid a_raddrs a_rw] in *.

Lemma min_inc_pos inc v : 1 <= min_inc inc v.
Proof. unfold min_inc. lia. Qed.

Lemma net_refund_fwd e a bidder d :
  bidder <> amod e -> a_bidder a <> amod e -> net (refund_fwd e a bidder) (amod e) d = 0.
Proof.
  intros H1 H2. unfold refund_fwd.
  destruct (negb (Nat.eqb bidder (a_bidder a)) && negb (a_bid a =? 0)); cbn [net net1]; [|reflexivity].
  eqb_cases; lia.
Qed.

Lemma net_payouts_amod e d addrs : forall parts d0,
  ~ In (amod e) addrs -> Forall (fun p => 0 <= p) parts -> length parts = length addrs ->
  net (payouts e d addrs parts) (amod e) d0 = - coin_at d0 d (zsum parts).
Proof.
  induction addrs as [|ad ra IH]; intros parts d0 Hn Hp Hl; destruct parts as [|p rp]; cbn [length] in Hl; try discriminate.
  - cbn [payouts net zsum fold_right]. unfold coin_at. destruct (Nat.eqb d0 d); reflexivity.
  - cbn [payouts]. rewrite net_app. inversion Hp; subst. cbn [In] in Hn.
    rewrite IH by (auto; tauto). rewrite zsum_cons. unfold coin_at.
    destruct (Z.ltb_spec 0 p); cbn [net net1]; eqb_cases; try tauto; lia.
Qed.

Lemma net_payouts_other e d addrs who : forall parts d0,
  who <> amod e -> (~ In who addrs \/ d0 <> d) ->
  net (payouts e d addrs parts) who d0 = 0.
Proof.
  induction addrs as [|ad ra IH]; intros parts d0 Hw Hn; destruct parts as [|p rp]; cbn [payouts net]; try reflexivity.
  rewrite net_app, IH; [|assumption|cbn [In] in Hn; tauto].
  destruct (0 <? p); cbn [net net1]; [|reflexivity].
  cbn [In] in Hn. eqb_cases; try lia; tauto.
Qed.

Definition bid_guard (a : auction) (x : Z) (parts : list Z) : Prop :=
  a_kind a = KColl -> is_reverse a = true -> split_ok (a_lot a - x) (a_rw a) parts = true.

Lemma split_valid_of_ok e a amt : auc_ok e a -> a_kind a = KColl -> 0 <= amt ->
  split_valid amt (a_rw a) = true.
Proof.
  intros Hok Hk Ha. destruct (ok_coll _ _ Hok Hk) as (_ & _ & Hw & Hz & _).
  unfold split_valid. rewrite !Bool.andb_true_iff. repeat split.
  - apply Z.leb_le; assumption.
  - destruct (a_rw a); [cbn in Hz; lia|reflexivity].
  - rewrite forallb_forall. rewrite Forall_forall in Hw. intros w Hin. apply Z.leb_le. auto.
  - apply Z.ltb_lt; assumption.
Qed.

Lemma bid_routine_sound e t a bidder d x parts a' xs :
  auc_ok e a -> bidder <> amod e -> bid_guard a x parts ->
  bid_routine e t a bidder d x parts = Ok (a', xs) tt ->
  a_id a' = a_id a /\ auc_ok e a' /\
  forall d0, net xs (amod e) d0 = held1 d0 a' - held1 d0 a.
Proof.
  intros Hok Hb Hg H. pose proof Hok as Hok0. destruct Hok as [Hend Hlot Hbid Hdebt Hinit Hbidder Hcoll].
  unfold bid_routine in H. destruct (a_kind a) eqn:Hk.
  - (* surplus *)
    unfold bid_surplus in H.
    destruct (negb (Nat.eqb d (a_bid_d a))); [discriminate|].
    destruct (Z.ltb_spec x (a_bid a + min_inc (inc_s e) (a_bid a))); [discriminate|].
    pose proof (min_inc_pos (inc_s e) (a_bid a)).
    inversion H; subst; clear H. split; [reflexivity|]. split.
    + constructor; simp_auc; try assumption; try lia; try (rewrite Hk; discriminate).
    + intros d0. rewrite net_app, net_refund_fwd by assumption.
      unfold held1; simp_auc. rewrite Hk. cbn [net net1]. eqb_cases; lia.
  - (* debt *)
    unfold bid_debt in H.
    destruct (negb (Nat.eqb d (a_lot_d a))); [discriminate|].
    destruct (Z.ltb_spec (a_lot a - min_inc (inc_d e) (a_lot a)) x); [discriminate|].
    destruct (Z.ltb_spec x 0); [discriminate|].
    inversion H; subst; clear H. split; [reflexivity|]. split.
    + constructor; simp_auc; try assumption; try lia; try (rewrite Hk; discriminate).
      destruct (Nat.eqb (a_bidder a) (a_init a)); lia.
    + intros d0. rewrite net_app. unfold held1, coin_at; simp_auc. rewrite Hk.
      destruct (Nat.eqb_spec (a_bidder a) (a_init a)) as [E|N];
        destruct (Nat.eqb_spec bidder (a_bidder a)); cbn [negb net net1]; eqb_cases; lia.
  - (* collateral *)
    destruct (Hcoll eq_refl) as (Hmax & Hlen & Hw & Hz & Hnin).
    destruct (is_reverse a) eqn:Hrev.
    + (* reverse phase *)
      unfold bid_coll_rev in H.
      destruct (negb (Nat.eqb d (a_lot_d a))); [discriminate|].
      destruct (Z.ltb_spec (a_lot a - min_inc (inc_c e) (a_lot a)) x); [discriminate|].
      destruct (Z.ltb_spec x 0); [discriminate|].
      pose proof (min_inc_pos (inc_c e) (a_lot a)).
      inversion H; subst; clear H. split; [reflexivity|]. split.
      * constructor; simp_auc; try assumption; try lia.
        intros _. repeat split; assumption.
      * intros d0.
        assert (Hsv : split_valid (a_lot a - x) (a_rw a) = true).
        { apply (split_valid_of_ok e a _ Hok0 Hk). lia. }
        pose proof (proj1 (split_ok_spec _ _ _) (Hg Hk Hrev)) as Hspec.
        pose proof (split_spec_sum _ _ _ Hspec) as Hsum.
        pose proof (split_spec_length _ _ _ Hspec) as Hlen'.
        pose proof (split_spec_nonneg _ _ _ Hsv Hspec) as Hnn.
        rewrite net_app, net_payouts_amod by (try assumption; congruence).
        rewrite Hsum. unfold held1, coin_at; simp_auc. rewrite Hk.
        destruct (Nat.eqb_spec bidder (a_bidder a)); cbn [negb net net1]; eqb_cases; lia.
    + (* forward phase *)
      unfold bid_coll_fwd in H. unfold is_reverse in Hrev.
      destruct (negb (Nat.eqb d (a_bid_d a))); [discriminate|].
      pose proof (min_inc_pos (inc_c e) (a_bid a)).
      destruct (Z.ltb_spec x (Z.min (a_bid a + min_inc (inc_c e) (a_bid a)) (a_maxbid a))); [discriminate|].
      destruct (Z.ltb_spec (a_maxbid a) x); [discriminate|].
      apply Z.eqb_neq in Hrev.
      inversion H; subst; clear H. split; [reflexivity|]. split.
      * constructor; simp_auc; try assumption; try lia.
        -- destruct (0 <? a_debt a); lia.
        -- intros _. repeat split; try assumption; lia.
      * intros d0. rewrite !net_app, net_refund_fwd by assumption.
        unfold held1, coin_at; simp_auc. rewrite Hk.
        destruct (Z.ltb_spec 0 (a_debt a)); cbn [net net1]; eqb_cases; lia.
Qed.

(** * every operation preserves the invariant *)

Lemma Inv_auc_ok e s id a : Inv e s -> afind id (aucs s) = Some a -> auc_ok e a.
Proof.
  intros (_ & _ & _ & _ & Hok) Hf. rewrite Forall_forall in Hok. apply Hok. eapply afind_In; eauto.
Qed.

Lemma place_bid_inv e s t id bidder d x parts s' :
  Inv e s -> op_okb e s (PlaceBid t id bidder d x parts) = true ->
  place_bid e s t id bidder d x parts = Ok s' tt -> Inv e s'.
Proof.
  intros HI Hg H. unfold place_bid in H.
  destruct (afind id (aucs s)) as [a|] eqn:Hf; [|discriminate].
  destruct (a_end a <? t); [discriminate|].
  destruct (bid_routine e t a bidder d x parts) as [[a' xs] []| |] eqn:Hr; try discriminate.
  destruct (exec e (bal s) xs) as [b' []| |] eqn:Hx; try discriminate.
  inversion H; subst; clear H.
  cbn [op_okb] in Hg. rewrite Hf in Hg. apply Bool.andb_true_iff in Hg. destruct Hg as (Hb & Hsp).
  assert (Hb' : bidder <> amod e) by (destruct (Nat.eqb_spec bidder (amod e)); [discriminate|assumption]).
  assert (Hguard : bid_guard a x parts).
  { intros Hk Hrev. rewrite Hk, Hrev in Hsp. exact Hsp. }
  pose proof (Inv_auc_ok _ _ _ _ HI Hf) as Hok.
  destruct (bid_routine_sound _ _ _ _ _ _ _ _ _ Hok Hb' Hguard Hr) as (Hid & Hok' & Hnet).
  apply set_auction_inv with (a := a); try assumption.
  - rewrite Hid, (afind_id _ _ _ Hf). exact Hf.
  - intros d0. rewrite (exec_net _ _ _ _ Hx), Hnet. lia.
Qed.

Lemma net_debt_back e a d : auc_ok e a ->
  net (debt_back e a) (amod e) d = - coin_at d (a_debt_d a) (a_debt a).
Proof.
  intros Hok. unfold debt_back, coin_at. pose proof (ok_debt _ _ Hok). pose proof (ok_init _ _ Hok).
  destruct (Z.ltb_spec 0 (a_debt a)); cbn [net net1]; eqb_cases; lia.
Qed.

Lemma net_payout e a d : auc_ok e a ->
  net (payout e a) (amod e) d = - held1 d a.
Proof.
  intros Hok. pose proof (ok_bidder _ _ Hok). pose proof (ok_init _ _ Hok).
  unfold payout, held1. destruct (a_kind a); cbn [app net net1]; rewrite ?net_debt_back by assumption;
    unfold coin_at; eqb_cases; lia.
Qed.

Lemma close_inv e s t id s' : Inv e s -> close e s t id = Ok s' tt -> Inv e s'.
Proof.
  intros HI H. unfold close in H.
  destruct (afind id (aucs s)) as [a|] eqn:Hf; [|discriminate].
  destruct (t <? a_end a); [discriminate|].
  destruct (exec e (bal s) (payout e a)) as [b' []| |] eqn:Hx; try discriminate.
  inversion H; subst; clear H.
  apply delete_inv with (a := a); try assumption.
  intros d. rewrite (exec_net _ _ _ _ Hx), net_payout by (eapply Inv_auc_ok; eauto). lia.
Qed.

Lemma close_all_inv e t ids : forall s s', Inv e s -> close_all e s t ids = Ok s' tt -> Inv e s'.
Proof.
  induction ids as [|id r IH]; intros s s' HI H; cbn [close_all] in H.
  - inversion H; subst; assumption.
  - destruct (afind id (aucs s)); [|eauto].
    destruct (close e s t id) as [s1 []| |] eqn:Hc; try discriminate.
    eapply IH; [|exact H]. eapply close_inv; eauto.
Qed.

Lemma start_inv e s seller a xs s' :
  Inv e s -> start e s seller a xs = Ok s' tt ->
  a_id a = next_id s -> auc_ok e a ->
  (forall d, net xs (amod e) d = held1 d a) -> Inv e s'.
Proof.
  intros HI H Hid Hok Hnet. unfold start in H.
  destruct (negb (is_module e seller)); [discriminate|].
  destruct (exec e (bal s) xs) as [b' []| |] eqn:Hx; try discriminate.
  inversion H; subst; clear H.
  apply store_new_inv; try assumption.
  intros d. rewrite (exec_net _ _ _ _ Hx), Hnet. lia.
Qed.

Lemma start_nonneg e s seller a xs s' :
  start e s seller a xs = Ok s' tt -> Forall (fun xf => 0 <= xf_amount xf) xs.
Proof.
  unfold start. destruct (negb (is_module e seller)); [discriminate|].
  destruct (exec e (bal s) xs) as [b' []| |] eqn:Hx; try discriminate.
  intros _. eapply exec_nonneg; eauto.
Qed.

Lemma neqb_true (a b : nat) : negb (Nat.eqb a b) = true -> a <> b.
Proof. destruct (Nat.eqb_spec a b); [discriminate|auto]. Qed.

Lemma forallb_notin (x : nat) l : forallb (fun ad => negb (Nat.eqb ad x)) l = true -> ~ In x l.
Proof.
  rewrite forallb_forall. intros H Hi. specialize (H _ Hi). rewrite Nat.eqb_refl in H. discriminate.
Qed.

Theorem step_inv e s o s' :
  env_wf e -> Inv e s -> op_okb e s o = true -> step e s o = Ok s' tt -> Inv e s'.
Proof.
  intros Hwf HI Hg H. destruct o as [seller ld lot bd|buyer bd bid ld lot dd debt|seller ld lot bd maxbid raddrs rws dd debt|t id bidder d x parts|t id|t];
    cbn [step] in H.
  - (* StartSurplus *)
    cbn [op_okb] in Hg. apply neqb_true in Hg.
    pose proof (start_nonneg _ _ _ _ _ _ H) as Hnn. inversion Hnn as [|? ? Hl _]; subst. cbn [xf_amount] in Hl.
    eapply start_inv; [exact HI|exact H|reflexivity| |].
    + constructor; simp_auc; try lia; try discriminate; auto.
    + intros d. unfold held1, coin_at; simp_auc. cbn [net net1]. eqb_cases; lia.
  - (* StartDebt *)
    cbn [op_okb] in Hg. rewrite !Bool.andb_true_iff in Hg. destruct Hg as ((Hs & Hbid) & Hlot).
    apply neqb_true in Hs. apply Z.leb_le in Hbid, Hlot.
    destruct (negb (is_module e buyer)); [discriminate|]. destruct (negb (minter e buyer)); [discriminate|].
    pose proof (start_nonneg _ _ _ _ _ _ H) as Hnn. inversion Hnn as [|? ? Hl _]; subst. cbn [xf_amount] in Hl.
    eapply start_inv; [exact HI|exact H|reflexivity| |].
    + constructor; simp_auc; try lia; try discriminate; auto.
    + intros d. unfold held1, coin_at; simp_auc. cbn [net net1]. eqb_cases; lia.
  - (* StartColl *)
    cbn [op_okb] in Hg. rewrite !Bool.andb_true_iff in Hg. destruct Hg as ((Hs & Hmb) & Hra).
    apply neqb_true in Hs. apply Z.leb_le in Hmb. apply forallb_notin in Hra.
    destruct (weights_valid e raddrs rws) eqn:Hwv; cbn [negb] in H; [|discriminate].
    unfold weights_valid in Hwv. rewrite !Bool.andb_true_iff in Hwv.
    destruct Hwv as ((((_ & Hlen) & _) & Hw) & Hz).
    pose proof (start_nonneg _ _ _ _ _ _ H) as Hnn.
    inversion Hnn as [|? ? Hl Hnn']; subst. inversion Hnn' as [|? ? Hd _]; subst. cbn [xf_amount] in Hl, Hd.
    eapply start_inv; [exact HI|exact H|reflexivity| |].
    + constructor; simp_auc; try lia; try discriminate; auto.
      intros _. repeat split; try assumption.
      * apply Nat.eqb_eq; assumption.
      * rewrite Forall_forall. rewrite forallb_forall in Hw. intros w Hin. apply Z.leb_le. auto.
      * apply Z.ltb_lt; assumption.
    + intros d. unfold held1, coin_at; simp_auc. cbn [net net1]. eqb_cases; lia.
  - eapply place_bid_inv; eauto.
  - eapply close_inv; eauto.
  - unfold begin_block in H. eapply close_all_inv; eauto.
Qed.

(* histories: every successful operation satisfies the guard *)
Fixpoint guarded (e : env) (s : state) (ops : list op) : Prop :=
  match ops with
  | [] => True
  | o :: r => (forall s', step e s o = Ok s' tt -> op_okb e s o = true) /\ guarded e (step' e s o) r
  end.

Theorem run_inv e ops : forall s, env_wf e -> Inv e s -> guarded e s ops -> Inv e (run e s ops).
Proof.
  induction ops as [|o r IH]; intros s Hwf HI Hg; cbn [run fold_left]; [assumption|].
  destruct Hg as (Hg1 & Hg2). apply IH; try assumption.
  unfold step' in *. destruct (step e s o) as [s' []| |] eqn:Hs; try assumption.
  eapply step_inv; eauto.
Qed.

Lemma sorted_lt_nodup (l : list Z) : StronglySorted Z.lt l -> NoDup l.
Proof.
  induction 1 as [|x l Hs IH Hf]; constructor; [|assumption].
  intros Hi. rewrite Forall_forall in Hf. specialize (Hf _ Hi). lia.
Qed.

Lemma Inv_means e s : Inv e s ->
  (forall d, bal s (amod e) d = held d (aucs s)) /\
  Permutation (idx s) (map akey (aucs s)) /\
  NoDup (map a_id (aucs s)) /\
  (forall a, In a (aucs s) -> a_end a <= a_maxend a /\ a_id a < next_id s).
Proof.
  intros (Hc & Hp & Hs & Hlt & Hok). repeat split; try assumption.
  - apply sorted_lt_nodup. exact Hs.
  - rewrite Forall_forall in Hok. apply (ok_end _ _ (Hok _ H)).
  - rewrite Forall_forall in Hlt. apply (Hlt _ H).
Qed.

(** * what an accepted bid looks like *)

Lemma afind_aput_same a l : afind (a_id a) (aput a l) = Some a.
Proof.
  induction l as [|h r IH]; cbn [aput afind].
  - rewrite Z.eqb_refl. reflexivity.
  - destruct (Z.eqb_spec (a_id h) (a_id a)) as [E|N]; cbn [afind].
    + rewrite Z.eqb_refl. reflexivity.
    + destruct (a_id a <? a_id h); cbn [afind].
      * rewrite Z.eqb_refl. reflexivity.
      * destruct (Z.eqb_spec (a_id h) (a_id a)); [congruence|exact IH].
Qed.

Lemma afind_aput_other a l id : id <> a_id a -> afind id (aput a l) = afind id l.
Proof.
  intros Hne. induction l as [|h r IH]; cbn [aput afind].
  - destruct (Z.eqb_spec (a_id a) id); [congruence|reflexivity].
  - destruct (Z.eqb_spec (a_id h) (a_id a)) as [E|N]; cbn [afind].
    + destruct (Z.eqb_spec (a_id a) id); [congruence|]. destruct (Z.eqb_spec (a_id h) id); [congruence|reflexivity].
    + destruct (a_id a <? a_id h); cbn [afind].
      * destruct (Z.eqb_spec (a_id a) id); [congruence|reflexivity].
      * destruct (a_id h =? id); [reflexivity|exact IH].
Qed.

(* duration by which the routine extends the end time *)
Definition bid_dur (e : env) (a : auction) (x : Z) : Z :=
  match a_kind a with
  | KSurplus | KDebt => fwd_dur e
  | KColl => if is_reverse a then rev_dur e else if x =? a_maxbid a then rev_dur e else fwd_dur e
  end.

Lemma place_bid_ok e s t id bidder d x parts s' a :
  afind id (aucs s) = Some a -> place_bid e s t id bidder d x parts = Ok s' tt ->
  t <= a_end a /\
  exists a' xs, bid_routine e t a bidder d x parts = Ok (a', xs) tt /\
    exec e (bal s) xs = Ok (bal s') tt /\ a_id a' = id /\
    afind id (aucs s') = Some a' /\
    (forall id', id' <> id -> afind id' (aucs s') = afind id' (aucs s)).
Proof.
  intros Hf H. unfold place_bid in H. rewrite Hf in H.
  destruct (Z.ltb_spec (a_end a) t); [discriminate|]. split; [lia|].
  destruct (bid_routine e t a bidder d x parts) as [[a' xs] []| |] eqn:Hr; try discriminate.
  destruct (exec e (bal s) xs) as [b' []| |] eqn:Hx; try discriminate.
  inversion H; subst; clear H. exists a', xs.
  assert (Hid : a_id a' = id).
  { rewrite <- (afind_id _ _ _ Hf). unfold bid_routine in Hr.
    destruct (a_kind a); [unfold bid_surplus in Hr|unfold bid_debt in Hr|
      destruct (is_reverse a); [unfold bid_coll_rev in Hr|unfold bid_coll_fwd in Hr]];
    repeat match type of Hr with (if ?c then _ else _) = _ => destruct c; try discriminate end;
    inversion Hr; reflexivity. }
  cbn [set_auction bal aucs]. repeat split; try assumption.
  - rewrite <- Hid. apply afind_aput_same.
  - intros id' Hne. apply afind_aput_other. congruence.
Qed.

Lemma bid_routine_rules e t a bidder d x parts a' xs :
  bid_routine e t a bidder d x parts = Ok (a', xs) tt ->
  a_bidder a' = bidder /\ a_kind a' = a_kind a /\ a_init a' = a_init a /\
  a_has a' = true /\
  a_maxend a' = (if a_has a then a_maxend a else t + max_dur e) /\
  a_end a' = Z.min (t + bid_dur e a x) (a_maxend a') /\
  match a_kind a with
  | KSurplus => a_bid a' = x /\ a_lot a' = a_lot a /\ a_bid a + min_inc (inc_s e) (a_bid a) <= x
  | KDebt => a_lot a' = x /\ a_bid a' = a_bid a /\ 0 <= x <= a_lot a - min_inc (inc_d e) (a_lot a)
  | KColl =>
      if is_reverse a
      then a_lot a' = x /\ a_bid a' = a_bid a /\ 0 <= x <= a_lot a - min_inc (inc_c e) (a_lot a)
      else a_bid a' = x /\ a_lot a' = a_lot a /\ x <= a_maxbid a /\
           (a_bid a + min_inc (inc_c e) (a_bid a) <= x \/ x = a_maxbid a)
  end.
Proof.
  intros H. unfold bid_routine, bid_dur in *. destruct (a_kind a) eqn:Hk.
  - unfold bid_surplus in H. destruct (negb (Nat.eqb d (a_bid_d a))); [discriminate|].
    destruct (Z.ltb_spec x (a_bid a + min_inc (inc_s e) (a_bid a))); [discriminate|].
    inversion H; subst; clear H. simp_auc. repeat split; auto.
  - unfold bid_debt in H. destruct (negb (Nat.eqb d (a_lot_d a))); [discriminate|].
    destruct (Z.ltb_spec (a_lot a - min_inc (inc_d e) (a_lot a)) x); [discriminate|].
    destruct (Z.ltb_spec x 0); [discriminate|].
    inversion H; subst; clear H. simp_auc. repeat split; auto; lia.
  - destruct (is_reverse a) eqn:Hrev.
    + unfold bid_coll_rev in H. destruct (negb (Nat.eqb d (a_lot_d a))); [discriminate|].
      destruct (Z.ltb_spec (a_lot a - min_inc (inc_c e) (a_lot a)) x); [discriminate|].
      destruct (Z.ltb_spec x 0); [discriminate|].
      inversion H; subst; clear H. simp_auc. repeat split; auto; lia.
    + unfold bid_coll_fwd in H. destruct (negb (Nat.eqb d (a_bid_d a))); [discriminate|].
      destruct (Z.ltb_spec x (Z.min (a_bid a + min_inc (inc_c e) (a_bid a)) (a_maxbid a))); [discriminate|].
      destruct (Z.ltb_spec (a_maxbid a) x); [discriminate|].
      inversion H; subst; clear H. simp_auc. repeat split; auto; lia.
Qed.

Theorem bid_rules e s t id bidder d x parts s' a :
  afind id (aucs s) = Some a ->
  step e s (PlaceBid t id bidder d x parts) = Ok s' tt ->
  t <= a_end a /\
  exists a', afind id (aucs s') = Some a' /\
  a_bidder a' = bidder /\ a_kind a' = a_kind a /\ a_init a' = a_init a /\
  a_has a' = true /\
  a_maxend a' = (if a_has a then a_maxend a else t + max_dur e) /\
  a_end a' = Z.min (t + bid_dur e a x) (a_maxend a') /\
  match a_kind a with
  | KSurplus => a_bid a' = x /\ a_lot a' = a_lot a /\ a_bid a + min_inc (inc_s e) (a_bid a) <= x
  | KDebt => a_lot a' = x /\ a_bid a' = a_bid a /\ 0 <= x <= a_lot a - min_inc (inc_d e) (a_lot a)
  | KColl =>
      if is_reverse a
      then a_lot a' = x /\ a_bid a' = a_bid a /\ 0 <= x <= a_lot a - min_inc (inc_c e) (a_lot a)
      else a_bid a' = x /\ a_lot a' = a_lot a /\ x <= a_maxbid a /\
           (a_bid a + min_inc (inc_c e) (a_bid a) <= x \/ x = a_maxbid a)
  end.
Proof.
  intros Hf H. cbn [step] in H.
  destruct (place_bid_ok _ _ _ _ _ _ _ _ _ _ Hf H) as (Ht & a' & xs & Hr & _ & _ & Hf' & _).
  split; [assumption|]. exists a'. split; [assumption|]. eapply bid_routine_rules; eauto.
Qed.

(* under the invariant a forward bid strictly improves on the standing one *)
Lemma bid_strictly_improves e s t id bidder d x parts s' a :
  Inv e s -> afind id (aucs s) = Some a ->
  step e s (PlaceBid t id bidder d x parts) = Ok s' tt ->
  match a_kind a with
  | KSurplus => a_bid a < x
  | KDebt => x < a_lot a
  | KColl => if is_reverse a then x < a_lot a else a_bid a < x
  end.
Proof.
  intros HI Hf H. pose proof (Inv_auc_ok _ _ _ _ HI Hf) as Hok.
  destruct (bid_rules _ _ _ _ _ _ _ _ _ _ Hf H) as (_ & a' & _ & _ & _ & _ & _ & _ & _ & Hm).
  destruct (a_kind a) eqn:Hk.
  - pose proof (min_inc_pos (inc_s e) (a_bid a)). lia.
  - pose proof (min_inc_pos (inc_d e) (a_lot a)). lia.
  - destruct (is_reverse a) eqn:Hrev.
    + pose proof (min_inc_pos (inc_c e) (a_lot a)). lia.
    + pose proof (min_inc_pos (inc_c e) (a_bid a)).
      destruct (ok_coll _ _ Hok Hk) as (Hmax & _). unfold is_reverse in Hrev. apply Z.eqb_neq in Hrev. lia.
Qed.

(** * refunds *)

(* what the initiator additionally receives in the bid denom on the first bid of a
   debt auction (the returned debt coins, when they are of the bid denom) *)
Definition first_debt_extra (a : auction) : Z :=
  match a_kind a with
  | KDebt => if Nat.eqb (a_bidder a) (a_init a)
             then coin_at (a_bid_d a) (a_debt_d a) (Z.min (a_bid a) (a_debt a)) else 0
  | _ => 0
  end.

Theorem outbid_refunded e s t id bidder d x parts s' a :
  afind id (aucs s) = Some a ->
  step e s (PlaceBid t id bidder d x parts) = Ok s' tt ->
  let ob := a_bidder a in
  ob <> bidder -> ob <> amod e ->
  (* there is a standing bid: a forward auction without bids has nobody to refund *)
  (match a_kind a with
   | KSurplus => a_bid a <> 0
   | KColl => is_reverse a = true \/ a_bid a <> 0
   | KDebt => True end) ->
  (* the outbid bidder is not a party of the other flows of the same step *)
  (ob = a_init a -> a_kind a = KDebt) ->
  (a_kind a = KColl -> is_reverse a = true -> ~ In ob (a_raddrs a) \/ a_lot_d a <> a_bid_d a) ->
  bal s' ob (a_bid_d a) = bal s ob (a_bid_d a) + a_bid a + first_debt_extra a.
Proof.
  intros Hf H ob Hob Hobm Hstanding Hinit Hret. cbn [step] in H.
  destruct (place_bid_ok _ _ _ _ _ _ _ _ _ _ Hf H) as (_ & a' & xs & Hr & Hx & _).
  rewrite (exec_net _ _ _ _ Hx). enough (net xs ob (a_bid_d a) = a_bid a + first_debt_extra a) by lia.
  unfold bid_routine, first_debt_extra in *. subst ob. destruct (a_kind a) eqn:Hk.
  - unfold bid_surplus in Hr. destruct (negb (Nat.eqb d (a_bid_d a))); [discriminate|].
    destruct (x <? _); [discriminate|]. inversion Hr; subst; clear Hr.
    rewrite net_app. unfold refund_fwd.
    destruct (Nat.eqb_spec bidder (a_bidder a)); [congruence|].
    destruct (Z.eqb_spec (a_bid a) 0); [congruence|]. cbn [negb andb net net1].
    assert (a_bidder a <> a_init a) by (intros E; specialize (Hinit E); congruence).
    eqb_cases; lia.
  - unfold bid_debt in Hr. destruct (negb (Nat.eqb d (a_lot_d a))); [discriminate|].
    destruct (_ <? x); [discriminate|]. destruct (x <? 0); [discriminate|]. inversion Hr; subst; clear Hr.
    rewrite net_app. destruct (Nat.eqb_spec bidder (a_bidder a)); [congruence|]. cbn [negb].
    unfold coin_at. destruct (Nat.eqb_spec (a_bidder a) (a_init a)) as [E|N]; cbn [net net1]; eqb_cases; lia.
  - destruct (is_reverse a) eqn:Hrev.
    + unfold bid_coll_rev in Hr. destruct (negb (Nat.eqb d (a_lot_d a))); [discriminate|].
      destruct (_ <? x); [discriminate|]. destruct (x <? 0); [discriminate|]. inversion Hr; subst; clear Hr.
      rewrite net_app, net_payouts_other; [|assumption|].
      * destruct (Nat.eqb_spec bidder (a_bidder a)); [congruence|]. cbn [negb net net1]. eqb_cases; lia.
      * destruct (Hret eq_refl eq_refl) as [Hn|Hn]; [left; assumption|right; congruence].
    + unfold bid_coll_fwd in Hr. destruct (negb (Nat.eqb d (a_bid_d a))); [discriminate|].
      destruct (x <? _); [discriminate|]. destruct (_ <? x); [discriminate|]. inversion Hr; subst; clear Hr.
      rewrite !net_app. unfold refund_fwd.
      destruct (Nat.eqb_spec bidder (a_bidder a)); [congruence|].
      destruct Hstanding as [Hs|Hs]; [discriminate|].
      destruct (Z.eqb_spec (a_bid a) 0); [congruence|]. cbn [negb andb].
      assert (a_bidder a <> a_init a) by (intros E; specialize (Hinit E); congruence).
      destruct (0 <? a_debt a); cbn [net net1]; eqb_cases; lia.
Qed.

(* what the new bidder pays, in the bid denom: the full bid when outbidding, the
   increase when re-bidding on a forward auction, nothing when re-bidding on a
   reverse auction (the lot offered is lowered instead) *)
Theorem new_bidder_pays e s t id bidder d x parts s' a :
  afind id (aucs s) = Some a ->
  step e s (PlaceBid t id bidder d x parts) = Ok s' tt ->
  bidder <> amod e -> bidder <> a_init a ->
  (a_kind a = KColl -> is_reverse a = true -> ~ In bidder (a_raddrs a) \/ a_lot_d a <> a_bid_d a) ->
  bal s' bidder (a_bid_d a) = bal s bidder (a_bid_d a) -
    (match a_kind a with
     | KSurplus => if Nat.eqb bidder (a_bidder a) then x - a_bid a else x
     | KDebt => if Nat.eqb bidder (a_bidder a) then 0 else a_bid a
     | KColl => if is_reverse a then (if Nat.eqb bidder (a_bidder a) then 0 else a_bid a)
                else (if Nat.eqb bidder (a_bidder a) then x - a_bid a else x)
     end).
Proof.
  intros Hf H Hbm Hbi Hret. cbn [step] in H.
  destruct (place_bid_ok _ _ _ _ _ _ _ _ _ _ Hf H) as (_ & a' & xs & Hr & Hx & _).
  rewrite (exec_net _ _ _ _ Hx).
  unfold bid_routine in *. destruct (a_kind a) eqn:Hk.
  - unfold bid_surplus in Hr. destruct (negb (Nat.eqb d (a_bid_d a))); [discriminate|].
    destruct (x <? _); [discriminate|]. inversion Hr; subst; clear Hr.
    rewrite net_app. unfold refund_fwd.
    destruct (Nat.eqb_spec bidder (a_bidder a)); cbn [negb andb net net1].
    + eqb_cases; lia.
    + destruct (Z.eqb_spec (a_bid a) 0); cbn [negb net net1]; eqb_cases; lia.
  - unfold bid_debt in Hr. destruct (negb (Nat.eqb d (a_lot_d a))); [discriminate|].
    destruct (_ <? x); [discriminate|]. destruct (x <? 0); [discriminate|]. inversion Hr; subst; clear Hr.
    rewrite net_app. destruct (Nat.eqb_spec bidder (a_bidder a)); cbn [negb];
      destruct (Nat.eqb_spec (a_bidder a) (a_init a)); cbn [net net1]; eqb_cases; lia.
  - destruct (is_reverse a) eqn:Hrev.
    + unfold bid_coll_rev in Hr. destruct (negb (Nat.eqb d (a_lot_d a))); [discriminate|].
      destruct (_ <? x); [discriminate|]. destruct (x <? 0); [discriminate|]. inversion Hr; subst; clear Hr.
      rewrite net_app, net_payouts_other; [|assumption|].
      * destruct (Nat.eqb_spec bidder (a_bidder a)); cbn [negb net net1]; eqb_cases; lia.
      * destruct (Hret eq_refl eq_refl) as [Hn|Hn]; [left; assumption|right; congruence].
    + unfold bid_coll_fwd in Hr. destruct (negb (Nat.eqb d (a_bid_d a))); [discriminate|].
      destruct (x <? _); [discriminate|]. destruct (_ <? x); [discriminate|]. inversion Hr; subst; clear Hr.
      rewrite !net_app. unfold refund_fwd.
      destruct (Nat.eqb_spec bidder (a_bidder a)); cbn [negb andb].
      * destruct (0 <? a_debt a); cbn [net net1]; eqb_cases; lia.
      * destruct (Z.eqb_spec (a_bid a) 0); cbn [negb]; destruct (0 <? a_debt a); cbn [net net1]; eqb_cases; lia.
Qed.

(** * payout *)

Lemma bid_after_end_refused e s t id bidder d x parts a :
  afind id (aucs s) = Some a -> a_end a < t -> step e s (PlaceBid t id bidder d x parts) = Err.
Proof.
  intros Hf Ht. cbn [step]. unfold place_bid. rewrite Hf.
  destruct (Z.ltb_spec (a_end a) t); [reflexivity|lia].
Qed.

Lemma close_before_end_refused e s t id a :
  afind id (aucs s) = Some a -> t < a_end a -> step e s (Close t id) = Err.
Proof.
  intros Hf Ht. cbn [step]. unfold close. rewrite Hf.
  destruct (Z.ltb_spec t (a_end a)); [reflexivity|lia].
Qed.

Lemma close_unknown_refused e s t id : afind id (aucs s) = None -> step e s (Close t id) = Err.
Proof. intros Hf. cbn [step]. unfold close. rewrite Hf. reflexivity. Qed.

(* close succeeds only at or after the end time; the winner receives exactly the
   lot; the auction is deleted, other auctions are untouched, and every later close
   of the same id is refused *)
Theorem close_spec e s t id s' a :
  Inv e s -> afind id (aucs s) = Some a -> step e s (Close t id) = Ok s' tt ->
  a_end a <= t /\
  afind id (aucs s') = None /\
  (forall t2, step e s' (Close t2 id) = Err) /\
  (forall id', id' <> id -> afind id' (aucs s') = afind id' (aucs s)) /\
  (a_bidder a <> a_init a ->
   bal s' (a_bidder a) (a_lot_d a) = bal s (a_bidder a) (a_lot_d a) + a_lot a).
Proof.
  intros HI Hf H. cbn [step] in H. unfold close in H. rewrite Hf in H.
  destruct (Z.ltb_spec t (a_end a)); [discriminate|].
  destruct (exec e (bal s) (payout e a)) as [b' []| |] eqn:Hx; try discriminate.
  inversion H; subst; clear H.
  destruct HI as (Hc & Hp & Hs & Hlt & Hok).
  destruct (afind_split _ _ _ Hs Hf) as (l1 & l2 & El & _ & Hdel & Hnone).
  pose proof (Forall_forall (auc_ok e) (aucs s)) as FF. rewrite FF in Hok.
  pose proof (Hok _ (afind_In _ _ _ Hf)) as Hoka.
  unfold delete_auction. cbn [aucs bal]. rewrite Hdel.
  split; [lia|]. split; [assumption|]. split; [|split].
  - intros t2. cbn [step]. unfold close. cbn [aucs]. rewrite Hnone. reflexivity.
  - intros id' Hne. rewrite El.
    destruct (afind_app_none_l _ _ _ Hnone) as (Hn1 & Hn2).
    clear - Hne Hf. induction l1 as [|h r IH]; cbn [app afind].
    + rewrite (afind_id _ _ _ Hf). destruct (Z.eqb_spec id id'); [congruence|reflexivity].
    + destruct (a_id h =? id'); [reflexivity|exact IH].
  - intros Hbi. rewrite (exec_net _ _ _ _ Hx).
    pose proof (ok_bidder _ _ Hoka). pose proof (ok_init _ _ Hoka).
    unfold payout, debt_back. destruct (a_kind a); destruct (0 <? a_debt a); cbn [app net net1]; eqb_cases; lia.
Qed.

(** * the begin blocker *)

Lemma close_aucs e s t id s' a :
  Inv e s -> afind id (aucs s) = Some a -> close e s t id = Ok s' tt ->
  forall x, In x (aucs s') -> In x (aucs s) /\ a_id x <> id.
Proof.
  intros HI Hf H x Hx. unfold close in H. rewrite Hf in H.
  destruct (t <? a_end a); [discriminate|].
  destruct (exec e (bal s) (payout e a)) as [b' []| |]; try discriminate.
  inversion H; subst; clear H. destruct HI as (_ & _ & Hs & _).
  destruct (afind_split _ _ _ Hs Hf) as (l1 & l2 & El & _ & Hdel & Hnone).
  unfold delete_auction in Hx. cbn [aucs] in Hx. rewrite Hdel in Hx. split.
  - rewrite El. rewrite in_app_iff in *. cbn [In]. tauto.
  - intros E. apply (afind_none_notin _ _ Hnone). rewrite <- E. apply in_map. exact Hx.
Qed.

Lemma close_all_aucs e t ids : forall s s', Inv e s -> close_all e s t ids = Ok s' tt ->
  forall x, In x (aucs s') -> In x (aucs s) /\ ~ In (a_id x) ids.
Proof.
  induction ids as [|id r IH]; intros s s' HI H x Hx; cbn [close_all] in H.
  - inversion H; subst. split; [assumption|intros []].
  - destruct (afind id (aucs s)) as [a|] eqn:Hf.
    + destruct (close e s t id) as [s1 []| |] eqn:Hc; try discriminate.
      destruct (IH _ _ (close_inv _ _ _ _ _ HI Hc) H x Hx) as (Hin1 & Hn).
      destruct (close_aucs _ _ _ _ _ _ HI Hf Hc x Hin1) as (Hin & Hne).
      split; [assumption|]. cbn [In]. intros [E|I]; [congruence|tauto].
    + destruct (IH _ _ HI H x Hx) as (Hin & Hn). split; [assumption|].
      cbn [In]. intros [E|I]; [|tauto].
      apply (afind_none_notin _ _ Hf). rewrite E. apply in_map. exact Hin.
Qed.

(* after a successful begin blocker no stored auction has reached its end time,
   the invariant holds, and only auctions present before remain *)
Theorem begin_block_spec e s t s' :
  Inv e s -> step e s (BeginBlock t) = Ok s' tt ->
  Inv e s' /\ forall a, In a (aucs s') -> In a (aucs s) /\ t < a_end a.
Proof.
  intros HI H. cbn [step] in H. unfold begin_block in H.
  split; [eapply close_all_inv; eauto|].
  intros a Ha. destruct (close_all_aucs _ _ _ _ _ HI H a Ha) as (Hin & Hn). split; [assumption|].
  destruct (Z.ltb_spec t (a_end a)); [assumption|]. exfalso. apply Hn.
  destruct HI as (_ & Hp & _). unfold expired.
  apply in_map_iff. exists (akey a). split; [reflexivity|].
  apply filter_In. split.
  - eapply Permutation_in; [symmetry; exact Hp|]. apply in_map. exact Hin.
  - cbn [akey fst]. apply Z.leb_le. lia.
Qed.

(** * the boolean invariant of the correspondence run implies the custody and
      index clauses on the compared denoms (sanity link between inv_b and Inv) *)
Lemma inv_b_custody e ds s : inv_b e ds s = true ->
  forall d, In d ds -> bal s (amod e) d = held d (aucs s).
Proof.
  unfold inv_b. rewrite !Bool.andb_true_iff. intros ((((Hc & _) & _) & _) & _) d Hd.
  rewrite forallb_forall in Hc. apply Z.eqb_eq. auto.
Qed.

(** * reachability from the empty store, and a boolean form of the history guard *)

Lemma Inv_init e b nx : (forall d, b (amod e) d = 0) -> Inv e (mkState b [] [] nx).
Proof.
  intros Hb. unfold Inv; cbn [bal aucs idx next_id map]. split; [|split; [|split; [|split]]].
  - intros d. rewrite Hb. reflexivity.
  - reflexivity.
  - constructor.
  - constructor.
  - constructor.
Qed.

Fixpoint guardedb (e : env) (s : state) (ops : list op) : bool :=
  match ops with
  | [] => true
  | o :: r =>
      (match step e s o with Ok _ _ => op_okb e s o | _ => true end)
      && guardedb e (step' e s o) r
  end.

Lemma guardedb_sound e ops : forall s, guardedb e s ops = true -> guarded e s ops.
Proof.
  induction ops as [|o r IH]; intros s H; cbn [guardedb guarded] in *; [exact I|].
  apply Bool.andb_true_iff in H. destruct H as (H1 & H2). split; [|apply IH; assumption].
  intros s' Hs. rewrite Hs in H1. exact H1.
Qed.

Theorem reachable_inv e b nx ops :
  env_wf e -> (forall d, b (amod e) d = 0) ->
  guarded e (mkState b [] [] nx) ops -> Inv e (run e (mkState b [] [] nx) ops).
Proof. intros Hwf Hb Hg. apply run_inv; auto. apply Inv_init; assumption. Qed.

(** * the index stays in key order (what the KV store guarantees; it is what makes
      the range iteration of IterateAuctionsByTime equal to [expired]) *)

Definition key_lt (k1 k2 : Z * Z) : Prop :=
  fst k1 < fst k2 \/ (fst k1 = fst k2 /\ snd k1 < snd k2).

Definition idx_sorted (l : list (Z * Z)) : Prop := StronglySorted key_lt l.

Lemma key_ltb_lt k h : key_ltb k h = true <-> key_lt k h.
Proof.
  unfold key_ltb, key_lt. rewrite Bool.orb_true_iff, Bool.andb_true_iff, !Z.ltb_lt, Z.eqb_eq. tauto.
Qed.

Lemma key_lt_trans a b c : key_lt a b -> key_lt b c -> key_lt a c.
Proof. unfold key_lt. lia. Qed.

Lemma key_total k h : key_eqb k h = false -> key_ltb k h = false -> key_lt h k.
Proof.
  intros He Hl. unfold key_lt.
  assert (k <> h) by (intros E; apply key_eqb_eq in E; congruence).
  assert (~ key_lt k h) by (intros E; apply key_ltb_lt in E; congruence).
  unfold key_lt in *. destruct k as [a b], h as [c d]; cbn [fst snd] in *.
  assert (a <> c \/ b <> d) by (destruct (Z.eq_dec a c), (Z.eq_dec b d); subst; auto; congruence). lia.
Qed.

Lemma idx_insert_in x k l : In x (idx_insert k l) -> x = k \/ In x l.
Proof.
  induction l as [|h r IH]; cbn [idx_insert In].
  - intros [E|[]]; left; congruence.
  - destruct (key_eqb k h); [cbn [In]; tauto|]. destruct (key_ltb k h); cbn [In].
    + intros [E|I]; [left; congruence|tauto].
    + intros [E|I]; [tauto|]. destruct (IH I); tauto.
Qed.

Lemma idx_remove_in x k l : In x (idx_remove k l) -> In x l.
Proof.
  induction l as [|h r IH]; cbn [idx_remove In]; [tauto|].
  destruct (key_eqb k h); cbn [In]; [tauto|]. intros [E|I]; [tauto|auto].
Qed.

Lemma idx_insert_sorted k l : idx_sorted l -> idx_sorted (idx_insert k l).
Proof.
  unfold idx_sorted. induction l as [|h r IH]; cbn [idx_insert]; intros Hs.
  - constructor; constructor.
  - inversion Hs as [|? ? Hs' Hall]; subst.
    destruct (key_eqb k h) eqn:He; [assumption|].
    destruct (key_ltb k h) eqn:Hl.
    + apply key_ltb_lt in Hl. constructor; [assumption|]. constructor; [assumption|].
      rewrite Forall_forall in *. intros x Hx. eapply key_lt_trans; eauto.
    + constructor; [auto|]. rewrite Forall_forall in *. intros x Hx.
      destruct (idx_insert_in _ _ _ Hx) as [->|Hi]; [apply key_total; assumption|auto].
Qed.

Lemma idx_remove_sorted k l : idx_sorted l -> idx_sorted (idx_remove k l).
Proof.
  unfold idx_sorted. induction l as [|h r IH]; cbn [idx_remove]; intros Hs; [constructor|].
  inversion Hs as [|? ? Hs' Hall]; subst. destruct (key_eqb k h); [assumption|].
  constructor; [auto|]. rewrite Forall_forall in *. intros x Hx. apply Hall. eapply idx_remove_in; eauto.
Qed.

Lemma set_auction_sorted s b a : idx_sorted (idx s) -> idx_sorted (idx (set_auction s b a)).
Proof.
  intros H. unfold set_auction. cbn [idx]. apply idx_insert_sorted.
  destruct (afind (a_id a) (aucs s)); [apply idx_remove_sorted|]; assumption.
Qed.

Lemma close_sorted e s t id s' : idx_sorted (idx s) -> close e s t id = Ok s' tt -> idx_sorted (idx s').
Proof.
  intros Hs H. unfold close in H. destruct (afind id (aucs s)) as [a|] eqn:Hf; [|discriminate].
  destruct (t <? a_end a); [discriminate|].
  destruct (exec e (bal s) (payout e a)) as [b' []| |]; try discriminate.
  inversion H; subst. unfold delete_auction. cbn [idx]. rewrite Hf. apply idx_remove_sorted. assumption.
Qed.

Lemma close_all_sorted e t ids : forall s s', idx_sorted (idx s) -> close_all e s t ids = Ok s' tt -> idx_sorted (idx s').
Proof.
  induction ids as [|id r IH]; intros s s' Hs H; cbn [close_all] in H.
  - inversion H; subst; assumption.
  - destruct (afind id (aucs s)); [|eauto].
    destruct (close e s t id) as [s1 []| |] eqn:Hc; try discriminate.
    eapply IH; [|exact H]. eapply close_sorted; eauto.
Qed.

Theorem step_sorted e s o s' : idx_sorted (idx s) -> step e s o = Ok s' tt -> idx_sorted (idx s').
Proof.
  intros Hs H.
  assert (Hstart : forall seller a xs, start e s seller a xs = Ok s' tt -> idx_sorted (idx s')).
  { intros seller a xs H0. unfold start in H0. destruct (negb (is_module e seller)); [discriminate|].
    destruct (exec e (bal s) xs) as [b' []| |]; try discriminate. inversion H0; subst.
    unfold store_new. cbn [idx]. apply set_auction_sorted. assumption. }
  destruct o; cbn [step] in H.
  - eapply Hstart; eauto.
  - destruct (negb (is_module e buyer)); [discriminate|]. destruct (negb (minter e buyer)); [discriminate|].
    eapply Hstart; eauto.
  - destruct (negb (weights_valid e raddrs rws)); [discriminate|]. eapply Hstart; eauto.
  - unfold place_bid in H. destruct (afind id (aucs s)) as [a|]; [|discriminate].
    destruct (a_end a <? t); [discriminate|].
    destruct (bid_routine e t a bidder d x parts) as [[a' xs] []| |]; try discriminate.
    destruct (exec e (bal s) xs) as [b' []| |]; try discriminate.
    inversion H; subst. apply set_auction_sorted. assumption.
  - eapply close_sorted; eauto.
  - unfold begin_block in H. eapply close_all_sorted; eauto.
Qed.

Theorem run_sorted e ops : forall s, idx_sorted (idx s) -> idx_sorted (idx (run e s ops)).
Proof.
  induction ops as [|o r IH]; intros s Hs; cbn [run fold_left]; [assumption|].
  apply IH. unfold step'. destruct (step e s o) as [s' []| |] eqn:E; try assumption.
  eapply step_sorted; eauto.
Qed.

(* on an index in key order the entries selected by the begin blocker are a prefix:
   the range iteration up to the block time visits exactly them, in this order *)
Lemma expired_prefix t l : idx_sorted l ->
  exists l1 l2, l = l1 ++ l2 /\ expired t l = map snd l1 /\
    Forall (fun k => fst k <= t) l1 /\ Forall (fun k => t < fst k) l2.
Proof.
  unfold idx_sorted, expired. induction l as [|h r IH]; intros Hs.
  - exists [], []. repeat split; constructor.
  - inversion Hs as [|? ? Hs' Hall]; subst. cbn [filter].
    destruct (Z.leb_spec (fst h) t) as [Hle|Hgt].
    + destruct (IH Hs') as (l1 & l2 & -> & He & H1 & H2).
      exists (h :: l1), l2. cbn [map app]. rewrite He. repeat split; auto.
    + exists [], (h :: r). cbn [app map]. repeat split; try constructor; auto.
      * assert (Hnone : filter (fun k => fst k <=? t) r = []).
        { rewrite Forall_forall in Hall. clear - Hall Hgt. induction r as [|x r IH]; [reflexivity|].
          cbn [filter]. assert (key_lt h x) by (apply Hall; left; reflexivity).
          destruct (Z.leb_spec (fst x) t); [unfold key_lt in *; lia|]. apply IH. intros y Hy. apply Hall. right. assumption. }
        rewrite Hnone. reflexivity.
      * rewrite Forall_forall in *. intros x Hx. specialize (Hall _ Hx). unfold key_lt in Hall. lia.
Qed.

(** * exact custody means the module can always pay: closing an expired auction
      never fails for lack of funds *)

Lemma held1_nonneg e d a : auc_ok e a -> 0 <= held1 d a.
Proof.
  intros Hok. pose proof (ok_lot _ _ Hok). pose proof (ok_debt _ _ Hok).
  unfold held1, coin_at. destruct (a_kind a); eqb_cases; lia.
Qed.

Lemma held_ge e d l a : Forall (auc_ok e) l -> In a l -> held1 d a <= held d l.
Proof.
  induction l as [|h r IH]; intros Hf Hi; [destruct Hi|].
  inversion Hf; subst. rewrite held_cons. destruct Hi as [->|Hi].
  - assert (0 <= held d r).
    { clear - H2. induction r as [|x r IH]; [unfold held; cbn; lia|].
      inversion H2; subst. rewrite held_cons. pose proof (held1_nonneg e d x H1). specialize (IH H3). lia. }
    lia.
  - pose proof (held1_nonneg e d h H1). specialize (IH H2 Hi). lia.
Qed.

Lemma exec1_send_ok e b f t d x :
  0 <= x -> x <= b f d -> t <> nobody e ->
  exists b', exec1 e b (XSend f t d x) = Ok b' tt.
Proof.
  intros Hx Hb Ht. cbn [exec1].
  destruct (Z.ltb_spec x 0); [lia|]. destruct (Z.eqb_spec x 0); [eexists; reflexivity|].
  destruct (Z.ltb_spec (b f d) x); [lia|]. destruct (Nat.eqb_spec t (nobody e)); [congruence|].
  eexists; reflexivity.
Qed.

Lemma exec1_sendacc_ok e b f t d x :
  0 <= x -> x <= b f d -> t <> nobody e -> blocked e t = false ->
  exists b', exec1 e b (XSendAcc f t d x) = Ok b' tt.
Proof.
  intros Hx Hb Ht Hblk. cbn [exec1]. rewrite Hblk.
  destruct (Z.ltb_spec x 0); [lia|]. destruct (Z.eqb_spec x 0); [eexists; reflexivity|].
  destruct (Z.ltb_spec (b f d) x); [lia|]. destruct (Nat.eqb_spec t (nobody e)); [congruence|].
  eexists; reflexivity.
Qed.

Lemma exec1_mint_ok e b m d x :
  0 <= x -> minter e m = true ->
  exec1 e b (XMint m d x) = Ok (upd2 b m d (b m d + x)) tt.
Proof.
  intros Hx Hm. cbn [exec1]. destruct (Z.ltb_spec x 0); [lia|]. rewrite Hm. reflexivity.
Qed.

Theorem close_pays e s t id a :
  Inv e s -> afind id (aucs s) = Some a -> a_end a <= t ->
  blocked e (a_bidder a) = false -> a_bidder a <> nobody e -> a_init a <> nobody e ->
  (a_kind a = KDebt -> minter e (a_init a) = true /\ 0 <= bal s (a_init a) (a_lot_d a)) ->
  exists s', step e s (Close t id) = Ok s' tt.
Proof.
  intros HI Hf Ht Hblk Hnb Hni Hdebt.
  pose proof (Inv_auc_ok _ _ _ _ HI Hf) as Hok.
  destruct HI as (Hc & _ & _ & _ & Hall).
  pose proof (fun d => held_ge e d _ _ Hall (afind_In _ _ _ Hf)) as Hge.
  pose proof (ok_lot _ _ Hok) as Hl. pose proof (ok_debt _ _ Hok) as Hd.
  pose proof (ok_init _ _ Hok) as Hi. pose proof (ok_bidder _ _ Hok) as Hb.
  cbn [step]. unfold close. rewrite Hf. destruct (Z.ltb_spec t (a_end a)); [lia|].
  enough (exists b', exec e (bal s) (payout e a) = Ok b' tt) as (b' & ->) by (eexists; reflexivity).
  assert (Hback : forall b, a_debt a <= b (amod e) (a_debt_d a) -> exists b', exec e b (debt_back e a) = Ok b' tt).
  { intros b Hbb. unfold debt_back. destruct (Z.ltb_spec 0 (a_debt a)); [|eexists; reflexivity].
    cbn [exec]. destruct (exec1_send_ok e b (amod e) (a_init a) (a_debt_d a) (a_debt a)) as (b1 & ->); try lia; auto.
    eexists; reflexivity. }
  unfold payout. destruct (a_kind a) eqn:Hk.
  - pose proof (Hge (a_lot_d a)) as G. unfold held1 in G. rewrite Hk in G. unfold coin_at in G. rewrite Nat.eqb_refl in G.
    cbn [exec].
    destruct (exec1_sendacc_ok e (bal s) (amod e) (a_bidder a) (a_lot_d a) (a_lot a)) as (b1 & ->); auto.
    { rewrite Hc. lia. } eexists; reflexivity.
  - destruct (Hdebt eq_refl) as (Hmint & Hbi).
    cbn [app exec]. rewrite (exec1_mint_ok _ _ _ _ _ Hl Hmint).
    set (b1 := upd2 (bal s) (a_init a) (a_lot_d a) (bal s (a_init a) (a_lot_d a) + a_lot a)).
    assert (E1 : b1 (a_init a) (a_lot_d a) = bal s (a_init a) (a_lot_d a) + a_lot a).
    { unfold b1. rewrite upd2_spec, !Nat.eqb_refl. reflexivity. }
    destruct (exec1_sendacc_ok e b1 (a_init a) (a_bidder a) (a_lot_d a) (a_lot a)) as (b2 & E2); auto; [lia|].
    rewrite E2.
    apply Hback. rewrite (exec1_net _ _ _ _ E2). unfold b1. rewrite upd2_spec.
    destruct (Nat.eqb_spec (amod e) (a_init a)); [congruence|]. cbn [andb net1].
    pose proof (Hge (a_debt_d a)) as G. unfold held1 in G. rewrite Hk in G. unfold coin_at in G. rewrite Nat.eqb_refl in G.
    rewrite Hc. eqb_cases; lia.
  - cbn [app exec].
    pose proof (Hge (a_lot_d a)) as G1. pose proof (Hge (a_debt_d a)) as G2.
    unfold held1 in G1, G2. rewrite Hk in G1, G2. unfold coin_at in G1, G2. rewrite Nat.eqb_refl in G1, G2.
    destruct (exec1_sendacc_ok e (bal s) (amod e) (a_bidder a) (a_lot_d a) (a_lot a)) as (b1 & E1); auto.
    { rewrite Hc. revert G1. eqb_cases; lia. }
    rewrite E1. apply Hback.
    rewrite (exec1_net _ _ _ _ E1). cbn [net1]. rewrite Hc. revert G1 G2. eqb_cases; lia.
Qed.

(** * The message level adds nothing to PlaceBid: what MsgPlaceBid.ValidateBasic
      refuses (auction id zero, negative amount) the keeper refuses as well *)

Lemma bid_routine_negative e t a bidder d x parts :
  auc_ok e a -> x < 0 -> bid_routine e t a bidder d x parts = Err.
Proof.
  intros OK X. destruct OK. unfold bid_routine.
  destruct (a_kind a) eqn:K.
  - unfold bid_surplus. destruct (negb (Nat.eqb d (a_bid_d a))); [reflexivity|].
    pose proof (min_inc_pos (inc_s e) (a_bid a)).
    destruct (Z.ltb_spec x (a_bid a + min_inc (inc_s e) (a_bid a))); [reflexivity|lia].
  - unfold bid_debt. destruct (negb (Nat.eqb d (a_lot_d a))); [reflexivity|].
    destruct (a_lot a - min_inc (inc_d e) (a_lot a) <? x); [reflexivity|].
    destruct (Z.ltb_spec x 0); [reflexivity|lia].
  - destruct (is_reverse a).
    + unfold bid_coll_rev. destruct (negb (Nat.eqb d (a_lot_d a))); [reflexivity|].
      destruct (a_lot a - min_inc (inc_c e) (a_lot a) <? x); [reflexivity|].
      destruct (Z.ltb_spec x 0); [reflexivity|lia].
    + unfold bid_coll_fwd. destruct (negb (Nat.eqb d (a_bid_d a))); [reflexivity|].
      pose proof (min_inc_pos (inc_c e) (a_bid a)).
      destruct (Z.ltb_spec x (Z.min (a_bid a + min_inc (inc_c e) (a_bid a)) (a_maxbid a))); [reflexivity|].
      exfalso. destruct (ok_coll0 eq_refl) as (C & _). lia.
Qed.

Lemma msg_place_bid_is_place_bid e s t id bidder d x parts :
  Inv e s -> afind 0 (aucs s) = None -> bidder <> nobody e ->
  msg_place_bid e s t id bidder d x parts = place_bid e s t id bidder d x parts.
Proof.
  intros I Z0 NB. unfold msg_place_bid, bid_validate_basic.
  destruct (Nat.eqb_spec bidder (nobody e)) as [EB|_]; [contradiction|].
  destruct (Z.eqb_spec id 0) as [->|NZ]; cbn [negb andb].
  - unfold place_bid. rewrite Z0. reflexivity.
  - destruct (Z.leb_spec 0 x) as [P|N]; [reflexivity|].
    unfold place_bid. destruct (afind id (aucs s)) as [a|] eqn:F; [|reflexivity].
    destruct (a_end a <? t); [reflexivity|].
    rewrite (bid_routine_negative e t a bidder d x parts (Inv_auc_ok e s id a I F) N). reflexivity.
Qed.

Lemma msg_place_bid_empty_bidder_refused e s t id d x parts :
  msg_place_bid e s t id (nobody e) d x parts = Err.
Proof. unfold msg_place_bid. rewrite Nat.eqb_refl. reflexivity. Qed.
