From Kava Require Import Base.Prelude Model.Precisebank Proofs.Precisebank Model.PrecisebankGenesis.
Local Open Scope Z_scope.

Definition entries (s : state) (lo n : nat) : list (nat * Z) :=
  filter (fun p => negb (snd p =? 0)) (map (fun a => (a, frac s a)) (seq lo n)).

Lemma entries_cons s lo n :
  entries s lo (S n) = if frac s lo =? 0 then entries s (S lo) n else (lo, frac s lo) :: entries s (S lo) n.
Proof. unfold entries. cbn [seq map filter snd]. destruct (frac s lo =? 0); reflexivity. Qed.

Lemma entries_sum s : forall n lo, zsum (map snd (entries s lo n)) = sumN (lo + n) (frac s) - sumN lo (frac s).
Proof.
  induction n as [|n IH]; intros lo.
  - rewrite Nat.add_0_r. cbn. lia.
  - rewrite entries_cons. replace (lo + S n)%nat with (S lo + n)%nat by lia.
    destruct (Z.eqb_spec (frac s lo) 0) as [E|E].
    + rewrite IH. cbn [sumN]. lia.
    + cbn [map snd zsum fold_right]. fold (zsum (map snd (entries s (S lo) n))). rewrite IH. cbn [sumN]. lia.
Qed.

Lemma entries_keys_ge s : forall n lo a v, In (a, v) (entries s lo n) -> (lo <= a < lo + n)%nat /\ v = frac s a /\ v <> 0.
Proof.
  induction n as [|n IH]; intros lo a v H; [destruct H|].
  rewrite entries_cons in H. destruct (Z.eqb_spec (frac s lo) 0) as [E|E].
  - apply IH in H. lia.
  - destruct H as [H|H].
    + injection H as <- <-. repeat split; try lia.
    + apply IH in H. lia.
Qed.

Lemma nodup_entries s : forall n lo seen, (forall x, In x seen -> (x < lo)%nat) ->
  nodup_keys seen (entries s lo n) = true.
Proof.
  induction n as [|n IH]; intros lo seen Hs; [reflexivity|].
  rewrite entries_cons. destruct (frac s lo =? 0).
  - apply IH. intros x Hx. specialize (Hs x Hx). lia.
  - cbn [nodup_keys]. apply andb_true_iff. split.
    + apply negb_true_iff. apply not_true_is_false. intros H. apply existsb_exists in H.
      destruct H as (x & Hx & E). apply Nat.eqb_eq in E. subst. specialize (Hs _ Hx). lia.
    + apply IH. intros x [<-|Hx]; [lia|]. specialize (Hs x Hx). lia.
Qed.

Lemma fold_upd_entries s : forall n lo f a,
  fold_left (fun g p => upd g (fst p) (snd p)) (entries s lo n) f a
  = if (Nat.leb lo a && Nat.ltb a (lo + n) && negb (frac s a =? 0))%bool then frac s a else f a.
Proof.
  induction n as [|n IH]; intros lo f a.
  - unfold entries. cbn [seq map filter fold_left].
    destruct (Nat.leb_spec lo a); cbn [andb]; [|reflexivity].
    destruct (Nat.ltb_spec a (lo + 0)); [lia|reflexivity].
  - rewrite entries_cons. destruct (Z.eqb_spec (frac s lo) 0) as [E|E].
    + rewrite IH. replace (S lo + n)%nat with (lo + S n)%nat by lia.
      destruct (Nat.leb_spec (S lo) a), (Nat.leb_spec lo a), (Nat.ltb_spec a (lo + S n)); cbn [andb]; try reflexivity; try lia.
      assert (a = lo) by lia. subst. rewrite E. cbn. reflexivity.
    + cbn [fold_left fst snd]. rewrite IH. replace (S lo + n)%nat with (lo + S n)%nat by lia.
      unfold upd.
      destruct (Nat.eqb_spec a lo) as [->|Hne].
      * destruct (Nat.leb_spec (S lo) lo); [lia|]. cbn [andb].
        destruct (Nat.leb_spec lo lo); [|lia]. destruct (Nat.ltb_spec lo (lo + S n)); [|lia]. cbn [andb].
        destruct (Z.eqb_spec (frac s lo) 0); [contradiction|reflexivity].
      * destruct (Nat.leb_spec (S lo) a), (Nat.leb_spec lo a); try lia; reflexivity.
Qed.

(* Round trip: exporting a state that satisfies the module invariant and importing it
   (over the same bank state) validates, does not panic, and reproduces every
   fractional balance and the remainder. *)
Theorem export_import_roundtrip e s :
  Inv e s -> (forall a, (nacc e <= a)%nat -> frac s a = 0) ->
  validate_genesis (export_genesis e s) = true /\
  exists s', init_genesis e s (export_genesis e s) = Ok s' tt /\
    (forall a, frac s' a = frac s a) /\ rem s' = rem s /\ bal s' = bal s /\ sup s' = sup s /\ Inv e s'.
Proof.
  intros HInv Hout. pose proof HInv as (Hfr & Hrem & Hres & Hsa & Hfres).
  assert (Hsum : zsum (map snd (g_balances (export_genesis e s))) = sumN (nacc e) (frac s)).
  { unfold export_genesis. cbn [g_balances]. fold (entries s 0 (nacc e)). rewrite entries_sum. cbn. lia. }
  assert (Hval : validate_genesis (export_genesis e s) = true).
  { unfold validate_genesis. rewrite Hsum. unfold export_genesis. cbn [g_balances g_remainder].
    fold (entries s 0 (nacc e)).
    repeat (apply andb_true_iff; split).
    - apply forallb_forall. intros [a v] Hin. apply entries_keys_ge in Hin. destruct Hin as (_ & -> & Hnz).
      cbn [snd]. specialize (Hfr a). apply andb_true_iff. split; [apply Z.ltb_lt|apply Z.ltb_lt]; lia.
    - apply nodup_entries. intros x [].
    - apply Z.leb_le. lia.
    - apply Z.ltb_lt. lia.
    - apply Z.eqb_eq. rewrite <- Hres. apply Z.mod_mul. unfold CF. lia. }
  split; [exact Hval|].
  unfold init_genesis. rewrite Hval. cbn [negb]. rewrite Hsum.
  cbn [export_genesis g_remainder]. rewrite <- Hres, Z.eqb_refl. cbn [negb].
  eexists. split; [reflexivity|].
  assert (Hf : forall a, fold_left (fun g p => upd g (fst p) (snd p)) (g_balances (export_genesis e s)) (fun _ => 0) a = frac s a).
  { intros a. unfold export_genesis. cbn [g_balances]. fold (entries s 0 (nacc e)). rewrite fold_upd_entries.
    cbn [Nat.leb andb Nat.add]. destruct (Nat.ltb_spec a (nacc e)); cbn [andb].
    - destruct (Z.eqb_spec (frac s a) 0) as [E|E]; cbn; [symmetry; exact E|reflexivity].
    - symmetry. apply Hout. lia. }
  split; [intros a; cbn [frac]; apply Hf|].
  split; [reflexivity|]. split; [reflexivity|]. split; [reflexivity|].
  refine (conj _ (conj _ (conj _ (conj _ _)))).
  - intros a. cbn [frac]. rewrite Hf. apply Hfr.
  - cbn [rem]. exact Hrem.
  - cbn [bal frac rem]. rewrite Hres. f_equal.
    clear -Hf. induction (nacc e) as [|n IHn]; cbn [sumN]; [reflexivity|]. rewrite IHn, Hf. reflexivity.
  - cbn [sup]. exact Hsa.
  - cbn [frac]. rewrite Hf. exact Hfres.
Qed.
