From Coq Require Import String.
From Kava Require Import Base.Prelude Model.World Model.WorldG.

(* what has to be proved of a component *)
Record module_ok (M : module) : Prop := mkModuleOk {
  (* from a state satisfying the invariant the begin blocker completes on every
     good block input and re-establishes the invariant *)
  ok_bb : forall s b, m_Inv M s -> m_goodB M s b -> exists s', m_bb M s b = Ok s' tt /\ m_Inv M s';
  (* accepted (good) operations preserve the invariant *)
  ok_tx : forall s o s' u, m_Inv M s -> m_goodT M s o -> m_tx M s o = Ok s' u -> m_Inv M s';
  (* the end blocker completes and re-establishes the invariant *)
  ok_eb : forall s b, m_Inv M s -> exists s', m_eb M s b = Ok s' tt /\ m_Inv M s'
}.

Section Run.
  Variable M : module.
  Hypothesis HM : module_ok M.

  Lemma txs_invG os : forall s, m_Inv M s -> good_txs M s os -> m_Inv M (fold_left (tx' (m_tx M)) os s).
  Proof.
    induction os as [|o os IH]; intros s H G; cbn [fold_left]; [exact H|].
    destruct G as [G1 G2]. apply IH; [|exact G2].
    unfold tx'. destruct (m_tx M s o) as [s' u| |] eqn:E; auto.
    eapply (ok_tx M HM); eauto.
  Qed.

  Lemma block_no_haltG s blk :
    m_Inv M s -> m_goodB M s (fst blk) -> (forall s1, m_bb M s (fst blk) = Ok s1 tt -> good_txs M s1 (snd blk)) ->
    exists s', run_blockG M s blk = Some s' /\ m_Inv M s'.
  Proof.
    intros H GB GT. unfold run_blockG.
    destruct (ok_bb M HM s (fst blk) H GB) as (s1 & E & H1). rewrite E.
    pose proof (txs_invG (snd blk) s1 H1 (GT s1 E)) as H2.
    destruct (ok_eb M HM _ (fst blk) H2) as (s2 & E2 & H3). rewrite E2.
    eexists; split; [reflexivity|exact H3].
  Qed.

  Theorem blocks_no_haltG blks : forall s, m_Inv M s -> good_blocks M s blks ->
    exists s', run_blocksG M s blks = Some s' /\ m_Inv M s'.
  Proof.
    induction blks as [|b r IH]; intros s H G; cbn [run_blocksG].
    - eexists; split; [reflexivity|exact H].
    - destruct G as (GB & GT & GR).
      destruct (block_no_haltG s b H GB GT) as (s1 & E & H1). rewrite E. apply IH; [exact H1|exact (GR s1 E)].
  Qed.

  (* safety alone: whatever the block inputs, as long as the operations are good
     the invariant holds at every height the chain reaches *)
  Lemma block_keepsG s blk s' :
    (forall s b s', m_Inv M s -> m_bb M s b = Ok s' tt -> m_Inv M s') ->
    m_Inv M s -> (forall s1, m_bb M s (fst blk) = Ok s1 tt -> good_txs M s1 (snd blk)) ->
    run_blockG M s blk = Some s' -> m_Inv M s'.
  Proof.
    intros Hbb H GT. unfold run_blockG.
    destruct (m_bb M s (fst blk)) as [s1 []| |] eqn:E; try discriminate.
    pose proof (txs_invG (snd blk) s1 (Hbb _ _ _ H E) (GT s1 eq_refl)) as H2.
    destruct (ok_eb M HM _ (fst blk) H2) as (s2 & E2 & H3). rewrite E2. intros X; inversion X; subst. exact H3.
  Qed.
End Run.

(** * composition *)

Lemma seq2_ok {S1 S2 : Type} (r1 : outcome S1 unit) (r2 : outcome S2 unit) s1 s2 :
  r1 = Ok s1 tt -> r2 = Ok s2 tt -> seq2 r1 r2 = Ok (s1, s2) tt.
Proof. intros -> ->. reflexivity. Qed.

Lemma mprod_ok M1 M2 : module_ok M1 -> module_ok M2 -> module_ok (mprod M1 M2).
Proof.
  intros H1 H2. constructor.
  - intros [s1 s2] [b1 b2] [I1 I2] [G1 G2]. cbn in *.
    destruct (ok_bb M1 H1 s1 b1 I1 G1) as (s1' & E1 & I1').
    destruct (ok_bb M2 H2 s2 b2 I2 G2) as (s2' & E2 & I2').
    exists (s1', s2'). split; [apply seq2_ok; assumption|split; assumption].
  - intros [s1 s2] o s' u [I1 I2] G E. cbn in *. destruct o as [o1|o2].
    + destruct (m_tx M1 s1 o1) as [s1' u1| |] eqn:E1; try discriminate.
      inversion E; subst. cbn. split; [eapply (ok_tx M1 H1); eauto|exact I2].
    + destruct (m_tx M2 s2 o2) as [s2' u2| |] eqn:E2; try discriminate.
      inversion E; subst. cbn. split; [exact I1|eapply (ok_tx M2 H2); eauto].
  - intros [s1 s2] [b1 b2] [I1 I2]. cbn in *.
    destruct (ok_eb M1 H1 s1 b1 I1) as (s1' & E1 & I1').
    destruct (ok_eb M2 H2 s2 b2 I2) as (s2' & E2 & I2').
    exists (s1', s2'). split; [apply seq2_ok; assumption|split; assumption].
Qed.

Lemma munit_ok : module_ok munit.
Proof.
  constructor.
  - intros s b _ _. exists s. split; [reflexivity|exact I].
  - intros s o. destruct o.
  - intros s b _. exists s. split; [reflexivity|exact I].
Qed.

Lemma mempty_ok name : module_ok (mempty name).
Proof.
  constructor.
  - intros s b _ _. exists s. split; [reflexivity|exact I].
  - intros s o. destruct o.
  - intros s b _. exists s. split; [reflexivity|exact I].
Qed.

Inductive all_ok : list module -> Prop :=
| all_ok_nil : all_ok []
| all_ok_cons M l : module_ok M -> all_ok l -> all_ok (M :: l).

Theorem mcompose_ok l : all_ok l -> module_ok (mcompose l).
Proof.
  induction 1 as [|M l HM Hl IH]; cbn [mcompose fold_right]; [exact munit_ok|].
  apply mprod_ok; assumption.
Qed.

Lemma mcompose_names l : m_names (mcompose l) = flat_map m_names l.
Proof. induction l as [|M l IH]; cbn; [reflexivity|]. f_equal. exact IH. Qed.

(* the chain of a component never halts and satisfies the invariant at every height *)
Theorem module_never_halts M : module_ok M ->
  forall blks s, m_Inv M s -> good_blocks M s blks ->
  exists s', run_blocksG M s blks = Some s' /\ m_Inv M s'.
Proof. intros HM blks. exact (blocks_no_haltG M HM blks). Qed.

(** * helpers for instances *)

(* a component without blockers: only the operation step has to be shown *)
Lemma no_blockers_ok names (S B O : Type) (tx : S -> O -> outcome S unit) (Inv : S -> Prop)
      (goodB : S -> B -> Prop) (goodT : S -> O -> Prop) :
  (forall s o s' u, Inv s -> goodT s o -> tx s o = Ok s' u -> Inv s') ->
  module_ok (mkModule names S B O no_blocker tx no_blocker Inv goodB goodT).
Proof.
  intros H. constructor; cbn.
  - intros s b I _. exists s. split; [reflexivity|exact I].
  - exact H.
  - intros s b I. exists s. split; [reflexivity|exact I].
Qed.

Lemma forget_ok {S U} (r : outcome S U) s u : forget r = Ok s u -> exists v, r = Ok s v.
Proof. destruct r; cbn; intros H; inversion H; subst; eauto. Qed.

Lemma forget_of_ok {S U} (r : outcome S U) s v : r = Ok s v -> forget r = Ok s tt.
Proof. intros ->. reflexivity. Qed.

(* a component without guards: every list of blocks is good *)
Lemma good_txs_True M : (forall s o, m_goodT M s o) -> forall os s, good_txs M s os.
Proof. intros H os. induction os as [|o r IH]; intros s; cbn [good_txs]; [exact I|]. split; [intros; apply H|apply IH]. Qed.

Lemma good_blocks_True M : (forall s b, m_goodB M s b) -> (forall s o, m_goodT M s o) ->
  forall blks s, good_blocks M s blks.
Proof.
  intros HB HT blks. induction blks as [|b r IH]; intros s; cbn [good_blocks]; [exact I|].
  split; [apply HB|]. split; [intros; apply good_txs_True; exact HT|intros; apply IH].
Qed.

(* good_blocks of a product = good_blocks of the parts is NOT stated: the guards of a product are the
   conjunction (blocks) / the addressed component's guard (operations), by definition of [mprod]. *)

(** * a boolean form of [good_blocks] for closed examples (decidable guards) *)
Section Dec.
  Variable M : module.
  Variable gB : m_S M -> m_B M -> bool.
  Variable gT : m_S M -> m_O M -> bool.
  Hypothesis gB_ok : forall s b, gB s b = true -> m_goodB M s b.
  Hypothesis gT_ok : forall s o, gT s o = true -> m_goodT M s o.

  Fixpoint good_txs_b (s : m_S M) (os : list (m_O M)) : bool :=
    match os with
    | [] => true
    | o :: r => (match m_tx M s o with Ok _ _ => gT s o | _ => true end) && good_txs_b (tx' (m_tx M) s o) r
    end.

  Fixpoint good_blocks_b (s : m_S M) (blks : list (m_B M * list (m_O M))) : bool :=
    match blks with
    | [] => true
    | blk :: r =>
        gB s (fst blk)
        && (match m_bb M s (fst blk) with Ok s1 _ => good_txs_b s1 (snd blk) | _ => true end)
        && (match run_blockG M s blk with Some s2 => good_blocks_b s2 r | None => true end)
    end.

  Lemma good_txs_b_ok os : forall s, good_txs_b s os = true -> good_txs M s os.
  Proof.
    induction os as [|o r IH]; intros s H; cbn [good_txs_b good_txs] in *; [exact I|].
    apply andb_prop in H. destruct H as [H1 H2]. split; [|apply IH; exact H2].
    intros s' u E. rewrite E in H1. apply gT_ok; exact H1.
  Qed.

  Lemma good_blocks_b_ok blks : forall s, good_blocks_b s blks = true -> good_blocks M s blks.
  Proof.
    induction blks as [|b r IH]; intros s H; cbn [good_blocks_b good_blocks] in *; [exact I|].
    apply andb_prop in H. destruct H as [H12 H3]. apply andb_prop in H12. destruct H12 as [H1 H2].
    split; [apply gB_ok; exact H1|]. split.
    - intros s1 E. rewrite E in H2. apply good_txs_b_ok; exact H2.
    - intros s2 E. rewrite E in H3. apply IH; exact H3.
  Qed.
End Dec.

(** * the side-by-side product IS the pair of independent component runs *)
Section Independent.
  Variables M1 M2 : module.

  Definition ops1 (os : list (m_O M1 + m_O M2)) : list (m_O M1) :=
    flat_map (fun o => match o with inl a => [a] | inr _ => [] end) os.
  Definition ops2 (os : list (m_O M1 + m_O M2)) : list (m_O M2) :=
    flat_map (fun o => match o with inl _ => [] | inr a => [a] end) os.
  Definition blks1 (blks : list (m_B (mprod M1 M2) * list (m_O (mprod M1 M2)))) : list (m_B M1 * list (m_O M1)) :=
    map (fun blk => (fst (fst blk), ops1 (snd blk))) blks.
  Definition blks2 (blks : list (m_B (mprod M1 M2) * list (m_O (mprod M1 M2)))) : list (m_B M2 * list (m_O M2)) :=
    map (fun blk => (snd (fst blk), ops2 (snd blk))) blks.

  Definition both {A B} (x : option A) (y : option B) : option (A * B) :=
    match x, y with Some a, Some b => Some (a, b) | _, _ => None end.

  Lemma fold_prod os : forall s1 s2,
    fold_left (tx' (m_tx (mprod M1 M2))) os (s1, s2)
    = (fold_left (tx' (m_tx M1)) (ops1 os) s1, fold_left (tx' (m_tx M2)) (ops2 os) s2).
  Proof.
    induction os as [|o r IH]; intros s1 s2; [reflexivity|].
    cbn [fold_left ops1 ops2 flat_map]. destruct o as [o1|o2]; cbn [app fold_left].
    - replace (tx' (m_tx (mprod M1 M2)) (s1, s2) (inl o1)) with (tx' (m_tx M1) s1 o1, s2); [apply IH|].
      unfold tx'. cbn. destruct (m_tx M1 s1 o1); reflexivity.
    - replace (tx' (m_tx (mprod M1 M2)) (s1, s2) (inr o2)) with (s1, tx' (m_tx M2) s2 o2); [apply IH|].
      unfold tx'. cbn. destruct (m_tx M2 s2 o2); reflexivity.
  Qed.

  Lemma run_block_prod s1 s2 blk :
    run_blockG (mprod M1 M2) (s1, s2) blk
    = both (run_blockG M1 s1 (fst (fst blk), ops1 (snd blk))) (run_blockG M2 s2 (snd (fst blk), ops2 (snd blk))).
  Proof.
    destruct blk as [[b1 b2] os]. unfold run_blockG. cbn [fst snd m_bb m_eb mprod].
    destruct (m_bb M1 s1 b1) as [a1 []| |]; destruct (m_bb M2 s2 b2) as [a2 []| |]; cbn [seq2 both]; try reflexivity.
    - change (fold_left (tx' (m_tx (mprod M1 M2))) os (a1, a2)) with (fold_left (tx' (m_tx (mprod M1 M2))) os (a1, a2)).
      rewrite fold_prod. cbn [fst snd].
      destruct (m_eb M1 (fold_left (tx' (m_tx M1)) (ops1 os) a1) b1) as [c1 []| |];
        destruct (m_eb M2 (fold_left (tx' (m_tx M2)) (ops2 os) a2) b2) as [c2 []| |]; reflexivity.
    - destruct (m_eb M1 (fold_left (tx' (m_tx M1)) (ops1 os) a1) b1) as [c1 []| |]; reflexivity.
    - destruct (m_eb M1 (fold_left (tx' (m_tx M1)) (ops1 os) a1) b1) as [c1 []| |]; reflexivity.
  Qed.

  (* the product chain reaches (s1', s2') exactly when component 1 reaches s1' on its projection of the
     history and component 2 reaches s2' on its projection: the components do not influence one another *)
  Theorem run_blocks_prod blks : forall s1 s2,
    run_blocksG (mprod M1 M2) (s1, s2) blks = both (run_blocksG M1 s1 (blks1 blks)) (run_blocksG M2 s2 (blks2 blks)).
  Proof.
    induction blks as [|blk r IH]; intros s1 s2; [reflexivity|].
    destruct blk as [[b1 b2] os].
    cbn [run_blocksG blks1 blks2 map]. cbv beta. rewrite run_block_prod. cbn [fst snd].
    destruct (run_blockG M1 s1 (b1, ops1 os)) as [a1|];
      destruct (run_blockG M2 s2 (b2, ops2 os)) as [a2|]; cbn [both].
    - apply IH.
    - match goal with |- context [both ?x None] => destruct x end; reflexivity.
    - reflexivity.
    - reflexivity.
  Qed.
End Independent.
