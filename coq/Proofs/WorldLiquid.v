(* C02 instance: x/liquid over the model of x/staking (Model/Liquid.v, Model/Staking.v).  x/liquid has no
   begin or end blocker and registers no invariant; the staking end blocker (maturing of unbonding
   entries) is an operation of the model with an oracle flag.
   Invariant = Proofs.Liquid.Inv, the model form of the x/staking invariants liquid feeds:
     validator tokens and shares >= 0; validator shares = sum of delegation shares
                                                      — x/staking "delegator-shares"
     delegation shares >= 0                           — x/staking "positive-delegation" (a stored
                                                        delegation with zero shares is the defect fixed
                                                        by df0107c2b; see C12)
     derivative supply = sum of holdings; balances >= 0
   No guard on operations ([user_ok] is checked by the step itself). *)
From Coq Require Import String.
From Kava Require Import Base.Prelude Model.World Model.WorldG Proofs.WorldG.
From Kava Require Import Base.Dec Model.Staking Model.Tally Model.Liquid Proofs.Liquid.
Local Open Scope string_scope.

Definition liquid_M (e : env) : module :=
  mkModule ["liquid"] state unit op no_blocker (fun s o => forget (step e s o)) no_blocker
           (Inv e) (fun _ _ => True) (fun _ _ => True).

Lemma liquid_M_ok e : env_wf e -> module_ok (liquid_M e).
Proof.
  intros Hwf. apply no_blockers_ok. intros s o s' u HI _ E.
  apply forget_ok in E. destruct E as (out & E). eapply step_inv; eauto.
Qed.

(** * non-vacuity: accounts 0,1 users, 2,3 operators, 4 the liquid module account; validator 0 bonded at rate one *)
Definition liq_e0 : env := mk_env 5%nat 2%nat 4%nat [2%nat; 3%nat] 334000000000000000 500000000000000000 334000000000000000 true true.
Definition liq_s0 : state :=
  mkState (fun i => match i with O => mkVal true 2000000 (2000000 * PREC) Bonded false 1 | _ => no_val end)
          (fun a i => match a, i with
                      | O, O => Some (1500000 * PREC)
                      | 2%nat, O => Some (500000 * PREC)
                      | _, _ => None end)
          (fun a => match a with O => 5000 | _ => 0 end)
          (fun _ _ => 0) (fun _ _ => 0) (fun _ _ => 0) (fun _ => 0) (fun _ _ => false) (fun _ => 0).
Definition liq_blk : list (unit * list op) :=
  [(tt, [Mint 0 0 1000; SendD 0 1 0 400; Delegate 0 0 2500]); (tt, [Burn 1 0 150; Undelegate 0 0 100])].

Example liquid_nonvacuous :
  env_wf liq_e0 /\ m_Inv (liquid_M liq_e0) liq_s0 /\
  match run_blocksG (liquid_M liq_e0) liq_s0 liq_blk with
  | Some s => dsup s 0%nat = 850 /\ dbal s 1%nat 0%nat = 250 /\ dshares s 1%nat 0%nat = 150 * PREC /\ bal s 0%nat = 2500
  | None => False
  end.
Proof.
  split; [unfold env_wf; cbn; lia|]. split.
  - unfold liquid_M, m_Inv, Inv. split; [|split; [|split; [|split; [|split]]]].
    + intros j. destruct j; cbn; unfold PREC; lia.
    + intros j. destruct j as [|j2]; [intros _; vm_compute; reflexivity|]. cbn. destruct j2; discriminate.
    + intros a j. unfold dshares. destruct a as [|[|[|a2]]], j as [|j2]; cbn; unfold PREC; lia.
    + intros j. vm_compute. reflexivity.
    + intros a j. cbn. lia.
    + intros a. cbn. destruct a; lia.
  - vm_compute. repeat split; reflexivity.
Qed.
Print Assumptions liquid_M_ok.
