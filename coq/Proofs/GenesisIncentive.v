(* Round trip of the x/incentive genesis state of one reward source (Model/GenesisIncentive.v). *)
From Kava Require Import Base.Prelude Base.Dec Model.Accumulator Model.Incentive Model.GenesisIncentive.
Require Import ZifyBool ZifyNat.
Local Open Scope Z_scope.

(** * find on generated lists *)

Lemma find_app' {A} (f : A -> bool) l1 l2 :
  find f (l1 ++ l2) = match find f l1 with Some x => Some x | None => find f l2 end.
Proof. induction l1 as [|a r IH]; cbn; [reflexivity|]. destruct (f a); [reflexivity|exact IH]. Qed.

Lemma find_none_iff {A} (f : A -> bool) l : (forall x, In x l -> f x = false) -> find f l = None.
Proof. induction l as [|a r IH]; intros H; cbn; [reflexivity|]. rewrite (H a (or_introl eq_refl)). apply IH. intros x Hx. apply H. right; exact Hx. Qed.

(* cells indexed by 0 .. n-1, every element of cell i carries key i *)
Lemma find_flat_seq {B} (cell : nat -> list B) (key : B -> nat) k : (forall i b, In b (cell i) -> key b = i) ->
  forall n, find (fun b => Nat.eqb (key b) k) (flat_map cell (seq 0 n)) =
            if Nat.ltb k n then find (fun b => Nat.eqb (key b) k) (cell k) else None.
Proof.
  intros K. induction n as [|n IH]; [reflexivity|]. rewrite seq_S, flat_map_app, find_app', IH. cbn [plus flat_map]. rewrite app_nil_r.
  destruct (Nat.ltb_spec k n) as [H|H].
  - destruct (Nat.ltb_spec k (S n)); [|lia]. destruct (find _ (cell k)) eqn:F; [reflexivity|].
    apply find_none_iff. intros b Hb. rewrite (K n b Hb). apply Nat.eqb_neq. lia.
  - destruct (Nat.ltb_spec k (S n)) as [H2|H2].
    + assert (k = n) by lia. subst k. reflexivity.
    + apply find_none_iff. intros b Hb. rewrite (K n b Hb). apply Nat.eqb_neq. lia.
Qed.

Lemma find_rev_keys {B} (key : B -> nat) k : forall l, NoDup (map key l) ->
  find (fun b => Nat.eqb (key b) k) (rev l) = find (fun b => Nat.eqb (key b) k) l.
Proof.
  induction l as [|a r IH]; intros ND; [reflexivity|]. cbn [map] in ND. inversion ND as [|? ? Ha Nr]; subst.
  cbn [rev find]. rewrite find_app', (IH Nr). cbn [find]. destruct (Nat.eqb_spec (key a) k) as [E|E].
  - rewrite find_none_iff; [reflexivity|]. intros x Hx. apply Nat.eqb_neq. intros Ex. apply Ha. apply in_map_iff. exists x. split; [congruence|exact Hx].
  - destruct (find _ r); reflexivity.
Qed.

Lemma nodup_flat_keys {B} (cell : nat -> list B) (key : B -> nat) : (forall i b, In b (cell i) -> key b = i) ->
  (forall i, (length (cell i) <= 1)%nat) -> forall l, NoDup l -> NoDup (map key (flat_map cell l)).
Proof.
  intros K L. induction l as [|i r IH]; intros ND; [constructor|]. inversion ND as [|? ? Hi Nr]; subst. cbn [flat_map]. rewrite map_app.
  specialize (IH Nr). destruct (cell i) as [|b [|c t]] eqn:C.
  - exact IH.
  - cbn [map app]. constructor; [|exact IH]. intros H. apply in_map_iff in H. destruct H as [x [Ex Hx]]. apply in_flat_map in Hx.
    destruct Hx as [j [Hj Hxj]]. rewrite (K j x Hxj) in Ex. rewrite (K i b) in Ex by (rewrite C; left; reflexivity). subst j. contradiction.
  - specialize (L i). rewrite C in L. cbn in L. lia.
Qed.

Lemma idx_of_row (f : nat -> Z) m d : idx_of (map (fun d => (d, f d)) (seq 0 m)) d = if Nat.ltb d m then f d else 0.
Proof.
  unfold idx_of.
  assert (E : map (fun d0 => (d0, f d0)) (seq 0 m) = flat_map (fun d0 => [(d0, f d0)]) (seq 0 m)).
  { induction (seq 0 m) as [|x r IH]; [reflexivity|]. cbn. rewrite IH. reflexivity. }
  rewrite E. rewrite (find_flat_seq (fun d0 => [(d0, f d0)]) fst d) by (intros i b [<-|[]]; reflexivity).
  destruct (Nat.ltb d m); [|reflexivity]. cbn [find fst]. rewrite Nat.eqb_refl. reflexivity.
Qed.

Lemma multi_of_rows (g : nat -> nat -> Z) n m p d :
  multi_of (map (fun p => (p, map (fun d => (d, g p d)) (seq 0 m))) (seq 0 n)) p d = if Nat.ltb p n && Nat.ltb d m then g p d else 0.
Proof.
  unfold multi_of.
  assert (E : forall l, map (fun p0 => (p0, map (fun d0 => (d0, g p0 d0)) (seq 0 m))) l = flat_map (fun p0 => [(p0, map (fun d0 => (d0, g p0 d0)) (seq 0 m))]) l).
  { induction l as [|x r IH]; [reflexivity|]. cbn. rewrite IH. reflexivity. }
  rewrite E. rewrite (find_flat_seq (fun p0 => [(p0, map (fun d0 => (d0, g p0 d0)) (seq 0 m))]) fst p) by (intros i b [<-|[]]; reflexivity).
  destruct (Nat.ltb p n); [|reflexivity]. cbn [find fst andb]. rewrite Nat.eqb_refl. cbn [snd]. apply idx_of_row.
Qed.

(** * Validation of the export passes *)

(* what the round trip needs of the state: no negative factor, no negative stored reward *)
Record Nonneg (st : state) : Prop := mkNN {
  nn_g : forall p d, 0 <= g_idx st p d;
  nn_u : forall u p d, 0 <= u_idx st u p d;
  nn_r : forall u d, 0 <= rew st u d
}.

Lemma reward_coins_valid (f : nat -> Z) : (forall d, 0 <= f d) -> forall k a lo, (match lo with Some p => (p < a)%nat | None => True end) ->
  coins_valid_from lo (flat_map (fun d => if f d =? 0 then [] else [(d, f d)]) (seq a k)) = true.
Proof.
  intros P. induction k as [|k IH]; intros a lo Hlo; [reflexivity|]. cbn [seq flat_map].
  destruct (Z.eqb_spec (f a) 0) as [Z0|NZ]; cbn [app].
  - apply IH. destruct lo; [lia|exact I].
  - cbn [coins_valid_from]. rewrite IH by lia. specialize (P a). assert (E : (0 <? f a) = true) by lia. rewrite E.
    destruct lo as [p|]; [|reflexivity]. assert (E2 : Nat.ltb p a = true) by (apply Nat.ltb_lt; exact Hlo). rewrite E2. reflexivity.
Qed.

Lemma rows_valid (g : nat -> nat -> Z) n m : (forall p d, 0 <= g p d) ->
  multi_valid (map (fun p => (p, map (fun d => (d, g p d)) (seq 0 m))) (seq 0 n)) = true.
Proof.
  intros P. unfold multi_valid. apply forallb_forall. intros [p row] Hin. apply in_map_iff in Hin. destruct Hin as [p' [E _]]. injection E as <- <-.
  cbn [snd]. apply forallb_forall. intros [d v] Hd. apply in_map_iff in Hd. destruct Hd as [d' [E _]]. injection E as <- <-. cbn [snd]. apply Z.leb_le. apply P.
Qed.

Lemma export_validates e st : Nonneg st -> validate_genesis (export_genesis e st) = true.
Proof.
  intros [G U R]. unfold validate_genesis. cbn [gn_idx gn_claims export_genesis]. rewrite (rows_valid (g_idx st) _ _ G). cbn [andb].
  apply forallb_forall. intros c Hin. apply in_flat_map in Hin. destruct Hin as [u [_ H]]. destruct (has_claim st u); [|contradiction].
  destruct H as [<-|[]]. cbn [gc_idx gc_reward]. rewrite (rows_valid (u_idx st u) _ _ (U u)). cbn [andb].
  apply (reward_coins_valid (rew st u) (R u) (ndenoms e) 0 None I).
Qed.

(** * InitGenesis of the export *)

Definition times_set (st : state) : Prop := forall p t, g_time st p = Some t -> t <> ZERO_T.

Definition tcell (st : state) (p : nat) : list (nat * Z) := match g_time st p with Some t => [(p, t)] | None => [] end.
Definition ccell (e : env) (st : state) (u : nat) : list gclaim :=
  if has_claim st u
  then [mkGC u (flat_map (fun d => if rew st u d =? 0 then [] else [(d, rew st u d)]) (seq 0 (ndenoms e)))
               (map (fun p => (p, map (fun d => (d, u_idx st u p d)) (seq 0 (ndenoms e)))) (seq 0 (npools e)))]
  else [].

Lemma last_time_export e st p :
  last_time (gn_times (export_genesis e st)) p = if Nat.ltb p (npools e) then g_time st p else None.
Proof.
  unfold last_time. cbn [gn_times export_genesis]. change (fun p0 => match g_time st p0 with Some t => [(p0, t)] | None => [] end) with (tcell st).
  assert (K : forall i b, In b (tcell st i) -> fst b = i).
  { intros i b H. unfold tcell in H. destruct (g_time st i); [|contradiction]. destruct H as [<-|[]]. reflexivity. }
  rewrite (find_rev_keys fst p).
  - rewrite (find_flat_seq (tcell st) fst p K). destruct (Nat.ltb p (npools e)); [|reflexivity].
    unfold tcell. destruct (g_time st p); cbn [find fst]; [rewrite Nat.eqb_refl|]; reflexivity.
  - apply (nodup_flat_keys (tcell st) fst K); [|apply seq_NoDup]. intros i. unfold tcell. destruct (g_time st i); cbn; lia.
Qed.

Lemma reward_idx_of (f : nat -> Z) m d :
  idx_of (flat_map (fun d => if f d =? 0 then [] else [(d, f d)]) (seq 0 m)) d = if Nat.ltb d m then f d else 0.
Proof.
  unfold idx_of. rewrite (find_flat_seq (fun d0 => if f d0 =? 0 then [] else [(d0, f d0)]) fst d).
  - destruct (Nat.ltb d m); [|reflexivity]. destruct (Z.eqb_spec (f d) 0) as [Z0|NZ]; cbn [find fst]; [symmetry; exact Z0|].
    rewrite Nat.eqb_refl. reflexivity.
  - intros i b H. destruct (f i =? 0); [contradiction|]. destruct H as [<-|[]]. reflexivity.
Qed.

Lemma last_claim_export e st u :
  last_claim (gn_claims (export_genesis e st)) u =
    if Nat.ltb u (nusers e) then match ccell e st u with [c] => Some c | _ => None end else None.
Proof.
  unfold last_claim. cbn [gn_claims export_genesis].
  change (flat_map _ (seq 0 (nusers e))) with (flat_map (ccell e st) (seq 0 (nusers e))).
  assert (K : forall i b, In b (ccell e st i) -> gc_owner b = i).
  { intros i b H. unfold ccell in H. destruct (has_claim st i); [|contradiction]. destruct H as [<-|[]]. reflexivity. }
  rewrite (find_rev_keys gc_owner u).
  - rewrite (find_flat_seq (ccell e st) gc_owner u K). destruct (Nat.ltb u (nusers e)); [|reflexivity].
    unfold ccell. destruct (has_claim st u); cbn [find gc_owner]; [rewrite Nat.eqb_refl|]; reflexivity.
  - apply (nodup_flat_keys (ccell e st) gc_owner K); [|apply seq_NoDup]. intros i. unfold ccell. destruct (has_claim st i); cbn; lia.
Qed.

Lemma last_multi_rows (g : nat -> nat -> Z) n m p d :
  last_multi (map (fun p => (p, map (fun d => (d, g p d)) (seq 0 m))) (seq 0 n)) p d = if Nat.ltb p n && Nat.ltb d m then g p d else 0.
Proof.
  unfold last_multi, multi_of. rewrite (find_rev_keys fst p).
  - apply multi_of_rows.
  - rewrite map_map. cbn [fst]. rewrite map_id. apply seq_NoDup.
Qed.

(* the incentive store of the identifier universe is exactly the same; nothing else is touched *)
Theorem roundtrip e st : Nonneg st -> times_set st ->
  validate_genesis (export_genesis e st) = true /\
  exists st', reimport e st = Ok st' tt /\
    now st' = now st /\ tot st' = tot st /\ sh st' = sh st /\ macc st' = macc st /\ bal st' = bal st /\
    (forall p, g_time st' p = if Nat.ltb p (npools e) then g_time st p else None) /\
    (forall p d, g_idx st' p d = if Nat.ltb p (npools e) && Nat.ltb d (ndenoms e) then g_idx st p d else 0) /\
    (forall u, has_claim st' u = Nat.ltb u (nusers e) && has_claim st u) /\
    (forall u p d, u_idx st' u p d =
       if Nat.ltb u (nusers e) && has_claim st u && (Nat.ltb p (npools e) && Nat.ltb d (ndenoms e)) then u_idx st u p d else 0) /\
    (forall u d, rew st' u d = if Nat.ltb u (nusers e) && has_claim st u && Nat.ltb d (ndenoms e) then rew st u d else 0).
Proof.
  intros NN TS. pose proof (export_validates e st NN) as V. split; [exact V|].
  unfold reimport, init_genesis. rewrite V. cbn [negb].
  assert (Z0 : existsb (fun x => snd x =? ZERO_T) (gn_times (export_genesis e st)) = false).
  { destruct (existsb _ _) eqn:X; [|reflexivity]. apply existsb_exists in X. destruct X as [[p t] [Hin E]]. cbn [snd] in E.
    cbn [gn_times export_genesis] in Hin. apply in_flat_map in Hin. destruct Hin as [p' [_ H]]. destruct (g_time st p') as [t'|] eqn:G; [|contradiction].
    destruct H as [H|[]]. injection H as <- <-. exfalso. apply (TS p' t' G). lia. }
  rewrite Z0. eexists. split; [reflexivity|]. cbn [now tot sh macc bal g_time g_idx has_claim u_idx rew].
  repeat (split; [reflexivity|]). split; [intros p; apply last_time_export|]. split.
  - intros p d. cbn [gn_idx export_genesis]. apply last_multi_rows.
  - split; [|split].
    + intros u. rewrite last_claim_export. destruct (Nat.ltb u (nusers e)); [|reflexivity]. unfold ccell. destruct (has_claim st u); reflexivity.
    + intros u p d. rewrite last_claim_export. destruct (Nat.ltb u (nusers e)); [|reflexivity]. unfold ccell. destruct (has_claim st u); [|reflexivity].
      cbn [gc_idx andb]. apply multi_of_rows.
    + intros u d. rewrite last_claim_export. destruct (Nat.ltb u (nusers e)); [|reflexivity]. unfold ccell. destruct (has_claim st u); [|reflexivity].
      cbn [gc_reward andb]. apply reward_idx_of.
Qed.

(* claims are exported as stored: an unsynchronised claim (user index behind the global
   index) comes back unsynchronised, with exactly the same pending entitlement *)
Corollary roundtrip_keeps_unsynced e st st' u p d : Nonneg st -> times_set st -> reimport e st = Ok st' tt ->
  (u < nusers e)%nat -> (p < npools e)%nat -> (d < ndenoms e)%nat -> has_claim st u = true ->
  g_idx st' p d - u_idx st' u p d = g_idx st p d - u_idx st u p d /\ rew st' u d = rew st u d.
Proof.
  intros NN TS E Hu Hp Hd Hc. destruct (roundtrip e st NN TS) as [_ [s1 [E1 (_ & _ & _ & _ & _ & _ & G & _ & U & R)]]].
  rewrite E1 in E. injection E as <-. rewrite G, U, R, Hc.
  destruct (Nat.ltb_spec u (nusers e)); [|lia]. destruct (Nat.ltb_spec p (npools e)); [|lia]. destruct (Nat.ltb_spec d (ndenoms e)); [|lia].
  cbn [andb]. split; reflexivity.
Qed.
