(* C14 (component C14a), x/cdp: the key-order hypothesis of the round trip ([idx_sorted]: owner index and
   collateral-ratio index in strict key order) holds along every history. *)
From Coq Require Import Sorted.
From Kava Require Import Base.Prelude Base.Dec Model.Cdp Proofs.CdpRatio Proofs.Cdp Proofs.CdpInv Proofs.CdpInv2
  Proofs.CdpInv3 Proofs.CdpCust Proofs.CdpOwn Model.GenesisCdp Proofs.GenesisCommon Proofs.GenesisCdp.
From Coq Require Import ZifyBool ZifyNat.
Local Open Scope Z_scope.

Lemma run_auctions_bank e s s' u : run_auctions e s = Ok s' u -> bank_only s s'.
Proof.
  unfold run_auctions. intros H.
  set (net := Z.min _ _) in H.
  destruct (if net =? 0 then Some s else _) as [s2|] eqn:E2; [|discriminate].
  assert (F2 : bank_only s s2).
  { destruct (net =? 0); [inversion E2; apply bank_only_refl|].
    destruct (b_burn s _ _ net) as [s1|] eqn:Eb1; [|discriminate].
    eapply bank_only_trans; [eapply b_burn_frame; eassumption|eapply b_burn_frame; eassumption]. }
  destruct (if debt_thr e <=? _ then _ else Some s2) as [s4|] eqn:E4; [|discriminate].
  assert (F4 : bank_only s2 s4).
  { destruct (debt_thr e <=? _); [|inversion E4; apply bank_only_refl].
    destruct (b_send s2 _ _ _ _) as [s3|] eqn:Eb3; [|discriminate]. inversion E4; subst.
    eapply bank_only_trans; [eapply b_send_frame; eassumption|apply set_aucs_frame]. }
  assert (F5 : bank_only s4 s').
  { destruct (_ <? sur_thr e); [inversion H; subst; apply bank_only_refl|].
    destruct (b_send s4 _ _ _ _) as [s5|] eqn:Eb5; [|discriminate]. inversion H; subst.
    eapply bank_only_trans; [eapply b_send_frame; eassumption|apply set_aucs_frame]. }
  exact (bank_only_trans _ _ _ F2 (bank_only_trans _ _ _ F4 F5)).
Qed.

Section WithFloor.
(* [n0]: a lower bound of the next cdp id, carried along (ids are handed out upwards) *)
Variable n0 : nat.
(* [PT]: collateral types whose previous accrual time is set (it stays set) *)
Variable PT : nat -> Prop.

Definition Srt (s : state) : Prop :=
  idx_sorted s /\ (n0 <= nextid s)%nat /\ (forall t, PT t -> ptime s t <> None).

Lemma srt_frame s s' : oidx s' = oidx s -> ridx s' = ridx s -> nextid s' = nextid s -> ptime s' = ptime s -> Srt s -> Srt s'.
Proof.
  intros Ho Hr Hn Hp ([A B] & N & T).
  split; [split; [intros o; rewrite Ho; apply A|intros t; rewrite Hr; apply B]|]. split; [rewrite Hn; exact N|rewrite Hp; exact T].
Qed.

Lemma srt_bank s s' : bank_only s s' -> Srt s -> Srt s'.
Proof.
  intros H. destruct H as (_&_&Ho&Hr&_&_&Hp&N&_). apply srt_frame; assumption.
Qed.

Lemma srt_ridx_ins s t r id : Srt s -> Srt (ridx_ins s t r id).
Proof.
  intros ([A B] & N). split; [|exact N]. split; [exact A|]. intros t'. cbn. unfold upd. destruct (Nat.eqb t' t); [apply ent_ins_sorted, B|apply B].
Qed.

Lemma srt_ridx_del s t r id : Srt s -> Srt (ridx_del s t r id).
Proof.
  intros ([A B] & N). split; [|exact N]. split; [exact A|]. intros t'. cbn. unfold upd. destruct (Nat.eqb t' t); [apply ent_del_sorted, B|apply B].
Qed.

Lemma srt_oidx_rm s o id : Srt s -> Srt (oidx_rm s o id).
Proof.
  intros ([A B] & N). split; [|exact N]. split; [|exact B]. intros o'. cbn. unfold upd. destruct (Nat.eqb o' o); [|apply A].
  apply (ssorted_filter Nat.lt), A.
Qed.

Lemma srt_oidx_add s o id : ~ In id (oidx s o) -> Srt s -> Srt (oidx_add s o id).
Proof.
  intros Hn ([A B] & N). split; [|exact N]. split; [|exact B]. intros o'. cbn. unfold upd. destruct (Nat.eqb_spec o' o) as [->|]; [|apply A].
  apply nat_ins_sorted; [exact Hn|apply A].
Qed.

Lemma srt_put_cdp s c : Srt s -> Srt (put_cdp s c). Proof. apply srt_frame; reflexivity. Qed.
Lemma srt_del_cdp s c : Srt s -> Srt (del_cdp s c). Proof. apply srt_frame; reflexivity. Qed.
Lemma srt_put_dep s id u a : Srt s -> Srt (put_dep s id u a). Proof. apply srt_frame; reflexivity. Qed.
Lemma srt_del_dep s id u : Srt s -> Srt (del_dep s id u). Proof. apply srt_frame; reflexivity. Qed.
Lemma srt_set_tprin s v : Srt s -> Srt (set_tprin s v). Proof. apply srt_frame; reflexivity. Qed.
Lemma srt_set_nextid_up s v : (nextid s <= v)%nat -> Srt s -> Srt (set_nextid s v). Proof. intros Hv (A & N & T). split; [exact A|]. split; [cbn; lia|exact T]. Qed.
Lemma srt_set_ifac s v : Srt s -> Srt (set_ifac s v). Proof. apply srt_frame; reflexivity. Qed.
Lemma srt_set_mstat s v : Srt s -> Srt (set_mstat s v). Proof. apply srt_frame; reflexivity. Qed.
Lemma srt_set_price s v : Srt s -> Srt (set_price s v). Proof. apply srt_frame; reflexivity. Qed.
Lemma srt_set_clock s t h : Srt s -> Srt (set_clock s t h). Proof. apply srt_frame; reflexivity. Qed.
Lemma srt_set_aucs s v : Srt s -> Srt (set_aucs s v). Proof. apply srt_frame; reflexivity. Qed.
Lemma srt_b_mint s m d x : Srt s -> Srt (b_mint s m d x). Proof. apply srt_bank, b_mint_frame. Qed.
Lemma srt_b_send s f t d x s' : b_send s f t d x = Some s' -> Srt s -> Srt s'. Proof. intros H. apply srt_bank. eapply b_send_frame, H. Qed.
Lemma srt_b_burn s m d x s' : b_burn s m d x = Some s' -> Srt s -> Srt s'. Proof. intros H. apply srt_bank. eapply b_burn_frame, H. Qed.

Lemma srt_update_cdp e s cp c r s' u : update_cdp e s cp c r = Ok s' u -> Srt s -> Srt s'.
Proof.
  intros H Hs. apply update_cdp_spec in H. destruct H as (old & _ & ->).
  apply srt_ridx_ins, srt_put_cdp, srt_ridx_del, Hs.
Qed.

Lemma srt_sync_interest e s cp c s1 c1 : sync_interest e s cp c = Ok s1 c1 -> Srt s -> Srt s1.
Proof.
  unfold sync_interest. intros H Hs.
  destruct (ifac s (c_type c)).
  - destruct (ptime s (c_type c)); [|inversion H; subst; exact Hs].
    destruct (_ && _); [inversion H; subst; exact Hs|].
    destruct (update_cdp _ _ _ _ _) as [s2 []| |] eqn:E; try discriminate. inversion H; subst.
    eapply srt_update_cdp; [exact E|]. destruct (_ =? 0); [apply srt_put_cdp, Hs|exact Hs].
  - inversion H; subst. apply srt_put_cdp, srt_set_ifac, Hs.
Qed.

Lemma srt_ofold {A} (f : state -> A -> outcome state unit) :
  (forall s x s' u, Srt s -> f s x = Ok s' u -> Srt s') -> forall l s s' u, Srt s -> ofold f s l = Ok s' u -> Srt s'.
Proof. apply (ofold_inv Srt). Qed.

(* forward chaining over the equations a destructed operation leaves in the context *)
Ltac srt_solve :=
  repeat first
    [ assumption
    | apply srt_ridx_ins | apply srt_ridx_del | apply srt_oidx_rm
    | apply srt_put_cdp | apply srt_del_cdp | apply srt_put_dep | apply srt_del_dep
    | apply srt_set_tprin | apply srt_set_ifac | apply srt_set_mstat | apply srt_set_price
    | apply srt_set_clock | apply srt_set_aucs | apply srt_b_mint ].

Ltac srt_fwd :=
  repeat match goal with
  | H : b_send ?s _ _ _ _ = Some ?s' |- _ =>
      lazymatch goal with Hx : Srt s' |- _ => fail | _ => assert (Srt s') by (eapply srt_b_send; [exact H|srt_solve]) end
  | H : b_burn ?s _ _ _ = Some ?s' |- _ =>
      lazymatch goal with Hx : Srt s' |- _ => fail | _ => assert (Srt s') by (eapply srt_b_burn; [exact H|srt_solve]) end
  | H : sync_interest _ ?s _ _ = Ok ?s' _ |- _ =>
      lazymatch goal with Hx : Srt s' |- _ => fail | _ => assert (Srt s') by (eapply srt_sync_interest; [exact H|srt_solve]) end
  | H : update_cdp _ ?s _ _ _ = Ok ?s' _ |- _ =>
      lazymatch goal with Hx : Srt s' |- _ => fail | _ => assert (Srt s') by (eapply srt_update_cdp; [exact H|srt_solve]) end
  end.

Ltac brk H := match type of H with context [match ?x with _ => _ end] => destruct x eqn:? end.

Lemma srt_deposit e s o u t cd x s' v : Srt s -> deposit e s o u t cd x = Ok s' v -> Srt s'.
Proof.
  intros Hs H. unfold deposit in H. repeat (brk H; try discriminate); srt_fwd; (eapply srt_update_cdp; [exact H|]); srt_solve.
Qed.

Ltac srt_finish H := first [ inversion H; subst; clear H; srt_solve | eapply srt_update_cdp; [exact H|]; srt_solve ].

Lemma srt_withdraw e s o u t cd x s' v : Srt s -> withdraw e s o u t cd x = Ok s' v -> Srt s'.
Proof.
  intros Hs H. unfold withdraw in H. repeat (brk H; try discriminate); srt_fwd; inversion H; subst; clear H; srt_solve.
Qed.

Lemma srt_draw e s o t pd x s' v : Srt s -> draw e s o t pd x = Ok s' v -> Srt s'.
Proof.
  intros Hs H. unfold draw in H. repeat (brk H; try discriminate); srt_fwd; (eapply srt_update_cdp; [exact H|]); srt_solve.
Qed.

Lemma srt_return_collateral e s cp c s' u : Srt s -> return_collateral e s cp c = Ok s' u -> Srt s'.
Proof.
  intros Hs H. unfold return_collateral in H. eapply srt_ofold; [|exact Hs|exact H].
  intros s0 d s1 u0 H0 H1. cbn beta in H1. destruct (b_send s0 _ _ _ _) eqn:E; [|discriminate]. inversion H1; subst.
  apply srt_del_dep. eapply srt_b_send; eassumption.
Qed.

Lemma srt_repay e s o t pd x s' v : Srt s -> repay e s o t pd x = Ok s' v -> Srt s'.
Proof.
  intros Hs H. unfold repay in H.
  repeat (brk H; try discriminate); srt_fwd;
    try (eapply srt_update_cdp; [exact H|]; srt_solve; fail).
  all: inversion H; subst; clear H.
  all: match goal with Hr : return_collateral _ ?s0 _ _ = Ok ?s1 _ |- _ =>
         assert (Srt s1) by (eapply srt_return_collateral; [|exact Hr]; srt_solve) end.
  all: srt_solve.
Qed.

(* the next id is not in any owner's list *)
Lemma nextid_fresh e s o : Inv3 e s -> ~ In (nextid s) (oidx s o).
Proof.
  intros ((_ & _ & Hi) & _ & HO) Hin. destruct (HO o) as [_ Ho]. apply Ho in Hin. destruct Hin as (t & Ht).
  unfold owner_of in Ht. destruct (cdps s t (nextid s)) as [c|] eqn:Ec; [|discriminate].
  pose proof (Hi _ _ _ Ec). lia.
Qed.

Lemma srt_create e s o t cd coll pd prin s' v : Inv3 e s -> Srt s -> create e s o t cd coll pd prin = Ok s' v -> Srt s'.
Proof.
  intros HI Hs H. pose proof (nextid_fresh e s o HI) as Hfr. unfold create in H.
  repeat (brk H; try discriminate); srt_fwd; inversion H; subst; clear H.
  all: assert (Em : forall s0 m d x, oidx (b_mint s0 m d x) = oidx s0) by (intros; apply bank_only_oidx, b_mint_frame).
  all: assert (En : forall s0 m d x, nextid (b_mint s0 m d x) = nextid s0) by (intros; unfold b_mint; destruct (_ <=? 0); reflexivity).
  all: repeat match goal with
       | H : b_send ?a _ _ _ _ = Some ?b |- _ =>
           let Ho := fresh "Ho" in let Hn := fresh "Hn" in
           apply b_send_frame in H; destruct H as (_&_&Ho&_&_&_&_&Hn&_)
       end.
  all: apply srt_set_nextid_up; [cbn [nextid put_dep set_deps oidx_add set_oidx ridx_ins set_ridx put_cdp set_cdps set_tprin]; rewrite ?En in *; cbn [nextid set_ifac] in *; lia|].
  all: apply srt_put_dep, srt_oidx_add; [|srt_solve].
  all: cbn [oidx ridx_ins set_ridx put_cdp set_cdps set_tprin].
  all: rewrite ?Em in *; cbn [oidx set_ifac] in *; congruence.
Qed.

Lemma srt_seize e s cp c s' u : Srt s -> seize e s cp c = Ok s' u -> Srt s'.
Proof.
  intros Hs H. unfold seize in H.
  destruct (b_send s _ _ _ _) as [s1|] eqn:E1; [|discriminate].
  destruct (ofold _ s1 _) as [s4 []| |] eqn:E4; try discriminate.
  destruct (auction_collateral e cp s4 _ _) as [s5 []| |] eqn:E5; try discriminate.
  inversion H; subst. srt_fwd.
  assert (Srt s4).
  { eapply srt_ofold; [|eassumption|exact E4]. intros s0 d s2 u0 G0 G1. cbn beta in G1.
    destruct (b_send s0 _ _ _ _) eqn:E; [|discriminate]. inversion G1; subst. apply srt_del_dep. eapply srt_b_send; eassumption. }
  assert (Srt s5) by (eapply srt_bank; [eapply auction_collateral_frame, E5|assumption]).
  srt_solve.
Qed.

Lemma srt_payout_reward e s cp k c s2 c1 : Srt s -> payout_reward e s cp k c = Ok s2 c1 -> Srt s2.
Proof.
  intros Hs H. unfold payout_reward in H. repeat (brk H; try discriminate); srt_fwd; inversion H; subst; srt_solve.
Qed.

Lemma srt_keeper_liquidate e s k o t s' v : Srt s -> keeper_liquidate e s k o t = Ok s' v -> Srt s'.
Proof.
  intros Hs H. unfold keeper_liquidate in H. repeat (brk H; try discriminate); srt_fwd.
  all: match goal with Hp : payout_reward _ ?s0 _ _ _ = Ok ?s1 _ |- _ =>
         assert (Srt s1) by (eapply srt_payout_reward; [|exact Hp]; srt_solve) end.
  all: eapply srt_seize; [|exact H]; assumption.
Qed.

Lemma srt_accumulate e s t cp : Srt s -> Srt (accumulate_interest e s t cp).
Proof.
  intros (HS & HN & HT). pose proof (accumulate_interest_stores e s t cp) as H. cbv zeta in H. destruct H as (_ & Hr & Hn & Ho & _).
  split; [destruct HS as [A B]; split; [intros o; rewrite Ho; apply A|intros t'; rewrite Hr; apply B]|]. split; [rewrite Hn; exact HN|].
  intros t' Ht'. specialize (HT t' Ht'). unfold accumulate_interest.
  assert (G : forall s0, ptime s0 = ptime s -> ptime (set_ptime s0 (upd (ptime s0) t (Some (now s)))) t' <> None).
  { intros s0 E. cbn. unfold upd. rewrite E. destruct (Nat.eqb t' t); [discriminate|exact HT]. }
  destruct (ptime s t) eqn:Ep; [|apply (G s eq_refl)].
  destruct (_ =? 0); [exact HT|]. destruct (_ <=? 0); [apply (G s eq_refl)|].
  destruct (ifac s t); [|apply (G _ eq_refl)]. destruct (_ =? PREC); [apply (G s eq_refl)|]. cbv zeta.
  destruct (_ =? 0); [exact HT|]. apply G. cbn. unfold b_mint. repeat match goal with |- context [if ?c then _ else _] => destruct c end; reflexivity.
Qed.

Lemma srt_sync_risky e s t cp s' u : Srt s -> sync_risky e s t cp = Ok s' u -> Srt s'.
Proof.
  intros Hs H. unfold sync_risky in H. destruct (ptime s t) as [prev|]; [|discriminate].
  destruct (ifac s t) as [gf|].
  - eapply srt_ofold; [|exact Hs|exact H]. intros s0 id s1 u0 H0 H1. unfold sync_risky_one in H1.
    destruct (cdps s0 t id); [|discriminate]. destruct (_ && _); [inversion H1; subst; exact H0|].
    inversion H1; subst. destruct (_ =? 0); srt_solve.
  - destruct (map snd _); [inversion H; subst; exact Hs|discriminate].
Qed.

Lemma srt_liquidate_cdps e s t cp s' u : Srt s -> liquidate_cdps e s t cp = Ok s' u -> Srt s'.
Proof.
  intros Hs H. unfold liquidate_cdps in H. destruct (_ =? 0); [inversion H; subst; exact Hs|].
  destruct (existsb _ _); [discriminate|].
  eapply srt_ofold; [|exact Hs|exact H]. intros s0 o s1 u0 H0 H1. unfold liq_step in H1.
  destruct o as [c|]; [|discriminate]. destruct (confirm_below e cp _ c); [eapply srt_seize; eassumption|inversion H1; subst; exact H0].
Qed.

Lemma srt_begin_type e skip s tcp s' u : Srt s -> begin_type e skip s tcp = Ok s' u -> Srt s'.
Proof.
  intros Hs H. unfold begin_type in H. destruct tcp as [t cp]. unfold update_status in H. cbn [fst snd] in H.
  destruct (negb (negb (price s (cp_spot cp) =? 0))); [inversion H; subst; srt_solve|].
  match type of H with context [if negb (negb (?p =? 0)) then _ else _] => destruct (negb (negb (p =? 0))) end;
    [inversion H; subst; srt_solve|].
  destruct skip; [inversion H; subst; apply srt_accumulate; srt_solve|].
  destruct (sync_risky _ _ _ _) as [s4 []| |] eqn:E4; try discriminate.
  destruct (liquidate_cdps _ _ _ _) as [s5 []| |] eqn:E5; try discriminate. inversion H; subst.
  eapply srt_liquidate_cdps; [|exact E5]. eapply srt_sync_risky; [|exact E4]. apply srt_accumulate. srt_solve.
Qed.

Lemma srt_begin_block e s s' u : Srt s -> begin_block e s = Ok s' u -> Srt s'.
Proof.
  intros Hs H. unfold begin_block in H.
  destruct (ofold _ s _) as [s1 []| |] eqn:E1; try discriminate.
  destruct (run_auctions e s1) as [s2 []| |] eqn:E2; try discriminate. inversion H; subst.
  eapply srt_bank; [eapply run_auctions_bank, E2|].
  eapply srt_ofold; [|exact Hs|exact E1]. intros s0 x s3 u0 H0 H1. eapply srt_begin_type; eassumption.
Qed.

Theorem step_Srt e s o s' u : Inv3 e s -> Srt s -> step e s o = Ok s' u -> Srt s'.
Proof.
  intros HI Hs H. destruct o; cbn [step] in H.
  - destruct (user_ok e o); [|discriminate]. eapply srt_create; eassumption.
  - destruct (_ && _); [|discriminate]. eapply srt_deposit; eassumption.
  - destruct (_ && _); [|discriminate]. eapply srt_withdraw; eassumption.
  - destruct (user_ok e o); [|discriminate]. eapply srt_draw; eassumption.
  - destruct (user_ok e o); [|discriminate]. eapply srt_repay; eassumption.
  - destruct (_ && _); [|discriminate]. eapply srt_keeper_liquidate; eassumption.
  - eapply srt_begin_block; [|exact H]. apply srt_set_clock, srt_set_price, Hs.
Qed.

End WithFloor.

Theorem step_sorted e s o s' u : Inv3 e s -> idx_sorted s -> step e s o = Ok s' u -> idx_sorted s'.
Proof. intros HI Hs H. exact (proj1 (step_Srt 0 (fun _ => False) e s o s' u HI (conj Hs (conj (Nat.le_0_l _) (fun t (F : False) => match F with end))) H)). Qed.

Theorem step_nextid_floor n e s o s' u : Inv3 e s -> idx_sorted s -> (n <= nextid s)%nat -> step e s o = Ok s' u -> (n <= nextid s')%nat.
Proof. intros HI Hs Hn H. exact (proj1 (proj2 (step_Srt n (fun _ => False) e s o s' u HI (conj Hs (conj Hn (fun t (F : False) => match F with end))) H))). Qed.

(* a previous accrual time, once set, stays set *)
Theorem step_ptimes e s o s' u : Inv3 e s -> idx_sorted s -> ptimes_set e s -> step e s o = Ok s' u -> ptimes_set e s'.
Proof.
  intros HI Hs Hp H. exact (proj2 (proj2 (step_Srt 0 (fun t => (t < ntypes e)%nat) e s o s' u HI (conj Hs (conj (Nat.le_0_l _) Hp)) H))).
Qed.

Theorem run_sorted e ops : env_wf e -> params_ok e -> forall s, Inv3 e s -> idx_sorted s ->
  Inv3 e (run e s ops) /\ idx_sorted (run e s ops).
Proof.
  intros We Hp. induction ops as [|o r IH]; intros s HI Hs; cbn [run fold_left]; [split; assumption|].
  apply IH.
  - unfold step'. destruct (step e s o) as [s' u| |] eqn:E; try exact HI. eapply step_Inv3; eassumption.
  - unfold step'. destruct (step e s o) as [s' u| |] eqn:E; try exact Hs. eapply step_sorted; eassumption.
Qed.

(* the empty stores of a genesis are in key order *)
Lemma init_sorted bals sups prices status ifacs ptimes startid t h :
  idx_sorted (mk_state bals sups prices status ifacs ptimes startid t h).
Proof. split; intros x; constructor. Qed.

(** * The value ranges of the round trip ([vals_ok]) hold along every history *)

Lemma rel_pow_fuel_ge b : 0 < b -> forall fuel x n z, b <= x -> b <= z -> b <= rel_pow_fuel fuel x n b z.
Proof.
  intros Hb. induction fuel as [|k IH]; intros x n z Hx Hz; cbn [rel_pow_fuel]; [exact Hz|].
  destruct (n / 2 =? 0); [exact Hz|].
  assert (X : b <= (x * x + b / 2) / b).
  { apply Z.div_le_lower_bound; [lia|]. assert (0 <= b / 2) by (apply Z.div_pos; lia). nia. }
  apply IH; [exact X|].
  destruct ((n / 2) mod 2 =? 0); [exact Hz|].
  apply Z.div_le_lower_bound; [lia|]. assert (0 <= b / 2) by (apply Z.div_pos; lia). nia.
Qed.

Lemma rel_pow_ge x n b : 0 < b -> b <= x -> b <= rel_pow x n b.
Proof.
  intros Hb Hx. unfold rel_pow. destruct (Z.eqb_spec x 0); [lia|].
  apply rel_pow_fuel_ge; try assumption. destruct (n mod 2 =? 0); lia.
Qed.

Lemma dec_mul_ge_l a f : 0 <= a -> PREC <= f -> a <= dec_mul a f.
Proof.
  intros Ha Hf. unfold dec_mul. rewrite <- (chop_round_exact a Ha) at 1.
  apply chop_round_mono_nonneg. unfold PREC in *. nia.
Qed.

Definition good_cdp (s : state) (c : cdp) : Prop :=
  0 <= c_prin c /\ 0 <= c_fees c /\ NS <= c_upd c /\ PREC <= c_ifac c /\
  exists f, ifac s (c_type c) = Some f /\ c_ifac c <= f.

Lemma vals_stored_good s t id c : vals_ok s -> cdps s t id = Some c -> c_type c = t -> good_cdp s c.
Proof. intros (_ & Vc & _) H <-. apply (Vc _ _ _ H). Qed.

Lemma vals_stored_id s t id c : vals_ok s -> cdps s t id = Some c -> id <> 0%nat.
Proof. intros (V0 & _) H ->. rewrite V0 in H. discriminate. Qed.

Lemma good_cdp_ifac s s' c : ifac s' = ifac s -> good_cdp s c -> good_cdp s' c.
Proof. intros E (a & b & c0 & d & f & Ef & Hf). repeat split; try assumption. exists f. rewrite E. auto. Qed.

(* a state that agrees with a good one on factors, times and clock; its cdp records are old ones or good new ones *)
Lemma vals_ok_intro s s' :
  vals_ok s -> ifac s' = ifac s -> ptime s' = ptime s -> now s' = now s ->
  (forall t, 0 <= tprin s' t) ->
  (forall t id c, cdps s' t id = Some c -> cdps s t id = Some c \/ (id <> 0%nat /\ c_type c = t /\ good_cdp s c)) ->
  vals_ok s'.
Proof.
  intros (V0 & Vc & Vf & Vp & Vt & Vn) Ei Ep En Ht Hc.
  split; [|split; [|split; [|split; [|split]]]].
  - intros t. destruct (cdps s' t 0%nat) as [c|] eqn:E; [|reflexivity].
    destruct (Hc _ _ _ E) as [H|(H & _)]; [rewrite V0 in H; discriminate|congruence].
  - intros t id c H. rewrite Ei. destruct (Hc _ _ _ H) as [H0|(_ & <- & G)]; [apply (Vc _ _ _ H0)|exact G].
  - intros t f. rewrite Ei. apply Vf.
  - intros t p. rewrite Ep. apply Vp.
  - exact Ht.
  - rewrite En. exact Vn.
Qed.

Lemma vok_frame s s' :
  cdps s' = cdps s -> ifac s' = ifac s -> ptime s' = ptime s -> now s' = now s -> tprin s' = tprin s ->
  vals_ok s -> vals_ok s'.
Proof.
  intros Ec Ei Ep En Et H. apply (vals_ok_intro s s' H Ei Ep En).
  - intros t. rewrite Et. apply H.
  - intros t id c Hc. left. rewrite <- Ec. exact Hc.
Qed.

Lemma vok_bank s s' : bank_only s s' -> vals_ok s -> vals_ok s'.
Proof. intros (a1&a2&a3&a4&a5&a6&a7&a8&a9&a10&a11&a12). apply vok_frame; assumption. Qed.

Lemma vok_update e s cp c r s' u :
  vals_ok s -> update_cdp e s cp c r = Ok s' u -> c_id c <> 0%nat -> good_cdp s c -> vals_ok s'.
Proof.
  intros H Hu Hid Hg. apply update_cdp_spec in Hu. destruct Hu as (old & _ & ->).
  apply (vals_ok_intro s _ H); try reflexivity.
  - intros t. apply H.
  - intros t id c'. cbn. unfold upd2.
    destruct (Nat.eqb_spec t (c_type c)) as [->|]; [destruct (Nat.eqb_spec id (c_id c)) as [->|]|]; cbn [andb]; auto.
    intros E; inversion E; subst. right. auto.
Qed.

Lemma vok_tprin s v : (forall t, 0 <= v t) -> vals_ok s -> vals_ok (set_tprin s v).
Proof. intros Hv H. apply (vals_ok_intro s _ H); try reflexivity; [exact Hv|]. intros t id c Hc. left. exact Hc. Qed.

Lemma vok_del_cdp s c : vals_ok s -> vals_ok (del_cdp s c).
Proof.
  intros H. apply (vals_ok_intro s _ H); try reflexivity; [apply H|].
  intros t id c'. cbn. unfold upd2. destruct (_ && _); [discriminate|auto].
Qed.

(* the full invariant after a synchronisation, with what it says about the returned record *)
Lemma sync_GI_facts e s cp c s1 c1 :
  GI e s -> get_cp e (c_type c) = Some cp -> cdps s (c_type c) (c_id c) = Some c ->
  sync_interest e s cp c = Ok s1 c1 ->
  GI e s1 /\ c_id c1 = c_id c /\ c_type c1 = c_type c /\ c_id c1 <> 0%nat /\ good_cdp s1 c1 /\
  cdps s1 (c_type c1) (c_id c1) = Some c1 /\ now s1 = now s /\ nextid s1 = nextid s /\ tprin s1 = tprin s.
Proof.
  intros HG Hcp Hst H. pose proof (sync_interest_GI _ _ _ _ _ _ HG Hcp Hst H) as HG1.
  pose proof (sync_interest_spec _ _ _ _ _ _ H) as (Henv & Hid & Hty & _).
  destruct HG as ((HI & _) & _). pose proof (sync_interest_IdxInv _ _ _ _ _ _ HI Hcp Hst H) as [_ Hst1].
  destruct HG1 as (A & B & V). destruct Henv as (_&_&_&_&_&_&Htp&Hn&_&_&Hnow&_).
  split; [exact (conj A (conj B V))|]. split; [exact Hid|]. split; [exact Hty|].
  split; [eapply vals_stored_id; eassumption|]. split; [eapply vals_stored_good; [exact V|exact Hst1|reflexivity]|].
  auto.
Qed.

Lemma good_with_coll s c x : good_cdp s c -> good_cdp s (with_coll c x).
Proof. intros H. exact H. Qed.

Lemma vok_put_dep s id u a : vals_ok s -> vals_ok (put_dep s id u a).
Proof. apply vok_frame; reflexivity. Qed.
Lemma vok_del_dep s id u : vals_ok s -> vals_ok (del_dep s id u).
Proof. apply vok_frame; reflexivity. Qed.

Lemma vok_deposit e s o u t cd x s' v : GI e s -> deposit e s o u t cd x = Ok s' v -> vals_ok s'.
Proof.
  intros HG. pose proof HG as ((HI & _ & _) & _ & _). unfold deposit. destruct (0 <? x); [|discriminate]. cbn [negb].
  destruct (validate_collateral e s t cd) as [cp|] eqn:Ev; [|discriminate].
  apply validate_collateral_ok in Ev. destruct Ev as (Hcp & _).
  destruct (find_cdp e s o t) as [c0|] eqn:Ef; [|discriminate].
  destruct (find_cdp_stored' _ _ _ _ _ _ HI Ef Hcp) as [Ht Hst].
  destruct (bal s u cd <? x); [discriminate|].
  destruct (sync_interest e s cp c0) as [s1 c| |] eqn:Es; try discriminate.
  destruct (sync_GI_facts e s cp c0 s1 c HG ltac:(rewrite Ht; exact Hcp) Hst Es) as ((_ & _ & V1) & Hid & Hty & Hnz & Hgood & _).
  destruct (b_send s1 u (CDPM e) cd x) as [s2|] eqn:Eb; [|discriminate].
  intros H. pose proof (b_send_frame _ _ _ _ _ _ Eb) as B.
  eapply vok_update; [|exact H|exact Hnz|].
  - apply vok_put_dep. eapply vok_bank; eassumption.
  - apply good_with_coll. eapply good_cdp_ifac; [|exact Hgood]. destruct B as (_&_&_&_&_&Bi&_). exact Bi.
Qed.

Lemma vok_withdraw e s o u t cd x s' v : GI e s -> withdraw e s o u t cd x = Ok s' v -> vals_ok s'.
Proof.
  intros HG. pose proof HG as ((HI & _ & _) & _ & _). unfold withdraw. destruct (0 <? x); [|discriminate]. cbn [negb].
  destruct (validate_collateral e s t cd) as [cp|] eqn:Ev; [|discriminate].
  apply validate_collateral_ok in Ev. destruct Ev as (Hcp & _).
  destruct (find_cdp e s o t) as [c0|] eqn:Ef; [|discriminate].
  destruct (find_cdp_stored' _ _ _ _ _ _ HI Ef Hcp) as [Ht Hst].
  destruct (deps s (c_id c0) u) as [a|]; [|discriminate]. destruct (a <? x); [discriminate|].
  destruct (sync_interest e s cp c0) as [s1 c| |] eqn:Es; try discriminate.
  destruct (sync_GI_facts e s cp c0 s1 c HG ltac:(rewrite Ht; exact Hcp) Hst Es) as ((_ & _ & V1) & Hid & Hty & Hnz & Hgood & _).
  destruct (c_coll c <? x); [discriminate|].
  destruct (ratio_gate _ _ _ _ _ _) as [[] []| |]; try discriminate.
  destruct (b_send s1 (CDPM e) u cd x) as [s2|] eqn:Eb; [|discriminate].
  pose proof (b_send_frame _ _ _ _ _ _ Eb) as B.
  destruct (update_cdp _ _ _ _ _) as [s3 []| |] eqn:Eu; try discriminate.
  intros H. inversion H; subst.
  assert (vals_ok s3).
  { eapply vok_update; [|exact Eu|exact Hnz|].
    - eapply vok_bank; eassumption.
    - apply good_with_coll. eapply good_cdp_ifac; [|exact Hgood]. destruct B as (_&_&_&_&_&Bi&_). exact Bi. }
  destruct (_ =? 0); [apply vok_del_dep|apply vok_put_dep]; assumption.
Qed.

Lemma vok_draw e s o t pd x s' v : GI e s -> draw e s o t pd x = Ok s' v -> vals_ok s'.
Proof.
  intros HG. pose proof HG as ((HI & _ & _) & _ & _). unfold draw. destruct (Z.ltb_spec 0 x) as [Hx|]; [|discriminate]. cbn [negb].
  destruct (find_cdp e s o t) as [c0|] eqn:Ef; [|discriminate].
  destruct (get_cp e t) as [cp|] eqn:Hcp; [|discriminate].
  destruct (find_cdp_stored' _ _ _ _ _ _ HI Ef Hcp) as [Ht Hst].
  destruct (mstat s (cp_spot cp) && mstat s (cp_liqm cp)); [|discriminate]. cbn [negb].
  destruct (Nat.eqb pd (d_usdx e)); [|discriminate]. cbn [negb].
  destruct (debt_limit_ok e s t cp x); [|discriminate]. cbn [negb].
  destruct (sync_interest e s cp c0) as [s1 c| |] eqn:Es; try discriminate.
  destruct (sync_GI_facts e s cp c0 s1 c HG ltac:(rewrite Ht; exact Hcp) Hst Es) as ((_ & _ & V1) & Hid & Hty & Hnz & Hgood & _).
  destruct (ratio_gate _ _ _ _ _ _) as [[] []| |]; try discriminate.
  destruct (b_send _ _ _ _ _) as [s3|] eqn:Eb; [|discriminate].
  intros H.
  assert (B : bank_only s1 (b_mint s3 (CDPM e) (d_debt e) x)).
  { eapply bank_only_trans; [apply b_mint_frame|]. eapply bank_only_trans; [eapply b_send_frame, Eb|apply b_mint_frame]. }
  pose proof (vok_bank _ _ B V1) as V4.
  eapply vok_update; [|exact H|exact Hnz|].
  - apply vok_tprin; [|exact V4]. intros t'. unfold upd. destruct V4 as (_&_&_&_&Vt&_).
    destruct (Nat.eqb t' t); [specialize (Vt t); lia|apply Vt].
  - destruct Hgood as (g1 & g2 & g3 & g4 & f & Ef' & g5). unfold good_cdp, with_prin. cbn.
    repeat split; try assumption; try lia. exists f. split; [|exact g5]. destruct B as (_&_&_&_&_&Bi&_). rewrite Bi. exact Ef'.
Qed.

Lemma vok_create e s o t cd coll pd prin s' v :
  vals_ok s -> (1 <= nextid s)%nat -> create e s o t cd coll pd prin = Ok s' v -> vals_ok s' /\ (1 <= nextid s')%nat.
Proof.
  intros V Hn. unfold create. destruct (Z.ltb_spec 0 coll); [|discriminate]. destruct (Z.ltb_spec 0 prin) as [Hp|]; [|discriminate]. cbn [negb andb].
  destruct (validate_collateral e s t cd) as [cp|]; [|discriminate].
  destruct (bal s o cd <? coll); [discriminate|]. destruct (find_cdp e s o t); [discriminate|].
  destruct (Nat.eqb pd (d_usdx e)); [|discriminate]. cbn [negb]. destruct (prin <? dp_floor e); [discriminate|].
  destruct (debt_limit_ok e s t cp prin); [|discriminate]. cbn [negb].
  destruct (ratio_gate _ _ _ _ _ _) as [[] []| |]; try discriminate.
  set (s0 := match ifac s t with None => set_ifac s (upd (ifac s) t (Some PREC)) | Some _ => s end).
  set (fac := match ifac s t with None => PREC | Some f => f end).
  destruct (b_send s0 o (CDPM e) cd coll) as [s1|] eqn:E1; [|discriminate].
  destruct (b_send (b_mint s1 _ _ _) _ _ _ _) as [s3|] eqn:E3; [|discriminate].
  intros Hres; inversion Hres; subst s'. clear Hres. split; [|cbn; lia].
  (* the state with the (possibly new) interest factor of the type is good *)
  assert (V0 : vals_ok s0 /\ ifac s0 t = Some fac /\ PREC <= fac /\ now s0 = now s /\ nextid s0 = nextid s).
  { unfold s0, fac. destruct (ifac s t) as [f|] eqn:Ei.
    - split; [exact V|]. split; [exact Ei|]. split; [|auto]. destruct V as (_&_&Vf&_). eapply Vf, Ei.
    - split; [|cbn; unfold upd; rewrite Nat.eqb_refl; repeat split; lia].
      destruct V as (W0 & Wc & Wf & Wp & Wt & Wn). split; [exact W0|]. split; [|split; [|auto]].
      + intros t' id c Hc. destruct (Wc _ _ _ Hc) as (p1&p2&p3&p4&f&Ef&p5). repeat split; try assumption.
        exists f. cbn. unfold upd. destruct (Nat.eqb_spec t' t) as [->|]; [congruence|auto].
      + intros t' f. cbn. unfold upd. destruct (Nat.eqb t' t); [intros E; inversion E; lia|apply Wf]. }
  destruct V0 as (V0 & Ei0 & Hfac & En0 & Eid0).
  assert (B : bank_only s0 (b_mint s3 (CDPM e) (d_debt e) prin)).
  { eapply bank_only_trans; [eapply b_send_frame, E1|]. eapply bank_only_trans; [apply b_mint_frame|].
    eapply bank_only_trans; [eapply b_send_frame, E3|apply b_mint_frame]. }
  pose proof (vok_bank _ _ B V0) as V4. destruct B as (_&_&_&_&_&Bi&_&Bn&_&_&Bnow&_).
  set (s5 := set_tprin _ _).
  assert (V5 : vals_ok s5).
  { apply vok_tprin; [|exact V4]. intros t'. unfold upd. destruct V4 as (_&_&_&_&Vt&_).
    destruct (Nat.eqb t' t); [specialize (Vt t); lia|apply Vt]. }
  apply vok_frame with (s := ridx_ins (put_cdp s5 (mkCdp (nextid s) o t coll prin 0 (now s) fac)) t
                                       (cdp_ratio e cp (mkCdp (nextid s) o t coll prin 0 (now s) fac)) (nextid s)); try reflexivity.
  apply (vals_ok_intro s5 _ V5); try reflexivity.
  - apply V5.
  - intros t' id c. cbn. unfold upd2.
    destruct (Nat.eqb_spec t' t) as [->|]; [destruct (Nat.eqb_spec id (nextid s)) as [->|]|]; cbn [andb]; auto.
    intros E; inversion E; subst c. right. split; [lia|]. split; [reflexivity|].
    unfold good_cdp. cbn. destruct V as (_&_&_&_&_&Wn). repeat split; try lia.
    exists fac. split; [|lia]. rewrite Bi. exact Ei0.
Qed.

Lemma calc_payment_bounds prin fees pay fp pp :
  0 <= prin -> 0 <= fees -> 0 < pay -> calc_payment (prin + fees) fees pay = (fp, pp) ->
  0 <= fp <= fees /\ 0 <= pp <= prin.
Proof.
  intros Hp Hf Hx. unfold calc_payment.
  set (p := if prin + fees <? pay then prin + fees else pay).
  assert (Hpb : 0 <= p <= prin + fees /\ p <= pay) by (unfold p; destruct (Z.ltb_spec (prin + fees) pay); lia).
  destruct (Z.eqb_spec fees 0); [intros E; inversion E; subst; lia|].
  destruct (Z.ltb_spec fees p); intros E; inversion E; subst; lia.
Qed.

Lemma vok_ofold {A} (f : state -> A -> outcome state unit) :
  (forall s x s' u, vals_ok s -> f s x = Ok s' u -> vals_ok s') -> forall l s s' u, vals_ok s -> ofold f s l = Ok s' u -> vals_ok s'.
Proof. apply (ofold_inv vals_ok). Qed.

Lemma vok_return_collateral e s cp c s' u : vals_ok s -> return_collateral e s cp c = Ok s' u -> vals_ok s'.
Proof.
  intros V H. unfold return_collateral in H. eapply vok_ofold; [|exact V|exact H].
  intros s0 d s1 u0 V0 H1. cbn beta in H1. destruct (b_send s0 _ _ _ _) eqn:E; [|discriminate]. inversion H1; subst.
  apply vok_del_dep. eapply vok_bank; [eapply b_send_frame, E|exact V0].
Qed.

Lemma vok_oidx_rm s o id : vals_ok s -> vals_ok (oidx_rm s o id). Proof. apply vok_frame; reflexivity. Qed.
Lemma vok_ridx_del s t r id : vals_ok s -> vals_ok (ridx_del s t r id). Proof. apply vok_frame; reflexivity. Qed.

Lemma vok_repay e s o t pd x s' v : GI e s -> repay e s o t pd x = Ok s' v -> vals_ok s'.
Proof.
  intros HG. pose proof HG as ((HI & _ & _) & _ & _). unfold repay. destruct (Z.ltb_spec 0 x) as [Hx|]; [|discriminate]. cbn [negb].
  destruct (find_cdp e s o t) as [c0|] eqn:Ef; [|discriminate].
  destruct (get_cp e t) as [cp|] eqn:Hcp; [|discriminate].
  destruct (find_cdp_stored' _ _ _ _ _ _ HI Ef Hcp) as [Ht Hst].
  destruct (Nat.eqb pd (d_usdx e)); [|discriminate]. cbn [negb]. destruct (bal s o pd <? x); [discriminate|].
  destruct (sync_interest e s cp c0) as [s1 c| |] eqn:Es; try discriminate.
  destruct (sync_GI_facts e s cp c0 s1 c HG ltac:(rewrite Ht; exact Hcp) Hst Es) as ((_ & _ & V1) & Hid & Hty & Hnz & Hgood & _).
  destruct (calc_payment (cdp_debt c) (c_fees c) x) as [fp pp] eqn:Ecp.
  destruct Hgood as (g1 & g2 & g3 & g4 & f & Ef' & g5).
  destruct (calc_payment_bounds _ _ _ _ _ g1 g2 Hx Ecp) as [Hfp Hpp].
  destruct (_ && _); [discriminate|].
  destruct (b_send s1 _ _ _ _) as [s2|] eqn:E2; [|discriminate].
  destruct (b_burn s2 _ _ _) as [s3|] eqn:E3; [|discriminate].
  destruct (b_burn s3 _ _ _) as [s4|] eqn:E4; [|discriminate].
  assert (B : bank_only s1 s4).
  { eapply bank_only_trans; [eapply b_send_frame, E2|]. eapply bank_only_trans; [eapply b_burn_frame, E3|eapply b_burn_frame, E4]. }
  pose proof (vok_bank _ _ B V1) as V4.
  set (s5 := set_tprin _ _).
  assert (V5 : vals_ok s5).
  { apply vok_tprin; [|exact V4]. intros t'. unfold upd. destruct V4 as (_&_&_&_&Vt&_). destruct (Nat.eqb t' t); [lia|apply Vt]. }
  set (c1 := with_fees _ _ _ _).
  destruct (_ && _).
  - destruct (return_collateral e s5 cp c1) as [s6 []| |] eqn:Er; try discriminate.
    destruct (get_cdp _ _ _ _) as [old|]; [|discriminate]. intros H; inversion H; subst.
    apply vok_del_cdp, vok_ridx_del, vok_oidx_rm. eapply vok_return_collateral; eassumption.
  - intros H. eapply vok_update; [exact V5|exact H|exact Hnz|].
    unfold good_cdp, c1, with_fees, with_prin. cbn. repeat split; try lia. exists f. split; [|exact g5].
    destruct B as (_&_&_&_&_&Bi&_). cbn. rewrite Bi. exact Ef'.
Qed.

Lemma vok_seize e s cp c s' u : vals_ok s -> seize e s cp c = Ok s' u -> vals_ok s'.
Proof.
  intros V H. unfold seize in H.
  destruct (b_send s _ _ _ _) as [s1|] eqn:E1; [|discriminate].
  destruct (ofold _ s1 _) as [s4 []| |] eqn:E4; try discriminate.
  destruct (auction_collateral e cp s4 _ _) as [s5 []| |] eqn:E5; try discriminate.
  inversion H; subst.
  assert (V1 : vals_ok s1) by (eapply vok_bank; [eapply b_send_frame, E1|exact V]).
  assert (V4 : vals_ok s4).
  { eapply vok_ofold; [|exact V1|exact E4]. intros s0 d s2 u0 G0 G1. cbn beta in G1.
    destruct (b_send s0 _ _ _ _) eqn:E; [|discriminate]. inversion G1; subst. apply vok_del_dep. eapply vok_bank; [eapply b_send_frame, E|exact G0]. }
  assert (V5 : vals_ok s5) by (eapply vok_bank; [eapply auction_collateral_frame, E5|exact V4]).
  apply vok_del_cdp, vok_ridx_del, vok_oidx_rm, vok_tprin; [|exact V5]. intros t'. unfold upd. destruct V5 as (_&_&_&_&Vt&_).
  destruct (Nat.eqb t' (c_type c)); [lia|apply Vt].
Qed.

Lemma vok_payout_reward e s cp k c s2 c1 :
  vals_ok s -> c_id c <> 0%nat -> good_cdp s c -> payout_reward e s cp k c = Ok s2 c1 -> vals_ok s2.
Proof.
  intros V Hnz Hg. unfold payout_reward. destruct (first_dep_ge _ _) as [[u a]|]; [|intros H; inversion H; subst; exact V].
  destruct (b_send _ _ _ _ _) as [s1|] eqn:E; [|discriminate]. destruct (c_coll c <? _); [discriminate|].
  destruct (update_cdp _ _ _ _ _) as [s3 []| |] eqn:Eu; try discriminate. intros H; inversion H; subst.
  pose proof (b_send_frame _ _ _ _ _ _ E) as B.
  eapply vok_update; [|exact Eu|exact Hnz|].
  - eapply vok_bank; [exact B|]. apply vok_put_dep, V.
  - apply good_with_coll. eapply good_cdp_ifac; [|exact Hg]. destruct B as (_&_&_&_&_&Bi&_). exact Bi.
Qed.

Lemma vok_keeper_liquidate e s k o t s' v : GI e s -> keeper_liquidate e s k o t = Ok s' v -> vals_ok s'.
Proof.
  intros HG. pose proof HG as ((HI & _ & _) & _ & _). unfold keeper_liquidate.
  destruct (find_cdp e s o t) as [c0|] eqn:Ef; [|discriminate].
  destruct (get_cp e t) as [cp|] eqn:Hcp; [|discriminate].
  destruct (find_cdp_stored' _ _ _ _ _ _ HI Ef Hcp) as [Ht Hst].
  destruct (sync_interest e s cp c0) as [s1 c| |] eqn:Es; try discriminate.
  destruct (sync_GI_facts e s cp c0 s1 c HG ltac:(rewrite Ht; exact Hcp) Hst Es) as ((_ & _ & V1) & Hid & Hty & Hnz & Hgood & _).
  destruct (ratio_at _ _ _ _ _ _) as [[] r| |]; try discriminate.
  destruct (cp_liq cp <=? r); [discriminate|].
  destruct (payout_reward e s1 cp k c) as [s2 c1| |] eqn:Ep; try discriminate.
  intros H. eapply vok_seize; [|exact H]. eapply vok_payout_reward; eassumption.
Qed.

(** ** the begin blocker *)

(* every stability fee is at least 1.0 (types.validateCollateralParams) *)
Definition fees_ok (e : env) : Prop := forall t cp, get_cp e t = Some cp -> PREC <= cp_fee cp.

Lemma vok_mstat s v : vals_ok s -> vals_ok (set_mstat s v). Proof. apply vok_frame; reflexivity. Qed.

(* only the interest factor of type t moves, and only upwards; accrual times are block times *)
Lemma vok_raise s s' t :
  vals_ok s -> cdps s' = cdps s -> now s' = now s -> (forall t', 0 <= tprin s' t') ->
  (forall t' p, ptime s' t' = Some p -> NS <= p) ->
  (forall t', t' <> t -> ifac s' t' = ifac s t') ->
  match ifac s t, ifac s' t with
  | Some f, Some f' => f <= f'
  | None, Some f' => PREC <= f'
  | Some _, None => False
  | None, None => True
  end -> vals_ok s'.
Proof.
  intros (V0 & Vc & Vf & Vp & Vt & Vn) Ec En Ht Hp Ho Hf.
  split; [intros t'; rewrite Ec; apply V0|]. split; [|split; [|split; [exact Hp|split; [exact Ht|rewrite En; exact Vn]]]].
  - intros t' id c. rewrite Ec. intros Hc. destruct (Vc _ _ _ Hc) as (p1&p2&p3&p4&f&Ef&p5). repeat split; try assumption.
    destruct (Nat.eq_dec t' t) as [->|N]; [|exists f; rewrite Ho by exact N; auto].
    rewrite Ef in Hf. destruct (ifac s' t) as [f'|]; [|contradiction]. exists f'. split; [reflexivity|lia].
  - intros t' f'. destruct (Nat.eq_dec t' t) as [->|N]; [|rewrite Ho by exact N; apply Vf].
    intros E. rewrite E in Hf. destruct (ifac s t) as [f|] eqn:Ef; [|exact Hf]. specialize (Vf _ _ Ef). lia.
Qed.

Lemma vok_accumulate e s t cp : vals_ok s -> PREC <= cp_fee cp -> vals_ok (accumulate_interest e s t cp).
Proof.
  intros V Hfee. pose proof V as (V0 & Vc & Vf & Vp & Vt & Vn).
  assert (Hpt : forall s0, ifac s0 = ifac s -> cdps s0 = cdps s -> now s0 = now s -> tprin s0 = tprin s -> ptime s0 = ptime s ->
                vals_ok (set_ptime s0 (upd (ptime s0) t (Some (now s0))))).
  { intros s0 E1 E2 E3 E4 E5. apply (vok_raise s _ t V); cbn; try assumption.
    - intros t'. rewrite E4. apply Vt.
    - intros t' p. unfold upd. rewrite E5, E3. destruct (Nat.eqb t' t); [intros E; inversion E; subst; exact Vn|apply Vp].
    - intros t' _. rewrite E1. reflexivity.
    - rewrite E1. destruct (ifac s t); [lia|exact I]. }
  unfold accumulate_interest. destruct (ptime s t) as [prev|] eqn:Ept; [|apply Hpt; reflexivity].
  destruct (_ =? 0); [exact V|]. destruct (Z.leb_spec (tprin s t) 0) as [|Htp]; [apply Hpt; reflexivity|].
  destruct (ifac s t) as [fprior|] eqn:Eif.
  - destruct (cp_fee cp =? PREC); [apply Hpt; reflexivity|]. cbv zeta.
    set (f := interest_factor (cp_fee cp) _).
    assert (Hf : PREC <= f) by (apply rel_pow_ge; [reflexivity|exact Hfee]).
    set (acc := dec_round_int (dec_mul f (dec_of_int (tprin s t))) - tprin s t).
    assert (Hacc : 0 <= acc).
    { unfold acc. pose proof (dec_mul_ge_one' (tprin s t) f ltac:(lia) Hf) as G. unfold dec_mul in *. rewrite Z.mul_comm. lia. }
    destruct (acc =? 0); [exact V|].
    pose proof (Vf _ _ Eif) as Hfp.
    set (s2 := b_mint (b_mint s (CDPM e) (d_debt e) acc) (LIQM e) (d_usdx e) acc).
    assert (B : bank_only s s2) by (eapply bank_only_trans; apply b_mint_frame).
    destruct B as (b1&b2&b3&b4&b5&b6&b7&b8&b9&b10&b11&b12).
    apply (vok_raise s _ t V); cbn [cdps now tprin ptime ifac set_ptime set_ifac set_tprin].
    + exact b1.
    + exact b11.
    + intros t'. unfold upd. destruct (Nat.eqb t' t); [specialize (Vt t); lia|rewrite b5; apply Vt].
    + intros t' p. unfold upd. destruct (Nat.eqb t' t); [intros E; inversion E; subst; exact Vn|rewrite b7; apply Vp].
    + intros t' N. unfold upd. destruct (Nat.eqb_spec t' t); [contradiction|]. rewrite b6. reflexivity.
    + rewrite Eif. unfold upd. rewrite Nat.eqb_refl. apply dec_mul_ge_l; [unfold PREC in *; lia|exact Hf].
  - apply (vok_raise s _ t V); cbn; try reflexivity.
    + apply Vt.
    + intros t' p. unfold upd. destruct (Nat.eqb t' t); [intros E; inversion E; subst; exact Vn|apply Vp].
    + intros t' N. unfold upd. destruct (Nat.eqb_spec t' t); [contradiction|reflexivity].
    + rewrite Eif. unfold upd. rewrite Nat.eqb_refl. lia.
Qed.

Lemma key_ok_ridx_ins s t r id : key_ok s -> key_ok (ridx_ins s t r id). Proof. intros H; exact H. Qed.
Lemma key_ok_ridx_del s t r id : key_ok s -> key_ok (ridx_del s t r id). Proof. intros H; exact H. Qed.

(* the record written by one iteration of the bulk synchronisation *)
Lemma risky_record_good s t id c gf prev acc :
  vals_ok s -> cdps s t id = Some c -> c_type c = t -> ifac s t = Some gf -> ptime s t = Some prev ->
  acc = new_interest gf (c_ifac c) (cdp_debt c) ->
  forall c0, c_type c0 = t -> c_prin c0 = c_prin c -> c_fees c0 = c_fees c ->
  good_cdp s (with_fees c0 (c_fees c0 + acc) prev gf).
Proof.
  intros V Ec Kt I0 P0 -> c0 E1 E2 E3. pose proof V as (W0 & Wc & Wf & Wp & Wt & Wn).
  destruct (Wc _ _ _ Ec) as (p1 & p2 & p3 & p4 & f & Ef & p5). rewrite I0 in Ef. inversion Ef; subst f.
  pose proof (new_interest_nonneg gf (c_ifac c) (cdp_debt c) ltac:(unfold PREC in *; lia) p5 ltac:(unfold cdp_debt; lia)).
  unfold good_cdp. cbn. rewrite E1, E2, E3. repeat split; try lia.
  - eapply Wp, P0.
  - exists gf. split; [exact I0|lia].
Qed.

Lemma vok_sync_risky e s t cp s' u :
  key_ok s -> vals_ok s -> sync_risky e s t cp = Ok s' u -> vals_ok s'.
Proof.
  intros Hk V H. unfold sync_risky in H. destruct (ptime s t) as [prev|] eqn:Ept; [|discriminate].
  destruct (ifac s t) as [gf|] eqn:Eif; [|destruct (map snd _); [inversion H; subst; exact V|discriminate]].
  assert (G : forall l s0 s1 u0, key_ok s0 -> vals_ok s0 -> ifac s0 t = Some gf -> ptime s0 t = Some prev ->
              ofold (sync_risky_one e cp t gf prev) s0 l = Ok s1 u0 -> vals_ok s1).
  { induction l as [|id r IH]; intros s0 s1 u0 K0 V0 I0 P0 H0; cbn [ofold] in H0; [inversion H0; subst; exact V0|].
    destruct (sync_risky_one e cp t gf prev s0 id) as [s2 []| |] eqn:E2; try discriminate.
    unfold sync_risky_one in E2. destruct (cdps s0 t id) as [c|] eqn:Ec; [|discriminate].
    destruct (K0 _ _ _ Ec) as [Kt Ki].
    pose proof (vals_stored_id _ _ _ _ V0 Ec) as Hnz.
    remember (new_interest gf (c_ifac c) (cdp_debt c)) as acc eqn:Eacc.
    destruct ((acc =? 0) && (c_upd c =? prev)); [inversion E2; subst; eapply IH; eassumption|].
    destruct (acc =? 0) eqn:Ez; inversion E2; subst s2; clear E2.
    - set (c1 := with_fees c (c_fees c) prev (c_ifac c)) in *.
      set (c2 := with_fees c1 (c_fees c1 + acc) prev gf) in *.
      assert (Hg : good_cdp s0 c2) by (eapply (risky_record_good s0 t id c gf prev acc V0 Ec Kt I0 P0 Eacc c1); reflexivity || exact Kt).
      eapply IH; [| | | |exact H0].
      + apply key_ok_ridx_ins, put_cdp_key_ok, key_ok_ridx_del, put_cdp_key_ok, K0.
      + apply (vals_ok_intro s0 _ V0); try reflexivity; [apply V0|].
        intros t' id' c'. cbn. unfold upd2. cbn. rewrite Kt, Ki.
        destruct (Nat.eqb t' t && Nat.eqb id' id) eqn:Ek; [|auto].
        apply andb_true_iff in Ek. destruct Ek as [Ek1 Ek2]. apply Nat.eqb_eq in Ek1, Ek2. subst t' id'.
        intros E; inversion E; subst c'. right. split; [exact Hnz|]. split; [exact Kt|exact Hg].
      + exact I0.
      + exact P0.
    - set (c2 := with_fees c (c_fees c + acc) prev gf) in *.
      assert (Hg : good_cdp s0 c2) by (eapply (risky_record_good s0 t id c gf prev acc V0 Ec Kt I0 P0 Eacc c); reflexivity || exact Kt).
      eapply IH; [| | | |exact H0].
      + apply key_ok_ridx_ins, put_cdp_key_ok, key_ok_ridx_del, K0.
      + apply (vals_ok_intro s0 _ V0); try reflexivity; [apply V0|].
        intros t' id' c'. cbn. unfold upd2. cbn. rewrite Kt, Ki.
        destruct (Nat.eqb t' t && Nat.eqb id' id) eqn:Ek; [|auto].
        apply andb_true_iff in Ek. destruct Ek as [Ek1 Ek2]. apply Nat.eqb_eq in Ek1, Ek2. subst t' id'.
        intros E; inversion E; subst c'. right. split; [exact Hnz|]. split; [exact Kt|exact Hg].
      + exact I0.
      + exact P0. }
  eapply G; [exact Hk|exact V|exact Eif|exact Ept|exact H].
Qed.

Lemma vok_liquidate_cdps e s t cp s' u : vals_ok s -> liquidate_cdps e s t cp = Ok s' u -> vals_ok s'.
Proof.
  intros V H. unfold liquidate_cdps in H. destruct (_ =? 0); [inversion H; subst; exact V|].
  destruct (existsb _ _); [discriminate|].
  eapply vok_ofold; [|exact V|exact H]. intros s0 o s1 u0 V0 H1. unfold liq_step in H1.
  destruct o as [c|]; [|discriminate]. destruct (confirm_below e cp _ c); [eapply vok_seize; eassumption|inversion H1; subst; exact V0].
Qed.

Lemma key_ok_frame s s' : cdps s' = cdps s -> key_ok s -> key_ok s'.
Proof. intros E H t id c Hc. rewrite E in Hc. apply H, Hc. Qed.

Lemma vok_begin_type e skip s t cp s' u :
  key_ok s -> vals_ok s -> PREC <= cp_fee cp -> begin_type e skip s (t, cp) = Ok s' u -> vals_ok s'.
Proof.
  intros Hk V Hfee H. unfold begin_type, update_status in H. cbn [fst snd] in H.
  destruct (negb (negb (price s (cp_spot cp) =? 0))); [inversion H; subst; apply vok_mstat, V|].
  match type of H with context [if negb (negb (?p =? 0)) then _ else _] => destruct (negb (negb (p =? 0))) end;
    [inversion H; subst; apply vok_mstat, vok_mstat, V|].
  set (s2 := set_mstat (set_mstat s _) _) in H.
  assert (V3 : vals_ok (accumulate_interest e s2 t cp)) by (apply vok_accumulate; [apply vok_mstat, vok_mstat, V|exact Hfee]).
  destruct skip; [inversion H; subst; exact V3|].
  destruct (sync_risky _ _ _ _) as [s4 []| |] eqn:E4; try discriminate.
  destruct (liquidate_cdps _ _ _ _) as [s5 []| |] eqn:E5; try discriminate. inversion H; subst.
  eapply vok_liquidate_cdps; [|exact E5]. eapply vok_sync_risky; [|exact V3|exact E4].
  eapply key_ok_frame; [|exact Hk]. pose proof (accumulate_interest_stores e s2 t cp) as A. cbv zeta in A. destruct A as (A & _). exact A.
Qed.

(* the begin blocker: every collateral type in turn, then the surplus / debt auctions *)
Lemma vok_begin_block e s s' u :
  env_wf e -> fees_ok e -> Inv3 e s -> vals_ok s -> begin_block e s = Ok s' u -> vals_ok s'.
Proof.
  intros Hwf Hfee HI3 V H. unfold begin_block in H.
  destruct (ofold _ s _) as [s1 []| |] eqn:E; try discriminate.
  destruct (run_auctions e s1) as [s2 []| |] eqn:Er; try discriminate. inversion H; subst.
  eapply vok_bank; [eapply run_auctions_bank, Er|].
  revert E. generalize (negb (Z.rem (height s) (interval e) =? 0)). intros skip E.
  assert (G : forall l s0 s3 u0,
    (forall t cp, In (t, cp) l -> get_cp e t = Some cp) ->
    Inv3 e s0 -> vals_ok s0 -> ofold (begin_type e skip) s0 l = Ok s3 u0 -> vals_ok s3).
  { induction l as [|[t cp] tl IH]; intros s0 s3 u0 Hl H0 V0 H1; cbn [ofold] in H1; [inversion H1; subst; exact V0|].
    destruct (begin_type e skip s0 (t, cp)) as [s4 []| |] eqn:E4; try discriminate.
    pose proof (Hl t cp (or_introl eq_refl)) as Hcp.
    eapply IH; [intros t' cp' Hin; apply Hl; right; exact Hin| | |exact H1].
    - eapply begin_type_Inv3; [exact Hwf|exact H0|exact Hcp|exact E4].
    - eapply vok_begin_type; [|exact V0|eapply Hfee, Hcp|exact E4]. destruct H0 as ((K & _) & _). exact K. }
  eapply G; [|exact HI3|exact V|exact E].
  intros t cp Hin. unfold ntypes in Hin. apply combine_seq_nth in Hin. destruct Hin as [Hn _].
  unfold get_cp. rewrite Nat.sub_0_r in Hn. exact Hn.
Qed.

(* blocks do not go back in time *)
Definition op_dt_ok (o : op) : Prop := match o with Block dt _ => 0 <= dt | _ => True end.

Definition GIH (e : env) (s : state) : Prop := GI e s /\ (1 <= nextid s)%nat.

Theorem step_GIH e s o s' u :
  env_wf e -> params_ok e -> fees_ok e -> GIH e s -> op_dt_ok o -> step e s o = Ok s' u -> GIH e s'.
Proof.
  intros Hwf Hp Hfee (HG & Hn) Hdt H. pose proof HG as (HI & HS & V).
  pose proof (step_Inv3 e s o s' u Hwf Hp HI H) as HI'.
  pose proof (step_sorted e s o s' u HI HS H) as HS'.
  pose proof (step_nextid_floor 1 e s o s' u HI HS Hn H) as Hn'.
  split; [|exact Hn']. split; [exact HI'|]. split; [exact HS'|].
  destruct o; cbn [step] in H.
  - destruct (user_ok e o); [|discriminate]. eapply vok_create; eassumption.
  - destruct (_ && _); [|discriminate]. eapply vok_deposit; eassumption.
  - destruct (_ && _); [|discriminate]. eapply vok_withdraw; eassumption.
  - destruct (user_ok e o); [|discriminate]. eapply vok_draw; eassumption.
  - destruct (user_ok e o); [|discriminate]. eapply vok_repay; eassumption.
  - destruct (_ && _); [|discriminate]. eapply vok_keeper_liquidate; eassumption.
  - cbn [op_dt_ok] in Hdt.
    set (s0 := set_clock (set_price s _) (now s + dt) (height s + 1)) in H.
    assert (V0 : vals_ok s0).
    { destruct V as (W0 & Wc & Wf & Wp & Wt & Wn). split; [exact W0|]. split; [exact Wc|]. split; [exact Wf|].
      split; [exact Wp|]. split; [exact Wt|]. cbn. lia. }
    assert (I0 : Inv3 e s0).
    { destruct HI as (A & B & C). split; [|split].
      - eapply IdxInv_frame; [| | |exact A]; reflexivity.
      - eapply CustInv_view; [| | | |exact B]; try reflexivity. intros t id. split; reflexivity.
      - eapply OwnInv_view; [| |exact C]; reflexivity. }
    eapply vok_begin_block; eassumption.
Qed.

(* the hypotheses of the round trip hold along every history whose blocks do not go back in time *)
Fixpoint dts_ok (ops : list op) : Prop := match ops with [] => True | o :: r => op_dt_ok o /\ dts_ok r end.

Theorem run_GIH e ops : env_wf e -> params_ok e -> fees_ok e -> dts_ok ops -> forall s, GIH e s -> GIH e (run e s ops).
Proof.
  intros We Hp Hf. induction ops as [|o r IH]; intros Hd s HG; cbn [run fold_left]; [exact HG|].
  destruct Hd as [Hd Hr]. apply IH; [exact Hr|].
  unfold step'. destruct (step e s o) as [s' u| |] eqn:E; try exact HG. eapply step_GIH; eassumption.
Qed.

(* a previous accrual time, once set, stays set: every operation keeps [ptimes_set] *)
Lemma GI_genesis e bals sups prices status ifacs ptimes startid t h :
  (forall t0 cp, get_cp e t0 = Some cp -> nthZ (nth (CDPM e) bals []) (cp_denom cp) = 0) ->
  (forall t0 f, nthO ifacs t0 = Some f -> PREC <= f) -> (forall t0 p, nthO ptimes t0 = Some p -> NS <= p) -> NS <= t ->
  (1 <= startid)%nat ->
  GIH e (mk_state bals sups prices status ifacs ptimes startid t h).
Proof.
  intros Hb Hf Hp Ht Hs. split; [|exact Hs]. split; [|split].
  - split; [|split].
    + split; [|split]; try (intros ? ? ? X; discriminate X). intros t0 cp _. split; [constructor|].
      intros r id. split; [intros []|intros (c & X & _); discriminate X].
    + apply init_CustInv, Hb.
    + apply init_OwnInv.
  - apply init_sorted.
  - split; [reflexivity|]. split; [intros ? ? ? X; discriminate X|]. split; [exact Hf|]. split; [exact Hp|]. split; [intros; cbn; lia|exact Ht].
Qed.

Theorem run_GIH_pt e ops : env_wf e -> params_ok e -> fees_ok e -> dts_ok ops ->
  forall s, GIH e s -> ptimes_set e s -> GIH e (run e s ops) /\ ptimes_set e (run e s ops).
Proof.
  intros We Hp Hf. induction ops as [|o r IH]; intros Hd s HG Hpt; cbn [run fold_left]; [split; assumption|].
  destruct Hd as [Hd Hr]. unfold step'. destruct (step e s o) as [s' u| |] eqn:E; try (apply IH; assumption).
  apply IH; [exact Hr|eapply step_GIH; eassumption|].
  destruct HG as ((HI & HS & _) & _). eapply step_ptimes; eassumption.
Qed.

(* every state reached by a history (blocks not going back in time) from a good state with accrual times set
   exports a valid genesis and re-imports, up to [norm], to the exporting context's final state *)
Theorem cdp_roundtrip_reachable e ops s :
  env_wf e -> params_ok e -> fees_ok e -> markets_ok e -> dts_ok ops -> GIH e s -> ptimes_set e s ->
  let sr := run e s ops in
  exists s1 g,
    export_genesis e sr = Ok s1 g /\ env_same sr s1 /\ GI e s1 /\ validate_genesis g = true /\
    exists s', init_genesis e (wipe s1) g = Ok s' tt /\ imported e s1 s' /\ st_equiv e (norm e s1) s' /\
               GI e s' /\ ptimes_set e s'.
Proof.
  intros We Hp Hf Hm Hd HG Hpt sr. destruct (run_GIH_pt e ops We Hp Hf Hd s HG Hpt) as [(HG' & _) Hpt'].
  apply cdp_roundtrip; assumption.
Qed.
