(* C02 instance: x/bep3.  Begin blocker = Model.Bep3.begin_block (abci.go BeginBlocker:
   UpdateTimeBasedSupplyLimits, UpdateExpiredAtomicSwaps, DeleteClosedAtomicSwapsFromLongtermStorage)
   at block height h and time t; it is total in the model (the only panic sites of the Go code on
   this path are the binary (un)marshalling of the stored previous block time).
   Operations: MsgCreateAtomicSwap, MsgClaimAtomicSwap, MsgRefundAtomicSwap.
   x/bep3 registers no invariant with the crisis keeper; the invariant is Proofs.Bep3.Inv (C13):
   swap table / by-block index / long-term index coherent, ghost payout log, supply counters =
   sums over live swaps, custody (module balance = live outgoing swaps), supply limits.
   Guard [op_ok]: the bep3 module account is not the sender of a create message (it has no key).
   No guard on block inputs.  [env_wf]: minimum swap amounts >= 1, the module account is in Maccs. *)
From Coq Require Import String.
From Kava Require Import Base.Prelude Model.World Model.WorldG Proofs.WorldG.
From Kava Require Import Model.Bep3 Proofs.Bep3.
Local Open Scope string_scope.

(* the block hook is not a transaction *)
Definition bep3_tx (e : env) (s : state) (o : op) : outcome state unit :=
  match o with BeginBlock _ _ => Err | _ => step e s o end.

Definition bep3_M (e : env) : module :=
  mkModule ["bep3"] state (Z * Z) op
           (fun s b => step e s (BeginBlock (fst b) (snd b)))
           (bep3_tx e) no_blocker
           (Inv e) (fun _ _ => True) (fun _ o => op_ok e o).

Lemma bep3_M_ok e : env_wf e -> module_ok (bep3_M e).
Proof.
  intros Hwf. constructor; cbn.
  - intros s [h t] HI _. cbn [fst snd step]. eexists; split; [reflexivity|].
    eapply (step_inv e s (BeginBlock h t)); [exact Hwf|exact I|exact HI|reflexivity].
  - intros s o s' u HI G E. destruct u. unfold bep3_tx in E.
    destruct o; try discriminate; eapply step_inv; eauto.
  - intros s b HI. exists s. split; [reflexivity|exact HI].
Qed.

(** * non-vacuity (the witness of C13): accounts 0,1 users, 2 the deputy, 3 the bep3 module account; one asset
      (denom 0).  Three blocks: an incoming swap is created and claimed, an outgoing swap is created, the begin
      blocker of the next block expires it, it is refunded, and the last begin blocker deletes both closed swaps. *)
Definition bep3_e0 : env :=
  mk_env 4 2 3 [false; false; false; true] [false; false; false; true]
    [mkAsset 0 1000 true 3600000000000 600 true 2 10 1 500 2 5]
    [(1%nat, 1000, 7%nat); (1%nat, 1001, 9%nat); (2%nat, 1000, 8%nat)] [300; 0] [5000; 0].
Definition bep3_s0 : state :=
  mk_state 10 1000000000000 1000000000000 [mkSup 0 0 300 0 0] [[1000;0];[1000;0];[1000;0];[0;0]] [5000; 0].
Definition bep3_blks : list ((Z * Z) * list op) :=
  [((11, 1001000000000),
    [Create 7 1000 3 2 0 1 [(0%nat, 200)] true; Claim 1 (7%nat, 2%nat, 1%nat) 2; Claim 1 (7%nat, 2%nat, 1%nat) 1;
     Create 9 1001 3 0 2 1 [(0%nat, 150)] true; Refund 0 (9%nat, 0%nat, 1%nat)]);
   ((14, 1006000000000), [Claim 0 (9%nat, 0%nat, 1%nat) 1; Refund 0 (9%nat, 0%nat, 1%nat); Refund 0 (9%nat, 0%nat, 1%nat)]);
   ((86414, 1012000000000), [])].

Example bep3_nonvacuous :
  env_wf bep3_e0 /\ m_Inv (bep3_M bep3_e0) bep3_s0 /\ good_blocks (bep3_M bep3_e0) bep3_s0 bep3_blks /\
  match run_blocksG (bep3_M bep3_e0) bep3_s0 bep3_blks with
  | Some s => s_swaps s = [] /\ s_longterm s = [] /\ s_byblock s = [] /\
              s_bal s 0%nat 0%nat = 1200 /\ s_bal s 3%nat 0%nat = 0 /\ sp_cur (s_sup s 0%nat) = 500 /\
              map p_kind (g_log s) = [RefundOut; ClaimIn]
  | None => False
  end.
Proof.
  split; [|split; [|split]].
  - split; [reflexivity|]. intros d a. unfold bep3_e0, mk_env; cbn [e_assets find_asset a_denom].
    destruct d as [|d]; cbn; [|discriminate]. intros H; inversion H; subst; cbn; lia.
  - apply inv_init; try reflexivity. intros d. cbv zeta.
    assert (Hd : d = 0%nat \/ d = 1%nat \/ exists k, d = S (S k)) by (destruct d as [|[|k]]; eauto).
    destruct Hd as [->|[->|[k ->]]].
    + cbn. repeat (split; [lia|]). intros a H. inversion H; subst; cbn. split; [lia|intros _; lia].
    + cbn. repeat (split; [lia|]). intros a H. discriminate.
    + cbn. destruct k; cbn; repeat (split; [lia|]); intros a H; discriminate.
  - unfold bep3_blks.
    repeat first [ exact I | split | intro | progress cbn [good_blocks good_txs fst snd]
                 | progress (unfold bep3_M, m_goodT, op_ok) | (cbn; discriminate) ].
  - vm_compute. repeat split; reflexivity.
Qed.
Print Assumptions bep3_M_ok.
