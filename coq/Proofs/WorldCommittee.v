(* C02 instance: x/committee (Model/Committee.v).

   Begin blocker = the model's [OBegin t] (abci.go BeginBlocker -> keeper.ProcessProposals: the clock
   moves to t, the height goes up by one, then every stored proposal, in id order over a snapshot of
   the proposal store, is tallied and — when it passes at/after its deadline, or at once for a
   first-past-the-post committee — enacted (attemptEnactProposal: HasPermissionsFor, dry run of the
   routed handler on a cached context, then the real run whose failure is a panic) and closed).
   x/committee has no end blocker.
   Operations (the model's [op] without the block hook): Permission.Allows (a query), the routed
   handler called directly as x/gov would (OApply), MsgSubmitProposal, MsgVote, a bank send of the
   tally denom, and the two gov-side handlers CommitteeChangeProposal / CommitteeDeleteProposal
   (OSetCommittee / ODeleteCommittee).

   x/committee registers NO invariant with the crisis keeper (module.go: RegisterInvariants is
   empty).  Both conjuncts of the invariant are "needed by the no-panic proof":
   1. [docs_ok (params s)] — every stored parameter document of the slot table is a JSON object,
      null, or an array of objects/nulls.  ParamsChangePermission.allowsParamChange panics when the
      CURRENT raw value does not unmarshal into map[string]interface{} (resp. a slice of them).
      Preserved because Subspace.Update only ever stores the amino-JSON encoding of a struct / a
      slice of structs (apply_slot_doc).  Model scope: the slot table of Model/Committee.v holds
      only struct- and slice-of-struct-valued parameters; scalar parameters are not modelled.
   2. [props_known (props s)] — every parameter change of every STORED proposal names a registered,
      set parameter ([PKnown i]).  Established by MsgSubmitProposal: the proposal is stored only
      after keeper.ValidatePubProposal ran the handler successfully on a cached context, and
      handleParameterChangeProposal fails (error, or the recovered "parameter not registered" panic
      of Subspace.Update) on any other change.  The content of a stored proposal is never rewritten;
      the proposal store only shrinks otherwise (CloseProposal / DeleteProposalAndVotes).
   With 1 and 2, allowsParamChange is only ever asked at enactment about a current raw value that is
   an object/array document (or about a slot outside the table: "subspace not found", false), never
   about the nil raw value of an unregistered key — so HasPermissionsFor cannot panic WHATEVER the
   permissions of the committee are.  In particular no assumption is made on what governance
   installs with OSetCommittee ([perms_ok] of Proofs/Committee.v, which that operation does not
   preserve, is not needed), and the real run of the handler comes after a successful dry run on the
   same state (validated_handler_ok).

   Guards.  Block guard [now s <= t]: CometBFT block time is monotone (BFT time).  No guard on
   operations, no hypothesis on the slot table.
   What is NOT enforced by the Go code for conjunct 2 is the GENESIS state: GenesisState.Validate
   checks proposals with ValidateBasic only, not with the handler dry run, so an operator-written
   genesis may contain a proposal that names an unregistered key; the invariant is then an
   assumption on genesis.  Every state reached from a state satisfying it satisfies it. *)
From Coq Require Import String.
From Kava Require Import Base.Prelude Model.World Model.WorldG Proofs.WorldG.
From Kava Require Import Base.Dec Model.Json Model.Committee Proofs.Json Proofs.Committee.
Local Open Scope string_scope.
Local Open Scope list_scope.
Local Open Scope Z_scope.

(** * The invariant *)

Definition pref_known (p : pref) : bool := match p with PKnown _ => true | _ => false end.

Definition content_known (c : content) : bool :=
  match body c with
  | CParam chs => forallb (fun pv => pref_known (fst pv)) chs
  | _ => true
  end.

Definition props_known (l : list proposal) : Prop :=
  Forall (fun p => content_known (p_content p) = true) l.

Definition committee_Inv (s : state) : Prop :=
  docs_ok (params s) /\ props_known (props s).

(** * The component *)

(* the block hook is not a transaction *)
Definition committee_tx (sls : list slot) (s : state) (o : op) : outcome state unit :=
  match o with OBegin _ => Err | _ => forget (step sls s o) end.

Definition committee_M (sls : list slot) : module :=
  mkModule ["committee"] state Z op
           (fun s t => forget (step sls s (OBegin t)))
           (committee_tx sls)
           no_blocker
           committee_Inv (fun s t => now s <= t) (fun _ _ => True).

(** * A validated content names known parameters only *)

Lemma run_changes_known sls chs : forall ps ps' u, run_changes sls ps chs = Ok ps' u ->
  forallb (fun pv => pref_known (fst pv)) chs = true.
Proof.
  induction chs as [|[p v] r IH]; cbn; intros ps ps' u H; [reflexivity|].
  destruct p as [i| |]; try discriminate. cbn.
  destruct (nth_error sls i) as [sl|]; [|discriminate].
  destruct (nth_error ps i) as [cur|]; [|discriminate].
  destruct v as [inc|]; [|discriminate].
  destruct (apply_slot sl cur inc) as [j| |]; try discriminate.
  eapply IH; eauto.
Qed.

Lemma validate_pub_known sls ht ps c : validate_pub sls ht ps c = true -> content_known c = true.
Proof.
  unfold validate_pub, run_handler, content_known. intros H.
  apply Bool.andb_true_iff in H. destruct H as [_ H].
  destruct (body c) as [|changes| | | | | | | | |]; auto.
  destruct (run_changes sls ps changes) as [ps' u| |] eqn:E; try discriminate.
  eapply run_changes_known; eauto.
Qed.

(** * The permission check cannot panic on a known content, whatever the permissions *)

Lemma allows_change_known ps ac p v :
  docs_ok ps -> pref_known p = true -> allows_change ac (get_raw ps p) v <> None.
Proof.
  intros Hdocs Hk. unfold allows_change.
  destruct (is_nil (ac_single ac) && is_nil (ac_multi ac)); [discriminate|].
  destruct p as [i| |]; cbn; try discriminate.
  destruct (nth_error ps i) as [cur|] eqn:En; [|discriminate].
  assert (Hd : doc_ok cur = true).
  { unfold docs_ok in Hdocs. rewrite Forall_forall in Hdocs. apply Hdocs. eapply nth_error_In; eauto. }
  destruct cur; cbn in Hd; try discriminate.
  - destruct v as [inc|]; [|discriminate]. destruct (to_map inc); discriminate.
  - destruct v as [inc|]; [|discriminate]. destruct (to_multi inc); [|discriminate].
    cbn. pose proof (to_maps_ok _ Hd). destruct (to_maps l); [discriminate|congruence].
  - destruct v as [inc|]; [|discriminate]. destruct (to_map inc); discriminate.
Qed.

Lemma any_allows_known ps acs p v :
  docs_ok ps -> pref_known p = true -> any_allows acs (get_raw ps p) v <> None.
Proof.
  intros Hd Hk. induction acs as [|ac r IH]; cbn; [discriminate|].
  pose proof (allows_change_known ps ac p v Hd Hk) as Hx.
  destruct (allows_change ac (get_raw ps p) v) as [[|]|]; [discriminate|exact IH|congruence].
Qed.

Lemma all_changes_known ps acs chs :
  docs_ok ps -> forallb (fun pv => pref_known (fst pv)) chs = true ->
  all_changes_allowed acs ps chs <> None.
Proof.
  intros Hd. induction chs as [|[p v] t IH]; cbn; [discriminate|]. intros H.
  apply Bool.andb_true_iff in H. destruct H as [Hp Ht].
  pose proof (any_allows_known ps (filter (fun ac => pref_eqb (ac_param ac) p) acs) p v Hd Hp) as Hy.
  destruct (any_allows _ _ v) as [[|]|]; [exact (IH Ht)|discriminate|congruence].
Qed.

Lemma has_perms_known ps pms c :
  docs_ok ps -> content_known c = true -> has_perms pms ps c <> None.
Proof.
  intros Hd Hk. induction pms as [|pm r IH]; cbn; [discriminate|].
  assert (Hx : perm_allows pm ps c <> None).
  { unfold content_known in Hk. destruct pm; cbn; try discriminate.
    destruct (body c); try discriminate. now apply all_changes_known. }
  destruct (perm_allows pm ps c) as [[|]|]; [discriminate|exact IH|congruence].
Qed.

(** * The begin blocker *)

Lemma attempt_enact_known sls s p :
  docs_ok (params s) -> content_known (p_content p) = true -> attempt_enact sls s p <> Panic.
Proof.
  intros Hd Hk. unfold attempt_enact.
  destruct (find_com s (p_com p)) as [c|]; [|discriminate].
  pose proof (has_perms_known (params s) (c_perms c) (p_content p) Hd Hk) as Hx.
  destruct (has_perms (c_perms c) (params s) (p_content p)) as [[|]|]; [|discriminate|congruence].
  destruct (validate_pub sls (height s) (params s) (p_content p)) eqn:Ev; cbn; [|discriminate].
  destruct (validated_handler_ok _ _ _ _ Ev) as (ps' & ->). discriminate.
Qed.

Lemma process_one_known sls s p :
  docs_ok (params s) -> content_known (p_content p) = true -> process_one sls s p <> Panic.
Proof.
  intros Hd Hk. unfold process_one.
  pose proof (attempt_enact_known sls s p Hd Hk) as Ha.
  pose proof (attempt_enact_not_err sls s p) as Hb.
  destruct (find_com s (p_com p)) as [c|]; [|discriminate].
  destruct (now s <? p_deadline p).
  - destruct (c_tally c); [|discriminate]. destruct (tally s c (p_id p)); [|discriminate].
    destruct (attempt_enact sls s p); [discriminate|congruence|congruence].
  - destruct (tally s c (p_id p)); [|discriminate].
    destruct (attempt_enact sls s p); [discriminate|congruence|congruence].
Qed.

Lemma incl_filter {A} (f : A -> bool) l : incl (filter f l) l.
Proof. intros x Hx. apply filter_In in Hx. tauto. Qed.

Lemma props_known_incl l l' : incl l' l -> props_known l -> props_known l'.
Proof.
  unfold props_known. rewrite !Forall_forall. intros Hi H x Hx. apply H. now apply Hi.
Qed.

(* the whole loop completes, keeps the documents well-shaped, and only removes proposals *)
Lemma process_all_ok sls l : forall s, docs_ok (params s) -> props_known l ->
  exists s' evs, process_all sls s l = Ok s' evs /\ docs_ok (params s') /\ incl (props s') (props s).
Proof.
  induction l as [|p r IH]; cbn [process_all]; intros s Hd Hk.
  - exists s, []. split; [reflexivity|]. split; [exact Hd|apply incl_refl].
  - inversion Hk as [|? ? Hp Hr]; subst.
    pose proof (process_one_known sls s p Hd Hp) as H1. pose proof (process_one_not_err sls s p) as H2.
    destruct (process_one sls s p) as [s1 oc| |] eqn:E; [|congruence|congruence].
    destruct (process_one_frame _ _ _ _ _ E) as (_ & _ & _ & _ & _ & _ & Ed & _ & Ecl).
    assert (Hi1 : incl (props s1) (props s)).
    { destruct oc as [x|].
      - destruct Ecl as [-> _]. apply incl_filter.
      - destruct Ecl as [-> _]. apply incl_refl. }
    destruct (IH s1 (Ed Hd) Hr) as (s2 & evs & E2 & Hd2 & Hi2). rewrite E2.
    eexists; eexists. split; [reflexivity|]. split; [exact Hd2|].
    eapply incl_tran; eauto.
Qed.

(** * The operations *)

Lemma fold_close_frame l : forall s,
  params (fold_left (fun st p => close st (p_id p)) l s) = params s /\
  incl (props (fold_left (fun st p => close st (p_id p)) l s)) (props s).
Proof.
  induction l as [|p r IH]; cbn [fold_left]; intros s; [split; [reflexivity|apply incl_refl]|].
  destruct (IH (close s (p_id p))) as [E1 E2]. split.
  - rewrite E1. reflexivity.
  - eapply incl_tran; [exact E2|]. cbn. apply incl_filter.
Qed.

Lemma close_all_frame s cid s1 evs : close_all_of s cid = (s1, evs) ->
  params s1 = params s /\ incl (props s1) (props s).
Proof.
  unfold close_all_of. intros H. inversion H; subst. apply fold_close_frame.
Qed.

Lemma apply_spec sls s c s' x : step sls s (OApply c) = Ok s' x ->
  exists ps, run_handler sls (height s) (params s) c = Ok ps tt /\ s' = enact_state s c ps.
Proof.
  cbn [step]. intros H.
  assert (Hv : match (if validate_pub sls (height s) (params s) c
                      then match run_handler sls (height s) (params s) c with
                           | Ok ps _ => Ok (enact_state s c ps) OutNone
                           | _ => Err
                           end
                      else Err) with Ok s1 _ => s1 = s' | _ => False end).
  { destruct (body c); try discriminate; rewrite H; reflexivity. }
  destruct (validate_pub sls (height s) (params s) c); [|contradiction].
  destruct (run_handler sls (height s) (params s) c) as [ps []| |]; try contradiction.
  subst s'. eauto.
Qed.

(* the ghost refresh of the recorded keeper verdicts leaves parameter changes alone *)
Lemma content_known_set_ok c b : content_known (set_ok c b) = content_known c.
Proof. destruct c; reflexivity. Qed.

Lemma props_known_oracle l ps : props_known ps -> props_known (map (oracle_prop l) ps).
Proof.
  unfold props_known. rewrite !Forall_forall. intros H x Hx. apply in_map_iff in Hx.
  destruct Hx as (p & <- & Hp). unfold oracle_prop.
  destruct (find _ l); cbn [p_content]; [rewrite content_known_set_ok|]; now apply H.
Qed.

Lemma committee_tx_inv sls s o s' u :
  committee_Inv s -> committee_tx sls s o = Ok s' u -> committee_Inv s'.
Proof.
  intros [Hd Hp] E. unfold committee_tx in E.
  destruct o; try discriminate; apply forget_ok in E; destruct E as (xo & E).
  - (* OAllows *)
    cbn [step] in E. destruct (perm_allows pm (params s) c); [|discriminate].
    inversion E; subst. split; assumption.
  - (* OApply *)
    destruct (apply_spec _ _ _ _ _ E) as (ps & Hr & ->).
    destruct (run_handler_docs _ _ _ _ _ _ Hr) as [_ Hdocs].
    split; cbn; auto.
  - (* OSubmit *)
    cbn [step] in E.
    destruct (negb (decodable c)); [discriminate|].
    destruct (negb (validate_basic c)); [discriminate|].
    destruct (find_com s com) as [cm|]; [|discriminate].
    destruct (negb (mem_nat proposer (c_members cm))); [discriminate|].
    destruct (has_perms (c_perms cm) (params s) c) as [[|]|]; try discriminate.
    destruct (negb (validate_pub sls (height s) (params s) c)) eqn:Ev; [discriminate|].
    apply Bool.negb_false_iff in Ev.
    inversion E; subst. split; cbn [params props]; [exact Hd|].
    unfold props_known. apply Forall_app. split; [exact Hp|].
    constructor; [|constructor]. cbn [p_content]. eapply validate_pub_known; eauto.
  - (* OVote *)
    cbn in E. brk E. inversion E; subst. split; cbn; assumption.
  - (* OTransfer *)
    cbn [step] in E.
    destruct ((0 <? x) && (x <=? bal_of s a) && Nat.ltb a (List.length (bals s))
              && Nat.ltb b (List.length (bals s))); [|discriminate].
    inversion E; subst. split; cbn; assumption.
  - (* OSetCommittee *)
    cbn [step] in E. destruct (negb (committee_valid c)); [discriminate|].
    destruct (close_all_of s (c_id c)) as [s1 evs] eqn:Ec.
    destruct (close_all_frame _ _ _ _ Ec) as [E1 E2].
    inversion E; subst. split; cbn [params props set_coms].
    + rewrite E1. exact Hd.
    + eapply props_known_incl; eauto.
  - (* ODeleteCommittee *)
    cbn [step] in E.
    destruct (close_all_of s id) as [s1 evs] eqn:Ec.
    destruct (close_all_frame _ _ _ _ Ec) as [E1 E2].
    inversion E; subst. split; cbn [params props set_coms].
    + rewrite E1. exact Hd.
    + eapply props_known_incl; eauto.
  - (* OOracle *)
    cbn [step] in E. inversion E; subst. split; cbn [params props set_pv]; [exact Hd|].
    now apply props_known_oracle.
Qed.

Lemma committee_begin_ok sls s t : committee_Inv s -> now s <= t ->
  exists s' evs, step sls s (OBegin t) = Ok s' (OutClosed evs) /\ committee_Inv s'.
Proof.
  intros [Hd Hp] Ht. cbn [step].
  assert (Hlt : (t <? now s) = false) by (apply Z.ltb_ge; lia). rewrite Hlt.
  unfold process_proposals. cbn [props].
  set (s0 := mkState _ _ _ _ _ _ _ t _ _ _).
  destruct (process_all_ok sls (props s) s0 Hd Hp) as (s1 & evs & E & Hd1 & Hi). rewrite E.
  exists s1, evs. split; [reflexivity|]. split; [exact Hd1|].
  eapply props_known_incl; [exact Hi|exact Hp].
Qed.

Lemma committee_M_ok sls : module_ok (committee_M sls).
Proof.
  constructor; cbn [m_S m_B m_O m_bb m_tx m_eb m_Inv m_goodB m_goodT committee_M].
  - intros s t HI Ht. destruct (committee_begin_ok sls s t HI Ht) as (s' & evs & E & HI').
    exists s'. split; [rewrite E; reflexivity|exact HI'].
  - intros s o s' u HI _ E. eapply committee_tx_inv; eauto.
  - intros s b HI. exists s. split; [reflexivity|exact HI].
Qed.

(* the chain of this component never halts *)
Corollary committee_never_halts sls blks s :
  committee_Inv s -> good_blocks (committee_M sls) s blks ->
  exists s', run_blocksG (committee_M sls) s blks = Some s' /\ committee_Inv s'.
Proof. intros HI G. exact (module_never_halts _ (committee_M_ok sls) blks s HI G). Qed.

(** * Non-vacuity *)

Definition w_debt : jmap :=
  [("denom", JStr (SText "usdx")); ("reference_asset", JStr (SText ""));
   ("conversion_factor", JStr (SInt 6)); ("debt_floor", JStr (SInt 10000000))].
Definition w_debt_ac : allowed_change := mkAC (PKnown 2) ["debt_floor"] [].
Definition w_doc : json :=
  JObj [("denom", JStr (SText "usdx")); ("conversion_factor", JStr (SInt 6)); ("debt_floor", JStr (SInt 5))].

(* the witness of Properties/C17.v (C17_lifecycle_nonvacuous), run through the component: a
   first-past-the-post member committee; block at time 5: submit, one vote (1 of 3: not yet
   passing); block at time 10: the begin blocker leaves the proposal open, a second vote; block at
   time 20: the begin blocker enacts the stored proposal (debt_floor becomes 5) and closes it *)
Example committee_M_nonvacuous :
  let c := mkCom 1 CMember [0; 1; 2]%nat [PermParams [w_debt_ac]] 500000000000000000 100 FPTP in
  let s := mkState [JNull; JNull; enc_struct debt_schema w_debt] [c] [] [] 1 [0; 0; 0] 0 0 2 0 [0; 0; 0; 0] in
  let blks := [(5, [OSubmit 0 1 (CParam [(PKnown 2, Some w_doc)]); OVote 1 0 1]);
               (10, [OVote 1 1 1]);
               (20, [])] in
  committee_Inv s /\ good_blocks (committee_M std_slots) s blks /\
  run_blocksG (committee_M std_slots) s blks =
    Some (mkState [JNull; JNull; w_doc] [c] [] [] 2 [0; 0; 0] 0 20 5 0 [0; 0; 0; 0]).
Proof.
  cbv zeta. split; [|split].
  - split; [repeat constructor|constructor].
  - cbn [good_blocks fst snd m_goodB committee_M].
    split; [vm_compute; discriminate|]. split.
    { intros s1 _. cbn [good_txs]. repeat split. }
    intros s2 E2. vm_compute in E2. inversion E2; subst s2. clear E2.
    split; [vm_compute; discriminate|]. split.
    { intros s1 _. cbn [good_txs]. repeat split. }
    intros s3 E3. vm_compute in E3. inversion E3; subst s3. clear E3.
    split; [vm_compute; discriminate|]. split.
    { intros s1 _. exact I. }
    intros s4 _. exact I.
  - vm_compute. reflexivity.
Qed.

(* the delicate point: governance installs (OSetCommittee) a committee whose permission carries a
   sub-parameter rule for an UNREGISTERED key ([PNoKey]; Proofs.Committee.perms_ok fails, and
   committee_valid does not look at permissions).  The invariant of this instance holds all the
   same, a member's proposal on the registered parameter is stored, and the begin blocker enacts it *)
Example committee_M_unregistered_rule :
  let c := mkCom 1 CMember [0; 1; 2]%nat [PermParams [mkAC PNoKey ["x"] []; w_debt_ac]]
                 500000000000000000 100 FPTP in
  let s := mkState [JNull; JNull; enc_struct debt_schema w_debt] [] [] [] 1 [0; 0; 0] 0 0 2 0 [0; 0; 0; 0] in
  let blks := [(5, [OSetCommittee c; OSubmit 0 1 (CParam [(PKnown 2, Some w_doc)]); OVote 1 0 1; OVote 1 1 1]);
               (20, [])] in
  committee_Inv s /\
  ~ good (mkState [JNull; JNull; enc_struct debt_schema w_debt] [c] [] [] 1 [0; 0; 0] 0 5 3 0 [0; 0; 0; 0]) /\
  run_blocksG (committee_M std_slots) s blks =
    Some (mkState [JNull; JNull; w_doc] [c] [] [] 2 [0; 0; 0] 0 20 4 0 [0; 0; 0; 0]).
Proof.
  cbv zeta. split; [|split].
  - split; [repeat constructor|constructor].
  - intros [Hp _]. specialize (Hp _ (or_introl eq_refl)). vm_compute in Hp. discriminate.
  - vm_compute. reflexivity.
Qed.

Print Assumptions committee_M_ok.
Print Assumptions committee_never_halts.
