(* Proofs about Model/Vesting.v: the schedule merge of
   x/incentive/keeper/payout.go against the SDK's periodic vesting account. *)
From Kava Require Import Base.Prelude Model.Vesting.

(** * Well-formed periodic vesting accounts *)

Definition lens_pos (ps : list period) : Prop := Forall (fun p => 0 < fst p) ps.
Definition amts_nonneg (ps : list period) (d : nat) : Prop := Forall (fun p => 0 <= snd p d) ps.

(* what PeriodicVestingAccount.Validate requires (start < end follows from a
   non-empty list of positive lengths), plus positive period lengths (required
   by MsgCreatePeriodicVestingAccount.ValidateBasic and preserved by payout.go) *)
Record pva_wf (a : pva) : Prop := mkWf {
  wf_nonempty : p_periods a <> [];
  wf_pos : lens_pos (p_periods a);
  wf_len : total_len (p_periods a) = p_end a - p_start a;
  wf_amt : forall d, sum_amt (p_periods a) d = p_ov a d
}.

(** * The unlock list: a period's coins vest at the absolute time start + (sum of
      lengths up to and including it).  [vsum t cur ps d] = coins of denom d in
      periods whose absolute end is <= t, the first period starting at [cur]. *)
Fixpoint vsum (t cur : Z) (ps : list period) (d : nat) : Z :=
  match ps with
  | [] => 0
  | (l, a) :: r => (if cur + l <=? t then a d else 0) + vsum t (cur + l) r d
  end.

Lemma total_len_nonneg : forall ps, lens_pos ps -> 0 <= total_len ps.
Proof.
  induction ps as [|[l a] r IH]; intros H; cbn [total_len fst]; [lia|].
  inversion H as [|? ? Hl Hr]; subst. cbn [fst] in Hl. specialize (IH Hr). lia.
Qed.

Lemma total_len_pos : forall ps, lens_pos ps -> ps <> [] -> 0 < total_len ps.
Proof.
  intros [|[l a] r] H Hne; [congruence|].
  inversion H as [|? ? Hl Hr]; subst. cbn [fst] in Hl.
  pose proof (total_len_nonneg r Hr) as Hn. cbn [total_len fst]. lia.
Qed.

Lemma total_len_app : forall ps qs, total_len (ps ++ qs) = total_len ps + total_len qs.
Proof.
  induction ps as [|[l a] r IH]; intros qs; cbn [app total_len fst]; [lia|].
  specialize (IH qs). lia.
Qed.

Lemma sum_amt_app : forall ps qs d, sum_amt (ps ++ qs) d = sum_amt ps d + sum_amt qs d.
Proof.
  induction ps as [|[l a] r IH]; intros qs d; cbn [app sum_amt snd]; [lia|].
  specialize (IH qs d). lia.
Qed.

Lemma vsum_none : forall ps t cur d, lens_pos ps -> t <= cur -> vsum t cur ps d = 0.
Proof.
  induction ps as [|[l a] r IH]; intros t cur d H Hle; cbn [vsum]; [reflexivity|].
  inversion H as [|? ? Hl Hr]; subst. cbn [fst] in Hl.
  destruct (Z.leb_spec (cur + l) t); [lia|].
  rewrite IH; [lia|assumption|lia].
Qed.

Lemma vsum_all : forall ps t cur d, lens_pos ps -> cur + total_len ps <= t ->
  vsum t cur ps d = sum_amt ps d.
Proof.
  induction ps as [|[l a] r IH]; intros t cur d H Hle; cbn [vsum sum_amt snd]; [reflexivity|].
  inversion H as [|? ? Hl Hr]; subst. cbn [fst] in Hl.
  cbn [total_len fst] in Hle.
  pose proof (total_len_nonneg r Hr) as Hn.
  destruct (Z.leb_spec (cur + l) t); [|lia].
  rewrite IH; [reflexivity|assumption|lia].
Qed.

Lemma vested_loop_vsum : forall ps t cur d, lens_pos ps ->
  vested_loop (t - cur) ps d = vsum t cur ps d.
Proof.
  induction ps as [|[l a] r IH]; intros t cur d H; cbn [vested_loop vsum]; [reflexivity|].
  inversion H as [|? ? Hl Hr]; subst. cbn [fst] in Hl.
  destruct (Z.ltb_spec (t - cur) l) as [Hlt|Hge]; destruct (Z.leb_spec (cur + l) t) as [Hle|Hgt]; try lia.
  - rewrite vsum_none; [lia|assumption|lia].
  - replace (t - cur - l) with (t - (cur + l)) by lia. rewrite IH by assumption. reflexivity.
Qed.

(* the SDK's GetVestedCoins of a well-formed account is the unlock-list sum *)
Lemma get_vested_vsum : forall a t d, pva_wf a ->
  get_vested a t d = vsum t (p_start a) (p_periods a) d.
Proof.
  intros a t d [Hne Hpos Hlen Hamt]. unfold get_vested.
  destruct (Z.leb_spec t (p_start a)) as [H1|H1].
  - symmetry. apply vsum_none; assumption.
  - destruct (Z.leb_spec (p_end a) t) as [H2|H2].
    + rewrite vsum_all; [symmetry; apply Hamt|assumption|lia].
    + apply vested_loop_vsum; assumption.
Qed.

Lemma vsum_app : forall ps qs t cur d,
  vsum t cur (ps ++ qs) d = vsum t cur ps d + vsum t (cur + total_len ps) qs d.
Proof.
  induction ps as [|[l a] r IH]; intros qs t cur d; cbn [app vsum total_len fst].
  - replace (cur + 0) with cur by lia. lia.
  - rewrite IH. replace (cur + l + total_len r) with (cur + (l + total_len r)) by lia. lia.
Qed.

Lemma vsum_nonneg : forall ps t cur d, amts_nonneg ps d -> 0 <= vsum t cur ps d.
Proof.
  induction ps as [|[l a] r IH]; intros t cur d H; cbn [vsum]; [lia|].
  inversion H as [|? ? Ha Hr]; subst. cbn [snd] in Ha.
  specialize (IH t (cur + l) d Hr). destruct (cur + l <=? t); lia.
Qed.

Lemma vsum_le_sum : forall ps t cur d, amts_nonneg ps d -> vsum t cur ps d <= sum_amt ps d.
Proof.
  induction ps as [|[l a] r IH]; intros t cur d H; cbn [vsum sum_amt snd]; [lia|].
  inversion H as [|? ? Ha Hr]; subst. cbn [snd] in Ha.
  specialize (IH t (cur + l) d Hr). destruct (cur + l <=? t); lia.
Qed.

(** * The schedule merge *)

Lemma lens_pos_app : forall ps qs, lens_pos ps -> lens_pos qs -> lens_pos (ps ++ qs).
Proof. intros. apply Forall_app; split; assumption. Qed.

Lemma shift_first_vsum : forall ps t st now d, ps <> [] ->
  vsum t now (shift_first (st - now) ps) d = vsum t st ps d.
Proof.
  intros [|[l a] r] t st now d Hne; [congruence|]. cbn [shift_first vsum].
  replace (now + (l + (st - now))) with (st + l) by lia. reflexivity.
Qed.

Lemma shift_first_total : forall ps delta, ps <> [] ->
  total_len (shift_first delta ps) = total_len ps + delta.
Proof.
  intros [|[l a] r] delta Hne; [congruence|]. cbn [shift_first total_len fst]. lia.
Qed.

Lemma shift_first_sum : forall ps delta d, sum_amt (shift_first delta ps) d = sum_amt ps d.
Proof. intros [|[l a] r] delta d; reflexivity. Qed.

Lemma shift_first_pos : forall ps delta, 0 <= delta -> lens_pos ps -> lens_pos (shift_first delta ps).
Proof.
  intros [|[l a] r] delta Hd H; [constructor|]. cbn [shift_first].
  inversion H as [|? ? Hl Hr]; subst. cbn [fst] in Hl. constructor; [cbn [fst]; lia|assumption].
Qed.

Lemma shift_first_nonempty : forall ps delta, ps <> [] -> shift_first delta ps <> [].
Proof. intros [|[l a] r] delta H; [congruence|]. cbn [shift_first]. congruence. Qed.

Lemma shift_first_nonneg : forall ps delta d, amts_nonneg ps d -> amts_nonneg (shift_first delta ps) d.
Proof.
  intros [|[l a] r] delta d H; [constructor|]. cbn [shift_first].
  inversion H; subst. constructor; assumption.
Qed.

(* the insertion loop adds exactly one unlock event, at cur + (target - cnt) *)
Lemma insert_period_vsum : forall ps target c cnt t cur d,
  lens_pos ps -> cnt < target -> target <= cnt + total_len ps ->
  vsum t cur (insert_period target c cnt ps) d =
  vsum t cur ps d + (if cur + (target - cnt) <=? t then c d else 0).
Proof.
  induction ps as [|[l a] r IH]; intros target c cnt t cur d H Hlt Hle.
  - cbn [total_len] in Hle. lia.
  - inversion H as [|? ? Hl Hr]; subst. cbn [fst] in Hl.
    cbn [total_len fst] in Hle.
    cbn [insert_period]. cbv zeta.
    destruct (Z.ltb_spec (cnt + l) target) as [H1|H1].
    + cbn [vsum]. rewrite IH by (try assumption; lia).
      replace (cur + l + (target - (cnt + l))) with (cur + (target - cnt)) by lia. lia.
    + destruct (Z.eqb_spec (cnt + l) target) as [H2|H2].
      * cbn [vsum]. unfold aadd. replace (cur + (target - cnt)) with (cur + l) by lia.
        destruct (cur + l <=? t); lia.
      * cbn [vsum].
        replace (cur + (target - cnt) + (l - (target - cnt))) with (cur + l) by lia.
        destruct (cur + (target - cnt) <=? t); destruct (cur + l <=? t); lia.
Qed.

Lemma insert_period_total : forall ps target c cnt,
  total_len (insert_period target c cnt ps) = total_len ps.
Proof.
  induction ps as [|[l a] r IH]; intros target c cnt; [reflexivity|].
  cbn [insert_period]. cbv zeta.
  destruct (cnt + l <? target).
  - cbn [total_len fst]. specialize (IH target c (cnt + l)). lia.
  - destruct (cnt + l =? target); cbn [total_len fst]; lia.
Qed.

Lemma insert_period_sum : forall ps target c cnt d,
  cnt < target -> target <= cnt + total_len ps -> lens_pos ps ->
  sum_amt (insert_period target c cnt ps) d = sum_amt ps d + c d.
Proof.
  induction ps as [|[l a] r IH]; intros target c cnt d Hlt Hle H.
  - cbn [total_len] in Hle. lia.
  - inversion H as [|? ? Hl Hr]; subst. cbn [fst] in Hl.
    cbn [total_len fst] in Hle.
    cbn [insert_period]. cbv zeta.
    destruct (Z.ltb_spec (cnt + l) target) as [H1|H1].
    + cbn [sum_amt snd]. specialize (IH target c (cnt + l) d).
      rewrite IH by (try assumption; lia). lia.
    + destruct (cnt + l =? target); cbn [sum_amt snd]; unfold aadd; lia.
Qed.

Lemma insert_period_pos : forall ps target c cnt,
  cnt < target -> lens_pos ps -> lens_pos (insert_period target c cnt ps).
Proof.
  induction ps as [|[l a] r IH]; intros target c cnt Hlt H; [constructor|].
  inversion H as [|? ? Hl Hr]; subst. cbn [fst] in Hl.
  cbn [insert_period]. cbv zeta.
  destruct (Z.ltb_spec (cnt + l) target) as [H1|H1].
  - constructor; [cbn [fst]; lia|]. apply IH; [lia|assumption].
  - destruct (Z.eqb_spec (cnt + l) target) as [H2|H2].
    + constructor; [cbn [fst]; lia|assumption].
    + constructor; [cbn [fst]; lia|]. constructor; [cbn [fst]; lia|assumption].
Qed.

Lemma insert_period_nonempty : forall ps target c cnt, ps <> [] -> insert_period target c cnt ps <> [].
Proof.
  intros [|[l a] r] target c cnt H; [congruence|]. cbn [insert_period]. cbv zeta.
  destruct (cnt + l <? target); [congruence|]. destruct (cnt + l =? target); congruence.
Qed.

Lemma insert_period_nonneg : forall ps target c cnt d,
  0 <= c d -> amts_nonneg ps d -> amts_nonneg (insert_period target c cnt ps) d.
Proof.
  induction ps as [|[l a] r IH]; intros target c cnt d Hc H; [constructor|].
  inversion H as [|? ? Ha Hr]; subst. cbn [snd] in Ha.
  cbn [insert_period]. cbv zeta.
  destruct (cnt + l <? target).
  - constructor; [assumption|]. apply IH; assumption.
  - destruct (cnt + l =? target).
    + constructor; [cbn [snd]; unfold aadd; lia|assumption].
    + constructor; [assumption|]. constructor; assumption.
Qed.

(* unlock events after the merge = unlock events before + one at now + len *)
Lemma add_coins_vsum : forall a now len c t d, pva_wf a -> 0 < len ->
  let a' := add_coins now len c a in
  vsum t (p_start a') (p_periods a') d =
  vsum t (p_start a) (p_periods a) d + (if now + len <=? t then c d else 0).
Proof.
  intros a now len c t d [Hne Hpos Hlen Hamt] Hl. cbv zeta. unfold add_coins.
  destruct (Z.ltb_spec (p_end a) now) as [H1|H1].
  - cbn [p_start p_periods]. rewrite vsum_app. cbn [vsum].
    replace (p_start a + total_len (p_periods a) + (now - p_end a + len)) with (now + len) by lia. lia.
  - destruct (Z.ltb_spec now (p_start a)) as [H2|H2].
    + destruct (Z.ltb_spec (p_end a - now) len) as [H3|H3]; cbn [p_start p_periods].
      * rewrite vsum_app, shift_first_vsum, shift_first_total by assumption. cbn [vsum].
        replace (now + (total_len (p_periods a) + (p_start a - now)) + (len - (p_end a - now))) with (now + len) by lia. lia.
      * rewrite insert_period_vsum.
        -- rewrite shift_first_vsum by assumption. replace (now + (now - now + len - 0)) with (now + len) by lia. reflexivity.
        -- apply shift_first_pos; [lia|assumption].
        -- lia.
        -- rewrite shift_first_total by assumption. lia.
    + destruct (Z.ltb_spec (p_end a - now) len) as [H3|H3]; cbn [p_start p_periods].
      * rewrite vsum_app. cbn [vsum].
        replace (p_start a + total_len (p_periods a) + (len - (p_end a - now))) with (now + len) by lia. lia.
      * rewrite insert_period_vsum; [|assumption|lia|lia].
        replace (p_start a + (now - p_start a + len - 0)) with (now + len) by lia. reflexivity.
Qed.

(* the merge keeps the account well formed *)
Lemma add_coins_wf : forall a now len c, pva_wf a -> 0 < len -> pva_wf (add_coins now len c a).
Proof.
  intros a now len c [Hne Hpos Hlen Hamt] Hl. unfold add_coins.
  destruct (Z.ltb_spec (p_end a) now) as [H1|H1].
  - constructor; cbn [p_start p_end p_ov p_periods].
    + intros E. apply app_eq_nil in E. destruct E; congruence.
    + apply lens_pos_app; [assumption|]. constructor; [cbn [fst]; lia|constructor].
    + rewrite total_len_app. cbn [total_len fst]. lia.
    + intros d. rewrite sum_amt_app. cbn [sum_amt snd]. unfold aadd. rewrite <- Hamt. lia.
  - destruct (Z.ltb_spec now (p_start a)) as [H2|H2].
    + destruct (Z.ltb_spec (p_end a - now) len) as [H3|H3]; constructor; cbn [p_start p_end p_ov p_periods].
      * intros E. apply app_eq_nil in E. destruct E; congruence.
      * apply lens_pos_app; [apply shift_first_pos; [lia|assumption]|]. constructor; [cbn [fst]; lia|constructor].
      * rewrite total_len_app, shift_first_total by assumption. cbn [total_len fst]. lia.
      * intros d. rewrite sum_amt_app, shift_first_sum. cbn [sum_amt snd]. unfold aadd. rewrite <- Hamt. lia.
      * apply insert_period_nonempty, shift_first_nonempty; assumption.
      * apply insert_period_pos; [lia|apply shift_first_pos; [lia|assumption]].
      * rewrite insert_period_total, shift_first_total by assumption. lia.
      * intros d. rewrite insert_period_sum.
        -- rewrite shift_first_sum. unfold aadd. rewrite Hamt. reflexivity.
        -- lia.
        -- rewrite shift_first_total by assumption. lia.
        -- apply shift_first_pos; [lia|assumption].
    + destruct (Z.ltb_spec (p_end a - now) len) as [H3|H3]; constructor; cbn [p_start p_end p_ov p_periods].
      * intros E. apply app_eq_nil in E. destruct E; congruence.
      * apply lens_pos_app; [assumption|]. constructor; [cbn [fst]; lia|constructor].
      * rewrite total_len_app. cbn [total_len fst]. lia.
      * intros d. rewrite sum_amt_app. cbn [sum_amt snd]. unfold aadd. rewrite <- Hamt. lia.
      * apply insert_period_nonempty; assumption.
      * apply insert_period_pos; [lia|assumption].
      * rewrite insert_period_total. lia.
      * intros d. rewrite insert_period_sum; [|lia|lia|assumption]. unfold aadd. rewrite Hamt. reflexivity.
Qed.

Lemma add_coins_ov : forall a now len c d, p_ov (add_coins now len c a) d = p_ov a d + c d.
Proof.
  intros. unfold add_coins.
  destruct (p_end a <? now); [reflexivity|].
  destruct (p_end a - now <? len); reflexivity.
Qed.

Lemma add_coins_dv : forall a now len c, p_dv (add_coins now len c a) = p_dv a.
Proof.
  intros. unfold add_coins.
  destruct (p_end a <? now); [reflexivity|].
  destruct (p_end a - now <? len); reflexivity.
Qed.

Lemma add_coins_nonneg : forall a now len c d, 0 <= c d ->
  amts_nonneg (p_periods a) d -> amts_nonneg (p_periods (add_coins now len c a)) d.
Proof.
  intros a now len c d Hc H. unfold add_coins.
  destruct (p_end a <? now); cbn [p_periods].
  - apply Forall_app; split; [assumption|]. constructor; [assumption|constructor].
  - destruct (p_end a - now <? len); cbn [p_periods].
    + apply Forall_app; split; [|constructor; [assumption|constructor]].
      destruct (now <? p_start a); [apply shift_first_nonneg|]; assumption.
    + apply insert_period_nonneg; [assumption|].
      destruct (now <? p_start a); [apply shift_first_nonneg|]; assumption.
Qed.

(** ** unlock_exact: the new coins unlock exactly at now + len; every earlier
       unlock time is unchanged — for every period layout *)
Theorem unlock_exact : forall a now len c t d, pva_wf a -> 0 < len ->
  get_vesting (add_coins now len c a) t d =
  get_vesting a t d + (if t <? now + len then c d else 0).
Proof.
  intros a now len c t d Hwf Hl. unfold get_vesting.
  rewrite (get_vested_vsum _ t d (add_coins_wf a now len c Hwf Hl)).
  rewrite (get_vested_vsum a t d Hwf).
  pose proof (add_coins_vsum a now len c t d Hwf Hl) as E. cbv zeta in E. rewrite E.
  rewrite add_coins_ov.
  destruct (Z.leb_spec (now + len) t); destruct (Z.ltb_spec t (now + len)); lia.
Qed.

Lemma new_pva_wf : forall now len c, 0 < len -> pva_wf (new_pva now len c).
Proof.
  intros now len c Hl. constructor; cbn [new_pva p_start p_end p_ov p_periods].
  - congruence.
  - constructor; [cbn [fst]; lia|constructor].
  - cbn [total_len fst]. lia.
  - intros d. cbn [sum_amt snd]. lia.
Qed.

(* base account -> new periodic vesting account: everything is locked until now + len *)
Theorem new_pva_vesting : forall now len c t d, 0 < len ->
  get_vesting (new_pva now len c) t d = if t <? now + len then c d else 0.
Proof.
  intros now len c t d Hl. unfold get_vesting.
  rewrite (get_vested_vsum _ t d (new_pva_wf now len c Hl)).
  cbn [new_pva p_start p_end p_ov p_periods vsum].
  destruct (Z.leb_spec (now + len) t); destruct (Z.ltb_spec t (now + len)); lia.
Qed.

(* vested and vesting amounts of a well-formed account with non-negative period
   amounts stay within [0, OriginalVesting]: the Sub in GetVestingCoins cannot panic *)
Lemma vested_bounds : forall a t d, pva_wf a -> amts_nonneg (p_periods a) d ->
  0 <= get_vested a t d <= p_ov a d.
Proof.
  intros a t d Hwf Hnn. rewrite (get_vested_vsum a t d Hwf).
  pose proof (vsum_nonneg (p_periods a) t (p_start a) d Hnn).
  pose proof (vsum_le_sum (p_periods a) t (p_start a) d Hnn).
  rewrite <- (wf_amt a Hwf d). lia.
Qed.

Lemma vesting_nonneg : forall a t d, pva_wf a -> amts_nonneg (p_periods a) d ->
  0 <= get_vesting a t d <= p_ov a d.
Proof. intros a t d Hwf Hnn. pose proof (vested_bounds a t d Hwf Hnn). unfold get_vesting. lia. Qed.

(** ** locked_exact: the bank's LockedCoins, for accounts whose delegated
       vesting does not exceed what is still vesting at t *)
Theorem locked_exact : forall a now len c t d, pva_wf a -> 0 < len -> 0 <= c d ->
  p_dv a d <= get_vesting a t d ->
  pva_locked (add_coins now len c a) t d =
  pva_locked a t d + (if t <? now + len then c d else 0).
Proof.
  intros a now len c t d Hwf Hl Hc Hdv. unfold pva_locked, locked_from_vesting.
  rewrite unlock_exact by assumption. rewrite add_coins_dv.
  destruct (t <? now + len); lia.
Qed.

(* without that hypothesis: the lock on the new coins is reduced by the stale
   delegated-vesting excess, never increased *)
Theorem locked_general : forall a now len c t d, pva_wf a -> 0 < len -> 0 <= c d ->
  let x := if t <? now + len then c d else 0 in
  let excess := Z.max 0 (p_dv a d - get_vesting a t d) in
  pva_locked (add_coins now len c a) t d = pva_locked a t d + Z.max 0 (x - excess).
Proof.
  intros a now len c t d Hwf Hl Hc. cbv zeta. unfold pva_locked, locked_from_vesting.
  rewrite unlock_exact by assumption. rewrite add_coins_dv.
  destruct (t <? now + len); lia.
Qed.

Theorem new_pva_locked : forall now len c t d, 0 < len -> 0 <= c d ->
  pva_locked (new_pva now len c) t d = if t <? now + len then c d else 0.
Proof.
  intros now len c t d Hl Hc. unfold pva_locked, locked_from_vesting.
  rewrite new_pva_vesting by assumption. cbn [new_pva p_dv]. unfold azero.
  destruct (t <? now + len); lia.
Qed.

(** ** repeated claims on one account *)

(* a lock-up: (block time, length, coins) *)
Definition lockup := (Z * Z * amt)%type.
Definition apply_lockups (a : pva) (ls : list lockup) : pva :=
  fold_left (fun a l => add_coins (fst (fst l)) (snd (fst l)) (snd l) a) ls a.
Fixpoint still_locked (ls : list lockup) (t : Z) (d : nat) : Z :=
  match ls with
  | [] => 0
  | l :: r => (if t <? fst (fst l) + snd (fst l) then snd l d else 0) + still_locked r t d
  end.

Theorem repeated_claims : forall ls a t d, pva_wf a ->
  Forall (fun l => 0 < snd (fst l)) ls ->
  pva_wf (apply_lockups a ls) /\
  get_vesting (apply_lockups a ls) t d = get_vesting a t d + still_locked ls t d.
Proof.
  induction ls as [|[[now len] c] r IH]; intros a t d Hwf H.
  - cbn. split; [assumption|lia].
  - inversion H as [|? ? Hl Hr]; subst. cbn [fst snd] in Hl.
    unfold apply_lockups. cbn [fold_left fst snd].
    pose proof (add_coins_wf a now len c Hwf Hl) as Hwf'.
    destruct (IH (add_coins now len c a) t d Hwf' Hr) as [W E].
    unfold apply_lockups in W, E. split; [exact W|].
    rewrite E, unlock_exact by assumption. cbn [still_locked fst snd]. lia.
Qed.

(** * State level: SendTimeLockedCoinsToAccount over the abstract bank *)

Fixpoint total_of (d : nat) (c : coins) : Z :=
  match c with
  | [] => 0
  | (d', x) :: r => (if Nat.eqb d' d then x else 0) + total_of d r
  end.

Lemma valid_from_low : forall c p d, coins_valid_from (Some p) c = true -> (d <= p)%nat ->
  total_of d c = 0 /\ amount_of d c = 0.
Proof.
  induction c as [|[d0 x0] r IH]; intros p d H Hle; cbn [total_of amount_of]; [split; reflexivity|].
  cbn [coins_valid_from] in H. apply andb_prop in H. destruct H as [H H3].
  apply andb_prop in H. destruct H as [H1 H2]. apply Nat.ltb_lt in H2.
  destruct (IH d0 d H3 ltac:(lia)) as [E1 E2].
  destruct (Nat.eqb_spec d0 d); [lia|]. rewrite E1, E2. split; lia.
Qed.

Lemma valid_total_amount : forall c lo d, coins_valid_from lo c = true -> total_of d c = amount_of d c.
Proof.
  induction c as [|[d0 x0] r IH]; intros lo d H; cbn [total_of amount_of]; [reflexivity|].
  cbn [coins_valid_from] in H. apply andb_prop in H. destruct H as [H H3].
  destruct (Nat.eqb_spec d0 d) as [E|E].
  - subst. destruct (valid_from_low r d d H3 (Nat.le_refl d)) as [E1 _]. lia.
  - rewrite (IH (Some d0) d H3). lia.
Qed.

Lemma valid_amount_nonneg : forall c lo d, coins_valid_from lo c = true -> 0 <= amount_of d c.
Proof.
  induction c as [|[d0 x0] r IH]; intros lo d H; cbn [amount_of]; [lia|].
  cbn [coins_valid_from] in H. apply andb_prop in H. destruct H as [H H3].
  apply andb_prop in H. destruct H as [H1 H2]. apply Z.ltb_lt in H1.
  destruct (Nat.eqb d0 d); [lia|]. exact (IH (Some d0) d H3).
Qed.

Lemma valid_entries_pos : forall c lo d x, coins_valid_from lo c = true -> In (d, x) c -> 0 < x.
Proof.
  induction c as [|[d0 x0] r IH]; intros lo d x H Hin; [destruct Hin|].
  cbn [coins_valid_from] in H. apply andb_prop in H. destruct H as [H H3].
  apply andb_prop in H. destruct H as [H1 H2]. apply Z.ltb_lt in H1.
  destruct Hin as [E|Hin]; [inversion E; subst; assumption|]. exact (IH (Some d0) d x H3 Hin).
Qed.

Lemma locked_set_bal : forall s a d v x t y, locked (set_bal s a d v) x t y = locked s x t y.
Proof. reflexivity. Qed.

Lemma bsub_spec : forall c s t a s', bsub s t a c = Some s' ->
  kind s' = kind s /\
  forall x d, bal s' x d = bal s x d - (if Nat.eqb x a then total_of d c else 0).
Proof.
  induction c as [|[d0 x0] r IH]; intros s t a s' H; cbn [bsub] in H.
  - inversion H; subst. split; [reflexivity|]. intros x d. cbn [total_of]. destruct (Nat.eqb x a); lia.
  - destruct (bsub1 s t a d0 x0) as [s1|] eqn:E; [|discriminate].
    unfold bsub1 in E.
    destruct ((locked s a t d0 <=? bal s a d0) && (x0 <=? bal s a d0 - locked s a t d0)); [|discriminate].
    inversion E; subst. destruct (IH _ _ _ _ H) as [K B]. split; [rewrite K; reflexivity|].
    intros x d. rewrite B. cbn [bal set_bal total_of]. unfold upd2.
    destruct (Nat.eqb_spec x a), (Nat.eqb_spec d d0), (Nat.eqb_spec d0 d); subst; cbn [andb]; try congruence; lia.
Qed.

Lemma badd_spec : forall c s a,
  kind (badd s a c) = kind s /\
  forall x d, bal (badd s a c) x d = bal s x d + (if Nat.eqb x a then total_of d c else 0).
Proof.
  induction c as [|[d0 x0] r IH]; intros s a; cbn [badd].
  - split; [reflexivity|]. intros x d. cbn [total_of]. destruct (Nat.eqb x a); lia.
  - destruct (IH (set_bal s a d0 (bal s a d0 + x0)) a) as [K B]. split; [rewrite K; reflexivity|].
    intros x d. rewrite B. cbn [bal set_bal total_of]. unfold upd2.
    destruct (Nat.eqb_spec x a), (Nat.eqb_spec d d0), (Nat.eqb_spec d0 d); subst; cbn [andb]; try congruence; lia.
Qed.

(* a successful bank transfer moves exactly the coins, and only between the two parties *)
Lemma bsend_spec : forall s t f to c s', bsend s t f to c = Some s' ->
  coins_valid c = true /\ kind s' = kind s /\
  forall x d, bal s' x d = bal s x d - (if Nat.eqb x f then amount_of d c else 0)
                                    + (if Nat.eqb x to then amount_of d c else 0).
Proof.
  intros s t f to c s' H. unfold bsend in H.
  destruct (coins_valid c) eqn:V; cbn [negb] in H; [|discriminate].
  destruct (bsub s t f c) as [s1|] eqn:E; [|discriminate]. inversion H; subst.
  destruct (bsub_spec _ _ _ _ _ E) as [K1 B1]. destruct (badd_spec c s1 to) as [K2 B2].
  split; [reflexivity|]. split; [rewrite K2, K1; reflexivity|].
  intros x d. rewrite B2, B1. rewrite (valid_total_amount c None d V). reflexivity.
Qed.

Lemma m2a_spec : forall e s t r c s', m2a e s t r c = Some s' ->
  blocked e r = false /\ coins_valid c = true /\ kind s' = kind s /\
  forall x d, bal s' x d = bal s x d - (if Nat.eqb x (macc e) then amount_of d c else 0)
                                    + (if Nat.eqb x r then amount_of d c else 0).
Proof.
  intros e s t r c s' H. unfold m2a in H. destruct (blocked e r); [discriminate|].
  destruct (bsend_spec _ _ _ _ _ _ H) as [V [K B]]. repeat split; assumption.
Qed.

(* the vesting schedule of an account: what is still vesting at t (0 for non-vesting kinds) *)
Definition vesting_of (k : akind) (t : Z) (d : nat) : Z :=
  match k with KPeriodic p => get_vesting p t d | _ => 0 end.

Definition kind_ok (k : akind) : Prop :=
  match k with KPeriodic p => pva_wf p /\ (forall d, amts_nonneg (p_periods p) d) | _ => True end.

Definition Inv (e : env) (s : state) : Prop := forall a, (a < nacc e)%nat -> kind_ok (kind s a).

(* what a successful lock-up payout does *)
Theorem send_locked_spec : forall e s now r c len s',
  send_time_locked e s now r c len = Ok s' tt -> 0 < len -> kind_ok (kind s r) ->
  (kind s r = KBase \/ exists p, kind s r = KPeriodic p) /\
  blocked e r = false /\ coins_valid c = true /\
  (forall d x, In (d, x) c -> 0 < x <= bal s (macc e) d) /\
  (forall a d, bal s' a d = bal s a d - (if Nat.eqb a (macc e) then amount_of d c else 0)
                                     + (if Nat.eqb a r then amount_of d c else 0)) /\
  (forall a, a <> r -> kind s' a = kind s a) /\
  kind_ok (kind s' r) /\
  (exists p', kind s' r = KPeriodic p' /\
     p_dv p' = match kind s r with KPeriodic p => p_dv p | _ => azero end) /\
  (forall t d, vesting_of (kind s' r) t d =
               vesting_of (kind s r) t d + (if t <? now + len then amount_of d c else 0)).
Proof.
  intros e s now r c len s' H Hl Hok. unfold send_time_locked in H.
  destruct (coins_valid c) eqn:V; cbn [negb] in H; [|discriminate].
  destruct (macc_covers e s c) eqn:MC; cbn [negb] in H; [|discriminate].
  assert (Hcov : forall d x, In (d, x) c -> 0 < x <= bal s (macc e) d).
  { intros d x Hin. split; [exact (valid_entries_pos c None d x V Hin)|].
    unfold macc_covers in MC. rewrite forallb_forall in MC. specialize (MC (d, x) Hin).
    cbn [fst snd] in MC. apply Z.leb_le in MC. exact MC. }
  destruct (Z.eqb_spec len 0) as [E0|E0]; [lia|].
  destruct (kind s r) as [| |p| | |] eqn:K; try discriminate.
  - (* base account -> new periodic vesting account *)
    destruct (m2a e s now r c) as [s1|] eqn:M; [|discriminate]. inversion H; subst s'.
    destruct (m2a_spec _ _ _ _ _ _ M) as [Bk [_ [K1 B1]]].
    split; [left; reflexivity|]. split; [assumption|]. split; [reflexivity|]. split; [assumption|].
    split; [intros a d; cbn [bal set_kind]; apply B1|].
    split; [intros a Ha; cbn [kind set_kind]; unfold upd; destruct (Nat.eqb_spec a r); [congruence|]; rewrite K1; reflexivity|].
    cbn [kind set_kind]. unfold upd. rewrite Nat.eqb_refl.
    split; [split; [apply new_pva_wf; assumption|]|].
    { intros d. cbn [new_pva p_periods]. constructor; [|constructor]. cbn [snd]. unfold to_amt.
      exact (valid_amount_nonneg c None d V). }
    split; [eexists; split; [reflexivity|reflexivity]|].
    intros t d. cbn [vesting_of]. rewrite new_pva_vesting by assumption. unfold to_amt. lia.
  - (* periodic vesting account: schedule merge *)
    destruct (m2a e s now r c) as [s1|] eqn:M; [|discriminate]. inversion H; subst s'.
    destruct (m2a_spec _ _ _ _ _ _ M) as [Bk [_ [K1 B1]]].
    destruct Hok as [Hwf Hnn].
    split; [right; eexists; reflexivity|]. split; [assumption|]. split; [reflexivity|]. split; [assumption|].
    split; [intros a d; cbn [bal set_kind]; apply B1|].
    split; [intros a Ha; cbn [kind set_kind]; unfold upd; destruct (Nat.eqb_spec a r); [congruence|]; rewrite K1; reflexivity|].
    cbn [kind set_kind]. unfold upd. rewrite Nat.eqb_refl.
    split; [split; [apply add_coins_wf; assumption|]|].
    { intros d. apply add_coins_nonneg; [|apply Hnn]. unfold to_amt. exact (valid_amount_nonneg c None d V). }
    split; [eexists; split; [reflexivity|apply add_coins_dv]|].
    intros t d. cbn [vesting_of]. rewrite unlock_exact by assumption. unfold to_amt. reflexivity.
Qed.

(* the bank's LockedCoins and SpendableCoins of the recipient, before and after *)
Theorem send_locked_bank_view : forall e s now r c len s' t,
  send_time_locked e s now r c len = Ok s' tt -> 0 < len -> kind_ok (kind s r) ->
  (* delegated vesting does not exceed what is still vesting at t *)
  (forall d, match kind s r with KPeriodic p => p_dv p d <= get_vesting p t d | _ => True end) ->
  (forall d, locked s' r t d = locked s r t d + (if t <? now + len then amount_of d c else 0)) /\
  (* previously held coins stay spendable; the reward becomes spendable at now + len *)
  (solvent e s r t = true -> r <> macc e ->
   forall d, spendable e s' r t d = spendable e s r t d + (if now + len <=? t then amount_of d c else 0)).
Proof.
  intros e s now r c len s' t H Hl Hok Hdv.
  destruct (send_locked_spec _ _ _ _ _ _ _ H Hl Hok) as [Hk [_ [V [_ [B [_ [_ [[p' [K' DV']] HV]]]]]]]].
  assert (HL : forall d, locked s' r t d = locked s r t d + (if t <? now + len then amount_of d c else 0)).
  { intros d. specialize (HV t d). specialize (Hdv d).
    pose proof (valid_amount_nonneg c None d V) as Hc.
    unfold locked. rewrite K'. rewrite K' in HV. cbn [vesting_of] in HV.
    unfold pva_locked, locked_from_vesting. rewrite HV, DV'.
    destruct Hk as [Kb|[p Kp]].
    - rewrite Kb. cbn [vesting_of]. unfold azero. destruct (t <? now + len); lia.
    - rewrite Kp in *. cbn [vesting_of]. destruct (t <? now + len); lia. }
  split; [exact HL|].
  intros Hs Hne d.
  assert (Hs' : solvent e s' r t = true).
  { unfold solvent in *. rewrite forallb_forall in *. intros d0 Hin. specialize (Hs d0 Hin).
    apply Z.leb_le in Hs. apply Z.leb_le. rewrite HL, B.
    destruct (Nat.eqb_spec r (macc e)); [congruence|]. rewrite Nat.eqb_refl.
    pose proof (valid_amount_nonneg c None d0 V). destruct (t <? now + len); lia. }
  unfold spendable. rewrite Hs, Hs', HL, B.
  destruct (Nat.eqb_spec r (macc e)); [congruence|]. rewrite Nat.eqb_refl.
  destruct (Z.ltb_spec t (now + len)); destruct (Z.leb_spec (now + len) t); lia.
Qed.

(** ** refusals *)

Theorem refused_kinds : forall e s now r c len, len <> 0 ->
  (kind s r = KModule \/ kind s r = KContinuous \/ kind s r = KOther \/ kind s r = KNone) ->
  send_time_locked e s now r c len = Err.
Proof.
  intros e s now r c len Hl Hk. unfold send_time_locked.
  destruct (coins_valid c); cbn [negb]; [|reflexivity].
  destruct (macc_covers e s c); cbn [negb]; [|reflexivity].
  destruct (Z.eqb_spec len 0); [contradiction|].
  destruct Hk as [K|[K|[K|K]]]; rewrite K; reflexivity.
Qed.

Theorem refused_missing_account : forall e s now r c len,
  kind s r = KNone -> send_time_locked e s now r c len = Err.
Proof.
  intros e s now r c len K. unfold send_time_locked.
  destruct (coins_valid c); cbn [negb]; [|reflexivity].
  destruct (macc_covers e s c); cbn [negb]; [|reflexivity].
  rewrite K. reflexivity.
Qed.

Theorem refused_insufficient : forall e s now r c len d x,
  In (d, x) c -> bal s (macc e) d < x -> send_time_locked e s now r c len = Err.
Proof.
  intros e s now r c len d x Hin Hlt. unfold send_time_locked.
  destruct (coins_valid c); cbn [negb]; [|reflexivity].
  destruct (macc_covers e s c) eqn:MC; cbn [negb]; [|reflexivity].
  unfold macc_covers in MC. rewrite forallb_forall in MC. specialize (MC (d, x) Hin).
  cbn [fst snd] in MC. apply Z.leb_le in MC. lia.
Qed.

Theorem refused_invalid_coins : forall e s now r c len,
  coins_valid c = false -> send_time_locked e s now r c len = Err.
Proof. intros e s now r c len V. unfold send_time_locked. rewrite V. reflexivity. Qed.

Theorem refused_blocked : forall e s now r c len,
  blocked e r = true -> send_time_locked e s now r c len <> Panic /\
  forall s' u, send_time_locked e s now r c len <> Ok s' u.
Proof.
  intros e s now r c len Bk. unfold send_time_locked, m2a. rewrite Bk.
  destruct (coins_valid c); cbn [negb]; [|split; [discriminate|intros; discriminate]].
  destruct (macc_covers e s c); cbn [negb]; [|split; [discriminate|intros; discriminate]].
  destruct (kind s r); destruct (len =? 0); split; try discriminate; intros; discriminate.
Qed.

Theorem failed_changes_nothing : forall e s o,
  (forall s' u, step e s o <> Ok s' u) -> step' e s o = s.
Proof.
  intros e s o H. unfold step'. destruct (step e s o) as [s' u| |] eqn:E; auto.
  exfalso. exact (H s' u eq_refl).
Qed.

(** ** plain transfers and spends do not touch any schedule *)

Lemma send_zero_kind : forall e s now r c s',
  send_time_locked e s now r c 0 = Ok s' tt -> kind s' = kind s.
Proof.
  intros e s now r c s' H. unfold send_time_locked in H.
  destruct (coins_valid c); cbn [negb] in H; [|discriminate].
  destruct (macc_covers e s c); cbn [negb] in H; [|discriminate].
  destruct (kind s r); try discriminate; cbn [Z.eqb] in H;
    (destruct (m2a e s now r c) as [s1|] eqn:M; [|discriminate]); inversion H; subst;
    destruct (m2a_spec _ _ _ _ _ _ M) as [_ [_ [K _]]]; exact K.
Qed.

(** ** all histories: every schedule stays well formed *)

Lemma send_inv : forall e s now r c len s', Inv e s -> (r < nacc e)%nat -> 0 <= len ->
  send_time_locked e s now r c len = Ok s' tt -> Inv e s'.
Proof.
  intros e s now r c len s' HI Hr Hl H.
  destruct (Z.eqb_spec len 0) as [E|E].
  - subst. unfold Inv. rewrite (send_zero_kind _ _ _ _ _ _ H). exact HI.
  - assert (Hl' : 0 < len) by lia.
    destruct (send_locked_spec _ _ _ _ _ _ _ H Hl' (HI r Hr)) as [_ [_ [_ [_ [_ [Ko [Kr _]]]]]]].
    intros a Ha. destruct (Nat.eq_dec a r) as [->|Hne]; [exact Kr|]. rewrite (Ko a Hne). exact (HI a Ha).
Qed.

Lemma step_inv : forall e s o s' u, Inv e s -> op_ok o = true -> step e s o = Ok s' u -> Inv e s'.
Proof.
  intros e s o s' u HI Hok H. destruct u. destruct o as [now r c len|now r c months|now a c|now months]; cbn [step] in H.
  - destruct (in_range e r) eqn:R; [|discriminate]. apply Nat.ltb_lt in R.
    unfold op_ok, op_len in Hok. apply Z.leb_le in Hok. exact (send_inv _ _ _ _ _ _ _ HI R Hok H).
  - destruct (in_range e r) eqn:R; cbn [negb] in H; [|discriminate]. apply Nat.ltb_lt in R.
    unfold op_ok, op_len in Hok.
    destruct (get_period_length now months) as [len|]; [|discriminate].
    apply Z.leb_le in Hok. exact (send_inv _ _ _ _ _ _ _ HI R Hok H).
  - destruct (in_range e a); cbn [negb] in H; [|discriminate].
    assert (forall s1, bsend s now a (sink e) c = Some s1 -> Inv e s1) as Hb.
    { intros s1 Hs. destruct (bsend_spec _ _ _ _ _ _ Hs) as [_ [K _]]. unfold Inv. rewrite K. exact HI. }
    destruct (kind s a); try discriminate;
      (destruct (bsend s now a (sink e) c) as [s1|] eqn:Hs; [|discriminate]); inversion H; subst; exact (Hb _ eq_refl).
  - destruct (get_period_length now months); [|discriminate]. inversion H; subst. exact HI.
Qed.

Theorem run_inv : forall e ops s, Inv e s -> forallb op_ok ops = true -> Inv e (run e s ops).
Proof.
  intros e ops. induction ops as [|o r IH]; intros s HI Hok; [exact HI|].
  cbn [forallb] in Hok. apply andb_prop in Hok. destruct Hok as [H1 H2].
  unfold run. cbn [fold_left]. apply IH; [|exact H2].
  unfold step'. destruct (step e s o) as [s' u| |] eqn:E; [|exact HI|exact HI].
  exact (step_inv _ _ _ _ _ HI H1 E).
Qed.

(* the boolean invariant evaluated during the correspondence run implies [Inv] *)
Lemma pva_wf_b_sound : forall n p, pva_wf_b n p = true ->
  p_periods p <> [] /\ lens_pos (p_periods p) /\ total_len (p_periods p) = p_end p - p_start p /\
  forall d, (d < n)%nat -> sum_amt (p_periods p) d = p_ov p d /\ amts_nonneg (p_periods p) d.
Proof.
  intros n p H. unfold pva_wf_b in H.
  apply andb_prop in H. destruct H as [H H4]. apply andb_prop in H. destruct H as [H H3].
  apply andb_prop in H. destruct H as [H1 H2].
  split; [destruct (p_periods p); [discriminate|congruence]|].
  split; [apply Forall_forall; intros q Hq; rewrite forallb_forall in H2; apply Z.ltb_lt; exact (H2 q Hq)|].
  split; [apply Z.eqb_eq; exact H3|].
  intros d Hd. rewrite forallb_forall in H4. specialize (H4 d ltac:(apply in_seq; lia)).
  apply andb_prop in H4. destruct H4 as [H4 _]. apply andb_prop in H4. destruct H4 as [Ha Hb].
  split; [apply Z.eqb_eq; exact Ha|].
  apply Forall_forall. intros q Hq. rewrite forallb_forall in Hb. apply Z.leb_le. exact (Hb q Hq).
Qed.
(** * The payday rule (GetPeriodLength) *)
Section Calendar.
#[local] Ltac Zify.zify_post_hook ::= Z.div_mod_to_equations.

(* civil_from_days is a right inverse of days_from_civil, and yields a month in
   1..12 and a day in 1..31 — for every day number *)
Lemma civil_roundtrip : forall z y m d, civil_from_days z = (y, m, d) ->
  days_from_civil y m d = z /\ 1 <= m <= 12 /\ 1 <= d <= 31.
Proof.
  intros z y m d H. unfold civil_from_days in H. cbv zeta in H.
  set (z' := z + 719468) in *.
  set (era := z' / 146097) in *.
  set (doe := z' - era * 146097) in *.
  set (yoe := (doe - doe / 1460 + doe / 36524 - doe / 146096) / 365) in *.
  set (doy := doe - (365 * yoe + yoe / 4 - yoe / 100)) in *.
  set (mp := (5 * doy + 2) / 153) in *.
  assert (Hdoe : 0 <= doe < 146097) by (subst doe era; lia).
  assert (Hyoe : 0 <= yoe <= 399) by (subst yoe; lia).
  assert (Hdoy : 0 <= doy <= 365) by (subst doy yoe; lia).
  assert (Hmp : 0 <= mp <= 11) by (subst mp; lia).
  destruct (Z.ltb_spec mp 10) as [Hm|Hm];
    pose proof (f_equal (fun p => fst (fst p)) H) as Hy; pose proof (f_equal (fun p => snd (fst p)) H) as Hmm;
    pose proof (f_equal snd H) as Hd; cbn [fst snd] in Hy, Hmm, Hd; clear H; subst y m d.
  - destruct (Z.leb_spec (mp + 3) 2); [lia|].
    unfold days_from_civil. cbv zeta.
    destruct (Z.leb_spec (mp + 3) 2); [lia|]. destruct (Z.ltb_spec 2 (mp + 3)); [|lia].
    replace (mp + 3 - 3) with mp by lia.
    assert (E1 : (yoe + era * 400) / 400 = era) by lia. rewrite E1.
    replace (yoe + era * 400 - era * 400) with yoe by lia.
    split; [|split; [lia|]].
    + subst doy. lia.
    + subst mp. lia.
  - destruct (Z.leb_spec (mp - 9) 2); [|lia].
    unfold days_from_civil. cbv zeta.
    destruct (Z.leb_spec (mp - 9) 2); [|lia]. destruct (Z.ltb_spec 2 (mp - 9)); [lia|].
    replace (mp - 9 + 9) with mp by lia.
    replace (yoe + era * 400 + 1 - 1) with (yoe + era * 400) by lia.
    assert (E1 : (yoe + era * 400) / 400 = era) by lia. rewrite E1.
    replace (yoe + era * 400 - era * 400) with yoe by lia.
    split; [|split; [lia|]].
    + subst doy. lia.
    + subst mp. lia.
Qed.

Lemma some_eq : forall (a b : Z), Some a = Some b -> a = b.
Proof. intros a b H. congruence. Qed.

Lemma dfc_day : forall y m d, days_from_civil y m d = days_from_civil y m 1 + (d - 1).
Proof. intros. unfold days_from_civil. cbv zeta. lia. Qed.

Ltac dfc_lia := unfold days_from_civil; cbv zeta; cbn -[Z.div Z.mul Z.add Z.sub]; lia.

(* first day of month number mi (months counted from year 0: mi = 12*year + month - 1) *)
Definition month_start (mi : Z) : Z := days_from_civil (mi / 12) (mi mod 12 + 1) 1.

Lemma month_start_step : forall mi, 28 <= month_start (mi + 1) - month_start mi <= 31.
Proof.
  intros mi. unfold month_start.
  assert (mi mod 12 = 0 \/ mi mod 12 = 1 \/ mi mod 12 = 2 \/ mi mod 12 = 3 \/ mi mod 12 = 4 \/ mi mod 12 = 5 \/
          mi mod 12 = 6 \/ mi mod 12 = 7 \/ mi mod 12 = 8 \/ mi mod 12 = 9 \/ mi mod 12 = 10 \/ mi mod 12 = 11) as C by lia.
  destruct C as [C|[C|[C|[C|[C|[C|[C|[C|[C|[C|[C|C]]]]]]]]]]].
  all: try (match type of C with _ = ?j =>
              let a := eval vm_compute in (j + 1) in
              let b := eval vm_compute in (j + 2) in
              assert (E1 : (mi + 1) / 12 = mi / 12) by lia;
              assert (E2 : (mi + 1) mod 12 + 1 = b) by lia;
              assert (E3 : mi mod 12 + 1 = a) by lia;
              rewrite E1, E2, E3; generalize (mi / 12); intros y; dfc_lia
            end).
  assert (E1 : (mi + 1) / 12 = mi / 12 + 1) by lia.
  assert (E2 : (mi + 1) mod 12 + 1 = 1) by lia.
  assert (E3 : mi mod 12 + 1 = 12) by lia. rewrite E1, E2, E3.
  generalize (mi / 12); intros y; dfc_lia.
Qed.

Lemma month_start_mono : forall k mi, 0 <= k -> month_start mi + 28 * k <= month_start (mi + k).
Proof.
  intros k mi Hk. revert mi. pattern k. apply natlike_ind; [| |exact Hk].
  - intros mi. replace (mi + 0) with mi by lia. lia.
  - intros x Hx IH mi. specialize (IH mi). pose proof (month_start_step (mi + x)) as S.
    replace (mi + Z.succ x) with (mi + x + 1) by lia. lia.
Qed.

(* a lock-up of at least one month is strictly positive, for every block time *)
Theorem period_length_pos : forall now months len, 1 <= months ->
  get_period_length now months = Some len -> 28 * 86400 * (months - 1) < len.
Proof.
  intros now months len Hm H. unfold get_period_length in H.
  destruct (Z.ltb_spec months 0); [lia|]. destruct (Z.eqb_spec months 0); [lia|].
  destruct (civil_from_days (now / DAY)) as [[y m] d] eqn:C.
  destruct (civil_roundtrip _ _ _ _ C) as [R [Hmr Hdr]].
  unfold DAY, PAY_SECS in *.
  set (days := now / 86400) in *. set (sod := now mod 86400) in *.
  assert (Hnow : now = days * 86400 + sod /\ 0 <= sod < 86400) by (subst days sod; lia).
  rewrite dfc_day in R.
  assert (M0 : month_start (12 * y + (m - 1)) = days_from_civil y m 1).
  { unfold month_start. assert ((12 * y + (m - 1)) / 12 = y) as -> by lia.
    assert ((12 * y + (m - 1)) mod 12 + 1 = m) as -> by lia. reflexivity. }
  destruct ((d <? 15) || ((d =? 15) && (sod / 3600 <? 14))) eqn:E; apply some_eq in H; subst len.
  - fold (month_start (12 * y + (m - 1) + months + 0)).
    rewrite dfc_day. fold (month_start (12 * y + (m - 1) + months + 0)).
    replace (12 * y + (m - 1) + months + 0) with (12 * y + (m - 1) + months) by lia.
    pose proof (month_start_mono months (12 * y + (m - 1)) ltac:(lia)) as Mo.
    assert (d <= 15) by (destruct (Z.ltb_spec d 15); [lia|]; destruct (Z.eqb_spec d 15); [lia|discriminate]).
    lia.
  - rewrite dfc_day. fold (month_start (12 * y + (m - 1) + months + 1)).
    pose proof (month_start_mono (months + 1) (12 * y + (m - 1)) ltac:(lia)) as Mo.
    replace (12 * y + (m - 1) + (months + 1)) with (12 * y + (m - 1) + months + 1) in Mo by lia.
    lia.
Qed.

Theorem period_length_zero : forall now, get_period_length now 0 = Some 0.
Proof. reflexivity. Qed.

Theorem period_length_nonneg : forall now months len,
  get_period_length now months = Some len -> 0 <= len.
Proof.
  intros now months len H. destruct (Z.eq_dec months 0) as [->|Hne].
  - rewrite period_length_zero in H. inversion H. lia.
  - assert (0 <= months).
    { unfold get_period_length in H. destruct (Z.ltb_spec months 0); [discriminate|lia]. }
    pose proof (period_length_pos now months len ltac:(lia) H). lia.
Qed.

(* the lock-up ends at 14:00:00 UTC *)
Theorem period_end_hour : forall now months len, months <> 0 ->
  get_period_length now months = Some len -> (now + len) mod 86400 = 14 * 3600.
Proof.
  intros now months len Hm H. unfold get_period_length in H.
  destruct (months <? 0); [discriminate|]. destruct (Z.eqb_spec months 0); [contradiction|].
  destruct (civil_from_days (now / DAY)) as [[y m] d].
  apply some_eq in H; subst len. unfold DAY, PAY_SECS.
  match goal with |- (now + (?a * 86400 + 14 * 3600 - now)) mod 86400 = _ => generalize a; intros a' end.
  lia.
Qed.

Lemma cfd_of_parts : forall era yoe doy0, 0 <= yoe <= 399 -> 0 <= doy0 <= 364 ->
  civil_from_days (era * 146097 + (yoe * 365 + yoe / 4 - yoe / 100 + doy0) - 719468) =
  (let mp := (5 * doy0 + 2) / 153 in
   let m := if mp <? 10 then mp + 3 else mp - 9 in
   (if m <=? 2 then yoe + era * 400 + 1 else yoe + era * 400, m, doy0 - (153 * mp + 2) / 5 + 1)).
Proof.
  intros era yoe doy0 Hy Hd. unfold civil_from_days. cbv zeta.
  set (doe := yoe * 365 + yoe / 4 - yoe / 100 + doy0).
  replace (era * 146097 + doe - 719468 + 719468) with (era * 146097 + doe) by lia.
  assert (Hdoe : 0 <= doe < 146097) by (subst doe; lia).
  assert (E1 : (era * 146097 + doe) / 146097 = era) by lia. rewrite E1.
  replace (era * 146097 + doe - era * 146097) with doe by lia.
  assert (E2 : (doe - doe / 1460 + doe / 36524 - doe / 146096) / 365 = yoe) by (subst doe; lia).
  rewrite E2.
  replace (doe - (365 * yoe + yoe / 4 - yoe / 100)) with doy0 by (subst doe; lia).
  reflexivity.
Qed.

(* the 1st and the 15th of every month are mapped back to themselves *)
Lemma civil_of_payday : forall y m d, 1 <= m <= 12 -> d = 1 \/ d = 15 ->
  civil_from_days (days_from_civil y m d) = (y, m, d).
Proof.
  intros y m d Hm Hd.
  assert (m = 1 \/ m = 2 \/ m = 3 \/ m = 4 \/ m = 5 \/ m = 6 \/ m = 7 \/ m = 8 \/ m = 9 \/ m = 10 \/ m = 11 \/ m = 12) as C by lia.
  destruct C as [C|[C|[C|[C|[C|[C|[C|[C|[C|[C|[C|C]]]]]]]]]]]; destruct Hd as [D|D]; subst m d;
    unfold days_from_civil; cbv zeta; cbn -[Z.div Z.mul Z.add Z.sub civil_from_days];
    (rewrite cfd_of_parts; [|lia|cbn; lia]); cbv zeta;
    repeat (match goal with |- context [if ?c then _ else _] =>
              let v := eval vm_compute in c in change c with v; cbv iota end);
    repeat f_equal; lia.
Qed.

(* the lock-up ends on a payday: at 14:00:00 UTC on the 15th of the month that is
   [months] months ahead when claimed before the 15th 14:00, otherwise on the 1st
   of the month after that *)
Theorem period_end_payday : forall now months len y m d, months <> 0 ->
  get_period_length now months = Some len ->
  civil_from_days (now / 86400) = (y, m, d) ->
  let early := (d <? 15) || ((d =? 15) && ((now mod 86400) / 3600 <? 14)) in
  let mi := 12 * y + (m - 1) + months + (if early then 0 else 1) in
  (now + len) mod 86400 = 14 * 3600 /\
  civil_from_days ((now + len) / 86400) = (mi / 12, mi mod 12 + 1, if early then 15 else 1).
Proof.
  intros now months len y m d Hm H C. cbv zeta.
  split; [exact (period_end_hour now months len Hm H)|].
  unfold get_period_length in H.
  destruct (months <? 0); [discriminate|]. destruct (Z.eqb_spec months 0); [contradiction|].
  unfold DAY, PAY_SECS in H. rewrite C in H.
  destruct ((d <? 15) || ((d =? 15) && (now mod 86400 / 3600 <? 14))); apply some_eq in H; subst len.
  - set (mi := 12 * y + (m - 1) + months + 0).
    set (T := days_from_civil (mi / 12) (mi mod 12 + 1) 15).
    assert (E : (now + (T * 86400 + 14 * 3600 - now)) / 86400 = T) by lia. rewrite E.
    apply civil_of_payday; [lia|right; reflexivity].
  - set (mi := 12 * y + (m - 1) + months + 1).
    set (T := days_from_civil (mi / 12) (mi mod 12 + 1) 1).
    assert (E : (now + (T * 86400 + 14 * 3600 - now)) / 86400 = T) by lia. rewrite E.
    apply civil_of_payday; [lia|left; reflexivity].
Qed.
End Calendar.

(* every claim uses a non-negative lock-up length: the guard of [run_inv] holds for claims *)
Lemma claim_op_ok : forall now r c months, op_ok (Claim now r c months) = true.
Proof.
  intros now r c months. unfold op_ok, op_len.
  destruct (get_period_length now months) as [len|] eqn:E; [|reflexivity].
  apply Z.leb_le. exact (period_length_nonneg now months len E).
Qed.

(** * The bank refuses to move locked coins (modelled x/bank) *)

Lemma total_of_nonneg : forall c d, (forall d' x, In (d', x) c -> 0 < x) -> 0 <= total_of d c.
Proof.
  induction c as [|[d0 x0] r IH]; intros d Hp; cbn [total_of]; [lia|].
  pose proof (Hp d0 x0 (or_introl eq_refl)).
  specialize (IH d (fun d' x Hin => Hp d' x (or_intror Hin))).
  destruct (Nat.eqb d0 d); lia.
Qed.

Lemma bsub_within : forall c s t a s', (forall d x, In (d, x) c -> 0 < x) ->
  bsub s t a c = Some s' ->
  forall d, 0 < total_of d c -> total_of d c <= bal s a d - locked s a t d.
Proof.
  induction c as [|[d0 x0] r IH]; intros s t a s' Hp H d Hd; cbn [total_of] in *; [lia|].
  cbn [bsub] in H. destruct (bsub1 s t a d0 x0) as [s1|] eqn:E; [|discriminate].
  unfold bsub1 in E.
  destruct ((locked s a t d0 <=? bal s a d0) && (x0 <=? bal s a d0 - locked s a t d0)) eqn:G; [|discriminate].
  apply andb_prop in G. destruct G as [G1 G2]. apply Z.leb_le in G1. apply Z.leb_le in G2.
  inversion E; subst s1; clear E.
  assert (Hp' : forall d' x, In (d', x) r -> 0 < x) by (intros d' x Hin; exact (Hp d' x (or_intror Hin))).
  pose proof (total_of_nonneg r d Hp') as Hn.
  specialize (IH _ _ _ _ Hp' H d).
  rewrite locked_set_bal in IH. cbn [bal set_bal] in IH. unfold upd2 in IH. rewrite Nat.eqb_refl in IH. cbn [andb] in IH.
  destruct (Nat.eqb_spec d0 d) as [->|Hne].
  - rewrite Nat.eqb_refl in IH. destruct (Z.eq_dec (total_of d r) 0); lia.
  - destruct (Nat.eqb_spec d d0); [congruence|]. apply IH. lia.
Qed.

(* a transfer by an account goes through only within balance minus LockedCoins at the
   block time: together with unlock_exact, the reward cannot be spent before now + len *)
Theorem spend_within_unlocked : forall e s now a c s',
  step e s (Spend now a c) = Ok s' tt ->
  forall d, 0 < amount_of d c -> amount_of d c <= bal s a d - locked s a now d.
Proof.
  intros e s now a c s' H d Hd. cbn [step] in H.
  destruct (in_range e a); cbn [negb] in H; [|discriminate].
  assert (forall s1, bsend s now a (sink e) c = Some s1 -> amount_of d c <= bal s a d - locked s a now d) as Hb.
  { intros s1 Hs. unfold bsend in Hs. destruct (coins_valid c) eqn:V; cbn [negb] in Hs; [|discriminate].
    destruct (bsub s now a c) as [s2|] eqn:B; [|discriminate].
    rewrite <- (valid_total_amount c None d V) in *.
    exact (bsub_within c s now a s2 (fun d' x Hin => valid_entries_pos c None d' x V Hin) B d Hd). }
  destruct (kind s a); try discriminate;
    (destruct (bsend s now a (sink e) c) as [s1|] eqn:Hs; [|discriminate]); exact (Hb _ eq_refl).
Qed.
