(* Proofs about Model/Vesting.v: the schedule merge of
   x/incentive/keeper/payout.go against the SDK's periodic vesting account. *)
From Kava Require Import Base.Prelude Model.Vesting.

(** * Well-formed periodic vesting accounts *)

Definition lens_pos (ps : list period) : Prop := Forall (fun p => 0 < fst p) ps.
Definition amts_nonneg (ps : list period) (d : nat) : Prop := Forall (fun p => 0 <= snd p d) ps.

(* what PeriodicVestingAccount.Validate requires (start < end follows from a
   non-empty list of positive lengths), plus positive period lengths (required
   by MsgCreatePeriodicVestingAccount.ValidateBasic and preserved by payout.go) *)
Record pva_wf (a : pva) : Prop := mkWf {
  wf_nonempty : p_periods a <> [];
  wf_pos : lens_pos (p_periods a);
  wf_len : total_len (p_periods a) = p_end a - p_start a;
  wf_amt : forall d, sum_amt (p_periods a) d = p_ov a d
}.

(** * The unlock list: a period's coins vest at the absolute time start + (sum of
      lengths up to and including it).  [vsum t cur ps d] = coins of denom d in
      periods whose absolute end is <= t, the first period starting at [cur]. *)
Fixpoint vsum (t cur : Z) (ps : list period) (d : nat) : Z :=
  match ps with
  | [] => 0
  | (l, a) :: r => (if cur + l <=? t then a d else 0) + vsum t (cur + l) r d
  end.

Lemma total_len_nonneg : forall ps, lens_pos ps -> 0 <= total_len ps.
Proof.
  induction ps as [|[l a] r IH]; intros H; cbn [total_len fst]; [lia|].
  inversion H as [|? ? Hl Hr]; subst. cbn [fst] in Hl. specialize (IH Hr). lia.
Qed.

Lemma total_len_pos : forall ps, lens_pos ps -> ps <> [] -> 0 < total_len ps.
Proof.
  intros [|[l a] r] H Hne; [congruence|].
  inversion H as [|? ? Hl Hr]; subst. cbn [fst] in Hl.
  pose proof (total_len_nonneg r Hr) as Hn. cbn [total_len fst]. lia.
Qed.

Lemma total_len_app : forall ps qs, total_len (ps ++ qs) = total_len ps + total_len qs.
Proof.
  induction ps as [|[l a] r IH]; intros qs; cbn [app total_len fst]; [lia|].
  specialize (IH qs). lia.
Qed.

Lemma sum_amt_app : forall ps qs d, sum_amt (ps ++ qs) d = sum_amt ps d + sum_amt qs d.
Proof.
  induction ps as [|[l a] r IH]; intros qs d; cbn [app sum_amt snd]; [lia|].
  specialize (IH qs d). lia.
Qed.

Lemma vsum_none : forall ps t cur d, lens_pos ps -> t <= cur -> vsum t cur ps d = 0.
Proof.
  induction ps as [|[l a] r IH]; intros t cur d H Hle; cbn [vsum]; [reflexivity|].
  inversion H as [|? ? Hl Hr]; subst. cbn [fst] in Hl.
  destruct (Z.leb_spec (cur + l) t); [lia|].
  rewrite IH; [lia|assumption|lia].
Qed.

Lemma vsum_all : forall ps t cur d, lens_pos ps -> cur + total_len ps <= t ->
  vsum t cur ps d = sum_amt ps d.
Proof.
  induction ps as [|[l a] r IH]; intros t cur d H Hle; cbn [vsum sum_amt snd]; [reflexivity|].
  inversion H as [|? ? Hl Hr]; subst. cbn [fst] in Hl.
  cbn [total_len fst] in Hle.
  pose proof (total_len_nonneg r Hr) as Hn.
  destruct (Z.leb_spec (cur + l) t); [|lia].
  rewrite IH; [reflexivity|assumption|lia].
Qed.

Lemma vested_loop_vsum : forall ps t cur d, lens_pos ps ->
  vested_loop (t - cur) ps d = vsum t cur ps d.
Proof.
  induction ps as [|[l a] r IH]; intros t cur d H; cbn [vested_loop vsum]; [reflexivity|].
  inversion H as [|? ? Hl Hr]; subst. cbn [fst] in Hl.
  destruct (Z.ltb_spec (t - cur) l) as [Hlt|Hge]; destruct (Z.leb_spec (cur + l) t) as [Hle|Hgt]; try lia.
  - rewrite vsum_none; [lia|assumption|lia].
  - replace (t - cur - l) with (t - (cur + l)) by lia. rewrite IH by assumption. reflexivity.
Qed.

(* the SDK's GetVestedCoins of a well-formed account is the unlock-list sum *)
Lemma get_vested_vsum : forall a t d, pva_wf a ->
  get_vested a t d = vsum t (p_start a) (p_periods a) d.
Proof.
  intros a t d [Hne Hpos Hlen Hamt]. unfold get_vested.
  destruct (Z.leb_spec t (p_start a)) as [H1|H1].
  - symmetry. apply vsum_none; assumption.
  - destruct (Z.leb_spec (p_end a) t) as [H2|H2].
    + rewrite vsum_all; [symmetry; apply Hamt|assumption|lia].
    + apply vested_loop_vsum; assumption.
Qed.

Lemma vsum_app : forall ps qs t cur d,
  vsum t cur (ps ++ qs) d = vsum t cur ps d + vsum t (cur + total_len ps) qs d.
Proof.
  induction ps as [|[l a] r IH]; intros qs t cur d; cbn [app vsum total_len fst].
  - replace (cur + 0) with cur by lia. lia.
  - rewrite IH. replace (cur + l + total_len r) with (cur + (l + total_len r)) by lia. lia.
Qed.

Lemma vsum_nonneg : forall ps t cur d, amts_nonneg ps d -> 0 <= vsum t cur ps d.
Proof.
  induction ps as [|[l a] r IH]; intros t cur d H; cbn [vsum]; [lia|].
  inversion H as [|? ? Ha Hr]; subst. cbn [snd] in Ha.
  specialize (IH t (cur + l) d Hr). destruct (cur + l <=? t); lia.
Qed.

Lemma vsum_le_sum : forall ps t cur d, amts_nonneg ps d -> vsum t cur ps d <= sum_amt ps d.
Proof.
  induction ps as [|[l a] r IH]; intros t cur d H; cbn [vsum sum_amt snd]; [lia|].
  inversion H as [|? ? Ha Hr]; subst. cbn [snd] in Ha.
  specialize (IH t (cur + l) d Hr). destruct (cur + l <=? t); lia.
Qed.

(** * The schedule merge *)

Lemma lens_pos_app : forall ps qs, lens_pos ps -> lens_pos qs -> lens_pos (ps ++ qs).
Proof. intros. apply Forall_app; split; assumption. Qed.

Lemma shift_first_vsum : forall ps t st now d, ps <> [] ->
  vsum t now (shift_first (st - now) ps) d = vsum t st ps d.
Proof.
  intros [|[l a] r] t st now d Hne; [congruence|]. cbn [shift_first vsum].
  replace (now + (l + (st - now))) with (st + l) by lia. reflexivity.
Qed.

Lemma shift_first_total : forall ps delta, ps <> [] ->
  total_len (shift_first delta ps) = total_len ps + delta.
Proof.
  intros [|[l a] r] delta Hne; [congruence|]. cbn [shift_first total_len fst]. lia.
Qed.

Lemma shift_first_sum : forall ps delta d, sum_amt (shift_first delta ps) d = sum_amt ps d.
Proof. intros [|[l a] r] delta d; reflexivity. Qed.

Lemma shift_first_pos : forall ps delta, 0 <= delta -> lens_pos ps -> lens_pos (shift_first delta ps).
Proof.
  intros [|[l a] r] delta Hd H; [constructor|]. cbn [shift_first].
  inversion H as [|? ? Hl Hr]; subst. cbn [fst] in Hl. constructor; [cbn [fst]; lia|assumption].
Qed.

Lemma shift_first_nonempty : forall ps delta, ps <> [] -> shift_first delta ps <> [].
Proof. intros [|[l a] r] delta H; [congruence|]. cbn [shift_first]. congruence. Qed.

Lemma shift_first_nonneg : forall ps delta d, amts_nonneg ps d -> amts_nonneg (shift_first delta ps) d.
Proof.
  intros [|[l a] r] delta d H; [constructor|]. cbn [shift_first].
  inversion H; subst. constructor; assumption.
Qed.

(* the insertion loop adds exactly one unlock event, at cur + (target - cnt) *)
Lemma insert_period_vsum : forall ps target c cnt t cur d,
  lens_pos ps -> cnt < target -> target <= cnt + total_len ps ->
  vsum t cur (insert_period target c cnt ps) d =
  vsum t cur ps d + (if cur + (target - cnt) <=? t then c d else 0).
Proof.
  induction ps as [|[l a] r IH]; intros target c cnt t cur d H Hlt Hle.
  - cbn [total_len] in Hle. lia.
  - inversion H as [|? ? Hl Hr]; subst. cbn [fst] in Hl.
    cbn [total_len fst] in Hle.
    cbn [insert_period]. cbv zeta.
    destruct (Z.ltb_spec (cnt + l) target) as [H1|H1].
    + cbn [vsum]. rewrite IH by (try assumption; lia).
      replace (cur + l + (target - (cnt + l))) with (cur + (target - cnt)) by lia. lia.
    + destruct (Z.eqb_spec (cnt + l) target) as [H2|H2].
      * cbn [vsum]. unfold aadd. replace (cur + (target - cnt)) with (cur + l) by lia.
        destruct (cur + l <=? t); lia.
      * cbn [vsum].
        replace (cur + (target - cnt) + (l - (target - cnt))) with (cur + l) by lia.
        destruct (cur + (target - cnt) <=? t); destruct (cur + l <=? t); lia.
Qed.

Lemma insert_period_total : forall ps target c cnt,
  total_len (insert_period target c cnt ps) = total_len ps.
Proof.
  induction ps as [|[l a] r IH]; intros target c cnt; [reflexivity|].
  cbn [insert_period]. cbv zeta.
  destruct (cnt + l <? target).
  - cbn [total_len fst]. specialize (IH target c (cnt + l)). lia.
  - destruct (cnt + l =? target); cbn [total_len fst]; lia.
Qed.

Lemma insert_period_sum : forall ps target c cnt d,
  cnt < target -> target <= cnt + total_len ps -> lens_pos ps ->
  sum_amt (insert_period target c cnt ps) d = sum_amt ps d + c d.
Proof.
  induction ps as [|[l a] r IH]; intros target c cnt d Hlt Hle H.
  - cbn [total_len] in Hle. lia.
  - inversion H as [|? ? Hl Hr]; subst. cbn [fst] in Hl.
    cbn [total_len fst] in Hle.
    cbn [insert_period]. cbv zeta.
    destruct (Z.ltb_spec (cnt + l) target) as [H1|H1].
    + cbn [sum_amt snd]. specialize (IH target c (cnt + l) d).
      rewrite IH by (try assumption; lia). lia.
    + destruct (cnt + l =? target); cbn [sum_amt snd]; unfold aadd; lia.
Qed.

Lemma insert_period_pos : forall ps target c cnt,
  cnt < target -> lens_pos ps -> lens_pos (insert_period target c cnt ps).
Proof.
  induction ps as [|[l a] r IH]; intros target c cnt Hlt H; [constructor|].
  inversion H as [|? ? Hl Hr]; subst. cbn [fst] in Hl.
  cbn [insert_period]. cbv zeta.
  destruct (Z.ltb_spec (cnt + l) target) as [H1|H1].
  - constructor; [cbn [fst]; lia|]. apply IH; [lia|assumption].
  - destruct (Z.eqb_spec (cnt + l) target) as [H2|H2].
    + constructor; [cbn [fst]; lia|assumption].
    + constructor; [cbn [fst]; lia|]. constructor; [cbn [fst]; lia|assumption].
Qed.

Lemma insert_period_nonempty : forall ps target c cnt, ps <> [] -> insert_period target c cnt ps <> [].
Proof.
  intros [|[l a] r] target c cnt H; [congruence|]. cbn [insert_period]. cbv zeta.
  destruct (cnt + l <? target); [congruence|]. destruct (cnt + l =? target); congruence.
Qed.

Lemma insert_period_nonneg : forall ps target c cnt d,
  0 <= c d -> amts_nonneg ps d -> amts_nonneg (insert_period target c cnt ps) d.
Proof.
  induction ps as [|[l a] r IH]; intros target c cnt d Hc H; [constructor|].
  inversion H as [|? ? Ha Hr]; subst. cbn [snd] in Ha.
  cbn [insert_period]. cbv zeta.
  destruct (cnt + l <? target).
  - constructor; [assumption|]. apply IH; assumption.
  - destruct (cnt + l =? target).
    + constructor; [cbn [snd]; unfold aadd; lia|assumption].
    + constructor; [assumption|]. constructor; assumption.
Qed.

(* unlock events after the merge = unlock events before + one at now + len *)
Lemma add_coins_vsum : forall a now len c t d, pva_wf a -> 0 < len ->
  let a' := add_coins now len c a in
  vsum t (p_start a') (p_periods a') d =
  vsum t (p_start a) (p_periods a) d + (if now + len <=? t then c d else 0).
Proof.
  intros a now len c t d [Hne Hpos Hlen Hamt] Hl. cbv zeta. unfold add_coins.
  destruct (Z.ltb_spec (p_end a) now) as [H1|H1].
  - cbn [p_start p_periods]. rewrite vsum_app. cbn [vsum].
    replace (p_start a + total_len (p_periods a) + (now - p_end a + len)) with (now + len) by lia. lia.
  - destruct (Z.ltb_spec now (p_start a)) as [H2|H2].
    + destruct (Z.ltb_spec (p_end a - now) len) as [H3|H3]; cbn [p_start p_periods].
      * rewrite vsum_app, shift_first_vsum, shift_first_total by assumption. cbn [vsum].
        replace (now + (total_len (p_periods a) + (p_start a - now)) + (len - (p_end a - now))) with (now + len) by lia. lia.
      * rewrite insert_period_vsum.
        -- rewrite shift_first_vsum by assumption. replace (now + (now - now + len - 0)) with (now + len) by lia. reflexivity.
        -- apply shift_first_pos; [lia|assumption].
        -- lia.
        -- rewrite shift_first_total by assumption. lia.
    + destruct (Z.ltb_spec (p_end a - now) len) as [H3|H3]; cbn [p_start p_periods].
      * rewrite vsum_app. cbn [vsum].
        replace (p_start a + total_len (p_periods a) + (len - (p_end a - now))) with (now + len) by lia. lia.
      * rewrite insert_period_vsum; [|assumption|lia|lia].
        replace (p_start a + (now - p_start a + len - 0)) with (now + len) by lia. reflexivity.
Qed.

(* the merge keeps the account well formed *)
Lemma add_coins_wf : forall a now len c, pva_wf a -> 0 < len -> pva_wf (add_coins now len c a).
Proof.
  intros a now len c [Hne Hpos Hlen Hamt] Hl. unfold add_coins.
  destruct (Z.ltb_spec (p_end a) now) as [H1|H1].
  - constructor; cbn [p_start p_end p_ov p_periods].
    + intros E. apply app_eq_nil in E. destruct E; congruence.
    + apply lens_pos_app; [assumption|]. constructor; [cbn [fst]; lia|constructor].
    + rewrite total_len_app. cbn [total_len fst]. lia.
    + intros d. rewrite sum_amt_app. cbn [sum_amt snd]. unfold aadd. rewrite <- Hamt. lia.
  - destruct (Z.ltb_spec now (p_start a)) as [H2|H2].
    + destruct (Z.ltb_spec (p_end a - now) len) as [H3|H3]; constructor; cbn [p_start p_end p_ov p_periods].
      * intros E. apply app_eq_nil in E. destruct E; congruence.
      * apply lens_pos_app; [apply shift_first_pos; [lia|assumption]|]. constructor; [cbn [fst]; lia|constructor].
      * rewrite total_len_app, shift_first_total by assumption. cbn [total_len fst]. lia.
      * intros d. rewrite sum_amt_app, shift_first_sum. cbn [sum_amt snd]. unfold aadd. rewrite <- Hamt. lia.
      * apply insert_period_nonempty, shift_first_nonempty; assumption.
      * apply insert_period_pos; [lia|apply shift_first_pos; [lia|assumption]].
      * rewrite insert_period_total, shift_first_total by assumption. lia.
      * intros d. rewrite insert_period_sum.
        -- rewrite shift_first_sum. unfold aadd. rewrite Hamt. reflexivity.
        -- lia.
        -- rewrite shift_first_total by assumption. lia.
        -- apply shift_first_pos; [lia|assumption].
    + destruct (Z.ltb_spec (p_end a - now) len) as [H3|H3]; constructor; cbn [p_start p_end p_ov p_periods].
      * intros E. apply app_eq_nil in E. destruct E; congruence.
      * apply lens_pos_app; [assumption|]. constructor; [cbn [fst]; lia|constructor].
      * rewrite total_len_app. cbn [total_len fst]. lia.
      * intros d. rewrite sum_amt_app. cbn [sum_amt snd]. unfold aadd. rewrite <- Hamt. lia.
      * apply insert_period_nonempty; assumption.
      * apply insert_period_pos; [lia|assumption].
      * rewrite insert_period_total. lia.
      * intros d. rewrite insert_period_sum; [|lia|lia|assumption]. unfold aadd. rewrite Hamt. reflexivity.
Qed.

Lemma add_coins_ov : forall a now len c d, p_ov (add_coins now len c a) d = p_ov a d + c d.
Proof.
  intros. unfold add_coins.
  destruct (p_end a <? now); [reflexivity|].
  destruct (p_end a - now <? len); reflexivity.
Qed.

Lemma add_coins_dv : forall a now len c, p_dv (add_coins now len c a) = p_dv a.
Proof.
  intros. unfold add_coins.
  destruct (p_end a <? now); [reflexivity|].
  destruct (p_end a - now <? len); reflexivity.
Qed.

Lemma add_coins_nonneg : forall a now len c d, 0 <= c d ->
  amts_nonneg (p_periods a) d -> amts_nonneg (p_periods (add_coins now len c a)) d.
Proof.
  intros a now len c d Hc H. unfold add_coins.
  destruct (p_end a <? now); cbn [p_periods].
  - apply Forall_app; split; [assumption|]. constructor; [assumption|constructor].
  - destruct (p_end a - now <? len); cbn [p_periods].
    + apply Forall_app; split; [|constructor; [assumption|constructor]].
      destruct (now <? p_start a); [apply shift_first_nonneg|]; assumption.
    + apply insert_period_nonneg; [assumption|].
      destruct (now <? p_start a); [apply shift_first_nonneg|]; assumption.
Qed.

(** ** unlock_exact: the new coins unlock exactly at now + len; every earlier
       unlock time is unchanged — for every period layout *)
Theorem unlock_exact : forall a now len c t d, pva_wf a -> 0 < len ->
  get_vesting (add_coins now len c a) t d =
  get_vesting a t d + (if t <? now + len then c d else 0).
Proof.
  intros a now len c t d Hwf Hl. unfold get_vesting.
  rewrite (get_vested_vsum _ t d (add_coins_wf a now len c Hwf Hl)).
  rewrite (get_vested_vsum a t d Hwf).
  pose proof (add_coins_vsum a now len c t d Hwf Hl) as E. cbv zeta in E. rewrite E.
  rewrite add_coins_ov.
  destruct (Z.leb_spec (now + len) t); destruct (Z.ltb_spec t (now + len)); lia.
Qed.

Lemma new_pva_wf : forall now len c, 0 < len -> pva_wf (new_pva now len c).
Proof.
  intros now len c Hl. constructor; cbn [new_pva p_start p_end p_ov p_periods].
  - congruence.
  - constructor; [cbn [fst]; lia|constructor].
  - cbn [total_len fst]. lia.
  - intros d. cbn [sum_amt snd]. lia.
Qed.

(* base account -> new periodic vesting account: everything is locked until now + len *)
Theorem new_pva_vesting : forall now len c t d, 0 < len ->
  get_vesting (new_pva now len c) t d = if t <? now + len then c d else 0.
Proof.
  intros now len c t d Hl. unfold get_vesting.
  rewrite (get_vested_vsum _ t d (new_pva_wf now len c Hl)).
  cbn [new_pva p_start p_end p_ov p_periods vsum].
  destruct (Z.leb_spec (now + len) t); destruct (Z.ltb_spec t (now + len)); lia.
Qed.

(* vested and vesting amounts of a well-formed account with non-negative period
   amounts stay within [0, OriginalVesting]: the Sub in GetVestingCoins cannot panic *)
Lemma vested_bounds : forall a t d, pva_wf a -> amts_nonneg (p_periods a) d ->
  0 <= get_vested a t d <= p_ov a d.
Proof.
  intros a t d Hwf Hnn. rewrite (get_vested_vsum a t d Hwf).
  pose proof (vsum_nonneg (p_periods a) t (p_start a) d Hnn).
  pose proof (vsum_le_sum (p_periods a) t (p_start a) d Hnn).
  rewrite <- (wf_amt a Hwf d). lia.
Qed.

Lemma vesting_nonneg : forall a t d, pva_wf a -> amts_nonneg (p_periods a) d ->
  0 <= get_vesting a t d <= p_ov a d.
Proof. intros a t d Hwf Hnn. pose proof (vested_bounds a t d Hwf Hnn). unfold get_vesting. lia. Qed.

(** ** locked_exact: the bank's LockedCoins, for accounts whose delegated
       vesting does not exceed what is still vesting at t *)
Theorem locked_exact : forall a now len c t d, pva_wf a -> 0 < len -> 0 <= c d ->
  p_dv a d <= get_vesting a t d ->
  pva_locked (add_coins now len c a) t d =
  pva_locked a t d + (if t <? now + len then c d else 0).
Proof.
  intros a now len c t d Hwf Hl Hc Hdv. unfold pva_locked, locked_from_vesting.
  rewrite unlock_exact by assumption. rewrite add_coins_dv.
  destruct (t <? now + len); lia.
Qed.

(* without that hypothesis: the lock on the new coins is reduced by the stale
   delegated-vesting excess, never increased *)
Theorem locked_general : forall a now len c t d, pva_wf a -> 0 < len -> 0 <= c d ->
  let x := if t <? now + len then c d else 0 in
  let excess := Z.max 0 (p_dv a d - get_vesting a t d) in
  pva_locked (add_coins now len c a) t d = pva_locked a t d + Z.max 0 (x - excess).
Proof.
  intros a now len c t d Hwf Hl Hc. cbv zeta. unfold pva_locked, locked_from_vesting.
  rewrite unlock_exact by assumption. rewrite add_coins_dv.
  destruct (t <? now + len); lia.
Qed.

Theorem new_pva_locked : forall now len c t d, 0 < len -> 0 <= c d ->
  pva_locked (new_pva now len c) t d = if t <? now + len then c d else 0.
Proof.
  intros now len c t d Hl Hc. unfold pva_locked, locked_from_vesting.
  rewrite new_pva_vesting by assumption. cbn [new_pva p_dv]. unfold azero.
  destruct (t <? now + len); lia.
Qed.

(** ** repeated claims on one account *)

(* a lock-up: (block time, length, coins) *)
Definition lockup := (Z * Z * amt)%type.
Definition apply_lockups (a : pva) (ls : list lockup) : pva :=
  fold_left (fun a l => add_coins (fst (fst l)) (snd (fst l)) (snd l) a) ls a.
Fixpoint still_locked (ls : list lockup) (t : Z) (d : nat) : Z :=
  match ls with
  | [] => 0
  | l :: r => (if t <? fst (fst l) + snd (fst l) then snd l d else 0) + still_locked r t d
  end.

Theorem repeated_claims : forall ls a t d, pva_wf a ->
  Forall (fun l => 0 < snd (fst l)) ls ->
  pva_wf (apply_lockups a ls) /\
  get_vesting (apply_lockups a ls) t d = get_vesting a t d + still_locked ls t d.
Proof.
  induction ls as [|[[now len] c] r IH]; intros a t d Hwf H.
  - cbn. split; [assumption|lia].
  - inversion H as [|? ? Hl Hr]; subst. cbn [fst snd] in Hl.
    unfold apply_lockups. cbn [fold_left fst snd].
    pose proof (add_coins_wf a now len c Hwf Hl) as Hwf'.
    destruct (IH (add_coins now len c a) t d Hwf' Hr) as [W E].
    unfold apply_lockups in W, E. split; [exact W|].
    rewrite E, unlock_exact by assumption. cbn [still_locked fst snd]. lia.
Qed.

(** * State level: SendTimeLockedCoinsToAccount over the abstract bank *)

Fixpoint total_of (d : nat) (c : coins) : Z :=
  match c with
  | [] => 0
  | (d', x) :: r => (if Nat.eqb d' d then x else 0) + total_of d r
  end.

Lemma valid_from_low : forall c p d, coins_valid_from (Some p) c = true -> (d <= p)%nat ->
  total_of d c = 0 /\ amount_of d c = 0.
Proof.
  induction c as [|[d0 x0] r IH]; intros p d H Hle; cbn [total_of amount_of]; [split; reflexivity|].
  cbn [coins_valid_from] in H. apply andb_prop in H. destruct H as [H H3].
  apply andb_prop in H. destruct H as [H1 H2]. apply Nat.ltb_lt in H2.
  destruct (IH d0 d H3 ltac:(lia)) as [E1 E2].
  destruct (Nat.eqb_spec d0 d); [lia|]. rewrite E1, E2. split; lia.
Qed.

Lemma valid_total_amount : forall c lo d, coins_valid_from lo c = true -> total_of d c = amount_of d c.
Proof.
  induction c as [|[d0 x0] r IH]; intros lo d H; cbn [total_of amount_of]; [reflexivity|].
  cbn [coins_valid_from] in H. apply andb_prop in H. destruct H as [H H3].
  destruct (Nat.eqb_spec d0 d) as [E|E].
  - subst. destruct (valid_from_low r d d H3 (Nat.le_refl d)) as [E1 _]. lia.
  - rewrite (IH (Some d0) d H3). lia.
Qed.

Lemma valid_amount_nonneg : forall c lo d, coins_valid_from lo c = true -> 0 <= amount_of d c.
Proof.
  induction c as [|[d0 x0] r IH]; intros lo d H; cbn [amount_of]; [lia|].
  cbn [coins_valid_from] in H. apply andb_prop in H. destruct H as [H H3].
  apply andb_prop in H. destruct H as [H1 H2]. apply Z.ltb_lt in H1.
  destruct (Nat.eqb d0 d); [lia|]. exact (IH (Some d0) d H3).
Qed.

Lemma valid_entries_pos : forall c lo d x, coins_valid_from lo c = true -> In (d, x) c -> 0 < x.
Proof.
  induction c as [|[d0 x0] r IH]; intros lo d x H Hin; [destruct Hin|].
  cbn [coins_valid_from] in H. apply andb_prop in H. destruct H as [H H3].
  apply andb_prop in H. destruct H as [H1 H2]. apply Z.ltb_lt in H1.
  destruct Hin as [E|Hin]; [inversion E; subst; assumption|]. exact (IH (Some d0) d x H3 Hin).
Qed.

Lemma locked_set_bal : forall s a d v x t y, locked (set_bal s a d v) x t y = locked s x t y.
Proof. reflexivity. Qed.

Lemma bsub_spec : forall c s t a s', bsub s t a c = Some s' ->
  kind s' = kind s /\
  forall x d, bal s' x d = bal s x d - (if Nat.eqb x a then total_of d c else 0).
Proof.
  induction c as [|[d0 x0] r IH]; intros s t a s' H; cbn [bsub] in H.
  - inversion H; subst. split; [reflexivity|]. intros x d. cbn [total_of]. destruct (Nat.eqb x a); lia.
  - destruct (bsub1 s t a d0 x0) as [s1|] eqn:E; [|discriminate].
    unfold bsub1 in E.
    destruct ((locked s a t d0 <=? bal s a d0) && (x0 <=? bal s a d0 - locked s a t d0)); [|discriminate].
    inversion E; subst. destruct (IH _ _ _ _ H) as [K B]. split; [rewrite K; reflexivity|].
    intros x d. rewrite B. cbn [bal set_bal total_of]. unfold upd2.
    destruct (Nat.eqb_spec x a), (Nat.eqb_spec d d0), (Nat.eqb_spec d0 d); subst; cbn [andb]; try congruence; lia.
Qed.

Lemma badd_spec : forall c s a,
  kind (badd s a c) = kind s /\
  forall x d, bal (badd s a c) x d = bal s x d + (if Nat.eqb x a then total_of d c else 0).
Proof.
  induction c as [|[d0 x0] r IH]; intros s a; cbn [badd].
  - split; [reflexivity|]. intros x d. cbn [total_of]. destruct (Nat.eqb x a); lia.
  - destruct (IH (set_bal s a d0 (bal s a d0 + x0)) a) as [K B]. split; [rewrite K; reflexivity|].
    intros x d. rewrite B. cbn [bal set_bal total_of]. unfold upd2.
    destruct (Nat.eqb_spec x a), (Nat.eqb_spec d d0), (Nat.eqb_spec d0 d); subst; cbn [andb]; try congruence; lia.
Qed.

(* a successful bank transfer moves exactly the coins, and only between the two parties *)
Lemma bsend_spec : forall s t f to c s', bsend s t f to c = Some s' ->
  coins_valid c = true /\ kind s' = kind s /\
  forall x d, bal s' x d = bal s x d - (if Nat.eqb x f then amount_of d c else 0)
                                    + (if Nat.eqb x to then amount_of d c else 0).
Proof.
  intros s t f to c s' H. unfold bsend in H.
  destruct (coins_valid c) eqn:V; cbn [negb] in H; [|discriminate].
  destruct (bsub s t f c) as [s1|] eqn:E; [|discriminate]. inversion H; subst.
  destruct (bsub_spec _ _ _ _ _ E) as [K1 B1]. destruct (badd_spec c s1 to) as [K2 B2].
  split; [reflexivity|]. split; [rewrite K2, K1; reflexivity|].
  intros x d. rewrite B2, B1. rewrite (valid_total_amount c None d V). reflexivity.
Qed.

Lemma m2a_spec : forall e s t r c s', m2a e s t r c = Some s' ->
  blocked e r = false /\ coins_valid c = true /\ kind s' = kind s /\
  forall x d, bal s' x d = bal s x d - (if Nat.eqb x (macc e) then amount_of d c else 0)
                                    + (if Nat.eqb x r then amount_of d c else 0).
Proof.
  intros e s t r c s' H. unfold m2a in H. destruct (blocked e r); [discriminate|].
  destruct (bsend_spec _ _ _ _ _ _ H) as [V [K B]]. repeat split; assumption.
Qed.

(* the vesting schedule of an account: what is still vesting at t (0 for non-vesting kinds) *)
Definition vesting_of (k : akind) (t : Z) (d : nat) : Z :=
  match k with KPeriodic p => get_vesting p t d | _ => 0 end.

Definition kind_ok (k : akind) : Prop :=
  match k with KPeriodic p => pva_wf p /\ (forall d, amts_nonneg (p_periods p) d) | _ => True end.

Definition Inv (e : env) (s : state) : Prop := forall a, (a < nacc e)%nat -> kind_ok (kind s a).

(* what a successful lock-up payout does *)
Theorem send_locked_spec : forall e s now r c len s',
  send_time_locked e s now r c len = Ok s' tt -> 0 < len -> kind_ok (kind s r) ->
  (kind s r = KBase \/ exists p, kind s r = KPeriodic p) /\
  blocked e r = false /\ coins_valid c = true /\
  (forall d x, In (d, x) c -> 0 < x <= bal s (macc e) d) /\
  (forall a d, bal s' a d = bal s a d - (if Nat.eqb a (macc e) then amount_of d c else 0)
                                     + (if Nat.eqb a r then amount_of d c else 0)) /\
  (forall a, a <> r -> kind s' a = kind s a) /\
  kind_ok (kind s' r) /\
  (exists p', kind s' r = KPeriodic p' /\
     p_dv p' = match kind s r with KPeriodic p => p_dv p | _ => azero end) /\
  (forall t d, vesting_of (kind s' r) t d =
               vesting_of (kind s r) t d + (if t <? now + len then amount_of d c else 0)).
Proof.
  intros e s now r c len s' H Hl Hok. unfold send_time_locked in H.
  destruct (coins_valid c) eqn:V; cbn [negb] in H; [|discriminate].
  destruct (macc_covers e s c) eqn:MC; cbn [negb] in H; [|discriminate].
  assert (Hcov : forall d x, In (d, x) c -> 0 < x <= bal s (macc e) d).
  { intros d x Hin. split; [exact (valid_entries_pos c None d x V Hin)|].
    unfold macc_covers in MC. rewrite forallb_forall in MC. specialize (MC (d, x) Hin).
    cbn [fst snd] in MC. apply Z.leb_le in MC. exact MC. }
  destruct (Z.eqb_spec len 0) as [E0|E0]; [lia|].
  destruct (kind s r) as [| |p| | |] eqn:K; try discriminate.
  - (* base account -> new periodic vesting account *)
    destruct (m2a e s now r c) as [s1|] eqn:M; [|discriminate]. inversion H; subst s'.
    destruct (m2a_spec _ _ _ _ _ _ M) as [Bk [_ [K1 B1]]].
    split; [left; reflexivity|]. split; [assumption|]. split; [reflexivity|]. split; [assumption|].
    split; [intros a d; cbn [bal set_kind]; apply B1|].
    split; [intros a Ha; cbn [kind set_kind]; unfold upd; destruct (Nat.eqb_spec a r); [congruence|]; rewrite K1; reflexivity|].
    cbn [kind set_kind]. unfold upd. rewrite Nat.eqb_refl.
    split; [split; [apply new_pva_wf; assumption|]|].
    { intros d. cbn [new_pva p_periods]. constructor; [|constructor]. cbn [snd]. unfold to_amt.
      exact (valid_amount_nonneg c None d V). }
    split; [eexists; split; [reflexivity|reflexivity]|].
    intros t d. cbn [vesting_of]. rewrite new_pva_vesting by assumption. unfold to_amt. lia.
  - (* periodic vesting account: schedule merge *)
    destruct (m2a e s now r c) as [s1|] eqn:M; [|discriminate]. inversion H; subst s'.
    destruct (m2a_spec _ _ _ _ _ _ M) as [Bk [_ [K1 B1]]].
    destruct Hok as [Hwf Hnn].
    split; [right; eexists; reflexivity|]. split; [assumption|]. split; [reflexivity|]. split; [assumption|].
    split; [intros a d; cbn [bal set_kind]; apply B1|].
    split; [intros a Ha; cbn [kind set_kind]; unfold upd; destruct (Nat.eqb_spec a r); [congruence|]; rewrite K1; reflexivity|].
    cbn [kind set_kind]. unfold upd. rewrite Nat.eqb_refl.
    split; [split; [apply add_coins_wf; assumption|]|].
    { intros d. apply add_coins_nonneg; [|apply Hnn]. unfold to_amt. exact (valid_amount_nonneg c None d V). }
    split; [eexists; split; [reflexivity|apply add_coins_dv]|].
    intros t d. cbn [vesting_of]. rewrite unlock_exact by assumption. unfold to_amt. reflexivity.
Qed.

(* the bank's LockedCoins and SpendableCoins of the recipient, before and after *)
Theorem send_locked_bank_view : forall e s now r c len s' t,
  send_time_locked e s now r c len = Ok s' tt -> 0 < len -> kind_ok (kind s r) ->
  (* delegated vesting does not exceed what is still vesting at t *)
  (forall d, match kind s r with KPeriodic p => p_dv p d <= get_vesting p t d | _ => True end) ->
  (forall d, locked s' r t d = locked s r t d + (if t <? now + len then amount_of d c else 0)) /\
  (* previously held coins stay spendable; the reward becomes spendable at now + len *)
  (solvent e s r t = true -> r <> macc e ->
   forall d, spendable e s' r t d = spendable e s r t d + (if now + len <=? t then amount_of d c else 0)).
Proof.
  intros e s now r c len s' t H Hl Hok Hdv.
  destruct (send_locked_spec _ _ _ _ _ _ _ H Hl Hok) as [Hk [_ [V [_ [B [_ [_ [[p' [K' DV']] HV]]]]]]]].
  assert (HL : forall d, locked s' r t d = locked s r t d + (if t <? now + len then amount_of d c else 0)).
  { intros d. specialize (HV t d). specialize (Hdv d).
    pose proof (valid_amount_nonneg c None d V) as Hc.
    unfold locked. rewrite K'. rewrite K' in HV. cbn [vesting_of] in HV.
    unfold pva_locked, locked_from_vesting. rewrite HV, DV'.
    destruct Hk as [Kb|[p Kp]].
    - rewrite Kb. cbn [vesting_of]. unfold azero. destruct (t <? now + len); lia.
    - rewrite Kp in *. cbn [vesting_of]. destruct (t <? now + len); lia. }
  split; [exact HL|].
  intros Hs Hne d.
  assert (Hs' : solvent e s' r t = true).
  { unfold solvent in *. rewrite forallb_forall in *. intros d0 Hin. specialize (Hs d0 Hin).
    apply Z.leb_le in Hs. apply Z.leb_le. rewrite HL, B.
    destruct (Nat.eqb_spec r (macc e)); [congruence|]. rewrite Nat.eqb_refl.
    pose proof (valid_amount_nonneg c None d0 V). destruct (t <? now + len); lia. }
  unfold spendable. rewrite Hs, Hs', HL, B.
  destruct (Nat.eqb_spec r (macc e)); [congruence|]. rewrite Nat.eqb_refl.
  destruct (Z.ltb_spec t (now + len)); destruct (Z.leb_spec (now + len) t); lia.
Qed.

(** ** refusals *)

Theorem refused_kinds : forall e s now r c len, len <> 0 ->
  (kind s r = KModule \/ kind s r = KContinuous \/ kind s r = KOther \/ kind s r = KNone) ->
  send_time_locked e s now r c len = Err.
Proof.
  intros e s now r c len Hl Hk. unfold send_time_locked.
  destruct (coins_valid c); cbn [negb]; [|reflexivity].
  destruct (macc_covers e s c); cbn [negb]; [|reflexivity].
  destruct (Z.eqb_spec len 0); [contradiction|].
  destruct Hk as [K|[K|[K|K]]]; rewrite K; reflexivity.
Qed.

Theorem refused_missing_account : forall e s now r c len,
  kind s r = KNone -> send_time_locked e s now r c len = Err.
Proof.
  intros e s now r c len K. unfold send_time_locked.
  destruct (coins_valid c); cbn [negb]; [|reflexivity].
  destruct (macc_covers e s c); cbn [negb]; [|reflexivity].
  rewrite K. reflexivity.
Qed.

Theorem refused_insufficient : forall e s now r c len d x,
  In (d, x) c -> bal s (macc e) d < x -> send_time_locked e s now r c len = Err.
Proof.
  intros e s now r c len d x Hin Hlt. unfold send_time_locked.
  destruct (coins_valid c); cbn [negb]; [|reflexivity].
  destruct (macc_covers e s c) eqn:MC; cbn [negb]; [|reflexivity].
  unfold macc_covers in MC. rewrite forallb_forall in MC. specialize (MC (d, x) Hin).
  cbn [fst snd] in MC. apply Z.leb_le in MC. lia.
Qed.

Theorem refused_invalid_coins : forall e s now r c len,
  coins_valid c = false -> send_time_locked e s now r c len = Err.
Proof. intros e s now r c len V. unfold send_time_locked. rewrite V. reflexivity. Qed.

Theorem refused_blocked : forall e s now r c len,
  blocked e r = true -> send_time_locked e s now r c len <> Panic /\
  forall s' u, send_time_locked e s now r c len <> Ok s' u.
Proof.
  intros e s now r c len Bk. unfold send_time_locked, m2a. rewrite Bk.
  destruct (coins_valid c); cbn [negb]; [|split; [discriminate|intros; discriminate]].
  destruct (macc_covers e s c); cbn [negb]; [|split; [discriminate|intros; discriminate]].
  destruct (kind s r); destruct (len =? 0); split; try discriminate; intros; discriminate.
Qed.

Theorem failed_changes_nothing : forall e s o,
  (forall s' u, step e s o <> Ok s' u) -> step' e s o = s.
Proof.
  intros e s o H. unfold step'. destruct (step e s o) as [s' u| |] eqn:E; auto.
  exfalso. exact (H s' u eq_refl).
Qed.

(** ** plain transfers and spends do not touch any schedule *)

Lemma send_zero_kind : forall e s now r c s',
  send_time_locked e s now r c 0 = Ok s' tt -> kind s' = kind s.
Proof.
  intros e s now r c s' H. unfold send_time_locked in H.
  destruct (coins_valid c); cbn [negb] in H; [|discriminate].
  destruct (macc_covers e s c); cbn [negb] in H; [|discriminate].
  destruct (kind s r); try discriminate; cbn [Z.eqb] in H;
    (destruct (m2a e s now r c) as [s1|] eqn:M; [|discriminate]); inversion H; subst;
    destruct (m2a_spec _ _ _ _ _ _ M) as [_ [_ [K _]]]; exact K.
Qed.

(** ** all histories: every schedule stays well formed *)

Lemma send_inv : forall e s now r c len s', Inv e s -> (r < nacc e)%nat -> 0 <= len ->
  send_time_locked e s now r c len = Ok s' tt -> Inv e s'.
Proof.
  intros e s now r c len s' HI Hr Hl H.
  destruct (Z.eqb_spec len 0) as [E|E].
  - subst. unfold Inv. rewrite (send_zero_kind _ _ _ _ _ _ H). exact HI.
  - assert (Hl' : 0 < len) by lia.
    destruct (send_locked_spec _ _ _ _ _ _ _ H Hl' (HI r Hr)) as [_ [_ [_ [_ [_ [Ko [Kr _]]]]]]].
    intros a Ha. destruct (Nat.eq_dec a r) as [->|Hne]; [exact Kr|]. rewrite (Ko a Hne). exact (HI a Ha).
Qed.

Lemma step_inv : forall e s o s' u, Inv e s -> op_ok o = true -> step e s o = Ok s' u -> Inv e s'.
Proof.
  intros e s o s' u HI Hok H. destruct u. destruct o as [now r c len|now r c months|now a c|now months]; cbn [step] in H.
  - destruct (in_range e r) eqn:R; [|discriminate]. apply Nat.ltb_lt in R.
    unfold op_ok, op_len in Hok. apply Z.leb_le in Hok. exact (send_inv _ _ _ _ _ _ _ HI R Hok H).
  - destruct (in_range e r) eqn:R; cbn [negb] in H; [|discriminate]. apply Nat.ltb_lt in R.
    unfold op_ok, op_len in Hok.
    destruct (get_period_length now months) as [len|]; [|discriminate].
    apply Z.leb_le in Hok. exact (send_inv _ _ _ _ _ _ _ HI R Hok H).
  - destruct (in_range e a); cbn [negb] in H; [|discriminate].
    assert (forall s1, bsend s now a (sink e) c = Some s1 -> Inv e s1) as Hb.
    { intros s1 Hs. destruct (bsend_spec _ _ _ _ _ _ Hs) as [_ [K _]]. unfold Inv. rewrite K. exact HI. }
    destruct (kind s a); try discriminate;
      (destruct (bsend s now a (sink e) c) as [s1|] eqn:Hs; [|discriminate]); inversion H; subst; exact (Hb _ eq_refl).
  - destruct (get_period_length now months); [|discriminate]. inversion H; subst. exact HI.
Qed.

Theorem run_inv : forall e ops s, Inv e s -> forallb op_ok ops = true -> Inv e (run e s ops).
Proof.
  intros e ops. induction ops as [|o r IH]; intros s HI Hok; [exact HI|].
  cbn [forallb] in Hok. apply andb_prop in Hok. destruct Hok as [H1 H2].
  unfold run. cbn [fold_left]. apply IH; [|exact H2].
  unfold step'. destruct (step e s o) as [s' u| |] eqn:E; [|exact HI|exact HI].
  exact (step_inv _ _ _ _ _ HI H1 E).
Qed.

(* the boolean invariant evaluated during the correspondence run implies [Inv] *)
Lemma pva_wf_b_sound : forall n p, pva_wf_b n p = true ->
  p_periods p <> [] /\ lens_pos (p_periods p) /\ total_len (p_periods p) = p_end p - p_start p /\
  forall d, (d < n)%nat -> sum_amt (p_periods p) d = p_ov p d /\ amts_nonneg (p_periods p) d.
Proof.
  intros n p H. unfold pva_wf_b in H.
  apply andb_prop in H. destruct H as [H H4]. apply andb_prop in H. destruct H as [H H3].
  apply andb_prop in H. destruct H as [H1 H2].
  split; [destruct (p_periods p); [discriminate|congruence]|].
  split; [apply Forall_forall; intros q Hq; rewrite forallb_forall in H2; apply Z.ltb_lt; exact (H2 q Hq)|].
  split; [apply Z.eqb_eq; exact H3|].
  intros d Hd. rewrite forallb_forall in H4. specialize (H4 d ltac:(apply in_seq; lia)).
  apply andb_prop in H4. destruct H4 as [H4 _]. apply andb_prop in H4. destruct H4 as [Ha Hb].
  split; [apply Z.eqb_eq; exact Ha|].
  apply Forall_forall. intros q Hq. rewrite forallb_forall in Hb. apply Z.leb_le. exact (Hb q Hq).
Qed.
